module verifharness

go 1.25.0

require github.com/buchgr/bazel-remote/v2 v2.0.0

require (
	cloud.google.com/go/longrunning v0.8.0 // indirect
	github.com/beorn7/perks v1.0.1 // indirect
	github.com/cespare/xxhash/v2 v2.3.0 // indirect
	github.com/djherbis/atime v1.1.0 // indirect
	github.com/klauspost/compress v1.19.0 // indirect
	github.com/mostynb/zstdpool-syncpool v0.0.13 // indirect
	github.com/munnerz/goautoneg v0.0.0-20191010083416-a7dc8b61c822 // indirect
	github.com/prometheus/client_golang v1.23.2 // indirect
	github.com/prometheus/client_model v0.6.2 // indirect
	github.com/prometheus/common v0.67.5 // indirect
	github.com/prometheus/procfs v0.19.2 // indirect
	github.com/valyala/gozstd v1.26.0 // indirect
	go.yaml.in/yaml/v2 v2.4.3 // indirect
	golang.org/x/net v0.57.0 // indirect
	golang.org/x/sync v0.22.0 // indirect
	golang.org/x/sys v0.47.0 // indirect
	golang.org/x/text v0.40.0 // indirect
	google.golang.org/genproto/googleapis/api v0.0.0-20260414002931-afd174a4e478 // indirect
	google.golang.org/genproto/googleapis/rpc v0.0.0-20260720211330-0afa2a65878a // indirect
	google.golang.org/grpc v1.82.1 // indirect
	google.golang.org/protobuf v1.36.11 // indirect
)

replace github.com/buchgr/bazel-remote/v2 => /repo
