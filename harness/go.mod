module verifharness

go 1.25.0

require github.com/buchgr/bazel-remote/v2 v2.0.0

replace github.com/buchgr/bazel-remote/v2 => /repo

require (
	cloud.google.com/go/longrunning v0.8.0
	github.com/abbot/go-http-auth v0.4.1-0.20220112235402-e1cee1c72f2f
	github.com/cpuguy83/go-md2man/v2 v2.0.7 // indirect
	github.com/djherbis/atime v1.1.0
	github.com/google/go-cmp v0.7.0
	github.com/google/uuid v1.6.0
	github.com/grpc-ecosystem/go-grpc-prometheus v1.2.0
	github.com/klauspost/compress v1.19.0
	github.com/minio/minio-go/v7 v7.0.98
	github.com/mostynb/go-grpc-compression v1.2.3
	github.com/mostynb/zstdpool-syncpool v0.0.13
	github.com/prometheus/client_golang v1.23.2
	github.com/prometheus/client_model v0.6.2 // indirect
	github.com/slok/go-http-metrics v0.13.0
	github.com/urfave/cli/v2 v2.27.7
	golang.org/x/oauth2 v0.36.0
	golang.org/x/sync v0.22.0
	golang.org/x/sys v0.47.0 // indirect
	google.golang.org/grpc v1.82.1
	google.golang.org/protobuf v1.36.11
	gopkg.in/yaml.v3 v3.0.1
)
require (
	github.com/Azure/azure-sdk-for-go/sdk/azcore v1.21.0
	github.com/Azure/azure-sdk-for-go/sdk/azidentity v1.13.1
	github.com/Azure/azure-sdk-for-go/sdk/storage/azblob v1.6.4
	github.com/go-ldap/ldap/v3 v3.4.12
	github.com/johannesboyne/gofakes3 v0.0.0-20230506070712-04da935ef877
	github.com/valyala/gozstd v1.26.0
	google.golang.org/genproto/googleapis/api v0.0.0-20260414002931-afd174a4e478
	google.golang.org/genproto/googleapis/bytestream v0.0.0-20260114163908-3f89685c29c3
	google.golang.org/genproto/googleapis/rpc v0.0.0-20260720211330-0afa2a65878a
)
require (
	cloud.google.com/go/compute/metadata v0.9.0 // indirect
	github.com/Azure/azure-sdk-for-go/sdk/internal v1.11.2 // indirect
	github.com/Azure/go-ntlmssp v0.1.1 // indirect
	github.com/AzureAD/microsoft-authentication-library-for-go v1.6.0 // indirect
	github.com/aws/aws-sdk-go v1.44.256 // indirect
	github.com/beorn7/perks v1.0.1 // indirect
	github.com/cespare/xxhash/v2 v2.3.0 // indirect
	github.com/dustin/go-humanize v1.0.1 // indirect
	github.com/go-asn1-ber/asn1-ber v1.5.8-0.20250403174932-29230038a667 // indirect
	github.com/go-ini/ini v1.67.0 // indirect
	github.com/golang-jwt/jwt/v5 v5.3.0 // indirect
	github.com/golang/snappy v1.0.0 // indirect
	github.com/klauspost/cpuid/v2 v2.3.0 // indirect
	github.com/klauspost/crc32 v1.3.0 // indirect
	github.com/kylelemons/godebug v1.1.0 // indirect
	github.com/minio/crc64nvme v1.1.1 // indirect
	github.com/minio/md5-simd v1.1.2 // indirect
	github.com/munnerz/goautoneg v0.0.0-20191010083416-a7dc8b61c822 // indirect
	github.com/philhofer/fwd v1.2.0 // indirect
	github.com/pkg/browser v0.0.0-20240102092130-5ac0b6a4141c // indirect
	github.com/prometheus/common v0.67.5 // indirect
	github.com/prometheus/procfs v0.19.2 // indirect
	github.com/rs/xid v1.6.0 // indirect
	github.com/russross/blackfriday/v2 v2.1.0 // indirect
	github.com/ryszard/goskiplist v0.0.0-20150312221310-2dfbae5fcf46 // indirect
	github.com/shabbyrobe/gocovmerge v0.0.0-20190829150210-3e036491d500 // indirect
	github.com/tinylib/msgp v1.6.3 // indirect
	github.com/xrash/smetrics v0.0.0-20250705151800-55b8f293f342 // indirect
	go.yaml.in/yaml/v2 v2.4.3 // indirect
	go.yaml.in/yaml/v3 v3.0.4 // indirect
	golang.org/x/crypto v0.54.0 // indirect
	golang.org/x/net v0.57.0 // indirect
	golang.org/x/text v0.40.0 // indirect
	golang.org/x/tools v0.47.0 // indirect
)
