// Package hlib is shared by the harness drivers under ../cmd: each driver drives the bazel-remote implementation (built from /repo with -tags verif)
// on generated cases and writes (a) a Coq file in which the model is evaluated on the same
// cases and (b) a JSON report with the direct-oracle verdicts and the measured distribution.
package hlib

import (
	"encoding/json"
	"flag"
	"fmt"
	"os"
	"sort"
	"strings"
)

// ---- PRNG: every random choice derives from one splitmix64 state

type Rng struct{ S uint64 }

func (r *Rng) Next() uint64 {
	r.S += 0x9e3779b97f4a7c15
	z := r.S
	z = (z ^ (z >> 30)) * 0xbf58476d1ce4e5b9
	z = (z ^ (z >> 27)) * 0x94d049bb133111eb
	return z ^ (z >> 31)
}
func (r *Rng) Intn(n int) int        { return int(r.Next() % uint64(n)) }
func (r *Rng) Pick(xs []int64) int64 { return xs[r.Intn(len(xs))] }
func (r *Rng) Chance(pct int) bool   { return r.Intn(100) < pct }
func (r *Rng) Bytes(n int) []byte {
	b := make([]byte, n)
	for i := 0; i < n; i += 8 {
		v := r.Next()
		for j := 0; j < 8 && i+j < n; j++ {
			b[i+j] = byte(v >> (8 * j))
		}
	}
	return b
}

// ---- report

type OracleFailure struct {
	Case int    `json:"case"`
	What string `json:"what"`
	Text string `json:"text"` // the case, human readable (the replay)
}

type Report struct {
	Driver         string          `json:"driver"`
	Seed           uint64          `json:"seed"`
	Cases          int             `json:"cases"`
	Evaluations    int             `json:"evaluations"` // operations / requests executed
	Distinct       int             `json:"distinct_nontrivial"`
	Rule           string          `json:"rule"`
	Distribution   map[string]int  `json:"distribution"`
	OracleFailures []OracleFailure `json:"oracle_failures"`
	Samples        []string        `json:"samples"`
	CaseTexts      []string        `json:"case_texts"` // one line per case (for replays)
	distinctSet    map[string]bool
}

func NewReport(driver string, seed uint64) *Report {
	return &Report{Driver: driver, Seed: seed, Distribution: map[string]int{}, distinctSet: map[string]bool{}}
}
func (r *Report) Count(k string)            { r.Distribution[k]++ }
func (r *Report) DistinctCase(canon string) { r.distinctSet[canon] = true }
func (r *Report) Fail(c int, what, text string) {
	r.OracleFailures = append(r.OracleFailures, OracleFailure{c, what, text})
}
func (r *Report) Write(path string) {
	r.Distinct = len(r.distinctSet)
	if r.OracleFailures == nil {
		r.OracleFailures = []OracleFailure{}
	}
	b, _ := json.MarshalIndent(r, "", " ")
	if err := os.WriteFile(path, b, 0644); err != nil {
		panic(err)
	}
}

// ---- Coq term printing

func CZ(n int64) string {
	if n < 0 {
		return fmt.Sprintf("(%d)", n)
	}
	return fmt.Sprintf("%d", n)
}
func CU(n uint64) string { return fmt.Sprintf("%d", n) }
func CS(s string) string { return "\"" + strings.ReplaceAll(s, "\"", "\"\"") + "\"" }
func CB(b bool) string {
	if b {
		return "true"
	}
	return "false"
}
func CList(xs []string) string { return "[" + strings.Join(xs, "; ") + "]" }

func SortedKeys(m map[string]int) []string {
	var ks []string
	for k := range m {
		ks = append(ks, k)
	}
	sort.Strings(ks)
	return ks
}

// writeCases writes the Coq file: imports, the list of cases of the given type, and the
// evaluation that prints the indices of mismatching cases.
func WriteCases(path, imports, caseType, okFn string, cases []string) {
	var sb strings.Builder
	sb.WriteString("(* written by /verif/harness; evaluated by ./check *)\n")
	sb.WriteString("From BR Require Import Base.Prelude " + imports + ".\n")
	sb.WriteString("Open Scope string_scope.\nOpen Scope Z_scope.\n")
	sb.WriteString("Definition cases : list (" + caseType + ") := [\n")
	for i, c := range cases {
		sb.WriteString(c)
		if i < len(cases)-1 {
			sb.WriteString(";\n")
		}
	}
	sb.WriteString("\n].\n")
	sb.WriteString("Definition M := Eval vm_compute in false_positions 0 (map " + okFn + " cases).\nPrint M.\n")
	if err := os.WriteFile(path, []byte(sb.String()), 0644); err != nil {
		panic(err)
	}
}

// DriverFn runs one driver: seed, number of cases, output .v file, output .json report, extra args.
type DriverFn func(seed uint64, n int, outV, outJSON string, args []string)

// Main parses the common flags and runs the driver.
func Main(name string, d DriverFn) {
	fs := flag.NewFlagSet(name, flag.ExitOnError)
	seed := fs.Uint64("seed", 1, "PRNG seed")
	n := fs.Int("n", 100, "number of cases")
	outV := fs.String("out", "cases.v", "Coq cases file")
	outJ := fs.String("json", "report.json", "JSON report")
	_ = fs.Parse(os.Args[1:])
	d(*seed, *n, *outV, *outJ, fs.Args())
}
