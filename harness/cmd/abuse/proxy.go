package main

// Blobs SUPPLIED BY A PROXY BACKEND: on a local miss disk.get copies what the backend sends into a
// temp file and parses it like a local file (casblob header and all).  The stub backend serves
// whatever bytes the scenario registered for a hash.

import (
	"bytes"
	"context"
	"fmt"
	"io"
	"os"
	"sync"

	"github.com/buchgr/bazel-remote/v2/cache"
	pb "github.com/buchgr/bazel-remote/v2/genproto/build/bazel/remote/execution/v2"
)

type stubProxy struct {
	mu    sync.Mutex
	blobs map[string][]byte // "kind/hash" -> what the backend sends
	sizes map[string]int64  // logical size the backend claims
}

func (p *stubProxy) Put(ctx context.Context, kind cache.EntryKind, hash string, logicalSize int64, sizeOnDisk int64, rc io.ReadCloser) {
	_ = rc.Close()
}

func (p *stubProxy) Get(ctx context.Context, kind cache.EntryKind, hash string, size int64) (io.ReadCloser, int64, error) {
	p.mu.Lock()
	defer p.mu.Unlock()
	b, ok := p.blobs[kind.String()+"/"+hash]
	if !ok {
		return nil, -1, nil
	}
	return io.NopCloser(bytes.NewReader(b)), p.sizes[kind.String()+"/"+hash], nil
}

func (p *stubProxy) Contains(ctx context.Context, kind cache.EntryKind, hash string, size int64) (bool, int64) {
	p.mu.Lock()
	defer p.mu.Unlock()
	_, ok := p.blobs[kind.String()+"/"+hash]
	return ok, p.sizes[kind.String()+"/"+hash]
}

func (p *stubProxy) set(kind cache.EntryKind, hash string, size int64, data []byte) {
	p.mu.Lock()
	p.blobs[kind.String()+"/"+hash] = data
	p.sizes[kind.String()+"/"+hash] = size
	p.mu.Unlock()
}

// every mutation of a casblob file image, supplied by the backend instead of found on disk
func (d *drv) proxyCorpus() {
	f := d.fp
	for i, m := range mutationTable {
		if m.f == nil || uint64(i)%2 != d.rep.Seed%2 {
			continue
		}
		// a well-formed file image: store in the plain zstd cache, read the file back
		b := d.fz.store(compressible(d.r, []int{5000, 1<<20 + 9}[i%2]), "image")
		img, err := os.ReadFile(d.fz.pathOf("cas/" + b.hash))
		if err != nil {
			continue
		}
		d.proxy.set(cache.CAS, b.hash, b.size, m.f(img, d.r))
		d.rep.Count("proxy-supplied")
		nfail := len(d.rep.OracleFailures)
		sz := fmt.Sprint(b.size)
		d.bsRead(f, "blobs/"+b.hash+"/"+sz, 0, 0, -1, false)
		d.bsRead(f, "compressed-blobs/zstd/"+b.hash+"/"+sz, 0, 0, -1, false)
		d.bsRead(f, "blobs/"+b.hash+"/"+sz, b.size/2, 0, -1, false)
		d.httpCall(f, false, "GET", "/cas/"+b.hash, httpOpt{hdr: map[string]string{}}, false)
		d.httpCall(f, false, "GET", "/cas/"+b.hash, httpOpt{hdr: map[string]string{"Accept-Encoding": "zstd"}}, false)
		d.httpCall(f, false, "HEAD", "/cas/"+b.hash, httpOpt{hdr: map[string]string{}}, false)
		for _, comp := range [][]pb.Compressor_Value{nil, {pb.Compressor_ZSTD}} {
			c := comp
			d.call(fmt.Sprintf("BatchReadBlobs[proxied] %s/%d compressors=%v", b.hash, b.size, c), false, func(ctx context.Context) outcome {
				_, err := f.cas.BatchReadBlobs(ctx, &pb.BatchReadBlobsRequest{Digests: []*pb.Digest{b.dg()}, AcceptableCompressors: c})
				return oc(err)
			})
		}
		d.call(fmt.Sprintf("GetTree[proxied] root=%s/%d", b.hash, b.size), false, func(ctx context.Context) outcome {
			return oc(drainTree(f, ctx, b.dg()))
		})
		d.call(fmt.Sprintf("FindMissingBlobs[proxied] %s/%d", b.hash, b.size), false, func(ctx context.Context) outcome {
			_, err := f.cas.FindMissingBlobs(ctx, &pb.FindMissingBlobsRequest{BlobDigests: []*pb.Digest{b.dg()}})
			return oc(err)
		})
		for k := nfail; k < len(d.rep.OracleFailures); k++ {
			d.rep.OracleFailures[k].Text = fmt.Sprintf("[the proxy backend supplies for CAS %s/%d a file image with: %s] ", b.hash, b.size, m.name) + d.rep.OracleFailures[k].Text
		}
		d.restLight("reading a blob supplied by the proxy backend with a damaged header: " + m.name)
	}
}
