package main

// The randomised part: one round = hostile requests to every endpoint family, then quiescence.

import (
	"bytes"
	"context"
	"encoding/base64"
	"encoding/hex"
	"fmt"
	"math"
	"strings"

	. "verifharness/hlib"

	asset "github.com/buchgr/bazel-remote/v2/genproto/build/bazel/remote/asset/v1"
	pb "github.com/buchgr/bazel-remote/v2/genproto/build/bazel/remote/execution/v2"

	"google.golang.org/genproto/googleapis/bytestream"
	"google.golang.org/grpc/codes"
)

func (d *drv) round(i int) {
	f := d.fz
	if i%2 == 1 {
		f = d.fu
	}
	d.nameCases = 0
	d.reads(f, 10)
	d.writes(f, 9)
	d.qws(f, 3)
	d.casBatch(f, 4)
	d.getTree(f, 6)
	d.splice(f, 6)
	d.actionCache(f, 8)
	d.assetAndCaps(f, 5)
	d.httpFamily(f, 18)
	for k := 0; k < 3; k++ {
		d.refusal(refusalCauses[d.r.Intn(len(refusalCauses))], refusalPaths[d.r.Intn(len(refusalPaths))], 1+d.r.Intn(3))
	}
	d.rest(fmt.Sprintf("round %d requests (%s)", i, f.mode))
	d.mutations(f, 3)
	d.rest(fmt.Sprintf("round %d file mutations (%s)", i, f.mode))
}

// ---- ByteStream

func (d *drv) reads(f *fx, n int) {
	r := d.r
	for i := 0; i < n; i++ {
		name, bad := d.hName(f, false)
		off, lim := int64(0), int64(0)
		if r.Chance(50) {
			off = r.Pick(extremes)
		}
		if r.Chance(30) {
			lim = r.Pick(extremes)
		}
		abort := -1
		if r.Chance(15) {
			abort = r.Intn(2)
		}
		d.rep.Count("read")
		o := d.bsRead(f, name, off, lim, abort, bad && abort < 0)
		if abort < 0 {
			d.nameCase("AReadName", name, o)
		}
	}
	// well-formed names of stored blobs with every kind of offset / limit; early aborts of large reads
	b := f.pool[r.Intn(len(f.pool))]
	for _, z := range []bool{false, true} {
		name := "blobs/" + b.hash + "/" + fmt.Sprint(b.size)
		if z {
			name = "compressed-blobs/zstd/" + b.hash + "/" + fmt.Sprint(b.size)
		}
		off := []int64{0, 1, b.size - 1, b.size, b.size + 1, b.size / 2, 1 << 20, -1, math.MaxInt64, math.MinInt64}[r.Intn(10)]
		lim := []int64{0, 0, 1, b.size, b.size + 1, -1, math.MaxInt64, math.MinInt64}[r.Intn(8)]
		d.rep.Count("read.stored")
		d.bsRead(f, name, off, lim, -1, off < 0 || off > b.size || lim < 0 || (z && lim != 0))
		big := f.pool[4]
		bn := strings.Replace(name, b.hash+"/"+fmt.Sprint(b.size), big.hash+"/"+fmt.Sprint(big.size), 1)
		d.rep.Count("read.abort")
		d.bsRead(f, bn, []int64{0, 1, 1 << 20, big.size - 1}[r.Intn(4)], 0, r.Intn(2), false)
	}
}

func (d *drv) freshBlob(n int) blob { return mkBlob(d.r.Bytes(n), "fresh") }

func split(data []byte, parts int) [][]byte {
	var out [][]byte
	for i := 0; i < parts; i++ {
		a, b := len(data)*i/parts, len(data)*(i+1)/parts
		out = append(out, data[a:b])
	}
	return out
}

func (d *drv) writes(f *fx, n int) {
	r := d.r
	for i := 0; i < n; i++ {
		size := []int{1, 2, 7, 100, 5000, 70000, 1<<20 + 5}[r.Intn(7)]
		b := d.freshBlob(size)
		z := r.Chance(40)
		payload := b.data
		kw := "blobs"
		if z {
			payload, kw = zenc.EncodeAll(b.data, nil), "compressed-blobs/zstd"
		}
		name := fmt.Sprintf("%suploads/%s/%s/%s/%d", d.oneOf("", "inst/", "a/b/"), d.oneOf("u", "uuid-1"), kw, b.hash, b.size)
		mk := func(pl []byte, parts int) []wmsg {
			var ms []wmsg
			for j, c := range split(pl, parts) {
				m := wmsg{data: c}
				if j == 0 || r.Chance(50) {
					m.name = name
				}
				ms = append(ms, m)
			}
			ms[len(ms)-1].fin = true
			return ms
		}
		kind := r.Intn(20)
		d.rep.Count(fmt.Sprintf("write.kind%02d", kind))
		// tiny blobs may be in the cache already (then a Write succeeds at once whatever is sent)
		me := func(x bool) bool { return x && size >= 7 }
		switch kind {
		case 0, 1:
			d.bsWrite(f, mk(payload, 1+r.Intn(4)), -1, true, false)
		case 2: // no message at all, then half-close / no half-close / abort
			switch r.Intn(3) {
			case 0:
				d.bsWrite(f, nil, -1, true, true)
			case 1:
				d.bsWrite(f, nil, -1, false, false)
			default:
				d.bsWrite(f, nil, 0, false, false)
			}
		case 3: // abort after k messages, no half-close
			ms := mk(payload, 2+r.Intn(4))
			ms[len(ms)-1].fin = false
			d.bsWrite(f, ms, r.Intn(len(ms)+1), false, false)
		case 4: // stop sending in the middle and wait
			ms := mk(payload, 3)
			ms[2].fin = false
			d.bsWrite(f, ms[:1+r.Intn(2)], -1, false, false)
		case 5: // the resource name changes
			ms := mk(payload, 3)
			other := d.freshBlob(size)
			for other.hash == b.hash {
				other = d.freshBlob(size)
			}
			ms[1].name = strings.Replace(name, b.hash, other.hash, 1)
			d.bsWrite(f, ms, -1, true, me(true))
		case 6: // first offset not zero
			ms := mk(payload, 2)
			ms[0].off = r.Pick([]int64{1, -1, int64(size), math.MaxInt64, math.MinInt64})
			d.bsWrite(f, ms, -1, true, me(true))
		case 7: // later offsets garbage (ignored by the server), data intact
			ms := mk(payload, 3)
			ms[1].off, ms[2].off = r.Pick(extremes), r.Pick(extremes)
			d.bsWrite(f, ms, -1, true, false)
		case 8: // more / fewer bytes than declared
			if r.Chance(50) {
				d.bsWrite(f, mk(append(append([]byte{}, payload...), 1, 2, 3), 2), -1, true, me(true))
			} else {
				ms := mk(payload[:len(payload)-1], 2)
				d.bsWrite(f, ms, -1, true, me(true))
			}
		case 9: // zstd: garbage, truncated, trailing bytes; the client keeps sending
			zn := fmt.Sprintf("uploads/u/compressed-blobs/zstd/%s/%d", b.hash, b.size)
			zp := zenc.EncodeAll(b.data, nil)
			var pl []byte
			must := true
			switch r.Intn(4) {
			case 0:
				pl = r.Bytes(len(zp) + 10)
			case 1:
				pl = zp[:len(zp)/2]
			case 2:
				pl = append(append([]byte{}, zp...), r.Bytes(9)...)
				must = false
			default:
				pl = append([]byte{0x28, 0xb5, 0x2f, 0xfd}, r.Bytes(40)...)
			}
			var ms []wmsg
			for j, c := range split(pl, 1+r.Intn(30)) {
				m := wmsg{data: c}
				if j == 0 {
					m.name = zn
				}
				ms = append(ms, m)
			}
			ms[len(ms)-1].fin = r.Chance(50)
			d.bsWrite(f, ms, -1, true, me(must))
		case 10: // hostile first resource name
			hn, bad := d.hName(f, true)
			o := d.bsWrite(f, []wmsg{{name: hn, data: payload, fin: true}}, -1, true, bad)
			d.nameCase("AWriteName", hn, o)
		case 11: // accepted by the front end, refused by the disk layer before reading: the client keeps sending
			sz := int64(diskMaxBlob + 1 + r.Intn(1000))
			bn := fmt.Sprintf("uploads/u/%s/%s/%d", kw, b.hash, sz)
			var ms []wmsg
			for j := 0; j < 40; j++ {
				ms = append(ms, wmsg{name: bn, data: r.Bytes(3000)})
			}
			d.bsWrite(f, ms, -1, r.Chance(50), false)
		case 12: // empty resource name / name only on a later message
			ms := mk(payload, 2)
			ms[0].name = ""
			d.bsWrite(f, ms, -1, true, true)
		case 13: // finish_write on the first of several messages
			ms := mk(payload, 3)
			ms[0].fin = true
			d.bsWrite(f, ms, -1, true, me(!z))
		case 14: // a stored blob is "uploaded" again with garbage data
			sb := f.pool[r.Intn(len(f.pool))]
			sn := fmt.Sprintf("uploads/u/%s/%s/%d", kw, sb.hash, sb.size)
			d.bsWrite(f, []wmsg{{name: sn, data: r.Bytes(50), off: r.Pick(extremes), fin: r.Chance(50)}, {data: r.Bytes(5)}}, -1, true, false)
		case 15: // declared sizes at the extremes
			sz := r.Pick([]int64{math.MaxInt64, srvMaxBlob + 1, srvMaxBlob, 1 << 40})
			d.bsWrite(f, []wmsg{{name: fmt.Sprintf("uploads/u/%s/%s/%d", kw, b.hash, sz), data: payload, fin: true}}, -1, true, true)
		case 16: // the empty blob, with and without data
			data := []byte(nil)
			if r.Chance(50) {
				data = []byte("x")
			}
			d.bsWrite(f, []wmsg{{name: "uploads/u/blobs/" + emptySha + "/0", data: data, fin: true}}, -1, true, false)
		case 17: // many empty messages
			ms := mk(payload, 1)
			var all []wmsg
			for j := 0; j < 50; j++ {
				all = append(all, wmsg{name: name})
			}
			d.bsWrite(f, append(all, ms...), -1, true, false)
		case 18: // wrong hash for the data
			other := d.freshBlob(size)
			for other.hash == b.hash {
				other = d.freshBlob(size)
			}
			wn := strings.Replace(name, b.hash, other.hash, 1)
			ms := mk(payload, 2)
			for j := range ms {
				if ms[j].name != "" {
					ms[j].name = wn
				}
			}
			d.bsWrite(f, ms, -1, true, me(true))
		default: // messages after finish_write
			ms := append(mk(payload, 2), wmsg{name: name, data: r.Bytes(10)}, wmsg{data: r.Bytes(10), fin: true})
			d.bsWrite(f, ms, -1, true, false)
		}
	}
}

func (d *drv) qws(f *fx, n int) {
	for i := 0; i < n; i++ {
		name, bad := d.hName(f, true)
		d.rep.Count("qws")
		o := d.call(fmt.Sprintf("QueryWriteStatus[%s] name=%q", f.mode, trunc(name)), bad, func(ctx context.Context) outcome {
			_, err := f.bs.QueryWriteStatus(ctx, &bytestream.QueryWriteStatusRequest{ResourceName: name})
			return oc(err)
		})
		d.nameCase("AQwsName", name, o)
	}
	d.call("QueryWriteStatus in-process nil request", true, func(ctx context.Context) outcome {
		_, err := f.direct.QueryWriteStatus(ctx, nil)
		return oc(err)
	})
}

// ---- CAS

// a digest that may be nil (in-process only), absent fields, malformed; bad = must be refused
func (d *drv) hDigest(f *fx, allowNil bool) (dg *pb.Digest, bad bool) {
	r := d.r
	if allowNil && r.Chance(10) {
		return nil, true
	}
	if r.Chance(8) {
		return &pb.Digest{}, true // hash "" with size 0
	}
	b := f.pool[r.Intn(len(f.pool))]
	h, hbad := d.hHash(f)
	if r.Chance(50) {
		h, hbad = b.hash, false
	}
	s := d.hSize(b.size)
	if s == 0 && h != emptySha {
		hbad = true
	}
	return dig(h, s), hbad
}

func (d *drv) casBatch(f *fx, n int) {
	r := d.r
	for i := 0; i < n; i++ {
		inproc := r.Chance(40)
		srv := pb.ContentAddressableStorageServer(nil)
		if inproc {
			srv = f.direct
		}
		tag := map[bool]string{true: "in-process", false: "wire"}[inproc]

		// FindMissingBlobs
		var ds []*pb.Digest
		anyBad := false
		for j := r.Intn(6); j >= 0; j-- {
			dg, bad := d.hDigest(f, inproc)
			ds = append(ds, dg)
			anyBad = anyBad || bad
		}
		d.rep.Count("findmissing")
		d.call(fmt.Sprintf("FindMissingBlobs[%s,%s] digests=%s", f.mode, tag, dtext(ds)), anyBad, func(ctx context.Context) outcome {
			var err error
			if inproc {
				req := &pb.FindMissingBlobsRequest{BlobDigests: ds}
				if r.Chance(5) {
					req = nil
				}
				_, err = srv.FindMissingBlobs(ctx, req)
				if req == nil && err == nil {
					return outcome{code: "OK-for-nil"}
				}
			} else {
				_, err = f.cas.FindMissingBlobs(ctx, &pb.FindMissingBlobsRequest{BlobDigests: ds, DigestFunction: pb.DigestFunction_Value(r.Intn(12) - 2)})
			}
			return oc(err)
		})

		// BatchReadBlobs
		ds, anyBad = nil, false
		for j := r.Intn(4); j >= 0; j-- {
			dg, bad := d.hDigest(f, inproc)
			ds = append(ds, dg)
			anyBad = anyBad || bad
		}
		comp := [][]pb.Compressor_Value{nil, {pb.Compressor_ZSTD}, {pb.Compressor_IDENTITY}, {pb.Compressor_Value(77), pb.Compressor_ZSTD}, {pb.Compressor_Value(-3)}}[r.Intn(5)]
		d.rep.Count("batchread")
		d.call(fmt.Sprintf("BatchReadBlobs[%s,%s] digests=%s compressors=%v", f.mode, tag, dtext(ds), comp), anyBad, func(ctx context.Context) outcome {
			req := &pb.BatchReadBlobsRequest{Digests: ds, AcceptableCompressors: comp}
			var err error
			if inproc {
				_, err = srv.BatchReadBlobs(ctx, req)
			} else {
				_, err = f.cas.BatchReadBlobs(ctx, req)
			}
			return oc(err)
		})

		// BatchUpdateBlobs
		var reqs []*pb.BatchUpdateBlobsRequest_Request
		var rt []string
		anyBad = false
		for j := r.Intn(3); j >= 0; j-- {
			b := d.freshBlob([]int{0, 1, 9, 3000}[r.Intn(4)])
			q := &pb.BatchUpdateBlobsRequest_Request{Digest: b.dg(), Data: b.data}
			switch r.Intn(12) {
			case 0:
				if inproc {
					q, anyBad = nil, true
				}
			case 1:
				if inproc {
					q.Digest, anyBad = nil, true
				}
			case 2:
				q.Digest, anyBad = &pb.Digest{}, true
				q.Data = nil
			case 3:
				q.Compressor = pb.Compressor_ZSTD
				q.Data = zenc.EncodeAll(b.data, nil)
			case 4:
				q.Compressor = pb.Compressor_ZSTD // garbage / truncated / identity data declared zstd
				q.Data = [][]byte{r.Bytes(30), zenc.EncodeAll(b.data, nil)[:5], b.data}[r.Intn(3)]
			case 5:
				q.Compressor = pb.Compressor_Value([]int32{2, 3, 4, 99, -1, math.MaxInt32, math.MinInt32}[r.Intn(7)])
			case 6:
				q.Digest = dig(b.hash, d.hSize(b.size))
			case 7:
				h, bad := d.hHash(f)
				q.Digest = dig(h, b.size)
				anyBad = anyBad || bad || (b.size == 0 && h != emptySha)
			case 8:
				q.Data = append(q.Data, 1)
			case 9:
				q.Digest = dig(emptySha, 0)
			}
			if q != nil && q.Digest != nil && q.Digest.SizeBytes == 0 && q.Digest.Hash != emptySha {
				anyBad = true
			}
			reqs = append(reqs, q)
			if q == nil {
				rt = append(rt, "nil")
			} else {
				rt = append(rt, fmt.Sprintf("{digest=%s data=%d bytes compressor=%d}", dtext([]*pb.Digest{q.Digest}), len(q.Data), q.Compressor))
			}
		}
		d.rep.Count("batchupdate")
		d.call(fmt.Sprintf("BatchUpdateBlobs[%s,%s] requests=[%s]", f.mode, tag, strings.Join(rt, "; ")), anyBad, func(ctx context.Context) outcome {
			req := &pb.BatchUpdateBlobsRequest{Requests: reqs}
			var err error
			if inproc {
				_, err = srv.BatchUpdateBlobs(ctx, req)
			} else {
				_, err = f.cas.BatchUpdateBlobs(ctx, req)
			}
			return oc(err)
		})
	}
	d.call("SplitBlob", true, func(ctx context.Context) outcome {
		_, err := f.cas.SplitBlob(ctx, &pb.SplitBlobRequest{BlobDigest: f.pool[2].dg()})
		return oc(err)
	})
	for _, nilCall := range []func(context.Context) error{
		func(ctx context.Context) error { _, e := f.direct.BatchReadBlobs(ctx, nil); return e },
		func(ctx context.Context) error { _, e := f.direct.BatchUpdateBlobs(ctx, nil); return e },
		func(ctx context.Context) error { _, e := f.direct.SpliceBlob(ctx, nil); return e },
		func(ctx context.Context) error { _, e := f.direct.SplitBlob(ctx, nil); return e },
	} {
		nc := nilCall
		d.call("CAS in-process nil request", true, func(ctx context.Context) outcome { return oc(nc(ctx)) })
	}
}

func dtext(ds []*pb.Digest) string {
	var xs []string
	for _, x := range ds {
		if x == nil {
			xs = append(xs, "nil")
		} else {
			xs = append(xs, fmt.Sprintf("%q/%d", trunc(x.Hash), x.SizeBytes))
		}
	}
	return "[" + strings.Join(xs, ", ") + "]"
}

// fake server-side stream for in-process GetTree
type treeStream struct {
	pb.ContentAddressableStorage_GetTreeServer
	ctx  context.Context
	sent int
}

func (t *treeStream) Context() context.Context       { return t.ctx }
func (t *treeStream) Send(*pb.GetTreeResponse) error { t.sent++; return nil }

func (d *drv) getTree(f *fx, n int) {
	r := d.r
	for i := 0; i < n; i++ {
		b := f.dirs[r.Intn(len(f.dirs))]
		root, bad := b.dg(), false
		what := b.what
		switch r.Intn(8) {
		case 0:
			root, bad = d.hDigest(f, false)
			what = "generated digest"
		case 1:
			root, what = dig(b.hash, d.hSize(b.size)), b.what+" with another size"
			bad = root.SizeBytes == 0
		case 2:
			p := f.pool[r.Intn(len(f.pool))]
			root, what = p.dg(), "a data blob "+p.what
		}
		d.rep.Count("gettree")
		if r.Chance(25) {
			var req *pb.GetTreeRequest
			switch r.Intn(4) {
			case 0:
				req, bad = nil, true
			case 1:
				req, bad = &pb.GetTreeRequest{}, true
			default:
				req = &pb.GetTreeRequest{RootDigest: root, PageSize: int32(r.Pick(extremes)), PageToken: d.oneOf("", "x", "\x00")}
			}
			d.call(fmt.Sprintf("GetTree[%s,in-process] %s request=%v", f.mode, what, req), bad, func(ctx context.Context) outcome {
				id := mon.enter("GetTree in-process")
				defer mon.exit(id)
				return oc(f.direct.GetTree(req, &treeStream{ctx: ctx}))
			})
			continue
		}
		d.call(fmt.Sprintf("GetTree[%s] root=%s (%s)", f.mode, dtext([]*pb.Digest{root}), what), bad, func(ctx context.Context) outcome {
			st, err := f.cas.GetTree(ctx, &pb.GetTreeRequest{RootDigest: root, InstanceName: d.hInstance()})
			if err != nil {
				return oc(err)
			}
			for {
				if _, err := st.Recv(); err != nil {
					if err.Error() == "EOF" {
						return outcome{code: "OK"}
					}
					return oc(err)
				}
			}
		})
	}
}

func (d *drv) splice(f *fx, n int) {
	r := d.r
	for i := 0; i < n; i++ {
		// a valid request first, then one thing is damaged
		k := 1 + r.Intn(3)
		var chunks []blob
		var cds []*pb.Digest
		var whole []byte
		for j := 0; j < k; j++ {
			c := f.pool[r.Intn(4)]
			if r.Chance(30) {
				c = f.store(d.r.Bytes(1+r.Intn(5000)), "chunk")
			}
			chunks = append(chunks, c)
			cds = append(cds, c.dg())
			whole = append(whole, c.data...)
		}
		wb := mkBlob(whole, "spliced")
		req := &pb.SpliceBlobRequest{BlobDigest: wb.dg(), ChunkDigests: cds}
		bad := false
		inproc := false
		kind := r.Intn(16)
		d.rep.Count(fmt.Sprintf("splice.kind%02d", kind))
		switch kind {
		case 0, 1: // valid
		case 2:
			req.BlobDigest = nil // the server hashes
		case 3: // a chunk is not in the cache
			req.ChunkDigests[r.Intn(k)] = dig(sha(r.Bytes(9)), 1+int64(r.Intn(100)))
			bad = true
			if r.Chance(50) {
				req.BlobDigest = nil
			}
		case 4: // chunk sizes that do not add up / overflow
			req.ChunkDigests = append(req.ChunkDigests, dig(sha(r.Bytes(9)), r.Pick([]int64{math.MaxInt64, math.MaxInt64 - 1, 1 << 62})))
			bad = true
			if r.Chance(50) {
				req.BlobDigest = nil
			}
		case 5: // wrong hash of the whole: Put fails at the very end
			req.BlobDigest = dig(sha(r.Bytes(9)), wb.size)
			bad = true
		case 6: // wrong size of the whole
			req.BlobDigest = dig(wb.hash, d.hSize(wb.size)+1)
			bad = req.BlobDigest.SizeBytes != wb.size
		case 7: // malformed chunk digest
			dg, b2 := d.hDigest(f, false)
			req.ChunkDigests[r.Intn(k)] = dg
			bad = b2 || dg.SizeBytes <= 0
		case 8:
			inproc = true
			req.ChunkDigests[r.Intn(k)] = nil
			bad = true
		case 9:
			req.ChunkDigests = nil
			bad = true
		case 10:
			req.DigestFunction = pb.DigestFunction_Value([]int32{2, 3, 9, 77, -1, math.MinInt32}[r.Intn(6)])
			bad = true
		case 11: // larger than the disk layer accepts, smaller than the front end's limit: Put refuses before reading
			req.ChunkDigests, whole = nil, nil
			for j := 0; j < 4; j++ {
				req.ChunkDigests = append(req.ChunkDigests, f.pool[4].dg())
				whole = append(whole, f.pool[4].data...)
			}
			req.BlobDigest = nil
			if r.Chance(50) {
				req.BlobDigest = mkBlob(whole, "").dg()
			}
			bad = true
		case 12: // the file of a chunk was truncated / removed behind the cache's back
			c := f.store(d.r.Bytes(3000+r.Intn(3000)), "victim")
			req.ChunkDigests = append([]*pb.Digest{f.pool[2].dg()}, c.dg(), f.pool[1].dg())
			req.BlobDigest = mkBlob(append(append(append([]byte{}, f.pool[2].data...), c.data...), f.pool[1].data...), "").dg()
			if r.Chance(40) {
				req.BlobDigest = nil
			}
			p := f.pathOf("cas/" + c.hash)
			if r.Chance(50) {
				_ = osTruncate(p, int64(r.Intn(200)))
			} else {
				_ = osRemove(p)
			}
			bad = true
		case 13: // the spliced blob exists already
			f.put(1, wb.hash, wb.data)
		case 14: // empty blob as chunk / as result
			if r.Chance(50) {
				req.ChunkDigests = append(req.ChunkDigests, dig(emptySha, 0))
			} else {
				req.BlobDigest = dig(emptySha, 0)
			}
			bad = true
		default: // the same chunk many times
			req.ChunkDigests, whole = nil, nil
			for j := 0; j < 300; j++ {
				req.ChunkDigests = append(req.ChunkDigests, f.pool[1].dg())
				whole = append(whole, f.pool[1].data...)
			}
			req.BlobDigest = mkBlob(whole, "").dg()
		}
		text := fmt.Sprintf("SpliceBlob[%s] kind=%d blob=%s chunks=%s digest_function=%d", f.mode, kind, dtext([]*pb.Digest{req.BlobDigest}), dtext(req.ChunkDigests), req.DigestFunction)
		abort := r.Chance(10)
		d.call(text, bad && !abort, func(ctx context.Context) outcome {
			if abort { // the client goes away while the server works
				var cancel context.CancelFunc
				ctx, cancel = context.WithCancel(ctx)
				cancel()
			}
			var err error
			if inproc {
				id := mon.enter("SpliceBlob in-process")
				defer mon.exit(id)
				_, err = f.direct.SpliceBlob(ctx, req)
			} else {
				_, err = f.cas.SpliceBlob(ctx, req)
			}
			if abort && err != nil {
				return outcome{isErr: true, code: "aborted"}
			}
			return oc(err)
		})
		_ = chunks
	}
}

// ---- action cache

func (d *drv) hActionResult(f *fx, allowNil bool) (ar *pb.ActionResult, bad bool, what string) {
	r := d.r
	var notes []string
	note := func(s string, b bool) { notes = append(notes, s); bad = bad || b }
	if allowNil && r.Chance(8) {
		return nil, true, "nil ActionResult"
	}
	ar = &pb.ActionResult{ExitCode: int32(r.Pick(extremes))}
	good := func() *pb.Digest { return f.pool[r.Intn(3)].dg() }
	hd := func() *pb.Digest {
		switch r.Intn(6) {
		case 0:
			note("digest absent", false)
			return nil
		case 1:
			note("empty digest message", false)
			return &pb.Digest{}
		case 2:
			h, hb := d.hHash(f)
			note("hostile hash", hb)
			return dig(h, 5)
		case 3:
			note("negative size", true)
			return dig(f.pool[0].hash, -1-int64(r.Intn(5)))
		default:
			return good()
		}
	}
	for j := r.Intn(4); j > 0; j-- {
		switch r.Intn(8) {
		case 0:
			if allowNil {
				ar.OutputFiles = append(ar.OutputFiles, nil)
				note("nil OutputFile", true)
			}
		case 1:
			ar.OutputFiles = append(ar.OutputFiles, &pb.OutputFile{})
			note("empty OutputFile", true)
		case 2:
			ar.OutputFiles = append(ar.OutputFiles, &pb.OutputFile{Path: d.oneOf("/abs", "", "../x", "a\x00b", strings.Repeat("p/", 2000)), Digest: good()})
			note("hostile path", false)
		case 3:
			ar.OutputFiles = append(ar.OutputFiles, &pb.OutputFile{Path: "f", Digest: hd()})
		case 4:
			ar.OutputFiles = append(ar.OutputFiles, &pb.OutputFile{Path: "inl", Contents: r.Bytes(r.Intn(300)), Digest: hd()})
		default:
			ar.OutputFiles = append(ar.OutputFiles, &pb.OutputFile{Path: fmt.Sprintf("ok%d", j), Digest: good(), IsExecutable: true})
		}
	}
	for j := r.Intn(3); j > 0; j-- {
		switch r.Intn(6) {
		case 0:
			if allowNil {
				ar.OutputDirectories = append(ar.OutputDirectories, nil)
				note("nil OutputDirectory", true)
			}
		case 1:
			ar.OutputDirectories = append(ar.OutputDirectories, &pb.OutputDirectory{})
			note("empty OutputDirectory", false)
		case 2:
			ar.OutputDirectories = append(ar.OutputDirectories, &pb.OutputDirectory{Path: "d", TreeDigest: hd()})
		default:
			ar.OutputDirectories = append(ar.OutputDirectories, &pb.OutputDirectory{Path: "d", TreeDigest: f.dirs[r.Intn(len(f.dirs))].dg()})
			note("tree digest of a non-tree blob", false)
		}
	}
	for j := r.Intn(3); j > 0; j-- {
		sl := &pb.OutputSymlink{Path: d.oneOf("", "l", "/abs"), Target: d.oneOf("", "t", "/abs")}
		if allowNil && r.Chance(20) {
			sl = nil
			note("nil symlink", true)
		}
		switch r.Intn(3) {
		case 0:
			ar.OutputFileSymlinks = append(ar.OutputFileSymlinks, sl)
		case 1:
			ar.OutputDirectorySymlinks = append(ar.OutputDirectorySymlinks, sl)
		default:
			ar.OutputSymlinks = append(ar.OutputSymlinks, sl)
		}
	}
	if r.Chance(40) {
		ar.StdoutDigest = hd()
	}
	if r.Chance(40) {
		ar.StderrDigest = hd()
	}
	if r.Chance(30) {
		ar.StdoutRaw = r.Bytes(r.Intn(200))
	}
	if r.Chance(30) {
		ar.ExecutionMetadata = &pb.ExecutedActionMetadata{Worker: d.oneOf("", "w", strings.Repeat("w", 10000))}
	}
	return ar, bad, strings.Join(notes, ",")
}

func (d *drv) actionCache(f *fx, n int) {
	r := d.r
	for i := 0; i < n; i++ {
		inproc := r.Chance(45)
		srv := f.direct
		tag := "wire"
		if inproc {
			tag = "in-process"
			if r.Chance(40) {
				srv, tag = f.nodeps, "in-process,nodeps,mangled"
			}
		}
		key := f.acKeys[r.Intn(len(f.acKeys))]
		ad, bad := dig(key, int64(1+r.Intn(100))), false
		if r.Chance(30) {
			ad, bad = d.hDigest(f, inproc)
		}
		inst := d.hInstance()
		if r.Chance(50) {
			d.rep.Count("ac.get")
			req := &pb.GetActionResultRequest{ActionDigest: ad, InstanceName: inst, InlineStdout: r.Chance(50), InlineStderr: r.Chance(50),
				InlineOutputFiles: []string{"a", "big", d.oneOf("", "b", "\x00")}, DigestFunction: pb.DigestFunction_Value(r.Intn(5))}
			if inproc && r.Chance(5) {
				req, bad = nil, true
			}
			d.call(fmt.Sprintf("GetActionResult[%s,%s] action=%s instance=%q", f.mode, tag, dtext([]*pb.Digest{ad}), trunc(inst)), bad, func(ctx context.Context) outcome {
				var err error
				if inproc {
					_, err = srv.GetActionResult(ctx, req)
				} else {
					_, err = f.ac.GetActionResult(ctx, req)
				}
				return oc(err)
			})
			continue
		}
		d.rep.Count("ac.update")
		ar, arBad, what := d.hActionResult(f, inproc)
		nk := sha(r.Bytes(12))
		if !r.Chance(30) || ad == nil {
			if !bad {
				ad = dig(nk, 12)
			}
		}
		req := &pb.UpdateActionResultRequest{ActionDigest: ad, ActionResult: ar, InstanceName: inst}
		if !inproc && ar == nil {
			arBad = true
		}
		d.call(fmt.Sprintf("UpdateActionResult[%s,%s] action=%s result: %s %v", f.mode, tag, dtext([]*pb.Digest{ad}), what, trunc(fmt.Sprint(ar))), bad || arBad, func(ctx context.Context) outcome {
			var err error
			if inproc {
				_, err = srv.UpdateActionResult(ctx, req)
			} else {
				_, err = f.ac.UpdateActionResult(ctx, req)
			}
			return oc(err)
		})
	}
}

// ---- asset API, capabilities

func (d *drv) assetAndCaps(f *fx, n int) {
	r := d.r
	for i := 0; i < n; i++ {
		var uris []string
		for j := r.Intn(3); j >= 0; j-- {
			uris = append(uris, d.oneOf(d.up.url("/ok"), d.up.url("/empty"), d.up.url("/404"), d.up.url("/500"), d.up.url("/loop"), d.up.url("/chunked"),
				d.up.url("/shortbody"), d.up.url("/hugelen"), d.up.url("/neglen"), d.up.url("/garbage"), d.up.url("/ok?"+strings.Repeat("q", 5000)),
				"http://"+closedPort()+"/x", "", "://", "http://[::1", "ftp://127.0.0.1/x", "file:///etc/hostname", "http://", "http:///x", "HTTP://%zz",
				"http://127.0.0.1:99999/", "\x00", "http://ü@:x", "javascript:alert(1)", strings.Repeat("h", 9000)))
		}
		known := f.pool[r.Intn(len(f.pool))]
		var qs []*asset.Qualifier
		inproc := false
		for j := r.Intn(4); j > 0; j-- {
			raw, _ := hex.DecodeString(known.hash)
			q := &asset.Qualifier{Name: "checksum.sri", Value: "sha256-" + base64.StdEncoding.EncodeToString(raw)}
			switch r.Intn(12) {
			case 0:
				q, inproc = nil, true
			case 1:
				q.Value = "sha256-" + d.oneOf("", "!!!", "AAAA", base64.StdEncoding.EncodeToString(r.Bytes(31)), base64.StdEncoding.EncodeToString(r.Bytes(32)), base64.StdEncoding.EncodeToString(r.Bytes(5000)))
			case 2:
				q.Value = d.oneOf("sha512-AAAA", "", "sha256", "md5-x")
			case 3:
				q = &asset.Qualifier{Name: "http_header:" + d.oneOf("X-Tag", "", "a b", "Host", "Content-Length", "Transfer-Encoding", "x\r\ny", "ü"), Value: d.oneOf("v", "", "a,b,,c", "x\r\nInjected: 1", "\x00", strings.Repeat("v", 20000))}
			case 4:
				q = &asset.Qualifier{Name: "http_header_url:" + d.oneOf("0:X-Tag", "1:X-Tag", "-1:X", "99:X", "x:X", ":", "", "0", "0:a:b", "9223372036854775808:X", "0:"), Value: d.oneOf("v", "", "x\ny")}
			case 5:
				q = &asset.Qualifier{Name: d.oneOf("", "vcs.branch", "resource_type", "\x00"), Value: d.oneOf("", "x")}
			case 6:
				q = &asset.Qualifier{}
			}
			qs = append(qs, q)
		}
		d.rep.Count("fetchblob")
		req := &asset.FetchBlobRequest{InstanceName: d.hInstance(), Uris: uris, Qualifiers: qs}
		if r.Chance(4) {
			req, inproc = nil, true
		}
		var ut []string
		for _, u := range uris {
			ut = append(ut, fmt.Sprintf("%q", trunc(u)))
		}
		d.call(fmt.Sprintf("FetchBlob[%s] uris=[%s] qualifiers=%s", f.mode, strings.Join(ut, ", "), trunc(fmt.Sprint(qs))), req == nil, func(ctx context.Context) outcome {
			var err error
			var resp *asset.FetchBlobResponse
			if inproc {
				resp, err = f.direct.FetchBlob(ctx, req)
			} else {
				resp, err = f.fetch.FetchBlob(ctx, req)
			}
			if err == nil && resp != nil && resp.Status != nil && resp.Status.Code != 0 {
				return outcome{isErr: true, code: "status-" + codes.Code(resp.Status.Code).String()}
			}
			return oc(err)
		})
	}
	d.rep.Count("fetchdirectory")
	d.call("FetchDirectory", false, func(ctx context.Context) outcome {
		_, err := f.fetch.FetchDirectory(ctx, &asset.FetchDirectoryRequest{Uris: []string{d.up.url("/ok")}})
		return oc(err)
	})
	d.rep.Count("capabilities")
	d.call("GetCapabilities", false, func(ctx context.Context) outcome {
		if d.r.Chance(50) {
			_, err := f.direct.GetCapabilities(ctx, nil)
			return oc(err)
		}
		_, err := f.caps.GetCapabilities(ctx, &pb.GetCapabilitiesRequest{InstanceName: d.hInstance()})
		return oc(err)
	})
}

// ---- HTTP

func (d *drv) httpFamily(f *fx, n int) {
	r := d.r
	for i := 0; i < n; i++ {
		b := f.pool[r.Intn(len(f.pool))]
		h, hbad := d.hHash(f)
		if r.Chance(55) {
			h, hbad = b.hash, false
		}
		raw := r.Chance(30)
		kind := d.oneOf("cas", "cas", "cas", "ac", "ac")
		if kind == "ac" && r.Chance(60) {
			h, hbad = f.acKeys[r.Intn(len(f.acKeys))], false
		}
		path := "/" + kind + "/" + h
		pbad := hbad
		switch r.Intn(14) {
		case 0:
			path = "/" + d.hInstance() + path
			pbad = false // instance prefixes are free-form
		case 1:
			path, pbad = d.oneOf("", "/", "//", "/cas", "/cas/", "/ac/", "/CAS/"+h, "/raw/"+h, "/cas/"+h+"/", "/cas/"+h+"x", "cas/"+h, "/cas//"+h, "/status/x",
				"/cas/\x00", "/\xff\xfe", strings.Repeat("/a", 5000), "/cas/../cas/"+h), true
			if path == "cas/"+h || path == "/cas/../cas/"+h {
				pbad = hbad
			}
		case 2:
			path, pbad = "/status", false
		}
		method := d.oneOf("GET", "GET", "GET", "HEAD", "PUT", "PUT", "PUT", "PUT", "POST", "DELETE", "PATCH", "OPTIONS", "get", "", "TRACE")
		must := pbad
		if method == "POST" || method == "DELETE" || method == "PATCH" || method == "TRACE" {
			must = true
		}
		o := httpOpt{hdr: map[string]string{}, clen: 0}
		if method == "GET" || method == "HEAD" || method == "get" || method == "" {
			if r.Chance(50) {
				o.hdr["Accept-Encoding"] = d.oneOf("zstd", "gzip, zstd", "ZSTD", "zstd;q=0", "identity", "\x00")
			}
			if r.Chance(30) {
				o.hdr["Accept"] = d.oneOf("application/json", "*/*", "application/JSON", "")
			}
			if r.Chance(20) {
				o.failWrites = 1 + r.Intn(2)
			}
			if r.Chance(10) {
				o.body, o.clen = bytes.NewReader(r.Bytes(100)), 100
			}
		}
		if method == "PUT" {
			nb := d.freshBlob([]int{0, 1, 50, 5000, 1<<20 + 7}[r.Intn(5)])
			if !raw && kind == "ac" {
				ar, _, _ := d.hActionResult(f, false)
				nb = mkBlob(mustMarshal(ar), "ar")
			}
			if kind == "cas" && !hbad && r.Chance(70) {
				path = "/cas/" + nb.hash
				if nb.size == 0 {
					path = "/cas/" + emptySha
				}
				must = false
			}
			body := nb.data
			o.clen = int64(len(body))
			switch r.Intn(14) {
			case 0:
				o.hdr["X-Digest-SizeBytes"] = d.oneOf("abc", "", "1e3", " 5", "0x5", "99999999999999999999", "5.0", "-", "٣")
				must = must || o.hdr["X-Digest-SizeBytes"] != ""
			case 1:
				o.hdr["X-Digest-SizeBytes"] = fmt.Sprint(-1 - r.Intn(5))
				must = true
			case 2:
				v := r.Pick(extremes)
				o.hdr["X-Digest-SizeBytes"] = fmt.Sprint(v)
				must = must || v < 0 || v > srvMaxBlob
			case 3:
				o.clen = -1 // no Content-Length
				must = true
			case 4:
				o.hdr["Content-Encoding"] = d.oneOf("gzip", "ZSTD", "zstd, gzip", "br", "\x00", "identity ")
				must = true
			case 5:
				o.hdr["Content-Encoding"] = "zstd"
				o.hdr["X-Digest-SizeBytes"] = fmt.Sprint(nb.size)
				body = zenc.EncodeAll(nb.data, nil)
				o.clen = int64(len(body))
			case 6: // zstd garbage / truncated / trailing
				o.hdr["Content-Encoding"] = "zstd"
				o.hdr["X-Digest-SizeBytes"] = fmt.Sprint(nb.size)
				zp := zenc.EncodeAll(nb.data, nil)
				body = [][]byte{r.Bytes(len(zp) + 3), zp[:len(zp)/2], append(append([]byte{}, zp...), r.Bytes(7)...), {0x28, 0xb5, 0x2f, 0xfd}}[r.Intn(4)]
				o.clen = int64(len(body))
			case 7: // declared length and body disagree
				o.clen = int64(len(body)) + int64(r.Intn(9)) - 4
			case 8: // the client goes away in the middle of the upload
				o.body = &abortReader{data: body[:len(body)/2]}
			case 9:
				o.hdr["Content-Type"] = "application/json"
				body = []byte(d.oneOf("{}", "", "{", "null", "[]", `{"outputFiles":[{}]}`, `{"outputFiles":[null]}`, `{"outputFiles":[{"path":"a","digest":{"hash":"x","sizeBytes":"-1"}}]}`,
					`{"exitCode":99999999999}`, `{"stdoutRaw":"!!!notbase64"}`, strings.Repeat("[", 20000), `{"executionMetadata":{"worker":5}}`, "\xff\xfe{}"))
				o.clen = int64(len(body))
			case 10:
				o.hdr["X-Digest-SizeBytes"] = fmt.Sprint(nb.size + 1)
			case 11:
				o.hdr["Content-Encoding"] = "identity"
			}
			if o.body == nil {
				o.body = bytes.NewReader(body)
			}
		}
		d.rep.Count("http." + strings.ToLower(method))
		res := d.httpCall(f, raw, method, path, o, must && path != "/status")
		if (method == "GET" || method == "HEAD") && path != "/status" && d.r.Chance(40) && coqable(path) && d.nameCases < 14 {
			d.nameCases++
			d.addCase(fmt.Sprintf("AHttpUrl %s %s %s", cstr(path), CB(!raw), CB(res.code == "http400")), fmt.Sprintf("HTTP %s %q validateAC=%v -> %s", method, path, !raw, res.code), !res.isErr)
		}
	}
}
