package main

// Deterministic scenarios (regressions of the defects of this family that were fixed in /repo, the
// two pipe protocols of Model/Protocols.v on the real code), byte-level mutation of on-disk files
// read through every read path, and the probes that need a process of their own.

import (
	"bytes"
	"context"
	"encoding/base64"
	"encoding/binary"
	"encoding/hex"
	"encoding/json"
	"fmt"
	"io"
	"log"
	"math"
	"os"
	"os/exec"
	"strings"
	"time"

	"github.com/buchgr/bazel-remote/v2/cache"
	asset "github.com/buchgr/bazel-remote/v2/genproto/build/bazel/remote/asset/v1"
	pb "github.com/buchgr/bazel-remote/v2/genproto/build/bazel/remote/execution/v2"

	"google.golang.org/genproto/googleapis/bytestream"
	"google.golang.org/grpc/codes"
	"google.golang.org/grpc/status"
)

func osTruncate(p string, n int64) error {
	if p == "" {
		return os.ErrNotExist
	}
	return os.Truncate(p, n)
}
func osRemove(p string) error {
	if p == "" {
		return os.ErrNotExist
	}
	return os.Remove(p)
}

// ---- every read path on one CAS blob

func (d *drv) readEverywhere(f *fx, b blob, acKey string) {
	r := d.r
	nfail := len(d.rep.OracleFailures)
	sz := fmt.Sprint(b.size)
	mid := b.size / 2
	d.bsRead(f, "blobs/"+b.hash+"/"+sz, 0, 0, -1, false)
	d.bsRead(f, "blobs/"+b.hash+"/"+sz, mid, 0, -1, false)
	d.bsRead(f, "blobs/"+b.hash+"/"+sz, b.size-1, 1, -1, false)
	d.bsRead(f, "compressed-blobs/zstd/"+b.hash+"/"+sz, 0, 0, -1, false)
	d.bsRead(f, "compressed-blobs/zstd/"+b.hash+"/"+sz, mid, 0, -1, false)
	d.bsRead(f, "compressed-blobs/zstd/"+b.hash+"/"+sz, 0, 0, r.Intn(2), false)
	for _, comp := range [][]pb.Compressor_Value{nil, {pb.Compressor_ZSTD}} {
		c := comp
		d.call(fmt.Sprintf("BatchReadBlobs[%s] %s/%d compressors=%v", f.mode, b.hash, b.size, c), false, func(ctx context.Context) outcome {
			_, err := f.cas.BatchReadBlobs(ctx, &pb.BatchReadBlobsRequest{Digests: []*pb.Digest{b.dg(), f.pool[0].dg()}, AcceptableCompressors: c})
			return oc(err)
		})
	}
	d.call(fmt.Sprintf("GetTree[%s] root=%s/%d (mutated file)", f.mode, b.hash, b.size), false, func(ctx context.Context) outcome {
		st, err := f.cas.GetTree(ctx, &pb.GetTreeRequest{RootDigest: b.dg()})
		if err != nil {
			return oc(err)
		}
		for {
			if _, err := st.Recv(); err != nil {
				if err == io.EOF {
					return outcome{code: "OK"}
				}
				return oc(err)
			}
		}
	})
	d.httpCall(f, false, "GET", "/cas/"+b.hash, httpOpt{hdr: map[string]string{}}, false)
	d.httpCall(f, false, "GET", "/cas/"+b.hash, httpOpt{hdr: map[string]string{"Accept-Encoding": "zstd"}}, false)
	d.httpCall(f, false, "GET", "/cas/"+b.hash, httpOpt{hdr: map[string]string{"Accept-Encoding": "zstd"}, failWrites: 1}, false)
	d.httpCall(f, true, "HEAD", "/cas/"+b.hash, httpOpt{hdr: map[string]string{}}, false)
	d.call(fmt.Sprintf("FindMissingBlobs[%s] %s/%d", f.mode, b.hash, b.size), false, func(ctx context.Context) outcome {
		_, err := f.cas.FindMissingBlobs(ctx, &pb.FindMissingBlobsRequest{BlobDigests: []*pb.Digest{b.dg()}})
		return oc(err)
	})
	other := f.pool[1]
	whole := mkBlob(append(append([]byte{}, other.data...), b.data...), "")
	spliceDigests := []*pb.Digest{nil, whole.dg()}
	for _, of := range d.rep.OracleFailures[nfail:] {
		if strings.HasPrefix(of.What, "panic") {
			// reading this file panics; SpliceBlob would read it in its writer goroutine, where no
			// recover() can keep the process (and this report) alive
			spliceDigests = nil
			d.rep.Count("splice-skipped-after-panic")
			break
		}
	}
	for _, bd := range spliceDigests {
		bdd := bd
		_ = f.c // the spliced blob must not be there already
		d.call(fmt.Sprintf("SpliceBlob[%s] blob=%s chunks=[%s/%d, %s/%d (mutated file)]", f.mode, dtext([]*pb.Digest{bdd}), other.hash, other.size, b.hash, b.size), false, func(ctx context.Context) outcome {
			_, err := f.cas.SpliceBlob(ctx, &pb.SpliceBlobRequest{BlobDigest: bdd, ChunkDigests: []*pb.Digest{other.dg(), b.dg()}})
			return oc(err)
		})
	}
	raw, _ := hex.DecodeString(b.hash)
	d.call(fmt.Sprintf("FetchBlob[%s] checksum.sri of %s", f.mode, b.hash), false, func(ctx context.Context) outcome {
		_, err := f.fetch.FetchBlob(ctx, &asset.FetchBlobRequest{Qualifiers: []*asset.Qualifier{{Name: "checksum.sri", Value: "sha256-" + base64.StdEncoding.EncodeToString(raw)}}})
		return oc(err)
	})
	if acKey != "" {
		for _, srv := range []allServer{f.direct, f.nodeps} {
			s := srv
			d.call(fmt.Sprintf("GetActionResult[%s] action=%s inline everything (references the mutated blob)", f.mode, acKey), false, func(ctx context.Context) outcome {
				_, err := s.GetActionResult(ctx, &pb.GetActionResultRequest{ActionDigest: dig(acKey, 3), InlineStdout: true, InlineStderr: true, InlineOutputFiles: []string{"o"}})
				return oc(err)
			})
		}
		d.httpCall(f, false, "GET", "/ac/"+acKey, httpOpt{hdr: map[string]string{"Accept": "application/json"}}, false)
	}
}

// mutations of a casblob file (header: magic u32 @0, frame size u32 @4, uncompressed size i64 @8,
// compression u8 @16, chunk size u32 @17, number of offsets i64 @21, offsets i64[] @29)
type mutation struct {
	name string
	f    func(b []byte, r interface{ Bytes(int) []byte }) []byte
}

func put64(off int, v int64) func([]byte, interface{ Bytes(int) []byte }) []byte {
	return func(b []byte, _ interface{ Bytes(int) []byte }) []byte {
		if len(b) >= off+8 {
			binary.LittleEndian.PutUint64(b[off:], uint64(v))
		}
		return b
	}
}
func put32(off int, v uint32) func([]byte, interface{ Bytes(int) []byte }) []byte {
	return func(b []byte, _ interface{ Bytes(int) []byte }) []byte {
		if len(b) >= off+4 {
			binary.LittleEndian.PutUint32(b[off:], v)
		}
		return b
	}
}

var mutationTable = []mutation{
	{"truncate to 0", func(b []byte, _ interface{ Bytes(int) []byte }) []byte { return nil }},
	{"truncate to 1", func(b []byte, _ interface{ Bytes(int) []byte }) []byte { return b[:min(1, len(b))] }},
	{"truncate to 28", func(b []byte, _ interface{ Bytes(int) []byte }) []byte { return b[:min(28, len(b))] }},
	{"truncate to 37", func(b []byte, _ interface{ Bytes(int) []byte }) []byte { return b[:min(37, len(b))] }},
	{"truncate to 45", func(b []byte, _ interface{ Bytes(int) []byte }) []byte { return b[:min(45, len(b))] }},
	{"truncate to half", func(b []byte, _ interface{ Bytes(int) []byte }) []byte { return b[:len(b)/2] }},
	{"drop last byte", func(b []byte, _ interface{ Bytes(int) []byte }) []byte { return b[:max(0, len(b)-1)] }},
	{"append garbage", func(b []byte, r interface{ Bytes(int) []byte }) []byte { return append(b, r.Bytes(100)...) }},
	{"random bytes of the same length", func(b []byte, r interface{ Bytes(int) []byte }) []byte { return r.Bytes(len(b)) }},
	{"zero the chunk table", func(b []byte, _ interface{ Bytes(int) []byte }) []byte {
		for i := 29; i < len(b) && i < 29+64; i++ {
			b[i] = 0
		}
		return b
	}},
	{"chunk table decreasing", func(b []byte, _ interface{ Bytes(int) []byte }) []byte {
		if len(b) >= 45 {
			binary.LittleEndian.PutUint64(b[37:], 1)
		}
		return b
	}},
	{"chunk table beyond the file", put64(37, math.MaxInt64)},
	{"chunk table negative", put64(29, -1)},
	{"numOffsets 2^61+2", put64(21, 1<<61+2)},
	{"numOffsets -1", put64(21, -1)},
	{"numOffsets 0", put64(21, 0)},
	{"numOffsets 1", put64(21, 1)},
	{"numOffsets maxint64", put64(21, math.MaxInt64)},
	{"numOffsets +1", func(b []byte, _ interface{ Bytes(int) []byte }) []byte {
		if len(b) >= 29 {
			binary.LittleEndian.PutUint64(b[21:], binary.LittleEndian.Uint64(b[21:])+1)
		}
		return b
	}},
	{"chunkSize 0", put32(17, 0)},
	{"chunkSize 1", put32(17, 1)},
	{"chunkSize maxuint32", put32(17, math.MaxUint32)},
	{"uncompressedSize -1", put64(8, -1)},
	{"uncompressedSize 0", put64(8, 0)},
	{"uncompressedSize maxint64", put64(8, math.MaxInt64)},
	{"uncompressedSize minint64", put64(8, math.MinInt64)},
	{"uncompressedSize +1", func(b []byte, _ interface{ Bytes(int) []byte }) []byte {
		if len(b) >= 16 {
			binary.LittleEndian.PutUint64(b[8:], binary.LittleEndian.Uint64(b[8:])+1)
		}
		return b
	}},
	{"compression type 0", func(b []byte, _ interface{ Bytes(int) []byte }) []byte {
		if len(b) > 16 {
			b[16] = 0
		}
		return b
	}},
	{"compression type 255", func(b []byte, _ interface{ Bytes(int) []byte }) []byte {
		if len(b) > 16 {
			b[16] = 255
		}
		return b
	}},
	{"magic flipped", put32(0, 0xdeadbeef)},
	{"frame size 0", put32(4, 0)},
	{"frame size maxuint32", put32(4, math.MaxUint32)},
	{"payload bit flip", func(b []byte, _ interface{ Bytes(int) []byte }) []byte {
		if len(b) > 60 {
			b[len(b)-10] ^= 0x40
		}
		return b
	}},
	crafted("numOffsets 2^61+2, frame size and compression consistent", 1<<61+2, false),
	crafted("numOffsets 2^61+5, frame size and compression consistent", 1<<61+5, false),
	crafted("numOffsets 2^62+3, frame size and compression consistent", 1<<62+3, false),
	crafted("numOffsets 2^63-1, frame size and compression consistent", math.MaxInt64, false),
	crafted("numOffsets 2^60+7, frame size and compression consistent", 1<<60+7, false),
	crafted("numOffsets 2^61+2, zstd with chunkSize 1 and uncompressedSize 2^61+1, frame size consistent", 1<<61+2, true),
	crafted("numOffsets 2^63-1, zstd with chunkSize 1 and uncompressedSize 2^63-2, frame size consistent", math.MaxInt64, true),
	{"file removed", nil},
}

// a header that passes every check of readHeader except the one that bounds numOffsets by the file
// size: frame size = (numOffsets*8 + 21) in wrapping int64 arithmetic, and either compression =
// Identity (no chunk-count check) or Zstandard with chunkSize 1 and uncompressedSize = numOffsets-1
func crafted(name string, n int64, zstd bool) mutation {
	return mutation{name, func(b []byte, _ interface{ Bytes(int) []byte }) []byte {
		if len(b) < 46 {
			return b
		}
		binary.LittleEndian.PutUint64(b[21:], uint64(n))
		binary.LittleEndian.PutUint32(b[4:], uint32(uint64(n)*8+21))
		if zstd {
			b[16] = 1
			binary.LittleEndian.PutUint32(b[17:], 1)
			binary.LittleEndian.PutUint64(b[8:], uint64(n-1))
		} else {
			b[16] = 0
		}
		return b
	}}
}

// mutateAndRead stores a fresh blob, an ActionResult that references it, damages the blob's file
// and reads it through every read path.
func (d *drv) mutateAndRead(f *fx, m mutation, size int) {
	b := f.store(compressible(d.r, size), "victim")
	acKey := sha(d.r.Bytes(10))
	f.put(cache.AC, acKey, mustMarshal(&pb.ActionResult{OutputFiles: []*pb.OutputFile{{Path: "o", Digest: b.dg()}}, StdoutDigest: b.dg(),
		ExecutionMetadata: &pb.ExecutedActionMetadata{Worker: "w"}}))
	p := f.pathOf("cas/" + b.hash)
	if p == "" {
		d.fail("harness: stored blob not indexed", b.hash)
		return
	}
	d.rep.Count("mutation")
	mon.setCur("mutation: " + m.name)
	if m.f == nil {
		_ = os.Remove(p)
	} else {
		data, err := os.ReadFile(p)
		if err != nil {
			return
		}
		if err := os.WriteFile(p, m.f(data, d.r), 0644); err != nil {
			return
		}
	}
	old := d.rep.OracleFailures
	d.readEverywhere(f, b, acKey)
	d.restLight("reading a blob whose file was damaged: " + m.name + " (" + f.mode + ")")
	for i := len(old); i < len(d.rep.OracleFailures); i++ {
		d.rep.OracleFailures[i].Text = fmt.Sprintf("[file of %s blob %s/%d in %s storage: %s] ", "CAS", b.hash, b.size, f.mode, m.name) + d.rep.OracleFailures[i].Text
	}
}

func (d *drv) mutations(f *fx, n int) {
	r := d.r
	for i := 0; i < n; i++ {
		m := mutationTable[r.Intn(len(mutationTable))]
		d.mutateAndRead(f, m, []int{1, 700, 5000, 1<<20 + 9, 2<<20 + 11}[r.Intn(5)])
	}
	// an AC / RAW entry damaged on disk
	key := sha(r.Bytes(9))
	f.put(cache.AC, key, mustMarshal(&pb.ActionResult{OutputFiles: []*pb.OutputFile{{Path: "o", Digest: f.pool[0].dg()}}, ExecutionMetadata: &pb.ExecutedActionMetadata{Worker: "w"}}))
	if p := f.pathOf("ac/" + key); p != "" {
		data, _ := os.ReadFile(p)
		switch r.Intn(4) {
		case 0:
			_ = os.WriteFile(p, nil, 0644)
		case 1:
			_ = os.WriteFile(p, data[:len(data)/2], 0644)
		case 2:
			_ = os.WriteFile(p, r.Bytes(len(data)+5), 0644)
		default:
			_ = os.Remove(p)
		}
		d.rep.Count("mutation.ac")
		for _, s := range []allServer{f.direct, f.nodeps} {
			srv := s
			d.call(fmt.Sprintf("GetActionResult[%s] action=%s (AC file damaged on disk)", f.mode, key), false, func(ctx context.Context) outcome {
				_, err := srv.GetActionResult(ctx, &pb.GetActionResultRequest{ActionDigest: dig(key, 3)})
				return oc(err)
			})
		}
		d.httpCall(f, false, "GET", "/ac/"+key, httpOpt{hdr: map[string]string{"Accept": "application/json"}}, false)
		d.httpCall(f, false, "HEAD", "/ac/"+key, httpOpt{hdr: map[string]string{}}, false)
		d.httpCall(f, true, "GET", "/ac/"+key, httpOpt{hdr: map[string]string{}}, false)
	}
}

// ---- deterministic scenarios, first in every run

func (d *drv) regressions() {
	// the disk layer refuses the upload before reading it: first the SpliceBlob whose result does not
	// fit in the cache (its writer goroutine must still end), then every cause on every write path
	d.refusal(refusalCauses[0], refusalPaths[0], 3)
	d.refusalsAll(2)
	d.rest("uploads refused by the disk layer, every cause on every write path")
	for _, f := range d.fxs() {
		// F18: a Write stream closed without any message
		d.bsWrite(f, nil, -1, true, true)
		// F8: undecodable zstd data while the client keeps sending
		b := d.freshBlob(50000)
		var ms []wmsg
		for i := 0; i < 60; i++ {
			ms = append(ms, wmsg{name: fmt.Sprintf("uploads/u/compressed-blobs/zstd/%s/%d", b.hash, b.size), data: d.r.Bytes(4000)})
		}
		d.bsWrite(f, ms, -1, true, true)
		d.bsWrite(f, ms, -1, false, false)
		// F3: GetTree over a stored Directory whose DirectoryNode has no digest
		for _, db := range f.dirs {
			dd := db
			d.call(fmt.Sprintf("GetTree[%s] root=%s/%d (%s)", f.mode, dd.hash, dd.size, dd.what), false, func(ctx context.Context) outcome {
				st, err := f.cas.GetTree(ctx, &pb.GetTreeRequest{RootDigest: dd.dg()})
				if err != nil {
					return oc(err)
				}
				for {
					if _, err := st.Recv(); err != nil {
						if err == io.EOF {
							return outcome{code: "OK"}
						}
						return oc(err)
					}
				}
			})
		}
		// stored ActionResults, well- and ill-formed, through every AC read path
		for _, k := range f.acKeys {
			key := k
			for _, s := range []allServer{f.direct, f.nodeps} {
				srv := s
				d.call(fmt.Sprintf("GetActionResult[%s] action=%s (stored, possibly ill-formed) inline all", f.mode, key), false, func(ctx context.Context) outcome {
					_, err := srv.GetActionResult(ctx, &pb.GetActionResultRequest{ActionDigest: dig(key, 1), InlineStdout: true, InlineStderr: true, InlineOutputFiles: []string{"a", "big"}})
					return oc(err)
				})
			}
			d.call(fmt.Sprintf("GetActionResult[%s,wire] action=%s", f.mode, key), false, func(ctx context.Context) outcome {
				_, err := f.ac.GetActionResult(ctx, &pb.GetActionResultRequest{ActionDigest: dig(key, 1), InlineOutputFiles: []string{"a"}})
				return oc(err)
			})
			d.httpCall(f, false, "GET", "/ac/"+key, httpOpt{hdr: map[string]string{"Accept": "application/json"}}, false)
			d.httpCall(f, false, "GET", "/ac/"+key, httpOpt{hdr: map[string]string{}}, false)
			d.httpCall(f, false, "HEAD", "/ac/"+key, httpOpt{hdr: map[string]string{}}, false)
			d.httpCall(f, true, "GET", "/ac/"+key, httpOpt{hdr: map[string]string{}}, false)
		}
		// F24: negative sizes
		d.bsRead(f, "blobs/"+f.pool[2].hash+"/-5", 0, 0, -1, true)
		d.httpCall(f, false, "PUT", "/cas/"+f.pool[2].hash, httpOpt{hdr: map[string]string{"X-Digest-SizeBytes": "-5"}, body: bytes.NewReader(f.pool[2].data), clen: 5000}, true)
		d.rest("regressions F3/F8/F18/F24 and stored ActionResults (" + f.mode + ")")

		// an ActionResult file of length 0 (what a crash or a full disk can leave) read without deps check
		ek := sha(d.r.Bytes(11))
		f.put(cache.AC, ek, mustMarshal(&pb.ActionResult{ExitCode: 3, ExecutionMetadata: &pb.ExecutedActionMetadata{Worker: "w"}}))
		_ = osTruncate(f.pathOf("ac/"+ek), 0)
		for i := 0; i < 3; i++ {
			d.call(fmt.Sprintf("GetActionResult[%s,in-process,nodeps] action=%s/1 instance=\"\" (the AC file was truncated to 0 bytes)", f.mode, ek), false, func(ctx context.Context) outcome {
				_, err := f.nodeps.GetActionResult(ctx, &pb.GetActionResultRequest{ActionDigest: dig(ek, 1)})
				return oc(err)
			})
		}
		d.rest("GetActionResult over an empty AC file (" + f.mode + ")")

		d.spliceProtocol(f)
		d.rest("SpliceBlob protocol scenarios (" + f.mode + ")")
		d.zstdReaders(f)
		d.rest("compressed-read scenarios (" + f.mode + ")")
	}
	// F10 and the rest of the header table: every mutation once, read through every read path
	// (the shards of one run share the table: shard seeds are consecutive, four cover it)
	for i, m := range mutationTable {
		if uint64(i)%4 != d.rep.Seed%4 {
			continue
		}
		f := d.fz
		d.mutateAndRead(f, m, []int{5000, 2<<20 + 11}[(i/4)%2])
		if (i/4)%2 == 0 { // files without a header: truncation, garbage, removal also in uncompressed storage
			d.mutateAndRead(d.fu, m, 5000)
		}
	}
	d.rest("the table of file mutations (this shard's quarter)")
	d.proxyCorpus()
	d.rest("damaged file images supplied by the proxy backend")
}

// the SpliceBlob writer/Put/select protocol on the real code: every way Put can end
func (d *drv) spliceProtocol(f *fx) {
	big := f.pool[4]
	cat := func(bs ...blob) blob {
		var w []byte
		for _, b := range bs {
			w = append(w, b.data...)
		}
		return mkBlob(w, "")
	}
	run := func(what string, req *pb.SpliceBlobRequest, want codes.Code, cancelAfter time.Duration, alt ...codes.Code) {
		d.rep.Count("splice.protocol")
		text := fmt.Sprintf("SpliceBlob[%s] %s: blob=%s chunks=%s", f.mode, what, dtext([]*pb.Digest{req.BlobDigest}), dtext(req.ChunkDigests))
		d.call(text, want != codes.OK && cancelAfter == 0, func(ctx context.Context) outcome {
			if cancelAfter > 0 {
				var c context.CancelFunc
				ctx, c = context.WithTimeout(ctx, cancelAfter)
				defer c()
			}
			_, err := f.cas.SpliceBlob(ctx, req)
			okc := status.Code(err) == want
			for _, a := range alt {
				okc = okc || status.Code(err) == a
			}
			if cancelAfter == 0 && !okc {
				d.fail(fmt.Sprintf("SpliceBlob answered %s, expected %s (the writer's result must be the one reported)", status.Code(err), want), text)
			}
			if cancelAfter > 0 {
				return outcome{isErr: err != nil, code: "aborted"}
			}
			return oc(err)
		})
	}
	c1, c2 := f.store(d.r.Bytes(70000), "c1"), f.store(d.r.Bytes(90000), "c2")
	run("valid", &pb.SpliceBlobRequest{BlobDigest: cat(c1, c2).dg(), ChunkDigests: []*pb.Digest{c1.dg(), c2.dg()}}, codes.OK, 0)
	// Put refuses before reading (10 MiB > disk limit): the writer is inside io.Copy(pw, rc) on 2.3 MiB chunks
	four := []*pb.Digest{big.dg(), big.dg(), big.dg(), big.dg()}
	// (the refusal is a *cache.Error 400: since the repair of F37 SpliceBlob classifies it like the other write paths)
	run("Put refuses before reading, server-side hashing", &pb.SpliceBlobRequest{ChunkDigests: four}, codes.InvalidArgument, 0)
	run("Put refuses before reading", &pb.SpliceBlobRequest{BlobDigest: cat(big, big, big, big).dg(), ChunkDigests: four}, codes.InvalidArgument, 0)
	// Put fails at the very end (hash of the whole is wrong)
	c3 := f.store(d.r.Bytes(80000), "c3")
	run("wrong hash of the whole", &pb.SpliceBlobRequest{BlobDigest: dig(sha([]byte("other")), c1.size+c3.size), ChunkDigests: []*pb.Digest{c1.dg(), c3.dg()}}, codes.Unknown, 0)
	// a chunk in the middle is missing: the writer reports NotFound, Put sees a short stream
	gone := dig(sha([]byte("gone")), 1234)
	run("middle chunk missing", &pb.SpliceBlobRequest{BlobDigest: dig(sha([]byte("whole")), c1.size+1234+c2.size), ChunkDigests: []*pb.Digest{c1.dg(), gone, c2.dg()}}, codes.NotFound, 0)
	run("first chunk missing", &pb.SpliceBlobRequest{BlobDigest: dig(sha([]byte("whole2")), c1.size+1234), ChunkDigests: []*pb.Digest{gone, c1.dg()}}, codes.NotFound, 0)
	// a chunk whose file was truncated behind the cache's back
	v := f.store(d.r.Bytes(60000), "victim")
	_ = osTruncate(f.pathOf("cas/"+v.hash), 100)
	run("middle chunk truncated on disk", &pb.SpliceBlobRequest{BlobDigest: cat(c1, v, c2).dg(), ChunkDigests: []*pb.Digest{c1.dg(), v.dg(), c2.dg()}}, codes.Unknown, 0, codes.NotFound)
	v2 := f.store(d.r.Bytes(60000), "victim2")
	_ = osRemove(f.pathOf("cas/" + v2.hash))
	run("middle chunk removed on disk", &pb.SpliceBlobRequest{BlobDigest: cat(c1, v2, c2).dg(), ChunkDigests: []*pb.Digest{c1.dg(), v2.dg(), c2.dg()}}, codes.NotFound, 0)
	// the client goes away while 7 MiB are being spliced
	three := []*pb.Digest{big.dg(), big.dg(), big.dg()}
	run("client aborts at once", &pb.SpliceBlobRequest{BlobDigest: cat(big, big, big).dg(), ChunkDigests: three}, codes.OK, time.Nanosecond)
	run("client aborts after 3 ms", &pb.SpliceBlobRequest{BlobDigest: cat(big, big, c1).dg(), ChunkDigests: []*pb.Digest{big.dg(), big.dg(), c1.dg()}}, codes.OK, 3*time.Millisecond)
}

// readers of compressed data abandoned early: in uncompressed storage these are
// GetLegacyZstdReadCloser's goroutine and file
func (d *drv) zstdReaders(f *fx) {
	big := f.pool[4]
	name := fmt.Sprintf("compressed-blobs/zstd/%s/%d", big.hash, big.size)
	for _, off := range []int64{0, 1, 1 << 20, big.size - 1} {
		d.rep.Count("zstdread.protocol")
		d.bsRead(f, name, off, 0, 0, false)  // cancelled before the first message is taken
		d.bsRead(f, name, off, 0, 1, false)  // cancelled after the first message
		d.bsRead(f, name, off, 0, -1, false) // read to the end
	}
	for _, fw := range []int{1, 2, 3} {
		d.httpCall(f, false, "GET", "/cas/"+big.hash, httpOpt{hdr: map[string]string{"Accept-Encoding": "zstd"}, failWrites: fw}, false)
		d.httpCall(f, false, "GET", "/cas/"+big.hash, httpOpt{hdr: map[string]string{}, failWrites: fw}, false)
	}
	d.call(fmt.Sprintf("BatchReadBlobs[%s] zstd acceptable, 2.3 MiB blob twice", f.mode), false, func(ctx context.Context) outcome {
		_, err := f.cas.BatchReadBlobs(ctx, &pb.BatchReadBlobsRequest{Digests: []*pb.Digest{big.dg(), big.dg()}, AcceptableCompressors: []pb.Compressor_Value{pb.Compressor_ZSTD}})
		return oc(err)
	})
	// the file disappears / shrinks while it is being served compressed
	v := f.store(compressible(d.r, 2<<20), "victim")
	p := f.pathOf("cas/" + v.hash)
	vn := fmt.Sprintf("compressed-blobs/zstd/%s/%d", v.hash, v.size)
	d.call(fmt.Sprintf("ByteStream.Read[%s] name=%q, file truncated after the first message", f.mode, vn), false, func(ctx context.Context) outcome {
		st, err := f.bs.Read(ctx, &bytestream.ReadRequest{ResourceName: vn})
		if err != nil {
			return oc(err)
		}
		_, _ = st.Recv()
		_ = osTruncate(p, 50)
		for {
			if _, err := st.Recv(); err != nil {
				if err == io.EOF {
					return outcome{code: "OK"}
				}
				return oc(err)
			}
		}
	})
}

// ---- probes in a process of their own (they can take the process down)

type probeResult struct {
	name string
	bad  string // oracle failure ("" = fine)
	text string
}

type probeOut struct {
	Text          string `json:"text"`
	Returned      bool   `json:"returned"`      // the handler returned before the client's deadline
	StillRunning  bool   `json:"still_running"` // the handler was still running N seconds after the client had given up
	AfterDeadline int    `json:"after_deadline_ms"`
	Visited       int    `json:"visited"`
}

func runProbes() []probeResult {
	var out []probeResult
	exe, err := os.Executable()
	if err != nil {
		return []probeResult{{"setup", "harness: no executable path", err.Error()}}
	}
	type job struct {
		name string
		ch   chan probeResult
	}
	var jobs []job
	for _, name := range []string{"gettree-self-reference", "gettree-dag", "fetchblob-silent-upstream", "fetchblob-endless-upstream"} {
		j := job{name, make(chan probeResult, 1)}
		jobs = append(jobs, j)
		go func(j job) {
			base := ""
			if st, e := os.Stat("/dev/shm"); e == nil && st.IsDir() {
				base = "/dev/shm"
			}
			pdir, _ := os.MkdirTemp(base, "verif-abuse-probe")
			defer os.RemoveAll(pdir)
			cmd := exec.Command(exe)
			cmd.Env = append(os.Environ(), "VERIF_ABUSE_PROBE="+j.name, "VERIF_ABUSE_PROBE_DIR="+pdir)
			var so, se bytes.Buffer
			cmd.Stdout, cmd.Stderr = &so, &se
			done := make(chan error, 1)
			if err := cmd.Start(); err != nil {
				j.ch <- probeResult{j.name, "harness: probe did not start", err.Error()}
				return
			}
			go func() { done <- cmd.Wait() }()
			var werr error
			select {
			case werr = <-done:
			case <-time.After(45 * time.Second):
				_ = cmd.Process.Kill()
				<-done
				j.ch <- probeResult{j.name, "probe " + j.name + ": the process had to be killed after 45 s", firstLines(se.String(), 10)}
				return
			}
			var po probeOut
			if json.Unmarshal(bytes.TrimSpace(so.Bytes()), &po) != nil {
				j.ch <- probeResult{j.name, "probe " + j.name + ": the server process died", fmt.Sprintf("exit: %v\n%s", werr, firstLines(se.String(), 30))}
				return
			}
			r := probeResult{name: j.name, text: po.Text}
			if po.StillRunning {
				r.bad = fmt.Sprintf("runaway handler (%s): still running %d ms after the client's deadline expired", j.name, po.AfterDeadline)
			}
			j.ch <- r
		}(j)
	}
	for _, j := range jobs {
		out = append(out, <-j.ch)
	}
	return out
}

// runProbe is the child: one hostile situation, observed from inside, reported as JSON on stdout
func runProbe(name string) {
	log.SetOutput(io.Discard)
	const clientDeadline = 2 * time.Second
	const grace = 10 * time.Second
	var po probeOut
	var f *fx
	var do func(ctx context.Context) error
	switch name {
	case "gettree-self-reference":
		// uncompressed storage: the file of a CAS entry is the blob itself.  A Directory whose only
		// child is (H, S) is planted as the file of the entry (H, S): the content does not hash to
		// H — a damaged or foreign file — and GetTree(H, S) meets itself.
		dir, _ := os.MkdirTemp(os.Getenv("VERIF_ABUSE_PROBE_DIR"), "verif-abuse-probe")
		h := strings.Repeat("ab", 32)
		var content []byte
		s := int64(70)
		for i := 0; i < 5; i++ {
			content = mustMarshal(&pb.Directory{Directories: []*pb.DirectoryNode{{Name: "self", Digest: dig(h, s)}}})
			s = int64(len(content))
		}
		_ = os.MkdirAll(dir+"/cas.v2/ab", 0755)
		_ = os.WriteFile(fmt.Sprintf("%s/cas.v2/ab/%s-1234567890.v1", dir, h), content, 0644)
		f = newFxIn("uncompressed", dir)
		po.Text = fmt.Sprintf("GetTree root=%s/%d where the stored file of that entry is Directory{directories:[{name:\"self\",digest:{%s,%d}}]} (uncompressed storage, file planted in the cache directory before start-up)", h, s, h, s)
		do = func(ctx context.Context) error { return drainTree(f, ctx, dig(h, s)) }
	case "gettree-dag":
		// legitimate content only: level i has two children, both the directory of level i-1
		f = newFx("zstd")
		prev := f.store(mustMarshal(&pb.Directory{Files: []*pb.FileNode{{Name: "f", Digest: dig(emptySha, 0)}}}), "leaf")
		const depth = 40
		for i := 0; i < depth; i++ {
			prev = f.store(mustMarshal(&pb.Directory{Directories: []*pb.DirectoryNode{{Name: "a", Digest: prev.dg()}, {Name: "b", Digest: prev.dg()}}}), "level")
		}
		po.Text = fmt.Sprintf("GetTree root=%s/%d: %d stored Directories (each %d bytes, uploaded through the normal API), level i = {a: level i-1, b: level i-1}; the tree has 2^%d nodes", prev.hash, prev.size, depth+1, prev.size, depth)
		do = func(ctx context.Context) error { return drainTree(f, ctx, prev.dg()) }
	case "fetchblob-silent-upstream":
		f = newFx("zstd")
		up := newUpstream()
		po.Text = "FetchBlob uris=[http://<upstream that accepts the connection and never answers>/hang], client deadline 2 s"
		do = func(ctx context.Context) error {
			_, err := f.fetch.FetchBlob(ctx, &asset.FetchBlobRequest{Uris: []string{up.url("/hang")}})
			return err
		}
	case "fetchblob-endless-upstream":
		// the checksum is given, the upstream announces 1 TiB and streams for ever: Put refuses the
		// size before reading and its deferred drain reads the body
		f = newFx("zstd")
		up := newUpstream()
		po.Text = "FetchBlob uris=[http://<upstream answering Content-Length: 1099511627776 and streaming without end>/endless] qualifiers=[checksum.sri=sha256-<32 bytes not in the cache>], client deadline 2 s"
		do = func(ctx context.Context) error {
			_, err := f.fetch.FetchBlob(ctx, &asset.FetchBlobRequest{Uris: []string{up.url("/endless")},
				Qualifiers: []*asset.Qualifier{{Name: "checksum.sri", Value: "sha256-" + base64.StdEncoding.EncodeToString(bytes.Repeat([]byte{9}, 32))}}})
			return err
		}
	default:
		fmt.Println("{}")
		return
	}
	ctx, cancel := context.WithTimeout(context.Background(), clientDeadline)
	defer cancel()
	err := do(ctx)
	po.Returned = status.Code(err) != codes.DeadlineExceeded
	t0 := time.Now()
	for time.Since(t0) < grace && len(mon.inflightList()) > 0 {
		time.Sleep(20 * time.Millisecond)
	}
	po.StillRunning = len(mon.inflightList()) > 0
	po.AfterDeadline = int(time.Since(t0) / time.Millisecond)
	b, _ := json.Marshal(po)
	fmt.Println(string(b))
	os.Exit(0)
}

func drainTree(f *fx, ctx context.Context, root *pb.Digest) error {
	st, err := f.cas.GetTree(ctx, &pb.GetTreeRequest{RootDigest: root})
	if err != nil {
		return err
	}
	for {
		if _, err := st.Recv(); err != nil {
			if err == io.EOF {
				return nil
			}
			return err
		}
	}
}
