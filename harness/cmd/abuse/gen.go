package main

// Stored content, the local upstream for FetchBlob, hostile value generators, request primitives.

import (
	"bytes"
	"context"
	"fmt"
	"io"
	"math"
	"net"
	"net/http"
	"net/http/httptest"
	"strings"
	"sync"
	"time"

	"github.com/buchgr/bazel-remote/v2/cache"
	pb "github.com/buchgr/bazel-remote/v2/genproto/build/bazel/remote/execution/v2"

	"github.com/klauspost/compress/zstd"
	"google.golang.org/genproto/googleapis/bytestream"
	"google.golang.org/protobuf/proto"
)

var zenc, _ = zstd.NewWriter(nil)

func dig(h string, s int64) *pb.Digest { return &pb.Digest{Hash: h, SizeBytes: s} }
func (b blob) dg() *pb.Digest          { return dig(b.hash, b.size) }
func mustMarshal(m proto.Message) []byte {
	b, err := proto.Marshal(m)
	if err != nil {
		panic(err)
	}
	return b
}

func compressible(r interface{ Bytes(int) []byte }, n int) []byte {
	unit := r.Bytes(257)
	out := make([]byte, 0, n)
	for len(out) < n {
		out = append(out, unit...)
		unit[len(out)%len(unit)]++
	}
	return out[:n]
}

// populate stores the well-formed blobs and the blobs that requests will interpret as
// Directory / Tree / ActionResult, well- and ill-formed.
func (d *drv) populate(f *fx) {
	r := d.r
	for _, n := range []int{1, 10, 5000, 1 << 20, 2*(1<<20) + 300000} {
		f.pool = append(f.pool, f.store(compressible(r, n), fmt.Sprintf("blob%d", n)))
	}
	small := f.pool[0]
	addDir := func(m proto.Message, what string) blob {
		b := f.store(mustMarshal(m), what)
		f.dirs = append(f.dirs, b)
		return b
	}
	node := func(name string, dg *pb.Digest) *pb.DirectoryNode { return &pb.DirectoryNode{Name: name, Digest: dg} }
	leaf := addDir(&pb.Directory{Files: []*pb.FileNode{{Name: "f", Digest: small.dg()}}}, "dir-leaf")
	mid := addDir(&pb.Directory{Directories: []*pb.DirectoryNode{node("leaf", leaf.dg())}}, "dir-mid")
	addDir(&pb.Directory{Directories: []*pb.DirectoryNode{node("mid", mid.dg()), node("leaf", leaf.dg())}}, "dir-root")
	addDir(&pb.Directory{Directories: []*pb.DirectoryNode{{Name: "x"}}}, "dir-child-without-digest")
	addDir(&pb.Directory{Directories: []*pb.DirectoryNode{{}, {}, node("", nil)}}, "dir-empty-nodes")
	addDir(&pb.Directory{Directories: []*pb.DirectoryNode{node("m", dig(strings.Repeat("7", 64), 7))}}, "dir-missing-child")
	addDir(&pb.Directory{Directories: []*pb.DirectoryNode{node("b", dig("zz", 3))}}, "dir-bad-hash-child")
	addDir(&pb.Directory{Directories: []*pb.DirectoryNode{node("n", dig(leaf.hash, -1))}}, "dir-negative-size-child")
	addDir(&pb.Directory{Directories: []*pb.DirectoryNode{node("n", dig(leaf.hash, math.MinInt64))}}, "dir-minint-size-child")
	addDir(&pb.Directory{Directories: []*pb.DirectoryNode{node("s", dig(leaf.hash, leaf.size+1))}}, "dir-wrong-size-child")
	addDir(&pb.Directory{Directories: []*pb.DirectoryNode{node("e", dig(emptySha, 0))}}, "dir-empty-blob-child")
	addDir(&pb.Directory{Directories: []*pb.DirectoryNode{node("e", dig(strings.ToUpper(leaf.hash), leaf.size))}}, "dir-uppercase-hash-child")
	garbage := f.store(append([]byte{0xff, 0xff, 0xff, 0x0f}, r.Bytes(300)...), "garbage")
	f.dirs = append(f.dirs, garbage)
	f.dirs = append(f.dirs, f.store([]byte{0x1a, 0xff, 0xff, 0xff, 0xff, 0x0f, 0x01}, "dir-overlong-length-prefix"))
	addDir(&pb.Directory{Directories: []*pb.DirectoryNode{node("g", garbage.dg()), node("leaf", leaf.dg())}}, "dir-garbage-child")
	prev := leaf
	for i := 0; i < 150; i++ {
		prev = f.store(mustMarshal(&pb.Directory{Directories: []*pb.DirectoryNode{node(fmt.Sprintf("d%d", i), prev.dg())}}), "chain")
	}
	f.dirs = append(f.dirs, blob{prev.data, prev.hash, prev.size, "dir-chain-150"})
	var wide []*pb.DirectoryNode
	for i := 0; i < 200; i++ {
		wide = append(wide, node(fmt.Sprintf("w%d", i), leaf.dg()))
	}
	addDir(&pb.Directory{Directories: wide}, "dir-wide-200")

	// trees
	tree := f.store(mustMarshal(&pb.Tree{Root: &pb.Directory{Files: []*pb.FileNode{{Name: "f", Digest: small.dg()}}},
		Children: []*pb.Directory{{Files: []*pb.FileNode{{Name: "g", Digest: f.pool[1].dg()}}}}}), "tree-ok")
	treeNoDigests := f.store(mustMarshal(&pb.Tree{Root: &pb.Directory{Files: []*pb.FileNode{{Name: "f"}, {}}},
		Children: []*pb.Directory{{}, {Files: []*pb.FileNode{{Name: "g"}}}}}), "tree-files-without-digests")
	treeNoRoot := f.store(mustMarshal(&pb.Tree{Children: []*pb.Directory{{Files: []*pb.FileNode{{Name: "g", Digest: dig("q", -3)}}}}}), "tree-without-root")

	// action results: stored directly under the AC key (what an older/other writer may have left)
	k := 0
	key := func() string { k++; return sha([]byte(fmt.Sprintf("action-%s-%d", f.mode, k))) }
	putAC := func(m proto.Message) {
		h := key()
		f.put(cache.AC, h, mustMarshal(m))
		f.acKeys = append(f.acKeys, h)
	}
	file := func(p string, dg *pb.Digest) *pb.OutputFile { return &pb.OutputFile{Path: p, Digest: dg} }
	putAC(&pb.ActionResult{OutputFiles: []*pb.OutputFile{file("a", small.dg()), file("b", f.pool[2].dg())},
		StdoutDigest: f.pool[1].dg(), OutputDirectories: []*pb.OutputDirectory{{Path: "d", TreeDigest: tree.dg()}}})
	putAC(&pb.ActionResult{OutputFiles: []*pb.OutputFile{{Path: "a"}, {}}})
	putAC(&pb.ActionResult{OutputFiles: []*pb.OutputFile{file("a", dig("nothex", 4))}, StderrDigest: dig(small.hash, -9)})
	putAC(&pb.ActionResult{OutputDirectories: []*pb.OutputDirectory{{Path: "d"}, {}, {Path: "e", TreeDigest: &pb.Digest{}}}})
	putAC(&pb.ActionResult{OutputDirectories: []*pb.OutputDirectory{{Path: "d", TreeDigest: garbage.dg()}}})
	putAC(&pb.ActionResult{OutputDirectories: []*pb.OutputDirectory{{Path: "d", TreeDigest: treeNoDigests.dg()}, {Path: "e", TreeDigest: treeNoRoot.dg()}}})
	putAC(&pb.ActionResult{OutputDirectories: []*pb.OutputDirectory{{Path: "d", TreeDigest: dig(strings.Repeat("5", 64), 55)}}})
	putAC(&pb.ActionResult{OutputFiles: []*pb.OutputFile{file("big", f.pool[4].dg()), file("gone", dig(strings.Repeat("6", 64), 6))}, StdoutDigest: f.pool[3].dg()})
	putAC(&pb.ActionResult{StdoutRaw: []byte("inline out"), StderrRaw: r.Bytes(100), ExitCode: -1,
		OutputSymlinks: []*pb.OutputSymlink{{}, {Path: "l"}}, OutputFileSymlinks: []*pb.OutputSymlink{{Target: "/abs"}}})
	for _, g := range [][]byte{r.Bytes(64), {0x0a}, {0x12, 0xff, 0xff, 0xff, 0xff, 0x0f}, mustMarshal(&pb.Directory{Files: []*pb.FileNode{{Name: "f"}}})} {
		h := key()
		f.put(cache.AC, h, g)
		f.acKeys = append(f.acKeys, h)
	}
}

// one benign request per endpoint, so that lazily started helpers exist before the baseline
func (d *drv) warmup() {
	for _, f := range d.fxs() {
		b := f.pool[2]
		d.bsRead(f, "blobs/"+b.hash+"/5000", 0, 0, -1, false)
		d.bsRead(f, "compressed-blobs/zstd/"+b.hash+"/5000", 0, 0, -1, false)
		nb := mkBlob(d.r.Bytes(33), "warm")
		d.bsWrite(f, []wmsg{{name: "uploads/u/blobs/" + nb.hash + "/33", data: nb.data, fin: true}}, -1, true, false)
		zb := mkBlob(d.r.Bytes(34), "warmz")
		d.bsWrite(f, []wmsg{{name: "uploads/u/compressed-blobs/zstd/" + zb.hash + "/34", data: zenc.EncodeAll(zb.data, nil), fin: true}}, -1, true, false)
		d.httpCall(f, false, "GET", "/cas/"+b.hash, httpOpt{hdr: map[string]string{"Accept-Encoding": "zstd"}}, false)
		d.httpCall(f, false, "PUT", "/cas/"+nb.hash, httpOpt{body: bytes.NewReader(zenc.EncodeAll(nb.data, nil)), clen: 40,
			hdr: map[string]string{"Content-Encoding": "zstd", "X-Digest-SizeBytes": "33"}}, false)
		d.call("warmup BatchReadBlobs", false, func(ctx context.Context) outcome {
			_, err := f.cas.BatchReadBlobs(ctx, &pb.BatchReadBlobsRequest{Digests: []*pb.Digest{b.dg()}, AcceptableCompressors: []pb.Compressor_Value{pb.Compressor_ZSTD}})
			return oc(err)
		})
		d.call("warmup BatchUpdateBlobs", false, func(ctx context.Context) outcome {
			_, err := f.cas.BatchUpdateBlobs(ctx, &pb.BatchUpdateBlobsRequest{Requests: []*pb.BatchUpdateBlobsRequest_Request{{Digest: zb.dg(), Data: zenc.EncodeAll(zb.data, nil), Compressor: pb.Compressor_ZSTD}}})
			return oc(err)
		})
		d.call("warmup FindMissingBlobs", false, func(ctx context.Context) outcome {
			var ds []*pb.Digest
			for i := 0; i < 50; i++ {
				ds = append(ds, dig(sha([]byte{byte(i)}), 1))
			}
			_, err := f.cas.FindMissingBlobs(ctx, &pb.FindMissingBlobsRequest{BlobDigests: ds})
			return oc(err)
		})
	}
}

// ---- local upstream for FetchBlob

type upstream struct {
	mu      sync.Mutex
	data    []byte // what /data serves
	srv     *httptest.Server
	release chan struct{}
	once    sync.Once
}

func newUpstream() *upstream {
	u := &upstream{release: make(chan struct{})}
	mux := http.NewServeMux()
	mux.HandleFunc("/ok", func(w http.ResponseWriter, r *http.Request) {
		_, _ = w.Write([]byte("hello asset " + r.Header.Get("X-Tag")))
	})
	mux.HandleFunc("/data", func(w http.ResponseWriter, r *http.Request) {
		u.mu.Lock()
		b := u.data
		u.mu.Unlock()
		w.Header().Set("Content-Length", fmt.Sprint(len(b)))
		_, _ = w.Write(b)
	})
	mux.HandleFunc("/empty", func(w http.ResponseWriter, r *http.Request) {})
	mux.HandleFunc("/404", func(w http.ResponseWriter, r *http.Request) { http.Error(w, "no", 404) })
	mux.HandleFunc("/500", func(w http.ResponseWriter, r *http.Request) { http.Error(w, "no", 500) })
	mux.HandleFunc("/loop", func(w http.ResponseWriter, r *http.Request) { http.Redirect(w, r, "/loop", 302) })
	mux.HandleFunc("/chunked", func(w http.ResponseWriter, r *http.Request) {
		for i := 0; i < 5; i++ {
			_, _ = w.Write(bytes.Repeat([]byte{byte(i)}, 1000))
			w.(http.Flusher).Flush()
		}
	})
	raw := func(resp string) http.HandlerFunc {
		return func(w http.ResponseWriter, r *http.Request) {
			c, _, err := w.(http.Hijacker).Hijack()
			if err == nil {
				_, _ = c.Write([]byte(resp))
				_ = c.Close()
			}
		}
	}
	mux.HandleFunc("/shortbody", raw("HTTP/1.1 200 OK\r\nContent-Length: 100\r\n\r\nshort"))
	mux.HandleFunc("/hugelen", raw("HTTP/1.1 200 OK\r\nContent-Length: 9223372036854775807\r\n\r\nx"))
	mux.HandleFunc("/neglen", raw("HTTP/1.1 200 OK\r\nContent-Length: -5\r\n\r\nx"))
	mux.HandleFunc("/garbage", raw("\x00\x01garbage\r\n\r\n"))
	mux.HandleFunc("/endless", func(w http.ResponseWriter, r *http.Request) {
		w.Header().Set("Content-Length", "1099511627776")
		chunk := bytes.Repeat([]byte{7}, 1<<16)
		for {
			select {
			case <-u.release:
				return
			default:
			}
			if _, err := w.Write(chunk); err != nil {
				return
			}
		}
	})
	mux.HandleFunc("/hang", func(w http.ResponseWriter, r *http.Request) {
		select {
		case <-u.release:
		case <-time.After(30 * time.Second):
		}
	})
	u.srv = httptest.NewServer(mux)
	return u
}
func (u *upstream) url(p string) string { return u.srv.URL + p }
func (u *upstream) unhang()             { u.once.Do(func() { close(u.release) }) }
func (u *upstream) close() {
	u.unhang()
	u.srv.CloseClientConnections()
	u.srv.Close()
	http.DefaultClient.CloseIdleConnections()
}

// a closed local port (connection refused)
func closedPort() string {
	l, err := net.Listen("tcp", "127.0.0.1:0")
	if err != nil {
		return "127.0.0.1:1"
	}
	a := l.Addr().String()
	_ = l.Close()
	return a
}

// ---- hostile values

func (d *drv) oneOf(xs ...string) string { return xs[d.r.Intn(len(xs))] }

// hHash returns a hash text and whether it is NOT a 64-digit lower-case hex string
func (d *drv) hHash(f *fx) (string, bool) {
	r := d.r
	known := f.pool[r.Intn(len(f.pool))].hash
	switch r.Intn(16) {
	case 0, 1, 2, 3:
		return known, false
	case 4:
		return f.dirs[r.Intn(len(f.dirs))].hash, false
	case 5:
		return sha(r.Bytes(8)), false
	case 6:
		return emptySha, false
	case 7:
		return strings.ToUpper(known), true
	case 8:
		return known[:63], true
	case 9:
		return known + "0", true
	case 10:
		return "", true
	case 11:
		return known[:32] + "/" + known[32:], true
	case 12:
		return known[:60] + "éé", true
	case 13:
		return strings.Repeat("a", 20000), true
	case 14:
		return known[:63] + "\n", true
	default:
		return known[:63] + "g", true
	}
}

var extremes = []int64{0, 1, -1, -5, 2, 7, 4096, 1<<20 - 1, 1 << 20, 1<<20 + 1, diskMaxBlob, diskMaxBlob + 1, srvMaxBlob, srvMaxBlob + 1,
	1 << 31, 1 << 32, 1 << 62, math.MaxInt64, math.MaxInt64 - 1, math.MinInt64, math.MinInt64 + 1}

func (d *drv) hSize(real int64) int64 {
	switch d.r.Intn(6) {
	case 0, 1:
		return real
	case 2:
		return real + int64(d.r.Intn(3)) - 1
	default:
		return d.r.Pick(extremes)
	}
}

// hSizeText returns a size text and whether strconv.ParseInt refuses it or it is negative
func (d *drv) hSizeText(real int64) (string, bool) {
	switch d.r.Intn(10) {
	case 0, 1, 2, 3:
		v := d.hSize(real)
		return fmt.Sprint(v), v < 0
	case 4:
		return d.oneOf("", "abc", "1e3", "0x10", " 5", "5 ", "1_0", "-", "--1", "5.0", "٣", "NaN"), true
	case 5:
		return d.oneOf("9223372036854775808", "-9223372036854775809", "99999999999999999999999999", strings.Repeat("9", 5000)), true
	case 6:
		return d.oneOf("+5", "007", "-0", "+0"), false
	default:
		return fmt.Sprint(real), real < 0
	}
}

func (d *drv) hInstance() string {
	return d.oneOf("", "", "", "inst", "a/b/c", "blobs", "uploads", "compressed-blobs", "compressed-blobs/zstd", "üñî", "a//b", " ", "%2F", strings.Repeat("x/", 3000), "operations")
}

// a ByteStream resource name; malformed = refused by construction whatever the cache holds
func (d *drv) hName(f *fx, write bool) (name string, malformed bool) {
	r := d.r
	b := f.pool[r.Intn(len(f.pool))]
	h, hbad := d.hHash(f)
	st, sbad := d.hSizeText(b.size)
	if r.Chance(40) {
		h, hbad = b.hash, false
	}
	if r.Chance(40) {
		st, sbad = fmt.Sprint(b.size), false
	}
	inst := d.hInstance()
	plainInst := !strings.Contains(inst, "blobs") && !strings.Contains(inst, "uploads")
	kw := "blobs"
	kwbad := false
	switch r.Intn(10) {
	case 0, 1, 2:
		kw = "compressed-blobs/zstd"
	case 3:
		kw, kwbad = d.oneOf("compressed-blobs/gzip", "compressed-blobs", "compressed-blobs/", "blob", "BLOBS", "compressed-blobs/zstd/zstd", "compressed-blobs/identity"), true
	}
	var segs []string
	if inst != "" {
		segs = append(segs, inst)
	}
	if write {
		segs = append(segs, "uploads", d.oneOf("u", "", "550e8400-e29b-41d4-a716-446655440000", "ä", strings.Repeat("u", 500)))
	}
	segs = append(segs, kw, h, st)
	meta := r.Chance(15)
	if meta {
		segs = append(segs, d.oneOf("meta", "", "a/b", "blobs/x/1"))
	}
	name = strings.Join(segs, "/")
	malformed = plainInst && (hbad || sbad || kwbad)
	switch r.Intn(14) { // structural damage
	case 0:
		name, malformed = d.oneOf("", "/", "//", "blobs", "blobs/", "blobs/"+b.hash, "uploads", "uploads/u", "uploads/u/blobs", "uploads//blobs//", "compressed-blobs/zstd/"+b.hash,
			"\x00", "blobs/\x00/1", strings.Repeat("/", 10000), b.hash+"/5", "uploads/u/"+b.hash+"/5"), true
	case 1:
		if i := strings.LastIndex(name, "/"); i > 0 && !meta {
			name = name[:i] // size segment missing
			malformed = plainInst && !strings.Contains(h, "/")
		}
	}
	return
}

// ---- ByteStream primitives

func (d *drv) bsRead(f *fx, name string, off, lim int64, abortAfter int, mustErr bool) outcome {
	text := fmt.Sprintf("ByteStream.Read[%s] name=%q offset=%d limit=%d abortAfterMsgs=%d", f.mode, trunc(name), off, lim, abortAfter)
	return d.call(text, mustErr, func(ctx context.Context) outcome {
		ctx, cancel := context.WithCancel(ctx)
		defer cancel()
		st, err := f.bs.Read(ctx, &bytestream.ReadRequest{ResourceName: name, ReadOffset: off, ReadLimit: lim})
		if err != nil {
			return oc(err)
		}
		if abortAfter == 0 {
			cancel()
			return outcome{code: "aborted"}
		}
		for n := 1; ; n++ {
			_, err := st.Recv()
			if err == io.EOF {
				return outcome{code: "OK"}
			}
			if err != nil {
				return oc(err)
			}
			if abortAfter > 0 && n >= abortAfter {
				cancel()
				return outcome{code: "aborted"}
			}
		}
	})
}

type wmsg struct {
	name string
	off  int64
	data []byte
	fin  bool
}

func wtext(msgs []wmsg) string {
	var sb strings.Builder
	for i, m := range msgs {
		if i > 0 {
			sb.WriteString("; ")
		}
		if i > 6 {
			fmt.Fprintf(&sb, "... (%d messages)", len(msgs))
			break
		}
		fmt.Fprintf(&sb, "{name=%q off=%d len=%d fin=%v}", trunc(m.name), m.off, len(m.data), m.fin)
	}
	return sb.String()
}

// bsWrite: abortAfter>=0: cancel the call after that many messages (no half-close);
// halfClose=false without abort: stop sending and wait for the answer without closing
func (d *drv) bsWrite(f *fx, msgs []wmsg, abortAfter int, halfClose bool, mustErr bool) outcome {
	text := fmt.Sprintf("ByteStream.Write[%s] abortAfterMsgs=%d halfClose=%v msgs=[%s]", f.mode, abortAfter, halfClose, wtext(msgs))
	return d.call(text, mustErr, func(ctx context.Context) outcome {
		ctx, cancel := context.WithCancel(ctx)
		defer cancel()
		w, err := f.bs.Write(ctx)
		if err != nil {
			return oc(err)
		}
		for i, m := range msgs {
			if abortAfter >= 0 && i >= abortAfter {
				break
			}
			// keep sending after an error, like a client that has not looked at the stream state yet
			_ = w.Send(&bytestream.WriteRequest{ResourceName: m.name, WriteOffset: m.off, Data: m.data, FinishWrite: m.fin})
		}
		if abortAfter >= 0 {
			cancel()
			return outcome{code: "aborted"}
		}
		if !halfClose {
			// the server must answer (or the deadline of 1 s hits: a client that waits without closing)
			c2, cc := context.WithTimeout(ctx, time.Second)
			defer cc()
			done := make(chan error, 1)
			go func() { var r bytestream.WriteResponse; done <- w.RecvMsg(&r) }()
			select {
			case err := <-done:
				return oc(err)
			case <-c2.Done():
				cancel()
				return outcome{code: "aborted-waiting"}
			}
		}
		_, err = w.CloseAndRecv()
		return oc(err)
	})
}

func trunc(s string) string {
	if len(s) > 200 {
		return s[:120] + fmt.Sprintf("...(%d bytes)...", len(s)) + s[len(s)-40:]
	}
	return s
}
