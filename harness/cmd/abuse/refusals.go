package main

// Uploads that the disk layer REFUSES before reading them (lru.Reserve fails: the blob is larger
// than the cache, reserved+size exceeds the maximum, or the max_size_hard_limit overload rule),
// on every write path that hands a pipe / stream / reader to disk.Put.  Whoever feeds that reader
// must still come to an end: Put's deferred drain (or the caller closing the read end) is what
// the SpliceBlob model of Model/Protocols.v rests on.  After each path the leak oracle runs and
// names the path.

import (
	"bytes"
	"context"
	"encoding/base64"
	"encoding/hex"
	"fmt"
	"time"

	"github.com/buchgr/bazel-remote/v2/cache"
	asset "github.com/buchgr/bazel-remote/v2/genproto/build/bazel/remote/asset/v1"
	pb "github.com/buchgr/bazel-remote/v2/genproto/build/bazel/remote/execution/v2"

	"google.golang.org/genproto/googleapis/bytestream"
	"google.golang.org/grpc/codes"
)

const (
	tinyMax  = 256 << 10
	tinyHard = 320 << 10
	chunkLen = 20 << 10
)

type refusalCause struct {
	name string
	t    func(d *drv) *fx
	size int                        // size of the refused blob (a multiple of chunkLen)
	prep func(d *drv, t *fx) func() // establishes the situation; returns its release
}

var refusalCauses = []refusalCause{
	{"blob larger than the cache", func(d *drv) *fx { return d.ft }, 15 * chunkLen, func(d *drv, t *fx) func() { return func() {} }},
	{"reserved + size over max_size", func(d *drv) *fx { return d.ft }, 5 * chunkLen, func(d *drv, t *fx) func() { return d.holdReservation(t, 200<<10) }},
	{"max_size_hard_limit overload", func(d *drv) *fx { return d.fh }, 5 * chunkLen, func(d *drv, t *fx) func() {
		for i := 0; i < 40; i++ {
			if total, _, _, _ := t.c.Stats(); total >= 200<<10 {
				break
			}
			b := d.freshBlob(36 << 10)
			if t.tryPut(b) != nil { // overloaded already (files queued for removal count)
				break
			}
		}
		return func() {}
	}},
}

// a Write stream that has declared size bytes, sent one, and waits: Put holds the reservation
func (d *drv) holdReservation(t *fx, size int64) func() {
	ctx, cancel := context.WithCancel(context.Background())
	w, err := t.bs.Write(ctx)
	if err == nil {
		b := d.freshBlob(int(size))
		_ = w.Send(&bytestream.WriteRequest{ResourceName: fmt.Sprintf("uploads/hold/blobs/%s/%d", b.hash, b.size), Data: b.data[:1]})
		for t0 := time.Now(); time.Since(t0) < 5*time.Second; time.Sleep(5 * time.Millisecond) {
			if _, res, _, _ := t.c.Stats(); res >= size {
				break
			}
		}
	}
	return cancel
}

var refusalPaths = []string{
	"SpliceBlob (blob digest given)", "SpliceBlob (server-side hashing)",
	"ByteStream.Write (identity)", "ByteStream.Write (zstd)",
	"BatchUpdateBlobs (identity)", "BatchUpdateBlobs (zstd)",
	"UpdateActionResult (inlined output file)", "UpdateActionResult (inlined stdout)",
	"HTTP PUT (plain)", "HTTP PUT (zstd)", "HTTP PUT (no Content-Length)",
	"FetchBlob (checksum given)", "FetchBlob (no checksum)",
}

func (d *drv) refusal(c refusalCause, path string, reps int) {
	t := c.t(d)
	release := c.prep(d, t)
	d.rep.Count("refused-upload")
	for i := 0; i < reps; i++ {
		chunk := mkBlob(d.r.Bytes(chunkLen), "chunk")
		n := c.size / chunkLen
		whole := mkBlob(bytes.Repeat(chunk.data, n), "whole")
		var o outcome
		text := fmt.Sprintf("upload refused by the disk layer (%s) via %s [%s cache, max_size %d, hard limit %d]: blob %s/%d", c.name, path, t.name(), t.max, t.hard, whole.hash, whole.size)
		switch path {
		case "SpliceBlob (blob digest given)", "SpliceBlob (server-side hashing)":
			// the chunk is in the cache; the spliced blob is its n-fold repetition
			for k := 0; t.tryPut(chunk) != nil && k < 100; k++ {
				time.Sleep(20 * time.Millisecond) // files queued for removal count against the hard limit
			}
			var cds []*pb.Digest
			for j := 0; j < n; j++ {
				cds = append(cds, chunk.dg())
			}
			req := &pb.SpliceBlobRequest{BlobDigest: whole.dg(), ChunkDigests: cds}
			if path == "SpliceBlob (server-side hashing)" {
				req.BlobDigest = nil
			}
			o = d.call(text+fmt.Sprintf(" = %d x chunk %s/%d", n, chunk.hash, chunk.size), true, func(ctx context.Context) outcome {
				_, err := t.cas.SpliceBlob(ctx, req)
				return oc(err)
			})
		case "ByteStream.Write (identity)", "ByteStream.Write (zstd)":
			name, payload := fmt.Sprintf("uploads/u/blobs/%s/%d", whole.hash, whole.size), whole.data
			if path == "ByteStream.Write (zstd)" {
				name, payload = fmt.Sprintf("uploads/u/compressed-blobs/zstd/%s/%d", whole.hash, whole.size), zenc.EncodeAll(whole.data, nil)
			}
			var ms []wmsg
			for _, p := range split(payload, 8) {
				ms = append(ms, wmsg{name: name, data: p})
			}
			ms[len(ms)-1].fin = true
			o = d.bsWrite(t, ms, -1, true, true)
		case "BatchUpdateBlobs (identity)", "BatchUpdateBlobs (zstd)":
			q := &pb.BatchUpdateBlobsRequest_Request{Digest: whole.dg(), Data: whole.data}
			if path == "BatchUpdateBlobs (zstd)" {
				q.Data, q.Compressor = zenc.EncodeAll(whole.data, nil), pb.Compressor_ZSTD
			}
			o = d.call(text, true, func(ctx context.Context) outcome {
				resp, err := t.cas.BatchUpdateBlobs(ctx, &pb.BatchUpdateBlobsRequest{Requests: []*pb.BatchUpdateBlobsRequest_Request{q}})
				if err == nil && len(resp.Responses) == 1 && resp.Responses[0].Status.GetCode() != 0 {
					return outcome{isErr: true, code: "status-" + codes.Code(resp.Responses[0].Status.GetCode()).String()}
				}
				return oc(err)
			})
		case "UpdateActionResult (inlined output file)", "UpdateActionResult (inlined stdout)":
			ar := &pb.ActionResult{OutputFiles: []*pb.OutputFile{{Path: "o", Digest: whole.dg(), Contents: whole.data}}}
			if path == "UpdateActionResult (inlined stdout)" {
				ar = &pb.ActionResult{StdoutRaw: whole.data, StdoutDigest: whole.dg()}
			}
			o = d.call(text, true, func(ctx context.Context) outcome {
				_, err := t.ac.UpdateActionResult(ctx, &pb.UpdateActionResultRequest{ActionDigest: dig(sha(d.r.Bytes(9)), 9), ActionResult: ar})
				return oc(err)
			})
		case "HTTP PUT (plain)":
			o = d.httpCall(t, false, "PUT", "/cas/"+whole.hash, httpOpt{hdr: map[string]string{}, body: bytes.NewReader(whole.data), clen: whole.size}, true)
		case "HTTP PUT (zstd)":
			z := zenc.EncodeAll(whole.data, nil)
			o = d.httpCall(t, false, "PUT", "/cas/"+whole.hash, httpOpt{hdr: map[string]string{"Content-Encoding": "zstd", "X-Digest-SizeBytes": fmt.Sprint(whole.size)}, body: bytes.NewReader(z), clen: int64(len(z))}, true)
		case "HTTP PUT (no Content-Length)":
			o = d.httpCall(t, false, "PUT", "/cas/"+whole.hash, httpOpt{hdr: map[string]string{"X-Digest-SizeBytes": fmt.Sprint(whole.size)}, body: bytes.NewReader(whole.data), clen: -1}, true)
		case "FetchBlob (checksum given)", "FetchBlob (no checksum)":
			d.up.mu.Lock()
			d.up.data = whole.data
			d.up.mu.Unlock()
			req := &asset.FetchBlobRequest{Uris: []string{d.up.url("/data")}}
			if path == "FetchBlob (checksum given)" {
				raw, _ := hex.DecodeString(whole.hash)
				req.Qualifiers = []*asset.Qualifier{{Name: "checksum.sri", Value: "sha256-" + base64.StdEncoding.EncodeToString(raw)}}
			}
			o = d.call(text, true, func(ctx context.Context) outcome {
				resp, err := t.fetch.FetchBlob(ctx, req)
				if err == nil && resp.GetStatus().GetCode() != 0 {
					return outcome{isErr: true, code: "status-" + codes.Code(resp.Status.Code).String()}
				}
				return oc(err)
			})
		}
		short := map[string]string{"blob larger than the cache": "A", "reserved + size over max_size": "B", "max_size_hard_limit overload": "C"}[c.name]
		d.rep.Count("refused." + short + "." + o.code)
	}
	release()
	d.restLight(fmt.Sprintf("uploads refused by the disk layer (%s) via %s", c.name, path))
}

func (f *fx) tryPut(b blob) error {
	return f.c.Put(context.Background(), cache.CAS, b.hash, b.size, bytes.NewReader(b.data))
}

// every cause x every path, a few times each
func (d *drv) refusalsAll(reps int) {
	for _, c := range refusalCauses {
		for _, p := range refusalPaths {
			d.refusal(c, p, reps)
		}
	}
}
