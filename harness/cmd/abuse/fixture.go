package main

// The server under test (in-process), the panic/in-flight monitor and the quiescence checks.

import (
	"bytes"
	"context"
	"crypto/sha256"
	"encoding/hex"
	"fmt"
	"io"
	"log"
	"net"
	"os"
	"path/filepath"
	"runtime"
	"runtime/debug"
	"sort"
	"strings"
	"sync"
	"time"

	"github.com/buchgr/bazel-remote/v2/cache"
	"github.com/buchgr/bazel-remote/v2/cache/disk"
	asset "github.com/buchgr/bazel-remote/v2/genproto/build/bazel/remote/asset/v1"
	pb "github.com/buchgr/bazel-remote/v2/genproto/build/bazel/remote/execution/v2"
	"github.com/buchgr/bazel-remote/v2/server"

	"google.golang.org/genproto/googleapis/bytestream"
	"google.golang.org/grpc"
	"google.golang.org/grpc/codes"
	"google.golang.org/grpc/credentials/insecure"
	"google.golang.org/grpc/status"
	"google.golang.org/grpc/test/bufconn"
)

const (
	callTimeout = 25 * time.Second // per call; the machine may be heavily loaded by parallel shards and builds
	diskMaxBlob = 8 << 20         // disk.WithMaxBlobSize: Put refuses larger blobs before reading anything
	srvMaxBlob  = 16 << 20        // max_cas_blob_size of the gRPC/HTTP front ends (so 8..16 MiB reaches Put)
	emptySha    = "e3b0c44298fc1c149afbf4c8996fb92427ae41e4649b934ca495991b7852b855"
)

func sha(b []byte) string { h := sha256.Sum256(b); return hex.EncodeToString(h[:]) }

// ---- monitor: panics recovered per call, handlers in flight

type panicRec struct{ where, val, stack string }

type monitor struct {
	mu       sync.Mutex
	panics   []panicRec
	inflight map[int64]string
	next     int64
	cur      string
}

var mon = &monitor{inflight: map[int64]string{}}

func (m *monitor) enter(what string) int64 {
	m.mu.Lock()
	defer m.mu.Unlock()
	m.next++
	m.inflight[m.next] = what + " <- " + m.cur
	return m.next
}
func (m *monitor) exit(id int64) { m.mu.Lock(); delete(m.inflight, id); m.mu.Unlock() }
func (m *monitor) setCur(s string) {
	m.mu.Lock()
	m.cur = s
	m.mu.Unlock()
}
func (m *monitor) recordPanic(where string, v interface{}) {
	st := string(debug.Stack())
	m.mu.Lock()
	m.panics = append(m.panics, panicRec{where, fmt.Sprint(v), st})
	m.mu.Unlock()
}
func (m *monitor) takePanics() []panicRec {
	m.mu.Lock()
	defer m.mu.Unlock()
	p := m.panics
	m.panics = nil
	return p
}

// a handler that was reported as still running is not waited for again
func (m *monitor) giveUpOnInflight() {
	m.mu.Lock()
	defer m.mu.Unlock()
	for id := range m.inflight {
		delete(m.inflight, id)
	}
}

func (m *monitor) inflightList() []string {
	m.mu.Lock()
	defer m.mu.Unlock()
	var l []string
	for _, v := range m.inflight {
		l = append(l, v)
	}
	sort.Strings(l)
	return l
}

func unaryI(ctx context.Context, req interface{}, info *grpc.UnaryServerInfo, h grpc.UnaryHandler) (resp interface{}, err error) {
	id := mon.enter(info.FullMethod)
	defer mon.exit(id)
	defer func() {
		if r := recover(); r != nil {
			mon.recordPanic(info.FullMethod, r)
			resp, err = nil, status.Error(codes.Internal, "panic recovered by the harness")
		}
	}()
	return h(ctx, req)
}

func streamI(srv interface{}, ss grpc.ServerStream, info *grpc.StreamServerInfo, h grpc.StreamHandler) (err error) {
	id := mon.enter(info.FullMethod)
	defer mon.exit(id)
	defer func() {
		if r := recover(); r != nil {
			mon.recordPanic(info.FullMethod, r)
			err = status.Error(codes.Internal, "panic recovered by the harness")
		}
	}()
	return h(srv, ss)
}

// ---- fixture

type blob struct {
	data []byte
	hash string
	size int64
	what string
}

func mkBlob(data []byte, what string) blob { return blob{data, sha(data), int64(len(data)), what} }

// allServer is what *grpcServer implements; obtained from the ActionCacheServer accessor.
type allServer interface {
	pb.ActionCacheServer
	pb.ContentAddressableStorageServer
	pb.CapabilitiesServer
	bytestream.ByteStreamServer
	asset.FetchServer
}

type fx struct {
	mode   string
	label  string // "" for the large caches; "tiny" / "tinyhard" for the ones that refuse uploads
	max    int64  // max_size (0 = 512 MiB)
	hard   int64  // max_size_hard_limit (0 = none)
	proxy  cache.Proxy
	dir    string
	c      disk.Cache
	srv    *grpc.Server
	conn   *grpc.ClientConn
	bs     bytestream.ByteStreamClient
	cas    pb.ContentAddressableStorageClient
	ac     pb.ActionCacheClient
	caps   pb.CapabilitiesClient
	fetch  asset.FetchClient
	direct allServer        // depsCheck on, no mangling
	nodeps allServer        // depsCheck off, mangled AC keys
	hv     server.HTTPCache // validating AC
	hraw   server.HTTPCache // raw AC, mangled keys
	pool   []blob           // well-formed stored CAS blobs
	dirs   []blob           // stored blobs that get interpreted as Directory (well- and ill-formed)
	acKeys []string         // action digests with a stored ActionResult
}

var nullLog = log.New(io.Discard, "", 0)

func newFx(mode string) *fx { return newFxCfg(mode, "", 0, 0) }

func newFxCfg(mode, label string, max, hard int64) *fx {
	return newFxProxy(mode, label, max, hard, nil)
}

func newFxProxy(mode, label string, max, hard int64, proxy cache.Proxy) *fx {
	base := ""
	if st, e := os.Stat("/dev/shm"); e == nil && st.IsDir() && os.Getenv("VERIF_ABUSE_DISK") == "" {
		base = "/dev/shm" // Put fsyncs every file; on tmpfs that is free
	}
	if pd := os.Getenv("VERIF_ABUSE_PROBE_DIR"); pd != "" {
		base = pd // the parent removes it
	}
	dir, err := os.MkdirTemp(base, "verif-abuse")
	if err != nil {
		panic(err)
	}
	return newFxAt(mode, dir, label, max, hard, proxy)
}

func newFxIn(mode, dir string) *fx { return newFxAt(mode, dir, "", 0, 0, nil) }

func newFxAt(mode, dir, label string, max, hard int64, proxy cache.Proxy) *fx {
	var err error
	dir, _ = filepath.EvalSymlinks(dir)
	f := &fx{mode: mode, dir: dir, label: label, max: max, hard: hard, proxy: proxy}
	f.open()
	l := bufconn.Listen(1 << 20)
	f.srv = grpc.NewServer(grpc.ChainUnaryInterceptor(unaryI), grpc.ChainStreamInterceptor(streamI),
		grpc.MaxRecvMsgSize(64<<20), grpc.MaxSendMsgSize(64<<20))
	go func() { _ = server.ServeGRPC(l, f.srv, true, false, true, srvMaxBlob, f.c, nullLog, nullLog) }()
	f.conn, err = grpc.NewClient("passthrough://bufnet", grpc.WithTransportCredentials(insecure.NewCredentials()),
		grpc.WithContextDialer(func(context.Context, string) (net.Conn, error) { return l.Dial() }),
		grpc.WithDefaultCallOptions(grpc.MaxCallRecvMsgSize(64<<20), grpc.MaxCallSendMsgSize(64<<20)))
	if err != nil {
		panic(err)
	}
	f.bs = bytestream.NewByteStreamClient(f.conn)
	f.cas = pb.NewContentAddressableStorageClient(f.conn)
	f.ac = pb.NewActionCacheClient(f.conn)
	f.caps = pb.NewCapabilitiesClient(f.conn)
	f.fetch = asset.NewFetchClient(f.conn)
	return f
}

// open creates the disk cache over f.dir (the gRPC server registered at creation keeps the first one;
// the probes that plant files do so before calling newFx)
func (f *fx) open() {
	max := f.max
	if max == 0 {
		max = 512 << 20
	}
	opts := []disk.Option{disk.WithAccessLogger(nullLog), disk.WithStorageMode(f.mode), disk.WithMaxBlobSize(diskMaxBlob)}
	if f.hard > 0 {
		opts = append(opts, disk.WithMaxSizeHardLimit(f.hard))
	}
	if f.proxy != nil {
		opts = append(opts, disk.WithProxyBackend(f.proxy), disk.WithProxyMaxBlobSize(diskMaxBlob))
	}
	c, err := disk.New(f.dir, max, opts...)
	if err != nil {
		panic(err)
	}
	f.c = c
	f.direct = server.VerifNewACServer(c, nullLog, nullLog, true, false, srvMaxBlob).(allServer)
	f.nodeps = server.VerifNewACServer(c, nullLog, nullLog, false, true, srvMaxBlob).(allServer)
	f.hv = server.NewHTTPCache(c, nullLog, nullLog, true, false, false, false, "", "", srvMaxBlob)
	f.hraw = server.NewHTTPCache(c, nullLog, nullLog, false, true, false, false, "", "", srvMaxBlob)
}

func (f *fx) name() string {
	if f.label != "" {
		return f.label + "," + f.mode
	}
	return f.mode
}

func (f *fx) close() {
	_ = f.conn.Close()
	f.srv.Stop()
	_ = os.RemoveAll(f.dir)
}

// put stores a blob through the cache itself (not a request under test)
func (f *fx) put(kind cache.EntryKind, hash string, data []byte) {
	if err := f.c.Put(context.Background(), kind, hash, int64(len(data)), bytes.NewReader(data)); err != nil {
		panic(fmt.Sprintf("fixture put %s: %v", hash, err))
	}
}
func (f *fx) store(data []byte, what string) blob {
	b := mkBlob(data, what)
	f.put(cache.CAS, b.hash, data)
	return b
}

// path of the file of an indexed entry ("" if not indexed)
func (f *fx) pathOf(key string) string {
	for _, e := range disk.VerifCacheSnapshot(f.c).Order {
		if e.Key == key {
			return disk.VerifElementPath(f.c, e.Key, e.Item.Legacy, e.Item.Size, e.Item.Random)
		}
	}
	return ""
}

// ---- goroutines, descriptors, directory

var brPkgs = []string{
	"github.com/buchgr/bazel-remote/v2/server.",
	"github.com/buchgr/bazel-remote/v2/cache/disk.",
	"github.com/buchgr/bazel-remote/v2/cache/disk/casblob.",
	"github.com/buchgr/bazel-remote/v2/cache/grpcproxy.",
	"github.com/buchgr/bazel-remote/v2/cache/httpproxy.",
}

// brGoroutines: signature (the bazel-remote functions on the stack) -> number and one full stack
func brGoroutines() (map[string]int, map[string]string) {
	buf := make([]byte, 1<<20)
	for {
		n := runtime.Stack(buf, true)
		if n < len(buf) {
			buf = buf[:n]
			break
		}
		buf = make([]byte, 2*len(buf))
	}
	count, stacks := map[string]int{}, map[string]string{}
	for _, g := range strings.Split(string(buf), "\n\n") {
		var fns []string
		for _, line := range strings.Split(g, "\n") {
			if strings.HasPrefix(line, "\t") || strings.HasPrefix(line, "goroutine ") {
				continue
			}
			line = strings.TrimPrefix(line, "created by ")
			for _, p := range brPkgs {
				if strings.HasPrefix(line, p) {
					fn := line
					if i := strings.Index(fn, " in goroutine"); i > 0 {
						fn = fn[:i]
					} else if i := strings.LastIndex(fn, "("); i > 0 && strings.HasSuffix(fn, ")") {
						fn = fn[:i]
					}
					fns = append(fns, strings.TrimPrefix(fn, "github.com/buchgr/bazel-remote/v2/"))
				}
			}
		}
		if len(fns) > 0 {
			sig := strings.Join(fns, " < ")
			count[sig]++
			stacks[sig] = g
		}
	}
	return count, stacks
}

func fdsUnder(dirs ...string) []string {
	var out []string
	ents, _ := os.ReadDir("/proc/self/fd")
	for _, e := range ents {
		t, err := os.Readlink("/proc/self/fd/" + e.Name())
		if err != nil {
			continue
		}
		for _, d := range dirs {
			if strings.HasPrefix(t, d+"/") || t == d {
				out = append(out, t)
			}
		}
	}
	sort.Strings(out)
	return out
}

// strayFiles: regular files in the cache directory that belong to no indexed or queued entry
func (f *fx) strayFiles() []string {
	snap := disk.VerifCacheSnapshot(f.c)
	want := map[string]bool{}
	for _, l := range [][]disk.VerifEntry{snap.Order, snap.Queue} {
		for _, e := range l {
			want[disk.VerifElementPath(f.c, e.Key, e.Item.Legacy, e.Item.Size, e.Item.Random)] = true
		}
	}
	var stray []string
	_ = filepath.Walk(f.dir, func(p string, info os.FileInfo, err error) error {
		if err == nil && info.Mode().IsRegular() && !want[p] {
			stray = append(stray, strings.TrimPrefix(p, f.dir+"/"))
		}
		return nil
	})
	return stray
}

type quiet struct {
	goroutines, fds, reserved, stray int
	detail                           []string
}

// known: what was left behind earlier and has been reported already (it stays: a leaked goroutine
// does not come back).  Every check reports only what is NEW since the previous one, so that the
// oracle blames the requests that caused it.
type known struct {
	fds      map[string]int
	stray    map[string]bool
	reserved map[string]int64
}

func newKnown() *known {
	return &known{fds: map[string]int{}, stray: map[string]bool{}, reserved: map[string]int64{}}
}

// quiesce waits for the server to come to rest and reports what is left behind.  base is the
// set of goroutine signatures (with their counts) that exist in an idle server (plus the ones
// reported earlier).  With absorb, what is reported now becomes part of base / kn.
func quiesce(base map[string]int, kn *known, absorb bool, wait time.Duration, fxs ...*fx) quiet {
	var q quiet
	deadline := time.Now().Add(wait)
	for {
		q = quiet{}
		var count map[string]int
		if l := mon.inflightList(); len(l) > 0 {
			q.goroutines += len(l)
			q.detail = append(q.detail, "handler still running: "+strings.Join(l, " ; "))
		} else {
			var stacks map[string]string
			count, stacks = brGoroutines()
			for sig, n := range count {
				if n > base[sig] {
					q.goroutines += n - base[sig]
					q.detail = append(q.detail, fmt.Sprintf("goroutine leak x%d: %s\n%s", n-base[sig], sig, firstLines(stacks[sig], 14)))
				}
			}
		}
		var dirs []string
		resNow := map[string]int64{}
		var strayNow []string
		for _, f := range fxs {
			dirs = append(dirs, f.dir)
			_, res, _, _ := f.c.Stats()
			resNow[f.dir] = res
			if res < kn.reserved[f.dir] {
				// a reservation that was reported (and absorbed) earlier has been returned since: not a leak
				kn.reserved[f.dir] = res
			}
			if res != kn.reserved[f.dir] {
				q.reserved += int(res - kn.reserved[f.dir])
				q.detail = append(q.detail, fmt.Sprintf("reserved bytes left (%s cache): %d", f.name(), res-kn.reserved[f.dir]))
			}
			var s []string
			for _, x := range f.strayFiles() {
				if !kn.stray[f.dir+"/"+x] {
					s = append(s, x)
					strayNow = append(strayNow, f.dir+"/"+x)
				}
			}
			if len(s) > 0 {
				q.stray += len(s)
				q.detail = append(q.detail, fmt.Sprintf("stray file (%s cache): %s", f.name(), strings.Join(s, ", ")))
			}
		}
		fdNow := map[string]int{}
		for _, x := range fdsUnder(dirs...) {
			fdNow[x]++
		}
		var fds []string
		for x, n := range fdNow {
			for i := kn.fds[x]; i < n; i++ {
				fds = append(fds, x)
			}
		}
		if len(fds) > 0 {
			sort.Strings(fds)
			q.fds = len(fds)
			q.detail = append(q.detail, "open descriptor left: "+strings.Join(fds, ", "))
		}
		if len(q.detail) == 0 || time.Now().After(deadline) {
			if absorb && len(q.detail) > 0 {
				if count == nil {
					mon.giveUpOnInflight()
				}
				for sig, n := range count {
					if n > base[sig] {
						base[sig] = n
					}
				}
				for x, n := range fdNow {
					if n > kn.fds[x] {
						kn.fds[x] = n
					}
				}
				for _, x := range strayNow {
					kn.stray[x] = true
				}
				for dir, r := range resNow {
					kn.reserved[dir] = r
				}
			}
			return q
		}
		time.Sleep(20 * time.Millisecond)
	}
}

func firstLines(s string, n int) string {
	l := strings.Split(s, "\n")
	if len(l) > n {
		l = l[:n]
	}
	return strings.Join(l, "\n")
}
