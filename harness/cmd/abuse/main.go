// Driver "abuse" (C14): structure-aware hostile inputs against an in-process bazel-remote (real
// disk cache in a temp dir, gRPC services over bufconn, the HTTP handler called with real
// http.Requests).  Every call runs under a recover() (gRPC interceptors, HTTP wrapper, in-process
// calls) and a deadline; after every batch the server must be at rest: no handler running, no
// goroutine with a bazel-remote frame beyond the idle baseline, no descriptor on the cache
// directory, nothing reserved, no file outside the index.
//
// Model side (coq/Model/Protocols.v, case_ok): a resource name / URL the model parsers refuse must
// have been answered with an error status; every quiescence observation must be all-zero (the final
// states of the protocol models and of the disk model).  Everything else is the direct oracle.
package main

import (
	"context"
	"fmt"
	"io"
	"log"
	"net/http"
	"net/http/httptest"
	"net/url"
	"os"
	"runtime"
	"runtime/debug"
	"strings"
	"time"

	. "verifharness/hlib"

	"google.golang.org/grpc/codes"
	"google.golang.org/grpc/status"
)

func main() {
	if p := os.Getenv("VERIF_ABUSE_PROBE"); p != "" {
		runProbe(p)
		return
	}
	Main("abuse", abuseDriver)
}

type outcome struct {
	isErr bool   // the request was answered with an error status
	code  string // gRPC code name or HTTP status
	hang  bool   // the client-side deadline expired
}

func oc(err error) outcome {
	c := status.Code(err)
	return outcome{isErr: err != nil, code: c.String(), hang: c == codes.DeadlineExceeded}
}

type drv struct {
	r         *Rng
	rep       *Report
	cases     []string
	ft        *fx // tiny cache (256 KiB, zstd storage): refuses uploads that do not fit
	fh        *fx // tiny cache with max_size_hard_limit (uncompressed storage): refuses uploads when "overloaded"
	fp        *fx // zstd storage behind a stub proxy backend that supplies crafted file images
	proxy     *stubProxy
	fz        *fx // zstd storage
	fu        *fx // uncompressed storage ("legacy" files; zstd reads go through GetLegacyZstdReadCloser)
	base      map[string]int
	up        *upstream
	nameCases int
	kn        *known
	slow      []string
}

var t0 = time.Now()

func phase(what string) {
	if os.Getenv("VERIF_ABUSE_TIMING") != "" {
		fmt.Fprintf(os.Stderr, "[%6.2fs] %s\n", time.Since(t0).Seconds(), what)
	}
}

func (d *drv) fail(what, text string) {
	if len(text) > 6000 {
		text = text[:6000] + "..."
	}
	d.rep.Fail(len(d.cases), what, text)
}

func (d *drv) addCase(coq, text string, nontrivial bool) {
	d.cases = append(d.cases, coq)
	d.rep.CaseTexts = append(d.rep.CaseTexts, text)
	if nontrivial {
		d.rep.DistinctCase(text)
		if len(d.rep.Samples) < 5 {
			d.rep.Samples = append(d.rep.Samples, text)
		}
	}
}

func (d *drv) fxs() []*fx   { return []*fx{d.fz, d.fu} }
func (d *drv) allFx() []*fx { return []*fx{d.fz, d.fu, d.ft, d.fh, d.fp} }
func (d *drv) pick() *fx {
	if d.r.Chance(50) {
		return d.fz
	}
	return d.fu
}

// call runs one request under the deadline and the panic monitor.  mustErr: the request is
// malformed by construction and has to be answered with an error status.
func (d *drv) call(text string, mustErr bool, fn func(ctx context.Context) outcome) outcome {
	if len(text) > 1500 {
		text = text[:1500] + "..."
	}
	d.rep.Evaluations++
	mon.setCur(text)
	ctx, cancel := context.WithTimeout(context.Background(), callTimeout)
	defer cancel()
	ch := make(chan outcome, 1)
	go func() {
		defer func() {
			if r := recover(); r != nil {
				mon.recordPanic("in-process call", r)
				ch <- outcome{isErr: true, code: "PANIC"}
			}
		}()
		ch <- fn(ctx)
	}()
	var o outcome
	select {
	case o = <-ch:
	case <-time.After(callTimeout + 2*time.Second):
		o = outcome{hang: true, code: "NO-RETURN"}
	}
	if o.hang {
		// what the server's goroutines are doing at this moment
		_, stacks := brGoroutines()
		var st []string
		for sig, g := range stacks {
			if d.base[sig] == 0 {
				st = append(st, firstLines(g, 16))
			}
		}
		if len(text) > 700 {
			text = text[:700] + "..."
		}
		diag := text + "\nserver goroutines when the deadline expired:\n" + strings.Join(st, "\n--\n")
		// blocked, or merely slow (parallel shards and builds can starve the process for seconds)?
		// Give the handler another 30 s to finish by itself; only one that is still there is a hang.
		t1 := time.Now()
		for time.Since(t1) < 30*time.Second && (len(mon.inflightList()) > 0 || (o.code == "NO-RETURN" && len(ch) == 0)) {
			time.Sleep(50 * time.Millisecond)
		}
		if len(mon.inflightList()) > 0 || (o.code == "NO-RETURN" && len(ch) == 0) {
			d.fail("hang: the call did not finish within its deadline ("+o.code+") nor in the 30 s after it", diag)
		} else {
			d.rep.Count("slow-call-finished-after-deadline")
			if len(d.slow) < 2 {
				d.slow = append(d.slow, fmt.Sprintf("slow (finished %.1f s after the %v deadline): %s", time.Since(t1).Seconds(), callTimeout, diag))
			}
		}
	}
	for _, p := range mon.takePanics() {
		d.fail("panic in "+p.where+": "+p.val, text+"\n"+firstLines(p.stack, 24))
	}
	if mustErr && !o.isErr && !o.hang {
		d.fail("malformed request was not answered with an error status ("+o.code+")", text)
	}
	d.rep.Count("status." + o.code)
	return o
}

// rest checks quiescence and adds the observation as a Coq case
func (d *drv) rest(what string) { d.restOpt(what, true) }

// after a single scenario: same check, a Coq case only when something was left
func (d *drv) restLight(what string) { d.restOpt(what, false) }

func (d *drv) restOpt(what string, coq bool) {
	q := quiesce(d.base, d.kn, true, 60*time.Second, d.allFx()...) // returns as soon as the server is clean
	for _, det := range q.detail {
		kind := det
		if i := strings.IndexAny(kind, ":\n"); i > 0 {
			kind = kind[:i]
		}
		d.fail("left behind after "+what+": "+kind, det)
	}
	runtime.GC()
	d.rep.Count("quiescence-checks")
	phase("rest: " + what)
	if !coq && len(q.detail) == 0 {
		return
	}
	d.addCase(fmt.Sprintf("AQuiesce %s %s %s %s", CZ(int64(q.goroutines)), CZ(int64(q.fds)), CZ(int64(q.reserved)), CZ(int64(q.stray))),
		fmt.Sprintf("quiescence after %s: goroutines=%d fds=%d reserved=%d stray=%d", what, q.goroutines, q.fds, q.reserved, q.stray), false)
}

func cstr(s string) string {
	plain := true
	for i := 0; i < len(s); i++ {
		if s[i] < 32 || s[i] > 126 {
			plain = false
			break
		}
	}
	if plain {
		return CS(s)
	}
	var xs []string
	for i := 0; i < len(s); i++ {
		xs = append(xs, fmt.Sprintf("%d", s[i]))
	}
	return "(sb " + CList(xs) + ")"
}

// a name goes to Coq when it is short printable ASCII (the model parsers are compared with the
// real ones on arbitrary bytes by the keys/bytestream drivers)
func coqable(s string) bool {
	if len(s) > 160 {
		return false
	}
	for i := 0; i < len(s); i++ {
		if s[i] < 32 || s[i] > 126 {
			return false
		}
	}
	return true
}

func (d *drv) nameCase(ctor, name string, o outcome) {
	if coqable(name) && d.nameCases < 14 {
		d.nameCases++
		d.addCase(fmt.Sprintf("%s %s %s", ctor, cstr(name), CB(o.isErr)), fmt.Sprintf("%s %q -> %s", ctor, name, o.code), !o.isErr)
	}
}

// ---- HTTP

type httpOpt struct {
	hdr        map[string]string
	body       io.Reader
	clen       int64
	failWrites int // >0: the ResponseWriter fails from that Write on (client went away)
}

type failingWriter struct {
	*httptest.ResponseRecorder
	left int
}

func (w *failingWriter) Write(p []byte) (int, error) {
	w.left--
	if w.left < 0 {
		return 0, io.ErrClosedPipe
	}
	return w.ResponseRecorder.Write(p)
}

func (d *drv) httpCall(f *fx, raw bool, method, path string, o httpOpt, mustErr bool) outcome {
	h := f.hv
	tag := "http"
	if raw {
		h, tag = f.hraw, "http-raw"
	}
	text := fmt.Sprintf("%s[%s] %s %q hdr=%v clen=%d failWrites=%d", tag, f.mode, method, path, o.hdr, o.clen, o.failWrites)
	return d.call(text, mustErr, func(ctx context.Context) outcome {
		req := &http.Request{Method: method, URL: &url.URL{Path: path}, Header: http.Header{}, ContentLength: o.clen,
			RemoteAddr: "192.0.2.1:4711", Proto: "HTTP/1.1", ProtoMajor: 1, ProtoMinor: 1, Host: "localhost"}
		for k, v := range o.hdr {
			req.Header.Set(k, v)
		}
		if o.body != nil {
			req.Body = io.NopCloser(o.body)
		} else {
			req.Body = http.NoBody
		}
		req = req.WithContext(ctx)
		rec := httptest.NewRecorder()
		var w http.ResponseWriter = rec
		if o.failWrites > 0 {
			w = &failingWriter{rec, o.failWrites}
		}
		id := mon.enter("HTTP " + method)
		func() {
			defer mon.exit(id)
			defer func() {
				if r := recover(); r != nil {
					mon.recordPanic("HTTP "+method+" "+path, r)
					rec.Code = 599
				}
			}()
			if path == "/status" {
				h.StatusPageHandler(w, req)
			} else {
				h.CacheHandler(w, req)
			}
		}()
		return outcome{isErr: rec.Code >= 400, code: fmt.Sprintf("http%d", rec.Code), hang: ctx.Err() == context.DeadlineExceeded}
	})
}

// erroring / short bodies (the client goes away in the middle of an upload)
type abortReader struct {
	data []byte
	pos  int
}

func (a *abortReader) Read(p []byte) (int, error) {
	if a.pos >= len(a.data) {
		return 0, io.ErrUnexpectedEOF
	}
	n := copy(p, a.data[a.pos:])
	a.pos += n
	return n, nil
}

func abuseDriver(seed uint64, n int, outV, outJSON string, args []string) {
	log.SetOutput(io.Discard)
	// no garbage collection between quiescence checks: a forgotten *os.File must not be closed by its
	// finaliser before /proc/self/fd is read (the memory limit keeps the process bounded)
	d := &drv{r: &Rng{S: seed}, rep: NewReport("abuse", seed)}
	d.rep.Rule = "hostile requests to every endpoint: ByteStream Read/Write/QueryWriteStatus (resource names of all shapes, offsets/limits incl. int64 extremes, message sequences with early aborts, half-close without messages, changed names, zstd garbage/truncated/trailing), CAS FindMissingBlobs/BatchUpdateBlobs/BatchReadBlobs/GetTree/SpliceBlob/SplitBlob (nil and malformed digests, nil elements in-process, stored ill-formed Directories, missing/overflowing/truncated chunks), ActionCache Get/Update (optional fields absent at every depth, nil elements in-process, stored garbage), Capabilities, Asset FetchBlob/FetchDirectory (hostile URIs and qualifiers against a local upstream), HTTP GET/HEAD/PUT and other methods (URL shapes, X-Digest-SizeBytes garbage, Content-Encoding variants, missing/wrong Content-Length, aborted bodies, failing response writers, JSON bodies), and byte-level mutation of the on-disk files of stored blobs read through every read path; both storage modes. Non-trivial = request answered without an error status; distinct = distinct request texts among the Coq cases"
	d.fz, d.fu = newFx("zstd"), newFx("uncompressed")
	d.ft, d.fh = newFxCfg("zstd", "tiny", tinyMax, 0), newFxCfg("uncompressed", "tinyhard", tinyMax, tinyHard)
	defer d.ft.close()
	defer d.fh.close()
	d.proxy = &stubProxy{blobs: map[string][]byte{}, sizes: map[string]int64{}}
	d.fp = newFxProxy("zstd", "proxied", 0, 0, d.proxy)
	defer d.fp.close()
	phase("fixtures")
	d.up = newUpstream()
	defer d.fz.close()
	defer d.fu.close()
	defer d.up.close()
	for _, f := range d.fxs() {
		d.populate(f)
		phase("populated " + f.mode)
	}
	phase("populated")
	d.warmup()
	debug.SetGCPercent(-1)
	debug.SetMemoryLimit(2 << 30)
	time.Sleep(50 * time.Millisecond)
	d.base, _ = brGoroutines()
	d.kn = newKnown()
	if q := quiesce(d.base, d.kn, true, 60*time.Second, d.allFx()...); len(q.detail) > 0 {
		d.fail("the idle server is not at rest", strings.Join(q.detail, "\n"))
	}

	d.regressions()
	probes := seed%1000 == 0
	for _, a := range args {
		if a == "probes" {
			probes = true
		}
		if a == "noprobes" {
			probes = false
		}
	}
	var probeDone chan []probeResult
	if probes {
		probeDone = make(chan []probeResult, 1)
		go func() { probeDone <- runProbes() }()
	}

	for round := 0; round < n; round++ {
		d.round(round)
	}

	if probes {
		for _, p := range <-probeDone {
			d.rep.Count("probe." + p.name)
			d.rep.Evaluations++
			if p.bad != "" {
				d.fail(p.bad, p.text)
			}
		}
	}
	d.rep.Samples = append(d.rep.Samples, d.slow...)
	d.rep.Cases = len(d.cases)
	WriteCases(outV, "Model.Keys Model.ByteStream Model.Protocols", "acase", "Model.Protocols.case_ok", d.cases)
	d.rep.Write(outJSON)
}
