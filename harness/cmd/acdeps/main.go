// Command acdeps: GetValidatedActionResult against a real disk.Cache — generated ActionResults
// (files with and without inline contents, output directories with nested Trees, stdout/stderr
// digests, empty-blob digests) x generated subsets of their referenced blobs being present, absent,
// present with another size, or evicted by earlier traffic.  Emits cases for Model/ACDeps.v
// (acase_ok) and applies the direct oracle of C06: hit => every referenced blob present with the
// stated size; a referenced blob absent => miss (not an error); a hit touches the referenced blobs.
package main

import (
	"bytes"
	"context"
	"crypto/sha256"
	"encoding/hex"
	"fmt"
	"io"
	"log"
	"os"
	"sort"
	"strings"

	"github.com/buchgr/bazel-remote/v2/cache"
	"github.com/buchgr/bazel-remote/v2/cache/disk"
	pb "github.com/buchgr/bazel-remote/v2/genproto/build/bazel/remote/execution/v2"
	"google.golang.org/protobuf/proto"

	. "verifharness/hlib"
)

func main() { Main("acdeps", driver) }

func sha(b []byte) string { h := sha256.Sum256(b); return hex.EncodeToString(h[:]) }

var internNames = map[string]string{}
var internOrder []string

func HS(s string) string {
	if len(s) < 24 {
		return CS(s)
	}
	if n, ok := internNames[s]; ok {
		return n
	}
	n := fmt.Sprintf("h%d", len(internOrder))
	internNames[s] = n
	internOrder = append(internOrder, s)
	return n
}

func writeCases(path, imports, caseType, okFn string, cases []string) {
	var sb strings.Builder
	sb.WriteString("(* written by /verif/harness; evaluated by ./check *)\n")
	sb.WriteString("From BR Require Import Base.Prelude " + imports + ".\n")
	sb.WriteString("Open Scope string_scope.\nOpen Scope Z_scope.\n")
	for i, s := range internOrder {
		sb.WriteString(fmt.Sprintf("Definition h%d : string := %s.\n", i, CS(s)))
	}
	sb.WriteString("Definition cases : list (" + caseType + ") := [\n")
	sb.WriteString(strings.Join(cases, ";\n"))
	sb.WriteString("\n].\n")
	sb.WriteString("Definition M := Eval vm_compute in false_positions 0 (map " + okFn + " cases).\nPrint M.\n")
	if err := os.WriteFile(path, []byte(sb.String()), 0644); err != nil {
		panic(err)
	}
}

func cBytes(b []byte) string { return fmt.Sprintf("(mkBytes %d %s)", len(b), HS(sha(b))) }
func cODigest(d *pb.Digest) string {
	if d == nil {
		return "None"
	}
	return fmt.Sprintf("(Some (mkDigest %s %s))", HS(d.Hash), CZ(d.SizeBytes))
}
func cAR(ar *pb.ActionResult) string {
	var fs, ds []string
	for _, f := range ar.OutputFiles {
		fs = append(fs, fmt.Sprintf("Some (mkOF %s %s %s %s)", CS(f.Path), cODigest(f.Digest), CB(f.IsExecutable), cBytes(f.Contents)))
	}
	for _, d := range ar.OutputDirectories {
		ds = append(ds, fmt.Sprintf("Some (mkOD %s %s)", CS(d.Path), cODigest(d.TreeDigest)))
	}
	return fmt.Sprintf("(mkAR %s [] [] %s [] %s %s %s %s %s None)", CList(fs), CList(ds), CZ(int64(ar.ExitCode)), cBytes(ar.StdoutRaw), cODigest(ar.StdoutDigest),
		cBytes(ar.StderrRaw), cODigest(ar.StderrDigest))
}
func cDir(d *pb.Directory) string {
	if d == nil {
		return "None"
	}
	var fs []string
	for _, f := range d.Files {
		fs = append(fs, fmt.Sprintf("Some (mkFN %s %s %s)", CS(f.Name), cODigest(f.Digest), CB(f.IsExecutable)))
	}
	return fmt.Sprintf("(Some (mkDir %s [] []))", CList(fs))
}
func cTree(t *pb.Tree) string {
	var cs []string
	for _, c := range t.Children {
		cs = append(cs, cDir(c))
	}
	return fmt.Sprintf("(mkTree %s %s)", cDir(t.Root), CList(cs))
}

// a backend that only answers Contains (from a table); Get misses, uploads are swallowed
type acProxy struct{ has map[string]int64 }

func (p *acProxy) Put(ctx context.Context, kind cache.EntryKind, hash string, logicalSize int64, sizeOnDisk int64, rc io.ReadCloser) {
	_, _ = io.Copy(io.Discard, rc)
	_ = rc.Close()
}
func (p *acProxy) Get(ctx context.Context, kind cache.EntryKind, hash string, size int64) (io.ReadCloser, int64, error) {
	return nil, -1, nil
}
func (p *acProxy) Contains(ctx context.Context, kind cache.EntryKind, hash string, size int64) (bool, int64) {
	if sz, ok := p.has[hash]; ok && kind == cache.CAS {
		return true, sz
	}
	return false, -1
}

type stored struct {
	kind string
	hash string
	data []byte
	cid  int
}

func driver(seed uint64, n int, outV, outJSON string, _ []string) {
	r := &Rng{S: seed}
	rep := NewReport("acdeps", seed)
	rep.Rule = "generated ActionResults (0-5 output files inline or by digest, 0-2 output directories whose Trees have a root and 0-2 children with 0-3 files each, optional stdout/stderr digests, some empty-blob digests) stored in a real disk.Cache; each referenced blob independently present / absent / present under another size; optional unrelated traffic afterwards that evicts some of them; then GetValidatedActionResult; non-trivial = at least one referenced blob; distinct canonical case texts counted"
	log.SetOutput(io.Discard)
	ctx := context.Background()
	var cases []string
	const emptySha = "e3b0c44298fc1c149afbf4c8996fb92427ae41e4649b934ca495991b7852b855"
	for c := 0; c < n; c++ {
		zstdMode := r.Chance(50)
		mode := map[bool]string{true: "zstd", false: "uncompressed"}[zstdMode]
		max := int64(64+r.Intn(3)*64) * 1024
		dir, _ := os.MkdirTemp("", "verif-acdeps-")
		withProxy := r.Chance(45)
		maxProxy := int64(1) << 40
		px := &acProxy{has: map[string]int64{}}
		opts := []disk.Option{disk.WithAccessLogger(log.New(io.Discard, "", 0)), disk.WithStorageMode(mode)}
		if withProxy {
			maxProxy = []int64{1 << 40, 1 << 40, 1500, 2999, 3000}[r.Intn(5)]
			opts = append(opts, disk.WithProxyBackend(px), disk.WithProxyMaxBlobSize(maxProxy))
		}
		dc, err := disk.New(dir, max, opts...)
		if err != nil {
			panic(err)
		}
		cid := 0
		var setup []stored
		var refs []*pb.Digest // every referenced digest, in traversal order (trees included)
		state := map[string]string{}
		text := []string{fmt.Sprintf("mode=%s max=%d proxy=%v maxproxy=%d", mode, max, withProxy, maxProxy)}
		newBlob := func() []byte { return r.Bytes(1 + r.Intn(3000)) }
		// decide the fate of a referenced blob and return the digest the message will carry
		ref := func(data []byte) *pb.Digest {
			d := &pb.Digest{Hash: sha(data), SizeBytes: int64(len(data))}
			switch p := r.Intn(100); {
			case p < 70:
				cid++
				setup = append(setup, stored{"CAS", d.Hash, data, cid})
				state[d.Hash] = "present"
			case p < 85:
				state[d.Hash] = "absent"
				if withProxy && r.Chance(60) {
					// held by the backend only: counts as present unless it is above max_proxy_blob_size
					px.has[d.Hash] = d.SizeBytes
					state[d.Hash] = "backend"
				}
			default:
				cid++
				setup = append(setup, stored{"CAS", d.Hash, data, cid})
				d.SizeBytes++ // the message states another size than what is stored
				state[d.Hash] = "othersize"
			}
			if r.Chance(4) {
				d = &pb.Digest{Hash: emptySha, SizeBytes: 0}
				state[emptySha] = "present"
			}
			refs = append(refs, d)
			return d
		}
		ar := &pb.ActionResult{ExitCode: int32(r.Intn(3))}
		for i := 0; i < r.Intn(6); i++ {
			f := &pb.OutputFile{Path: fmt.Sprintf("out/f%d", i)}
			data := newBlob()
			if r.Chance(30) {
				f.Contents = data
				f.Digest = &pb.Digest{Hash: sha(data), SizeBytes: int64(len(data))}
			} else {
				f.Digest = ref(data)
			}
			ar.OutputFiles = append(ar.OutputFiles, f)
		}
		var treeTable []string
		arTable := []string{}
		for i := 0; i < r.Intn(3); i++ {
			mkDir := func() *pb.Directory {
				d := &pb.Directory{}
				for j := 0; j < r.Intn(4); j++ {
					d.Files = append(d.Files, &pb.FileNode{Name: fmt.Sprintf("n%d", j)})
				}
				return d
			}
			t := &pb.Tree{Root: mkDir()}
			for j := 0; j < r.Intn(3); j++ {
				t.Children = append(t.Children, mkDir())
			}
			// the tree blob itself is referenced first, then its files (filled in below)
			placeholder := len(refs)
			refs = append(refs, nil)
			if r.Chance(8) && len(t.Children) > 0 { // (without children the blob would be the empty blob, which is never stored)
				t.Root = nil // a stored blob that parses as a Tree without a root
				rep.Count("tree.nil-root")
			}
			for _, d := range append([]*pb.Directory{t.Root}, t.Children...) {
				if d == nil {
					continue
				}
				for _, f := range d.Files {
					if r.Chance(15) {
						// a FileNode without a digest (the blob is client-controlled): the walk skips it
						rep.Count("tree.file-node-without-digest")
						continue
					}
					f.Digest = ref(newBlob())
				}
			}
			tdata, _ := proto.Marshal(t)
			td := &pb.Digest{Hash: sha(tdata), SizeBytes: int64(len(tdata))}
			if len(tdata) == 0 {
				td = &pb.Digest{Hash: emptySha, SizeBytes: 0}
			}
			switch p := r.Intn(100); {
			case p < 80 || len(tdata) == 0:
				cid++
				setup = append(setup, stored{"CAS", td.Hash, tdata, cid})
				treeTable = append(treeTable, fmt.Sprintf("(%d, %s)", cid, cTree(t)))
				state[td.Hash] = "present"
			default:
				state[td.Hash] = "absent"
			}
			refs[placeholder] = td
			ar.OutputDirectories = append(ar.OutputDirectories, &pb.OutputDirectory{Path: fmt.Sprintf("out/d%d", i), TreeDigest: td})
		}
		if r.Chance(50) {
			data := newBlob()
			ar.StdoutDigest = ref(data)
			if r.Chance(35) {
				ar.StdoutRaw = data // inlined AND referenced: the digest must still be checked
			}
		}
		if r.Chance(40) {
			data := newBlob()
			ar.StderrDigest = ref(data)
			if r.Chance(35) {
				ar.StderrRaw = data
			}
		}
		// the walk of GetValidatedActionResult: files, then per directory (tree, tree files), then stdout, stderr.
		// refs was built in construction order: files, (tree placeholder, files)*, stdout, stderr — the same.
		acdata, _ := proto.Marshal(ar)
		if len(acdata) == 0 {
			ar.ExitCode = 7
			acdata, _ = proto.Marshal(ar)
		}
		acKey := sha(acdata)
		cid++
		acCid := cid
		arTable = append(arTable, fmt.Sprintf("(%d, %s)", acCid, cAR(ar)))
		// store: CAS blobs in a random order, the AC entry somewhere in between
		for i := len(setup) - 1; i > 0; i-- {
			j := r.Intn(i + 1)
			setup[i], setup[j] = setup[j], setup[i]
		}
		setup = append(setup, stored{"AC", acKey, acdata, acCid})
		if r.Chance(50) && len(setup) > 1 {
			j := r.Intn(len(setup) - 1)
			setup[j], setup[len(setup)-1] = setup[len(setup)-1], setup[j]
		}
		// unrelated traffic that may evict some of them
		if r.Chance(35) {
			for i := 0; i < 1+r.Intn(4); i++ {
				d := r.Bytes(20000 + r.Intn(30000))
				cid++
				setup = append(setup, stored{"CAS", sha(d), d, cid})
			}
		}
		var setupT []string
		seenRnd := map[string]bool{}
		for _, s := range setup {
			kind := cache.CAS
			if s.kind == "AC" {
				kind = cache.AC
			}
			perr := dc.Put(ctx, kind, s.hash, int64(len(s.data)), bytes.NewReader(s.data))
			snap := disk.VerifCacheSnapshot(dc)
			rnd, od := "", int64(len(s.data))
			key := kind.String() + "/" + s.hash
			for _, e := range append(append([]disk.VerifEntry{}, snap.Order...), snap.Queue...) {
				if e.Key == key && !seenRnd[e.Item.Random] {
					rnd, od = e.Item.Random, e.Item.SizeOnDisk
					seenRnd[rnd] = true
				}
			}
			if perr != nil {
				rnd = fmt.Sprintf("tmp%d", s.cid)
			}
			setupT = append(setupT, fmt.Sprintf("(RPut %s %s %s (mkStream %d %s false true %s) %s)", s.kind, HS(s.hash), CZ(int64(len(s.data))), s.cid, CZ(int64(len(s.data))), CZ(od), CS(rnd)))
		}
		before := disk.VerifCacheSnapshot(dc)
		local := map[string]int64{}
		for _, e := range before.Order {
			local[e.Key] = e.Item.Size
		}
		var gotAR *pb.ActionResult
		var gerr error
		panicked := ""
		func() {
			defer func() {
				if x := recover(); x != nil {
					panicked = fmt.Sprint(x)
				}
			}()
			gotAR, _, gerr = dc.GetValidatedActionResult(ctx, acKey)
		}()
		if panicked != "" {
			// C14: a stored blob interpreted as a Tree must not panic the handler (the index lock may
			// still be held: this cache is abandoned)
			rep.Fail(c, "C14/C06: GetValidatedActionResult panicked on a stored ActionResult/Tree: "+panicked, strings.Join(text, " ; ")+fmt.Sprintf(" ; trees=%v", treeTable))
			cases = append(cases, fmt.Sprintf("((mkCfg false %s %s false), 65536, [], [], [], %s, ACMiss, [], [])", CZ(1<<40), CZ(1<<40), HS(emptySha))) // placeholder keeping the case indices aligned
			rep.CaseTexts = append(rep.CaseTexts, "panicked")
			continue
		}
		after := disk.VerifCacheSnapshot(dc)
		outcome := "ACMiss"
		switch {
		case gerr != nil:
			outcome = "ACErr"
		case gotAR != nil:
			outcome = "(ACHit " + cAR(ar) + ")"
		}
		rep.Count("outcome." + strings.Fields(strings.Trim(outcome, "("))[0])
		// ---- direct oracle (C06)
		allPresent := true
		for _, d := range refs {
			ok := (d.Hash == emptySha && d.SizeBytes == 0)
			if sz, in := local["cas/"+d.Hash]; in && sz == d.SizeBytes {
				ok = true
			}
			if _, in := px.has[d.Hash]; in && withProxy && d.SizeBytes <= maxProxy {
				ok = true // the backend holds it and may be asked
			}
			if !ok {
				allPresent = false
			}
		}
		_, acLocal := local["ac/"+acKey]
		caseText := strings.Join(append(text, fmt.Sprintf("ar files=%d dirs=%d refs=%d states=%v acLocal=%v -> %s", len(ar.OutputFiles), len(ar.OutputDirectories), len(refs), state, acLocal, strings.Fields(strings.Trim(outcome, "("))[0])), " ; ")
		if gotAR != nil && !allPresent {
			rep.Fail(c, "C06: action-cache hit although a referenced blob is absent or has another size", caseText)
		}
		if acLocal && !allPresent && gerr != nil {
			rep.Fail(c, "C06: an absent referenced blob produced an error instead of a miss: "+gerr.Error(), caseText)
		}
		if acLocal && allPresent && gotAR == nil {
			rep.Fail(c, "C06: every referenced blob is present with the stated size but the lookup was not a hit", caseText)
		}
		if gotAR != nil {
			// a hit counts as a use of every referenced blob held locally: they (and the AC entry) are the
			// most recently used entries afterwards
			want := map[string]bool{"ac/" + acKey: true}
			for _, d := range refs {
				if _, in := local["cas/"+d.Hash]; in && !(d.Hash == emptySha && d.SizeBytes == 0) {
					want["cas/"+d.Hash] = true
				}
			}
			tail := after.Order
			if len(tail) >= len(want) {
				tail = tail[len(tail)-len(want):]
			}
			for _, e := range tail {
				if !want[e.Key] {
					rep.Fail(c, "C06: after a hit an unreferenced entry is more recently used than a referenced blob", caseText)
					break
				}
			}
		}
		var orderT []string
		for _, e := range after.Order {
			orderT = append(orderT, HS(e.Key))
		}
		rep.CaseTexts = append(rep.CaseTexts, caseText)
		if len(refs) > 0 {
			rep.DistinctCase(caseText)
		}
		if c < 3 {
			rep.Samples = append(rep.Samples, caseText)
		}
		rep.Evaluations += len(setup) + 1
		var hasT []string
		for h, sz := range px.has {
			hasT = append(hasT, fmt.Sprintf("(%s, BHasYes %s)", HS(h), CZ(sz)))
		}
		sort.Strings(hasT)
		cases = append(cases, fmt.Sprintf("((mkCfg %s %s %s %s), %s, %s,\n %s, %s, %s, %s, %s, %s)", CB(zstdMode), CZ(1<<40), CZ(maxProxy), CB(withProxy), CZ(max), CList(setupT), CList(arTable), CList(treeTable), HS(acKey), outcome, CList(orderT), CList(hasT)))
		_ = os.RemoveAll(dir)
	}
	rep.Cases = n
	writeCases(outV, "Model.LRU Model.Disk Model.ActionResult Model.ACDeps", "acase", "acase_ok", cases)
	rep.Write(outJSON)
}
