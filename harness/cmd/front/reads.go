package main

// The read paths, as a client sees them.

import (
	"bytes"
	"fmt"
	"io"
	"net/http"

	pb "github.com/buchgr/bazel-remote/v2/genproto/build/bazel/remote/execution/v2"

	"google.golang.org/genproto/googleapis/bytestream"
	"google.golang.org/grpc/codes"
)

func codesOf(c int32) codes.Code { return codes.Code(c) }

// decode a zstd response with BOTH library decoders; ok = both succeed and agree
func decodeBoth(z []byte) ([]byte, bool) {
	a, err1 := zdecGo.DecodeAll(z)
	b, err2 := zdecCgo.DecodeAll(z)
	if err1 != nil || err2 != nil {
		return nil, false
	}
	if !bytes.Equal(a, b) {
		return nil, false
	}
	if a == nil {
		a = []byte{}
	}
	return a, true
}

type readResult struct {
	st       cls
	reported int64  // size reported by the reply, -1 if none
	raw      []byte // bytes on the wire
	zstd     bool   // the reply is zstd-encoded
	logical  []byte // decoded (= raw for identity); nil when undecodable
	decOK    bool
	chunks   []int // ByteStream.Read: sizes of the messages received
}

func finish(r *readResult) *readResult {
	if r.zstd {
		r.logical, r.decOK = decodeBoth(r.raw)
		if len(r.raw) == 0 {
			r.logical, r.decOK = []byte{}, true
		}
	} else {
		r.logical, r.decOK = r.raw, true
		if r.logical == nil {
			r.logical = []byte{}
		}
	}
	return r
}

// GET /<kind>/<hash>
func (f *fixture) httpGet(kind, hash string, acceptZstd bool) *readResult {
	req, _ := http.NewRequest(http.MethodGet, f.hs.URL+"/"+kind+"/"+hash, nil)
	if acceptZstd {
		req.Header.Set("Accept-Encoding", "zstd")
	} else {
		req.Header.Set("Accept-Encoding", "identity")
	}
	resp, err := http.DefaultClient.Do(req)
	if err != nil {
		return &readResult{st: cNoReply, reported: -1}
	}
	data, rerr := io.ReadAll(resp.Body)
	_ = resp.Body.Close()
	r := &readResult{st: httpCls(resp.StatusCode), reported: -1, raw: data}
	if rerr != nil {
		r.st = cInt
	}
	if r.st != cOK {
		r.raw = nil
		return finish(r)
	}
	r.zstd = resp.Header.Get("Content-Encoding") == "zstd"
	if !r.zstd {
		r.reported = resp.ContentLength
	}
	return finish(r)
}

// BatchReadBlobs: per digest results, call status
func (f *fixture) batchRead(ds []dg, zstd bool) ([]*readResult, cls) {
	var req pb.BatchReadBlobsRequest
	for _, d := range ds {
		req.Digests = append(req.Digests, &pb.Digest{Hash: d.hash, SizeBytes: d.size})
	}
	if zstd {
		req.AcceptableCompressors = []pb.Compressor_Value{pb.Compressor_ZSTD}
	}
	ctx, cancel := ctx5()
	defer cancel()
	resp, err := f.cas.BatchReadBlobs(ctx, &req)
	if err != nil {
		return nil, grpcCls(err)
	}
	var out []*readResult
	for _, x := range resp.Responses {
		r := &readResult{st: codeCls(codesOf(x.GetStatus().GetCode())), reported: -1, raw: x.Data}
		if r.st == cOK {
			r.reported = x.GetDigest().GetSizeBytes()
			r.zstd = x.Compressor == pb.Compressor_ZSTD
		} else {
			r.raw = nil
		}
		out = append(out, finish(r))
	}
	return out, cOK
}

func bsReadName(z bool, hash string, size int64) string {
	if z {
		return fmt.Sprintf("inst/compressed-blobs/zstd/%s/%d", hash, size)
	}
	return fmt.Sprintf("inst/blobs/%s/%d", hash, size)
}

// ByteStream.Read: everything received before the stream ended, and how it ended
func (f *fixture) bsRead(name string, z bool, off, lim int64) *readResult {
	ctx, cancel := ctx5()
	defer cancel()
	r := &readResult{reported: -1, zstd: z}
	s, err := f.bs.Read(ctx, &bytestream.ReadRequest{ResourceName: name, ReadOffset: off, ReadLimit: lim})
	if err != nil {
		r.st = grpcCls(err)
		return finish(r)
	}
	for {
		m, err := s.Recv()
		if err == io.EOF {
			r.st = cOK
			break
		}
		if err != nil {
			r.st = grpcCls(err)
			break
		}
		r.raw = append(r.raw, m.Data...)
		r.chunks = append(r.chunks, len(m.Data))
	}
	return finish(r)
}

// GetTree: the directories of all pages, call status
func (f *fixture) getTree(root dg) ([]*pb.Directory, cls) {
	ctx, cancel := ctx5()
	defer cancel()
	s, err := f.cas.GetTree(ctx, &pb.GetTreeRequest{RootDigest: &pb.Digest{Hash: root.hash, SizeBytes: root.size}})
	if err != nil {
		return nil, grpcCls(err)
	}
	var out []*pb.Directory
	for {
		m, err := s.Recv()
		if err == io.EOF {
			return out, cOK
		}
		if err != nil {
			return out, grpcCls(err)
		}
		out = append(out, m.Directories...)
	}
}

func (f *fixture) getAR(ahash string, asize int64, inlineStdout, inlineStderr bool, files []string) (*pb.ActionResult, cls) {
	ctx, cancel := ctx5()
	defer cancel()
	ar, err := f.ac.GetActionResult(ctx, &pb.GetActionResultRequest{ActionDigest: &pb.Digest{Hash: ahash, SizeBytes: asize},
		InlineStdout: inlineStdout, InlineStderr: inlineStderr, InlineOutputFiles: files})
	return ar, grpcCls(err)
}
