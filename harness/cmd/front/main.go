// Driver "front": the front-end adapters (HTTP and gRPC endpoints -> disk cache calls -> status)
// for C01 (write paths), C02 (read paths) and C18 (size limits), against coq/Model/Front.v, with
// the properties' own statements as direct oracles (crypto/sha256, independent zstd decoders).
//
//	front -seed S -n N -out cases.v -json rep.json c01|c02|c18
package main

import (
	"fmt"
	"strings"

	. "verifharness/hlib"
)

func main() { Main("front", frontDriver) }

type env struct {
	r     *Rng
	rep   *Report
	cases []string
	fx    []*fixture
}

func (e *env) addCase(f *fixture, ops, obs []string, text string, nontrivial bool) int {
	idx := len(e.cases)
	e.cases = append(e.cases, fmt.Sprintf("(%s,\n  %s,\n  %s)", f.cfgTerm(), CList(ops), CList(obs)))
	e.rep.CaseTexts = append(e.rep.CaseTexts, text)
	if nontrivial {
		e.rep.DistinctCase(text)
	}
	if len(e.rep.Samples) < 4 {
		e.rep.Samples = append(e.rep.Samples, text)
	}
	return idx
}

func frontDriver(seed uint64, n int, outV, outJSON string, args []string) {
	only := "c01"
	for _, a := range args {
		a = strings.ToLower(strings.TrimPrefix(a, "-"))
		if a == "c01" || a == "c02" || a == "c18" || a == "c17" || a == "c10" {
			only = a
		}
	}
	e := &env{r: &Rng{S: seed}, rep: NewReport("front", seed)}
	defer func() {
		for _, f := range e.fx {
			f.close()
		}
	}()
	switch only {
	case "c01":
		e.rep.Rule = "one fresh blob per case (sizes 0,1,100,4095..4097, rarely 1MiB+-1 and 2MiB+3) uploaded through one of the ten CAS write paths (HTTP PUT plain/zstd, BatchUpdateBlobs identity/zstd, ByteStream.Write blobs/compressed-blobs, SpliceBlob with/without caller digest, blobs inlined in UpdateActionResult, FetchBlob) x storage mode x zstd implementation, intact or with one corruption (flip, truncate, extend, declared size +-1/x2/0, wrong hash, hash of another blob, unsupported encoding, garbage/truncated zstd, trailing frame or bytes, aborted stream, non-zero first offset, renamed mid-stream, ...); afterwards FindMissingBlobs + HEAD for every digest mentioned and a read-back; non-trivial = not the plain intact upload; distinct = distinct (path, kind, size class, mode, outcome)"
		for _, mode := range []string{"zstd", "uncompressed"} {
			for _, impl := range []string{"go", "cgo"} {
				e.fx = append(e.fx, newFixture(mode, impl, bigLimit))
			}
		}
		runC01(e, n)
	case "c02":
		e.rep.Rule = "blobs (random/zeros/text; sizes 0,1,100,4095..4097, rarely around 1MiB and 2MiB+3) stored through a write path, then read through every read path (HTTP GET +-Accept-Encoding: zstd, HEAD, BatchReadBlobs identity/zstd, ByteStream.Read blobs/compressed-blobs at offsets {0,1,n-1,n,n+1} x read_limit {0,1,rest-1,rest,rest+1}, GetTree, GetActionResult with inlining) x storage mode x zstd implementation, plus the empty blob on every path from an EMPTY cache, plus (in every run) one restart history per direction: a directory written under one storage mode, re-opened under the other, extended there, and re-opened under the first again, every blob (1, 4095..4097, >64 KiB, >1 MiB) read through every path after each start, and blobs of 128 KiB..300 KiB through the buffering paths; zstd replies decoded by both decoders; non-trivial = offset or limit non-zero, or zstd reply; distinct = distinct (path, size class, offset class, limit class, mode, outcome)"
		for _, mode := range []string{"zstd", "uncompressed"} {
			for _, impl := range []string{"go", "cgo"} {
				e.fx = append(e.fx, newFixture(mode, impl, bigLimit))
			}
		}
		runC02(e, n)
	case "c10":
		e.rep.Rule = "FindMissingBlobs over bufconn against a real disk cache, with and without a scripted backend (cache.Proxy answering Contains from a table, max_proxy_blob_size 5000): request lists of length 0,1,19,20,21,40,41,45,~150 drawn from local / backend-only / backend-only-oversize / absent / size-mismatched (stored hash, size +-1) / empty-blob digests, with exact duplicates (adjacent, far apart, across the batch boundary of 20) and same-hash-different-size pairs, plus malformed requests (bad hash, zero size under a non-empty hash, negative size); expected = exactly the request's absent digests in request order with duplicates kept; non-trivial = every request with at least one duplicate or backend-held digest; distinct = distinct (length class, backend?, composition, outcome)"
		runC10(e, n)
	case "c17":
		e.rep.Rule = "a real disk cache of 10 blocks with max_size_hard_limit in {max_size, +1 block, +2 blocks, off}, the background remover parked at its yield point; the cache is filled and pushed until currentSize + deletion backlog reaches the limit; then every write path (HTTP PUT cas plain/zstd and ac, BatchUpdateBlobs identity/zstd/3 entries, ByteStream.Write blobs and compressed-blobs in one and several messages, UpdateActionResult with and without inlined blobs, SpliceBlob, FetchBlob) must answer the retryable class and change nothing; reads of indexed entries through every read path must succeed; after the remover deleted the backlog the same uploads must be admitted; with the limit off nothing is refused; non-trivial = every case; distinct = distinct (path, phase, limit, outcome)"
		runC17(e, n)
	case "c18":
		e.rep.Rule = "max_blob_size L in {1000,4096,66000} wired as main.go does (disk layer, HTTP handler, gRPC server) x storage mode; well-formed blobs of logical size L-1, L, L+1, 2L+5 (compressible, so the zstd wire form of an oversize blob is far below L) through every write path, plus GetCapabilities; non-trivial = size > L-1; distinct = distinct (path, size relative to L, L, mode, outcome)"
		i := 0
		for _, lim := range []int64{1000, 4096, 66000} {
			for _, mode := range []string{"zstd", "uncompressed"} {
				e.fx = append(e.fx, newFixture(mode, []string{"go", "cgo"}[i%2], lim))
				i++
			}
		}
		runC18(e, n)
	}
	e.rep.Cases = len(e.cases)
	WriteCases(outV, "Model.LRU Model.Disk Model.Front", "fcase", "case_ok", e.cases)
	e.rep.Write(outJSON)
}

func sizeClass(n int) string {
	switch {
	case n == 0:
		return "0"
	case n < 4095:
		return "small"
	case n <= 4097:
		return "4k"
	case n < 1<<21:
		return "1M"
	}
	return "2M"
}

func pickSize(r *Rng) int {
	if r.Chance(4) {
		return []int{1<<20 - 1, 1 << 20, 1<<20 + 1, 2<<20 + 3}[r.Intn(4)]
	}
	return []int{1, 100, 4095, 4096, 4097, 1, 100, 4096, 37, 700}[r.Intn(10)]
}
