package main

// C02: every read path x offset x limit x encoding; direct oracle = exact bytes [off,n).

import (
	"bytes"
	"fmt"
	"os"
	"time"

	. "verifharness/hlib"

	pb "github.com/buchgr/bazel-remote/v2/genproto/build/bazel/remote/execution/v2"
	"google.golang.org/protobuf/proto"
)

type rcase struct {
	f        *fixture
	ops, obs []string
	texts    []string
	fails    []string
	nontriv  bool
}

func (c *rcase) fail(format string, a ...interface{}) { c.fails = append(c.fails, fmt.Sprintf(format, a...)) }

func optZ(n int64) string {
	if n < 0 {
		return "None"
	}
	return fmt.Sprintf("(Some %s)", CZ(n))
}

// content identity of what was delivered, relative to the blob it was asked from
func deliveredCid(rr *readResult, b *blob, off int64) (int64, int64) {
	if !rr.decOK || len(rr.logical) == 0 {
		return 0, 0
	}
	l := int64(len(rr.logical))
	if off >= 0 && off+l <= int64(len(b.data)) && bytes.Equal(rr.logical, b.data[off:off+l]) {
		return b.cid, l
	}
	return -1, l
}

func rdTerm(rr *readResult, b *blob, off int64) string {
	cid, l := deliveredCid(rr, b, off)
	return fmt.Sprintf("mkRd %s %s %s %s", rr.st.coq(), optZ(rr.reported), CZ(cid), CZ(l))
}

// the property's statement on one read of blob b at (off, lim); mustSucceed = b is stored (or
// empty), off < n (or n = 0), and the limit does not cut the range short
func (c *rcase) check(e *env, via string, rr *readResult, b *blob, off, lim int64, mustSucceed bool) {
	n := int64(len(b.data))
	e.rep.Evaluations++
	e.rep.Count(fmt.Sprintf("c02.%s.%s", via, rr.st))
	e.rep.DistinctCase(fmt.Sprintf("%s|%s|%s|%s|%s|%s", via, sizeClass(int(n)), offClass(off, n), limClass(lim, n-off), c.f.mode, rr.st))
	c.texts = append(c.texts, fmt.Sprintf("%s off=%d lim=%d -> %s reported=%d got=%s", via, off, lim, rr.st, rr.reported, descr(rr.logical)))
	if off != 0 || lim != 0 || rr.zstd {
		c.nontriv = true
	}
	var want []byte
	if off >= 0 && off <= n {
		want = b.data[off:]
	}
	if rr.st == cOK {
		if !rr.decOK {
			c.fail("C02 %s: successful zstd reply not decodable by both decoders (or they disagree)", via)
		} else if !bytes.Equal(rr.logical, want) {
			c.fail("C02 %s: successful read at offset %d delivered %s, want bytes [%d,%d) = %s", via, off, descr(rr.logical), off, n, descr(want))
		}
		if rr.reported >= 0 && rr.reported != n {
			c.fail("C02 %s: reported size %d, want %d", via, rr.reported, n)
		}
	} else {
		if !rr.zstd && want != nil && !bytes.HasPrefix(want, rr.raw) {
			c.fail("C02 %s: bytes delivered before the error (%s) are not a prefix of [%d,%d)", via, rr.st, off, n)
		}
		if want == nil && len(rr.raw) > 0 {
			c.fail("C02 %s: bytes delivered for an offset outside the blob", via)
		}
		if mustSucceed {
			c.fail("C02 %s: stored blob not readable at offset %d limit %d: %s", via, off, lim, rr.st)
		}
	}
	if lim > 0 && int64(len(rr.raw)) > lim {
		c.fail("C02 %s: %d bytes delivered, read_limit %d", via, len(rr.raw), lim)
	}
}

func offClass(off, n int64) string {
	switch {
	case off == 0:
		return "0"
	case off == n:
		return "n"
	case off > n:
		return ">n"
	case off == n-1:
		return "n-1"
	case off == 1:
		return "1"
	}
	return "mid"
}
func limClass(lim, rest int64) string {
	switch {
	case lim == 0:
		return "0"
	case lim < 0:
		return "neg"
	case lim < rest:
		return "<rest"
	case lim == rest:
		return "rest"
	}
	return ">rest"
}

func (c *rcase) flush(e *env, head string) {
	text := c.f.label() + " " + head
	for _, t := range c.texts {
		text += " ; " + t
	}
	idx := e.addCase(c.f, c.ops, c.obs, text, c.nontriv)
	for _, m := range c.fails {
		e.rep.Fail(idx, m, text)
	}
}

// ---- reads of one blob through every path

func (c *rcase) httpGet(e *env, b *blob, z, stored bool) {
	rr := c.f.httpGet("cas", b.hash, z)
	c.ops = append(c.ops, fmt.Sprintf("FHttpGet %s %s", CS(b.hash), CB(z)))
	c.obs = append(c.obs, "ORd ("+rdTerm(rr, b, 0)+")")
	c.check(e, fmt.Sprintf("GET(zstd=%v)", z), rr, b, 0, 0, stored)
	if rr.st == cOK && rr.zstd != z {
		c.fail("C02 GET: Accept-Encoding zstd=%v but reply Content-Encoding zstd=%v", z, rr.zstd)
	}
}

func (c *rcase) head(e *env, b *blob, stored bool) {
	st, cl := c.f.head("cas", b.hash)
	c.ops = append(c.ops, fmt.Sprintf("FHttpHead %s", CS(b.hash)))
	if st != cOK {
		cl = -1
	}
	c.obs = append(c.obs, fmt.Sprintf("OHead %s %s", st.coq(), CZ(cl)))
	e.rep.Evaluations++
	e.rep.Count("c02.HEAD." + string(st))
	c.texts = append(c.texts, fmt.Sprintf("HEAD -> %s size=%d", st, cl))
	if st == cOK && cl != int64(len(b.data)) {
		c.fail("C02 HEAD: reported size %d, want %d", cl, len(b.data))
	}
	if stored && st != cOK {
		c.fail("C02 HEAD: stored blob reported %s", st)
	}
}

func (c *rcase) batchRead(e *env, r *Rng, b *blob, z, stored bool) {
	n := int64(len(b.data))
	ds := []dg{{b.hash, n}}
	blobs := []*blob{b}
	must := []bool{stored}
	if r.Chance(40) { // the same hash under a wrong size, a blob that was never stored, the empty blob
		ds = append(ds, dg{b.hash, n + 1}, dg{genHash(r), 5}, dg{emptySha, 0})
		blobs = append(blobs, b, regBlob([]byte("never")), regBlob([]byte{}))
		must = append(must, false, false, true)
	}
	rs, st := c.f.batchRead(ds, z)
	var terms []string
	for i, rr := range rs {
		terms = append(terms, rdTerm(rr, blobs[i], 0))
		via := fmt.Sprintf("BatchReadBlobs(zstd=%v)", z)
		if i == 1 || i == 2 {
			if rr.st == cOK {
				c.fail("C02 %s: digest %s/%d is not stored but was served", via, ds[i].hash, ds[i].size)
			}
			e.rep.Count("c02.BatchReadBlobs.absent." + string(rr.st))
			continue
		}
		c.check(e, via, rr, blobs[i], 0, 0, must[i])
	}
	c.ops = append(c.ops, fmt.Sprintf("FBatchRead %s %s", dgList(ds), CB(z)))
	c.obs = append(c.obs, fmt.Sprintf("ORds %s %s", st.coq(), CList(terms)))
	if st != cOK || len(rs) != len(ds) {
		c.fail("C02 BatchReadBlobs: call failed (%s) or %d replies for %d digests", st, len(rs), len(ds))
	}
}

func (c *rcase) bsRead(e *env, b *blob, z bool, off, lim int64, stored bool) {
	n := int64(len(b.data))
	rr := c.f.bsRead(bsReadName(z, b.hash, n), z, off, lim)
	// the reads of the send loop: the messages that arrived, then whatever was left
	var reads []string
	sum := int64(0)
	for _, ch := range rr.chunks {
		reads = append(reads, fmt.Sprintf("%d", ch))
		sum += int64(ch)
	}
	if !z && off >= 0 && off < n && sum < n-off {
		reads = append(reads, fmt.Sprintf("%d", n-off-sum))
	}
	c.ops = append(c.ops, fmt.Sprintf("FBsRead (RN %s %s %s) %s %s %s", CB(z), CS(b.hash), CZ(n), CZ(off), CZ(lim), CList(reads)))
	c.obs = append(c.obs, "ORd ("+rdTerm(rr, b, off)+")")
	rest := n - off
	must := stored && off >= 0 && (off < n || n == 0) && (lim == 0 || (!z && lim >= rest))
	if n == 0 && (off != 0 || lim < 0) {
		must = false
	}
	c.check(e, fmt.Sprintf("ByteStream.Read(zstd=%v)", z), rr, b, off, lim, must)
	for _, ch := range rr.chunks {
		if ch > 2*1024*1024 {
			c.fail("C02 ByteStream.Read: message of %d bytes exceeds the 2 MiB chunk size", ch)
		}
	}
}

// ---- the slice

func runC02(e *env, n int) {
	r := e.r
	empty := regBlob([]byte{})
	// the empty blob on every path from an EMPTY cache
	for _, f := range e.fx {
		c := &rcase{f: f}
		c.httpGet(e, empty, false, true)
		c.httpGet(e, empty, true, true)
		c.head(e, empty, true)
		c.batchRead(e, r, empty, false, true)
		c.batchRead(e, r, empty, true, true)
		c.bsRead(e, empty, false, 0, 0, true)
		c.bsRead(e, empty, true, 0, 0, true)
		c.bsRead(e, empty, false, 0, 5, true)
		c.bsRead(e, empty, false, 1, 0, false)
		dirs, st := f.getTree(dg{emptySha, 0})
		c.texts = append(c.texts, fmt.Sprintf("GetTree(empty) -> %s %d dirs", st, len(dirs)))
		e.rep.Count("c02.GetTree.empty." + string(st))
		if st != cOK || len(dirs) != 1 || !proto.Equal(dirs[0], &pb.Directory{}) {
			c.fail("C02 GetTree: the empty root digest must yield one empty Directory from an empty cache, got %s with %d", st, len(dirs))
		}
		c.ops = append(c.ops, "FGetTree "+dg{emptySha, 0}.coq()+" []")
		c.obs = append(c.obs, fmt.Sprintf("OTree %s [0]", st.coq()))
		if f.numItems() != 0 {
			c.fail("C02 empty-blob reads stored something")
		}
		c.nontriv = true
		c.flush(e, "empty blob from an empty cache")
	}
	// one restart history per direction (writer mode x reader mode), in EVERY run
	if len(e.cases) < n {
		impl := []string{"go", "cgo"}[r.Intn(2)]
		restartCase(e, "zstd", impl)
		restartCase(e, "uncompressed", []string{"go", "cgo"}[r.Intn(2)])
	}
	// blobs larger than one 64 KiB decoder block (128 KiB, 128 KiB + 1, ~300 KiB; incompressible and
	// compressible) through the paths that buffer a whole blob: BatchReadBlobs, GetTree on a Directory
	// blob of that size, GetActionResult inlining — in EVERY run, on the zstd-storage fixtures
	for _, f := range e.fx {
		if f.mode != "zstd" || len(e.cases) >= n {
			continue
		}
		sizes := []int{128 << 10, 128<<10 + 1, 300000 + r.Intn(9000)}
		var bl []*blob
		for k, sz := range sizes {
			bl = append(bl, freshBlob(r, sz, (k+int(e.rep.Seed))%2 == 0))
		}
		c := &rcase{f: f}
		for _, b := range bl {
			if st := f.httpPut(b.hash, b.data, httpOpts{abortAt: -1}); st != cOK {
				panic("c02: upload failed: " + string(st))
			}
			bd, _ := describe(b.data, false, b.hash, false)
			c.ops = append(c.ops, fmt.Sprintf("FHttpPut true %s %s (XAbsent) CeNone %s %s", CS(b.hash), CZ(int64(len(b.data))), bd.coq(), CS(nextRnd())))
			c.obs = append(c.obs, "OSt SOk")
			c.batchRead(e, r, b, false, true)
			c.batchRead(e, r, b, true, true)
			c.bsRead(e, b, false, 65535+int64(r.Intn(3)), 0, true)
			c.httpGet(e, b, false, true)
		}
		c.flush(e, "blobs larger than a 64 KiB decoder block")
		inlineCaseOf(e, f, bl[1], bl[2], bl[0])
		treeCaseN(e, f, 1500)
	}
	for i := r.Intn(84); len(e.cases) < n; i++ {
		f := e.fx[i%len(e.fx)]
		if i%7 == 5 {
			treeCase(e, f)
			continue
		}
		if i%7 == 6 {
			inlineCase(e, f)
			continue
		}
		sz := pickSize(r)
		var b *blob
		switch r.Intn(3) {
		case 0:
			b = freshBlob(r, sz, false)
		case 1:
			b = freshBlob(r, sz, true)
		default:
			d := make([]byte, sz)
			copy(d, r.Bytes(8))
			b = regBlob(d)
		}
		c := &rcase{f: f}
		nn := int64(sz)
		// store it through a write path
		wz := r.Chance(50)
		wire := b.data
		o := httpOpts{abortAt: -1}
		if wz {
			wire, o.ce, o.xdigest = zwire(r, b.data, ""), "zstd", fmt.Sprintf("%d", sz)
		}
		if st := f.httpPut(b.hash, wire, o); st != cOK {
			panic("c02: upload failed: " + string(st))
		}
		bd, _ := describe(wire, wz, b.hash, false)
		xd := "XAbsent"
		if wz {
			xd = "XVal " + CZ(nn)
		}
		c.ops = append(c.ops, fmt.Sprintf("FHttpPut true %s %s (%s) %s %s %s", CS(b.hash), CZ(int64(len(wire))), xd, ceTerm(o.ce), bd.coq(), CS(nextRnd())))
		c.obs = append(c.obs, "OSt SOk")
		offs := []int64{0, 1, nn - 1, nn, nn + 1, nn / 2}
		for k := 0; k < 6; k++ {
			switch (i + k) % 6 {
			case 0:
				c.httpGet(e, b, r.Chance(50), true)
			case 1:
				c.head(e, b, true)
			case 2:
				c.batchRead(e, r, b, r.Chance(50), true)
			case 3: // compressed-blobs: any offset, limit must be 0
				off := offs[r.Intn(len(offs))]
				lim := int64(0)
				if r.Chance(12) {
					lim = 1 + int64(r.Intn(9))
				}
				c.bsRead(e, b, true, off, lim, true)
			default: // blobs: offsets x limits
				off := offs[r.Intn(len(offs))]
				if off < 0 {
					off = 0
				}
				rest := nn - off
				lims := []int64{0, 1, rest - 1, rest, rest + 1, 0, rest, 1 << 40}
				lim := lims[r.Intn(len(lims))]
				if lim < 0 && r.Chance(70) {
					lim = 0
				}
				if r.Chance(3) {
					off = -1
				}
				c.bsRead(e, b, false, off, lim, true)
			}
		}
		c.flush(e, fmt.Sprintf("blob %s/%d stored via HTTP PUT zstd=%v", b.hash, sz, wz))
	}
}

// GetTree: a generated directory tree, some children never stored
func treeCase(e *env, f *fixture) { treeCaseN(e, f, 1) }

// nfiles file entries per directory: ~90 bytes each, so 1500 make a Directory blob well over 64 KiB
func treeCaseN(e *env, f *fixture, nfiles int) {
	r := e.r
	c := &rcase{f: f, nontriv: true}
	type node struct {
		dir     *pb.Directory
		b       *blob
		kids    []*node
		missing bool
	}
	var build func(depth int) *node
	uniq := 0
	build = func(depth int) *node {
		uniq++
		nd := &node{dir: &pb.Directory{}}
		for k := 0; k < nfiles; k++ {
			nd.dir.Files = append(nd.dir.Files, &pb.FileNode{Name: fmt.Sprintf("f%d-%d-%d", uniq, k, r.Intn(1<<30)), Digest: &pb.Digest{Hash: genHash(r), SizeBytes: int64(1 + r.Intn(99))}})
		}
		maxDepth := 3
		if nfiles > 1 {
			maxDepth = 1
		}
		if depth < maxDepth {
			nk := r.Intn(3)
			if nfiles > 1 {
				nk = 1
			}
			for k := 0; k < nk; k++ {
				kid := build(depth + 1)
				kid.missing = r.Chance(20) && nfiles == 1
				nd.kids = append(nd.kids, kid)
				nd.dir.Directories = append(nd.dir.Directories, &pb.DirectoryNode{Name: fmt.Sprintf("d%d", k), Digest: &pb.Digest{Hash: kid.b.hash, SizeBytes: int64(len(kid.b.data))}})
			}
		}
		data, err := proto.Marshal(nd.dir)
		if err != nil {
			panic(err)
		}
		nd.b = regBlob(data)
		return nd
	}
	root := build(0)
	var table []string
	var want []*node
	var walk func(nd *node, reachable bool)
	seen := map[string]bool{}
	walk = func(nd *node, reachable bool) {
		if !nd.missing {
			if !seen[nd.b.hash] {
				seen[nd.b.hash] = true
				sts, st := f.batchUpdate([]buEntry{{nd.b.hash, int64(len(nd.b.data)), 0, nd.b.data}})
				if st != cOK || sts[0] != cOK {
					panic("tree: upload failed")
				}
				bd, _ := describe(nd.b.data, false, nd.b.hash, false)
				c.ops = append(c.ops, fmt.Sprintf("FBatchUpdate [mkBU false %s %s CIdentity %s %s]", CS(nd.b.hash), CZ(int64(len(nd.b.data))), bd.coq(), CS(nextRnd())))
				c.obs = append(c.obs, "OSts SOk [SOk]")
				var kids []string
				for _, k := range nd.kids {
					kids = append(kids, dg{k.b.hash, int64(len(k.b.data))}.coq())
				}
				table = append(table, fmt.Sprintf("(%s, %s)", CZ(nd.b.cid), CList(kids)))
			}
			if reachable {
				want = append(want, nd)
			}
		}
		for _, k := range nd.kids {
			walk(k, reachable && !nd.missing)
		}
	}
	walk(root, true)
	rootDg := dg{root.b.hash, int64(len(root.b.data))}
	dirs, st := f.getTree(rootDg)
	var cids []string
	for _, d := range dirs {
		data, _ := proto.Marshal(d)
		if b, ok := byHash[sha(data)]; ok {
			cids = append(cids, CZ(b.cid))
		} else {
			cids = append(cids, "(-1)")
		}
	}
	c.ops = append(c.ops, fmt.Sprintf("FGetTree %s %s", rootDg.coq(), CList(table)))
	c.obs = append(c.obs, fmt.Sprintf("OTree %s %s", st.coq(), CList(cids)))
	e.rep.Evaluations++
	e.rep.Count("c02.GetTree." + string(st))
	c.texts = append(c.texts, fmt.Sprintf("GetTree -> %s %d directories, expected %d", st, len(dirs), len(want)))
	if st != cOK {
		c.fail("C02 GetTree: stored root not served: %s", st)
	} else if len(dirs) != len(want) {
		c.fail("C02 GetTree: %d directories, want %d", len(dirs), len(want))
	} else {
		for i := range dirs {
			if !proto.Equal(dirs[i], want[i].dir) {
				c.fail("C02 GetTree: directory %d differs from the stored message", i)
				break
			}
		}
	}
	c.flush(e, fmt.Sprintf("tree of %d stored directories (root blob %d bytes)", len(seen), len(root.b.data)))
}

// fields inlined into a returned ActionResult (direct oracle only: the action-cache side of
// GetActionResult belongs to the C06/C11 models)
func inlineCase(e *env, f *fixture) {
	r := e.r
	inlineCaseOf(e, f, freshBlob(r, 1+r.Intn(5000), false), freshBlob(r, 1+r.Intn(300), true), freshBlob(r, pickSize(r), false))
}

func inlineCaseOf(e *env, f *fixture, so, se, of *blob) {
	r := e.r
	c := &rcase{f: f, nontriv: true}
	var es []buEntry
	for _, b := range []*blob{so, se, of} {
		es = append(es, buEntry{b.hash, int64(len(b.data)), 0, b.data})
		bd, _ := describe(b.data, false, b.hash, false)
		c.ops = append(c.ops, fmt.Sprintf("FBatchUpdate [mkBU false %s %s CIdentity %s %s]", CS(b.hash), CZ(int64(len(b.data))), bd.coq(), CS(nextRnd())))
		c.obs = append(c.obs, "OSts SOk [SOk]")
		if sts, st := f.batchUpdate(es[len(es)-1:]); st != cOK || sts[0] != cOK {
			panic("inline: upload failed")
		}
	}
	ahash := genHash(r)
	ar := &pb.ActionResult{
		StdoutDigest: &pb.Digest{Hash: so.hash, SizeBytes: int64(len(so.data))},
		StderrDigest: &pb.Digest{Hash: se.hash, SizeBytes: int64(len(se.data))},
		OutputFiles:  []*pb.OutputFile{{Path: "out/f0", Digest: &pb.Digest{Hash: of.hash, SizeBytes: int64(len(of.data))}}},
	}
	ctx, cancel := ctx5()
	_, err := f.ac.UpdateActionResult(ctx, &pb.UpdateActionResultRequest{ActionDigest: &pb.Digest{Hash: ahash, SizeBytes: 9}, ActionResult: ar})
	cancel()
	if err != nil {
		panic(err)
	}
	wantSo, wantSe, wantOf := r.Chance(70), r.Chance(70), r.Chance(70)
	if len(so.data) > 65536 {
		wantSo, wantSe, wantOf = true, true, true
	}
	var files []string
	if wantOf {
		files = []string{"out/f0"}
	}
	got, st := f.getAR(ahash, 9, wantSo, wantSe, files)
	e.rep.Evaluations++
	e.rep.Count("c02.GetActionResult.inline." + string(st))
	c.texts = append(c.texts, fmt.Sprintf("GetActionResult inline stdout=%v stderr=%v file=%v -> %s", wantSo, wantSe, wantOf, st))
	if st != cOK {
		c.fail("C02 GetActionResult: %s", st)
	} else {
		chk := func(name string, want bool, raw []byte, b *blob, d *pb.Digest) {
			if want && !bytes.Equal(raw, b.data) {
				c.fail("C02 GetActionResult: inlined %s is %s, want %s", name, descr(raw), descr(b.data))
			}
			if !want && len(raw) != 0 {
				c.fail("C02 GetActionResult: %s inlined although not requested", name)
			}
			if d.GetHash() != b.hash || d.GetSizeBytes() != int64(len(b.data)) {
				c.fail("C02 GetActionResult: %s digest changed", name)
			}
		}
		chk("stdout", wantSo, got.StdoutRaw, so, got.StdoutDigest)
		chk("stderr", wantSe, got.StderrRaw, se, got.StderrDigest)
		if len(got.OutputFiles) != 1 {
			c.fail("C02 GetActionResult: output files changed")
		} else {
			chk("output file", wantOf, got.OutputFiles[0].Contents, of, got.OutputFiles[0].Digest)
		}
	}
	c.flush(e, "ActionResult with stdout/stderr/output file in the CAS")
}

// ---- restarts under the other storage mode (writer mode x reader mode)

// One cache directory: populated under [first] through the normal write paths, then served by a new
// cache + servers under the other mode, more entries written there (mixed directory), and a second
// restart back to [first].  After every (re)start every blob is read through every read path with
// the exact-bytes oracle; the model sees the same history with FRestart between the phases.
func restartCase(e *env, first, impl string) {
	r := e.r
	other := map[string]string{"zstd": "uncompressed", "uncompressed": "zstd"}[first]
	f0 := newFixture(first, impl, bigLimit)
	cur := f0
	defer func() { cur.close() }()
	c := &rcase{f: f0, nontriv: true}

	var blobs []*blob
	write := func(k int, sz int) {
		var u *ucase
		switch k % 4 {
		case 0:
			u = runHTTP(cur, r, false, "none", sz)
		case 1:
			u = runHTTP(cur, r, true, "none", sz)
		case 2:
			u = runBatch(cur, r, k%8 == 2, "none", sz)
		default:
			u = runBS(cur, r, k%8 == 3, "none", sz)
		}
		if u.got != cOK {
			c.fail("C02 restart: upload of %d bytes refused: %s", sz, u.got)
		}
		c.ops = append(c.ops, u.ops...)
		c.obs = append(c.obs, u.obs...)
		blobs = append(blobs, byHash[u.decl.hash])
	}
	// a Directory tree (one child blob larger than a decoder block) and an ActionResult whose
	// stdout / stderr / output file live in the CAS
	mkDir := func(nfiles int, kids ...*blob) (*pb.Directory, *blob) {
		d := &pb.Directory{}
		for k := 0; k < nfiles; k++ {
			d.Files = append(d.Files, &pb.FileNode{Name: fmt.Sprintf("f%d-%d", k, r.Intn(1<<30)), Digest: &pb.Digest{Hash: genHash(r), SizeBytes: int64(1 + r.Intn(99))}})
		}
		for k, kb := range kids {
			d.Directories = append(d.Directories, &pb.DirectoryNode{Name: fmt.Sprintf("d%d", k), Digest: &pb.Digest{Hash: kb.hash, SizeBytes: int64(len(kb.data))}})
		}
		data, err := proto.Marshal(d)
		if err != nil {
			panic(err)
		}
		return d, regBlob(data)
	}
	put := func(b *blob) {
		sts, st := cur.batchUpdate([]buEntry{{b.hash, int64(len(b.data)), 0, b.data}})
		if st != cOK || sts[0] != cOK {
			panic("restart: upload failed")
		}
		bd, _ := describe(b.data, false, b.hash, false)
		c.ops = append(c.ops, fmt.Sprintf("FBatchUpdate [mkBU false %s %s CIdentity %s %s]", CS(b.hash), CZ(int64(len(b.data))), bd.coq(), CS(nextRnd())))
		c.obs = append(c.obs, "OSts SOk [SOk]")
	}
	for k, sz := range []int{1, 4095, 4096, 4097, 70000 + r.Intn(999), 1<<20 + 13 + r.Intn(50)} {
		write(k+r.Intn(8)*4, sz)
	}
	dBig, bBig := mkDir(900)
	dSmall, bSmall := mkDir(2)
	dRoot, bRoot := mkDir(3, bBig, bSmall)
	wantDirs := []*pb.Directory{dRoot, dBig, dSmall}
	for _, b := range []*blob{bBig, bSmall, bRoot} {
		put(b)
	}
	table := fmt.Sprintf("[(%s, [%s; %s]); (%s, []); (%s, [])]", CZ(bRoot.cid), dg{bBig.hash, int64(len(bBig.data))}.coq(), dg{bSmall.hash, int64(len(bSmall.data))}.coq(), CZ(bBig.cid), CZ(bSmall.cid))
	ahash := genHash(r)
	so, se, of := blobs[4], blobs[2], blobs[5]
	{
		ar := &pb.ActionResult{
			StdoutDigest: &pb.Digest{Hash: so.hash, SizeBytes: int64(len(so.data))},
			StderrDigest: &pb.Digest{Hash: se.hash, SizeBytes: int64(len(se.data))},
			OutputFiles:  []*pb.OutputFile{{Path: "out/f0", Digest: &pb.Digest{Hash: of.hash, SizeBytes: int64(len(of.data))}}},
		}
		ctx, cancel := ctx5()
		_, err := cur.ac.UpdateActionResult(ctx, &pb.UpdateActionResultRequest{ActionDigest: &pb.Digest{Hash: ahash, SizeBytes: 9}, ActionResult: ar})
		cancel()
		if err != nil {
			panic(err)
		}
	}

	readAll := func(phase string, full bool) {
		t0 := time.Now()
		defer func() {
			if os.Getenv("FRONT_TIMING") != "" {
				fmt.Fprintf(os.Stderr, "TIMING readAll %s: %v\n", phase, time.Since(t0))
			}
		}()
		c.f = cur
		c.texts = append(c.texts, "== "+phase+" ("+cur.mode+")")
		for i, b := range blobs {
			n := int64(len(b.data))
			offs := []int64{0, 1, n / 2, n - 1, n}
			if n > 1<<20 {
				offs = []int64{0, 1, 500000 + int64(r.Intn(1000)), 1 << 20, 1<<20 - 1, n - 1, n}
			}
			if !full {
				// light: one buffering read and one streaming read per blob, alternating encodings
				zb := (i+len(c.ops))%2 == 0
				c.batchRead(e, r, b, zb, true)
				if off := offs[r.Intn(len(offs)-1)]; off >= 0 && off < n {
					c.bsRead(e, b, !zb, off, 0, true)
				} else {
					c.httpGet(e, b, !zb, true)
				}
				continue
			}
			c.batchRead(e, r, b, false, true)
			c.batchRead(e, r, b, true, true)
			c.httpGet(e, b, false, true)
			c.httpGet(e, b, true, true)
			c.head(e, b, true)
			if n != 4096 && n <= 1<<20 {
				// every offset class for the chunk-sized and the multi-chunk blob, two for the others
				offs = []int64{offs[r.Intn(2)], offs[2+r.Intn(3)]}
			}
			for _, off := range offs {
				if off < 0 {
					continue
				}
				c.bsRead(e, b, false, off, 0, true)
				c.bsRead(e, b, true, off, 0, true)
			}
		}
		// GetTree
		dirs, st := cur.getTree(dg{bRoot.hash, int64(len(bRoot.data))})
		var cids []string
		for _, d := range dirs {
			data, _ := proto.Marshal(d)
			if b, ok := byHash[sha(data)]; ok {
				cids = append(cids, CZ(b.cid))
			} else {
				cids = append(cids, "(-1)")
			}
		}
		c.ops = append(c.ops, fmt.Sprintf("FGetTree %s %s", dg{bRoot.hash, int64(len(bRoot.data))}.coq(), table))
		c.obs = append(c.obs, fmt.Sprintf("OTree %s %s", st.coq(), CList(cids)))
		e.rep.Evaluations++
		e.rep.Count("c02.restart.GetTree." + string(st))
		ok := st == cOK && len(dirs) == len(wantDirs)
		for i := 0; ok && i < len(dirs); i++ {
			ok = proto.Equal(dirs[i], wantDirs[i])
		}
		if !ok {
			c.fail("C02 GetTree after %s: %s with %d directories, want the %d stored messages", phase, st, len(dirs), len(wantDirs))
		}
		// GetActionResult with everything inlined
		got, ast := cur.getAR(ahash, 9, true, true, []string{"out/f0"})
		e.rep.Evaluations++
		e.rep.Count("c02.restart.GetActionResult." + string(ast))
		if ast != cOK || !bytes.Equal(got.GetStdoutRaw(), so.data) || !bytes.Equal(got.GetStderrRaw(), se.data) ||
			len(got.GetOutputFiles()) != 1 || !bytes.Equal(got.GetOutputFiles()[0].GetContents(), of.data) {
			c.fail("C02 GetActionResult after %s: %s, inlined stdout/stderr/output file differ from the stored blobs", phase, ast)
		}
		c.texts = append(c.texts, fmt.Sprintf("GetTree -> %s %d dirs; GetActionResult(inline all) -> %s", st, len(dirs), ast))
	}
	restart := func(mode string) {
		t0 := time.Now()
		defer func() {
			if os.Getenv("FRONT_TIMING") != "" {
				fmt.Fprintf(os.Stderr, "TIMING restart: %v\n", time.Since(t0))
			}
		}()
		cur.shutdown()
		cur = newFixtureAt(cur.dir, mode, impl, bigLimit)
		c.ops = append(c.ops, "FRestart "+CB(mode == "zstd"))
		c.obs = append(c.obs, "OSt SOk")
		e.rep.Count("c02.restart." + first + "->" + mode)
	}

	readAll("written under "+first, false)
	restart(other)
	readAll("restarted under "+other, true)
	// a mixed directory: more entries written under the other mode
	for k, sz := range []int{100, 4096, 66000 + r.Intn(999)} {
		write(k+r.Intn(8)*4, sz)
	}
	readAll("mixed directory under "+other, false)
	restart(first)
	readAll("restarted back under "+first, false)
	c.f = f0
	c.flush(e, fmt.Sprintf("restart %s -> %s -> %s (%s)", first, other, first, impl))
}
