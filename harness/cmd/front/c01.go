package main

// C01: every CAS write path x corruption kind; direct oracle = the property's statement.

import (
	"bytes"
	"encoding/binary"
	"fmt"
	"strings"

	. "verifharness/hlib"
)

type ucase struct {
	path, kind string
	decl       dg     // the digest the upload claims
	logical    []byte // the complete logical bytes the upload carried (nil: undecodable / cut short)
	info       bool   // no accept/reject verdict (e.g. a trailing empty frame); OK still implies present+readable
	preDup     bool   // the claimed digest was deliberately present beforehand
	mustAccept bool   // well formed and within limits
	got        cls
	mention    []dg
	ops, obs   []string
	n          int
}

var genericKinds = []string{"none", "none", "none", "flip", "truncate", "extend", "size+1", "size-1", "sizex2", "size0",
	"wronghash", "otherhash", "emptyclaim", "dup", "empty"}
var zKinds = []string{"zgarbage", "ztrailframe", "ztrailbytes", "ztrunc", "zemptyframe", "zmulti", "zskippable"}

var pathKinds = map[string][]string{
	"http":      append(append([]string{}, genericKinds...), "unsupported", "abort", "chunked-nox", "chunked-x", "xbad", "ce-identity"),
	"httpz":     append(append(append([]string{}, genericKinds...), zKinds...), "abort", "znox"),
	"batch":     append(append([]string{}, genericKinds...), "unsupported", "multi"),
	"batchz":    append(append([]string{}, genericKinds...), zKinds...),
	"bs":        append(append([]string{}, genericKinds...), "abort", "offset", "rename", "nofinish", "finearly", "dupcorrupt", "dupsize+1", "dupsize-1", "dupsizex2"),
	"bsz":       append(append(append([]string{}, genericKinds...), zKinds...), "abort", "offset", "rename", "unsupported", "dupcorrupt", "dupsize+1", "dupsize-1", "dupsizex2"),
	"splice":    {"none", "none", "missingchunk", "swapped", "size+1", "size-1", "wronghash", "otherhash", "chunksize+1", "emptychunk", "overflow", "digestfn", "nochunks", "dup", "badchunkhash", "one"},
	"splicenod": {"none", "none", "missingchunk", "swapped", "chunksize+1", "emptychunk", "overflow", "digestfn", "nochunks", "dup", "one"},
	"ac":        {"none", "none", "nodigest", "flip", "truncate", "extend", "size+1", "size-1", "wronghash", "otherhash", "emptyclaim", "file", "file-flip", "file-size+1", "stderr-flip", "two-bad-second"},
	"fetch":     {"none", "none-chunked", "nosri", "nosri-chunked", "flip", "flip-chunked", "truncate", "wronghash", "otherhash", "up404", "secondgood", "cached", "empty"},
}
var pathOrder = []string{"http", "httpz", "batch", "batchz", "bs", "bsz", "splice", "splicenod", "ac", "fetch"}

// ---- generic mutation of (claimed digest, payload)

type mut struct {
	decl    dg
	payload []byte
	preDup  bool
}

func mutate(r *Rng, b *blob, kind string) mut {
	n := int64(len(b.data))
	m := mut{decl: dg{b.hash, n}, payload: b.data}
	switch kind {
	case "flip":
		p := append([]byte{}, b.data...)
		p[r.Intn(len(p))] ^= byte(1 << r.Intn(8))
		m.payload = p
	case "truncate":
		cut := 1
		if n > 2 && r.Chance(50) {
			cut = int(n) / 2
		}
		m.payload = b.data[:int(n)-cut]
	case "extend":
		m.payload = append(append([]byte{}, b.data...), r.Bytes(1+r.Intn(5))...)
	case "size+1":
		m.decl.size = n + 1
	case "size-1":
		m.decl.size = n - 1
	case "sizex2":
		m.decl.size = 2 * n
	case "size0":
		m.decl.size = 0
	case "wronghash":
		m.decl.hash = genHash(r)
	case "otherhash":
		if n > 0 {
			m.decl.hash = freshBlob(r, int(n), false).hash // never uploaded
		} else {
			m.decl.hash = genHash(r)
		}
	case "emptyclaim":
		m.decl = dg{emptySha, 0}
	}
	return m
}

func skippable(payload []byte) []byte {
	out := []byte{0x50, 0x2a, 0x4d, 0x18, 0, 0, 0, 0}
	binary.LittleEndian.PutUint32(out[4:], uint32(len(payload)))
	return append(out, payload...)
}

func zwire(r *Rng, payload []byte, zkind string) []byte {
	enc := func(b []byte) []byte { return zenc.EncodeAll(b, nil) }
	switch zkind {
	case "zgarbage":
		return r.Bytes(20 + r.Intn(60))
	case "ztrailframe":
		return append(enc(payload), enc(r.Bytes(1+r.Intn(9)))...)
	case "ztrailbytes":
		return append(enc(payload), r.Bytes(1+r.Intn(9))...)
	case "ztrunc":
		w := enc(payload)
		return w[:len(w)-1-r.Intn(3)]
	case "zemptyframe":
		return append(enc(payload), enc([]byte{})...)
	case "zskippable":
		return append(enc(payload), skippable([]byte("hello"))...)
	case "zmulti":
		k := len(payload) / 2
		return append(enc(payload[:k]), enc(payload[k:])...)
	}
	return enc(payload)
}

func isZKind(k string) bool { return strings.HasPrefix(k, "z") && k != "znox" }

// ---- the case loop

func runC01(e *env, n int) {
	r := e.r
	// a seed-dependent walk through fixtures x paths (stride coprime with the period, so any
	// window of cases spreads over both), kinds per path from a seed-dependent start
	period := len(e.fx) * len(pathOrder)
	start := r.Intn(period)
	kindIdx := map[string]int{}
	for _, p := range pathOrder {
		kindIdx[p] = r.Intn(len(pathKinds[p]))
	}
	// regression cases of two repaired defects, in EVERY run: a batch entry with an unsupported
	// compressor, data under the empty digest through ByteStream.Write (both forms), and the
	// genuinely empty uploads that must stay accepted
	ds := []string{"dupsize+1", "dupsize-1", "dupsizex2"}
	fixed := []struct{ path, kind string }{{"batch", "unsupported"}, {"bs", "emptyclaim"}, {"bsz", "emptyclaim"}, {"bs", "empty"}, {"bsz", "empty"},
		{"bs", ds[r.Intn(3)]}, {"bsz", ds[r.Intn(3)]}}
	f0 := e.fx[r.Intn(len(e.fx))]
	for i := 0; i < len(fixed) && i < n; i++ {
		sz := pickSize(r)
		if fixed[i].kind == "empty" {
			sz = 0
		}
		var u *ucase
		if fixed[i].path == "batch" {
			u = runBatch(f0, r, false, fixed[i].kind, sz)
		} else {
			u = runBS(f0, r, fixed[i].path == "bsz", fixed[i].kind, sz)
		}
		u.path, u.kind, u.n = fixed[i].path, fixed[i].kind, sz
		judge(e, f0, u)
	}
	for i := len(fixed); i < n; i++ {
		idx := (start + i*7) % period
		f := e.fx[idx%len(e.fx)]
		path := pathOrder[idx/len(e.fx)]
		ks := pathKinds[path]
		kind := ks[kindIdx[path]%len(ks)]
		kindIdx[path]++
		sz := pickSize(r)
		if kind == "empty" {
			sz = 0
		}
		var u *ucase
		switch path {
		case "http", "httpz":
			u = runHTTP(f, r, path == "httpz", kind, sz)
		case "batch", "batchz":
			u = runBatch(f, r, path == "batchz", kind, sz)
		case "bs", "bsz":
			u = runBS(f, r, path == "bsz", kind, sz)
		case "splice", "splicenod":
			u = runSplice(f, r, path == "splice", kind, sz)
		case "ac":
			u = runAC(f, r, kind, sz)
		case "fetch":
			u = runFetch(f, r, kind, sz)
		}
		u.path, u.kind, u.n = path, kind, sz
		judge(e, f, u)
	}
}

// the property's statement on one observed upload
func judge(e *env, f *fixture, u *ucase) {
	rep := e.rep
	match := u.logical != nil && int64(len(u.logical)) == u.decl.size && sha(u.logical) == u.decl.hash
	ok := u.got == cOK
	missing, mst := f.findMissing(u.mention)
	u.ops = append(u.ops, "FFindMissing "+dgList(u.mention))
	if mst == cOK {
		u.obs = append(u.obs, "OMiss "+dgList(missing))
	} else {
		u.obs = append(u.obs, "OSt "+mst.coq())
	}
	declMissing := false
	for _, d := range missing {
		if d == u.decl {
			declMissing = true
		}
	}
	text := fmt.Sprintf("%s path=%s kind=%s n=%d declared=%s/%d logical=%s -> %s; missing afterwards=%v", f.label(), u.path, u.kind, u.n,
		u.decl.hash, u.decl.size, descr(u.logical), u.got, missing)
	idx := e.addCase(f, u.ops, u.obs, text, u.kind != "none")
	rep.Evaluations += 2
	rep.Count("c01." + u.path + "." + string(u.got))
	rep.Count("c01.kind." + u.kind + "." + string(u.got))
	rep.DistinctCase(fmt.Sprintf("%s|%s|%s|%s|%s", u.path, u.kind, sizeClass(u.n), f.mode, u.got))
	isEmpty := u.decl == dg{emptySha, 0}
	switch {
	case ok && !match && u.preDup:
		rep.Count("c01.ack-of-corrupt-reupload-of-present-blob")
	case ok && !match:
		rep.Fail(idx, fmt.Sprintf("C01 upload acknowledged although its logical bytes do not have the declared length and SHA-256 (path %s, kind %s)", u.path, u.kind), text)
	case !ok && match && u.mustAccept:
		rep.Fail(idx, fmt.Sprintf("C01 well-formed upload within the limits refused with %s (path %s, kind %s)", u.got, u.path, u.kind), text)
	}
	if ok && (match || u.preDup) {
		// thereafter present and readable with identical content
		if declMissing {
			rep.Fail(idx, fmt.Sprintf("C01 acknowledged blob reported missing afterwards (path %s, kind %s)", u.path, u.kind), text)
		}
		if st, cl := f.head("cas", u.decl.hash); st != cOK || cl != u.decl.size {
			rep.Fail(idx, fmt.Sprintf("C01 acknowledged blob: HEAD says %s size %d (path %s)", st, cl, u.path), text)
		}
		want := u.logical
		if !match {
			want = byHash[u.decl.hash].data
		}
		if msg := readBack(f, e.r, u.decl, want); msg != "" {
			rep.Fail(idx, fmt.Sprintf("C01 acknowledged blob not readable with identical content: %s (path %s, kind %s)", msg, u.path, u.kind), text)
		}
		rep.Evaluations += 2
	}
	if !match && !u.preDup && !isEmpty && mst == cOK && !declMissing && validDigest(u.decl) {
		rep.Fail(idx, fmt.Sprintf("C01 rejected/mismatching upload made the claimed digest present (path %s, kind %s)", u.path, u.kind), text)
	}
}

func validDigest(d dg) bool {
	if d.size == 0 {
		return d.hash == emptySha
	}
	return len(d.hash) == 64 && d.size > 0
}

func descr(b []byte) string {
	if b == nil {
		return "none"
	}
	return fmt.Sprintf("%s/%d", sha(b), len(b))
}

// read the blob back through one of the read paths; "" if identical
func readBack(f *fixture, r *Rng, d dg, want []byte) string {
	var rr *readResult
	var via string
	switch r.Intn(6) {
	case 0:
		rr, via = f.httpGet("cas", d.hash, false), "GET"
	case 1:
		rr, via = f.httpGet("cas", d.hash, true), "GET zstd"
	case 2, 3:
		z := r.Chance(50)
		rs, st := f.batchRead([]dg{d}, z)
		via = fmt.Sprintf("BatchReadBlobs zstd=%v", z)
		if st != cOK || len(rs) != 1 {
			return via + ": call failed: " + string(st)
		}
		rr = rs[0]
	default:
		z := r.Chance(50)
		rr, via = f.bsRead(bsReadName(z, d.hash, d.size), z, 0, 0), fmt.Sprintf("ByteStream.Read zstd=%v", z)
	}
	if rr.st != cOK {
		return via + ": " + string(rr.st)
	}
	if !rr.decOK {
		return via + ": reply does not decode"
	}
	if !bytes.Equal(rr.logical, want) {
		return fmt.Sprintf("%s: got %s, want %s", via, descr(rr.logical), descr(want))
	}
	if rr.reported >= 0 && rr.reported != int64(len(want)) {
		return fmt.Sprintf("%s: reported size %d, want %d", via, rr.reported, len(want))
	}
	return ""
}

// ---- 1/2 HTTP PUT

func runHTTP(f *fixture, r *Rng, z bool, kind string, sz int) *ucase {
	b := freshBlob(r, sz, r.Chance(30))
	gk := kind
	if sz == 0 && (kind == "flip" || kind == "truncate" || kind == "size-1") {
		gk = "none"
	}
	m := mutate(r, b, gk)
	u := &ucase{decl: m.decl}
	o := httpOpts{abortAt: -1}
	wire := m.payload
	if z {
		o.ce = "zstd"
		zk := ""
		if isZKind(kind) {
			zk = kind
		}
		wire = zwire(r, m.payload, zk)
	}
	// how the size is declared
	if z || m.decl.size != int64(len(wire)) || r.Chance(30) {
		o.xdigest = fmt.Sprintf("%d", m.decl.size)
	}
	switch kind {
	case "unsupported":
		o.ce = []string{"gzip", "br", "deflate", "ZSTD", "zstd, identity"}[r.Intn(5)]
	case "ce-identity":
		o.ce = "identity"
	case "chunked-nox":
		o.chunked, o.xdigest = true, ""
	case "chunked-x":
		o.chunked, o.xdigest = true, fmt.Sprintf("%d", m.decl.size)
	case "xbad":
		o.xdigest = []string{"abc", "12x", "1.5", "0x10", "99999999999999999999"}[r.Intn(5)]
	case "znox":
		o.xdigest = ""
		u.decl.size = int64(len(wire))
	case "abort":
		if len(wire) > 0 {
			o.abortAt = r.Intn(len(wire))
		}
	case "dup":
		if st := f.httpPut(b.hash, b.data, httpOpts{abortAt: -1}); st != cOK {
			panic("dup: first upload failed: " + string(st))
		}
		u.preDup = true
		bd0, _ := describe(b.data, false, b.hash, false)
		u.ops = []string{fmt.Sprintf("FHttpPut true %s %s (XAbsent) CeNone %s %s", CS(b.hash), CZ(int64(sz)), bd0.coq(), CS(nextRnd()))}
		u.obs = []string{"OSt SOk"}
	}
	u.got = f.httpPut(u.decl.hash, wire, o)
	sent := wire
	if o.abortAt >= 0 {
		sent = wire[:o.abortAt]
	}
	bd, logical := describe(sent, o.ce == "zstd", u.decl.hash, o.abortAt >= 0)
	if o.abortAt >= 0 || kind == "unsupported" || kind == "xbad" || kind == "chunked-nox" {
		logical = nil // nothing complete was declared+delivered in a supported way
	}
	u.logical = logical
	u.info = kind == "zemptyframe" || kind == "zskippable"
	u.mustAccept = !u.info
	u.mention = []dg{u.decl}
	if b.hash != u.decl.hash && sz > 0 {
		u.mention = append(u.mention, dg{b.hash, int64(sz)})
	}
	cl := int64(len(wire))
	if o.chunked {
		cl = -1
	}
	xd := "XAbsent"
	if o.xdigest != "" {
		xd = "XVal " + CZ(m.decl.size)
		if kind == "xbad" {
			xd = "XBad"
		}
	}
	u.ops = append(u.ops, fmt.Sprintf("FHttpPut true %s %s (%s) %s %s %s", CS(u.decl.hash), CZ(cl), xd, ceTerm(o.ce), bd.coq(), CS(nextRnd())))
	u.obs = append(u.obs, "OSt "+u.got.coq())
	return u
}

// ---- 3/4 BatchUpdateBlobs

func runBatch(f *fixture, r *Rng, z bool, kind string, sz int) *ucase {
	b := freshBlob(r, sz, r.Chance(30))
	gk := kind
	if sz == 0 && (kind == "flip" || kind == "truncate" || kind == "size-1") {
		gk = "none"
	}
	m := mutate(r, b, gk)
	u := &ucase{decl: m.decl}
	comp := int32(0)
	wire := m.payload
	if z {
		comp = 1
		zk := ""
		if isZKind(kind) {
			zk = kind
		}
		wire = zwire(r, m.payload, zk)
	}
	if kind == "unsupported" {
		comp = []int32{2, 3, 7}[r.Intn(3)]
	}
	es := []buEntry{{m.decl.hash, m.decl.size, comp, wire}}
	if kind == "dup" {
		if sts, st := f.batchUpdate([]buEntry{{b.hash, int64(sz), 0, b.data}}); st != cOK || sts[0] != cOK {
			panic("dup: first upload failed")
		}
		u.preDup = true
		bd0, _ := describe(b.data, false, b.hash, false)
		u.ops = []string{fmt.Sprintf("FBatchUpdate [mkBU false %s %s CIdentity %s %s]", CS(b.hash), CZ(int64(sz)), bd0.coq(), CS(nextRnd()))}
		u.obs = []string{"OSts SOk [SOk]"}
	}
	var extra []*blob
	if kind == "multi" {
		// a good blob before and after the one under test, in the same call
		for i := 0; i < 2; i++ {
			x := freshBlob(r, 1+r.Intn(300), false)
			extra = append(extra, x)
		}
		es = []buEntry{{extra[0].hash, int64(len(extra[0].data)), 0, extra[0].data}, es[0], {extra[1].hash, int64(len(extra[1].data)), 1, zwire(r, extra[1].data, "")}}
	}
	sts, st := f.batchUpdate(es)
	pos := 0
	if kind == "multi" {
		pos = 1
	}
	u.got = st
	if st == cOK {
		u.got = sts[pos]
	}
	var terms []string
	for i, e := range es {
		bd, logical := describe(e.wire, e.comp == 1, e.hash, false)
		if i == pos {
			u.logical = logical
			if e.comp > 1 {
				u.logical = nil
			}
		}
		terms = append(terms, fmt.Sprintf("mkBU false %s %s %s %s %s", CS(e.hash), CZ(e.size), compTerm(e.comp), bd.coq(), CS(nextRnd())))
	}
	u.info = kind == "zemptyframe" || kind == "zskippable"
	u.mustAccept = !u.info
	u.mention = []dg{u.decl}
	for _, x := range extra {
		u.mention = append(u.mention, dg{x.hash, int64(len(x.data))})
	}
	var stTerms []string
	for _, s := range sts {
		stTerms = append(stTerms, s.coq())
	}
	u.ops = append(u.ops, "FBatchUpdate "+CList(terms))
	u.obs = append(u.obs, fmt.Sprintf("OSts %s %s", st.coq(), CList(stTerms)))
	return u
}

// ---- 5/6 ByteStream.Write

func runBS(f *fixture, r *Rng, z bool, kind string, sz int) *ucase {
	dupsize := strings.HasPrefix(kind, "dupsize")
	if dupsize && sz < 2 {
		sz = 2 + r.Intn(40)
	}
	b := freshBlob(r, sz, r.Chance(30))
	gk := kind
	if dupsize {
		// the blob IS present, but under its own size: a Write that declares the same hash with
		// another size claims a digest that is NOT present and must not be acknowledged
		gk = "size" + strings.TrimPrefix(kind, "dupsize")
	}
	if sz == 0 && (kind == "flip" || kind == "truncate" || kind == "size-1") {
		gk = "none"
	}
	m := mutate(r, b, gk)
	u := &ucase{decl: m.decl}
	wire := m.payload
	if z {
		zk := ""
		if isZKind(kind) {
			zk = kind
		}
		wire = zwire(r, m.payload, zk)
	}
	if kind == "dup" || kind == "dupcorrupt" || dupsize {
		if st, _ := f.bsWrite([]wmsg{{bsWriteName(false, "", b.hash, int64(sz)), 0, b.data, true}}, -1); st != cOK {
			panic("dup: first upload failed: " + string(st))
		}
		u.preDup = !dupsize
		bd0, _ := describe(b.data, false, b.hash, false)
		u.ops = []string{fmt.Sprintf("FBsWrite (WN false %s %s) [mkWMsg true 0 %s true] false %s %s", CS(b.hash), CZ(int64(sz)), CZ(int64(sz)), bd0.coq(), CS(nextRnd()))}
		u.obs = []string{"OSt SOk"}
		if kind == "dupcorrupt" && len(wire) > 0 {
			wire = append([]byte{}, wire...)
			wire[r.Intn(len(wire))] ^= 0x20
		}
	}
	comp := "zstd"
	if kind == "unsupported" {
		comp = []string{"gzip", "deflate", "identity", "ZSTD"}[r.Intn(4)]
	}
	name := bsWriteName(z, comp, m.decl.hash, m.decl.size)
	// cut the wire into 1..4 messages (at most 1 MiB each)
	var pieces [][]byte
	rest := wire
	k := 1 + r.Intn(4)
	if forceMsgs > 0 {
		k = forceMsgs
	}
	for len(rest) > 1<<20 || (k > 1 && len(rest) > 0) {
		c := 1 + r.Intn(len(rest))
		if c > 1<<20 {
			c = 1 << 20
		}
		pieces = append(pieces, rest[:c])
		rest = rest[c:]
		k--
	}
	pieces = append(pieces, rest)
	var msgs []wmsg
	off := int64(0)
	for i, p := range pieces {
		nm := name
		if i > 0 && r.Chance(50) {
			nm = ""
		}
		msgs = append(msgs, wmsg{nm, off, p, i == len(pieces)-1})
		off += int64(len(p))
	}
	abortAfter := -1
	switch kind {
	case "abort":
		abortAfter = 1 + r.Intn(len(msgs))
		if abortAfter == len(msgs) {
			msgs[len(msgs)-1].fin = false
		}
	case "offset":
		msgs[0].off = 1 + int64(r.Intn(5))
	case "rename":
		if len(msgs) == 1 {
			msgs[0].fin = false
			msgs = append(msgs, wmsg{"", off, nil, true})
		}
		msgs[len(msgs)-1].name = bsWriteName(z, "zstd", genHash(r), m.decl.size)
	case "nofinish":
		msgs[len(msgs)-1].fin = false
	case "finearly":
		if len(msgs) == 1 {
			msgs = append(msgs, wmsg{"", 0, nil, true})
			msgs[0].data, msgs[1].data = wire[:len(wire)/2], wire[len(wire)/2:]
			msgs[1].off = int64(len(wire) / 2)
		}
		msgs[0].fin = true
	}
	u.got, _ = f.bsWrite(msgs, abortAfter)
	bd, logical := describe(wire, z, m.decl.hash, abortAfter >= 0)
	u.logical = logical
	switch kind {
	case "abort", "offset", "rename", "unsupported":
		u.logical = nil
	case "finearly":
		if len(msgs[0].data) < len(wire) {
			u.logical = nil
		}
	}
	u.info = kind == "zemptyframe" || kind == "zskippable"
	u.mustAccept = !u.info && kind != "finearly"
	u.mention = []dg{u.decl}
	if (b.hash != u.decl.hash || dupsize) && sz > 0 {
		u.mention = append(u.mention, dg{b.hash, int64(sz)})
	}
	nmTerm := fmt.Sprintf("WN %s %s %s", CB(z), CS(m.decl.hash), CZ(m.decl.size))
	if kind == "unsupported" {
		nmTerm = "WNBad"
	}
	var mt []string
	for i, mm := range msgs {
		if abortAfter >= 0 && i >= abortAfter {
			break
		}
		same := mm.name == "" || mm.name == msgs[0].name
		mt = append(mt, fmt.Sprintf("mkWMsg %s %s %s %s", CB(same), CZ(mm.off), CZ(int64(len(mm.data))), CB(mm.fin)))
	}
	u.ops = append(u.ops, fmt.Sprintf("FBsWrite (%s) %s %s %s %s", nmTerm, CList(mt), CB(abortAfter >= 0), bd.coq(), CS(nextRnd())))
	u.obs = append(u.obs, "OSt "+u.got.coq())
	return u
}

// ---- 7/8 SpliceBlob

var maxChunk int // > 0: no chunk larger than this

func runSplice(f *fixture, r *Rng, withDigest bool, kind string, sz int) *ucase {
	if sz < 4 {
		sz = 4 + r.Intn(50)
	}
	nch := 2 + r.Intn(2)
	if kind == "one" || sz < nch {
		nch = 1
	}
	mc := sz
	if maxChunk > 0 {
		mc = maxChunk
		for nch*mc < sz {
			nch++
		}
	}
	whole := freshBlob(r, sz, r.Chance(30))
	var chunks []*blob
	o := 0
	for i := 0; i < nch; i++ {
		rem, k := sz-o, nch-i
		lo, hi := rem-(k-1)*mc, rem-(k-1)
		if lo < 1 {
			lo = 1
		}
		if hi > mc {
			hi = mc
		}
		c := lo + r.Intn(hi-lo+1)
		chunks = append(chunks, regBlob(whole.data[o:o+c]))
		o += c
	}
	u := &ucase{decl: dg{whole.hash, int64(sz)}}
	u.preDup = nch == 1 // a single chunk IS the blob: it is present once the chunk is uploaded
	var pre []string // model ops for the preparatory uploads
	var preObs []string
	upload := func(b *blob) {
		sts, st := f.batchUpdate([]buEntry{{b.hash, int64(len(b.data)), 0, b.data}})
		if st != cOK || sts[0] != cOK {
			panic("splice: chunk upload failed")
		}
		bd, _ := describe(b.data, false, b.hash, false)
		pre = append(pre, fmt.Sprintf("FBatchUpdate [mkBU false %s %s CIdentity %s %s]", CS(b.hash), CZ(int64(len(b.data))), bd.coq(), CS(nextRnd())))
		preObs = append(preObs, "OSts SOk [SOk]")
	}
	uploaded := map[string]bool{}
	for i, c := range chunks {
		if kind == "missingchunk" && i == len(chunks)-1 {
			continue
		}
		if !uploaded[c.hash] {
			upload(c)
			uploaded[c.hash] = true
		}
	}
	var cds []dg
	for _, c := range chunks {
		cds = append(cds, dg{c.hash, int64(len(c.data))})
	}
	dfn := int32([]int{0, 1}[r.Intn(2)])
	logical := whole.data
	switch kind {
	case "missingchunk":
		logical = nil
	case "swapped":
		if nch >= 2 && !bytes.Equal(chunks[0].data, chunks[1].data) {
			cds[0], cds[1] = cds[1], cds[0]
			var cat []byte
			for _, d := range cds {
				cat = append(cat, byHash[d.hash].data...)
			}
			logical = cat
			regBlob(cat)
		}
	case "size+1":
		u.decl.size++
	case "size-1":
		u.decl.size--
	case "wronghash":
		u.decl.hash = genHash(r)
	case "otherhash":
		u.decl.hash = freshBlob(r, sz, false).hash
	case "chunksize+1":
		cds[r.Intn(len(cds))].size++
		logical = nil
	case "emptychunk":
		cds = append(cds, dg{emptySha, 0})
	case "overflow":
		cds = append(cds, dg{genHash(r), 1<<62 + 5}, dg{genHash(r), 1 << 62})
		logical = nil
	case "digestfn":
		dfn = []int32{2, 3, 9, 77}[r.Intn(4)]
		logical = nil
	case "nochunks":
		cds = nil
		logical = nil
	case "badchunkhash":
		cds[0].hash = strings.ToUpper(cds[0].hash)
		logical = nil
	case "dup":
		upload(whole)
		u.preDup = true
	}
	var blobArg *dg
	if withDigest {
		d := u.decl
		blobArg = &d
	} else if logical != nil {
		// the server computes the digest: what is claimed is what it returns
		u.decl = dg{sha(logical), int64(len(logical))}
	}
	got, ret := f.splice(dfn, cds, blobArg)
	u.got = got
	if got == cOK && (ret == nil || *ret != u.decl) {
		u.got = cls("other:9001") // OK with a digest other than the one claimed/computed
	}
	u.logical = logical
	u.mustAccept = kind != "emptychunk"
	u.mention = []dg{u.decl}
	if u.decl != (dg{whole.hash, int64(sz)}) {
		u.mention = append(u.mention, dg{whole.hash, int64(sz)})
	}
	var ct []string
	for _, d := range cds {
		ct = append(ct, fmt.Sprintf("mkChunk false %s %s", CS(d.hash), CZ(d.size)))
	}
	blobTerm := "None"
	if withDigest {
		blobTerm = fmt.Sprintf("(Some %s)", u.decl.coq())
	}
	computed, concatOK, cid := "", false, int64(0)
	if logical != nil {
		lb := regBlob(logical)
		computed, cid = lb.hash, lb.cid
		concatOK = lb.hash == u.decl.hash
	}
	u.ops = append(pre, fmt.Sprintf("FSplice %d %s %s %s %s %s %s", dfn, CList(ct), blobTerm, CS(computed), CB(concatOK), CZ(cid), CS(nextRnd())))
	u.obs = append(preObs, "OSt "+u.got.coq())
	return u
}

// ---- 9 blobs inlined in an uploaded ActionResult

var acAlone bool // no accompanying good blob in the same ActionResult

func runAC(f *fixture, r *Rng, kind string, sz int) *ucase {
	if sz == 0 {
		sz = 1
	}
	if sz > 1<<20 {
		sz = 1 << 20
	}
	target := "stdout"
	gk := kind
	switch {
	case strings.HasPrefix(kind, "file"):
		target = "file"
		gk = strings.TrimPrefix(strings.TrimPrefix(kind, "file"), "-")
	case strings.HasPrefix(kind, "stderr-"):
		target = "stderr"
		gk = strings.TrimPrefix(kind, "stderr-")
	}
	if gk == "" || gk == "nodigest" || gk == "two-bad-second" {
		gk = "none"
	}
	if sz < 2 && gk == "truncate" {
		sz = 2 // an empty field is no inlined blob at all
	}
	b := freshBlob(r, sz, r.Chance(30))
	m := mutate(r, b, gk)
	if gk == "truncate" {
		m.payload = b.data[:sz-1]
	}
	u := &ucase{decl: m.decl}
	it := inl{data: m.payload, digest: &dg{m.decl.hash, m.decl.size}}
	if kind == "nodigest" {
		it.digest = nil
	}
	var files []inl
	var so, se inl
	other := freshBlob(r, 1+r.Intn(200), false)
	good := inl{data: other.data, digest: &dg{other.hash, int64(len(other.data))}}
	includedGood := false
	switch target {
	case "stdout":
		so = it
		if r.Chance(50) && !acAlone {
			files = append(files, good)
			includedGood = true
		}
	case "stderr":
		se = it
		so = good
		includedGood = true
	case "file":
		files = []inl{it}
		if r.Chance(50) && !acAlone {
			so = good
			includedGood = true
		}
	}
	second := (*blob)(nil)
	if kind == "two-bad-second" {
		// stdout fine, stderr corrupt: the call must fail although stdout was already stored
		second = freshBlob(r, 50, false)
		bad := append([]byte{}, second.data...)
		bad[0] ^= 1
		se = inl{data: bad, digest: &dg{second.hash, 50}}
	}
	ahash := genHash(r)
	got, arlen := f.updateAR(ahash, 77, files, so, se)
	u.got = got
	u.logical = m.payload
	u.mustAccept = kind != "two-bad-second"
	if kind == "two-bad-second" {
		u.decl = dg{second.hash, 50}
		u.logical = nil
	}
	u.mention = []dg{u.decl, {b.hash, int64(sz)}}
	if includedGood {
		u.mention = append(u.mention, *good.digest)
	}
	it2term := func(x inl) string {
		if len(x.data) == 0 {
			return "mkInl false None \"\" (mkBody 0 0 true true) \"\""
		}
		dterm := "None"
		h := sha(x.data)
		if x.digest != nil {
			dterm = fmt.Sprintf("(Some %s)", x.digest.coq())
			h = x.digest.hash
		}
		bd, _ := describe(x.data, false, h, false)
		return fmt.Sprintf("mkInl true %s %s %s %s", dterm, CS(sha(x.data)), bd.coq(), CS(nextRnd()))
	}
	var ft []string
	for _, x := range files {
		ft = append(ft, it2term(x))
	}
	u.ops = []string{fmt.Sprintf("FUpdateAR %s 77 true %s (%s) (%s) %d %s", CS(ahash), CList(ft), it2term(so), it2term(se), arlen, CS(nextRnd()))}
	u.obs = []string{"OSt " + u.got.coq()}
	// a refused upload must not leave an action-cache entry behind (C11 / F5)
	if st, _ := f.head("ac", ahash); (st == cOK) != (got == cOK) {
		u.ops = append(u.ops, "FCaps")
		u.obs = append(u.obs, "OSt (SErr (EOther 9002))") // forces a visible mismatch
	}
	return u
}

// ---- 10 FetchBlob

func runFetch(f *fixture, r *Rng, kind string, sz int) *ucase {
	b := freshBlob(r, sz, r.Chance(30))
	u := &ucase{decl: dg{b.hash, int64(sz)}}
	served := b.data
	beh := &upBehaviour{data: served, cutAt: -1}
	sri := b.hash
	logical := b.data
	switch kind {
	case "none-chunked":
		beh.chunked = true
	case "nosri":
		sri = ""
	case "nosri-chunked":
		sri, beh.chunked = "", true
	case "flip", "flip-chunked":
		if sz > 0 {
			p := append([]byte{}, b.data...)
			p[r.Intn(len(p))] ^= 4
			beh.data, logical = p, p
		}
		beh.chunked = kind == "flip-chunked"
	case "truncate":
		if sz > 0 {
			beh.cutAt = r.Intn(sz)
			logical = nil
		}
	case "wronghash":
		sri = genHash(r)
		u.decl.hash = sri
	case "otherhash":
		sri = freshBlob(r, sz+1, false).hash
		u.decl.hash = sri
	case "up404":
		beh.status = 404 + 96*r.Intn(2)
		logical = nil
	}
	uri := f.upRegister(beh)
	uris := []string{uri}
	var ups []string
	upTerm := func(bh *upBehaviour, ok bool) string {
		if !ok || (bh.status != 0 && bh.status != 200) {
			return "mkUp false 0 (mkBody 0 0 false false) \"\" \"\""
		}
		cl := int64(len(bh.data))
		if bh.chunked {
			cl = -1
		}
		sent := bh.data
		if bh.cutAt >= 0 {
			sent = bh.data[:bh.cutAt]
		}
		h := sri
		bd, _ := describe(sent, false, h, bh.cutAt >= 0)
		return fmt.Sprintf("mkUp true %s %s %s %s", CZ(cl), bd.coq(), CS(sha(sent)), CS(nextRnd()))
	}
	switch kind {
	case "secondgood":
		uris = []string{f.up.URL + "/nothing-here", "ftp://example.invalid/x", uri}
		ups = []string{upTerm(nil, false), upTerm(nil, false)}
	case "cached":
		if sts, st := f.batchUpdate([]buEntry{{b.hash, int64(sz), 0, b.data}}); st != cOK || sts[0] != cOK {
			panic("cached: upload failed")
		}
		u.preDup = true
		uris = []string{f.up.URL + "/nothing-here"}
		ups = []string{upTerm(nil, false)}
	}
	if kind != "cached" {
		ups = append(ups, upTerm(beh, true))
	}
	got, ret := f.fetchBlob(sri, uris)
	u.got = got
	if sri == "" && logical != nil {
		u.decl = dg{sha(logical), int64(len(logical))} // the server computes the digest: claimed = returned
	}
	if got == cOK && (ret == nil || *ret != u.decl) {
		u.got = cls("other:9001")
	}
	u.logical = logical
	u.mustAccept = true
	u.mention = []dg{u.decl}
	if u.decl.hash != b.hash && sz > 0 {
		u.mention = append(u.mention, dg{b.hash, int64(sz)})
	}
	sriTerm := "None"
	if sri != "" {
		sriTerm = fmt.Sprintf("(Some %s)", CS(sri))
	}
	retTerm := "None"
	if ret != nil {
		retTerm = fmt.Sprintf("(Some %s)", ret.coq())
	}
	u.ops = []string{fmt.Sprintf("FFetch %s %s", sriTerm, CList(ups))}
	u.obs = []string{fmt.Sprintf("OFetched %s %s", got.coq(), retTerm)}
	if kind == "cached" {
		bd, _ := describe(b.data, false, b.hash, false)
		u.ops = append([]string{fmt.Sprintf("FBatchUpdate [mkBU false %s %s CIdentity %s %s]", CS(b.hash), CZ(int64(sz)), bd.coq(), CS(nextRnd()))}, u.ops...)
		u.obs = append([]string{"OSts SOk [SOk]"}, u.obs...)
	}
	return u
}
