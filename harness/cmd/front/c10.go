package main

// C10 on the front end: FindMissingBlobs must list exactly the request's absent digests, in request
// order, duplicates kept — with and without a backend.

import (
	"context"
	"fmt"
	"io"
	"strings"
	"sync"

	. "verifharness/hlib"

	"github.com/buchgr/bazel-remote/v2/cache"
)

// a backend that only answers Contains, from a table hash -> size
type tableProxy struct {
	mu  sync.Mutex
	has map[string]int64
}

func (p *tableProxy) Put(ctx context.Context, kind cache.EntryKind, hash string, logicalSize int64, sizeOnDisk int64, rc io.ReadCloser) {
	_ = rc.Close()
}
func (p *tableProxy) Get(ctx context.Context, kind cache.EntryKind, hash string, size int64) (io.ReadCloser, int64, error) {
	return nil, -1, nil
}
func (p *tableProxy) holds(hash string, size int64) bool {
	p.mu.Lock()
	defer p.mu.Unlock()
	v, ok := p.has[hash]
	return ok && (size < 0 || v == size)
}
func (p *tableProxy) Contains(ctx context.Context, kind cache.EntryKind, hash string, size int64) (bool, int64) {
	if kind == cache.CAS && p.holds(hash, size) {
		return true, p.has[hash]
	}
	return false, -1
}

const c10MaxProxy = 5000

var c10Lengths = []int{0, 1, 19, 20, 21, 40, 41, 45, 150}

func runC10(e *env, n int) {
	r := e.r
	defer func() { fxProxy, fxMaxProxy = nil, 0 }()
	for ci := 0; len(e.cases) < n; ci++ {
		withProxy := (ci+int(e.rep.Seed))%2 == 0
		var px *tableProxy
		fxProxy, fxMaxProxy = nil, 0
		if withProxy {
			px = &tableProxy{has: map[string]int64{}}
			fxProxy, fxMaxProxy = px, c10MaxProxy
		}
		f := newFixture([]string{"zstd", "uncompressed"}[r.Intn(2)], []string{"go", "cgo"}[r.Intn(2)], bigLimit)
		c := &rcase{f: f, nontriv: true}
		cfg := f.cfgTerm()
		if withProxy {
			cfg = fmt.Sprintf("(wired_proxy %s %s %d)", CB(f.mode == "zstd"), CZ(f.limit), c10MaxProxy)
		}
		// ---- the universe
		local := map[string]int64{}
		var locals, backends, oversize, absents []dg
		for i := 0; i < 6; i++ {
			b := freshBlob(r, []int{1, 37, 100, 700, 4096, 6000}[i], false)
			sts, st := f.batchUpdate([]buEntry{{b.hash, int64(len(b.data)), 0, b.data}})
			if st != cOK || sts[0] != cOK {
				panic("c10: upload failed")
			}
			bd, _ := describe(b.data, false, b.hash, false)
			c.ops = append(c.ops, fmt.Sprintf("FBatchUpdate [mkBU false %s %s CIdentity %s %s]", CS(b.hash), CZ(int64(len(b.data))), bd.coq(), CS(nextRnd())))
			c.obs = append(c.obs, "OSts SOk [SOk]")
			local[b.hash] = int64(len(b.data))
			locals = append(locals, dg{b.hash, int64(len(b.data))})
		}
		for i := 0; i < 5; i++ {
			d := dg{genHash(r), []int64{3, 250, 4999, 5000, 1200}[i]}
			backends = append(backends, d)
			if px != nil {
				px.has[d.hash] = d.size
			}
		}
		for i := 0; i < 2; i++ { // held by the backend but larger than max_proxy_blob_size
			d := dg{genHash(r), []int64{5001, 70000}[i]}
			oversize = append(oversize, d)
			if px != nil {
				px.has[d.hash] = d.size
			}
		}
		for i := 0; i < 6; i++ {
			absents = append(absents, dg{genHash(r), int64(1 + r.Intn(9000))})
		}
		pick := func() (dg, string) {
			switch p := r.Intn(100); {
			case p < 30:
				return locals[r.Intn(len(locals))], "L"
			case p < 48:
				return backends[r.Intn(len(backends))], "B"
			case p < 56:
				return oversize[r.Intn(len(oversize))], "O"
			case p < 76:
				return absents[r.Intn(len(absents))], "A"
			case p < 84: // a stored hash under another size
				d := locals[r.Intn(len(locals))]
				d.size += []int64{1, -1, 7}[r.Intn(3)]
				if d.size <= 0 {
					d.size = 2
				}
				return d, "l"
			case p < 90: // a backend-held hash under another size
				d := backends[r.Intn(len(backends))]
				d.size += []int64{1, -1}[r.Intn(2)]
				return d, "b"
			default:
				return dg{emptySha, 0}, "E"
			}
		}
		request := func(length int, malformed string) {
			var ds []dg
			var comp []string
			for len(ds) < length {
				d, k := pick()
				ds = append(ds, d)
				comp = append(comp, k)
				// duplicates: adjacent, and far apart (possibly across the batch boundary of 20)
				if len(ds) < length && r.Chance(15) {
					ds = append(ds, d)
					comp = append(comp, k)
				}
				if len(ds) < length && len(ds) > 3 && r.Chance(12) {
					j := r.Intn(len(ds))
					ds = append(ds, ds[j])
					comp = append(comp, comp[j])
				}
			}
			if length >= 21 { // one exact duplicate and one same-hash-other-size pair astride the boundary
				ds[20], comp[20] = ds[19], comp[19]
				if length >= 41 {
					ds[40] = dg{ds[39].hash, ds[39].size + 1}
					if ds[40].hash == emptySha {
						ds[40] = ds[39]
					}
				}
			}
			switch malformed {
			case "badhash":
				ds[r.Intn(len(ds))].hash = strings.ToUpper(genHash(r))
			case "shorthash":
				ds[r.Intn(len(ds))].hash = genHash(r)[:63]
			case "zerosize":
				ds[r.Intn(len(ds))] = dg{genHash(r), 0}
			case "negsize":
				j := r.Intn(len(ds))
				ds[j].size = -1 - int64(r.Intn(5))
				if ds[j].hash == emptySha {
					ds[j].hash = genHash(r)
				}
			}
			missing, st := f.findMissing(ds)
			// the backend's answer column, and the property's expected answer
			var bs []string
			var want []dg
			for _, d := range ds {
				yes := px != nil && px.holds(d.hash, d.size)
				if yes {
					bs = append(bs, fmt.Sprintf("BHasYes %s", CZ(px.has[d.hash])))
				} else {
					bs = append(bs, "BHasNo")
				}
				present := d == (dg{emptySha, 0}) || local[d.hash] == d.size && d.size > 0 || (yes && d.size <= c10MaxProxy && d.size >= 0)
				if !present {
					want = append(want, d)
				}
			}
			c.ops = append(c.ops, fmt.Sprintf("FFindMissingB %s %s", dgList(ds), CList(bs)))
			if st == cOK {
				c.obs = append(c.obs, "OMiss "+dgList(missing))
			} else {
				c.obs = append(c.obs, "OSt "+st.coq())
			}
			e.rep.Evaluations++
			lc := fmt.Sprintf("%d", length)
			e.rep.Count(fmt.Sprintf("c10.len%s.proxy=%v.%s%s", lc, withProxy, malformed, st))
			e.rep.DistinctCase(fmt.Sprintf("c10|%s|%v|%s|%s|%s", lc, withProxy, malformed, strings.Join(comp, ""), st))
			c.texts = append(c.texts, fmt.Sprintf("FindMissingBlobs(%d digests %s%s) -> %s, %d missing", length, strings.Join(comp, ""), malformed, st, len(missing)))
			switch malformed {
			case "badhash", "shorthash", "zerosize":
				if st != cBad {
					c.fail("C10 FindMissingBlobs with a malformed digest (%s) answered %s instead of InvalidArgument", malformed, st)
				}
			case "negsize":
				e.rep.Count("c10.negative-size." + string(st)) // not rejected by the handler: counted, not judged
			default:
				if st != cOK {
					c.fail("C10 FindMissingBlobs of %d well-formed digests failed: %s", length, st)
				} else if dgList(missing) != dgList(want) {
					c.fail("C10 FindMissingBlobs does not report exactly the absent digests in request order with duplicates kept: %d digests asked (%s), %d reported missing, %d are absent; reported %v, absent %v",
						length, strings.Join(comp, ""), len(missing), len(want), missing, want)
				}
			}
		}
		// every length class once, then malformed requests
		start := r.Intn(len(c10Lengths))
		for k := range c10Lengths {
			request(c10Lengths[(start+k)%len(c10Lengths)], "")
		}
		for _, m := range []string{"badhash", "shorthash", "zerosize", "negsize"} {
			request(1+r.Intn(30), m)
		}
		text := f.label() + fmt.Sprintf(" backend=%v", withProxy)
		for _, t := range c.texts {
			text += " ; " + t
		}
		idx := len(e.cases)
		// hashes occur hundreds of times in a case: bind each once (Coq parses string literals slowly)
		body := fmt.Sprintf("(%s,\n  %s,\n  %s)", cfg, CList(c.ops), CList(c.obs))
		var lets strings.Builder
		k := 0
		bind := func(h string) {
			lit := CS(h)
			if strings.Count(body, lit) > 1 {
				name := fmt.Sprintf("h%d_", k)
				k++
				body = strings.ReplaceAll(body, lit, name)
				fmt.Fprintf(&lets, "let %s := %s in\n", name, lit)
			}
		}
		for _, l := range [][]dg{locals, backends, oversize, absents, {{emptySha, 0}}} {
			for _, d := range l {
				bind(d.hash)
			}
		}
		e.cases = append(e.cases, "("+lets.String()+body+")")
		e.rep.CaseTexts = append(e.rep.CaseTexts, text)
		e.rep.DistinctCase(text)
		if len(e.rep.Samples) < 3 {
			e.rep.Samples = append(e.rep.Samples, text[:min(len(text), 600)])
		}
		for _, m := range c.fails {
			e.rep.Fail(idx, m, text)
		}
		f.close()
	}
}
