package main

func runC02(e *env, n int) {}
