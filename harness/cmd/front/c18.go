package main

// C18: max_blob_size on every write path (limit-1, limit, limit+1, far above), GetCapabilities.

import (
	"fmt"
	"strings"

	. "verifharness/hlib"
)

var c18Rels = []string{"L-1", "L", "L+1", "2L+5", "lie"}

func runC18(e *env, n int) {
	r := e.r
	forceCompressible = true
	defer func() { forceCompressible = false }()
	// GetCapabilities advertises the wired limit
	for _, f := range e.fx {
		got, st := f.capsMax()
		text := fmt.Sprintf("%s GetCapabilities -> %s max_cas_blob_size_bytes=%d", f.label(), st, got)
		idx := e.addCase(f, []string{"FCaps"}, []string{fmt.Sprintf("OCap %s", CZ(got))}, text, true)
		e.rep.Evaluations++
		e.rep.Count("c18.caps")
		if st != cOK || got != f.limit {
			e.rep.Fail(idx, "C18 GetCapabilities does not advertise the configured max_blob_size", text)
		}
	}
	// a seed-dependent walk through fixtures x paths x sizes (stride coprime with the period)
	period := len(e.fx) * len(pathOrder) * len(c18Rels)
	start := r.Intn(period)
	for i := 0; len(e.cases) < n && i < 8*period; i++ {
		idx := (start + i*37) % period
		f := e.fx[idx%len(e.fx)]
		path := pathOrder[(idx/len(e.fx))%len(pathOrder)]
		rel := c18Rels[idx/(len(e.fx)*len(pathOrder))]
		L := int(f.limit)
		sz := map[string]int{"L-1": L - 1, "L": L, "L+1": L + 1, "2L+5": 2*L + 5, "lie": L + 1}[rel]
		kind := "none"
		if rel == "lie" {
			// a compressed upload that DECLARES the limit but carries limit+1 logical bytes
			if path != "httpz" && path != "batchz" && path != "bsz" {
				continue
			}
			kind = "size-1"
		}
		if path == "ac" && rel == "L-1" && r.Chance(50) {
			sz = L - 400 // leaves room for the ActionResult that carries the blob
		}
		before := f.numItems()
		var u *ucase
		switch path {
		case "http", "httpz":
			u = runHTTP(f, r, path == "httpz", kind, sz)
		case "batch", "batchz":
			u = runBatch(f, r, path == "batchz", kind, sz)
		case "bs", "bsz":
			u = runBS(f, r, path == "bsz", kind, sz)
		case "splice", "splicenod":
			before = -1
			maxChunk = L
			u = runSplice(f, r, path == "splice", kind, sz)
		case "ac":
			acAlone = true
			u = runAC(f, r, kind, sz)
		case "fetch":
			u = runFetch(f, r, []string{"none", "none-chunked", "nosri", "nosri-chunked"}[r.Intn(4)], sz)
		}
		u.path, u.kind, u.n = path, kind, sz
		judgeC18(e, f, u, rel, before)
	}
	c18BackendHeld(e)
}

// c18BackendHeld: the limit must not depend on the state of a proxy backend.  One more fixture per storage
// mode whose backend (max_proxy_blob_size unlimited) reports the blob present; an upload of that blob, larger
// than max_blob_size, through every path that declares a digest is still refused with a client error and
// leaves nothing behind.  Direct oracle only (the wired configuration term of the model has no backend).
func c18BackendHeld(e *env) {
	r := e.r
	px := &tableProxy{has: map[string]int64{}}
	fxProxy, fxMaxProxy = px, 1<<40
	defer func() { fxProxy, fxMaxProxy = nil, 0 }()
	for _, mode := range []string{"zstd", "uncompressed"} {
		L := int64(3000 + r.Intn(2000))
		f := newFixture(mode, []string{"go", "cgo"}[r.Intn(2)], L)
		for _, over := range []int64{1, 5, 4000} {
			for _, path := range []string{"bs", "bsz", "http", "httpz", "batch", "batchz"} {
				b := freshBlob(r, int(L+over), true)
				px.mu.Lock()
				px.has[b.hash] = L + over
				px.mu.Unlock()
				before := f.numItems()
				z := strings.HasSuffix(path, "z")
				wire := b.data
				if z {
					wire = zwire(r, b.data, "")
				}
				var got cls
				switch path {
				case "bs", "bsz":
					got, _ = f.bsWrite([]wmsg{{bsWriteName(z, "zstd", b.hash, L+over), 0, wire, true}}, -1)
				case "http", "httpz":
					o := httpOpts{abortAt: -1}
					if z {
						o.ce, o.xdigest = "zstd", fmt.Sprintf("%d", L+over) // the logical size is declared
					}
					got = f.httpPut(b.hash, wire, o)
				default:
					comp := int32(0)
					if z {
						comp = 3
					}
					per, st := f.batchUpdate([]buEntry{{b.hash, L + over, comp, wire}})
					got = st
					if st == cOK && len(per) == 1 {
						got = per[0]
					}
				}
				text := fmt.Sprintf("%s backend holds %s/%d (max_proxy_blob_size unlimited); upload of that blob through %s, max_blob_size %d -> %s; local items %d -> %d",
					f.label(), b.hash, L+over, path, L, got, before, f.numItems())
				e.rep.Evaluations++
				e.rep.Count("c18.backend-held." + path + "." + string(got))
				if got != cBad {
					e.rep.Fail(0, fmt.Sprintf("C18 item larger than max_blob_size that the proxy backend already holds answered with %s instead of a client error (path %s)", got, path), text)
				}
				if f.numItems() != before {
					e.rep.Fail(0, "C18 refused oversize upload of a backend-held blob changed the number of stored items", text)
				}
			}
		}
		f.close()
	}
}

func judgeC18(e *env, f *fixture, u *ucase, rel string, before int) {
	rep := e.rep
	L := f.limit
	n := int64(u.n) // logical size of the item
	missing, mst := f.findMissing(u.mention)
	u.ops = append(u.ops, "FFindMissing "+dgList(u.mention))
	if mst == cOK {
		u.obs = append(u.obs, "OMiss "+dgList(missing))
	} else {
		u.obs = append(u.obs, "OSt "+mst.coq())
	}
	blobDigest := dg{sha(u.logical), n}
	blobMissing := false
	for _, d := range missing {
		if d.hash == blobDigest.hash {
			blobMissing = true
		}
	}
	after := f.numItems()
	text := fmt.Sprintf("%s path=%s size=%s (%d bytes, limit %d) declared=%s/%d -> %s; items %d -> %d; missing afterwards=%v", f.label(), u.path, rel, n, L,
		u.decl.hash, u.decl.size, u.got, before, after, missing)
	idx := e.addCase(f, u.ops, u.obs, text, rel != "L-1")
	rep.Evaluations += 2
	rep.Count("c18." + u.path + "." + rel + "." + string(u.got))
	rep.DistinctCase(fmt.Sprintf("%s|%s|%d|%s|%s", u.path, rel, L, f.mode, u.got))
	switch {
	case n > L:
		want := cBad // HTTP 400 / InvalidArgument
		if u.path == "fetch" {
			want = cMiss // FetchBlob reports every failed fetch, also a refused store, as NOT_FOUND
		}
		if rel == "lie" {
			if u.got == cOK {
				rep.Fail(idx, fmt.Sprintf("C18 item of logical size %d > max_blob_size %d accepted (path %s, declared size %d)", n, L, u.path, u.decl.size), text)
			}
		} else if u.got != want {
			rep.Fail(idx, fmt.Sprintf("C18 item larger than max_blob_size answered with %s instead of a client error (path %s)", u.got, u.path), text)
		}
		if !blobMissing {
			rep.Fail(idx, fmt.Sprintf("C18 item larger than max_blob_size is present afterwards (path %s)", u.path), text)
		}
		if before >= 0 && after != before {
			rep.Fail(idx, fmt.Sprintf("C18 refused oversize item changed the number of stored items (path %s)", u.path), text)
		}
	case u.path == "ac" && n+400 > L:
		// the ActionResult that carries the blob is itself an item larger than the limit: it is
		// refused, but the blob (within the limit) may be stored
		if u.got != cOK && u.got != cBad {
			rep.Fail(idx, "C18 ActionResult around the limit answered with "+string(u.got), text)
		}
		rep.Count("c18.ac.carrier-over-limit." + string(u.got))
	default:
		if u.got != cOK {
			rep.Fail(idx, fmt.Sprintf("C18 item within max_blob_size (size %d, limit %d) refused with %s (path %s)", n, L, u.got, u.path), text)
		} else if blobMissing {
			rep.Fail(idx, fmt.Sprintf("C18 accepted item within the limit is missing afterwards (path %s)", u.path), text)
		}
	}
}
