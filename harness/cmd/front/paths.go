package main

// The ten write paths, as a client sees them.  Every function performs ONE request against the
// fixture and returns the observed status class (plus what else the reply carries).

import (
	"bufio"
	"bytes"
	"encoding/base64"
	"encoding/hex"
	"fmt"
	"io"
	"net"
	"net/http"
	"strings"
	"time"

	. "verifharness/hlib"

	asset "github.com/buchgr/bazel-remote/v2/genproto/build/bazel/remote/asset/v1"
	pb "github.com/buchgr/bazel-remote/v2/genproto/build/bazel/remote/execution/v2"

	"google.golang.org/genproto/googleapis/bytestream"
	"google.golang.org/protobuf/proto"
)

// ---- abstract payload descriptor for the model

type body struct {
	cid    int64
	length int64
	clean  bool
	hashOK bool
}

func (b body) coq() string {
	return fmt.Sprintf("(mkBody %s %s %s %s)", CZ(b.cid), CZ(b.length), CB(b.clean), CB(b.hashOK))
}

// what the wire bytes mean: identity = themselves; zstd = what an independent decoder makes of them
func describe(wire []byte, zstdEnc bool, declHash string, aborted bool) (body, []byte) {
	if !zstdEnc {
		b := regBlob(wire)
		return body{b.cid, int64(len(wire)), !aborted, b.hash == declHash}, wire
	}
	logical, err := zdecGo.DecodeAll(wire)
	if err != nil {
		return body{0, 0, false, false}, nil
	}
	if logical == nil {
		logical = []byte{}
	}
	b := regBlob(logical)
	return body{b.cid, int64(len(logical)), !aborted, b.hash == declHash}, logical
}

// ---- 1/2: HTTP PUT

type httpOpts struct {
	ce      string // Content-Encoding header ("" = absent)
	xdigest string // X-Digest-SizeBytes header ("" = absent)
	chunked bool   // no Content-Length
	abortAt int    // >= 0: announce len(wire), send abortAt bytes, close
	kind    string // "cas" or "ac"
}

func (f *fixture) httpPut(hash string, wire []byte, o httpOpts) cls {
	kind := o.kind
	if kind == "" {
		kind = "cas"
	}
	if o.abortAt >= 0 {
		conn, err := net.Dial("tcp", strings.TrimPrefix(f.hs.URL, "http://"))
		if err != nil {
			panic(err)
		}
		defer func() { _ = conn.Close() }()
		hdr := fmt.Sprintf("PUT /%s/%s HTTP/1.1\r\nHost: x\r\nContent-Length: %d\r\n", kind, hash, len(wire))
		if o.ce != "" {
			hdr += "Content-Encoding: " + o.ce + "\r\n"
		}
		if o.xdigest != "" {
			hdr += "X-Digest-SizeBytes: " + o.xdigest + "\r\n"
		}
		_, _ = conn.Write([]byte(hdr + "\r\n"))
		_, _ = conn.Write(wire[:o.abortAt])
		if tc, ok := conn.(*net.TCPConn); ok {
			_ = tc.CloseWrite()
		}
		_ = conn.SetReadDeadline(time.Now().Add(60 * time.Second))
		resp, err := http.ReadResponse(bufio.NewReader(conn), nil)
		if err != nil {
			return cNoReply
		}
		_ = resp.Body.Close()
		return httpCls(resp.StatusCode)
	}
	var rd io.Reader = bytes.NewReader(wire)
	if o.chunked {
		rd = struct{ io.Reader }{rd}
	}
	req, err := http.NewRequest(http.MethodPut, f.hs.URL+"/"+kind+"/"+hash, rd)
	if err != nil {
		panic(err)
	}
	if o.chunked {
		req.ContentLength = -1
	}
	if o.ce != "" {
		req.Header.Set("Content-Encoding", o.ce)
	}
	if o.xdigest != "" {
		req.Header.Set("X-Digest-SizeBytes", o.xdigest)
	}
	resp, err := http.DefaultClient.Do(req)
	if err != nil {
		return cNoReply
	}
	_, _ = io.Copy(io.Discard, resp.Body)
	_ = resp.Body.Close()
	return httpCls(resp.StatusCode)
}

func ceTerm(ce string) string {
	switch ce {
	case "":
		return "CeNone"
	case "identity":
		return "CeIdentity"
	case "zstd":
		return "CeZstd"
	}
	return "CeOther"
}

// ---- 3/4: BatchUpdateBlobs

type buEntry struct {
	hash string
	size int64
	comp int32
	wire []byte
}

func (f *fixture) batchUpdate(es []buEntry) ([]cls, cls) {
	var req pb.BatchUpdateBlobsRequest
	for _, e := range es {
		req.Requests = append(req.Requests, &pb.BatchUpdateBlobsRequest_Request{
			Digest: &pb.Digest{Hash: e.hash, SizeBytes: e.size}, Data: e.wire, Compressor: pb.Compressor_Value(e.comp)})
	}
	ctx, cancel := ctx5()
	defer cancel()
	resp, err := f.cas.BatchUpdateBlobs(ctx, &req)
	if err != nil {
		return nil, grpcCls(err)
	}
	var out []cls
	for _, r := range resp.Responses {
		out = append(out, codeCls(codesOf(r.GetStatus().GetCode())))
	}
	return out, cOK
}

func compTerm(c int32) string {
	switch c {
	case 0:
		return "CIdentity"
	case 1:
		return "CZstd"
	}
	return fmt.Sprintf("(COther %d)", c)
}

// ---- 5/6: ByteStream.Write

type wmsg struct {
	name string
	off  int64
	data []byte
	fin  bool
}

// abortAfter >= 0: cancel the call after that many messages
func (f *fixture) bsWrite(msgs []wmsg, abortAfter int) (cls, int64) {
	ctx, cancel := ctx5()
	defer cancel()
	w, err := f.bs.Write(ctx)
	if err != nil {
		return grpcCls(err), 0
	}
	for i, m := range msgs {
		if abortAfter >= 0 && i == abortAfter {
			cancel()
			_, err := w.CloseAndRecv()
			if err == nil {
				return cOK, 0
			}
			return cNoReply, 0
		}
		if err := w.Send(&bytestream.WriteRequest{ResourceName: m.name, WriteOffset: m.off, Data: m.data, FinishWrite: m.fin}); err != nil {
			break // io.EOF: the server has already answered
		}
	}
	if abortAfter >= len(msgs) {
		cancel()
	}
	resp, err := w.CloseAndRecv()
	if err != nil {
		return grpcCls(err), 0
	}
	return cOK, resp.CommittedSize
}

func bsWriteName(z bool, comp, hash string, size int64) string {
	n := "inst/uploads/123e4567-e89b-12d3-a456-426614174000/"
	if z {
		return n + "compressed-blobs/" + comp + "/" + hash + fmt.Sprintf("/%d", size)
	}
	return n + "blobs/" + hash + fmt.Sprintf("/%d", size)
}

// ---- 7/8: SpliceBlob

func (f *fixture) splice(dfn int32, chunks []dg, blob *dg) (cls, *dg) {
	req := pb.SpliceBlobRequest{DigestFunction: pb.DigestFunction_Value(dfn)}
	for _, c := range chunks {
		req.ChunkDigests = append(req.ChunkDigests, &pb.Digest{Hash: c.hash, SizeBytes: c.size})
	}
	if blob != nil {
		req.BlobDigest = &pb.Digest{Hash: blob.hash, SizeBytes: blob.size}
	}
	ctx, cancel := ctx5()
	defer cancel()
	resp, err := f.cas.SpliceBlob(ctx, &req)
	if err != nil {
		return grpcCls(err), nil
	}
	if resp.BlobDigest == nil {
		return cOK, nil
	}
	return cOK, &dg{resp.BlobDigest.Hash, resp.BlobDigest.SizeBytes}
}

// ---- 9: blobs inlined in an uploaded ActionResult

type inl struct {
	data   []byte
	digest *dg
}

func (f *fixture) updateAR(ahash string, asize int64, files []inl, stdout, stderr inl) (cls, int) {
	ar := &pb.ActionResult{ExitCode: 0}
	for i, fl := range files {
		of := &pb.OutputFile{Path: fmt.Sprintf("out/f%d", i), Contents: fl.data}
		if fl.digest != nil {
			of.Digest = &pb.Digest{Hash: fl.digest.hash, SizeBytes: fl.digest.size}
		}
		ar.OutputFiles = append(ar.OutputFiles, of)
	}
	ar.StdoutRaw = stdout.data
	if stdout.digest != nil {
		ar.StdoutDigest = &pb.Digest{Hash: stdout.digest.hash, SizeBytes: stdout.digest.size}
	}
	ar.StderrRaw = stderr.data
	if stderr.digest != nil {
		ar.StderrDigest = &pb.Digest{Hash: stderr.digest.hash, SizeBytes: stderr.digest.size}
	}
	ctx, cancel := ctx5()
	defer cancel()
	// the size of what the server stores under ac/: the message with the worker name it adds
	stored := proto.Clone(ar).(*pb.ActionResult)
	stored.ExecutionMetadata = &pb.ExecutedActionMetadata{Worker: "bufconn"}
	_, err := f.ac.UpdateActionResult(ctx, &pb.UpdateActionResultRequest{
		ActionDigest: &pb.Digest{Hash: ahash, SizeBytes: asize}, ActionResult: ar})
	return grpcCls(err), proto.Size(stored)
}

// ---- 10: Remote Asset FetchBlob

func sriOf(hexHash string) string {
	raw, err := hex.DecodeString(hexHash)
	if err != nil {
		panic(err)
	}
	return "sha256-" + base64.StdEncoding.EncodeToString(raw)
}

func (f *fixture) fetchBlob(sriHash string, uris []string) (cls, *dg) {
	req := asset.FetchBlobRequest{Uris: uris}
	if sriHash != "" {
		req.Qualifiers = []*asset.Qualifier{{Name: "checksum.sri", Value: sriOf(sriHash)}}
	}
	ctx, cancel := ctx5()
	defer cancel()
	resp, err := f.asset.FetchBlob(ctx, &req)
	if err != nil {
		return grpcCls(err), nil
	}
	c := codeCls(codesOf(resp.GetStatus().GetCode()))
	if resp.BlobDigest == nil {
		return c, nil
	}
	return c, &dg{resp.BlobDigest.Hash, resp.BlobDigest.SizeBytes}
}

// ---- GetCapabilities

func (f *fixture) capsMax() (int64, cls) {
	ctx, cancel := ctx5()
	defer cancel()
	resp, err := f.caps.GetCapabilities(ctx, &pb.GetCapabilitiesRequest{})
	if err != nil {
		return 0, grpcCls(err)
	}
	return resp.GetCacheCapabilities().GetMaxCasBlobSizeBytes(), cOK
}
