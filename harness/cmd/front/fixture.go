package main

// The server under test: a real disk cache in a temp dir behind the real HTTP handler (served by
// net/http on loopback) and the real gRPC services (bufconn), plus a local "upstream" web server
// for the Remote Asset API.

import (
	"bytes"
	"context"
	"crypto/sha256"
	"encoding/hex"
	"fmt"
	"io"
	"log"
	"net"
	"net/http"
	"net/http/httptest"
	"os"
	"strings"
	"sync"
	"time"

	. "verifharness/hlib"

	"github.com/buchgr/bazel-remote/v2/cache"
	"github.com/buchgr/bazel-remote/v2/cache/disk"
	"github.com/buchgr/bazel-remote/v2/cache/disk/zstdimpl"
	asset "github.com/buchgr/bazel-remote/v2/genproto/build/bazel/remote/asset/v1"
	pb "github.com/buchgr/bazel-remote/v2/genproto/build/bazel/remote/execution/v2"
	"github.com/buchgr/bazel-remote/v2/server"

	"github.com/klauspost/compress/zstd"
	"google.golang.org/genproto/googleapis/bytestream"
	"google.golang.org/grpc"
	"google.golang.org/grpc/codes"
	"google.golang.org/grpc/credentials/insecure"
	"google.golang.org/grpc/status"
	"google.golang.org/grpc/test/bufconn"
)

const emptySha = "e3b0c44298fc1c149afbf4c8996fb92427ae41e4649b934ca495991b7852b855"
const maxSizeBytes = 1 << 30 // cache size: no eviction pressure in these drivers
const bigLimit = 8 << 20     // max_blob_size of the c01/c02 fixtures

func sha(b []byte) string { h := sha256.Sum256(b); return hex.EncodeToString(h[:]) }

var zenc, _ = zstd.NewWriter(nil)
var zdecGo, _ = zstdimpl.Get("go")
var zdecCgo, _ = zstdimpl.Get("cgo")

// ---- status classes (what the model predicts)

type cls string

const (
	cOK      cls = "ok"
	cBad     cls = "bad"      // HTTP 400 / InvalidArgument
	cMiss    cls = "notfound" // HTTP 404 / NotFound
	cRange   cls = "range"    // OutOfRange
	cInt     cls = "internal" // HTTP 500 / Internal / Unknown / DataLoss
	cInsuff  cls = "insufficient"
	cNoReply cls = "noreply" // the client gave up (cancelled / connection closed): no server status seen
)

func (c cls) coq() string {
	switch c {
	case cOK:
		return "SOk"
	case cBad:
		return "(SErr EBadRequest)"
	case cMiss:
		return "(SErr ENotFound)"
	case cRange:
		return "(SErr EOutOfRange)"
	case cInt:
		return "(SErr EInternal)"
	case cInsuff:
		return "(SErr EInsufficient)"
	case cNoReply:
		return "SNoReply"
	}
	return fmt.Sprintf("(SErr (EOther %s))", strings.TrimPrefix(string(c), "other:"))
}
func httpCls(code int) cls {
	switch code {
	case 200:
		return cOK
	case 400:
		return cBad
	case 404:
		return cMiss
	case 500:
		return cInt
	case 507:
		return cInsuff
	}
	return cls(fmt.Sprintf("other:%d", code))
}
func codeCls(c codes.Code) cls {
	switch c {
	case codes.OK:
		return cOK
	case codes.InvalidArgument:
		return cBad
	case codes.NotFound:
		return cMiss
	case codes.OutOfRange:
		return cRange
	case codes.Internal, codes.Unknown, codes.DataLoss:
		return cInt
	case codes.ResourceExhausted:
		return cInsuff
	case codes.Canceled, codes.DeadlineExceeded:
		return cNoReply
	}
	return cls(fmt.Sprintf("other:%d", 1000+int(c)))
}
func grpcCls(err error) cls { return codeCls(status.Code(err)) }

// ---- blobs

type blob struct {
	data []byte
	hash string
	cid  int64
}

var cidCtr int64
var byHash = map[string]*blob{}

func regBlob(data []byte) *blob {
	h := sha(data)
	if b, ok := byHash[h]; ok {
		return b
	}
	b := &blob{data: data, hash: h}
	if len(data) > 0 {
		cidCtr++
		b.cid = cidCtr
	}
	byHash[h] = b
	return b
}

var forceCompressible bool

// a fresh blob of n bytes; compressible ones are mostly text
func freshBlob(r *Rng, n int, compressible bool) *blob {
	var d []byte
	compressible = compressible || forceCompressible
	if compressible && n > 16 {
		d = bytes.Repeat([]byte("bazel-remote front "), n/19+1)[:n]
		copy(d, r.Bytes(12))
	} else {
		d = r.Bytes(n)
	}
	if n == 0 {
		return regBlob([]byte{})
	}
	// never a content used before in this run (one-byte blobs run out after 256)
	for try := 0; try < 2000; try++ {
		if _, used := byHash[sha(d)]; !used {
			return regBlob(d)
		}
		if try > 600 {
			d = append(d, 0)
		}
		copy(d, r.Bytes(len(d)))
	}
	panic("no fresh blob")
}

const hexd = "0123456789abcdef"

func genHash(r *Rng) string {
	b := make([]byte, 64)
	for i := range b {
		b[i] = hexd[r.Intn(16)]
	}
	return string(b)
}

var rndCtr int

func nextRnd() string { rndCtr++; return fmt.Sprintf("r%d", rndCtr) }

// ---- upstream web server for FetchBlob

type upBehaviour struct {
	data    []byte
	chunked bool // no Content-Length
	status  int
	cutAt   int // >= 0: announce len(data) but close the connection after cutAt bytes
}

type fixture struct {
	mode, impl string
	limit      int64
	dir        string
	c          disk.Cache
	hs         *httptest.Server
	up         *httptest.Server
	upMu       sync.Mutex
	upBlobs    map[string]*upBehaviour
	srv        *grpc.Server
	conn       *grpc.ClientConn
	bs         bytestream.ByteStreamClient
	cas        pb.ContentAddressableStorageClient
	ac         pb.ActionCacheClient
	caps       pb.CapabilitiesClient
	asset      asset.FetchClient
}

func (f *fixture) cfgTerm() string {
	return fmt.Sprintf("(wired %s %s)", CB(f.mode == "zstd"), CZ(f.limit))
}
func (f *fixture) label() string { return fmt.Sprintf("%s/%s/max=%d", f.mode, f.impl, f.limit) }

func newFixture(mode, impl string, limit int64) *fixture {
	dir, err := os.MkdirTemp("", "verif-front")
	if err != nil {
		panic(err)
	}
	return newFixtureAt(dir, mode, impl, limit)
}

// cache size and max_size_hard_limit of the next fixture (the c17 slice changes them)
var fxMaxSize int64 = maxSizeBytes
var fxHardLimit int64

// proxy backend and max_proxy_blob_size of the next fixture (the c10 slice sets them)
var fxProxy cache.Proxy
var fxMaxProxy int64

// a cache + servers on an EXISTING directory (a restart, possibly under another storage mode)
func newFixtureAt(dir, mode, impl string, limit int64) *fixture {
	var err error
	sl := log.New(io.Discard, "", 0)
	opts := []disk.Option{disk.WithAccessLogger(sl), disk.WithStorageMode(mode),
		disk.WithZstdImplementation(impl), disk.WithMaxBlobSize(limit), disk.WithMaxSizeHardLimit(fxHardLimit)}
	if fxProxy != nil {
		opts = append(opts, disk.WithProxyBackend(fxProxy), disk.WithProxyMaxBlobSize(fxMaxProxy))
	}
	c, err := disk.New(dir, fxMaxSize, opts...)
	if err != nil {
		panic(err)
	}
	f := &fixture{mode: mode, impl: impl, limit: limit, dir: dir, c: c, upBlobs: map[string]*upBehaviour{}}
	// the same value goes to the disk layer, the HTTP handler and the gRPC server: main.go's wiring
	// (pinned by Gen/Front.v + Bridge_Front.v)
	h := server.NewHTTPCache(c, sl, sl, true, false, false, false, "", "", limit)
	f.hs = httptest.NewServer(http.HandlerFunc(h.CacheHandler))
	f.up = httptest.NewServer(http.HandlerFunc(f.upstream))
	l := bufconn.Listen(1 << 20)
	f.srv = grpc.NewServer()
	go func() { _ = server.ServeGRPC(l, f.srv, true, false, true, limit, c, sl, sl) }()
	f.conn, err = grpc.NewClient("passthrough://bufnet", grpc.WithTransportCredentials(insecure.NewCredentials()),
		grpc.WithContextDialer(func(context.Context, string) (net.Conn, error) { return l.Dial() }),
		grpc.WithDefaultCallOptions(grpc.MaxCallRecvMsgSize(16<<20), grpc.MaxCallSendMsgSize(16<<20)))
	if err != nil {
		panic(err)
	}
	f.bs = bytestream.NewByteStreamClient(f.conn)
	f.cas = pb.NewContentAddressableStorageClient(f.conn)
	f.ac = pb.NewActionCacheClient(f.conn)
	f.caps = pb.NewCapabilitiesClient(f.conn)
	f.asset = asset.NewFetchClient(f.conn)
	return f
}

// stop the servers; the cache directory stays
func (f *fixture) shutdown() {
	_ = f.conn.Close()
	f.srv.Stop()
	f.hs.Close()
	f.up.Close()
}

func (f *fixture) close() {
	f.shutdown()
	_ = os.RemoveAll(f.dir)
}

func (f *fixture) upstream(w http.ResponseWriter, r *http.Request) {
	f.upMu.Lock()
	b := f.upBlobs[r.URL.Path]
	f.upMu.Unlock()
	if b == nil {
		http.Error(w, "no such thing", http.StatusNotFound)
		return
	}
	if b.status != 0 && b.status != 200 {
		http.Error(w, "upstream says no", b.status)
		return
	}
	if b.cutAt >= 0 {
		hj, ok := w.(http.Hijacker)
		if !ok {
			panic("no hijacker")
		}
		conn, buf, _ := hj.Hijack()
		fmt.Fprintf(buf, "HTTP/1.1 200 OK\r\nContent-Type: application/octet-stream\r\nContent-Length: %d\r\n\r\n", len(b.data))
		_, _ = buf.Write(b.data[:b.cutAt])
		_ = buf.Flush()
		_ = conn.Close()
		return
	}
	w.Header().Set("Content-Type", "application/octet-stream")
	if b.chunked {
		fl := w.(http.Flusher)
		w.WriteHeader(200)
		fl.Flush() // forces chunked transfer encoding: no Content-Length
		half := len(b.data) / 2
		_, _ = w.Write(b.data[:half])
		fl.Flush()
		_, _ = w.Write(b.data[half:])
		return
	}
	w.Header().Set("Content-Length", fmt.Sprintf("%d", len(b.data)))
	_, _ = w.Write(b.data)
}

func (f *fixture) upRegister(b *upBehaviour) string {
	f.upMu.Lock()
	defer f.upMu.Unlock()
	p := fmt.Sprintf("/b/%d", len(f.upBlobs))
	f.upBlobs[p] = b
	return f.up.URL + p
}

// ---- presence

type dg struct {
	hash string
	size int64
}

func (d dg) coq() string { return fmt.Sprintf("(%s, %s)", CS(d.hash), CZ(d.size)) }

func ctx5() (context.Context, context.CancelFunc) {
	return context.WithTimeout(context.Background(), 90*time.Second) // generous: the machine may be heavily loaded; a hang still ends the call
}

// FindMissingBlobs for the given digests: (missing, status)
func (f *fixture) findMissing(ds []dg) ([]dg, cls) {
	var req pb.FindMissingBlobsRequest
	for _, d := range ds {
		req.BlobDigests = append(req.BlobDigests, &pb.Digest{Hash: d.hash, SizeBytes: d.size})
	}
	ctx, cancel := ctx5()
	defer cancel()
	resp, err := f.cas.FindMissingBlobs(ctx, &req)
	if err != nil {
		return nil, grpcCls(err)
	}
	var out []dg
	for _, d := range resp.MissingBlobDigests {
		out = append(out, dg{d.Hash, d.SizeBytes})
	}
	return out, cOK
}

// HEAD /cas/<hash>: (status, Content-Length)
func (f *fixture) head(kind, hash string) (cls, int64) {
	req, _ := http.NewRequest(http.MethodHead, f.hs.URL+"/"+kind+"/"+hash, nil)
	resp, err := http.DefaultClient.Do(req)
	if err != nil {
		return cNoReply, -1
	}
	_ = resp.Body.Close()
	return httpCls(resp.StatusCode), resp.ContentLength
}

func (f *fixture) numItems() int {
	_, _, n, _ := f.c.Stats()
	return n
}

func dgList(ds []dg) string {
	var xs []string
	for _, d := range ds {
		xs = append(xs, d.coq())
	}
	return CList(xs)
}
