package main

// C17 on the front end: with max_size_hard_limit set and the background remover held back, every
// write path must answer an upload that does not fit with the RETRYABLE class (HTTP 507 /
// RESOURCE_EXHAUSTED), store nothing and evict nothing; reads keep working; once the backlog is
// deleted the upload is admitted; with the limit off nothing is refused for that reason.

import (
	"fmt"
	"sort"
	"strings"
	"sync/atomic"
	"time"

	. "verifharness/hlib"

	"github.com/buchgr/bazel-remote/v2/cache/disk"
	pb "github.com/buchgr/bazel-remote/v2/genproto/build/bazel/remote/execution/v2"
	"github.com/buchgr/bazel-remote/v2/utils/verifhook"
	"google.golang.org/protobuf/proto"
)

// ---- the remover's gate: it parks at "evict.take" until it gets a token (one pass per token)

type gate17 struct {
	tokens chan struct{}
	atGate chan struct{}
}

// each cache gets its own gate; removers of earlier caches stay parked at theirs for ever
var curGate17 atomic.Pointer[gate17]

func installGate17() {
	h := func(point string) {
		if point == "evict.take" {
			if g := curGate17.Load(); g != nil {
				g.atGate <- struct{}{}
				<-g.tokens
			}
		}
	}
	verifhook.Handler.Store(&h)
}

const block = 4096
const c17Blocks = 10

type c17 struct {
	e    *env
	f    *fixture
	g    *gate17
	c    *rcase
	hard int64
}

func (x *c17) snap() disk.VerifSnapshot { return disk.VerifCacheSnapshot(x.f.c) }

// the SET of indexed keys (a refused SpliceBlob has read its chunks, which changes their recency, not the set)
func keysOf(s disk.VerifSnapshot) string {
	var ks []string
	for _, en := range s.Order {
		ks = append(ks, en.Key)
	}
	sort.Strings(ks)
	return strings.Join(ks, ",")
}

func (x *c17) stats() {
	s := x.snap()
	x.c.ops = append(x.c.ops, "FStats")
	x.c.obs = append(x.c.obs, fmt.Sprintf("OStats %s %s %d %s", CZ(s.Cur), CZ(s.Res), s.NumItems, CZ(s.Queued)))
	x.c.texts = append(x.c.texts, fmt.Sprintf("[cur=%d res=%d items=%d queued=%d]", s.Cur, s.Res, s.NumItems, s.Queued))
}

// let the remover delete what is queued (one pass takes the whole queue), then park it again
func (x *c17) drain() {
	if disk.VerifQueuedBytes(x.f.c) > 0 {
		x.g.tokens <- struct{}{}
		select {
		case <-x.g.atGate:
		case <-time.After(120 * time.Second):
			panic("c17: the remover did not come back to its gate")
		}
		if q := disk.VerifQueuedBytes(x.f.c); q != 0 {
			x.c.fail("C17 driver: backlog still %d bytes after a remover pass", q)
		}
	}
	x.c.ops = append(x.c.ops, "FDrain")
	x.c.obs = append(x.c.obs, "OSt SOk")
	x.c.texts = append(x.c.texts, "drain")
}

// one upload; expect: "refused" (retryable class, nothing stored, nothing evicted), "admitted", "" (model only)
func (x *c17) upload(name, expect string, run func() (cls, []string, []string)) cls {
	before := x.snap()
	got, ops, obs := run()
	after := x.snap()
	x.c.ops = append(x.c.ops, ops...)
	x.c.obs = append(x.c.obs, obs...)
	x.c.texts = append(x.c.texts, fmt.Sprintf("%s -> %s", name, got))
	x.e.rep.Evaluations++
	x.e.rep.Count(fmt.Sprintf("c17.%s.%s.%s", expect, name, got))
	x.e.rep.DistinctCase(fmt.Sprintf("c17|%s|%s|%d|%s", name, expect, x.hard, got))
	switch expect {
	case "refused":
		if got != cInsuff {
			x.c.fail("C17 upload that exceeds max_size_hard_limit answered with %s instead of the retryable class (HTTP 507 / RESOURCE_EXHAUSTED) on path %s", got, name)
		}
		if keysOf(before) != keysOf(after) || before.Cur != after.Cur || before.Res != after.Res || before.Queued != after.Queued ||
			len(before.Queue) != len(after.Queue) || before.NumItems != after.NumItems {
			x.c.fail("C17 refused upload changed the cache (stored or evicted something) on path %s: cur %d->%d res %d->%d queued %d->%d items %d->%d",
				name, before.Cur, after.Cur, before.Res, after.Res, before.Queued, after.Queued, before.NumItems, after.NumItems)
		}
	case "admitted":
		if got != cOK {
			x.c.fail("C17 upload that fits (backlog deleted, or limit off) answered with %s on path %s", got, name)
		}
	}
	return got
}

func fromUcase(u *ucase) (cls, []string, []string) { return u.got, u.ops, u.obs }

var forceMsgs int // > 0: ByteStream.Write uploads use exactly this many messages

// every write-path variant once; single = it stores exactly one item of at most one block
type variant struct {
	name   string
	single bool
	run    func() (cls, []string, []string)
}

func (x *c17) variants(chunks []*blob) []variant {
	f, r := x.f, x.e.r
	noInl := "(mkInl false None \"\" (mkBody 0 0 true true) \"\")"
	bs := func(z bool, msgs int) func() (cls, []string, []string) {
		return func() (cls, []string, []string) {
			forceMsgs = msgs
			defer func() { forceMsgs = 0 }()
			return fromUcase(runBS(f, r, z, "none", block))
		}
	}
	// SpliceBlob and FetchBlob first: they used to drop the retryable class (two repaired defects)
	vs := []variant{
		{"splice", true, func() (cls, []string, []string) {
			whole := regBlob(append(append([]byte{}, chunks[0].data...), chunks[1].data...))
			d := dg{whole.hash, int64(len(whole.data))}
			var cds []dg
			var ct []string
			for _, c := range chunks {
				cds = append(cds, dg{c.hash, int64(len(c.data))})
				ct = append(ct, fmt.Sprintf("mkChunk false %s %s", CS(c.hash), CZ(int64(len(c.data)))))
			}
			got, _ := f.splice(1, cds, &d)
			return got, []string{fmt.Sprintf("FSplice 1 %s (Some %s) \"\" true %s %s", CList(ct), d.coq(), CZ(whole.cid), CS(nextRnd()))}, []string{"OSt " + got.coq()}
		}},
		{"fetch", true, func() (cls, []string, []string) { return fromUcase(runFetch(f, r, "none", block)) }},
		{"http-cas", true, func() (cls, []string, []string) { return fromUcase(runHTTP(f, r, false, "none", block)) }},
		{"http-cas-zstd", true, func() (cls, []string, []string) { return fromUcase(runHTTP(f, r, true, "none", block)) }},
		{"http-ac", true, func() (cls, []string, []string) {
			ar := &pb.ActionResult{ExitCode: int32(r.Intn(100)), ExecutionMetadata: &pb.ExecutedActionMetadata{Worker: "w"}}
			data, _ := proto.Marshal(ar)
			h := genHash(r)
			got := f.httpPut(h, data, httpOpts{abortAt: -1, kind: "ac"})
			return got, []string{fmt.Sprintf("FHttpPutAC %s %d true %d %s", CS(h), len(data), len(data), CS(nextRnd()))}, []string{"OSt " + got.coq()}
		}},
		{"batch", true, func() (cls, []string, []string) { return fromUcase(runBatch(f, r, false, "none", block)) }},
		{"batch-zstd", true, func() (cls, []string, []string) { return fromUcase(runBatch(f, r, true, "none", block)) }},
		{"batch-3", false, func() (cls, []string, []string) { return fromUcase(runBatch(f, r, false, "multi", block)) }},
		{"bs-1msg", true, bs(false, 1)},
		{"bs-4msgs", true, bs(false, 4)},
		{"bsz-1msg", true, bs(true, 1)},
		{"bsz-3msgs", true, bs(true, 3)},
		{"ac-plain", true, func() (cls, []string, []string) {
			ar := &pb.ActionResult{ExitCode: int32(r.Intn(100)), ExecutionMetadata: &pb.ExecutedActionMetadata{Worker: "w"}}
			h := genHash(r)
			ctx, cancel := ctx5()
			_, err := f.ac.UpdateActionResult(ctx, &pb.UpdateActionResultRequest{ActionDigest: &pb.Digest{Hash: h, SizeBytes: 5}, ActionResult: ar})
			cancel()
			got := grpcCls(err)
			return got, []string{fmt.Sprintf("FUpdateAR %s 5 true [] %s %s %d %s", CS(h), noInl, noInl, proto.Size(ar), CS(nextRnd()))}, []string{"OSt " + got.coq()}
		}},
		{"ac-inlined", false, func() (cls, []string, []string) {
			acAlone = true
			defer func() { acAlone = false }()
			u := runAC(f, r, "none", 3000)
			return u.got, u.ops[:1], u.obs[:1]
		}},
	}
	return vs
}

func runC17(e *env, n int) {
	installGate17()
	defer func() { fxMaxSize, fxHardLimit = maxSizeBytes, 0; curGate17.Store(nil) }()
	start := int(e.rep.Seed % 4)
	for i := 0; i < n; i++ {
		switch (start + i) % 4 {
		case 0:
			hardLimitCase(e, 1)
		case 1:
			hardLimitCase(e, 0)
		case 2:
			hardLimitCase(e, 2)
		default:
			hardLimitCase(e, -1) // limit off
		}
	}
}

// h = limit in blocks above max_size; -1 = no limit
func hardLimitCase(e *env, h int) {
	r := e.r
	max := int64(c17Blocks * block)
	hard := int64(0)
	if h >= 0 {
		hard = max + int64(h)*block
	}
	fxMaxSize, fxHardLimit = max, hard
	g := &gate17{tokens: make(chan struct{}), atGate: make(chan struct{}, 16)}
	curGate17.Store(g)
	f := newFixture("uncompressed", []string{"go", "cgo"}[r.Intn(2)], bigLimit)
	defer f.close()
	<-g.atGate // the remover is parked
	x := &c17{e: e, f: f, g: g, c: &rcase{f: f, nontriv: true}, hard: hard}
	c := x.c
	c.ops = append(c.ops, fmt.Sprintf("FInit %d %d", max, hard))
	c.obs = append(c.obs, "OSt SOk")

	put := func(b *blob) {
		sts, st := f.batchUpdate([]buEntry{{b.hash, int64(len(b.data)), 0, b.data}})
		got := st
		if st == cOK {
			got = sts[0]
		}
		bd, _ := describe(b.data, false, b.hash, false)
		c.ops = append(c.ops, fmt.Sprintf("FBatchUpdate [mkBU false %s %s CIdentity %s %s]", CS(b.hash), CZ(int64(len(b.data))), bd.coq(), CS(nextRnd())))
		var stTerms []string
		for _, s := range sts {
			stTerms = append(stTerms, s.coq())
		}
		c.obs = append(c.obs, fmt.Sprintf("OSts %s %s", st.coq(), CList(stTerms)))
		if got != cOK {
			c.fail("C17 set-up upload refused: %s", got)
		}
	}
	// ---- fill: fodder (oldest), splice chunks, a Directory, an ActionResult, blobs: one block each
	var fodder, chunks, keep []*blob
	nf := 3
	for i := 0; i < nf; i++ {
		fodder = append(fodder, freshBlob(r, block, false))
	}
	chunks = []*blob{freshBlob(r, 2048, false), freshBlob(r, 2048, true)}
	dirMsg := &pb.Directory{Files: []*pb.FileNode{{Name: "a", Digest: &pb.Digest{Hash: genHash(r), SizeBytes: 7}}}}
	dirData, _ := proto.Marshal(dirMsg)
	dirBlob := regBlob(dirData)
	for _, b := range fodder {
		put(b)
	}
	for _, b := range chunks {
		put(b)
	}
	put(dirBlob)
	ar0 := &pb.ActionResult{ExitCode: 3, ExecutionMetadata: &pb.ExecutedActionMetadata{Worker: "w"}}
	a0 := genHash(r)
	{
		ctx, cancel := ctx5()
		_, err := f.ac.UpdateActionResult(ctx, &pb.UpdateActionResultRequest{ActionDigest: &pb.Digest{Hash: a0, SizeBytes: 5}, ActionResult: ar0})
		cancel()
		if err != nil {
			panic(err)
		}
		noInl := "(mkInl false None \"\" (mkBody 0 0 true true) \"\")"
		c.ops = append(c.ops, fmt.Sprintf("FUpdateAR %s 5 true [] %s %s %d %s", CS(a0), noInl, noInl, proto.Size(ar0), CS(nextRnd())))
		c.obs = append(c.obs, "OSt SOk")
	}
	fill := c17Blocks - nf - 2 - 1 - 1 // blocks left
	if h == 0 {
		fill-- // leave one block free: with hard_limit = max_size a full cache refuses for ever
	}
	for i := 0; i < fill; i++ {
		b := freshBlob(r, block, i%2 == 0)
		keep = append(keep, b)
		put(b)
	}
	// ---- overload: with the remover parked, make currentSize + backlog reach the limit
	switch {
	case h == 0:
		// overwrite the oldest entry: its old file joins the deletion backlog
		b := fodder[0]
		got := f.httpPut(b.hash, b.data, httpOpts{abortAt: -1})
		bd, _ := describe(b.data, false, b.hash, false)
		c.ops = append(c.ops, fmt.Sprintf("FHttpPut true %s %d (XAbsent) CeNone %s %s", CS(b.hash), block, bd.coq(), CS(nextRnd())))
		c.obs = append(c.obs, "OSt "+got.coq())
	default:
		pushes := h
		if h < 0 {
			pushes = 3
		}
		for i := 0; i < pushes; i++ {
			b := freshBlob(r, block, false)
			keep = append(keep, b)
			put(b) // admitted; evicts the oldest entry into the backlog
		}
	}
	x.stats()
	if s := x.snap(); h >= 0 && s.Cur+s.Queued != hard {
		c.fail("C17 driver: set-up did not reach the limit: cur %d + queued %d, limit %d", s.Cur, s.Queued, hard)
	}
	vs := x.variants(chunks)

	if h >= 0 {
		// ---- every write path is refused with the retryable class, and changes nothing
		for _, v := range vs {
			x.upload(v.name, "refused", v.run)
		}
		x.stats()
		// ---- reads continue while uploads are refused
		x.reads(keep, chunks, dirBlob, a0)
		x.stats()
		// ---- the backlog is deleted: the same uploads are admitted
		x.drain()
		x.stats()
		if h == 0 {
			v := vs[1+r.Intn(len(vs)-1)]
			for !v.single {
				v = vs[1+r.Intn(len(vs)-1)]
			}
			x.upload(v.name, "admitted", v.run)
			x.stats()
			// now the cache is full and hard_limit = max_size leaves no headroom: refused although nothing is queued
			got := x.upload("http-cas", "", vs[2].run)
			e.rep.Count("c17.full-cache-with-hard-limit-equal-max-size." + string(got))
		} else {
			for _, v := range vs {
				exp := "admitted"
				if !v.single && h < 2 {
					exp = "" // several items in one request: the second meets the first one's eviction in the backlog
				}
				x.upload(v.name, exp, v.run)
				x.drain()
			}
		}
	} else {
		// ---- limit off: nothing is refused, whatever the backlog (the reads come first: they make
		// the splice chunks recently used, so the uploads' evictions take other entries)
		x.reads(keep, chunks, dirBlob, a0)
		for _, v := range vs {
			x.upload(v.name, "admitted", v.run)
		}
	}
	x.stats()
	c.flush(e, fmt.Sprintf("max_size=%d max_size_hard_limit=%d (remover held back)", max, hard))
}

// reads of entries that are in the index, through every read path; all must succeed
func (x *c17) reads(blobs, chunks []*blob, dirBlob *blob, a0 string) {
	c, e, r := x.c, x.e, x.e.r
	present := map[string]bool{}
	for _, en := range x.snap().Order {
		present[en.Key] = true
	}
	i := 0
	for _, b := range append(append([]*blob{}, blobs...), chunks...) {
		if !present["cas/"+b.hash] {
			continue
		}
		n := int64(len(b.data))
		switch i % 4 {
		case 0:
			c.httpGet(e, b, false, true)
			c.bsRead(e, b, true, 1, 0, true)
		case 1:
			c.batchRead(e, r, b, false, true)
			c.head(e, b, true)
		case 2:
			c.httpGet(e, b, true, true)
			c.bsRead(e, b, false, n/2, 0, true)
		default:
			c.batchRead(e, r, b, true, true)
			c.bsRead(e, b, false, 0, n, true)
		}
		i++
	}
	if dirBlob != nil && present["cas/"+dirBlob.hash] {
		d := dg{dirBlob.hash, int64(len(dirBlob.data))}
		dirs, st := x.f.getTree(d)
		c.ops = append(c.ops, fmt.Sprintf("FGetTree %s [(%s, [])]", d.coq(), CZ(dirBlob.cid)))
		cids := "[]"
		if len(dirs) == 1 {
			cids = "[" + CZ(dirBlob.cid) + "]"
		}
		c.obs = append(c.obs, fmt.Sprintf("OTree %s %s", st.coq(), cids))
		e.rep.Evaluations++
		e.rep.Count("c17.read.GetTree." + string(st))
		if st != cOK || len(dirs) != 1 {
			c.fail("C17 GetTree of a stored directory while uploads are refused: %s", st)
		}
	}
	if a0 != "" {
		_, st := x.f.getAR(a0, 5, false, false, nil)
		c.ops = append(c.ops, "FGetAR "+CS(a0))
		c.obs = append(c.obs, "OSt "+st.coq())
		e.rep.Evaluations++
		e.rep.Count("c17.read.GetActionResult." + string(st))
		if st != cOK {
			c.fail("C17 GetActionResult of a stored entry while uploads are refused: %s", st)
		}
	}
}
