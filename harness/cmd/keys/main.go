// Driver "keys" (C15): request-URL parser, file names, lookup keys and action-cache key mangling of
// both front ends against the model in coq/Model/Keys.v, plus the property's own statement as a
// direct oracle on stored/looked-up ActionResults.
package main

import (
	"bytes"
	"context"
	"crypto/sha256"
	"encoding/hex"
	"fmt"
	"io"
	"log"
	"math"
	"net"
	"net/http"
	"net/http/httptest"
	"net/url"
	"os"
	"path/filepath"
	"strings"
	"unicode/utf8"

	. "verifharness/hlib"

	"github.com/buchgr/bazel-remote/v2/cache"
	"github.com/buchgr/bazel-remote/v2/cache/disk"
	pb "github.com/buchgr/bazel-remote/v2/genproto/build/bazel/remote/execution/v2"
	"github.com/buchgr/bazel-remote/v2/server"

	"google.golang.org/grpc"
	"google.golang.org/grpc/codes"
	"google.golang.org/grpc/credentials/insecure"
	"google.golang.org/grpc/status"
	"google.golang.org/grpc/test/bufconn"
	"google.golang.org/protobuf/proto"
)

func main() { Main("keys", keysDriver) }

// ---- Coq printing of arbitrary byte strings

func cstr(s string) string {
	plain := true
	for i := 0; i < len(s); i++ {
		if s[i] < 32 || s[i] > 126 {
			plain = false
			break
		}
	}
	if plain {
		return CS(s)
	}
	var xs []string
	for i := 0; i < len(s); i++ {
		xs = append(xs, fmt.Sprintf("%d", s[i]))
	}
	return "(sb " + CList(xs) + ")"
}
func copt(s *string) string {
	if s == nil {
		return "None"
	}
	return "(Some " + cstr(*s) + ")"
}
func ctbl(m map[string]string) string {
	var xs []string
	for _, k := range SortedKeys(func() map[string]int {
		o := map[string]int{}
		for k := range m {
			o[k] = 1
		}
		return o
	}()) {
		xs = append(xs, "("+cstr(k)+", "+cstr(m[k])+")")
	}
	return CList(xs)
}
func sha(s string) string { h := sha256.Sum256([]byte(s)); return hex.EncodeToString(h[:]) }

type nullLogger struct{}

func (nullLogger) Printf(string, ...interface{}) {}

// ---- generators

const hexd = "0123456789abcdef"

func genHash(r *Rng) string {
	b := make([]byte, 64)
	for i := range b {
		b[i] = hexd[r.Intn(16)]
	}
	return string(b)
}

var segVocab = []string{"", "ac", "cas", "blobs", "uploads", "raw", "foo", "bar baz", "ünï", "日本", "%2F", "%41c",
	"a.b", "..", ".", "compressed-blobs", "AC", "ac ", "cas.v2", "x", "main", "actionResults"}

// an instance name: segments joined by "/" (empty segments give leading/trailing/double slashes)
func genInstance(r *Rng) string {
	if r.Chance(15) {
		return ""
	}
	n := 1 + r.Intn(4)
	var segs []string
	for i := 0; i < n; i++ {
		switch {
		case r.Chance(8):
			segs = append(segs, genHash(r))
		case r.Chance(6):
			segs = append(segs, "ac/"+genHash(r)) // looks like a complete key
		default:
			segs = append(segs, segVocab[r.Intn(len(segVocab))])
		}
	}
	return strings.Join(segs, "/")
}

func mutateHash(r *Rng, h string) (string, string) {
	switch r.Intn(9) {
	case 0:
		return strings.ToUpper(h), "upper"
	case 1:
		return h[:63], "63"
	case 2:
		return h + string(hexd[r.Intn(16)]), "65"
	case 3:
		i := r.Intn(64)
		return h[:i] + "g" + h[i+1:], "nonhex"
	case 4:
		return h + "\n", "trailing-newline"
	case 5:
		i := r.Intn(64)
		return h[:i] + "\n" + h[i+1:], "newline-inside"
	case 6:
		return h + "/", "trailing-slash"
	case 7:
		i := r.Intn(62)
		return h[:i] + "\xc3\xa9" + h[i+2:], "unicode"
	}
	return "", "empty"
}

func genURL(r *Rng) (string, string) {
	h := genHash(r)
	inst := genInstance(r)
	kw := []string{"ac/", "cas/"}[r.Intn(2)]
	lead := "/"
	switch p := r.Intn(100); {
	case p < 45: // the canonical shapes
		if inst == "" {
			return lead + kw + h, "valid.noinstance"
		}
		return lead + inst + "/" + kw + h, "valid.instance"
	case p < 52:
		return inst + "/" + kw + h, "valid.noleadingslash"
	case p < 58:
		return "//" + inst + "/" + kw + h, "doubleslash.lead"
	case p < 64:
		i := r.Intn(len(inst) + 1)
		return lead + inst[:i] + "\n" + inst[i:] + "/" + kw + h, "newline.instance"
	case p < 80:
		m, what := mutateHash(r, h)
		return lead + inst + "/" + kw + m, "badhash." + what
	case p < 86:
		bad := []string{"acs/", "ac", "cas", "AC/", "CAS/", "raw/", "ac//", "cas/ac", "a/c/", "xac/", "xcas/", ""}[r.Intn(12)]
		return lead + inst + "/" + bad + h, "badkeyword"
	case p < 90:
		return lead + inst + kw + h, "nokeywordslash" // instance glued to the keyword
	case p < 94:
		return lead + inst + "/" + kw + h + "?x=1", "suffix"
	case p < 97:
		return lead + inst + "\xff\xfe/" + kw + h, "invalid-utf8"
	}
	return []string{"", "/", "//", "ac/", "/cas/", "\n"}[r.Intn(6)], "degenerate"
}

// ---- a cache with both front ends

type fixture struct {
	mangle, validate bool
	dir              string
	c                disk.Cache
	h                http.Handler
	ts               *httptest.Server
	ac               pb.ActionCacheClient
	conn             *grpc.ClientConn
	srv              *grpc.Server
}

func newFixture(mangle, validate bool) *fixture {
	dir, err := os.MkdirTemp("", "verif-keys")
	if err != nil {
		panic(err)
	}
	sl := log.New(io.Discard, "", 0)
	c, err := disk.New(dir, 1<<26, disk.WithAccessLogger(sl))
	if err != nil {
		panic(err)
	}
	f := &fixture{mangle: mangle, validate: validate, dir: dir, c: c}
	hc := server.NewHTTPCache(c, sl, sl, validate, mangle, false, false, "", "", math.MaxInt64)
	f.h = http.HandlerFunc(hc.CacheHandler)
	mux := http.NewServeMux() // as in main.go: the cache handler behind a ServeMux
	mux.HandleFunc("/", hc.CacheHandler)
	f.ts = httptest.NewServer(mux)
	l := bufconn.Listen(1 << 20)
	f.srv = grpc.NewServer()
	go func() { _ = server.ServeGRPC(l, f.srv, validate, mangle, false, 1<<24, c, sl, sl) }()
	f.conn, err = grpc.NewClient("passthrough://bufnet", grpc.WithTransportCredentials(insecure.NewCredentials()),
		grpc.WithContextDialer(func(context.Context, string) (net.Conn, error) { return l.Dial() }))
	if err != nil {
		panic(err)
	}
	f.ac = pb.NewActionCacheClient(f.conn)
	return f
}
func (f *fixture) close() {
	f.ts.Close()
	_ = f.conn.Close()
	f.srv.Stop()
	_ = os.RemoveAll(f.dir)
}

// direct call of the handler with the given (already decoded) URL path
func (f *fixture) httpDo(method, path string, body []byte, hdr map[string]string) *httptest.ResponseRecorder {
	req := httptest.NewRequest(method, "/", bytes.NewReader(body))
	req.URL.Path = path
	req.ContentLength = int64(len(body))
	for k, v := range hdr {
		req.Header.Set(k, v)
	}
	rr := httptest.NewRecorder()
	f.h.ServeHTTP(rr, req)
	return rr
}

// through a real net/http server and ServeMux, with the path percent-encoded; ok=false when the
// path cannot be sent unchanged this way (ServeMux would clean it)
func (f *fixture) httpReal(method, path string, body []byte) (int, []byte, bool) {
	if strings.Contains(path, "//") || strings.Contains(path, "/./") || strings.Contains(path, "/../") || !utf8.ValidString(path) || strings.ContainsAny(path, "\n") {
		return 0, nil, false
	}
	u := f.ts.URL + (&url.URL{Path: path}).EscapedPath()
	req, err := http.NewRequest(method, u, bytes.NewReader(body))
	if err != nil {
		return 0, nil, false
	}
	cl := &http.Client{CheckRedirect: func(*http.Request, []*http.Request) error { return http.ErrUseLastResponse }}
	resp, err := cl.Do(req)
	if err != nil {
		return 0, nil, false
	}
	defer resp.Body.Close()
	b, _ := io.ReadAll(resp.Body)
	if resp.StatusCode/100 == 3 {
		return 0, nil, false
	}
	return resp.StatusCode, b, true
}

func acURL(inst, h string) string {
	if inst == "" {
		return "/ac/" + h
	}
	return "/" + inst + "/ac/" + h
}

func arBytes(code int32) []byte {
	b, _ := proto.Marshal(&pb.ActionResult{ExitCode: code})
	return b
}

// store an ActionResult (identified by its exit code) through a front end; returns success
func (f *fixture) store(rep *Report, viaHTTP bool, inst, h string, code int32) bool {
	if viaHTTP {
		path := acURL(inst, h)
		if st, _, ok := f.httpReal("PUT", path, arBytes(code)); ok {
			rep.Count("e2e.http.realserver")
			return st == 200
		}
		return f.httpDo("PUT", path, arBytes(code), nil).Code == 200
	}
	_, err := f.ac.UpdateActionResult(context.Background(), &pb.UpdateActionResultRequest{InstanceName: inst,
		ActionDigest: &pb.Digest{Hash: h, SizeBytes: 1}, ActionResult: &pb.ActionResult{ExitCode: code}})
	return err == nil
}

// look up; returns (found the ActionResult with that exit code, found something else)
func (f *fixture) lookup(rep *Report, viaHTTP bool, inst, h string, code int32) (bool, bool) {
	if viaHTTP {
		path := acURL(inst, h)
		var st int
		var body []byte
		var ok bool
		if st, body, ok = f.httpReal("GET", path, nil); ok {
			rep.Count("e2e.http.realserver")
		} else {
			rr := f.httpDo("GET", path, nil, nil)
			st, body = rr.Code, rr.Body.Bytes()
		}
		if st != 200 {
			return false, false
		}
		ar := &pb.ActionResult{}
		if err := proto.Unmarshal(body, ar); err != nil {
			return false, true
		}
		return ar.ExitCode == code, ar.ExitCode != code
	}
	ar, err := f.ac.GetActionResult(context.Background(), &pb.GetActionResultRequest{InstanceName: inst,
		ActionDigest: &pb.Digest{Hash: h, SizeBytes: 1}})
	if err != nil {
		return false, status.Code(err) != codes.NotFound && status.Code(err) != codes.InvalidArgument
	}
	return ar.ExitCode == code, ar.ExitCode != code
}

func recoverStr(fn func() string) (out *string) {
	defer func() {
		if recover() != nil {
			out = nil
		}
	}()
	s := fn()
	return &s
}

func keysDriver(seed uint64, n int, outV, outJSON string, _ []string) {
	log.SetOutput(io.Discard)
	r := &Rng{S: seed}
	rep := NewReport("keys", seed)
	rep.Rule = "generated URL paths (valid shapes with nested/reserved/unicode/percent-encoded instance names; near-misses: uppercase, 63/65 digits, non-hex, newline, double slash, glued keyword, invalid UTF-8) through parseRequestURL; (kind, legacy, hash, size, random) tuples incl. short and path-like hashes through FileLocation/FileLocationBase/LookupKey/getElementPath; hash shapes x sizes through validateHash; (hash, instance) through the key computation of both front ends; ActionResults stored through one real front end (HTTP handler / gRPC over bufconn) and looked up through both with the same, another and no instance, mangling on/off, validation on/off. Non-trivial = the case reached an accepted parse, a file name, or a store+lookup; distinct = distinct canonical case texts among those"
	var cases []string
	add := func(coq, text string, nontrivial bool) {
		cases = append(cases, coq)
		rep.CaseTexts = append(rep.CaseTexts, text)
		if nontrivial {
			rep.DistinctCase(text)
		}
		if len(rep.Samples) < 4 && nontrivial {
			rep.Samples = append(rep.Samples, text)
		}
	}

	fx := map[[2]bool]*fixture{}
	for _, m := range []bool{false, true} {
		for _, v := range []bool{false, true} {
			fx[[2]bool{m, v}] = newFixture(m, v)
		}
	}
	defer func() {
		for _, f := range fx {
			f.close()
		}
	}()
	anyFx := fx[[2]bool{false, true}]
	var exitCode int32 = 100 + int32(seed%1000)*100000

	// ---- deterministic regression probes, first in every run
	{
		// regression (fixed in /repo 721c198): gRPC used to mangle before validating, so a malformed hash
		// with an instance name was accepted and (h+"a", "b") was served the entry of (h, "ab")
		f := fx[[2]bool{true, true}]
		h := genHash(r)
		exitCode++
		okStore := f.store(rep, false, "ab", h, exitCode)
		found, wrong := f.lookup(rep, false, "b", h+"a", exitCode)
		if !okStore {
			rep.Fail(0, "storing an ActionResult failed", "probe: gRPC store (h,'ab')")
		}
		if found || wrong {
			rep.Fail(0, "gRPC served a request with a malformed action digest hash (h+'a', instance 'b') the ActionResult stored under (h, instance 'ab')", "probe hash="+h)
		}
		if _, err := f.ac.UpdateActionResult(context.Background(), &pb.UpdateActionResultRequest{InstanceName: "b",
			ActionDigest: &pb.Digest{Hash: h + "a", SizeBytes: 1}, ActionResult: &pb.ActionResult{ExitCode: 1}}); status.Code(err) != codes.InvalidArgument {
			rep.Fail(0, "gRPC UpdateActionResult accepted a malformed action digest hash given an instance name", "probe hash="+h)
		}
		rep.Count("probe.grpc_malformed_hash_with_instance_rejected")
		tbl := map[string]string{h + "ab": sha(h + "ab")}
		add(fmt.Sprintf("KE2E true true %s %s false %s %s", ctbl(tbl), cstr(h), cstr("ab"),
			CList([]string{fmt.Sprintf("(false, %s, %s)", cstr("ab"), CB(true))})),
			"probe: gRPC store (h,'ab'), lookup (h,'ab')", true)
		var gk *string
		if server.VerifValidateHash(h+"a", 1) == 0 { // as in GetActionResult: validate first, then mangle
			k := cache.TransformActionCacheKey(h+"a", "b", nullLogger{})
			gk = &k
		}
		if _, _, _, ok := server.VerifParseRequestURL("/b/ac/"+h+"a", true); ok {
			rep.Fail(0, "parseRequestURL accepted a 65-digit hash", h+"a")
		}
		add(fmt.Sprintf("KMangle true true %s %s %s %s None 1 %s", cstr(h+"a"), cstr("b"), ctbl(tbl), cstr("/b/ac/"+h+"a"), copt(gk)),
			"probe: key for malformed hash h+'a' with instance 'b' (both front ends reject)", true)
		rep.Evaluations += 3
	}

	for c := len(cases); c < n; c++ {
		switch p := r.Intn(100); {
		case p < 35: // ---- parseRequestURL
			u, class := genURL(r)
			v := r.Chance(50)
			k, h, inst, ok := server.VerifParseRequestURL(u, v)
			rep.Count("url." + class)
			rep.Evaluations++
			obs := "None"
			if ok {
				obs = fmt.Sprintf("(Some (%d, %s, %s))", k, cstr(h), cstr(inst))
				rep.Count("url.accepted")
				// direct oracle: an accepted URL ends in (ac/|cas/) + 64 lower-hex digits, which are the hash;
				// the instance is what precedes, minus one leading and one trailing slash
				kw := "ac/"
				if k == int(cache.CAS) {
					kw = "cas/"
				}
				good := len(h) == 64 && strings.Trim(h, hexd) == "" && strings.HasSuffix(u, kw+h)
				if good {
					pre := strings.TrimSuffix(u, kw+h)
					want := strings.TrimSuffix(strings.TrimPrefix(pre, "/"), "/")
					if pre == "/" || pre == "" {
						want = ""
					}
					good = inst == want && !strings.Contains(pre, "\n") && (k == int(cache.CAS) || (k == int(cache.AC)) == v)
				}
				if !good {
					rep.Fail(c, "parseRequestURL accepted a path with the wrong kind/hash/instance", fmt.Sprintf("url=%q -> kind=%d hash=%q instance=%q", u, k, h, inst))
				}
			} else {
				rep.Count("url.rejected")
				if strings.HasPrefix(class, "valid.") {
					rep.Fail(c, "parseRequestURL rejected a well-formed path", fmt.Sprintf("url=%q", u))
				}
			}
			add(fmt.Sprintf("KUrl %s %s %s", cstr(u), CB(v), obs), fmt.Sprintf("parseRequestURL(%q, validateAC=%v) = %s", u, v, obs), ok)

		case p < 55: // ---- file names
			kind := r.Intn(3)
			h := genHash(r)
			hclass := "valid"
			switch q := r.Intn(100); {
			case q < 55:
			case q < 62:
				h, hclass = h[:r.Intn(3)], "short"
			case q < 70:
				h, hclass = ".."+h[2:], "dotdot"
			case q < 78:
				i := 1 + r.Intn(62)
				h, hclass = h[:i]+"/"+h[i+1:], "slash"
			case q < 84:
				h, hclass = "./"+h[2:], "dotslash"
			case q < 90:
				h, hclass = strings.ToUpper(h), "upper"
			case q < 95:
				h, hclass = h+h[:r.Intn(5)], "long"
			default:
				h, hclass = "/"+h[1:], "leadingslash"
			}
			size := []int64{0, 1, 9, 10, 123, 4096, 1 << 40, math.MaxInt64, -1, math.MinInt64, 99999999999}[r.Intn(11)]
			random := []string{"0", "abcXYZ019", "1234567890", "", "a.b", "..", "x/y", "v1", "r-1"}[r.Intn(9)]
			if r.Chance(60) {
				random = fmt.Sprintf("%d", r.Intn(1000000000))
			}
			legacy := r.Chance(40)
			ek := cache.EntryKind(kind)
			loc := recoverStr(func() string { return disk.VerifFileLocation(anyFx.c, ek, legacy, h, size, random) })
			base := recoverStr(func() string { return disk.VerifFileLocationBase(anyFx.c, ek, legacy, h, size) })
			key := cache.LookupKey(ek, h)
			elem := recoverStr(func() string { return disk.VerifElementPath(anyFx.c, key, legacy, size, random) })
			dir := disk.VerifDir(anyFx.c)
			rep.Count("loc.hash." + hclass)
			rep.Evaluations += 4
			if hclass == "valid" && random != "" && !strings.ContainsAny(random, "./") {
				// direct oracle (the property): the key space is the first path element, the hash follows
				want := []string{"ac.v2", "cas.v2", "raw.v2"}[kind]
				if loc == nil || !strings.HasPrefix(*loc, want+"/"+h[:2]+"/"+h+"-") || elem == nil || *elem != filepath.Join(dir, *loc) {
					rep.Fail(c, "file name does not start with <keyspace dir>/<hash[:2]>/<hash>- or getElementPath differs from FileLocation", fmt.Sprintf("kind=%d hash=%s", kind, h))
				}
			}
			add(fmt.Sprintf("KLoc %s %d %s %s %s %s %s %s %s %s", cstr(dir), kind, CB(legacy), cstr(h), CZ(size), cstr(random), copt(loc), copt(base), cstr(key), copt(elem)),
				fmt.Sprintf("FileLocation(kind=%d legacy=%v hash=%q size=%d random=%q)", kind, legacy, h, size, random), loc != nil)

		case p < 63: // ---- validateHash
			h := genHash(r)
			class := "valid"
			if r.Chance(50) {
				h, class = mutateHash(r, h)
			}
			if r.Chance(15) {
				h, class = "e3b0c44298fc1c149afbf4c8996fb92427ae41e4649b934ca495991b7852b855", "emptysha"
			}
			size := []int64{0, 1, -1, 5, math.MaxInt64}[r.Intn(5)]
			ok := server.VerifValidateHash(h, size) == 0
			rep.Count("validate." + class)
			rep.Evaluations++
			add(fmt.Sprintf("KValidate %s %s %s", cstr(h), CZ(size), CB(ok)), fmt.Sprintf("validateHash(%q,%d)=%v", h, size, ok), ok)

		case p < 78: // ---- key computation of both front ends
			h := genHash(r)
			inst := genInstance(r)
			if r.Chance(8) {
				inst += "\n"
			}
			if r.Chance(6) {
				h = h[:60+r.Intn(4)]
			}
			mangle, v := r.Chance(70), r.Chance(50)
			u := acURL(inst, h)
			if r.Chance(15) {
				u = "/" + inst + "/cas/" + h
			}
			tbl := map[string]string{h + inst: sha(h + inst)}
			var ohttp string = "None"
			k, ph, pi, ok := server.VerifParseRequestURL(u, v)
			if ok {
				key := ph
				if mangle && (k == int(cache.AC) || k == int(cache.RAW)) {
					key = cache.TransformActionCacheKey(ph, pi, nullLogger{})
				}
				tbl[ph+pi] = sha(ph + pi)
				ohttp = fmt.Sprintf("(Some (%d, %s))", k, cstr(key))
			}
			size := []int64{1, 1, 1, 0, 77}[r.Intn(5)]
			var gk *string
			if server.VerifValidateHash(h, size) == 0 { // as in GetActionResult: validate first, then mangle
				gkey := h
				if mangle {
					gkey = cache.TransformActionCacheKey(h, inst, nullLogger{})
				}
				gk = &gkey
			}
			rep.Count(fmt.Sprintf("mangle.%v", mangle))
			rep.Evaluations += 2
			// direct oracle: both front ends compute the same key for the same (hash, instance)
			if ok && gk != nil && !strings.Contains(u, "/cas/") && !strings.Contains(inst, "\n") {
				if !strings.HasSuffix(ohttp, cstr(*gk)+"))") {
					rep.Fail(c, "HTTP and gRPC compute different action-cache keys for the same hash and instance name", fmt.Sprintf("mangle=%v instance=%q hash=%s http=%s grpc=%s", mangle, inst, h, ohttp, *gk))
				}
				rep.Count("mangle.agree")
			}
			add(fmt.Sprintf("KMangle %s %s %s %s %s %s %s %s %s", CB(mangle), CB(v), cstr(h), cstr(inst), ctbl(tbl), cstr(u), ohttp, CZ(size), copt(gk)),
				fmt.Sprintf("keys: mangle=%v validateAC=%v hash=%q instance=%q url=%q", mangle, v, h, inst, u), ok || gk != nil)

		default: // ---- end to end: store through one front end, look up through both
			mangle, v := r.Chance(65), r.Chance(75)
			f := fx[[2]bool{mangle, v}]
			h := genHash(r)
			inst := genInstance(r)
			other := genInstance(r)
			for other == inst {
				other = genInstance(r) + "x"
			}
			if r.Chance(25) && inst != "" { // a near neighbour of the instance name
				other = []string{inst + "/", "/" + inst, inst + "x", strings.ToUpper(inst), inst[:len(inst)-1], inst + "/ac"}[r.Intn(6)]
				if other == inst || !utf8.ValidString(other) {
					other = inst + "y"
				}
			}
			storeHTTP := r.Chance(50)
			exitCode++
			tbl := map[string]string{}
			for _, i := range []string{inst, other, ""} {
				tbl[h+i] = sha(h + i)
			}
			stored := f.store(rep, storeHTTP, inst, h, exitCode)
			rep.Evaluations++
			var ls []string
			text := fmt.Sprintf("e2e mangle=%v validateAC=%v hash=%s store(http=%v,instance=%q)=%v", mangle, v, h, storeHTTP, inst, stored)
			if !stored {
				rep.Fail(c, "storing an ActionResult failed", text)
			}
			for _, lk := range []struct {
				http bool
				inst string
			}{{true, inst}, {false, inst}, {true, other}, {false, other}, {true, ""}, {false, ""}} {
				found, wrong := f.lookup(rep, lk.http, lk.inst, h, exitCode)
				rep.Evaluations++
				ls = append(ls, fmt.Sprintf("(%s, %s, %s)", CB(lk.http), cstr(lk.inst), CB(found)))
				text += fmt.Sprintf(" ; lookup(http=%v,instance=%q)=%v", lk.http, lk.inst, found)
				// direct oracle = the property
				want := true
				if mangle {
					want = lk.inst == inst
				}
				if !v && lk.http != storeHTTP {
					want = false // the raw (unvalidated) HTTP action cache and the gRPC action cache are separate key spaces
				}
				if wrong {
					rep.Fail(c, "a lookup returned a different ActionResult or an unexpected error", text)
				}
				if found != want {
					rep.Fail(c, fmt.Sprintf("ActionResult stored under instance %q: lookup with instance %q (http=%v) found=%v, expected %v", inst, lk.inst, lk.http, found, want), text)
				}
				rep.Count(fmt.Sprintf("e2e.mangle=%v.found=%v", mangle, found))
			}
			// key-space isolation and "compressed only from the CAS" on the same hash
			if r.Chance(40) {
				rr := f.httpDo("GET", "/cas/"+h, nil, nil)
				if rr.Code != 404 {
					rep.Fail(c, "an action-cache entry is visible in the CAS under the same key", text)
				}
				rz := f.httpDo("GET", acURL(inst, h), nil, map[string]string{"Accept-Encoding": "zstd"})
				if ((v || storeHTTP) && rz.Code != 200) || rz.Header().Get("Content-Encoding") == "zstd" {
					rep.Fail(c, "an action-cache entry was served zstd-compressed (or not at all) to a client accepting zstd", text)
				}
				rep.Count("e2e.isolation")
				rep.Evaluations += 2
			}
			add(fmt.Sprintf("KE2E %s %s %s %s %s %s %s", CB(mangle), CB(v), ctbl(tbl), cstr(h), CB(storeHTTP), cstr(inst), CList(ls)), text, true)
		}
	}
	rep.Cases = len(cases)
	WriteCases(outV, "Model.Keys", "kcase", "case_ok", cases)
	rep.Write(outJSON)
}
