// Command auth is the C13 correspondence driver.  EXHAUSTIVE, not sampled (seed and n are ignored):
//
//	(a) the real interceptors (server.GrpcBasicAuth, server.GRPCmTLS*ServerInterceptor) are called
//	    directly with synthetic contexts for every registered method x credential state x
//	    allow_unauthenticated_reads;
//	(b) the real server binary ($VERIF_BUILD/bazel-remote) is started once per configuration
//	    ({no auth, htpasswd, mTLS} x allow_unauthenticated_reads x enable_endpoint_metrics, with an
//	    htpasswd file and a throw-away CA written here) and every gRPC method and every HTTP
//	    endpoint/method is called with every credential state.
//
// Observations (allowed / 401-Unauthenticated / no connection / ...) go into a Coq cases file that
// Model/Auth.v's case_ok compares with the model; the property itself is checked here by a direct
// oracle with its own hard-coded classification of the methods, and refused writes are checked
// to have left nothing in the cache.
package main

import (
	"bytes"
	"context"
	"crypto/ecdsa"
	"crypto/elliptic"
	"crypto/rand"
	"crypto/sha1"
	"crypto/sha256"
	"crypto/tls"
	"crypto/x509"
	"crypto/x509/pkix"
	"encoding/base64"
	"encoding/hex"
	"encoding/pem"
	"fmt"
	"io"
	"log"
	"math/big"
	"net"
	"net/http"
	"os"
	"os/exec"
	"path/filepath"
	"sort"
	"strings"
	"sync"
	"time"

	. "verifharness/hlib"

	auth "github.com/abbot/go-http-auth"
	"golang.org/x/crypto/bcrypt"
	"google.golang.org/grpc"
	"google.golang.org/grpc/codes"
	"google.golang.org/grpc/credentials"
	"google.golang.org/grpc/credentials/insecure"
	"google.golang.org/grpc/metadata"
	"google.golang.org/grpc/peer"
	"google.golang.org/grpc/status"
	"google.golang.org/protobuf/proto"
	"google.golang.org/protobuf/types/known/emptypb"

	"github.com/buchgr/bazel-remote/v2/cache/disk"
	pb "github.com/buchgr/bazel-remote/v2/genproto/build/bazel/remote/execution/v2"
	"github.com/buchgr/bazel-remote/v2/server"
)

func main() { Main("auth", authDriver) }

// ---------------------------------------------------------------------------------------------
// the credential table (mirrors Model/Auth.v basic_creds / peer_creds; case CBasicCreds compares)

type bcred struct {
	name, scope, label string
	nomd               bool
	userinfo, authz    *string
}

func sp(s string) *string { return &s }
func b64(s string) string { return base64.StdEncoding.EncodeToString([]byte(s)) }

var basicCreds = []bcred{
	{"none", "both", "none", false, nil, nil},
	{"no-metadata", "direct", "none", true, nil, nil},
	{"hdr-bearer", "both", "malformed", false, nil, sp("Bearer " + b64("alice:wonderland"))},
	{"hdr-bad-base64", "both", "malformed", false, nil, sp("Basic %%%not-base64%%%")},
	{"hdr-no-colon", "both", "malformed", false, nil, sp("Basic " + b64("alicewonderland"))},
	{"hdr-empty-user", "both", "empty-user", false, nil, sp("Basic " + b64(":wonderland"))},
	{"hdr-empty-pass", "both", "empty-password", false, nil, sp("Basic " + b64("alice:"))},
	{"hdr-unknown-user", "both", "unknown-user", false, nil, sp("Basic " + b64("mallory:wonderland"))},
	{"hdr-user-other-case", "both", "unknown-user", false, nil, sp("Basic " + b64("Alice:wonderland"))},
	{"hdr-wrong-pass", "both", "wrong-password", false, nil, sp("Basic " + b64("alice:wrong"))},
	{"hdr-pass-other-case", "both", "wrong-password", false, nil, sp("Basic " + b64("alice:Wonderland"))},
	{"hdr-valid-alice", "both", "valid", false, nil, sp("Basic " + b64("alice:wonderland"))},
	{"hdr-valid-bob", "both", "valid", false, nil, sp("Basic " + b64("bob:builder"))},
	{"hdr-valid-carol", "both", "valid", false, nil, sp("Basic " + b64("carol:pa:ss"))},
	{"hdr-lowercase-scheme-grpc", "grpc", "malformed", false, nil, sp("basic " + b64("alice:wonderland"))},
	{"hdr-lowercase-scheme-http", "http", "valid", false, nil, sp("basic " + b64("alice:wonderland"))},
	{"authority-valid-alice", "grpc", "valid", false, sp("alice:wonderland"), nil},
	{"authority-valid-carol", "grpc", "valid", false, sp("carol:pa:ss"), nil},
	{"authority-unknown-user", "grpc", "unknown-user", false, sp("mallory:wonderland"), nil},
	{"authority-wrong-pass", "grpc", "wrong-password", false, sp("alice:wrong"), nil},
	{"authority-empty-user", "grpc", "empty-user", false, sp(":wonderland"), nil},
	{"authority-empty-pass", "grpc", "empty-password", false, sp("alice:"), nil},
	{"authority-no-colon", "grpc", "malformed", false, sp("alicewonderland"), nil},
	{"both-channels-invalid", "grpc", "wrong-password", false, sp("alice:wrong"), sp("Basic " + b64("mallory:wonderland"))},
}

var users = [][2]string{{"alice", "wonderland"}, {"bob", "builder"}, {"carol", "pa:ss"}}

type pcred struct {
	name, scope, label string
	kind               string // none | plain | tls | badcert
	chains             []int
}

var peerCreds = []pcred{
	{"plain", "both", "no-cert", "plain", nil},
	{"tls-no-cert", "both", "no-cert", "tls", []int{}},
	{"tls-unverified-cert", "both", "unverified-cert", "badcert", nil},
	{"tls-valid-cert", "both", "valid-cert", "tls", []int{2}},
	{"no-peer", "direct", "no-cert", "none", nil},
	{"tls-unverified-seen-by-interceptor", "direct", "unverified-cert", "tls", []int{}},
	{"tls-empty-chain", "direct", "unverified-cert", "tls", []int{0}},
	{"tls-valid-two-chains", "direct", "valid-cert", "tls", []int{1, 3}},
}

func copt(s *string) string {
	if s == nil {
		return "None"
	}
	return "(Some " + CS(*s) + ")"
}

// oracle column: what Go's base64 makes of the header value after its six-character scheme prefix
func decoded(b bcred) *string {
	if b.authz == nil || len(*b.authz) < 6 {
		return nil
	}
	d, err := base64.StdEncoding.DecodeString((*b.authz)[6:])
	if err != nil {
		return nil
	}
	return sp(string(d))
}

// ---------------------------------------------------------------------------------------------
// the direct oracle's own classification of the registered methods (NOT taken from the server)

const healthCheck = "/grpc.health.v1.Health/Check"

var oracleMutating = map[string]bool{
	"/build.bazel.remote.execution.v2.ActionCache/UpdateActionResult":             true,
	"/build.bazel.remote.execution.v2.ContentAddressableStorage/BatchUpdateBlobs": true,
	"/build.bazel.remote.execution.v2.ContentAddressableStorage/SpliceBlob":       true,
	"/build.bazel.remote.execution.v2.ContentAddressableStorage/SplitBlob":        true, // may store chunks
	"/google.bytestream.ByteStream/Write":                                         true,
	"/build.bazel.remote.asset.v1.Fetch/FetchBlob":                                true,
	"/build.bazel.remote.asset.v1.Fetch/FetchDirectory":                           true,
}
var oracleNonMutating = map[string]bool{
	"/build.bazel.remote.execution.v2.ActionCache/GetActionResult":                true,
	"/build.bazel.remote.execution.v2.ContentAddressableStorage/FindMissingBlobs": true,
	"/build.bazel.remote.execution.v2.ContentAddressableStorage/BatchReadBlobs":   true,
	"/build.bazel.remote.execution.v2.ContentAddressableStorage/GetTree":          true,
	"/build.bazel.remote.execution.v2.Capabilities/GetCapabilities":               true,
	"/google.bytestream.ByteStream/Read":                                          true,
	"/google.bytestream.ByteStream/QueryWriteStatus":                              true,
	"/grpc.health.v1.Health/Check":                                                true,
	"/grpc.health.v1.Health/Watch":                                                true,
	"/grpc.health.v1.Health/List":                                                 true,
}

// ---------------------------------------------------------------------------------------------

type config struct {
	mode           string // none | htpasswd | mtls
	allow, metrics bool
	// idle: the server also runs with a non-zero idle_timeout (one of the "other options" of C13: it
	// wraps the handlers once more after the authentication wrappers were chosen).  Not part of the
	// Coq configuration term: the model's answer must not depend on it.
	idle bool
}

func (c config) String() string {
	s := fmt.Sprintf("auth=%s,allow_unauthenticated_reads=%v,enable_endpoint_metrics=%v", c.mode, c.allow, c.metrics)
	if c.idle {
		s += ",idle_timeout=1h"
	}
	return s
}
func (c config) coq() string {
	m := map[string]string{"none": "MNone", "htpasswd": "MHtpasswd", "mtls": "MMTLS"}[c.mode]
	return fmt.Sprintf("(mkCfg %s %s %s)", m, CB(c.allow), CB(c.metrics))
}
func (c config) authOn() bool { return c.mode != "none" }
func (c config) valid(b bcred, p pcred) bool {
	switch c.mode {
	case "htpasswd":
		return b.label == "valid"
	case "mtls":
		return p.label == "valid-cert"
	}
	return true
}

// can this client talk to the listener at all (its own statement of the TLS facts)
func (c config) connects(p pcred) bool {
	if c.mode == "mtls" {
		return p.kind == "tls"
	}
	return p.kind == "plain"
}

type method struct {
	name         string
	client, srvS bool
}

func (m method) kind() string {
	switch {
	case m.client && m.srvS:
		return "bidi_stream"
	case m.client:
		return "client_stream"
	case m.srvS:
		return "server_stream"
	}
	return "unary"
}

type env struct {
	dir                     string
	htpasswd                string
	caPEM, srvCert, srvKey  string
	caPool                  *x509.CertPool
	goodClient, rogueClient tls.Certificate
	methods                 []method
	rep                     *Report
	mu                      sync.Mutex
	cases, texts            []string
	evals                   int
	bin                     string
}

func (e *env) addCase(term, text string) int {
	e.mu.Lock()
	defer e.mu.Unlock()
	e.cases = append(e.cases, term)
	e.texts = append(e.texts, text)
	e.rep.DistinctCase(text)
	return len(e.cases) - 1
}
func (e *env) count(k string) { e.mu.Lock(); e.rep.Count(k); e.mu.Unlock() }
func (e *env) fail(i int, what, text string) {
	e.mu.Lock()
	e.rep.Fail(i, what, text)
	e.mu.Unlock()
}
func (e *env) addEvals(n int) { e.mu.Lock(); e.evals += n; e.mu.Unlock() }

// everything that has to go away when the driver stops, also on a fatal error
var (
	cleanupMu sync.Mutex
	procs     []*exec.Cmd
	tempDir   string
)

func cleanup() {
	cleanupMu.Lock()
	defer cleanupMu.Unlock()
	for _, c := range procs {
		if c.Process != nil {
			_ = c.Process.Kill() // by PID
		}
	}
	procs = nil
	if tempDir != "" {
		_ = os.RemoveAll(tempDir)
	}
}

func fatalf(format string, a ...interface{}) {
	cleanup()
	log.Fatalf("auth driver: "+format, a...)
}

func must(err error) {
	if err != nil {
		fatalf("%v", err)
	}
}

// ---------------------------------------------------------------------------------------------
// certificates and htpasswd

func newCA(cn string) (*x509.Certificate, *ecdsa.PrivateKey, []byte) {
	key, err := ecdsa.GenerateKey(elliptic.P256(), rand.Reader)
	must(err)
	tmpl := &x509.Certificate{SerialNumber: big.NewInt(time.Now().UnixNano()), Subject: pkix.Name{CommonName: cn},
		NotBefore: time.Now().Add(-time.Hour), NotAfter: time.Now().Add(24 * time.Hour), IsCA: true,
		KeyUsage: x509.KeyUsageCertSign | x509.KeyUsageDigitalSignature, BasicConstraintsValid: true}
	der, err := x509.CreateCertificate(rand.Reader, tmpl, tmpl, &key.PublicKey, key)
	must(err)
	cert, err := x509.ParseCertificate(der)
	must(err)
	return cert, key, pem.EncodeToMemory(&pem.Block{Type: "CERTIFICATE", Bytes: der})
}

func newLeaf(ca *x509.Certificate, caKey *ecdsa.PrivateKey, cn string, serverCert bool) (certPEM, keyPEM []byte) {
	key, err := ecdsa.GenerateKey(elliptic.P256(), rand.Reader)
	must(err)
	tmpl := &x509.Certificate{SerialNumber: big.NewInt(time.Now().UnixNano()), Subject: pkix.Name{CommonName: cn},
		NotBefore: time.Now().Add(-time.Hour), NotAfter: time.Now().Add(24 * time.Hour), KeyUsage: x509.KeyUsageDigitalSignature}
	if serverCert {
		tmpl.ExtKeyUsage = []x509.ExtKeyUsage{x509.ExtKeyUsageServerAuth}
		tmpl.IPAddresses = []net.IP{net.ParseIP("127.0.0.1")}
		tmpl.DNSNames = []string{"localhost"}
	} else {
		tmpl.ExtKeyUsage = []x509.ExtKeyUsage{x509.ExtKeyUsageClientAuth}
	}
	der, err := x509.CreateCertificate(rand.Reader, tmpl, ca, &key.PublicKey, caKey)
	must(err)
	kb, err := x509.MarshalECPrivateKey(key)
	must(err)
	return pem.EncodeToMemory(&pem.Block{Type: "CERTIFICATE", Bytes: der}), pem.EncodeToMemory(&pem.Block{Type: "EC PRIVATE KEY", Bytes: kb})
}

func (e *env) setupSecrets() {
	// three users, three hash schemes (bcrypt, {SHA}, apr1-MD5)
	bh, err := bcrypt.GenerateFromPassword([]byte(users[0][1]), bcrypt.MinCost)
	must(err)
	sh := sha1.Sum([]byte(users[1][1]))
	md5 := auth.MD5Crypt([]byte(users[2][1]), []byte("c13salt0"), []byte("$apr1$"))
	lines := fmt.Sprintf("%s:%s\n%s:{SHA}%s\n%s:%s\n", users[0][0], bh, users[1][0], base64.StdEncoding.EncodeToString(sh[:]), users[2][0], md5)
	e.htpasswd = filepath.Join(e.dir, "htpasswd")
	must(os.WriteFile(e.htpasswd, []byte(lines), 0600))

	ca, caKey, caPEM := newCA("c13 test CA")
	e.caPEM = filepath.Join(e.dir, "ca.pem")
	must(os.WriteFile(e.caPEM, caPEM, 0600))
	e.caPool = x509.NewCertPool()
	e.caPool.AddCert(ca)
	sc, sk := newLeaf(ca, caKey, "127.0.0.1", true)
	e.srvCert, e.srvKey = filepath.Join(e.dir, "server.crt"), filepath.Join(e.dir, "server.key")
	must(os.WriteFile(e.srvCert, sc, 0600))
	must(os.WriteFile(e.srvKey, sk, 0600))
	cc, ck := newLeaf(ca, caKey, "good client", false)
	e.goodClient, err = tls.X509KeyPair(cc, ck)
	must(err)
	rca, rkey, _ := newCA("rogue CA")
	rc, rk := newLeaf(rca, rkey, "rogue client", false)
	e.rogueClient, err = tls.X509KeyPair(rc, rk)
	must(err)
}

// ---------------------------------------------------------------------------------------------
// (a) the interceptors, called directly

type plainAuthInfo struct{}

func (plainAuthInfo) AuthType() string { return "insecure" }

type fakeStream struct {
	grpc.ServerStream
	ctx context.Context
}

func (f *fakeStream) Context() context.Context { return f.ctx }

func basicCtx(b bcred) context.Context {
	ctx := context.Background()
	if b.nomd {
		return ctx
	}
	authority := "127.0.0.1:9092"
	if b.userinfo != nil {
		authority = *b.userinfo + "@" + authority
	}
	md := metadata.MD{":authority": {authority}, "content-type": {"application/grpc"}, "user-agent": {"grpc-go"}}
	if b.authz != nil {
		md["authorization"] = []string{*b.authz}
	}
	return metadata.NewIncomingContext(ctx, md)
}

func peerCtx(p pcred) context.Context {
	ctx := context.Background()
	switch p.kind {
	case "none":
		return ctx
	case "plain":
		return peer.NewContext(ctx, &peer.Peer{AuthInfo: plainAuthInfo{}})
	case "badcert":
		// what an interceptor would see if such a connection existed: a presented, unverified certificate
		return peer.NewContext(ctx, &peer.Peer{AuthInfo: credentials.TLSInfo{State: tls.ConnectionState{PeerCertificates: []*x509.Certificate{{}}}}})
	}
	var chains [][]*x509.Certificate
	for _, n := range p.chains {
		ch := []*x509.Certificate{}
		for i := 0; i < n; i++ {
			ch = append(ch, &x509.Certificate{})
		}
		chains = append(chains, ch)
	}
	return peer.NewContext(ctx, &peer.Peer{AuthInfo: credentials.TLSInfo{State: tls.ConnectionState{VerifiedChains: chains}}})
}

func classifyDirect(called bool, err error) byte {
	if called && err == nil {
		return 'A'
	}
	if !called && status.Code(err) == codes.Unauthenticated {
		return 'U'
	}
	return '?'
}

func callInterceptors(m method, ctx context.Context, u grpc.UnaryServerInterceptor, s grpc.StreamServerInterceptor) byte {
	called := false
	if m.kind() == "unary" {
		_, err := u(ctx, nil, &grpc.UnaryServerInfo{FullMethod: m.name}, func(context.Context, interface{}) (interface{}, error) {
			called = true
			return nil, nil
		})
		return classifyDirect(called, err)
	}
	err := s(nil, &fakeStream{ctx: ctx}, &grpc.StreamServerInfo{FullMethod: m.name, IsClientStream: m.client, IsServerStream: m.srvS},
		func(interface{}, grpc.ServerStream) error { called = true; return nil })
	return classifyDirect(called, err)
}

func (e *env) registeredMethods() {
	cacheDir := filepath.Join(e.dir, "direct-cache")
	must(os.MkdirAll(cacheDir, 0755))
	silent := log.New(io.Discard, "", 0)
	log.SetOutput(io.Discard) // disk.New reports its loading progress through the standard logger
	dc, err := disk.New(cacheDir, 1<<20, disk.WithAccessLogger(silent))
	log.SetOutput(os.Stderr)
	must(err)
	l, err := net.Listen("tcp", "127.0.0.1:0")
	must(err)
	srv := grpc.NewServer()
	go func() { _ = server.ServeGRPC(l, srv, false, false, true, 1<<20, dc, silent, silent) }()
	deadline := time.Now().Add(60 * time.Second)
	for {
		info := srv.GetServiceInfo()
		if _, ok := info["grpc.health.v1.Health"]; ok { // registered last
			for svc, si := range info {
				for _, mi := range si.Methods {
					e.methods = append(e.methods, method{"/" + svc + "/" + mi.Name, mi.IsClientStream, mi.IsServerStream})
				}
			}
			break
		}
		if time.Now().After(deadline) {
			fatalf("ServeGRPC did not register the health service")
		}
		time.Sleep(5 * time.Millisecond)
	}
	srv.Stop()
	sort.Slice(e.methods, func(i, j int) bool { return e.methods[i].name < e.methods[j].name })
}

func (e *env) oracleGrpc(idx int, c config, b bcred, p pcred, obs []byte, text, layer string) {
	connected := c.connects(p) || layer == "direct"
	for i, m := range e.methods {
		o := obs[i]
		what := ""
		valid := c.valid(b, p)
		switch {
		case o == '?':
			what = "unexpected outcome (neither allowed nor Unauthenticated)"
		case !oracleMutating[m.name] && !oracleNonMutating[m.name]:
			what = "registered method is not classified by the oracle (mutating or not?)"
		case c.authOn() && !valid && oracleMutating[m.name] && o == 'A':
			what = "content-changing method allowed without valid credentials"
		case c.authOn() && !valid && !c.allow && m.name != healthCheck && o == 'A':
			what = "method allowed without valid credentials although allow_unauthenticated_reads is off"
		case m.name == healthCheck && connected && o != 'A':
			what = "health check refused"
		case valid && connected && o != 'A':
			what = "valid credentials refused"
		case !c.authOn() && connected && o != 'A':
			what = "refused although no authentication is configured"
		case !connected && o == 'A':
			what = "request served over a connection that should not exist"
		}
		if what != "" {
			e.fail(idx, fmt.Sprintf("%s: %s [%s] %s", layer, what, m.name, string(o)), text)
		}
	}
}

func (e *env) direct() {
	secrets := auth.HtpasswdFileProvider(e.htpasswd)
	for _, allow := range []bool{false, true} {
		gba := server.NewGrpcBasicAuth(secrets, allow)
		for _, b := range basicCreds {
			obs := make([]byte, len(e.methods))
			for i, m := range e.methods {
				obs[i] = callInterceptors(m, basicCtx(b), gba.UnaryServerInterceptor, gba.StreamServerInterceptor)
				e.rep.Count("direct.basic." + string(obs[i]))
			}
			e.evals += len(e.methods)
			text := fmt.Sprintf("direct GrpcBasicAuth allow=%v cred=%s obs=%s", allow, b.name, obs)
			idx := e.addCase(fmt.Sprintf("CBasicDirect %s %s %s", CB(allow), CS(b.name), CS(string(obs))), text)
			if b.scope != "http" { // an HTTP-only row: its label says nothing about gRPC
				e.oracleGrpc(idx, config{mode: "htpasswd", allow: allow}, b, peerCreds[0], obs, text, "direct")
			}
		}
		mu, ms := server.GRPCmTLSUnaryServerInterceptor(allow), server.GRPCmTLSStreamServerInterceptor(allow)
		for _, p := range peerCreds {
			obs := make([]byte, len(e.methods))
			for i, m := range e.methods {
				obs[i] = callInterceptors(m, peerCtx(p), mu, ms)
				e.rep.Count("direct.mtls." + string(obs[i]))
			}
			e.evals += len(e.methods)
			text := fmt.Sprintf("direct GRPCmTLS interceptors allow=%v peer=%s obs=%s", allow, p.name, obs)
			idx := e.addCase(fmt.Sprintf("CMtlsDirect %s %s %s", CB(allow), CS(p.name), CS(string(obs))), text)
			e.oracleGrpc(idx, config{mode: "mtls", allow: allow}, basicCreds[0], p, obs, text, "direct")
		}
	}
}

// ---------------------------------------------------------------------------------------------
// (b) the server binary

func freePort() int {
	l, err := net.Listen("tcp", "127.0.0.1:0")
	must(err)
	defer l.Close()
	return l.Addr().(*net.TCPAddr).Port
}

type srvProc struct {
	cmd        *exec.Cmd
	http, grpc int
	out        *bytes.Buffer
}

func (e *env) startServer(c config, tag string) (*srvProc, error) {
	dir := filepath.Join(e.dir, "srv-"+tag)
	must(os.MkdirAll(dir, 0755))
	for attempt := 0; attempt < 3; attempt++ {
		p := &srvProc{http: freePort(), grpc: freePort(), out: &bytes.Buffer{}}
		args := []string{"--dir", dir, "--max_size", "1", "--http_address", fmt.Sprintf("127.0.0.1:%d", p.http),
			"--grpc_address", fmt.Sprintf("127.0.0.1:%d", p.grpc), "--experimental_remote_asset_api", "--access_log_level", "none"}
		switch c.mode {
		case "htpasswd":
			args = append(args, "--htpasswd_file", e.htpasswd)
		case "mtls":
			args = append(args, "--tls_ca_file", e.caPEM, "--tls_cert_file", e.srvCert, "--tls_key_file", e.srvKey)
		}
		if c.allow {
			args = append(args, "--allow_unauthenticated_reads")
		}
		if c.metrics {
			args = append(args, "--enable_endpoint_metrics")
		}
		if c.idle {
			args = append(args, "--idle_timeout", "1h")
		}
		p.cmd = exec.Command(e.bin, args...)
		p.cmd.Stdout, p.cmd.Stderr = p.out, p.out
		if err := p.cmd.Start(); err != nil {
			return nil, err
		}
		cleanupMu.Lock()
		procs = append(procs, p.cmd)
		cleanupMu.Unlock()
		exited := make(chan error, 1)
		go func() { exited <- p.cmd.Wait() }()
		deadline := time.Now().Add(90 * time.Second)
		ready := 0
		for ready < 2 && time.Now().Before(deadline) {
			select {
			case err := <-exited:
				if attempt == 2 || !strings.Contains(p.out.String(), "address already in use") {
					return nil, fmt.Errorf("server exited: %v: %s", err, lastLines(p.out.String(), 3))
				}
				ready = -1
			default:
			}
			if ready < 0 {
				break
			}
			ready = 0
			for _, port := range []int{p.http, p.grpc} {
				if cn, err := net.DialTimeout("tcp", fmt.Sprintf("127.0.0.1:%d", port), time.Second); err == nil {
					cn.Close()
					ready++
				}
			}
			if ready < 2 {
				time.Sleep(20 * time.Millisecond)
			}
		}
		if ready == 2 {
			return p, nil
		}
		if ready >= 0 {
			_ = p.cmd.Process.Kill()
			return nil, fmt.Errorf("server did not come up: %s", lastLines(p.out.String(), 3))
		}
	}
	return nil, fmt.Errorf("no free port")
}

func lastLines(s string, n int) string {
	ls := strings.Split(strings.TrimSpace(s), "\n")
	if len(ls) > n {
		ls = ls[len(ls)-n:]
	}
	return strings.Join(ls, " | ")
}

func (p *srvProc) stop() {
	if p != nil && p.cmd != nil && p.cmd.Process != nil {
		_ = p.cmd.Process.Kill() // by PID
	}
}

func (e *env) clientTLS(p pcred) *tls.Config {
	cfg := &tls.Config{RootCAs: e.caPool, ServerName: "127.0.0.1"}
	switch p.name {
	case "tls-valid-cert":
		cfg.Certificates = []tls.Certificate{e.goodClient}
	case "tls-unverified-cert":
		// always present it, whatever CAs the server advertises
		rc := e.rogueClient
		cfg.GetClientCertificate = func(*tls.CertificateRequestInfo) (*tls.Certificate, error) { return &rc, nil }
	}
	return cfg
}

func blobFor(tag string) ([]byte, string) {
	data := []byte("c13 " + tag)
	h := sha256.Sum256(data)
	return data, hex.EncodeToString(h[:])
}

type httpTarget struct{ ep, method string }

var httpTargets = func() []httpTarget {
	var ts []httpTarget
	for _, ep := range []string{"/cas/", "/ac/", "/status", "/metrics"} {
		for _, m := range []string{"GET", "HEAD", "PUT", "POST", "DELETE"} {
			ts = append(ts, httpTarget{ep, m})
		}
	}
	return ts
}()

// credential pairs exercised against a server of configuration c
func serverCreds(c config, proto string) (out [][2]int) {
	for bi, b := range basicCreds {
		if b.scope == "direct" || (proto == "http" && b.scope == "grpc") || (proto == "grpc" && b.scope == "http") {
			continue
		}
		for pi, p := range peerCreds {
			if p.scope == "direct" {
				continue
			}
			if c.mode == "mtls" {
				// the login part is irrelevant to an mTLS server: two representatives
				if b.name != "none" && b.name != "hdr-valid-alice" {
					continue
				}
			} else if p.kind != "plain" && !(p.name == "tls-valid-cert" && (b.name == "none" || b.name == "hdr-valid-alice")) {
				// a plain-text listener: TLS clients cannot talk to it at all; two representatives
				continue
			}
			out = append(out, [2]int{bi, pi})
		}
	}
	return
}

func (e *env) runConfig(c config, tag string) {
	p, err := e.startServer(c, tag)
	if c.mode == "none" && c.allow {
		// config.validateConfig refuses allow_unauthenticated_reads without an authentication method
		if err == nil {
			p.stop()
			e.fail(0, "server started with allow_unauthenticated_reads but without authentication", c.String())
		} else {
			e.count("server.refused-to-start(allow_unauthenticated_reads without auth)")
		}
		return
	}
	if err != nil {
		fatalf("%s: %v", c, err)
	}
	defer p.stop()
	e.count("server.started")

	scheme := "http"
	if c.mode == "mtls" {
		scheme = "https"
	}
	base := fmt.Sprintf("%s://127.0.0.1:%d", scheme, p.http)
	// a client that is always let in, for seeding and for looking at the cache afterwards
	adminB, adminP := basicCreds[0], peerCreds[0]
	for _, b := range basicCreds {
		if b.name == "hdr-valid-alice" {
			adminB = b
		}
	}
	if c.mode == "mtls" {
		adminP = peerCreds[3]
	}
	httpClient := func(pc pcred) *http.Client {
		tr := &http.Transport{DisableKeepAlives: !c.connects(pc), MaxIdleConnsPerHost: 4}
		if pc.kind != "plain" {
			tr.TLSClientConfig = e.clientTLS(pc)
		}
		return &http.Client{Transport: tr, Timeout: 60 * time.Second}
	}
	do := func(cl *http.Client, b bcred, pc pcred, method, path string, body []byte) (int, string, error) {
		u := base + path
		if pc.kind != "plain" && c.mode != "mtls" {
			u = "https" + strings.TrimPrefix(u, "http")
		}
		if pc.kind == "plain" && c.mode == "mtls" {
			u = "http" + strings.TrimPrefix(u, "https")
		}
		var rd io.Reader
		if body != nil {
			rd = bytes.NewReader(body)
		}
		req, err := http.NewRequest(method, u, rd)
		must(err)
		if b.authz != nil {
			req.Header.Set("Authorization", *b.authz)
		}
		resp, err := cl.Do(req)
		if err != nil {
			return 0, "", err
		}
		defer resp.Body.Close()
		bb, _ := io.ReadAll(io.LimitReader(resp.Body, 4096))
		return resp.StatusCode, string(bb), nil
	}
	admin := httpClient(adminP)
	seed, seedHash := blobFor("seed " + tag)
	if code, _, err := do(admin, adminB, adminP, "PUT", "/cas/"+seedHash, seed); err != nil || code != 200 {
		fatalf("%s: seeding the cache with valid credentials failed: %d %v", c, code, err)
	}
	arSeed, _ := proto.Marshal(&pb.ActionResult{ExitCode: 7})
	_, arSeedHash := blobFor("ac seed " + tag)
	if code, _, err := do(admin, adminB, adminP, "PUT", "/ac/"+arSeedHash, arSeed); err != nil || code != 200 {
		fatalf("%s: seeding the action cache with valid credentials failed: %d %v", c, code, err)
	}

	type written struct {
		idx         int
		hash, path  string
		expectThere bool
		text        string
	}
	var checks []written

	// ---- HTTP
	for _, bp := range serverCreds(c, "http") {
		b, pc := basicCreds[bp[0]], peerCreds[bp[1]]
		cl := httpClient(pc)
		obs := make([]byte, len(httpTargets))
		codesSeen := make([]int, len(httpTargets))
		ctag := tag + " " + b.name + " " + pc.name
		blob, blobHash := blobFor("http put " + ctag)
		_, acHash := blobFor("http ac put " + ctag)
		ar, _ := proto.Marshal(&pb.ActionResult{ExitCode: 3, StdoutRaw: []byte(ctag)})
		for i, t := range httpTargets {
			path, body := t.ep, []byte(nil)
			switch {
			case t.ep == "/cas/" && t.method == "PUT":
				path, body = "/cas/"+blobHash, blob
			case t.ep == "/ac/" && t.method == "PUT":
				path, body = "/ac/"+acHash, ar
			case t.ep == "/cas/":
				path = "/cas/" + seedHash
				if t.method == "POST" {
					body = []byte("x")
				}
			case t.ep == "/ac/":
				path = "/ac/" + arSeedHash
				if t.method == "POST" {
					body = []byte("x")
				}
			}
			code, respBody, err := do(cl, b, pc, t.method, path, body)
			codesSeen[i] = code
			switch {
			case err != nil:
				obs[i] = 'X'
			case code == 400 && pc.kind == "plain" && c.mode == "mtls" &&
				(t.method == "HEAD" || strings.Contains(strings.ToLower(respBody), "http request to an https server")):
				// crypto/tls + net/http answer a plain-text request on the TLS port themselves; no handler runs
				obs[i] = 'X'
			case code == 401:
				obs[i] = 'U'
			case code == 405:
				obs[i] = 'M'
			case t.ep == "/metrics" && code == 404 && (t.method == "HEAD" || strings.Contains(respBody, "not enabled")):
				obs[i] = 'N'
			default:
				obs[i] = 'S'
			}
			e.count(fmt.Sprintf("http.%s.%d", string(obs[i]), code))
		}
		cl.CloseIdleConnections()
		e.addEvals(len(httpTargets))
		text := fmt.Sprintf("server %s HTTP cred=%s/%s targets=[GET HEAD PUT POST DELETE]x[/cas /ac /status /metrics] obs=%s", c, b.name, pc.name, obs)
		idx := e.addCase(fmt.Sprintf("CHttp %s %s %s %s", c.coq(), CS(b.name), CS(pc.name), CS(string(obs))), text)
		valid, connected := c.valid(b, pc), c.connects(pc)
		for i, t := range httpTargets {
			o, what := obs[i], ""
			cacheEp := t.ep == "/cas/" || t.ep == "/ac/"
			read := t.method == "GET" || t.method == "HEAD"
			switch {
			case c.authOn() && !valid && cacheEp && !read && o == 'S':
				what = "cache endpoint served a non-read method without valid credentials"
			case c.authOn() && !valid && cacheEp && t.method == "PUT" && o != 'U' && o != 'X':
				what = "PUT without valid credentials not answered 401"
			case c.authOn() && !valid && !c.allow && o != 'U' && o != 'X' && !(cacheEp && !read && o == 'M') && !(t.ep == "/metrics" && !c.metrics && o == 'N'):
				what = "served without valid credentials although allow_unauthenticated_reads is off"
			case (valid || !c.authOn()) && connected && (o == 'U' || o == 'X'):
				what = "refused although the credentials are valid / no authentication is configured"
			case (valid || !c.authOn()) && connected && cacheEp && t.method != "POST" && t.method != "DELETE" && codesSeen[i] != 200:
				what = fmt.Sprintf("authorised cache request answered %d, expected 200", codesSeen[i])
			case !connected && o != 'X':
				what = "answer over a connection that should not exist"
			}
			if what != "" {
				e.fail(idx, fmt.Sprintf("http: %s [%s %s] %s", what, t.method, t.ep, string(o)), text)
			}
		}
		putCas, putAc := obs[2], obs[7] // PUT /cas, PUT /ac
		checks = append(checks, written{idx, blobHash, "/cas/" + blobHash, putCas == 'S', text}, written{idx, acHash, "/ac/" + acHash, putAc == 'S', text})
		if c.authOn() && !valid && (putCas == 'S' || putAc == 'S') {
			e.fail(idx, "http: unauthenticated PUT served", text)
		}
	}

	// ---- gRPC
	addr := fmt.Sprintf("127.0.0.1:%d", p.grpc)
	for _, bp := range serverCreds(c, "grpc") {
		b, pc := basicCreds[bp[0]], peerCreds[bp[1]]
		opts := []grpc.DialOption{}
		if pc.kind == "plain" {
			opts = append(opts, grpc.WithTransportCredentials(insecure.NewCredentials()))
		} else {
			opts = append(opts, grpc.WithTransportCredentials(credentials.NewTLS(e.clientTLS(pc))))
		}
		if b.userinfo != nil {
			opts = append(opts, grpc.WithAuthority(*b.userinfo+"@"+addr))
		}
		conn, err := grpc.NewClient("passthrough:///"+addr, opts...)
		must(err)
		ctag := tag + " " + b.name + " " + pc.name
		blob, blobHash := blobFor("grpc put " + ctag)
		_, acHash := blobFor("grpc ac put " + ctag)
		obs := make([]byte, len(e.methods))
		for i, m := range e.methods {
			ctx, cancel := context.WithTimeout(context.Background(), 60*time.Second)
			if b.authz != nil {
				ctx = metadata.AppendToOutgoingContext(ctx, "authorization", *b.authz)
			}
			var req proto.Message = &emptypb.Empty{}
			switch m.name {
			case "/build.bazel.remote.execution.v2.ContentAddressableStorage/BatchUpdateBlobs":
				req = &pb.BatchUpdateBlobsRequest{Requests: []*pb.BatchUpdateBlobsRequest_Request{{Digest: &pb.Digest{Hash: blobHash, SizeBytes: int64(len(blob))}, Data: blob}}}
			case "/build.bazel.remote.execution.v2.ActionCache/UpdateActionResult":
				req = &pb.UpdateActionResultRequest{ActionDigest: &pb.Digest{Hash: acHash, SizeBytes: 42}, ActionResult: &pb.ActionResult{ExitCode: 5}}
			}
			var rpcErr error
			if m.kind() == "unary" {
				rpcErr = conn.Invoke(ctx, m.name, req, &emptypb.Empty{})
			} else {
				var s grpc.ClientStream
				s, rpcErr = conn.NewStream(ctx, &grpc.StreamDesc{ClientStreams: true, ServerStreams: true}, m.name)
				if rpcErr == nil {
					_ = s.SendMsg(req)
					_ = s.CloseSend()
					rpcErr = s.RecvMsg(&emptypb.Empty{})
					if rpcErr == io.EOF {
						rpcErr = nil
					}
				}
			}
			cancel()
			code := status.Code(rpcErr)
			switch code {
			case codes.Unauthenticated:
				obs[i] = 'U'
			case codes.Unavailable:
				obs[i] = 'X'
			case codes.Unimplemented:
				// a handler may say so itself (SplitBlob); grpc says it for a method that is NOT registered,
				// without running any interceptor — that would make the observation meaningless
				obs[i] = 'A'
				if msg := status.Convert(rpcErr).Message(); strings.Contains(msg, "unknown service") || strings.Contains(msg, "unknown method") {
					obs[i] = '?'
				}
			default:
				obs[i] = 'A'
			}
			e.count(fmt.Sprintf("grpc.%s.%s", string(obs[i]), code))
			if (m.name == "/build.bazel.remote.execution.v2.ContentAddressableStorage/BatchUpdateBlobs" || m.name == "/build.bazel.remote.execution.v2.ActionCache/UpdateActionResult") && obs[i] == 'A' && code != codes.OK {
				e.fail(0, fmt.Sprintf("grpc: authorised upload through %s failed with %s", m.name, code), ctag)
			}
		}
		conn.Close()
		e.addEvals(len(e.methods))
		text := fmt.Sprintf("server %s gRPC cred=%s/%s methods=sorted obs=%s", c, b.name, pc.name, obs)
		idx := e.addCase(fmt.Sprintf("CGrpc %s %s %s %s", c.coq(), CS(b.name), CS(pc.name), CS(string(obs))), text)
		e.oracleGrpc(idx, c, b, pc, obs, text, "grpc")
		for i, m := range e.methods {
			switch m.name {
			case "/build.bazel.remote.execution.v2.ContentAddressableStorage/BatchUpdateBlobs":
				checks = append(checks, written{idx, blobHash, "/cas/" + blobHash, obs[i] == 'A', text})
			case "/build.bazel.remote.execution.v2.ActionCache/UpdateActionResult":
				checks = append(checks, written{idx, acHash, "/ac/" + acHash, obs[i] == 'A', text})
			}
		}
	}

	// ---- afterwards: the cache holds exactly what authorised clients wrote
	for _, w := range checks {
		code, _, err := do(admin, adminB, adminP, "HEAD", w.path, nil)
		there := err == nil && code == 200
		e.count(fmt.Sprintf("content-after.%v", there))
		if there != w.expectThere {
			e.fail(w.idx, fmt.Sprintf("cache content after the run: %s present=%v, expected %v", w.path, there, w.expectThere), w.text)
		}
	}
	admin.CloseIdleConnections()
}

// ---------------------------------------------------------------------------------------------

func authDriver(seed uint64, n int, outV, outJSON string, _ []string) {
	t0 := time.Now()
	rep := NewReport("auth", seed)
	rep.Rule = "EXHAUSTIVE (seed/n unused): (a) GrpcBasicAuth and GRPCmTLS interceptors called directly for every registered method x every credential-table row x allow_unauthenticated_reads; (b) the real server binary started for each of {no auth, htpasswd, mTLS} x allow_unauthenticated_reads x enable_endpoint_metrics (plus htpasswd and mTLS combined with a non-zero idle_timeout) and every registered gRPC method / every {GET,HEAD,PUT,POST,DELETE} x {/cas,/ac,/status,/metrics} called per credential row; one case = one (layer, configuration, credential) row of observations; distinct = distinct case texts"
	dir, err := os.MkdirTemp("", "verif-auth-")
	must(err)
	tempDir = dir
	defer cleanup()
	e := &env{dir: dir, rep: rep}
	e.bin = filepath.Join(os.Getenv("VERIF_BUILD"), "bazel-remote")
	if os.Getenv("VERIF_BUILD") == "" {
		e.bin = "/verif/build/bazel-remote"
	}
	if _, err := os.Stat(e.bin); err != nil {
		fatalf("server binary %s missing (run ./check --setup)", e.bin)
	}
	e.setupSecrets()
	e.registeredMethods()

	// the tables both sides must agree on
	var ms, ts, rows, us []string
	for _, m := range e.methods {
		ms = append(ms, fmt.Sprintf("(%s, %s)", CS(m.name), CS(m.kind())))
	}
	e.addCase("CMethods "+CList(ms), fmt.Sprintf("registered methods (grpc.Server.GetServiceInfo after ServeGRPC): %d", len(e.methods)))
	for _, t := range httpTargets {
		ts = append(ts, CS(t.method+" "+t.ep))
	}
	e.addCase("CHttpTargets "+CList(ts), "HTTP targets")
	for _, b := range basicCreds {
		rows = append(rows, fmt.Sprintf("(%s, %s, %s, %s, %s, %s, %s)", CS(b.name), CS(b.scope), CS(b.label), CB(b.nomd), copt(b.userinfo), copt(b.authz), copt(decoded(b))))
	}
	e.addCase("CBasicCreds "+CList(rows), "credential table")
	for _, u := range users {
		us = append(us, fmt.Sprintf("(%s, %s)", CS(u[0]), CS(u[1])))
	}
	e.addCase("CUsers "+CList(us), "htpasswd users")
	// the secrets file means what the table says (three hash schemes)
	secrets := auth.HtpasswdFileProvider(e.htpasswd)
	for _, u := range users {
		if s := secrets(u[0], ""); s == "" || !auth.CheckSecret(u[1], s) || auth.CheckSecret(u[1]+"x", s) {
			e.fail(3, "htpasswd file does not verify user "+u[0], "htpasswd users")
		}
	}

	e.direct()

	var wg sync.WaitGroup
	sem := make(chan struct{}, 6)
	for _, mode := range []string{"none", "htpasswd", "mtls"} {
		for _, allow := range []bool{false, true} {
			for _, metrics := range []bool{false, true} {
				c := config{mode: mode, allow: allow, metrics: metrics}
				tag := fmt.Sprintf("%s-%v-%v", mode, allow, metrics)
				wg.Add(1)
				go func() {
					defer wg.Done()
					sem <- struct{}{}
					defer func() { <-sem }()
					e.runConfig(c, tag)
				}()
			}
		}
	}
	// authentication combined with idle_timeout: the idle-timer wrapper goes around the handlers AFTER
	// the authentication wrappers were selected, so it must not replace them
	for _, c := range []config{
		{mode: "htpasswd", allow: false, metrics: false, idle: true},
		{mode: "htpasswd", allow: true, metrics: true, idle: true},
		{mode: "mtls", allow: false, metrics: true, idle: true},
	} {
		c := c
		tag := fmt.Sprintf("%s-%v-%v-idle", c.mode, c.allow, c.metrics)
		wg.Add(1)
		go func() {
			defer wg.Done()
			sem <- struct{}{}
			defer func() { <-sem }()
			e.runConfig(c, tag)
		}()
	}
	wg.Wait()

	// deterministic order of the cases: tables and direct calls first (already in order), then by text
	fixed := 4 + 2*(len(basicCreds)+len(peerCreds))
	type ct struct{ c, t string }
	tail := make([]ct, 0, len(e.cases)-fixed)
	for i := fixed; i < len(e.cases); i++ {
		tail = append(tail, ct{e.cases[i], e.texts[i]})
	}
	// oracle failures refer to case indices: remap after sorting
	order := make([]int, len(tail))
	for i := range order {
		order[i] = i
	}
	sort.SliceStable(order, func(i, j int) bool { return tail[order[i]].t < tail[order[j]].t })
	newIdx := map[int]int{}
	for ni, oi := range order {
		e.cases[fixed+ni], e.texts[fixed+ni] = tail[oi].c, tail[oi].t
		newIdx[fixed+oi] = fixed + ni
	}
	for i := range rep.OracleFailures {
		if ni, ok := newIdx[rep.OracleFailures[i].Case]; ok {
			rep.OracleFailures[i].Case = ni
		}
	}

	rep.Cases = len(e.cases)
	rep.Evaluations = e.evals
	rep.CaseTexts = e.texts
	for i, t := range e.texts {
		if i >= fixed && len(rep.Samples) < 4 {
			rep.Samples = append(rep.Samples, t)
		}
	}
	rep.Count(fmt.Sprintf("registered-methods.%d", len(e.methods)))
	rep.Count(fmt.Sprintf("wall-seconds.%d", int(time.Since(t0).Seconds())))
	WriteCases(outV, "Gen.Consts Gen.Auth Model.Auth", "acase", "case_ok", e.cases)
	rep.Write(outJSON)
}
