package main

// The fixture of one shard: the scripted backends, the REAL proxies (httpproxy.New, grpcproxy.New)
// built the way config/proxy.go builds them, and REAL disk caches (both storage modes) with those
// proxies attached; helpers that run one operation and project the result.

import (
	"bytes"
	"context"
	"crypto/sha256"
	"encoding/binary"
	"encoding/hex"
	"errors"
	"fmt"
	"io"
	"log"
	"net/http"
	"net/url"
	"os"
	"runtime"
	"strings"
	"sync"
	"sync/atomic"
	"time"

	. "verifharness/hlib"

	"github.com/buchgr/bazel-remote/v2/cache"
	"github.com/buchgr/bazel-remote/v2/cache/disk"
	"github.com/buchgr/bazel-remote/v2/cache/grpcproxy"
	"github.com/buchgr/bazel-remote/v2/cache/httpproxy"
	pb "github.com/buchgr/bazel-remote/v2/genproto/build/bazel/remote/execution/v2"

	"google.golang.org/grpc"
	"google.golang.org/protobuf/proto"
)

const (
	callTimeout = 30 * time.Second
	cacheMax    = 64 << 20 // = case_cache_max of the model
	smallProxy  = 1000     // max_proxy_blob_size of the "small" caches
	bigProxy    = 1 << 40
)

var modes = [2]string{"uncompressed", "zstd"}

func sha(b []byte) string { h := sha256.Sum256(b); return hex.EncodeToString(h[:]) }

type cntLogger struct {
	mu    sync.Mutex
	lines []string
}

func (l *cntLogger) Printf(format string, v ...interface{}) {
	l.mu.Lock()
	l.lines = append(l.lines, fmt.Sprintf(format, v...))
	l.mu.Unlock()
}
func (l *cntLogger) count(sub string) int {
	l.mu.Lock()
	defer l.mu.Unlock()
	n := 0
	for _, s := range l.lines {
		if strings.Contains(s, sub) {
			n++
		}
	}
	return n
}

// ---- the direct "view" transport: hands httpproxy an *http.Response built by the case

type viewScript struct {
	transportErr bool
	status       int
	clHeader     string // "" = absent
	clen         int64
	body         []byte
	bodyErr      bool
}

type errAfter struct {
	r   *bytes.Reader
	err bool
}

func (e *errAfter) Read(p []byte) (int, error) {
	n, err := e.r.Read(p)
	if err == io.EOF && e.err {
		return n, errors.New("injected body error")
	}
	return n, err
}
func (e *errAfter) Close() error { return nil }

type viewRT struct {
	mu      sync.Mutex
	scripts map[string]*viewScript
}

func (t *viewRT) RoundTrip(req *http.Request) (*http.Response, error) {
	if err := req.Context().Err(); err != nil {
		return nil, err
	}
	t.mu.Lock()
	s := t.scripts[req.URL.Path]
	t.mu.Unlock()
	if s == nil || s.transportErr {
		return nil, errors.New("injected transport error")
	}
	h := http.Header{}
	if s.clHeader != "" {
		h.Set("Content-Length", s.clHeader)
	}
	return &http.Response{StatusCode: s.status, Status: http.StatusText(s.status), Proto: "HTTP/1.1", ProtoMajor: 1, ProtoMinor: 1,
		Header: h, ContentLength: s.clen, Body: &errAfter{r: bytes.NewReader(s.body), err: s.bodyErr}, Request: req}, nil
}

// ---- capture proxy: the on-disk representation disk.Cache hands to a backend

type captureProxy struct {
	mu   sync.Mutex
	last []byte
}

func (c *captureProxy) Put(ctx context.Context, kind cache.EntryKind, hash string, logicalSize int64, sizeOnDisk int64, rc io.ReadCloser) {
	b, _ := io.ReadAll(rc)
	_ = rc.Close()
	c.mu.Lock()
	c.last = b
	c.mu.Unlock()
}
func (c *captureProxy) Get(ctx context.Context, kind cache.EntryKind, hash string, size int64) (io.ReadCloser, int64, error) {
	return nil, -1, nil
}
func (c *captureProxy) Contains(ctx context.Context, kind cache.EntryKind, hash string, size int64) (bool, int64) {
	return false, -1
}

// ---- a reader that counts its Close calls

type countRC struct {
	r      io.Reader
	closes int32
	closed chan struct{}
	once   sync.Once
}

func newCountRC(b []byte) *countRC {
	return &countRC{r: bytes.NewReader(b), closed: make(chan struct{})}
}
func (c *countRC) Read(p []byte) (int, error) { return c.r.Read(p) }
func (c *countRC) Close() error {
	atomic.AddInt32(&c.closes, 1)
	c.once.Do(func() { close(c.closed) })
	return nil
}
func (c *countRC) nCloses() int64 { return int64(atomic.LoadInt32(&c.closes)) }
func (c *countRC) wait(d time.Duration) bool {
	select {
	case <-c.closed:
		return true
	case <-time.After(d):
		return false
	}
}

// ---- fixture

const (
	beHTTP   = 0 // httpproxy over the real net/http client against the scripted server
	beView   = 1 // httpproxy over a RoundTripper that returns the case's *http.Response
	beGRPC   = 2 // grpcproxy over a live connection to the scripted server
	beClosed = 3 // grpcproxy over a closed connection (every call fails when it is opened)
)

var beNames = [4]string{"http", "http-view", "grpc", "grpc-closed"}

type stack struct {
	proxy  cache.Proxy // stand-alone, for proxy-level calls
	cacheR disk.Cache  // reader, max_proxy_blob_size huge
	cacheS disk.Cache  // reader, max_proxy_blob_size = smallProxy
	cacheA disk.Cache  // writer (beHTTP, beGRPC only)
}

type env struct {
	r       *Rng
	rep     *Report
	base    string
	hb      *httpBackend
	gb      *grpcBackend
	vrt     *viewRT
	slog    *sendLog
	cc      *grpc.ClientConn
	ccDead  *grpc.ClientConn
	htr     []*http.Transport
	st      [4][2]*stack
	builder [2]disk.Cache
	capture [2]*captureProxy
	errLog  *cntLogger
	accLog  *cntLogger
	dirs    int
	cases   []string
	texts   []string
	uniq    int
	used    map[string]bool
	dirOf   map[disk.Cache]string
}

var discard = log.New(io.Discard, "", 0)

func (e *env) newDisk(mode string, p cache.Proxy, maxProxy int64) disk.Cache {
	e.dirs++
	dir := fmt.Sprintf("%s/c%d", e.base, e.dirs)
	opts := []disk.Option{disk.WithAccessLogger(discard), disk.WithStorageMode(mode), disk.WithProxyBackend(p), disk.WithProxyMaxBlobSize(maxProxy)}
	c, err := disk.New(dir, cacheMax, opts...)
	if err != nil {
		panic(err)
	}
	e.dirOf[c] = dir
	return c
}

// an upload of this entry has run to its end (both proxies log the outcome of every UploadFile)
func (e *env) uploadLogged(hash string) bool {
	return e.accLog.count(hash)+e.errLog.count(hash) > 0
}

func (e *env) newHTTPProxy(mode string, view bool, uploaders, queued int) cache.Proxy {
	var cl *http.Client
	u, _ := url.Parse(e.hb.srv.URL)
	if view {
		cl = &http.Client{Transport: e.vrt}
	} else {
		tr := &http.Transport{} // as config/proxy.go: a plain client
		e.htr = append(e.htr, tr)
		cl = &http.Client{Transport: tr}
	}
	p, err := httpproxy.New(u, mode, cl, e.accLog, e.errLog, uploaders, queued)
	if err != nil {
		panic(err)
	}
	return p
}

func (e *env) newGRPCProxy(mode string, dead bool, uploaders, queued int) cache.Proxy {
	cc := e.cc
	if dead {
		cc = e.ccDead
	}
	return grpcproxy.New(grpcproxy.NewGrpcClients(cc), mode, e.accLog, e.errLog, uploaders, queued)
}

func newEnv(seed uint64, rep *Report) *env {
	base := ""
	if st, err := os.Stat("/dev/shm"); err == nil && st.IsDir() {
		base = "/dev/shm"
	}
	dir, err := os.MkdirTemp(base, "verif-proxy-")
	if err != nil {
		panic(err)
	}
	e := &env{r: &Rng{S: seed}, rep: rep, base: dir, errLog: &cntLogger{}, accLog: &cntLogger{}, used: map[string]bool{}, dirOf: map[disk.Cache]string{}}
	e.hb = newHTTPBackend()
	e.gb = newGrpcBackend()
	e.vrt = &viewRT{scripts: map[string]*viewScript{}}
	e.slog = &sendLog{logs: map[string][]sendRec{}}
	e.cc = e.gb.dial(grpc.WithChainStreamInterceptor(e.slog.interceptor()))
	e.ccDead = e.gb.dial()
	_ = e.ccDead.Close()
	if err := grpcproxy.NewGrpcClients(e.cc).CheckCapabilities(true); err != nil {
		panic(err)
	}
	for m := 0; m < 2; m++ {
		e.capture[m] = &captureProxy{}
		e.builder[m] = e.newDisk(modes[m], e.capture[m], bigProxy)
		for be := 0; be < 4; be++ {
			mk := func(up, q int) cache.Proxy {
				switch be {
				case beHTTP:
					return e.newHTTPProxy(modes[m], false, up, q)
				case beView:
					return e.newHTTPProxy(modes[m], true, 0, 0)
				case beGRPC:
					return e.newGRPCProxy(modes[m], false, up, q)
				}
				return e.newGRPCProxy(modes[m], true, 0, 0)
			}
			s := &stack{proxy: mk(2, 16)}
			s.cacheR = e.newDisk(modes[m], mk(2, 16), bigProxy)
			s.cacheS = e.newDisk(modes[m], mk(0, 0), smallProxy)
			if be == beHTTP || be == beGRPC {
				s.cacheA = e.newDisk(modes[m], mk(2, 16), bigProxy)
			}
			e.st[be][m] = s
		}
	}
	return e
}

func (e *env) closeAll() {
	for _, t := range e.htr {
		t.CloseIdleConnections()
	}
	_ = e.cc.Close()
	e.hb.close()
	e.gb.close()
	_ = os.RemoveAll(e.base)
}

// the representation disk.Cache (storage mode m) stores and uploads for this entry
func (e *env) reprOf(m int, kind cache.EntryKind, data []byte, hash string) []byte {
	if kind != cache.CAS || m == 0 {
		return data
	}
	if len(data) == 0 {
		panic("empty CAS blob has no stored representation")
	}
	e.capture[m].mu.Lock()
	e.capture[m].last = nil
	e.capture[m].mu.Unlock()
	if err := e.builder[m].Put(context.Background(), kind, hash, int64(len(data)), bytes.NewReader(data)); err != nil {
		panic(err)
	}
	e.capture[m].mu.Lock()
	defer e.capture[m].mu.Unlock()
	if e.capture[m].last == nil {
		panic("no representation captured")
	}
	return e.capture[m].last
}

// ---- entries

type entry struct {
	kind   cache.EntryKind
	data   []byte // logical content
	hash   string
	repr   [2][]byte // stored representation per storage mode (lazily)
	parses bool      // AC/RAW: proto.Unmarshal as ActionResult succeeds
}

func (e *env) mkEntry(kind cache.EntryKind, size int, compressible bool) *entry {
	e.uniq++
	en := &entry{kind: kind, parses: true}
	if kind == cache.CAS {
		if size < 1 {
			size = 1
		}
		var d []byte
		if compressible {
			d = bytes.Repeat([]byte{byte('a' + e.r.Intn(20))}, size)
		} else {
			d = e.r.Bytes(size)
		}
		for try := 0; ; try++ {
			tag := []byte(fmt.Sprintf("%d/%d;", e.r.Next(), e.uniq))
			copy(d, tag)
			if size < len(tag) { // tiny blobs: random bytes, distinct within the shard
				for i := range d {
					d[i] = byte(e.r.Next())
				}
			}
			if !e.used[sha(d)] || try > 1000 {
				break
			}
		}
		en.data = d
		en.hash = sha(d)
		e.used[en.hash] = true
		return en
	}
	// AC / RAW: a marshalled ActionResult of about that size (0 = the empty message)
	ar := &pb.ActionResult{}
	if size > 0 {
		n := size - 4
		if n < 1 {
			n = 1
		}
		raw := e.r.Bytes(n)
		if compressible {
			raw = bytes.Repeat([]byte{'x'}, n)
		}
		ar.StdoutRaw = raw
		ar.ExitCode = int32(e.r.Intn(100) + 1)
	}
	d, err := proto.MarshalOptions{Deterministic: true}.Marshal(ar)
	if err != nil {
		panic(err)
	}
	en.data = d
	en.hash = sha(append([]byte(fmt.Sprintf("action%d/%d", e.r.Next(), e.uniq)), d...)) // an action digest is not the hash of the result
	return en
}

func (e *env) repr(en *entry, m int) []byte {
	if en.repr[m] == nil {
		en.repr[m] = e.reprOf(m, en.kind, en.data, en.hash)
		if en.repr[m] == nil {
			en.repr[m] = []byte{}
		}
	}
	return en.repr[m]
}

func httpPath(m int, kind cache.EntryKind, hash string) string {
	if kind == cache.CAS && m == 1 {
		return "/cas.v2/" + hash
	}
	return "/" + kind.String() + "/" + hash
}

func hdrSize(b []byte) int64 {
	if len(b) < 16 {
		return 0
	}
	return int64(binary.LittleEndian.Uint64(b[8:16]))
}

// ---- observations

type pobs struct {
	class     string // err, miss, found, panic
	size      int64
	delivered int64
	serr      bool
	data      []byte
	negN      bool // a Read returned a negative count
}

func (o pobs) term() string {
	switch o.class {
	case "err":
		return "OErr"
	case "miss":
		return "OMiss"
	case "panic":
		return "OPanic"
	}
	return fmt.Sprintf("(OFound %s %s %s)", CZ(o.size), CZ(o.delivered), CB(o.serr))
}

func drain(rc io.Reader) (data []byte, serr bool, neg bool) {
	buf := make([]byte, 32*1024)
	for {
		n, err := rc.Read(buf)
		if n > 0 {
			data = append(data, buf[:n]...)
		}
		if n < 0 {
			neg = true
		}
		if err != nil {
			return data, err != io.EOF, neg
		}
	}
}

func ctxFor(cancelled bool) (context.Context, context.CancelFunc) {
	ctx, cancel := context.WithTimeout(context.Background(), callTimeout)
	if cancelled {
		cancel()
	}
	return ctx, cancel
}

func obsGet(p cache.Proxy, kind cache.EntryKind, hash string, size int64, cancelled bool) (o pobs) {
	ctx, cancel := ctxFor(cancelled)
	defer cancel()
	defer func() {
		if r := recover(); r != nil {
			o = pobs{class: "panic"}
		}
	}()
	rc, sz, err := p.Get(ctx, kind, hash, size)
	if rc != nil {
		defer rc.Close()
	}
	if err != nil {
		return pobs{class: "err"}
	}
	if rc == nil {
		return pobs{class: "miss"}
	}
	data, serr, neg := drain(rc)
	return pobs{class: "found", size: sz, delivered: int64(len(data)), serr: serr, data: data, negN: neg}
}

type hasObs struct {
	panicked bool
	ok       bool
	size     int64
}

func (h hasObs) term() string {
	if h.panicked {
		return "ObsPanic"
	}
	if !h.ok {
		return "ObsNo"
	}
	return "(ObsYes " + CZ(h.size) + ")"
}

type containser interface {
	Contains(ctx context.Context, kind cache.EntryKind, hash string, size int64) (bool, int64)
}

func obsHas(p containser, kind cache.EntryKind, hash string, size int64, cancelled bool) (h hasObs) {
	ctx, cancel := ctxFor(cancelled)
	defer cancel()
	defer func() {
		if r := recover(); r != nil {
			h = hasObs{panicked: true}
		}
	}()
	ok, sz := p.Contains(ctx, kind, hash, size)
	return hasObs{ok: ok, size: sz}
}

type dobs struct {
	class   string // hit, miss, err, panic
	size    int64
	data    []byte
	readErr bool
}

func (d dobs) term() string {
	switch d.class {
	case "hit":
		return "(DHit " + CZ(d.size) + ")"
	case "miss":
		return "DMiss"
	case "err":
		return "DErr"
	case "panic":
		return "DPanic"
	}
	return "DSkip"
}

func obsDisk(c disk.Cache, kind cache.EntryKind, hash string, size int64, cancelled bool) (d dobs) {
	ctx, cancel := ctxFor(cancelled)
	defer cancel()
	defer func() {
		if r := recover(); r != nil {
			d = dobs{class: "panic"}
		}
	}()
	rc, sz, err := c.Get(ctx, kind, hash, size, 0)
	if rc != nil {
		defer rc.Close()
	}
	if err != nil {
		return dobs{class: "err"}
	}
	if rc == nil {
		return dobs{class: "miss"}
	}
	data, serr, _ := drain(rc)
	return dobs{class: "hit", size: sz, data: data, readErr: serr}
}

// ---- leak accounting

func fdCount() int {
	es, err := os.ReadDir("/proc/self/fd")
	if err != nil {
		return -1
	}
	return len(es)
}

// goroutines whose stack shows a live backend connection or call of a proxy
func leakedGoroutines() (int, string) {
	buf := make([]byte, 8<<20)
	n := runtime.Stack(buf, true)
	n2 := 0
	var sample string
	for _, g := range strings.Split(string(buf[:n]), "\n\n") {
		bad := strings.Contains(g, "net/http.(*persistConn)") ||
			strings.Contains(g, "grpc.newClientStreamWithParams") ||
			strings.Contains(g, "/cache/httpproxy.") && !strings.Contains(g, "backendproxy.StartUploaders") ||
			strings.Contains(g, "/cache/grpcproxy.") && !strings.Contains(g, "backendproxy.StartUploaders")
		if bad {
			n2++
			if sample == "" {
				sample = g
			}
		}
	}
	return n2, sample
}
