package main

// The scripted backends: an HTTP server (net/http/httptest) whose answer to every request can be
// written byte by byte on the hijacked connection, and a gRPC server (grpc-go with DEFAULT options,
// so the 4 MiB receive limit is the stock one) implementing ByteStream, ContentAddressableStorage,
// ActionCache, Capabilities and the remote-asset Fetch service with per-hash fault scripts.  Without a
// script both behave like a plain store.

import (
	"bytes"
	"context"
	"encoding/base64"
	"encoding/hex"
	"fmt"
	"io"
	"net"
	"net/http"
	"net/http/httptest"
	"strconv"
	"strings"
	"sync"

	asset "github.com/buchgr/bazel-remote/v2/genproto/build/bazel/remote/asset/v1"
	pb "github.com/buchgr/bazel-remote/v2/genproto/build/bazel/remote/execution/v2"

	bs "google.golang.org/genproto/googleapis/bytestream"
	rpcstatus "google.golang.org/genproto/googleapis/rpc/status"
	"google.golang.org/grpc"
	"google.golang.org/grpc/codes"
	"google.golang.org/grpc/credentials/insecure"
	"google.golang.org/grpc/status"
	"google.golang.org/grpc/test/bufconn"
	"google.golang.org/protobuf/proto"
)

// ---------------------------------------------------------------- HTTP

const (
	clNum  = 0 // Content-Length: <clVal>
	clNone = 1 // no Content-Length; a GET body is sent chunked
	clJunk = 2 // Content-Length: abc
)

// answer to a GET or HEAD, written raw
type wireScript struct {
	connClose bool // close the connection without answering
	status    int
	cl        int
	clVal     int64
	body      []byte
	sent      int  // body bytes written before the connection is closed
	term      bool // chunked: the terminating chunk is sent
	served    int
}

type putScript struct {
	status    int
	connClose bool
	gate      chan struct{} // the answer to the HEAD waits for this (slow backend / queue tests)
}

type httpReq struct {
	method string
	clen   int64
	body   int64
}

type httpBackend struct {
	mu      sync.Mutex
	srv     *httptest.Server
	store   map[string][]byte // path -> bytes
	get     map[string]*wireScript
	head    map[string]*wireScript
	put     map[string]*putScript
	reqs    map[string][]httpReq
	started chan string // path of every HEAD that has a put script with a gate
}

func newHTTPBackend() *httpBackend {
	b := &httpBackend{store: map[string][]byte{}, get: map[string]*wireScript{}, head: map[string]*wireScript{},
		put: map[string]*putScript{}, reqs: map[string][]httpReq{}, started: make(chan string, 256)}
	b.srv = httptest.NewServer(http.HandlerFunc(b.handle))
	return b
}

func (b *httpBackend) close() { b.srv.CloseClientConnections(); b.srv.Close() }

func (b *httpBackend) record(path string, r httpReq) {
	b.mu.Lock()
	b.reqs[path] = append(b.reqs[path], r)
	b.mu.Unlock()
}

func (b *httpBackend) requests(path string) []httpReq {
	b.mu.Lock()
	defer b.mu.Unlock()
	return append([]httpReq(nil), b.reqs[path]...)
}

func (b *httpBackend) stored(path string) ([]byte, bool) {
	b.mu.Lock()
	defer b.mu.Unlock()
	d, ok := b.store[path]
	return d, ok
}

func (b *httpBackend) setStored(path string, d []byte) {
	b.mu.Lock()
	b.store[path] = d
	b.mu.Unlock()
}

func (b *httpBackend) del(path string) {
	b.mu.Lock()
	delete(b.store, path)
	b.mu.Unlock()
}

func writeRaw(w http.ResponseWriter, s *wireScript, head bool) {
	hj, ok := w.(http.Hijacker)
	if !ok {
		panic("no hijacker")
	}
	conn, buf, err := hj.Hijack()
	if err != nil {
		return
	}
	defer conn.Close()
	if s.connClose {
		return
	}
	var sb bytes.Buffer
	fmt.Fprintf(&sb, "HTTP/1.1 %d %s\r\nConnection: close\r\n", s.status, http.StatusText(s.status))
	switch s.cl {
	case clNum:
		fmt.Fprintf(&sb, "Content-Length: %d\r\n", s.clVal)
	case clJunk:
		sb.WriteString("Content-Length: abc\r\n")
	case clNone:
		if !head {
			sb.WriteString("Transfer-Encoding: chunked\r\n")
		}
	}
	sb.WriteString("\r\n")
	if !head {
		data := s.body[:s.sent]
		if s.cl == clNone {
			for len(data) > 0 {
				n := len(data)
				if n > 4000 {
					n = 4000
				}
				fmt.Fprintf(&sb, "%x\r\n", n)
				sb.Write(data[:n])
				sb.WriteString("\r\n")
				data = data[n:]
			}
			if s.term {
				sb.WriteString("0\r\n\r\n")
			}
		} else {
			sb.Write(data)
		}
	}
	_, _ = buf.Write(sb.Bytes())
	_ = buf.Flush()
}

func (b *httpBackend) handle(w http.ResponseWriter, r *http.Request) {
	path := r.URL.Path
	switch r.Method {
	case http.MethodGet, http.MethodHead:
		b.mu.Lock()
		s := b.get[path]
		if r.Method == http.MethodHead {
			s = b.head[path]
		}
		ps := b.put[path]
		first := true
		if s != nil {
			first = s.served == 0
			s.served++
		}
		data, ok := b.store[path]
		b.mu.Unlock()
		if r.Method == http.MethodHead && (s == nil || first) {
			b.record(path, httpReq{method: "HEAD"})
		}
		if r.Method == http.MethodHead && ps != nil && ps.gate != nil {
			select {
			case b.started <- path:
			default:
			}
			<-ps.gate
		}
		if s != nil {
			writeRaw(w, s, r.Method == http.MethodHead)
			return
		}
		if !ok {
			http.Error(w, "Not found", http.StatusNotFound)
			return
		}
		w.Header().Set("Content-Length", strconv.Itoa(len(data)))
		w.WriteHeader(http.StatusOK)
		if r.Method == http.MethodGet {
			_, _ = w.Write(data)
		}
	case http.MethodPut:
		b.mu.Lock()
		ps := b.put[path]
		b.mu.Unlock()
		if ps != nil && ps.connClose {
			b.record(path, httpReq{method: "PUT", clen: r.ContentLength, body: -1})
			writeRaw(w, &wireScript{connClose: true}, false)
			return
		}
		data, err := io.ReadAll(r.Body)
		b.record(path, httpReq{method: "PUT", clen: r.ContentLength, body: int64(len(data))})
		if ps != nil && ps.status != 0 && ps.status != 200 {
			http.Error(w, "scripted", ps.status)
			return
		}
		if err != nil || int64(len(data)) != r.ContentLength {
			http.Error(w, "short body", http.StatusBadRequest)
			return
		}
		b.setStored(path, data)
		w.WriteHeader(http.StatusOK)
	default:
		http.Error(w, "method", http.StatusMethodNotAllowed)
	}
}

// ---------------------------------------------------------------- gRPC

type rdScript struct {
	firstCode codes.Code // != OK: the status sent instead of any message
	data      []byte
	chunks    []int      // lengths of the messages sent from data
	endCode   codes.Code // != OK: the status after the messages
}

type wrScript struct {
	failCode codes.Code    // != OK: answered when message number failAt has been received
	failAt   int           // -1: before reading anything
	gate     chan struct{} // received the first message, then wait for this
}

type fbScript struct {
	rpcCode  codes.Code // != OK: the rpc fails
	status   int32
	nilStat  bool // leave Status nil (reads as OK)
	digest   bool // BlobDigest present
	sizeByte int64
}

type fmScript struct {
	rpcCode codes.Code
	missing int // number of digests listed as missing
}

type acScript struct {
	getCode codes.Code
	updCode codes.Code
	gate    chan struct{}
}

type updRec struct {
	size int64
	err  bool
}

type grpcBackend struct {
	asset.UnimplementedFetchServer
	pb.UnimplementedActionCacheServer
	pb.UnimplementedContentAddressableStorageServer
	pb.UnimplementedCapabilitiesServer
	bs.UnimplementedByteStreamServer

	mu      sync.Mutex
	lis     *bufconn.Listener
	srv     *grpc.Server
	cas     map[string][]byte
	casSize map[string]int64 // logical size stated by the upload's resource name
	ac      map[string][]byte
	rd      map[string]*rdScript
	wr      map[string]*wrScript
	fb      map[string]*fbScript
	fm      map[string]*fmScript
	acs     map[string]*acScript
	updates map[string][]updRec
	offsets map[string]int // number of WriteRequests of an upload with write_offset == 0 after the first
	finish  map[string]int // number of WriteRequests with finish_write
	nmsgs   map[string]int
	started chan string
}

func newGrpcBackend() *grpcBackend {
	g := &grpcBackend{cas: map[string][]byte{}, casSize: map[string]int64{}, ac: map[string][]byte{}, rd: map[string]*rdScript{}, wr: map[string]*wrScript{},
		fb: map[string]*fbScript{}, fm: map[string]*fmScript{}, acs: map[string]*acScript{}, updates: map[string][]updRec{},
		offsets: map[string]int{}, finish: map[string]int{}, nmsgs: map[string]int{}, started: make(chan string, 256)}
	g.lis = bufconn.Listen(1 << 20)
	g.srv = grpc.NewServer() // default options: MaxRecvMsgSize 4194304
	asset.RegisterFetchServer(g.srv, g)
	pb.RegisterActionCacheServer(g.srv, g)
	pb.RegisterContentAddressableStorageServer(g.srv, g)
	pb.RegisterCapabilitiesServer(g.srv, g)
	bs.RegisterByteStreamServer(g.srv, g)
	go func() { _ = g.srv.Serve(g.lis) }()
	return g
}

func (g *grpcBackend) close() { g.srv.Stop(); _ = g.lis.Close() }

func (g *grpcBackend) dial(opts ...grpc.DialOption) *grpc.ClientConn {
	all := append([]grpc.DialOption{grpc.WithTransportCredentials(insecure.NewCredentials()),
		grpc.WithContextDialer(func(context.Context, string) (net.Conn, error) { return g.lis.Dial() })}, opts...)
	cc, err := grpc.NewClient("passthrough://bufnet", all...)
	if err != nil {
		panic(err)
	}
	return cc
}

func (g *grpcBackend) casBytes(hash string) ([]byte, bool) {
	g.mu.Lock()
	defer g.mu.Unlock()
	d, ok := g.cas[hash]
	return d, ok
}
func (g *grpcBackend) acBytes(hash string) ([]byte, bool) {
	g.mu.Lock()
	defer g.mu.Unlock()
	d, ok := g.ac[hash]
	return d, ok
}
func (g *grpcBackend) updatesOf(hash string) []updRec {
	g.mu.Lock()
	defer g.mu.Unlock()
	return append([]updRec(nil), g.updates[hash]...)
}

func (g *grpcBackend) GetCapabilities(ctx context.Context, req *pb.GetCapabilitiesRequest) (*pb.ServerCapabilities, error) {
	return &pb.ServerCapabilities{CacheCapabilities: &pb.CacheCapabilities{
		DigestFunctions:               []pb.DigestFunction_Value{pb.DigestFunction_SHA256},
		ActionCacheUpdateCapabilities: &pb.ActionCacheUpdateCapabilities{UpdateEnabled: true},
		SupportedCompressors:          []pb.Compressor_Value{pb.Compressor_IDENTITY, pb.Compressor_ZSTD},
	}}, nil
}

func (g *grpcBackend) GetActionResult(ctx context.Context, req *pb.GetActionResultRequest) (*pb.ActionResult, error) {
	h := req.GetActionDigest().GetHash()
	g.mu.Lock()
	s := g.acs[h]
	data, ok := g.ac[h]
	g.mu.Unlock()
	if s != nil && s.getCode != codes.OK {
		return nil, status.Error(s.getCode, "scripted")
	}
	if !ok {
		return nil, status.Error(codes.NotFound, "not found")
	}
	ar := &pb.ActionResult{}
	if err := proto.Unmarshal(data, ar); err != nil {
		return nil, status.Error(codes.Internal, err.Error())
	}
	return ar, nil
}

func (g *grpcBackend) UpdateActionResult(ctx context.Context, req *pb.UpdateActionResultRequest) (*pb.ActionResult, error) {
	h := req.GetActionDigest().GetHash()
	g.mu.Lock()
	s := g.acs[h]
	g.mu.Unlock()
	if s != nil && s.gate != nil {
		select {
		case g.started <- h:
		default:
		}
		<-s.gate
	}
	fail := s != nil && s.updCode != codes.OK
	g.mu.Lock()
	g.updates[h] = append(g.updates[h], updRec{size: req.GetActionDigest().GetSizeBytes(), err: fail})
	g.mu.Unlock()
	if fail {
		return nil, status.Error(s.updCode, "scripted")
	}
	data, err := proto.Marshal(req.GetActionResult())
	if err != nil {
		return nil, status.Error(codes.Internal, err.Error())
	}
	g.mu.Lock()
	g.ac[h] = data
	g.mu.Unlock()
	return req.GetActionResult(), nil
}

func (g *grpcBackend) FindMissingBlobs(ctx context.Context, req *pb.FindMissingBlobsRequest) (*pb.FindMissingBlobsResponse, error) {
	res := &pb.FindMissingBlobsResponse{}
	for _, d := range req.GetBlobDigests() {
		g.mu.Lock()
		s := g.fm[d.GetHash()]
		_, ok := g.cas[d.GetHash()]
		g.mu.Unlock()
		if s != nil {
			if s.rpcCode != codes.OK {
				return nil, status.Error(s.rpcCode, "scripted")
			}
			for i := 0; i < s.missing; i++ {
				res.MissingBlobDigests = append(res.MissingBlobDigests, &pb.Digest{Hash: strings.Repeat(fmt.Sprintf("%x", i%16), 64), SizeBytes: int64(i)})
			}
			continue
		}
		if !ok {
			res.MissingBlobDigests = append(res.MissingBlobDigests, d)
		}
	}
	return res, nil
}

func (g *grpcBackend) FetchBlob(ctx context.Context, req *asset.FetchBlobRequest) (*asset.FetchBlobResponse, error) {
	hash := ""
	for _, q := range req.GetQualifiers() {
		if q.GetName() == "checksum.sri" && strings.HasPrefix(q.GetValue(), "sha256-") {
			raw, err := base64.StdEncoding.DecodeString(strings.TrimPrefix(q.GetValue(), "sha256-"))
			if err == nil {
				hash = hex.EncodeToString(raw)
			}
		}
	}
	g.mu.Lock()
	s := g.fb[hash]
	data, ok := g.cas[hash]
	size := int64(len(data))
	if n, have := g.casSize[hash]; have {
		size = n
	}
	g.mu.Unlock()
	if s != nil {
		if s.rpcCode != codes.OK {
			return nil, status.Error(s.rpcCode, "scripted")
		}
		res := &asset.FetchBlobResponse{}
		if !s.nilStat {
			res.Status = &rpcstatus.Status{Code: s.status, Message: "scripted"}
		}
		if s.digest {
			res.BlobDigest = &pb.Digest{Hash: hash, SizeBytes: s.sizeByte}
		}
		return res, nil
	}
	if !ok {
		return &asset.FetchBlobResponse{Status: &rpcstatus.Status{Code: int32(codes.NotFound), Message: "not found"}}, nil
	}
	return &asset.FetchBlobResponse{Status: &rpcstatus.Status{Code: int32(codes.OK)},
		BlobDigest: &pb.Digest{Hash: hash, SizeBytes: size}}, nil
}

// resource name -> (hash, size); accepts [uploads/<uuid>/](blobs|compressed-blobs/zstd)/<hash>/<size>
func parseResource(name string) (string, int64, bool) {
	f := strings.Split(name, "/")
	for i := 0; i < len(f); i++ {
		if f[i] == "blobs" && i+2 < len(f) {
			n, err := strconv.ParseInt(f[i+2], 10, 64)
			return f[i+1], n, err == nil
		}
		if f[i] == "compressed-blobs" && i+3 < len(f) {
			n, err := strconv.ParseInt(f[i+3], 10, 64)
			return f[i+2], n, err == nil
		}
	}
	return "", 0, false
}

func (g *grpcBackend) Read(req *bs.ReadRequest, srv bs.ByteStream_ReadServer) error {
	hash, _, ok := parseResource(req.GetResourceName())
	g.mu.Lock()
	s := g.rd[hash]
	data, have := g.cas[hash]
	g.mu.Unlock()
	if s != nil {
		if s.firstCode != codes.OK {
			return status.Error(s.firstCode, "scripted")
		}
		d := s.data
		for _, n := range s.chunks {
			if err := srv.Send(&bs.ReadResponse{Data: d[:n]}); err != nil {
				return err
			}
			d = d[n:]
		}
		if s.endCode != codes.OK {
			return status.Error(s.endCode, "scripted")
		}
		return nil
	}
	if !ok || !have {
		return status.Error(codes.NotFound, "not found")
	}
	for len(data) > 0 {
		n := len(data)
		if n > 1<<20 {
			n = 1 << 20
		}
		if err := srv.Send(&bs.ReadResponse{Data: data[:n]}); err != nil {
			return err
		}
		data = data[n:]
	}
	return nil
}

func (g *grpcBackend) Write(srv bs.ByteStream_WriteServer) error {
	var hash string
	var logical int64
	var s *wrScript
	var data []byte
	idx := 0
	for {
		req, err := srv.Recv()
		if err == io.EOF {
			break
		}
		if err != nil {
			return err
		}
		if idx == 0 {
			h, sz, ok := parseResource(req.GetResourceName())
			if !ok {
				return status.Error(codes.InvalidArgument, "bad resource name")
			}
			hash, logical = h, sz
			g.mu.Lock()
			s = g.wr[hash]
			g.mu.Unlock()
			if s != nil && s.gate != nil {
				select {
				case g.started <- hash:
				default:
				}
				<-s.gate
			}
		}
		g.mu.Lock()
		g.nmsgs[hash]++
		if idx > 0 && req.GetWriteOffset() == 0 {
			g.offsets[hash]++
		}
		if req.GetFinishWrite() {
			g.finish[hash]++
		}
		g.mu.Unlock()
		if s != nil && s.failCode != codes.OK && idx >= s.failAt {
			return status.Error(s.failCode, "scripted")
		}
		data = append(data, req.GetData()...)
		idx++
	}
	if hash == "" {
		return status.Error(codes.InvalidArgument, "no WriteRequest")
	}
	g.mu.Lock()
	g.cas[hash] = data
	g.casSize[hash] = logical
	g.mu.Unlock()
	return srv.SendAndClose(&bs.WriteResponse{CommittedSize: int64(len(data))})
}

// ---- client-side record of what UploadFile sends (a stream interceptor on the client connection)

type sendRec struct {
	hasRn bool
	rnLen int
	data  int
	size  int
	err   bool
}

type sendLog struct {
	mu   sync.Mutex
	logs map[string][]sendRec // hash -> the WriteRequests of the uploads of that hash
}

type recStream struct {
	grpc.ClientStream
	l    *sendLog
	hash string
}

func (r *recStream) SendMsg(m interface{}) error {
	err := r.ClientStream.SendMsg(m)
	if w, ok := m.(*bs.WriteRequest); ok {
		if r.hash == "" {
			r.hash, _, _ = parseResource(w.GetResourceName())
		}
		r.l.mu.Lock()
		r.l.logs[r.hash] = append(r.l.logs[r.hash], sendRec{hasRn: w.GetResourceName() != "", rnLen: len(w.GetResourceName()),
			data: len(w.GetData()), size: proto.Size(w), err: err != nil})
		r.l.mu.Unlock()
	}
	return err
}

func (l *sendLog) interceptor() grpc.StreamClientInterceptor {
	return func(ctx context.Context, desc *grpc.StreamDesc, cc *grpc.ClientConn, method string, streamer grpc.Streamer, opts ...grpc.CallOption) (grpc.ClientStream, error) {
		cs, err := streamer(ctx, desc, cc, method, opts...)
		if err != nil || method != "/google.bytestream.ByteStream/Write" {
			return cs, err
		}
		return &recStream{ClientStream: cs, l: l}, nil
	}
}

func (l *sendLog) of(hash string) []sendRec {
	l.mu.Lock()
	defer l.mu.Unlock()
	return append([]sendRec(nil), l.logs[hash]...)
}
