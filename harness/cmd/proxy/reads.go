package main

// Get and Contains cases: a backend answer with a fault injected at one stage (before the response,
// in the status / code, in the size metadata, at a byte offset of the stream, after the last byte),
// observed at the proxy (Proxy.Get / Contains called directly) and at the disk cache above it.

import (
	"bytes"
	"fmt"
	"strconv"

	. "verifharness/hlib"

	"github.com/buchgr/bazel-remote/v2/cache"
	"github.com/buchgr/bazel-remote/v2/cache/disk"

	"google.golang.org/grpc/codes"
)

type getSpec struct {
	be, m        int
	kind         cache.EntryKind
	known, small bool
	size         int
	comp         bool
	fault        string
	arg          int // offset / status / code of the fault
}

func ckind(k cache.EntryKind) string {
	switch k {
	case cache.AC:
		return "AC"
	case cache.CAS:
		return "CAS"
	}
	return "RAW"
}

func czlist(xs []int) string {
	var ss []string
	for _, x := range xs {
		ss = append(ss, CZ(int64(x)))
	}
	return CList(ss)
}

// split total bytes into message lengths
func (e *env) split(total int) []int {
	if total == 0 {
		return nil
	}
	var out []int
	switch e.r.Intn(4) {
	case 0:
		return []int{total}
	case 1: // small pieces (bounded number)
		step := total/7 + 1
		for total > 0 {
			n := step
			if n > total {
				n = total
			}
			out = append(out, n)
			total -= n
		}
	case 2: // with empty messages in between
		half := total / 2
		out = []int{0, half, 0, total - half, 0}
	default:
		for total > 0 {
			n := e.r.Intn(total) + 1
			if n > 1<<20 {
				n = 1 << 20
			}
			out = append(out, n)
			total -= n
		}
	}
	return out
}

func sum(xs []int) int {
	t := 0
	for _, x := range xs {
		t += x
	}
	return t
}

func (e *env) flush(term, text string, nontrivial bool, fails []string) {
	idx := len(e.cases)
	e.cases = append(e.cases, term)
	e.texts = append(e.texts, text)
	for _, f := range fails {
		e.rep.Fail(idx, f, text)
	}
	if nontrivial {
		e.rep.DistinctCase(text)
	}
	if len(e.rep.Samples) < 6 {
		e.rep.Samples = append(e.rep.Samples, text)
	}
}

type readSetup struct {
	src      string // Coq term of the backend's answer (hsrc or gscript)
	hexOK    bool
	hash     string
	obFull   int
	obLog    int
	faulty   bool // a fault was injected: the read must not be a hit
	trusted  bool // the backend delivered a complete, self-consistent object under this name that is not the entry (excluded adversary)
	healthy  bool
	cancel   bool
	expected []byte // logical content a hit must return
}

func defaultG(ac, fb, fm, rd string) string {
	if ac == "" {
		ac = "(ACErr 5)"
	}
	if fb == "" {
		fb = "(FBResp 5 None)"
	}
	if fm == "" {
		fm = "(FMResp 1)"
	}
	if rd == "" {
		rd = "(mkRd false [] false)"
	}
	return fmt.Sprintf("(mkG %s %s %s %s)", ac, fb, fm, rd)
}

// install the backend behaviour for one Get case
func (e *env) setupGet(s getSpec, en *entry) readSetup {
	repr := e.repr(en, s.m)
	v2cas := s.m == 1 && s.kind == cache.CAS
	rs := readSetup{hexOK: true, hash: en.hash, obFull: len(repr), obLog: len(repr), expected: en.data}
	if v2cas {
		rs.obLog = len(en.data)
	}
	L := len(repr)
	switch s.be {
	case beHTTP:
		path := httpPath(s.m, s.kind, en.hash)
		ws := &wireScript{status: 200, cl: clNum, clVal: int64(L), body: repr, sent: L, term: true}
		switch s.fault {
		case "ok":
			rs.healthy = true
		case "ok-chunked":
			ws.cl = clNone
			rs.healthy = v2cas
			rs.faulty = !v2cas
		case "conn-close":
			ws.connClose = true
			rs.faulty = true
		case "cancelled":
			rs.cancel = true
			rs.faulty = true
		case "status":
			ws.status = s.arg
			rs.faulty = true
		case "cut":
			ws.sent = s.arg
			rs.faulty = true
		case "chunked-noterm":
			ws.cl, ws.term = clNone, false
			rs.faulty = true
		case "chunked-cut":
			ws.cl, ws.term, ws.sent = clNone, false, s.arg
			rs.faulty = true
		case "chunked-short-clean":
			ws.cl, ws.sent = clNone, s.arg
			rs.faulty = true
		case "cl-plus":
			ws.clVal = int64(L + 7)
			rs.faulty = true
		case "cl-minus": // announces and delivers one byte less, cleanly
			ws.clVal = int64(L - 1)
			rs.faulty = v2cas || s.known
			rs.trusted = !rs.faulty
			if rs.trusted {
				rs.expected = repr[:L-1]
			}
		case "cl-junk":
			ws.cl = clJunk
			rs.faulty = true
		case "cl-neg":
			ws.clVal = -5
			rs.faulty = true
		case "hdr-zero", "hdr-neg":
			b := append([]byte(nil), repr...)
			for i := 8; i < 16; i++ {
				b[i] = 0
				if s.fault == "hdr-neg" {
					b[i] = 0xff
				}
			}
			ws.body = b
			rs.faulty = true
		case "other-blob": // a complete valid blob of another entry under this name
			other := e.mkEntry(s.kind, len(en.data)+1+e.r.Intn(50), s.comp)
			orepr := e.repr(other, s.m)
			ws.body, ws.sent, ws.clVal = orepr, len(orepr), int64(len(orepr))
			rs.obFull, rs.obLog = len(orepr), len(other.data)
			rs.faulty = s.known
			rs.trusted = !s.known
			rs.expected = other.data
		default:
			panic("unknown http fault " + s.fault)
		}
		if ws.sent > len(ws.body) {
			ws.sent = len(ws.body)
		}
		e.hb.mu.Lock()
		e.hb.get[path] = ws
		e.hb.mu.Unlock()
		if ws.connClose || rs.cancel {
			rs.src = "(HWire WConnClosed)"
		} else {
			cl := "WCLNone"
			deliv := ws.sent
			if ws.cl == clNum {
				cl = "(WCLNum " + CZ(ws.clVal) + ")"
				if int64(deliv) > ws.clVal && ws.clVal >= 0 {
					deliv = int(ws.clVal)
				}
			} else if ws.cl == clJunk {
				cl = "WCLJunk"
			}
			rs.src = fmt.Sprintf("(HWire (WResp (mkWire %d %s %d %s %s)))", ws.status, cl, ws.sent, CB(ws.term), CZ(hdrSize(ws.body[:deliv])))
		}
	case beView:
		path := httpPath(s.m, s.kind, en.hash)
		vs := &viewScript{status: 200, clHeader: strconv.Itoa(L), clen: int64(L), body: repr}
		cl := "(CLInt " + CZ(int64(L)) + ")"
		switch s.fault {
		case "ok":
			rs.healthy = true
		case "transport-err":
			vs.transportErr = true
			rs.faulty = true
		case "status":
			vs.status = s.arg
			rs.faulty = true
		case "cl-bad":
			vs.clHeader, vs.clen, cl = "abc", -1, "CLBad"
			rs.faulty = !v2cas
			rs.healthy = v2cas
		case "cl-absent":
			vs.clHeader, vs.clen, cl = "", -1, "CLAbsent"
			rs.faulty = !v2cas
			rs.healthy = v2cas
		case "cl-neg":
			vs.clHeader, vs.clen, cl = "-5", -5, "(CLInt (-5))"
			rs.faulty = !v2cas
			rs.healthy = v2cas
		case "cl-short": // announces fewer bytes than the body yields
			vs.clHeader, vs.clen, cl = strconv.Itoa(L-1), int64(L-1), "(CLInt "+CZ(int64(L-1))+")"
			rs.faulty = !v2cas
			rs.healthy = v2cas
		case "cl-long":
			vs.clHeader, vs.clen, cl = strconv.Itoa(L+9), int64(L+9), "(CLInt "+CZ(int64(L+9))+")"
			rs.faulty = !v2cas
			rs.healthy = v2cas
		case "body-err":
			vs.bodyErr = true
			rs.faulty = true
		default:
			panic("unknown view fault " + s.fault)
		}
		e.vrt.mu.Lock()
		e.vrt.scripts[path] = vs
		e.vrt.mu.Unlock()
		if vs.transportErr {
			rs.src = "(HView HTransportErr)"
		} else {
			rs.src = fmt.Sprintf("(HView (HReply (mkHResp %d %s %s %d %s %s)))", vs.status, cl, CZ(vs.clen), len(vs.body), CB(vs.bodyErr), CZ(hdrSize(vs.body)))
		}
	case beGRPC:
		if s.kind != cache.CAS {
			as := &acScript{}
			ac := "(ACOk " + CZ(int64(len(en.data))) + ")"
			switch s.fault {
			case "ok":
				rs.healthy = true
			case "code":
				as.getCode = codes.Code(s.arg)
				ac = "(ACErr " + CZ(int64(s.arg)) + ")"
				rs.faulty = true
			case "cancelled":
				rs.cancel = true
				ac = "(ACErr 1)"
				rs.faulty = true
			default:
				panic("unknown grpc ac fault " + s.fault)
			}
			e.gb.mu.Lock()
			e.gb.ac[en.hash] = en.data
			e.gb.acs[en.hash] = as
			e.gb.mu.Unlock()
			rs.src = defaultG(ac, "", "", "")
			break
		}
		rd := &rdScript{data: repr, chunks: e.split(L)}
		fb := &fbScript{status: 0, digest: true, sizeByte: int64(len(en.data))}
		rdOpenErr := false
		readFault := func() { // a stream fault for the known-size cases and, sometimes, on top of a healthy FetchBlob
			switch s.fault {
			case "first":
				rd.firstCode = codes.Code(s.arg)
				rd.chunks = nil
				rs.faulty = true
			case "cut":
				rd.chunks = e.split(s.arg)
				rd.endCode = codes.Unavailable
				rs.faulty = true
			case "end-err":
				rd.endCode = codes.Internal
				rs.faulty = true
			case "short-clean":
				rd.chunks = e.split(s.arg)
				rs.faulty = true
			case "extra":
				rd.data = append(append([]byte(nil), repr...), 1, 2, 3)
				rd.chunks = e.split(L + 3)
				rs.faulty = true
			}
		}
		switch s.fault {
		case "ok":
			rs.healthy = true
		case "first", "cut", "end-err", "short-clean", "extra":
			readFault()
		case "cancelled":
			rs.cancel = true
			rdOpenErr = true
			rs.faulty = true
		case "fb-rpc":
			fb.rpcCode = codes.Code(s.arg)
			rs.faulty = true
		case "fb-status":
			fb.status = int32(s.arg)
			fb.digest = e.r.Chance(50)
			rs.faulty = true
		case "fb-size": // the digest states another size
			fb.sizeByte = int64(len(en.data) + s.arg)
			rs.faulty = true
		case "fb-size-abs":
			fb.sizeByte = int64(s.arg)
			rs.faulty = true
		case "fb-nil-status":
			fb.nilStat = true
			rs.healthy = true
		case "fb-nil-digest": // OK (explicit, or no status at all) without blob_digest
			fb.digest = false
			fb.nilStat = s.arg == 1
			rs.faulty = true
		case "non-hex":
			rs.hash = "zz" + en.hash[2:]
			rs.hexOK = false
			rs.faulty = true
		default:
			panic("unknown grpc cas fault " + s.fault)
		}
		e.gb.mu.Lock()
		e.gb.rd[rs.hash] = rd
		if !s.known {
			e.gb.fb[rs.hash] = fb
		}
		e.gb.mu.Unlock()
		fbT := ""
		if !s.known {
			switch {
			case rs.cancel:
				fbT = "(FBErr 1)"
			case fb.rpcCode != codes.OK:
				fbT = "(FBErr " + CZ(int64(fb.rpcCode)) + ")"
			default:
				st := int64(fb.status)
				if fb.nilStat {
					st = 0
				}
				d := "None"
				if fb.digest {
					d = "(Some " + CZ(fb.sizeByte) + ")"
				}
				fbT = fmt.Sprintf("(FBResp %s %s)", CZ(st), d)
			}
		}
		chunks := rd.chunks
		endErr := rd.endCode != codes.OK
		if rd.firstCode != codes.OK {
			chunks, endErr = nil, true
		}
		rs.src = defaultG("", fbT, "", fmt.Sprintf("(mkRd %s %s %s)", CB(rdOpenErr), czlist(chunks), CB(endErr)))
	case beClosed:
		rs.faulty = true
		rs.src = defaultG("(ACErr 1)", "(FBErr 1)", "FMErr", "(mkRd true [] false)")
	}
	return rs
}

func (e *env) runGet(s getSpec) {
	en := e.mkEntry(s.kind, s.size, s.comp)
	rs := e.setupGet(s, en)
	st := e.st[s.be][s.m]
	req := int64(-1)
	if s.known {
		req = int64(len(en.data))
	}
	maxProxy := int64(bigProxy)
	dc := st.cacheR
	if s.small {
		maxProxy, dc = smallProxy, st.cacheS
	}
	text := fmt.Sprintf("GET %s mode=%s %s logical=%d stored=%d size-known=%v max_proxy=%d fault=%s/%d", beNames[s.be], modes[s.m], s.kind, len(en.data), rs.obFull, s.known, maxProxy, s.fault, s.arg)
	var fails []string

	po := obsGet(st.proxy, s.kind, rs.hash, req, rs.cancel)
	do := obsDisk(dc, s.kind, rs.hash, req, rs.cancel)
	e.rep.Evaluations += 2
	if po.negN {
		e.rep.Count("obs.read-returned-negative-count")
	}

	// direct oracles
	if po.class == "panic" || do.class == "panic" {
		fails = append(fails, "C12: a backend answer makes the proxy panic (nil BlobDigest in an OK FetchBlob response)")
	} else if s.fault == "fb-nil-digest" && (po.class != "err" || do.class != "err") {
		fails = append(fails, fmt.Sprintf("C12: an OK FetchBlob answer without digest must give an error (proxy: %s, disk cache: %s)", po.class, do.class))
	}
	if rs.faulty && do.class == "hit" {
		fails = append(fails, fmt.Sprintf("C12: a faulty backend answer (%s) produced a hit of %d bytes", s.fault, do.size))
	}
	if do.class == "hit" {
		if do.readErr {
			fails = append(fails, "C12: a hit whose reader fails")
		}
		if !bytes.Equal(do.data, rs.expected) || do.size != int64(len(rs.expected)) {
			fails = append(fails, fmt.Sprintf("C12: a hit returned %d bytes (reported size %d) that are not the %d bytes of the entry", len(do.data), do.size, len(rs.expected)))
		}
		if rs.trusted {
			e.rep.Count("get.trusted-backend-object")
		}
	}
	oversize := s.small && (int64(len(en.data)) > smallProxy)
	if rs.healthy && !oversize && do.class != "hit" {
		fails = append(fails, "C12: a healthy backend object was not served ("+do.class+")")
	}
	if oversize && do.class == "hit" {
		fails = append(fails, "C12: an entry larger than max_proxy_blob_size was fetched")
	}
	if po.class == "found" && !po.serr && rs.healthy {
		if !bytes.Equal(po.data, e.repr(en, s.m)) {
			fails = append(fails, "C12: the proxy delivered other bytes than the backend object")
		}
	}
	// a fetched entry is cached: the second read is local, whatever the backend does then
	if do.class == "hit" && rs.healthy {
		e.breakBackend(s, rs.hash)
		d2 := obsDisk(dc, s.kind, rs.hash, req, false)
		e.rep.Evaluations++
		if d2.class != "hit" || !bytes.Equal(d2.data, rs.expected) {
			fails = append(fails, "C12: the entry fetched from the backend is not served locally afterwards ("+d2.class+")")
		}
	}

	var term string
	ob := fmt.Sprintf("(mkObj %d %d)", rs.obFull, rs.obLog)
	if s.be == beHTTP || s.be == beView {
		term = fmt.Sprintf("CHttpGet %s %s %s %s %s %s %s %s", CB(s.m == 1), ckind(s.kind), CZ(req), rs.src, ob, CZ(maxProxy), po.term(), do.term())
	} else {
		term = fmt.Sprintf("CGrpcGet %s %s %s %s %s %s %s %s %s", CB(s.m == 1), ckind(s.kind), CB(rs.hexOK), CZ(req), rs.src, ob, CZ(maxProxy), po.term(), do.term())
	}
	e.rep.Count("get." + beNames[s.be])
	e.rep.Count("get.fault." + s.fault)
	e.rep.Count("get.disk." + do.class)
	e.rep.Count("get.proxy." + po.class)
	e.rep.Count("kind." + s.kind.String())
	e.rep.Count("mode." + modes[s.m])
	e.flush(term, text, s.fault != "ok" || s.kind == cache.CAS, fails)
}

// make the backend useless for this entry
func (e *env) breakBackend(s getSpec, hash string) {
	switch s.be {
	case beHTTP:
		e.hb.mu.Lock()
		e.hb.get[httpPath(s.m, s.kind, hash)] = &wireScript{connClose: true}
		e.hb.mu.Unlock()
	case beView:
		e.vrt.mu.Lock()
		e.vrt.scripts[httpPath(s.m, s.kind, hash)] = &viewScript{transportErr: true}
		e.vrt.mu.Unlock()
	case beGRPC:
		e.gb.mu.Lock()
		e.gb.rd[hash] = &rdScript{firstCode: codes.Unavailable}
		e.gb.fb[hash] = &fbScript{rpcCode: codes.Unavailable}
		e.gb.acs[hash] = &acScript{getCode: codes.Unavailable}
		e.gb.mu.Unlock()
	}
}

// ---------------------------------------------------------------- Contains

type hasSpec struct {
	be, m        int
	kind         cache.EntryKind
	known, small bool
	size         int
	fault        string
	arg          int
}

func (e *env) runHas(s hasSpec) {
	en := e.mkEntry(s.kind, s.size, false)
	st := e.st[s.be][s.m]
	req := int64(-1)
	if s.known {
		req = int64(len(en.data))
	}
	maxProxy := int64(bigProxy)
	var dc disk.Cache = st.cacheR
	if s.small {
		maxProxy, dc = smallProxy, st.cacheS
	}
	hash := en.hash
	hexOK := true
	cancel := false
	present := false // the backend truthfully has it
	var src string
	L := len(en.data)
	if s.kind == cache.CAS && s.m == 1 {
		L = len(e.repr(en, s.m))
	}
	switch s.be {
	case beHTTP:
		path := httpPath(s.m, s.kind, hash)
		ws := &wireScript{status: 200, cl: clNum, clVal: int64(L)}
		switch s.fault {
		case "ok":
			present = true
		case "status":
			ws.status = s.arg
		case "conn-close":
			ws.connClose = true
		case "cancelled":
			cancel = true
		case "cl-none":
			ws.cl = clNone
			present = true
		case "cl-junk":
			ws.cl = clJunk
		case "cl-other":
			ws.clVal = int64(L + 5)
		default:
			panic("unknown http has fault " + s.fault)
		}
		e.hb.mu.Lock()
		e.hb.head[path] = ws
		e.hb.mu.Unlock()
		if ws.connClose || cancel {
			src = "(HWire WConnClosed)"
		} else {
			cl := "WCLNone"
			if ws.cl == clNum {
				cl = "(WCLNum " + CZ(ws.clVal) + ")"
			} else if ws.cl == clJunk {
				cl = "WCLJunk"
			}
			src = fmt.Sprintf("(HWire (WResp (mkWire %d %s 0 true 0)))", ws.status, cl)
		}
	case beGRPC:
		ac, fbT, fmT := "", "", ""
		if s.kind != cache.CAS {
			as := &acScript{}
			ac = "(ACOk " + CZ(int64(len(en.data))) + ")"
			switch s.fault {
			case "ok":
				present = true
			case "code":
				as.getCode = codes.Code(s.arg)
				ac = "(ACErr " + CZ(int64(s.arg)) + ")"
			case "cancelled":
				cancel = true
				ac = "(ACErr 1)"
			default:
				panic("unknown grpc ac has fault " + s.fault)
			}
			e.gb.mu.Lock()
			e.gb.ac[hash] = en.data
			e.gb.acs[hash] = as
			e.gb.mu.Unlock()
		} else if s.known {
			fm := &fmScript{}
			switch s.fault {
			case "ok":
				present = true
			case "missing":
				fm.missing = s.arg
			case "rpc":
				fm.rpcCode = codes.Code(s.arg)
			case "cancelled":
				cancel = true
			default:
				panic("unknown grpc fm fault " + s.fault)
			}
			e.gb.mu.Lock()
			e.gb.fm[hash] = fm
			e.gb.mu.Unlock()
			if fm.rpcCode != codes.OK || cancel {
				fmT = "FMErr"
			} else {
				fmT = fmt.Sprintf("(FMResp %d)", fm.missing)
			}
		} else {
			fb := &fbScript{status: 0, digest: true, sizeByte: int64(len(en.data))}
			switch s.fault {
			case "ok":
				present = true
			case "fb-rpc":
				fb.rpcCode = codes.Code(s.arg)
			case "fb-status":
				fb.status = int32(s.arg)
			case "fb-size-abs":
				fb.sizeByte = int64(s.arg)
			case "fb-nil-digest":
				fb.digest = false
				fb.nilStat = s.arg == 1
			case "non-hex":
				hash = "zz" + hash[2:]
				hexOK = false
			case "cancelled":
				cancel = true
			default:
				panic("unknown grpc fb has fault " + s.fault)
			}
			e.gb.mu.Lock()
			e.gb.fb[hash] = fb
			e.gb.mu.Unlock()
			switch {
			case cancel:
				fbT = "(FBErr 1)"
			case fb.rpcCode != codes.OK:
				fbT = "(FBErr " + CZ(int64(fb.rpcCode)) + ")"
			default:
				d := "None"
				if fb.digest {
					d = "(Some " + CZ(fb.sizeByte) + ")"
				}
				st := fb.status
				if fb.nilStat {
					st = 0
				}
				fbT = fmt.Sprintf("(FBResp %d %s)", st, d)
			}
		}
		src = defaultG(ac, fbT, fmT, "")
	case beClosed:
		src = defaultG("(ACErr 1)", "(FBErr 1)", "FMErr", "(mkRd true [] false)")
	default:
		panic("contains: backend")
	}
	text := fmt.Sprintf("CONTAINS %s mode=%s %s logical=%d size-known=%v max_proxy=%d fault=%s/%d", beNames[s.be], modes[s.m], s.kind, len(en.data), s.known, maxProxy, s.fault, s.arg)
	var fails []string
	po := obsHas(st.proxy, s.kind, hash, req, cancel)
	dk := obsHas(dc, s.kind, hash, req, cancel)
	e.rep.Evaluations += 2
	if po.panicked || dk.panicked {
		fails = append(fails, "C12: a backend answer makes the proxy panic (nil BlobDigest in an OK FetchBlob response)")
	} else if s.fault == "fb-nil-digest" && (po.ok || dk.ok) {
		fails = append(fails, "C12: an OK FetchBlob answer without digest must make Contains answer no")
	}
	if !present && s.fault != "cl-other" && s.fault != "fb-size-abs" && dk.ok {
		fails = append(fails, "C12: Contains answers yes for a faulty backend answer ("+s.fault+")")
	}
	if dk.ok && s.known && dk.size >= 0 && dk.size != req {
		fails = append(fails, fmt.Sprintf("C12: Contains reports size %d for a request of size %d", dk.size, req))
	}
	if dk.ok && dk.size > maxProxy {
		fails = append(fails, "C12: Contains reports an entry larger than max_proxy_blob_size")
	}
	var term string
	if s.be == beHTTP {
		term = fmt.Sprintf("CHttpHas %s %s %s %s %s %s %s", CB(s.m == 1), ckind(s.kind), CZ(req), src, CZ(maxProxy), po.term(), dk.term())
	} else {
		term = fmt.Sprintf("CGrpcHas %s %s %s %s %s %s %s %s", CB(s.m == 1), ckind(s.kind), CB(hexOK), CZ(req), src, CZ(maxProxy), po.term(), dk.term())
	}
	e.rep.Count("contains." + beNames[s.be])
	e.rep.Count("contains.fault." + s.fault)
	e.rep.Count(fmt.Sprintf("contains.disk.%v", dk.ok))
	e.flush(term, text, s.fault != "ok", fails)
}
