// Command proxy is the correspondence driver for the layer of the REAL proxy backends below the
// disk cache (C12): httpproxy.New against an in-process HTTP server whose answers are scripted byte
// by byte, grpcproxy.New against an in-process grpc-go server with DEFAULT options (stock 4 MiB
// receive limit) implementing ByteStream / CAS / ActionCache / Capabilities / remote-asset Fetch with
// per-entry fault scripts, and real disk caches (both storage modes) on top of those proxies.
//
// Cases (one PRNG, deterministic regression cases first in every shard):
//
//	GET / CONTAINS  backend x storage mode x kind x size known/unknown, the backend healthy, failing
//	                before the response, answering each interesting status / gRPC code, cutting the
//	                stream at offset 0, 1, middle, last byte, failing after the last byte, lying in
//	                the size metadata (wrong, missing, negative, unparsable), oversize; observed at the
//	                proxy (Proxy.Get/Contains called directly, stream drained) and at disk.Cache;
//	UPLOAD          UploadFile of both proxies on scripted readers: every WriteRequest / HTTP request
//	                as seen on the wire, Close calls on the reader;
//	QUEUE           the bounded upload queue behind Put with the backend holding the uploads;
//	WRITE-THROUGH   disk.Cache.Put -> asynchronous upload -> a second cache reads the entry back;
//	                backend healthy, rejecting, failing, slow; 2 MiB + 1 and 4 MiB + 1 entries over gRPC.
//
// The Coq cases file evaluates Model/ProxyBackends.v (proxy_case_ok) on the same inputs.  Direct
// oracles (independent of the model): a hit never returns other bytes than the entry; every fault
// gives miss or error; a healthy backend object is served and then cached; after a healthy upload the
// backend holds exactly the bytes and a peer recovers the entry; a failing or slow backend neither
// delays nor fails the local Put; every WriteRequest fits a stock gRPC receiver; readers are closed;
// no goroutine, connection or file descriptor is left behind at the end of the shard.
//
// Regression F33: a FetchBlob answer "OK without blob_digest" (Get / Contains of a CAS entry of
// unknown size) must give an error / no, never a panic; generated first in every shard and in the
// random rotation.
package main

import (
	"fmt"
	"io"
	"log"
	"os"
	"runtime"
	"time"

	. "verifharness/hlib"

	"github.com/buchgr/bazel-remote/v2/cache"

	"google.golang.org/grpc/codes"
)

func main() { Main("proxy", driver) }

var kinds = []cache.EntryKind{cache.CAS, cache.AC, cache.RAW}
var sizes = []int{1, 2, 15, 16, 17, 100, 4095, 4096, 4097}
var httpStatuses = []int{201, 204, 206, 301, 302, 304, 400, 401, 403, 404, 404, 410, 500, 502, 503}
var grpcCodes = []int{1, 2, 4, 5, 5, 7, 8, 13, 14, 16}

func (e *env) pickSize() int {
	if e.r.Chance(20) {
		return 90000 + e.r.Intn(30000)
	}
	return sizes[e.r.Intn(len(sizes))]
}

// an offset of the stream: 0, 1, middle, last byte
func (e *env) pickOffset(n int) int {
	if n <= 1 {
		return 0
	}
	switch e.r.Intn(4) {
	case 0:
		return 0
	case 1:
		return 1
	case 2:
		return n / 2
	}
	return n - 1
}

func (e *env) randomGet() {
	s := getSpec{m: e.r.Intn(2), kind: kinds[e.r.Intn(3)], known: e.r.Chance(50), small: e.r.Chance(12), comp: e.r.Chance(40)}
	s.size = e.pickSize()
	if s.kind != cache.CAS && e.r.Chance(10) {
		s.size = 0
	}
	v2cas := s.m == 1 && s.kind == cache.CAS
	// length of the stored representation is only known after building the entry; offsets are drawn
	// against a lower bound of it (a v2 blob has at least 45 header bytes)
	lower := s.size
	if s.kind != cache.CAS && s.size > 4 {
		lower = s.size - 3
	}
	if v2cas && s.comp {
		lower = 60
	}
	switch b := e.r.Intn(100); {
	case b < 40:
		s.be = beHTTP
		faults := []string{"ok", "ok", "ok-chunked", "conn-close", "cancelled", "status", "status", "status", "cut", "cut", "cut", "chunked-noterm", "chunked-cut", "chunked-short-clean", "cl-plus", "cl-minus", "cl-junk", "cl-neg"}
		if v2cas {
			faults = append(faults, "hdr-zero", "hdr-neg", "other-blob", "cut")
		}
		s.fault = faults[e.r.Intn(len(faults))]
		switch s.fault {
		case "status":
			s.arg = httpStatuses[e.r.Intn(len(httpStatuses))]
		case "cut", "chunked-cut", "chunked-short-clean":
			if lower < 1 {
				s.fault = "conn-close"
			} else {
				s.arg = e.pickOffset(lower)
				if v2cas && e.r.Chance(30) {
					s.arg = []int{0, 8, 15, 16, 17, 44}[e.r.Intn(6)]
				}
			}
		case "cl-minus":
			if lower < 2 {
				s.fault = "cl-plus"
			}
		}
	case b < 52:
		s.be = beView
		faults := []string{"ok", "transport-err", "status", "cl-bad", "cl-absent", "cl-neg", "cl-short", "cl-long", "body-err"}
		s.fault = faults[e.r.Intn(len(faults))]
		if s.fault == "status" {
			s.arg = httpStatuses[e.r.Intn(len(httpStatuses))]
		}
		if s.fault == "cl-short" && lower < 2 {
			s.fault = "cl-long"
		}
	case b < 95:
		s.be = beGRPC
		if s.kind != cache.CAS {
			faults := []string{"ok", "ok", "code", "code", "code", "cancelled"}
			s.fault = faults[e.r.Intn(len(faults))]
			if s.fault == "code" {
				s.arg = grpcCodes[e.r.Intn(len(grpcCodes))]
			}
		} else {
			faults := []string{"ok", "ok", "first", "first", "cut", "cut", "cut", "end-err", "short-clean", "extra", "cancelled"}
			if !s.known {
				faults = append(faults, "fb-rpc", "fb-rpc", "fb-status", "fb-status", "fb-size", "fb-size", "fb-size-abs", "fb-nil-status", "fb-nil-digest", "non-hex")
			}
			s.fault = faults[e.r.Intn(len(faults))]
			switch s.fault {
			case "first", "fb-rpc":
				s.arg = grpcCodes[e.r.Intn(len(grpcCodes))]
			case "fb-status":
				s.arg = []int{5, 5, 13, 14, 2, 7}[e.r.Intn(6)]
			case "fb-size":
				s.arg = []int{1, -1, 4096, 7}[e.r.Intn(4)]
				if s.size+s.arg < 0 {
					s.arg = 1
				}
			case "fb-size-abs":
				s.arg = []int{-5, 0, -1, 1 << 41}[e.r.Intn(4)]
			case "fb-nil-digest":
				s.arg = e.r.Intn(2)
			case "cut", "short-clean":
				if lower < 1 {
					s.fault = "first"
					s.arg = 14
				} else {
					s.arg = e.pickOffset(lower)
				}
			}
		}
	default:
		s.be = beClosed
		s.fault = "closed"
	}
	e.runGet(s)
}

func (e *env) randomHas() {
	s := hasSpec{m: e.r.Intn(2), kind: kinds[e.r.Intn(3)], known: e.r.Chance(50), small: e.r.Chance(15), size: e.pickSize()}
	switch b := e.r.Intn(100); {
	case b < 45:
		s.be = beHTTP
		faults := []string{"ok", "ok", "status", "status", "conn-close", "cancelled", "cl-none", "cl-junk", "cl-other"}
		s.fault = faults[e.r.Intn(len(faults))]
		if s.fault == "status" {
			s.arg = httpStatuses[e.r.Intn(len(httpStatuses))]
		}
	case b < 93:
		s.be = beGRPC
		switch {
		case s.kind != cache.CAS:
			faults := []string{"ok", "code", "code", "cancelled"}
			s.fault = faults[e.r.Intn(len(faults))]
			if s.fault == "code" {
				s.arg = grpcCodes[e.r.Intn(len(grpcCodes))]
			}
		case s.known:
			faults := []string{"ok", "ok", "missing", "missing", "rpc", "cancelled"}
			s.fault = faults[e.r.Intn(len(faults))]
			if s.fault == "missing" {
				s.arg = 1 + e.r.Intn(3)
			}
			if s.fault == "rpc" {
				s.arg = grpcCodes[e.r.Intn(len(grpcCodes))]
			}
		default:
			faults := []string{"ok", "ok", "fb-rpc", "fb-status", "fb-size-abs", "fb-nil-digest", "non-hex", "cancelled"}
			s.fault = faults[e.r.Intn(len(faults))]
			switch s.fault {
			case "fb-rpc":
				s.arg = grpcCodes[e.r.Intn(len(grpcCodes))]
			case "fb-status":
				s.arg = []int{5, 13, 14}[e.r.Intn(3)]
			case "fb-size-abs":
				s.arg = []int{-5, 0, 77, 1 << 41}[e.r.Intn(4)]
			case "fb-nil-digest":
				s.arg = e.r.Intn(2)
			}
		}
	default:
		s.be = beClosed
		s.fault = "closed"
	}
	e.runHas(s)
}

func (e *env) randomUpload() {
	m := e.r.Intn(2)
	switch e.r.Intn(3) {
	case 0:
		sod := []int{0, 1, 100, 4096, 4097, 100000, 1 << 20}[e.r.Intn(7)]
		flen := sod
		if e.r.Chance(15) && sod > 1 {
			flen = sod + []int{-1, 5}[e.r.Intn(2)]
		}
		logical := []int64{int64(sod), 0, 9, 10, 99999, 100000, 1 << 40, 9223372036854775807}[e.r.Intn(8)]
		fault, at := "ok", 0
		switch e.r.Intn(6) {
		case 0:
			fault = "fail"
		case 1:
			fault = "closed"
		}
		e.runGrpcUp(m, logical, sod, flen, fault, at)
	case 1:
		kind := []cache.EntryKind{cache.AC, cache.RAW}[e.r.Intn(2)]
		size := []int{0, 5, 100, 4096, 50000}[e.r.Intn(5)]
		parses := !(kind == cache.RAW && e.r.Chance(40))
		code := codes.OK
		if e.r.Chance(30) {
			code = codes.Code([]int{7, 8, 13, 14}[e.r.Intn(4)])
		}
		e.runGrpcAcUp(m, kind, size, parses, code)
	default:
		kind := kinds[e.r.Intn(3)]
		size := []int{1, 100, 4096, 4097, 50000}[e.r.Intn(5)]
		if kind != cache.CAS && e.r.Chance(25) {
			size = 0
		}
		head, hs := "404", 404
		switch e.r.Intn(5) {
		case 0:
			head, hs = "200", 200
		case 1:
			head, hs = "500", []int{500, 403, 204, 301}[e.r.Intn(4)]
		case 2:
			head, hs = "close", 0
		}
		put, ps := "200", 200
		switch e.r.Intn(4) {
		case 0:
			put, ps = "status", []int{500, 201, 403, 507}[e.r.Intn(4)]
		case 1:
			put, ps = "close", 0
		}
		e.runHttpUp(m, kind, size, head, hs, put, ps)
	}
}

func (e *env) randomWriteThrough() {
	be := []int{beHTTP, beGRPC}[e.r.Intn(2)]
	kind := kinds[e.r.Intn(3)]
	size := e.pickSize()
	if kind != cache.CAS && e.r.Chance(10) {
		size = 0
	}
	fault := []string{"ok", "ok", "ok", "reject", "connerr", "slow"}[e.r.Intn(6)]
	e.runWriteThrough(be, e.r.Intn(2), kind, size, e.r.Chance(40), fault)
}

func (e *env) randomQueue() {
	e.runQueue(e.r.Chance(50), e.r.Intn(2), e.r.Intn(3), e.r.Intn(4), e.r.Intn(5))
}

func (e *env) randomCase() {
	switch b := e.r.Intn(100); {
	case b < 50:
		e.randomGet()
	case b < 65:
		e.randomHas()
	case b < 80:
		e.randomUpload()
	case b < 95:
		e.randomWriteThrough()
	default:
		e.randomQueue()
	}
}

// deterministic cases, first in every shard
func (e *env) regression() []func() {
	big2, big4 := 2<<20+1, 4<<20+1
	return []func(){
		// F33: FetchBlob answers OK (explicitly / with no status at all) without a blob_digest
		func() {
			e.runGet(getSpec{be: beGRPC, m: 0, kind: cache.CAS, known: false, size: 100, fault: "fb-nil-digest"})
		},
		func() {
			e.runGet(getSpec{be: beGRPC, m: 1, kind: cache.CAS, known: false, size: 4097, fault: "fb-nil-digest", arg: 1})
		},
		func() {
			e.runHas(hasSpec{be: beGRPC, m: 1, kind: cache.CAS, known: false, size: 100, fault: "fb-nil-digest"})
		},
		func() {
			e.runHas(hasSpec{be: beGRPC, m: 0, kind: cache.CAS, known: false, size: 100, fault: "fb-nil-digest", arg: 1})
		},
		// the large gRPC entries, both directions, both storage modes (incompressible content)
		func() { e.runWriteThrough(beGRPC, 0, cache.CAS, big4, false, "ok") },
		func() { e.runWriteThrough(beGRPC, 1, cache.CAS, big2, false, "ok") },
		func() { e.runGrpcUp(1, int64(big4), big4, big4, "ok", 0) },
		func() { e.runGrpcUp(0, int64(big2), big2, big2, "ok", 0) },
		func() { e.runGrpcUp(0, 2<<20, 2<<20, 2<<20, "ok", 0) },
		func() { e.runGrpcUp(0, 0, 0, 0, "ok", 0) },
		// one healthy read and one fault per backend
		func() { e.runGet(getSpec{be: beHTTP, m: 1, kind: cache.CAS, known: false, size: 4097, fault: "ok"}) },
		func() {
			e.runGet(getSpec{be: beHTTP, m: 0, kind: cache.CAS, known: true, size: 4097, fault: "cut", arg: 4096})
		},
		func() {
			e.runGet(getSpec{be: beHTTP, m: 0, kind: cache.AC, known: false, size: 100, fault: "status", arg: 204})
		},
		func() {
			e.runGet(getSpec{be: beHTTP, m: 1, kind: cache.CAS, known: true, size: 4096, fault: "chunked-noterm"})
		},
		func() {
			e.runGet(getSpec{be: beHTTP, m: 0, kind: cache.AC, known: false, size: 0, fault: "status", arg: 204})
		},
		func() {
			e.runGet(getSpec{be: beHTTP, m: 1, kind: cache.RAW, known: false, size: 0, fault: "status", arg: 206})
		},
		func() { e.runGet(getSpec{be: beView, m: 0, kind: cache.RAW, known: false, size: 100, fault: "cl-neg"}) },
		func() {
			e.runGet(getSpec{be: beGRPC, m: 0, kind: cache.CAS, known: true, size: 4097, fault: "end-err"})
		},
		func() { e.runGet(getSpec{be: beGRPC, m: 1, kind: cache.CAS, known: false, size: 4096, fault: "ok"}) },
		func() {
			e.runGet(getSpec{be: beGRPC, m: 1, kind: cache.CAS, known: false, size: 4096, fault: "fb-status", arg: 5})
		},
		func() {
			e.runGet(getSpec{be: beGRPC, m: 0, kind: cache.AC, known: false, size: 100, fault: "code", arg: 5})
		},
		func() {
			e.runGet(getSpec{be: beClosed, m: 0, kind: cache.CAS, known: true, size: 100, fault: "closed"})
		},
		func() {
			e.runGet(getSpec{be: beGRPC, m: 0, kind: cache.CAS, known: false, small: true, size: 4097, fault: "ok"})
		},
		func() {
			e.runHas(hasSpec{be: beGRPC, m: 0, kind: cache.CAS, known: true, size: 100, fault: "missing", arg: 2})
		},
		func() { e.runHas(hasSpec{be: beHTTP, m: 1, kind: cache.CAS, known: false, size: 100, fault: "ok"}) },
		func() { e.runQueue(true, 0, 1, 2, 4) },
		func() { e.runQueue(false, 1, 2, 1, 3) },
		func() { e.runQueue(false, 0, 0, 3, 2) },
		func() { e.runWriteThrough(beHTTP, 1, cache.CAS, 100000, true, "slow") },
		func() { e.runWriteThrough(beHTTP, 0, cache.AC, 0, false, "ok") },
		func() { e.runWriteThrough(beGRPC, 0, cache.RAW, 4096, false, "reject") },
		func() { e.runHttpUp(1, cache.CAS, 4097, "200", 200, "200", 200) },
		func() { e.runGrpcAcUp(0, cache.RAW, 100, false, codes.OK) },
	}
}

func driver(seed uint64, n int, outV, outJSON string, _ []string) {
	log.SetOutput(io.Discard)
	// a case that hangs must not hang the check
	wd := time.AfterFunc(9*time.Minute, func() {
		buf := make([]byte, 1<<20)
		fmt.Fprintf(os.Stderr, "proxy driver: watchdog\n%s\n", buf[:runtime.Stack(buf, true)])
		os.Exit(3)
	})
	defer wd.Stop()
	rep := NewReport("proxy", seed)
	rep.Rule = "generated (backend in {http over the real client, http response handed in directly, grpc, grpc over a closed connection} x storage mode x kind x size known/unknown x max_proxy_blob_size) with one fault (none, before the response, status / code, size metadata, stream cut at offset 0 / 1 / middle / last byte, error after the last byte, oversize) for Get and Contains; UploadFile on scripted readers; queue; write-through; a case is non-trivial if it carries a fault or is a CAS entry; distinct = distinct case texts among those"
	fd0 := fdCount()
	e := newEnv(seed, rep)
	for _, f := range e.regression() {
		if len(e.cases) >= n {
			break
		}
		f()
	}
	for len(e.cases) < n {
		e.randomCase()
	}

	// nothing is left behind: no call or connection of a proxy is still alive once every request
	// context has ended, and after shutting the fixture down the descriptors are back
	for _, t := range e.htr {
		t.CloseIdleConnections()
	}
	leaked, sample := 0, ""
	for i := 0; i < 1800; i++ { // up to 90 s on a heavily loaded machine; returns as soon as it is clean
		leaked, sample = leakedGoroutines()
		if leaked == 0 {
			break
		}
		time.Sleep(50 * time.Millisecond)
	}
	if leaked > 0 {
		rep.Fail(len(e.cases)-1, fmt.Sprintf("C12: %d goroutines of backend calls / connections are still alive at the end of the shard", leaked), sample)
	}
	e.closeAll()
	fd1 := fd0
	for i := 0; i < 1200; i++ {
		fd1 = fdCount()
		if fd1 <= fd0+8 {
			break
		}
		time.Sleep(50 * time.Millisecond)
	}
	if fd0 >= 0 && fd1 > fd0+8 {
		rep.Fail(len(e.cases)-1, fmt.Sprintf("C12: %d file descriptors open at the end of the shard, %d at its start", fd1, fd0), "")
	}
	rep.Cases = len(e.cases)
	rep.CaseTexts = e.texts
	WriteCases(outV, "Model.LRU Model.Disk Model.ProxyBackends", "pcase", "proxy_case_ok", e.cases)
	rep.Write(outJSON)
}
