package main

// The write side: UploadFile of both proxies called directly on scripted readers (exact comparison
// with the model's traces), the bounded upload queue behind Put, and write-through end to end
// (disk.Cache.Put -> asynchronous upload -> a second cache reads the entry back from the backend).

import (
	"bytes"
	"context"
	"fmt"
	"os"
	"path/filepath"
	"strings"
	"time"

	. "verifharness/hlib"

	"github.com/buchgr/bazel-remote/v2/cache"
	pb "github.com/buchgr/bazel-remote/v2/genproto/build/bazel/remote/execution/v2"
	"github.com/buchgr/bazel-remote/v2/utils/backendproxy"

	"google.golang.org/grpc/codes"
	"google.golang.org/protobuf/proto"
)

const grpcDefaultMaxRecv = 4194304

func optNat(i int) string {
	if i < 0 {
		return "None"
	}
	return fmt.Sprintf("(Some %d%%nat)", i)
}

func sendTerms(log []sendRec) (msgs, sizes string, rnlen int, failAt int, total int) {
	var ms, ss []string
	failAt = -1
	for i, r := range log {
		ms = append(ms, fmt.Sprintf("(%s, %d)", CB(r.hasRn), r.data))
		ss = append(ss, fmt.Sprintf("%d", r.size))
		if i == 0 {
			rnlen = r.rnLen
		}
		if r.err && failAt < 0 {
			failAt = i
		}
		total += r.data
	}
	return CList(ms), CList(ss), rnlen, failAt, total
}

func (e *env) freshHash(tag string) string {
	e.uniq++
	return sha([]byte(fmt.Sprintf("%s/%d/%d", tag, e.r.Next(), e.uniq)))
}

// checks on the client-side log of one upload that do not depend on the model
func (e *env) uploadOracles(hash string, log []sendRec, fails *[]string) {
	for i, r := range log {
		if r.size > grpcDefaultMaxRecv {
			*fails = append(*fails, fmt.Sprintf("C12: WriteRequest %d of the upload is %d bytes, more than the %d a stock gRPC server accepts", i, r.size, grpcDefaultMaxRecv))
			break
		}
	}
	e.gb.mu.Lock()
	fin, off, n := e.gb.finish[hash], e.gb.offsets[hash], e.gb.nmsgs[hash]
	e.gb.mu.Unlock()
	if n > 0 && fin == 0 {
		e.rep.Count("obs.grpc-upload-without-finish_write")
	}
	if off > 0 {
		e.rep.Count("obs.grpc-upload-later-chunk-with-write_offset-0")
	}
}

// ---- grpcproxy.UploadFile, CAS

func (e *env) runGrpcUp(m int, logical int64, sod, flen int, fault string, failAt int) {
	hash := e.freshHash("up")
	content := e.r.Bytes(flen)
	rc := newCountRC(content)
	be := beGRPC
	if fault == "closed" {
		be = beClosed
	}
	if fault == "fail" {
		e.gb.mu.Lock()
		e.gb.wr[hash] = &wrScript{failCode: codes.Unavailable, failAt: failAt}
		e.gb.mu.Unlock()
	}
	up := e.st[be][m].proxy.(backendproxy.Uploader)
	done := make(chan struct{})
	go func() {
		defer close(done)
		up.UploadFile(backendproxy.UploadReq{Hash: hash, LogicalSize: logical, SizeOnDisk: int64(sod), Kind: cache.CAS, Rc: rc})
	}()
	var fails []string
	select {
	case <-done:
	case <-time.After(2 * callTimeout):
		fails = append(fails, "C12: UploadFile did not return")
	}
	e.rep.Evaluations++
	log := e.slog.of(hash)
	msgs, sizes, rnlen, fa, total := sendTerms(log)
	text := fmt.Sprintf("UPLOAD grpc mode=%s cas logical=%d size-on-disk=%d file=%d fault=%s/%d -> %d requests, %d bytes", modes[m], logical, sod, flen, fault, failAt, len(log), total)
	e.uploadOracles(hash, log, &fails)
	if rc.nCloses() != 1 {
		fails = append(fails, fmt.Sprintf("C12: the uploaded file's reader was closed %d times", rc.nCloses()))
	}
	if fault == "ok" && flen > 0 && sod > 0 {
		got, ok := e.gb.casBytes(hash)
		if !ok || !bytes.Equal(got, content) {
			fails = append(fails, fmt.Sprintf("C12: after a healthy upload the backend does not hold the %d bytes of the file (has it: %v, %d bytes)", flen, ok, len(got)))
		}
	}
	if fault != "ok" {
		if _, ok := e.gb.casBytes(hash); ok {
			fails = append(fails, "C12: a failed upload left an object at the backend")
		}
	}
	term := fmt.Sprintf("CGrpcUp %s %s %d %d %s %s %s %s %d %d", CB(m == 1), CZ(logical), sod, flen, CB(fault == "closed"), optNat(fa), msgs, sizes, rnlen, rc.nCloses())
	e.rep.Count("upload.grpc-cas")
	e.rep.Count("upload.fault." + fault)
	e.flush(term, text, true, fails)
}

// ---- grpcproxy.UploadFile, AC / RAW

func (e *env) runGrpcAcUp(m int, kind cache.EntryKind, size int, parses bool, updCode codes.Code) {
	en := e.mkEntry(kind, size, false)
	content := en.data
	if !parses {
		content = append([]byte{0xff, 0xff, 0xff, 0xff}, content...) // no valid field tag
	}
	if err := proto.Unmarshal(content, &pb.ActionResult{}); (err == nil) != parses {
		panic("parse oracle")
	}
	hash := en.hash
	if updCode != codes.OK {
		e.gb.mu.Lock()
		e.gb.acs[hash] = &acScript{updCode: updCode}
		e.gb.mu.Unlock()
	}
	rc := newCountRC(content)
	up := e.st[beGRPC][m].proxy.(backendproxy.Uploader)
	done := make(chan struct{})
	go func() {
		defer close(done)
		up.UploadFile(backendproxy.UploadReq{Hash: hash, LogicalSize: int64(len(content)), SizeOnDisk: int64(len(content)), Kind: kind, Rc: rc})
	}()
	var fails []string
	select {
	case <-done:
	case <-time.After(2 * callTimeout):
		fails = append(fails, "C12: UploadFile did not return")
	}
	e.rep.Evaluations++
	ups := e.gb.updatesOf(hash)
	updated, dsize := len(ups) > 0, int64(0)
	if updated {
		dsize = ups[0].size
	}
	if len(ups) > 1 {
		fails = append(fails, "C12: one UploadFile sent more than one UpdateActionResult")
	}
	if rc.nCloses() != 1 {
		fails = append(fails, fmt.Sprintf("C12: the uploaded file's reader was closed %d times", rc.nCloses()))
	}
	if parses && updCode == codes.OK {
		got, ok := e.gb.acBytes(hash)
		if !ok || !bytes.Equal(got, content) {
			fails = append(fails, "C12: after a healthy upload the backend does not hold the action result")
		}
	} else if _, ok := e.gb.acBytes(hash); ok {
		fails = append(fails, "C12: a failed upload left an action result at the backend")
	}
	if !parses {
		e.rep.Count("obs.grpc-raw-entry-that-is-no-ActionResult-not-uploaded")
	}
	text := fmt.Sprintf("UPLOAD grpc mode=%s %s size=%d parses=%v backend-code=%d -> updated=%v", modes[m], kind, len(content), parses, updCode, updated)
	term := fmt.Sprintf("CGrpcAcUp %d %d %s %s %s %s", len(content), len(content), CB(parses), CB(updCode == codes.OK), CB(updated), CZ(dsize))
	e.rep.Count("upload.grpc-ac")
	e.flush(term, text, !parses || updCode != codes.OK, fails)
}

// ---- httpproxy.UploadFile

func replyTerm(kind string, status int) string {
	if kind == "close" {
		return "HTransportErr"
	}
	return fmt.Sprintf("(HReply (mkHResp %d CLAbsent 0 0 false 0))", status)
}

func (e *env) runHttpUp(m int, kind cache.EntryKind, size int, head string, headStatus int, put string, putStatus int) {
	en := e.mkEntry(kind, size, false)
	content := en.data
	if kind == cache.CAS {
		content = e.repr(en, m)
	}
	path := httpPath(m, kind, en.hash)
	e.hb.mu.Lock()
	e.hb.head[path] = &wireScript{connClose: head == "close", status: headStatus, cl: clNum, clVal: 0}
	e.hb.put[path] = &putScript{connClose: put == "close", status: putStatus}
	e.hb.mu.Unlock()
	rc := newCountRC(content)
	up := e.st[beHTTP][m].proxy.(backendproxy.Uploader)
	done := make(chan struct{})
	go func() {
		defer close(done)
		up.UploadFile(backendproxy.UploadReq{Hash: en.hash, LogicalSize: int64(len(en.data)), SizeOnDisk: int64(len(content)), Kind: kind, Rc: rc})
	}()
	var fails []string
	select {
	case <-done:
	case <-time.After(2 * callTimeout):
		fails = append(fails, "C12: UploadFile did not return")
	}
	e.rep.Evaluations++
	var reqs []string
	puts := 0
	for _, r := range e.hb.requests(path) {
		if r.method == "HEAD" {
			reqs = append(reqs, "(false, 0)")
		} else {
			reqs = append(reqs, fmt.Sprintf("(true, %s)", CZ(r.clen)))
			puts++
			if r.clen != int64(len(content)) {
				fails = append(fails, fmt.Sprintf("C12: the PUT announces %d bytes for a file of %d", r.clen, len(content)))
			}
		}
	}
	closes := rc.nCloses()
	if closes < 1 {
		fails = append(fails, "C12: the uploaded file's reader was never closed")
	}
	if closes > 1 {
		e.rep.Count("obs.http-upload-reader-closed-more-than-once")
		closes = 1 // net/http may close a request body again on its error paths; Close is idempotent for *os.File
	}
	got, ok := e.hb.stored(path)
	healthy := !(head != "close" && headStatus == 200) && put != "close" && putStatus == 200
	if healthy && (!ok || !bytes.Equal(got, content)) {
		fails = append(fails, "C12: after a healthy upload the backend does not hold the bytes of the file")
	}
	if !healthy && ok {
		fails = append(fails, "C12: a skipped or failed upload left an object at the backend")
	}
	if puts > 1 {
		fails = append(fails, "C12: one UploadFile sent more than one PUT")
	}
	text := fmt.Sprintf("UPLOAD http mode=%s %s logical=%d size-on-disk=%d head=%s/%d put=%s/%d -> %d requests", modes[m], kind, len(en.data), len(content), head, headStatus, put, putStatus, len(reqs))
	term := fmt.Sprintf("CHttpUp %d %d %s %s %s %d", len(en.data), len(content), replyTerm(head, headStatus), replyTerm(put, putStatus), CList(reqs), closes)
	e.rep.Count("upload.http")
	e.flush(term, text, head != "404" || put != "200", fails)
}

// ---- the queue behind Put

func (e *env) runQueue(useGRPC bool, m int, workers, capacity, extra int) {
	var p cache.Proxy
	errBefore := e.errLog.count("too many uploads queued")
	if useGRPC {
		p = e.newGRPCProxy(modes[m], false, workers, capacity)
	} else {
		p = e.newHTTPProxy(modes[m], false, workers, capacity)
	}
	enabled := workers > 0 && capacity > 0
	first := 0
	if enabled {
		first = workers
	}
	total := first + extra
	hashes := make([]string, total)
	keys := map[string]int{} // what the backend reports when an upload starts -> item
	gates := make([]chan struct{}, total)
	rcs := make([]*countRC, total)
	for i := 0; i < total; i++ {
		hashes[i] = e.freshHash("queue")
		gates[i] = make(chan struct{})
		rcs[i] = newCountRC(e.r.Bytes(64))
		if useGRPC {
			keys[hashes[i]] = i
			e.gb.mu.Lock()
			e.gb.wr[hashes[i]] = &wrScript{gate: gates[i]}
			e.gb.mu.Unlock()
		} else {
			path := httpPath(m, cache.CAS, hashes[i])
			keys[path] = i
			e.hb.mu.Lock()
			e.hb.put[path] = &putScript{gate: gates[i], status: 200}
			e.hb.mu.Unlock()
		}
	}
	started := e.hb.started
	if useGRPC {
		started = e.gb.started
	}
	for len(started) > 0 { // signals left by earlier cases
		<-started
	}
	var fails []string
	var evs []string
	var startOrder, dropped []string
	put := func(i int) bool {
		done := make(chan struct{})
		go func() {
			defer close(done)
			p.Put(context.Background(), cache.CAS, hashes[i], 64, 64, rcs[i])
		}()
		select {
		case <-done:
			return true
		case <-time.After(callTimeout):
			fails = append(fails, fmt.Sprintf("C12: Put %d blocks while the backend is holding the uploads", i))
			return false
		}
	}
	waitStart := func(want int) bool {
		select {
		case k := <-started:
			if keys[k] != want {
				fails = append(fails, fmt.Sprintf("C12: upload of item %d started, expected item %d", keys[k], want))
			}
			startOrder = append(startOrder, fmt.Sprintf("%d%%nat", keys[k]))
			return true
		case <-time.After(callTimeout):
			fails = append(fails, fmt.Sprintf("C12: the upload of queued item %d never started", want))
			return false
		}
	}
	ok := true
	var running, queued []int
	for i := 0; i < first && ok; i++ {
		ok = put(i)
		evs = append(evs, "QPut")
		if ok {
			ok = waitStart(i)
			evs = append(evs, "QTake")
			running = append(running, i)
		}
	}
	for i := first; i < total && ok; i++ {
		ok = put(i)
		evs = append(evs, "QPut")
		if rcs[i].nCloses() > 0 {
			dropped = append(dropped, fmt.Sprintf("%d%%nat", i))
		} else {
			queued = append(queued, i)
		}
	}
	for len(running) > 0 && ok {
		id := running[0]
		running = running[1:]
		close(gates[id])
		gates[id] = nil
		if !rcs[id].wait(callTimeout) {
			fails = append(fails, fmt.Sprintf("C12: the reader of uploaded item %d was never closed", id))
			ok = false
			break
		}
		evs = append(evs, fmt.Sprintf("QFinish %d", id))
		if len(queued) > 0 {
			ok = waitStart(queued[0])
			evs = append(evs, "QTake")
			running = append(running, queued[0])
			queued = queued[1:]
		}
	}
	for _, g := range gates { // never leave a backend handler blocked
		if g != nil {
			close(g)
		}
	}
	time.Sleep(20 * time.Millisecond)
	allOnce := true
	for i := range rcs {
		n := rcs[i].nCloses()
		if n < 1 || (useGRPC && n != 1) {
			allOnce = false
			fails = append(fails, fmt.Sprintf("C12: the reader of item %d was closed %d times", i, n))
		}
	}
	if enabled {
		if got := e.errLog.count("too many uploads queued") - errBefore; got != len(dropped) {
			fails = append(fails, fmt.Sprintf("C12: %d uploads refused but %d refusals logged", len(dropped), got))
		}
	}
	e.rep.Evaluations += total
	kindName := "http"
	if useGRPC {
		kindName = "grpc"
	}
	text := fmt.Sprintf("QUEUE %s num_uploaders=%d max_queued_uploads=%d: %d uploads held at the backend, then %d more Puts -> refused %v", kindName, workers, capacity, first, extra, dropped)
	term := fmt.Sprintf("CQueue %s %s %s %s %s %d%%nat %s", CZ(int64(workers)), CZ(int64(capacity)), CList(evs), CList(dropped), CList(startOrder), total, CB(allOnce && ok))
	e.rep.Count("queue." + kindName)
	e.flush(term, text, true, fails)
}

// ---- write-through end to end

func findFile(dir, hash string) (int64, bool) {
	var size int64 = -1
	_ = filepath.Walk(dir, func(p string, info os.FileInfo, err error) error {
		if err == nil && !info.IsDir() && strings.Contains(filepath.Base(p), hash) {
			size = info.Size()
		}
		return nil
	})
	return size, size >= 0
}

func waitFor(cond func() bool, d time.Duration) bool {
	deadline := time.Now().Add(d)
	for {
		if cond() {
			return true
		}
		if time.Now().After(deadline) {
			return false
		}
		time.Sleep(5 * time.Millisecond)
	}
}

func (e *env) runWriteThrough(be, m int, kind cache.EntryKind, size int, comp bool, fault string) {
	en := e.mkEntry(kind, size, comp)
	st := e.st[be][m]
	path := httpPath(m, kind, en.hash)
	gate := make(chan struct{})
	released := false
	release := func() {
		if !released {
			released = true
			close(gate)
		}
	}
	defer release()
	putReply := "200"
	updOK := true
	switch be {
	case beHTTP:
		ps := &putScript{status: 200}
		switch fault {
		case "reject":
			ps.status = 500
			putReply = "500"
		case "connerr":
			ps.connClose = true
			putReply = "close"
		case "slow":
			ps.gate = gate
		}
		e.hb.mu.Lock()
		e.hb.put[path] = ps
		e.hb.mu.Unlock()
	case beGRPC:
		if kind == cache.CAS {
			ws := &wrScript{}
			switch fault {
			case "reject":
				ws.failCode = codes.PermissionDenied
			case "connerr":
				ws.failCode = codes.Unavailable
			case "slow":
				ws.gate = gate
			}
			e.gb.mu.Lock()
			e.gb.wr[en.hash] = ws
			e.gb.mu.Unlock()
		} else {
			as := &acScript{}
			switch fault {
			case "reject":
				as.updCode = codes.PermissionDenied
			case "connerr":
				as.updCode = codes.Unavailable
			case "slow":
				as.gate = gate
			}
			updOK = as.updCode == codes.OK
			e.gb.mu.Lock()
			e.gb.acs[en.hash] = as
			e.gb.mu.Unlock()
		}
	}
	var fails []string
	text := fmt.Sprintf("WRITE-THROUGH %s mode=%s %s size=%d compressible=%v backend=%s", beNames[be], modes[m], kind, len(en.data), comp, fault)

	// the local Put is acknowledged whatever the backend does, and does not wait for it
	putDone := make(chan error, 1)
	go func() {
		ctx, cancel := ctxFor(false)
		defer cancel()
		putDone <- st.cacheA.Put(ctx, kind, en.hash, int64(len(en.data)), bytes.NewReader(en.data))
	}()
	select {
	case err := <-putDone:
		if err != nil {
			fails = append(fails, "C12: the local Put failed: "+err.Error())
		}
	case <-time.After(callTimeout):
		fails = append(fails, "C12: the local Put waits for the backend")
	}
	e.rep.Evaluations++
	if d := obsDisk(st.cacheA, kind, en.hash, int64(len(en.data)), false); d.class != "hit" || !bytes.Equal(d.data, en.data) {
		fails = append(fails, "C12: the acknowledged entry is not served locally ("+d.class+")")
	}
	release()

	atBackend := func() ([]byte, bool) {
		switch {
		case be == beHTTP:
			return e.hb.stored(path)
		case kind == cache.CAS:
			return e.gb.casBytes(en.hash)
		}
		return e.gb.acBytes(en.hash)
	}
	seen := func() bool { // the backend has seen the upload attempt
		switch {
		case be == beHTTP:
			for _, r := range e.hb.requests(path) {
				if r.method == "PUT" {
					return true
				}
			}
			return false
		case kind == cache.CAS:
			e.gb.mu.Lock()
			defer e.gb.mu.Unlock()
			return e.gb.nmsgs[en.hash] > 0
		}
		return len(e.gb.updatesOf(en.hash)) > 0
	}
	healthy := fault == "ok" || fault == "slow"
	if healthy {
		if !waitFor(func() bool { _, ok := atBackend(); return ok }, callTimeout) {
			fails = append(fails, "C12: an acknowledged upload never reached a healthy backend")
		}
	} else {
		if !waitFor(seen, callTimeout) {
			fails = append(fails, "C12: the upload was never attempted")
		}
		if !waitFor(func() bool { return e.uploadLogged(en.hash) }, callTimeout) {
			fails = append(fails, "C12: the failing upload never ended")
		}
		if _, ok := atBackend(); ok {
			fails = append(fails, "C12: a refused upload left an object at the backend")
		}
	}
	sod, haveFile := findFile(e.dirOf[st.cacheA], en.hash)
	if !haveFile {
		fails = append(fails, "C12: no file for the acknowledged entry")
	}
	if got, ok := atBackend(); healthy && ok {
		if int64(len(got)) != sod {
			fails = append(fails, fmt.Sprintf("C12: the backend holds %d bytes, the file on disk has %d", len(got), sod))
		}
		if (kind != cache.CAS || m == 0) && !bytes.Equal(got, en.data) {
			fails = append(fails, "C12: the backend object differs from the entry")
		}
		// a peer in the same storage mode recovers the identical blob, and caches it
		req := int64(len(en.data))
		if e.r.Chance(40) {
			req = -1
		}
		d := obsDisk(st.cacheR, kind, en.hash, req, false)
		if d.class != "hit" || !bytes.Equal(d.data, en.data) || d.size != int64(len(en.data)) {
			fails = append(fails, fmt.Sprintf("C12: a second cache does not recover the entry from the backend (%s, %d bytes)", d.class, len(d.data)))
		} else {
			e.breakBackend(getSpec{be: be, m: m, kind: kind}, en.hash)
			if d2 := obsDisk(st.cacheR, kind, en.hash, req, false); d2.class != "hit" || !bytes.Equal(d2.data, en.data) {
				fails = append(fails, "C12: the entry read through is not cached by the second cache")
			}
		}
		e.rep.Evaluations += 2
	}

	// the model on what was observed
	var term string
	switch {
	case be == beHTTP:
		var reqs []string
		for _, r := range e.hb.requests(path) {
			if r.method == "HEAD" {
				reqs = append(reqs, "(false, 0)")
			} else {
				reqs = append(reqs, fmt.Sprintf("(true, %s)", CZ(r.clen)))
			}
		}
		term = fmt.Sprintf("CHttpUp %d %d %s %s %s 1", len(en.data), sod, replyTerm("404", 404), replyTerm(putReply, 200), CList(reqs))
	case kind == cache.CAS:
		// the writer's proxy belongs to cacheA; its requests went through the recorded connection
		waitFor(func() bool { return e.uploadLogged(en.hash) }, callTimeout)
		log := e.slog.of(en.hash)
		msgs, sizes, rnlen, fa, _ := sendTerms(log)
		e.uploadOracles(en.hash, log, &fails)
		term = fmt.Sprintf("CGrpcUp %s %d %d %d false %s %s %s %d 1", CB(m == 1), len(en.data), sod, sod, optNat(fa), msgs, sizes, rnlen)
	default:
		ups := e.gb.updatesOf(en.hash)
		dsize := int64(0)
		if len(ups) > 0 {
			dsize = ups[0].size
		}
		term = fmt.Sprintf("CGrpcAcUp %d %d true %s %s %s", len(en.data), sod, CB(updOK), CB(len(ups) > 0), CZ(dsize))
	}
	e.rep.Count("writethrough." + beNames[be])
	e.rep.Count("writethrough.backend." + fault)
	e.rep.Count("kind." + kind.String())
	e.rep.Count("mode." + modes[m])
	e.flush(term, text, true, fails)
}
