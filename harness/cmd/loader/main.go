// Command loader is the correspondence driver for C09 (restart on an existing cache directory).
//
// Every case builds a directory population in a fresh temporary directory (current-layout files
// of all four name shapes, v0 and v1 legacy layouts, duplicate files for one key, lost+found
// directories and .DS_Store files at each level, access times set to pairwise distinct values),
// picks max_size relative to the population (larger / equal / smaller than the total / smaller
// than the largest file), runs the real disk.New on it and records: error or not, the recency
// list and Stats() after the eviction queue has drained, and the files left in the directory.
// The Coq model (Model/Load.v, case_ok) is evaluated on the same tree; independently of the
// model the driver applies the property's own statement (direct oracle).  A malformed stream
// (unexpected files and directories, near-miss file names, stray files in legacy directories)
// checks the error cases of the model.
//
// OBSERVATIONS OUTSIDE C09's POPULATION GRAMMAR (malformed directories; not request-triggered, not
// reported by the check; the generated malformed stream is restricted to shapes where start-up
// deterministically returns an error):
//
//  1. scanDir panics with "send on closed channel" (load.go, `scanResults <- scanResult{...}`)
//     instead of returning its error when the walk of the cache directory meets an unexpected
//     file or directory AFTER it has handed <kind>.v2/<xx> directories to the workers (any stray
//     name sorting after "ac.v2"): the early return runs the deferred close(scanResults) while
//     workers are still sending.  Reproduce: `loader repro-panic` (2 of 3 runs panic).
//  2. scanDir hangs for ever instead of returning an error when unrecognised files (e.g. macOS
//     .DS_Store, which IS tolerated at the two upper levels) sit in at least as many leaf
//     directories as there are workers (4..16): every worker returns at its first bad file and
//     stops draining the work channel, the dispatcher blocks on `dc <- dirPath`.
//     Reproduce: `loader repro-hang` (New does not return).
//  3. migrateDirectory's error path (a failing os.Rename of a v0 file, e.g. across file systems):
//     the worker blocks for ever on the unbuffered errChan when the failure happens on the last
//     items, otherwise the dispatcher closes itemChan twice / sends on the closed channel (panic).
//     By reading; the model (Model/Load.v migrate_items) says Hang.
//  4. migrateDirectory panics at oldName[:2] on a directory with a one-byte name inside a legacy
//     ac/ cas/ raw/ directory.  By reading; the model says Panic.
//
// Also by design of the code, not flagged: a stray (non-hash, non-.DS_Store) file in a v1
// subdirectory makes migrateV1Subdir stop there; the rest of that subdirectory is not migrated
// and is deleted with the legacy directory (os.RemoveAll), only a warning is logged.  The model
// follows the code (malformed-stream class 8).
package main

import (
	"bytes"
	"context"
	"crypto/sha256"
	"encoding/hex"
	"fmt"
	"io"
	"log"
	"os"
	"path/filepath"
	"sort"
	"strings"
	"syscall"
	"time"

	. "verifharness/hlib"

	"github.com/buchgr/bazel-remote/v2/cache"
	"github.com/buchgr/bazel-remote/v2/cache/disk"
)

func main() { Main("loader", loaderDriver) }

func r4k(n int64) int64 { return (n + 4095) / 4096 * 4096 }

var kinds = []cache.EntryKind{cache.AC, cache.CAS, cache.RAW}

const alnum = "0123456789abcdefghijklmnopqrstuvwxyzABCDEFGHIJKLMNOPQRSTUVWXYZ"

func randHash(r *Rng) string { return hex.EncodeToString(r.Bytes(32)) }
func randAlnum(r *Rng, n int) string {
	b := make([]byte, n)
	for i := range b {
		b[i] = alnum[r.Intn(len(alnum))]
	}
	return string(b)
}

// one generated cache entry file
type gent struct {
	kind    cache.EntryKind
	hash    string
	layout  int // 0 current, 1 v0 (flat), 2 v1 (two-level)
	legacy  bool
	logical int64 // logical size carried by the name (compressed CAS files)
	random  string
	size    int64 // file size
	atime   int64
	mtime   int64 // set independently of atime: the loader must order by ACCESS time only
	data    []byte
	rel     string // where it is created
	final   string // where it is after migration
	cid     int
	odd     bool // recognised by scanDir but not of the shape FileLocation writes
}

func (e *gent) key() string { return e.kind.String() + "/" + e.hash }

// size the index must report for the entry
func (e *gent) indexSize() int64 {
	if e.layout == 0 && e.kind == cache.CAS && !e.legacy {
		return e.logical
	}
	return e.size
}

func atimeOf(fi os.FileInfo) int64 {
	st := fi.Sys().(*syscall.Stat_t)
	return int64(st.Atim.Sec)
}

func mtimeOf(fi os.FileInfo) int64 { return fi.ModTime().Unix() }

func cfile(name string, size, at int64, cid int) string {
	return fmt.Sprintf("(mkFile %s %s %s %d)", CS(name), CZ(size), CZ(at), cid)
}

// the Coq term of the directory tree (three levels, os.ReadDir order)
func treeTerm(dir string, cids map[string]int) string {
	var tops []string
	des, _ := os.ReadDir(dir)
	for _, de := range des {
		if !de.IsDir() {
			fi, _ := de.Info()
			tops = append(tops, "TF "+cfile(de.Name(), fi.Size(), atimeOf(fi), cids[de.Name()]))
			continue
		}
		var subs []string
		des2, _ := os.ReadDir(filepath.Join(dir, de.Name()))
		for _, de2 := range des2 {
			rel2 := de.Name() + "/" + de2.Name()
			if !de2.IsDir() {
				fi, _ := de2.Info()
				subs = append(subs, "SF "+cfile(de2.Name(), fi.Size(), atimeOf(fi), cids[rel2]))
				continue
			}
			var leafs []string
			des3, _ := os.ReadDir(filepath.Join(dir, rel2))
			for _, de3 := range des3 {
				rel3 := rel2 + "/" + de3.Name()
				if de3.IsDir() {
					leafs = append(leafs, "LD "+CS(de3.Name()))
					continue
				}
				fi, _ := de3.Info()
				leafs = append(leafs, "LF "+cfile(de3.Name(), fi.Size(), atimeOf(fi), cids[rel3]))
			}
			subs = append(subs, fmt.Sprintf("SD %s %s", CS(de2.Name()), CList(leafs)))
		}
		tops = append(tops, fmt.Sprintf("TD %s %s", CS(de.Name()), CList(subs)))
	}
	return CList(tops)
}

// regular files in <kind>.v2/<xx>/ (relative paths, sorted)
func listV2(dir string) []string {
	var out []string
	for _, k := range kinds {
		des, _ := os.ReadDir(filepath.Join(dir, k.DirName()))
		for _, de := range des {
			if !de.IsDir() || de.Name() == "lost+found" {
				continue
			}
			des2, _ := os.ReadDir(filepath.Join(dir, k.DirName(), de.Name()))
			for _, de2 := range des2 {
				if !de2.IsDir() {
					out = append(out, k.DirName()+"/"+de.Name()+"/"+de2.Name())
				}
			}
		}
	}
	sort.Strings(out)
	return out
}

func citem(i disk.VerifItem) string {
	return fmt.Sprintf("(mkItem %s %s %s %s)", CZ(i.Size), CZ(i.SizeOnDisk), CS(i.Random), CB(i.Legacy))
}

// writeFile creates the file and then sets access and modification time (in that order: nothing
// touches the file again before the cache loads it — with relatime a read of a file whose atime is
// not later than its mtime would bump the atime, and such files are generated on purpose)
func writeFile(dir, rel string, data []byte, at, mt int64) error {
	p := filepath.Join(dir, rel)
	if err := os.MkdirAll(filepath.Dir(p), 0755); err != nil {
		return err
	}
	if err := os.WriteFile(p, data, 0644); err != nil {
		return err
	}
	return os.Chtimes(p, time.Unix(at, 0), time.Unix(mt, 0))
}

// wait until the eviction queue is empty and the directory agrees with the index (or 3 s passed)
func settle(c disk.Cache, dir string) (disk.VerifSnapshot, []string) {
	var snap disk.VerifSnapshot
	var files []string
	for i := 0; i < 300; i++ {
		snap = disk.VerifLoadSnapshot(c)
		files = listV2(dir)
		if disk.VerifLoadQueuedBytes(c) == 0 && len(snap.Queue) == 0 && len(files) == len(snap.Order) {
			return snap, files
		}
		time.Sleep(10 * time.Millisecond)
	}
	return snap, files
}

// repro runs one of the two start-up defects on malformed directories that the generated stream
// deliberately avoids because they take the process down (usage: loader repro-panic | repro-hang).
func repro(what string) {
	dir, _ := os.MkdirTemp("", "verif-loader-repro-")
	defer os.RemoveAll(dir)
	h := strings.Repeat("ab", 32)
	switch what {
	case "repro-panic": // an unexpected file that sorts after the <kind>.v2 directories
		for i := 0; i < 256; i++ {
			for j := 0; j < 20; j++ {
				_ = writeFile(dir, fmt.Sprintf("ac.v2/%02x/%02x%s-r%d", i, i, h[2:], j), []byte("x"), 1500000000, 1500000000)
			}
		}
		_ = writeFile(dir, "zzz", []byte("x"), 1500000000, 1500000000)
	case "repro-hang": // unrecognised names in more leaf directories than scanDir has workers
		for i := 0; i < 64; i++ {
			_ = writeFile(dir, fmt.Sprintf("ac.v2/%02x/.DS_Store", i), []byte("x"), 1500000000, 1500000000)
		}
	}
	done := make(chan error, 1)
	go func() { _, err := disk.New(dir, 1<<30); done <- err }()
	select {
	case err := <-done:
		fmt.Println("New returned:", err)
	case <-time.After(5 * time.Second):
		fmt.Println("New did not return within 5 s (hang)")
	}
}

func loaderDriver(seed uint64, n int, outV, outJSON string, args []string) {
	log.SetOutput(io.Discard)
	if len(args) > 0 && strings.HasPrefix(args[0], "repro-") {
		repro(args[0])
		return
	}
	r := &Rng{S: seed}
	rep := NewReport("loader", seed)
	rep.Rule = "generated cache directories (3-14 entry files: current layout in the four name shapes, v0 flat and v1 two-level legacy layouts for ac/cas/raw, duplicate files per key, lost+found and .DS_Store at each level, distinct access times, sizes around 4 KiB block edges) x max_size in {larger, equal, smaller than total, smaller than the largest file} x storage mode after restart, plus a malformed stream (one defect per case); a case is non-trivial if at least one file was migrated, evicted, removed as too large or superseded, or start-up failed; distinct = distinct canonical case texts among those"
	var cases []string
	fsChecked := false
	for c := 0; c < n; c++ {
		dir, err := os.MkdirTemp("", "verif-loader-")
		if err != nil {
			panic(err)
		}
		caseText, term := oneCase(r, rep, c, dir, &fsChecked)
		_ = os.RemoveAll(dir)
		rep.CaseTexts = append(rep.CaseTexts, caseText)
		if c < 3 {
			rep.Samples = append(rep.Samples, caseText)
		}
		cases = append(cases, term)
	}
	rep.Cases = n
	WriteCases(outV, "Model.LRU Model.Names Model.Load", "Z * Z * tree * observed", "Load.case_ok", cases)
	rep.Write(outJSON)
}

var sizeClasses = []int64{1, 100, 4095, 4096, 4097, 8192, 8193, 12288, 0, 5000}

func oneCase(r *Rng, rep *Report, c int, dir string, fsChecked *bool) (string, string) {
	mode := "zstd"
	if r.Chance(40) {
		mode = "uncompressed"
	}
	// ---- defect of the malformed stream (0 = none)
	defect := 0
	if c%5 == 4 {
		defect = 1 + r.Intn(11)
	}
	noRaw := defect == 11

	// ---- entries
	nent := 3 + r.Intn(12)
	var ents []*gent
	used := map[string]bool{}
	atimes := r.Intn(1000)
	perm := make([]int, nent)
	for i := range perm {
		perm[i] = i
	}
	for i := nent - 1; i > 0; i-- {
		j := r.Intn(i + 1)
		perm[i], perm[j] = perm[j], perm[i]
	}
	for i := 0; i < nent; i++ {
		e := &gent{}
		if len(ents) > 0 && r.Chance(25) { // another file for an existing key
			o := ents[r.Intn(len(ents))]
			e.kind, e.hash = o.kind, o.hash
			rep.Count("gen.duplicate-key")
		} else {
			e.kind, e.hash = kinds[r.Intn(3)], randHash(r)
		}
		if noRaw && e.kind == cache.RAW {
			e.kind = cache.AC
		}
		switch p := r.Intn(100); {
		case p < 60:
			e.layout = 0
		case p < 80:
			e.layout = 1
		default:
			e.layout = 2
		}
		e.size = r.Pick(sizeClasses)
		e.logical = e.size
		if r.Chance(50) {
			e.logical = 1 + int64(r.Intn(40000))
		}
		if e.logical == 0 {
			e.logical = 1
		}
		e.random = randAlnum(r, 1+r.Intn(12))
		if r.Chance(15) {
			e.random = fmt.Sprintf("%d", 1+r.Intn(99999)) // all-digit random part: "hash-123" must not be read as a size
		}
		e.legacy = e.kind == cache.CAS && r.Chance(40)
		hh := e.hash[:2]
		switch e.layout {
		case 0:
			name := e.hash + "-" + e.random
			if e.kind == cache.CAS {
				if e.legacy {
					name += ".v1"
				} else {
					name = fmt.Sprintf("%s-%d-%s", e.hash, e.logical, e.random)
				}
			}
			e.rel = e.kind.DirName() + "/" + hh + "/" + name
			e.final = e.rel
		case 1:
			e.rel = e.kind.String() + "/" + e.hash
			e.final = e.kind.DirName() + "/" + hh + "/" + e.hash + "-222444666"
			e.random = "222444666"
			if e.kind == cache.CAS {
				e.final += ".v1"
			}
			e.legacy = e.kind == cache.CAS
		case 2:
			e.rel = e.kind.String() + "/" + hh + "/" + e.hash
			if e.kind == cache.CAS {
				e.final = e.kind.DirName() + "/" + hh + "/" + e.hash + "-556677.v1"
				e.random = "556677"
			} else {
				e.final = e.kind.DirName() + "/" + hh + "/" + e.hash + "-112233"
				e.random = "112233"
			}
			e.legacy = e.kind == cache.CAS
		}
		if used[e.rel] || used[e.final] {
			continue
		}
		used[e.rel], used[e.final] = true, true
		e.atime = 1500000000 + int64(atimes+perm[i])*1000 + int64(r.Intn(900))
		e.data = r.Bytes(int(e.size))
		e.cid = len(ents) + 1
		ents = append(ents, e)
		rep.Count(fmt.Sprintf("gen.layout%d.%s", e.layout, e.kind.String()))
	}
	// ---- modification times: independent of the access times.  The loader must rebuild the recency
	// order from the ACCESS times alone, so the two orders are made to differ in most populations.
	tieCase := defect == 0 && len(ents) >= 3 && r.Chance(10)
	if tieCase { // equal access times with different modification times (only with max_size >= total:
		// sort.Sort is not stable and the scan order is not deterministic, so ties may come in any order)
		// (never two files of one key: which of them is indexed last would be arbitrary too)
		a := r.Intn(len(ents))
		tied := 0
		for _, o := range ents {
			if o != ents[a] && o.key() != ents[a].key() && tied < 2 && r.Chance(50) {
				dup := false
				for _, q := range ents {
					if q != o && q.key() == o.key() {
						dup = true
					}
				}
				if !dup {
					o.atime = ents[a].atime
					tied++
				}
			}
		}
		if tied == 0 {
			tieCase = false
		}
	}
	if tieCase {
		rep.Count("gen.atime-ties")
	}
	mtimeMode := r.Intn(6)
	if tieCase {
		mtimeMode = []int{2, 5}[r.Intn(2)]
	}
	{
		lo, hi := int64(1<<62), int64(0)
		var oldest, newest *gent
		for _, e := range ents {
			if e.atime < lo {
				lo, oldest = e.atime, e
			}
			if e.atime >= hi {
				hi, newest = e.atime, e
			}
		}
		future := time.Now().Unix() + 86400
		for i, e := range ents {
			switch mtimeMode {
			case 0: // written before it was last read
				e.mtime = e.atime - 3600
			case 1: // never read since it was written
				e.mtime = e.atime
			case 2: // unrelated
				e.mtime = 1500000000 + int64(r.Intn(1400))*1000 + int64(r.Intn(900))
			case 3: // exactly the opposite order
				e.mtime = hi + (hi - e.atime) + 1
			case 4: // oldest access but newest modification, newest access but oldest modification
				e.mtime = e.atime - 3600
				if e == oldest {
					e.mtime = hi + 5000
				}
				if e == newest {
					e.mtime = lo - 5000
				}
			case 5: // modification times in the future for some, unrelated for the others
				if r.Chance(50) {
					e.mtime = future + int64(len(ents)-i)*10
				} else {
					e.mtime = 1500000000 + int64(r.Intn(1400))*1000
				}
			}
		}
		differs := false
		ts := func(e *gent) int64 {
			if e.mtime > e.atime {
				return e.mtime
			}
			return e.atime
		}
		for _, x := range ents {
			for _, y := range ents {
				if x.atime < y.atime && ts(x) > ts(y) {
					differs = true
				}
			}
		}
		rep.Count(fmt.Sprintf("gen.mtime-mode%d", mtimeMode))
		if differs {
			rep.Count("gen.mtime-order-differs-from-atime-order")
		}
	}
	cids := map[string]int{}
	for _, e := range ents {
		if err := writeFile(dir, e.rel, e.data, e.atime, e.mtime); err != nil {
			panic(err)
		}
		cids[e.rel] = e.cid
	}
	// ---- things the file system or a desktop leaves behind
	extra := []string{}
	mk := func(rel string) { _ = os.MkdirAll(filepath.Join(dir, rel), 0755); extra = append(extra, rel) }
	anyKindDir := func() string { return kinds[r.Intn(3)].DirName() }
	if r.Chance(35) {
		mk("lost+found")
		if r.Chance(50) {
			_ = os.WriteFile(filepath.Join(dir, "lost+found", "#1234"), []byte("x"), 0644)
		}
	}
	if r.Chance(25) && !noRaw {
		mk(anyKindDir() + "/lost+found")
	}
	if r.Chance(25) && !noRaw {
		mk(anyKindDir() + "/" + randHash(r)[:2] + "/lost+found")
	}
	if r.Chance(25) {
		_ = os.WriteFile(filepath.Join(dir, []string{".DS_Store", ".ds_store", ".DS_STORE"}[r.Intn(3)]), []byte("ds"), 0644)
		rep.Count("gen.dsstore")
	}
	if r.Chance(20) && !noRaw {
		d := anyKindDir()
		_ = os.MkdirAll(filepath.Join(dir, d), 0755)
		_ = os.WriteFile(filepath.Join(dir, d, ".DS_Store"), []byte("ds"), 0644)
	}
	for _, e := range ents { // .DS_Store in a v1 subdirectory, stray file in a v0 directory
		if e.layout == 2 && r.Chance(30) {
			_ = os.WriteFile(filepath.Join(dir, filepath.Dir(e.rel), ".DS_Store"), []byte("ds"), 0644)
		}
		if e.layout == 1 && r.Chance(20) {
			_ = os.WriteFile(filepath.Join(dir, e.kind.String(), "notes.txt"), []byte("n"), 0644)
		}
	}

	// ---- malformed stream
	expectErr := false
	oracleOff := false
	defectText := ""
	someHash := randHash(r)
	put := func(rel string, size int) {
		at := 1400000000 + int64(r.Intn(100000))
		_ = writeFile(dir, rel, r.Bytes(size), at, at+int64(r.Intn(200000))-100000)
		cids[rel] = 99
	}
	switch defect {
	case 1:
		// (names that sort before "ac.v2": scanDir must meet them before it hands any directory to
		// its workers; an error return while workers are still busy can panic with "send on closed
		// channel" — reported separately — and would take this process down)
		put([]string{"README", "0notes", "Makefile"}[r.Intn(3)], 3)
		expectErr, defectText = true, "unexpected file in the cache dir"
	case 2:
		_ = os.MkdirAll(filepath.Join(dir, []string{"Tmp", "AC.v2", "0old"}[r.Intn(3)]), 0755)
		expectErr, defectText = true, "unexpected directory in the cache dir"
	case 3:
		put("ac.v2/"+[]string{"+stray", ".hidden", "-x"}[r.Intn(3)], 3)
		expectErr, defectText = true, "unexpected file in <kind>.v2"
	case 4:
		_ = os.MkdirAll(filepath.Join(dir, "ac.v2", []string{"+zz", ".abc", "-AB", "+a"}[r.Intn(4)]), 0755)
		expectErr, defectText = true, "unexpected directory in <kind>.v2"
	case 5:
		k := kinds[r.Intn(3)]
		h := someHash
		bad := []string{
			strings.ToUpper(h) + "-abc", h[:63] + "-abc", h + "-", h, h + "-abc.v2", h + "-012-abc", h + "-12-",
			h + "-9223372036854775808-abc", h + "-abc-def", h + "-12-ab-cd", ".DS_Store", h + "-abc.v1.v1", h + "-ab_c",
			h + "g-abc", h + "--abc", h + "-abc.V1", h + "-abc.v1x", h + "-99999999999999999999999-abc",
		}[r.Intn(18)]
		put(k.DirName()+"/"+h[:2]+"/"+bad, 10)
		expectErr, defectText = true, "unrecognised file name "+bad
	case 6:
		_ = os.MkdirAll(filepath.Join(dir, anyKindDir(), someHash[:2], "subdir"), 0755)
		expectErr, defectText = true, "directory in a leaf directory"
	case 7: // recognised by the pattern, but not a name FileLocation writes for that key space
		h := someHash
		rel := []string{
			"ac.v2/" + h[:2] + "/" + h + "-12-abc", "ac.v2/" + h[:2] + "/" + h + "-abc.v1", "cas.v2/" + h[:2] + "/" + h + "-abc",
			"cas.v2/" + h[:2] + "/" + h + "-7-abc.v1", "raw.v2/" + h[:2] + "/" + h + "-77-x",
			"cas.v2/" + fmt.Sprintf("%02x", (int(h[0])*7+int(h[1]))%256) + "/" + h + "-5-abc",
		}[r.Intn(6)]
		put(rel, int(r.Pick(sizeClasses)))
		oracleOff, defectText = true, "odd but recognised name "+rel
	case 8: // stray file in a v1 subdirectory: the rest of that subdirectory is dropped
		k := kinds[r.Intn(3)]
		var hh string
		for _, e := range ents {
			if e.layout == 2 {
				k, hh = e.kind, e.hash[:2]
			}
		}
		if hh == "" {
			hh = someHash[:2]
			put(k.String()+"/"+hh+"/"+someHash, 100)
		}
		put(k.String()+"/"+hh+"/"+[]string{"0stray", "stray", "~x"}[r.Intn(3)], 3)
		oracleOff, defectText = true, "stray file in a v1 subdirectory"
	case 9: // v1 subdirectory with a name that is not two hex digits
		k := kinds[r.Intn(3)]
		put(k.String()+"/"+[]string{"zz", "abc", "AB"}[r.Intn(3)]+"/"+someHash, 100)
		oracleOff, defectText = true, "v1 subdirectory with an unexpected name"
	case 10:
		k := kinds[r.Intn(3)]
		if _, err := os.Stat(filepath.Join(dir, k.String())); err == nil {
			put("0zz", 1)
			defectText = "unexpected file in the cache dir"
		} else {
			put(k.String(), 3)
			defectText = "legacy directory name is a file"
		}
		expectErr = true
	case 11:
		put("raw.v2", 3)
		expectErr, defectText = true, "<kind>.v2 is a file"
	}
	if defect != 0 {
		rep.Count(fmt.Sprintf("malformed.%d", defect))
	}

	// ---- check once that the file system keeps the access times we set
	for _, e := range ents {
		fi, err := os.Stat(filepath.Join(dir, e.rel))
		if err != nil || atimeOf(fi) != e.atime || mtimeOf(fi) != e.mtime {
			panic(fmt.Sprintf("file system did not keep the access / modification time of %s", e.rel))
		}
	}
	*fsChecked = true

	// ---- max_size
	var total, largest int64
	for _, e := range ents {
		total += r4k(e.size)
		if r4k(e.size) > largest {
			largest = r4k(e.size)
		}
	}
	var max int64
	class := r.Intn(4)
	if c == 0 {
		class = 3 // regression: a file larger than max_size must not make start-up fail
	}
	switch class {
	case 0:
		max = total + 4096*int64(1+r.Intn(3))
	case 1:
		max = total
	case 2:
		if total > 8192 {
			max = 4096 * (1 + int64(r.Intn(int(total/4096)-1)))
		} else {
			max = total - 1
		}
	case 3:
		max = largest - 4096
		if r.Chance(30) {
			max = largest - 1
		}
	}
	if r.Chance(15) {
		max += []int64{-1, 1, 100}[r.Intn(3)]
	}
	if max <= 0 {
		max = 4096
		if largest == 0 {
			max = 1
		}
	}
	if tieCase && max < total {
		max = total
	}
	switch {
	case max > total:
		rep.Count("max.larger")
	case max == total:
		rep.Count("max.equal")
	case max < largest:
		rep.Count("max.below-largest-file")
	default:
		rep.Count("max.smaller")
	}
	var hard int64
	if r.Chance(20) {
		hard = max + 8192
	}

	tree := treeTerm(dir, cids)
	var text []string
	text = append(text, fmt.Sprintf("max=%d hard=%d mode=%s total=%d", max, hard, mode, total))
	for _, e := range ents {
		text = append(text, fmt.Sprintf("%s size=%d atime=%d mtime=%d", e.rel, e.size, e.atime, e.mtime))
	}
	for _, x := range extra {
		text = append(text, x+"/")
	}
	if defectText != "" {
		text = append(text, "DEFECT: "+defectText)
	}
	caseText := strings.Join(text, " ; ")

	// ---- the real start-up
	opts := []disk.Option{disk.WithStorageMode(mode)}
	if hard > 0 {
		opts = append(opts, disk.WithMaxSizeHardLimit(hard))
	}
	dc, err := disk.New(dir, max, opts...)
	rep.Evaluations++
	nontrivial := false
	var obs string
	if err != nil {
		obs = "OErr"
		rep.Count("startup.error")
		nontrivial = true
		if !expectErr && !oracleOff {
			rep.Fail(c, "start-up failed on a legal directory: "+err.Error(), caseText)
		}
		return finishCase(rep, caseText, nontrivial, max, hard, tree, obs)
	}
	rep.Count("startup.ok")
	if expectErr {
		rep.Fail(c, "start-up succeeded on a directory with "+defectText, caseText)
	}
	snap, files := settle(dc, dir)
	var order []string
	for _, e := range snap.Order {
		order = append(order, fmt.Sprintf("(mkEntry %s %s)", CS(e.Key), citem(e.Item)))
	}
	var fl []string
	for _, f := range files {
		fl = append(fl, CS(f))
	}
	obs = fmt.Sprintf("OOk %s %s %s %s", CList(order), CZ(snap.Cur), CZ(snap.Unc), CList(fl))

	// ---- direct oracle (the property's statement, independent of the model)
	fail := func(what string) { rep.Fail(c, what, caseText) }
	root := dirOf(dc)
	relOf := func(e disk.VerifEntry) string {
		p, _ := filepath.Rel(root, disk.VerifLoadElementPath(dc, e.Key, e.Item))
		return p
	}
	if !expectErr && !oracleOff {
		present := map[string]bool{}
		for _, f := range files {
			present[f] = true
		}
		// accounting matches the directory; remaining files = indexed entries
		tot, _, numItems, _ := dc.Stats()
		var sum int64
		for _, f := range files {
			fi, err := os.Stat(filepath.Join(dir, f))
			if err == nil {
				sum += r4k(fi.Size())
			}
		}
		if tot != sum {
			fail(fmt.Sprintf("Stats() total %d != sum of rounded sizes of the remaining files %d", tot, sum))
		}
		if tot > max {
			fail(fmt.Sprintf("Stats() total %d > max_size %d", tot, max))
		}
		if numItems != len(files) {
			fail(fmt.Sprintf("%d indexed entries but %d files left", numItems, len(files)))
		}
		indexed := map[string]disk.VerifEntry{}
		for _, e := range snap.Order {
			p := relOf(e)
			indexed[p] = e
			if !present[p] {
				fail("indexed entry without its file: " + p)
			}
		}
		for _, f := range files {
			if _, ok := indexed[f]; !ok {
				fail("file left behind that is not indexed: " + f)
			}
		}
		// every population file: survivor (unchanged), or removed for a stated reason
		var oldestSurvivor int64 = 1 << 62
		for _, e := range ents {
			if present[e.final] && e.atime < oldestSurvivor {
				oldestSurvivor = e.atime
			}
		}
		migrated, evicted, tooLarge, superseded := 0, 0, 0, 0
		for _, e := range ents {
			if e.layout != 0 {
				migrated++
				if _, err := os.Stat(filepath.Join(dir, e.rel)); err == nil {
					fail("legacy file still in place: " + e.rel)
				}
			}
			if present[e.final] {
				got, err := os.ReadFile(filepath.Join(dir, e.final))
				if err != nil || !bytes.Equal(got, e.data) {
					fail("content of a surviving file changed: " + e.final)
				}
				ie := indexed[e.final]
				if ie.Key != e.key() || ie.Item.Size != e.indexSize() || ie.Item.SizeOnDisk != e.size {
					fail(fmt.Sprintf("survivor %s indexed as %s size %d/%d, expected %s size %d/%d", e.final, ie.Key, ie.Item.Size, ie.Item.SizeOnDisk, e.key(), e.indexSize(), e.size))
				}
				continue
			}
			switch {
			case r4k(e.size) > max:
				tooLarge++
			case func() bool { // a more recently used file for the same key was kept or at least indexable
				for _, o := range ents {
					if o != e && o.key() == e.key() && o.atime > e.atime && r4k(o.size) <= max {
						return true
					}
				}
				return false
			}():
				superseded++
			default:
				evicted++
				if e.atime > oldestSurvivor {
					fail(fmt.Sprintf("%s (atime %d) was evicted although a less recently used file (atime %d) survived", e.final, e.atime, oldestSurvivor))
				}
				if total <= max {
					fail("a file was evicted although the whole directory fits max_size: " + e.final)
				}
			}
		}
		if migrated+evicted+tooLarge+superseded > 0 {
			nontrivial = true
		}
		for i := 0; i < evicted; i++ {
			rep.Count("outcome.evicted-for-space")
		}
		for i := 0; i < tooLarge; i++ {
			rep.Count("outcome.removed-too-large")
		}
		for i := 0; i < superseded; i++ {
			rep.Count("outcome.superseded-duplicate")
		}
		for i := 0; i < migrated; i++ {
			rep.Count("outcome.migrated")
		}
		// the recency list is in access-time order
		at := map[string]int64{}
		for _, e := range ents {
			at[e.final] = e.atime
		}
		var prev int64
		for _, e := range snap.Order {
			p := relOf(e)
			if at[p] < prev {
				fail("recency list after loading is not in access-time order at " + p)
			}
			prev = at[p]
		}
		for _, k := range kinds {
			if _, err := os.Stat(filepath.Join(dir, k.String())); err == nil {
				fail("legacy directory still exists: " + k.String())
			}
		}
		for _, x := range extra {
			if _, err := os.Stat(filepath.Join(dir, x)); err != nil {
				fail("lost+found directory disappeared: " + x)
			}
		}
		// later evictions continue in access-time order
		if len(snap.Order) > 0 && max >= 4096 {
			before := snap.Order
			for i := 0; i < 3; i++ {
				sz := r.Pick([]int64{1, 4000, 4096, 8000})
				if mode == "zstd" {
					sz = r.Pick([]int64{1, 3000, 4000, 7000})
				}
				data := r.Bytes(int(sz))
				h := sha256.Sum256(data)
				_ = dc.Put(context.Background(), cache.CAS, hex.EncodeToString(h[:]), sz, bytes.NewReader(data))
				rep.Evaluations++
			}
			after, _ := settle(dc, dir)
			still := map[string]bool{}
			for _, e := range after.Order {
				still[e.Key+"|"+e.Item.Random] = true
			}
			gone := 0
			for _, e := range before {
				if !still[e.Key+"|"+e.Item.Random] {
					gone++
				}
			}
			for i, e := range before {
				if (i < gone) == still[e.Key+"|"+e.Item.Random] {
					fail("after loading, a later eviction did not take the least recently accessed loaded entry first: " + e.Key)
					break
				}
			}
			if gone > 0 {
				rep.Count("later-eviction.checked")
			}
		}
	} else if oracleOff {
		nontrivial = true
	}
	return finishCase(rep, caseText, nontrivial, max, hard, tree, obs)
}

// the resolved cache directory, from the path of an arbitrary element
func dirOf(dc disk.Cache) string {
	p := disk.VerifLoadElementPath(dc, "ac/"+strings.Repeat("0", 64), disk.VerifItem{Random: "x"})
	return filepath.Dir(filepath.Dir(filepath.Dir(p)))
}

func finishCase(rep *Report, caseText string, nontrivial bool, max, hard int64, tree, obs string) (string, string) {
	if nontrivial {
		rep.DistinctCase(caseText)
	}
	return caseText, fmt.Sprintf("(%s, %s,\n  %s,\n  %s)", CZ(max), CZ(hard), tree, obs)
}
