// Command acresult is the correspondence driver for C11 (and the `referenced` part of C06):
// generated ActionResults — valid ones and one-field-invalid mutants — are uploaded through gRPC
// UpdateActionResult (in-process call, or over bufconn) and HTTP PUT (protobuf, JSON, each plain
// or zstd-wrapped), read back through gRPC GetActionResult with inline-request combinations and
// through HTTP GET (protobuf and JSON), against a real disk cache; every observation is written
// as a Coq term for Model/ActionResult.v to predict, and checked by direct oracles.
package main

import (
	"bytes"
	"context"
	"crypto/sha256"
	"encoding/hex"
	"fmt"
	"io"
	"log"
	"math"
	"net"
	"net/http"
	"net/http/httptest"
	"os"
	"sort"
	"strings"
	"sync"

	. "verifharness/hlib"

	"github.com/buchgr/bazel-remote/v2/cache"
	"github.com/buchgr/bazel-remote/v2/cache/disk"
	pb "github.com/buchgr/bazel-remote/v2/genproto/build/bazel/remote/execution/v2"
	"github.com/buchgr/bazel-remote/v2/server"
	testutils "github.com/buchgr/bazel-remote/v2/utils"
	"github.com/buchgr/bazel-remote/v2/utils/validate"

	"github.com/klauspost/compress/zstd"
	"google.golang.org/grpc"
	"google.golang.org/grpc/codes"
	"google.golang.org/grpc/credentials/insecure"
	"google.golang.org/grpc/peer"
	"google.golang.org/grpc/status"
	"google.golang.org/grpc/test/bufconn"
	"google.golang.org/protobuf/encoding/protojson"
	"google.golang.org/protobuf/proto"
	"google.golang.org/protobuf/types/known/timestamppb"
)

func main() {
	log.SetOutput(io.Discard) // disk.New reports its progress through the standard logger
	Main("acresult", driver)
}

const emptySha = "e3b0c44298fc1c149afbf4c8996fb92427ae41e4649b934ca495991b7852b855"
const maxInline = 3 * 1024 * 1024

// ---------------------------------------------------------------------------------------------
// Coq printing of the abstract syntax

func sha(b []byte) string { s := sha256.Sum256(b); return hex.EncodeToString(s[:]) }

// long strings (hashes) are written once as Coq definitions and referred to by name
var internNames = map[string]string{}
var internOrder []string

func HS(s string) string {
	if len(s) < 24 {
		return CS(s)
	}
	if n, ok := internNames[s]; ok {
		return n
	}
	n := fmt.Sprintf("h%d", len(internOrder))
	internNames[s] = n
	internOrder = append(internOrder, s)
	return n
}

// same layout as hlib.WriteCases, preceded by the definitions of the interned strings
func writeCases(path, imports, caseType, okFn string, cases []string) {
	var sb strings.Builder
	sb.WriteString("(* written by /verif/harness; evaluated by ./check *)\n")
	sb.WriteString("From BR Require Import Base.Prelude " + imports + ".\n")
	sb.WriteString("Open Scope string_scope.\nOpen Scope Z_scope.\n")
	for i, s := range internOrder {
		sb.WriteString(fmt.Sprintf("Definition h%d : string := %s.\n", i, CS(s)))
	}
	sb.WriteString("Definition cases : list (" + caseType + ") := [\n")
	sb.WriteString(strings.Join(cases, ";\n"))
	sb.WriteString("\n].\n")
	sb.WriteString("Definition M := Eval vm_compute in false_positions 0 (map " + okFn + " cases).\nPrint M.\n")
	if err := os.WriteFile(path, []byte(sb.String()), 0644); err != nil {
		panic(err)
	}
}

func cBytes(b []byte) string { return fmt.Sprintf("(mkBytes %d %s)", len(b), HS(sha(b))) }
func cDigest(d *pb.Digest) string {
	return fmt.Sprintf("(mkDigest %s %s)", HS(d.Hash), CZ(d.SizeBytes))
}
func cODigest(d *pb.Digest) string {
	if d == nil {
		return "None"
	}
	return "(Some " + cDigest(d) + ")"
}
func cSymlinks(l []*pb.OutputSymlink) string {
	var xs []string
	for _, s := range l {
		if s == nil {
			xs = append(xs, "None")
		} else {
			xs = append(xs, fmt.Sprintf("Some (mkSL %s %s)", CS(s.Path), CS(s.Target)))
		}
	}
	return CList(xs)
}
func metaOther(m *pb.ExecutedActionMetadata) int64 {
	if m.QueuedTimestamp == nil {
		return 0
	}
	return m.QueuedTimestamp.Seconds
}
func cAR(ar *pb.ActionResult) string {
	var fs, ds []string
	for _, f := range ar.OutputFiles {
		if f == nil {
			fs = append(fs, "None")
		} else {
			fs = append(fs, fmt.Sprintf("Some (mkOF %s %s %s %s)", CS(f.Path), cODigest(f.Digest), CB(f.IsExecutable), cBytes(f.Contents)))
		}
	}
	for _, d := range ar.OutputDirectories {
		if d == nil {
			ds = append(ds, "None")
		} else {
			ds = append(ds, fmt.Sprintf("Some (mkOD %s %s)", CS(d.Path), cODigest(d.TreeDigest)))
		}
	}
	meta := "None"
	if ar.ExecutionMetadata != nil {
		meta = fmt.Sprintf("(Some (mkEM %s %s))", CS(ar.ExecutionMetadata.Worker), CZ(metaOther(ar.ExecutionMetadata)))
	}
	//nolint:staticcheck
	return fmt.Sprintf("(mkAR %s %s %s %s %s %s %s %s %s %s %s)", CList(fs), cSymlinks(ar.OutputFileSymlinks), cSymlinks(ar.OutputSymlinks),
		CList(ds), cSymlinks(ar.OutputDirectorySymlinks), CZ(int64(ar.ExitCode)), cBytes(ar.StdoutRaw), cODigest(ar.StdoutDigest),
		cBytes(ar.StderrRaw), cODigest(ar.StderrDigest), meta)
}
func cOAR(ar *pb.ActionResult) string {
	if ar == nil {
		return "None"
	}
	return "(Some " + cAR(ar) + ")"
}
func cDir(d *pb.Directory) string {
	if d == nil {
		return "None"
	}
	var fs, ds []string
	for _, f := range d.Files {
		fs = append(fs, fmt.Sprintf("Some (mkFN %s %s %s)", CS(f.Name), cODigest(f.Digest), CB(f.IsExecutable)))
	}
	for _, x := range d.Directories {
		ds = append(ds, fmt.Sprintf("Some (mkDN %s %s)", CS(x.Name), cODigest(x.Digest)))
	}
	return fmt.Sprintf("(Some (mkDir %s %s []))", CList(fs), CList(ds))
}
func cTree(t *pb.Tree) string {
	var cs []string
	for _, c := range t.Children {
		cs = append(cs, cDir(c))
	}
	return fmt.Sprintf("(mkTree %s %s)", cDir(t.Root), CList(cs))
}
func cErr(e string) string { return "(Err " + e + ")" }

func grpcResult(ar *pb.ActionResult, err error) string {
	if err == nil {
		return "(Ok " + cAR(ar) + ")"
	}
	switch status.Code(err) {
	case codes.InvalidArgument:
		return cErr("EBadRequest")
	case codes.NotFound:
		return cErr("ENotFound")
	case codes.ResourceExhausted:
		return cErr("EInsufficient")
	case codes.Internal:
		return cErr("EInternal")
	}
	return cErr(fmt.Sprintf("(EOther %d)", int(status.Code(err))))
}
func httpErr(code int) string {
	switch code {
	case 400:
		return cErr("EBadRequest")
	case 404:
		return cErr("ENotFound")
	case 507:
		return cErr("EInsufficient")
	case 500:
		return cErr("EInternal")
	}
	return cErr(fmt.Sprintf("(EOther %d)", code))
}

// ---------------------------------------------------------------------------------------------
// independent oracles (written from the REAPI field documentation and the text of C11)

func isHash(h string) bool {
	if len(h) != 64 {
		return false
	}
	for i := 0; i < len(h); i++ {
		c := h[i]
		if !((c >= '0' && c <= '9') || (c >= 'a' && c <= 'f')) {
			return false
		}
	}
	return true
}
func digestWF(d *pb.Digest) bool { return d != nil && isHash(d.Hash) && d.SizeBytes >= 0 }
func relPath(p string) bool     { return p != "" && p[0] != '/' }

// wellFormed: paths non-empty and relative (an output directory may have the empty path), digests
// present where required and well formed, no nil elements
func wellFormed(ar *pb.ActionResult) bool {
	if ar == nil {
		return false
	}
	for _, f := range ar.OutputFiles {
		if f == nil || !relPath(f.Path) || !digestWF(f.Digest) {
			return false
		}
	}
	for _, d := range ar.OutputDirectories {
		if d == nil || strings.HasPrefix(d.Path, "/") || !digestWF(d.TreeDigest) {
			return false
		}
	}
	//nolint:staticcheck
	for _, l := range [][]*pb.OutputSymlink{ar.OutputFileSymlinks, ar.OutputSymlinks, ar.OutputDirectorySymlinks} {
		for _, s := range l {
			if s == nil || !relPath(s.Path) || s.Target == "" {
				return false
			}
		}
	}
	if ar.StdoutDigest != nil && !digestWF(ar.StdoutDigest) {
		return false
	}
	if ar.StderrDigest != nil && !digestWF(ar.StderrDigest) {
		return false
	}
	return true
}

func matches(c []byte, d *pb.Digest) bool {
	return d == nil || (d.SizeBytes == int64(len(c)) && d.Hash == sha(c))
}

// every inline byte string agrees with the digest beside it
func consistent(ar *pb.ActionResult) bool {
	for _, f := range ar.OutputFiles {
		if f != nil && len(f.Contents) > 0 && !matches(f.Contents, f.Digest) {
			return false
		}
	}
	if len(ar.StdoutRaw) > 0 && !matches(ar.StdoutRaw, ar.StdoutDigest) {
		return false
	}
	if len(ar.StderrRaw) > 0 && !matches(ar.StderrRaw, ar.StderrDigest) {
		return false
	}
	return true
}

// inline contents whose declared digest is the empty blob's: the one mismatch disk.Put accepts
func emptyDigestAnomaly(ar *pb.ActionResult) bool {
	isE := func(c []byte, d *pb.Digest) bool {
		return len(c) > 0 && d != nil && d.SizeBytes == 0 && d.Hash == emptySha
	}
	for _, f := range ar.OutputFiles {
		if f != nil && isE(f.Contents, f.Digest) {
			return true
		}
	}
	return isE(ar.StdoutRaw, ar.StdoutDigest) || isE(ar.StderrRaw, ar.StderrDigest)
}

// the documented upload-side change
func withWorker(ar *pb.ActionResult, w string) *pb.ActionResult {
	out := proto.Clone(ar).(*pb.ActionResult)
	if out.ExecutionMetadata == nil {
		out.ExecutionMetadata = &pb.ExecutedActionMetadata{}
	}
	if out.ExecutionMetadata.Worker == "" {
		out.ExecutionMetadata.Worker = w
	}
	return out
}

type inlineReq struct {
	stdout, stderr bool
	files          []string
}

// the documented read-side change: each of stdout, stderr, output files (in this order) is
// served inline iff requested and the 3 MiB budget allows, otherwise by digest; returns the
// expected message and the byte strings that must then be in the CAS
func expectedGet(stored *pb.ActionResult, rq inlineReq, casBlob func(*pb.Digest) ([]byte, bool)) (*pb.ActionResult, [][]byte) {
	out := proto.Clone(stored).(*pb.ActionResult)
	var used int64
	var deinlined [][]byte
	field := func(want bool, c *[]byte, d **pb.Digest) {
		var dsz int64
		if *d != nil {
			dsz = (*d).SizeBytes
		}
		fits := used+int64(len(*c)) <= maxInline && used+dsz <= maxInline
		switch {
		case want && fits && len(*c) > 0:
			used += int64(len(*c))
		case want && fits:
			if *d != nil && (*d).SizeBytes > 0 {
				if b, ok := casBlob(*d); ok {
					*c = b
					used += (*d).SizeBytes
				}
			}
		case len(*c) > 0:
			if *d == nil {
				*d = &pb.Digest{Hash: sha(*c), SizeBytes: int64(len(*c))}
			}
			deinlined = append(deinlined, *c)
			*c = nil
		}
	}
	field(rq.stdout, &out.StdoutRaw, &out.StdoutDigest)
	field(rq.stderr, &out.StderrRaw, &out.StderrDigest)
	want := map[string]bool{}
	for _, p := range rq.files {
		want[p] = true
	}
	for _, f := range out.OutputFiles {
		field(want[f.Path], &f.Contents, &f.Digest)
	}
	return out, deinlined
}

// normalise empty/nil byte slices before proto.Equal
func norm(ar *pb.ActionResult) *pb.ActionResult {
	out := proto.Clone(ar).(*pb.ActionResult)
	if len(out.StdoutRaw) == 0 {
		out.StdoutRaw = nil
	}
	if len(out.StderrRaw) == 0 {
		out.StderrRaw = nil
	}
	for _, f := range out.OutputFiles {
		if f != nil && len(f.Contents) == 0 {
			f.Contents = nil
		}
	}
	return out
}

// C06: the digests an ActionResult refers to, by an independent walk
func referencedWalk(ar *pb.ActionResult, trees []*pb.Tree) []*pb.Digest {
	var out []*pb.Digest
	for _, f := range ar.OutputFiles {
		if len(f.Contents) == 0 {
			out = append(out, f.Digest)
		}
	}
	for i, d := range ar.OutputDirectories {
		if i >= len(trees) {
			break
		}
		out = append(out, d.TreeDigest)
		dirs := append([]*pb.Directory{trees[i].Root}, trees[i].Children...)
		for _, dir := range dirs {
			if dir == nil {
				continue
			}
			for _, f := range dir.Files {
				if f.Digest != nil {
					out = append(out, f.Digest)
				}
			}
		}
	}
	if ar.StdoutDigest != nil {
		out = append(out, ar.StdoutDigest)
	}
	if ar.StderrDigest != nil {
		out = append(out, ar.StderrDigest)
	}
	return out
}

// recording proxy backend: serves blobs from a map and records which CAS digests were asked for
type recProxy struct {
	mu    sync.Mutex
	blobs map[string][]byte
	asked map[string]bool
}

func (p *recProxy) Put(ctx context.Context, kind cache.EntryKind, hash string, logicalSize int64, sizeOnDisk int64, rc io.ReadCloser) {
	_ = rc.Close()
}
func (p *recProxy) Get(ctx context.Context, kind cache.EntryKind, hash string, size int64) (io.ReadCloser, int64, error) {
	p.mu.Lock()
	defer p.mu.Unlock()
	if kind == cache.CAS {
		p.asked[fmt.Sprintf("%s/%d", hash, size)] = true
	}
	b, ok := p.blobs[kind.String()+"/"+hash]
	if !ok {
		return nil, -1, nil
	}
	return io.NopCloser(bytes.NewReader(b)), int64(len(b)), nil
}
func (p *recProxy) Contains(ctx context.Context, kind cache.EntryKind, hash string, size int64) (bool, int64) {
	p.mu.Lock()
	defer p.mu.Unlock()
	if kind == cache.CAS {
		p.asked[fmt.Sprintf("%s/%d", hash, size)] = true
	}
	b, ok := p.blobs[kind.String()+"/"+hash]
	if !ok {
		return false, -1
	}
	return true, int64(len(b))
}

// ---------------------------------------------------------------------------------------------
// generation

type blob struct {
	data []byte
	hash string
}

func (b blob) digest() *pb.Digest { return &pb.Digest{Hash: b.hash, SizeBytes: int64(len(b.data))} }

type tcase struct {
	r        *Rng
	rep      *Report
	idx      int
	validate bool
	maxCas   int64
	pool     []blob          // candidate blobs
	inCas    map[string][]byte // what the harness knows to be in the CAS (oracle bookkeeping)
	initCas  []blob
	trees    map[string]*pb.Tree // tree blobs by sha
	treeList []blob
	events   []string
	text     []string
	dc       disk.Cache
	ac       pb.ActionCacheServer
	hc       server.HTTPCache
	evals    int
	nontriv  bool
}

func (t *tcase) fail(what string) {
	t.rep.Fail(t.idx, what, strings.Join(t.text, " | "))
}

var badHashes = []string{
	"", "abc", strings.Repeat("a", 63), strings.Repeat("a", 65), strings.Repeat("A", 64),
	strings.Repeat("g", 64), strings.Repeat("a", 63) + "/", strings.Repeat("0", 62) + "xy",
}

func (t *tcase) pick() blob { return t.pool[t.r.Intn(len(t.pool))] }

func (t *tcase) genTree() *pb.Tree {
	mkDir := func() *pb.Directory {
		d := &pb.Directory{}
		for i := t.r.Intn(3); i > 0; i-- {
			fn := &pb.FileNode{Name: fmt.Sprintf("n%d", i), IsExecutable: t.r.Chance(30)}
			if !t.r.Chance(10) {
				fn.Digest = t.pick().digest()
			}
			d.Files = append(d.Files, fn)
		}
		if t.r.Chance(30) {
			d.Directories = append(d.Directories, &pb.DirectoryNode{Name: "sub", Digest: t.pick().digest()})
		}
		return d
	}
	tr := &pb.Tree{}
	if !t.r.Chance(10) {
		tr.Root = mkDir()
	}
	for i := t.r.Intn(3); i > 0; i-- {
		tr.Children = append(tr.Children, mkDir())
	}
	return tr
}

// a valid ActionResult
func (t *tcase) genAR() *pb.ActionResult {
	r := t.r
	ar := &pb.ActionResult{ExitCode: int32(r.Intn(3))}
	nf := []int{0, 1, 1, 2, 2, 4}[r.Intn(6)]
	for i := 0; i < nf; i++ {
		b := t.pick()
		f := &pb.OutputFile{Path: fmt.Sprintf("out/f%d", i), Digest: b.digest(), IsExecutable: r.Chance(30)}
		switch p := r.Intn(100); {
		case p < 30:
			f.Contents = b.data // inline and consistent
		case p < 38:
			f.Digest = &pb.Digest{Hash: emptySha, SizeBytes: 0} // the empty blob
		case p < 42:
			f.Digest = &pb.Digest{Hash: b.hash, SizeBytes: 0} // size 0 with a non-empty-blob hash: accepted by the validator
		}
		ar.OutputFiles = append(ar.OutputFiles, f)
	}
	nd := []int{0, 0, 1, 1, 2}[r.Intn(5)]
	for i := 0; i < nd && len(t.treeList) > 0; i++ {
		tb := t.treeList[r.Intn(len(t.treeList))]
		p := fmt.Sprintf("out/d%d", i)
		if r.Chance(15) {
			p = ""
		}
		ar.OutputDirectories = append(ar.OutputDirectories, &pb.OutputDirectory{Path: p, TreeDigest: tb.digest()})
	}
	mkSyms := func(tag string) []*pb.OutputSymlink {
		var l []*pb.OutputSymlink
		for i := []int{0, 0, 1, 2}[r.Intn(4)]; i > 0; i-- {
			l = append(l, &pb.OutputSymlink{Path: fmt.Sprintf("%s%d", tag, i), Target: "t/" + tag})
		}
		return l
	}
	//nolint:staticcheck
	ar.OutputFileSymlinks = mkSyms("fl")
	ar.OutputSymlinks = mkSyms("sl")
	//nolint:staticcheck
	ar.OutputDirectorySymlinks = mkSyms("dl")
	std := func() ([]byte, *pb.Digest) {
		b := t.pick()
		switch r.Intn(5) {
		case 0:
			return nil, nil
		case 1:
			return b.data, nil
		case 2:
			return nil, b.digest()
		case 3:
			return b.data, b.digest()
		}
		return nil, nil
	}
	ar.StdoutRaw, ar.StdoutDigest = std()
	ar.StderrRaw, ar.StderrDigest = std()
	switch r.Intn(3) {
	case 1:
		ar.ExecutionMetadata = &pb.ExecutedActionMetadata{Worker: "w1", QueuedTimestamp: &timestamppb.Timestamp{Seconds: int64(1 + r.Intn(1000))}}
	case 2:
		ar.ExecutionMetadata = &pb.ExecutedActionMetadata{QueuedTimestamp: &timestamppb.Timestamp{Seconds: int64(1 + r.Intn(1000))}}
	}
	return ar
}

// one-field-invalid mutants; returns the name of the mutation
func (t *tcase) mutate(ar *pb.ActionResult) string {
	r := t.r
	b := t.pick()
	badDigest := func() (*pb.Digest, string) {
		switch r.Intn(7) {
		case 0:
			return &pb.Digest{Hash: b.hash, SizeBytes: -1 - int64(r.Intn(5))}, "negative-size"
		case 1:
			return &pb.Digest{Hash: badHashes[r.Intn(len(badHashes))], SizeBytes: int64(len(b.data))}, "malformed-hash"
		case 2, 3:
			// size_bytes == 0 does not make a digest the empty blob's: the hash must still be one
			// (the zero-valued Digest {} that JSON "stdoutDigest": {} produces is badHashes[0])
			return &pb.Digest{Hash: badHashes[r.Intn(len(badHashes))], SizeBytes: 0}, "zero-size-malformed-hash"
		case 4:
			return &pb.Digest{Hash: strings.ToUpper(b.hash), SizeBytes: 0}, "zero-size-uppercase-hash"
		case 5:
			return &pb.Digest{}, "zero-valued-digest"
		}
		return &pb.Digest{Hash: strings.ToUpper(b.hash), SizeBytes: int64(len(b.data))}, "uppercase-hash"
	}
	ensureFile := func() *pb.OutputFile {
		if len(ar.OutputFiles) == 0 {
			ar.OutputFiles = append(ar.OutputFiles, &pb.OutputFile{Path: "out/x", Digest: b.digest()})
		}
		return ar.OutputFiles[r.Intn(len(ar.OutputFiles))]
	}
	ensureDir := func() *pb.OutputDirectory {
		if len(ar.OutputDirectories) == 0 {
			ar.OutputDirectories = append(ar.OutputDirectories, &pb.OutputDirectory{Path: "out/dx", TreeDigest: b.digest()})
		}
		return ar.OutputDirectories[r.Intn(len(ar.OutputDirectories))]
	}
	symMut := func(l *[]*pb.OutputSymlink, tag string) string {
		if len(*l) == 0 {
			*l = append(*l, &pb.OutputSymlink{Path: "lx", Target: "tx"})
		}
		i := r.Intn(len(*l))
		switch r.Intn(4) {
		case 0:
			(*l)[i] = nil
			return tag + "-nil-element"
		case 1:
			(*l)[i].Path = ""
			return tag + "-empty-path"
		case 2:
			(*l)[i].Target = ""
			return tag + "-empty-target"
		}
		(*l)[i].Path = "/abs/" + (*l)[i].Path
		return tag + "-absolute-path"
	}
	switch r.Intn(14) {
	case 0:
		ensureFile()
		ar.OutputFiles[r.Intn(len(ar.OutputFiles))] = nil
		return "file-nil-element"
	case 1:
		ensureFile().Path = ""
		return "file-empty-path"
	case 2:
		f := ensureFile()
		f.Path = "/" + f.Path
		return "file-absolute-path"
	case 3:
		ensureFile().Digest = nil
		return "file-nil-digest"
	case 4:
		d, n := badDigest()
		ensureFile().Digest = d
		return "file-" + n
	case 5:
		ensureDir()
		ar.OutputDirectories[r.Intn(len(ar.OutputDirectories))] = nil
		return "dir-nil-element"
	case 6:
		d := ensureDir()
		d.Path = "/" + d.Path
		return "dir-absolute-path"
	case 7:
		ensureDir().TreeDigest = nil
		return "dir-nil-tree-digest"
	case 8:
		d, n := badDigest()
		ensureDir().TreeDigest = d
		return "dir-" + n
	case 9:
		//nolint:staticcheck
		return symMut(&ar.OutputFileSymlinks, "filesymlink")
	case 10:
		return symMut(&ar.OutputSymlinks, "symlink")
	case 11:
		//nolint:staticcheck
		return symMut(&ar.OutputDirectorySymlinks, "dirsymlink")
	case 12:
		d, n := badDigest()
		ar.StdoutDigest = d
		return "stdout-" + n
	}
	d, n := badDigest()
	ar.StderrDigest = d
	return "stderr-" + n
}

// inline contents that contradict the digest beside them (valid for the validator)
func (t *tcase) makeInconsistent(ar *pb.ActionResult) string {
	r := t.r
	b, other := t.pick(), t.pick()
	for other.hash == b.hash {
		other = t.pick()
	}
	var d *pb.Digest
	var n string
	switch r.Intn(3) {
	case 0:
		d, n = other.digest(), "other-digest"
	case 1:
		d, n = &pb.Digest{Hash: b.hash, SizeBytes: int64(len(b.data)) + 1}, "size+1"
	default:
		d, n = &pb.Digest{Hash: emptySha, SizeBytes: 0}, "empty-blob-digest"
	}
	switch r.Intn(3) {
	case 0:
		ar.StdoutRaw, ar.StdoutDigest = b.data, d
		return "inconsistent-stdout-" + n
	case 1:
		ar.StderrRaw, ar.StderrDigest = b.data, d
		return "inconsistent-stderr-" + n
	}
	ar.OutputFiles = append(ar.OutputFiles, &pb.OutputFile{Path: "out/inc", Digest: d, Contents: b.data})
	return "inconsistent-file-" + n
}

// ---------------------------------------------------------------------------------------------
// running one case

type weirdAddr string

func (w weirdAddr) Network() string { return "weird" }
func (w weirdAddr) String() string  { return string(w) }

var zenc, _ = zstd.NewWriter(nil)
var zdec, _ = zstd.NewReader(nil)

func (t *tcase) casBlob(d *pb.Digest) ([]byte, bool) {
	if d.SizeBytes == 0 && d.Hash == emptySha {
		return []byte{}, true
	}
	b, ok := t.inCas[d.Hash]
	if !ok || int64(len(b)) != d.SizeBytes {
		return nil, false
	}
	return b, true
}

// raw AC entry as stored (nil if absent)
func (t *tcase) storedAC(key string) *pb.ActionResult {
	rc, _, err := t.dc.Get(context.Background(), cache.AC, key, -1, 0)
	if err != nil || rc == nil {
		return nil
	}
	defer rc.Close()
	data, _ := io.ReadAll(rc)
	ar := &pb.ActionResult{}
	if proto.Unmarshal(data, ar) != nil {
		t.fail("stored AC entry " + key + " does not parse")
		return nil
	}
	return ar
}

func (t *tcase) checkStoredValid(key string) {
	if ar := t.storedAC(key); ar != nil {
		if err := validate.ActionResult(ar); err != nil {
			t.fail(fmt.Sprintf("stored AC entry %s does not validate: %v", key, err))
		}
		if !wellFormed(ar) {
			t.fail(fmt.Sprintf("stored AC entry %s is not well formed", key))
		}
	}
}

// bookkeeping + oracle after an upload
func (t *tcase) afterUpload(channel, key string, seen *pb.ActionResult, w string, accepted bool, before *pb.ActionResult, framingOK bool, grpcPath bool) {
	t.rep.Count("upload." + channel)
	valid := seen != nil && wellFormed(seen)
	if accepted {
		t.rep.Count("upload.accepted")
		if !valid {
			t.fail(channel + ": a malformed ActionResult was accepted")
		}
		// gRPC stores the inlined blobs first: bytes that contradict the digest beside them —
		// the empty blob's digest included — must make the upload fail
		if grpcPath && valid && !consistent(seen) {
			t.fail(channel + ": an upload whose inline contents contradict their digest was accepted")
		}
	} else {
		t.rep.Count("upload.rejected")
		t.nontriv = true
		after := t.storedAC(key)
		if (before == nil) != (after == nil) || (before != nil && !proto.Equal(before, after)) {
			t.fail(channel + ": a rejected upload changed the action cache entry")
		}
		// completeness: a valid, well-framed, consistent message must be accepted (the cache is large)
		if valid && framingOK && (!grpcPath || consistent(seen)) {
			t.fail(channel + ": a valid ActionResult was rejected")
		}
	}
	if accepted && valid {
		want := withWorker(seen, w)
		got := t.storedAC(key)
		if got == nil || !proto.Equal(norm(want), norm(got)) {
			t.fail(channel + ": the stored entry differs from the uploaded message with the worker filled in")
		}
		if grpcPath {
			note := func(c []byte, d *pb.Digest) {
				if len(c) > 0 && matches(c, d) {
					t.inCas[sha(c)] = c
				}
			}
			for _, f := range seen.OutputFiles {
				note(f.Contents, f.Digest)
			}
			note(seen.StdoutRaw, seen.StdoutDigest)
			note(seen.StderrRaw, seen.StderrDigest)
		}
	}
	t.checkStoredValid(key)
}

func (t *tcase) grpcUpload(key *pb.Digest, ar *pb.ActionResult, variant int, reqKind int) {
	ctx := context.Background()
	wTerm := `(grpc_worker None false None)`
	w := "unknown"
	switch variant {
	case 1:
		ctx = peer.NewContext(ctx, &peer.Peer{Addr: &net.TCPAddr{IP: net.IPv4(10, 1, 2, 3), Port: 4567}})
		wTerm, w = `(grpc_worker (Some "10.1.2.3:4567") true (Some "10.1.2.3"))`, "10.1.2.3"
	case 2:
		ctx = peer.NewContext(ctx, &peer.Peer{Addr: weirdAddr("pipe")})
		wTerm, w = `(grpc_worker (Some "pipe") false None)`, "pipe"
	case 3:
		ctx = peer.NewContext(ctx, &peer.Peer{Addr: weirdAddr("")})
		wTerm, w = `(grpc_worker (Some "") false None)`, "unknown"
	case 4:
		ctx = peer.NewContext(ctx, &peer.Peer{Addr: weirdAddr("a:b:c")})
		wTerm, w = `(grpc_worker (Some "a:b:c") true None)`, "a:b:c"
	}
	var req *pb.UpdateActionResultRequest
	reqTerm := "None"
	keyHash := ""
	var seen *pb.ActionResult
	if reqKind != 1 {
		req = &pb.UpdateActionResultRequest{ActionDigest: key, ActionResult: ar}
		if reqKind == 2 {
			req.ActionDigest = nil
		}
		if reqKind == 3 {
			req.ActionResult = nil
		}
		if req.ActionDigest != nil {
			keyHash = req.ActionDigest.Hash
		}
		seen = req.ActionResult
		reqTerm = fmt.Sprintf("(Some (mkUpd %s %s))", cODigest(req.ActionDigest), cOAR(req.ActionResult))
	}
	var before *pb.ActionResult
	if len(keyHash) == 64 {
		before = t.storedAC(keyHash)
	}
	var seenCopy *pb.ActionResult
	if seen != nil {
		seenCopy = proto.Clone(seen).(*pb.ActionResult) // nil elements survive Clone
		for i, f := range seen.OutputFiles {
			if f == nil {
				seenCopy.OutputFiles[i] = nil
			}
		}
	}
	var res *pb.ActionResult
	var err error
	func() {
		defer func() {
			if p := recover(); p != nil {
				t.fail(fmt.Sprintf("UpdateActionResult panicked: %v", p))
				err = status.Error(codes.Code(99), "panic")
			}
		}()
		res, err = t.ac.UpdateActionResult(ctx, req)
	}()
	t.evals++
	t.events = append(t.events, fmt.Sprintf("CUpdate %s true %s %s", wTerm, reqTerm, grpcResult(res, err)))
	t.text = append(t.text, fmt.Sprintf("grpc-update(variant=%d,req=%d)->%v", variant, reqKind, status.Code(err)))
	if len(keyHash) == 64 {
		t.afterUpload("grpc", keyHash, seenCopy, w, err == nil, before, reqKind == 0 && validKey(key), true)
	} else if err == nil {
		t.fail("grpc: an update without a usable action digest was accepted")
	}
	if err == nil && seenCopy != nil && !proto.Equal(norm(res), norm(withWorker(seenCopy, w))) {
		t.fail("grpc: UpdateActionResult returned a message other than the uploaded one with the worker filled in")
	}
}

func validKey(d *pb.Digest) bool {
	if d == nil {
		return false
	}
	if d.SizeBytes == 0 {
		return d.Hash == emptySha
	}
	return isHash(d.Hash)
}

func (t *tcase) bufconnUpload(key *pb.Digest, ar *pb.ActionResult) {
	const bufSize = 1024 * 1024
	lis := bufconn.Listen(bufSize)
	srv := grpc.NewServer()
	go func() {
		_ = server.ServeGRPC(lis, srv, t.validate, false, false, t.maxCas, t.dc, testutils.NewSilentLogger(), testutils.NewSilentLogger())
	}()
	defer srv.Stop()
	conn, err := grpc.NewClient("passthrough://bufnet", grpc.WithTransportCredentials(insecure.NewCredentials()),
		grpc.WithContextDialer(func(context.Context, string) (net.Conn, error) { return lis.Dial() }))
	if err != nil {
		panic(err)
	}
	defer conn.Close()
	req := &pb.UpdateActionResultRequest{ActionDigest: key, ActionResult: ar}
	// what the server sees: the request after a trip over the wire
	wire, merr := proto.Marshal(req)
	if merr != nil {
		return
	}
	seenReq := &pb.UpdateActionResultRequest{}
	if proto.Unmarshal(wire, seenReq) != nil {
		return
	}
	before := t.storedAC(key.Hash)
	res, err := pb.NewActionCacheClient(conn).UpdateActionResult(context.Background(), req)
	t.evals++
	t.events = append(t.events, fmt.Sprintf(`CUpdate (grpc_worker (Some "bufconn") false None) true (Some (mkUpd %s %s)) %s`,
		cODigest(seenReq.ActionDigest), cOAR(seenReq.ActionResult), grpcResult(res, err)))
	t.text = append(t.text, fmt.Sprintf("grpc-bufconn-update->%v", status.Code(err)))
	t.afterUpload("grpc-bufconn", key.Hash, seenReq.ActionResult, "bufconn", err == nil, before, validKey(key), true)
}

// HTTP PUT.  enc: 0 proto, 1 json; z: zstd-wrapped; framing: 0 ok, 1 garbage body, 2 wrong X-Digest-SizeBytes,
// 3 unknown length, 4 unsupported encoding, 5 undecodable zstd, 6 unparseable X-Digest-SizeBytes, 7 empty body
func (t *tcase) httpUpload(key string, ar *pb.ActionResult, enc int, z bool, framing int, remote string) {
	// over the wire nil elements become empty messages
	wire, err := proto.Marshal(ar)
	if err != nil {
		return
	}
	payload := wire
	if enc == 1 {
		tmp := &pb.ActionResult{}
		_ = proto.Unmarshal(wire, tmp)
		payload, err = protojson.Marshal(tmp)
		if err != nil {
			return
		}
	}
	if framing == 1 {
		payload = append([]byte{0xff, 0x07, 0x7b}, t.r.Bytes(5+t.r.Intn(20))...)
	}
	if framing == 7 {
		payload = []byte{}
	}
	body := payload
	if z {
		body = zenc.EncodeAll(payload, nil)
		if framing == 5 {
			body = append([]byte{0x28, 0xb5, 0x2f, 0xfd}, t.r.Bytes(12)...)
		}
	}
	req := httptest.NewRequest(http.MethodPut, "/ac/"+key, bytes.NewReader(body))
	req.RemoteAddr = remote
	ct := "application/octet-stream"
	if enc == 1 {
		ct = "application/json"
		req.Header.Set("Content-Type", ct)
	}
	xs := "None"
	encName := ""
	if z {
		encName = "zstd"
		req.Header.Set("Content-Encoding", "zstd")
		req.Header.Set("X-Digest-SizeBytes", fmt.Sprint(len(payload)))
		xs = fmt.Sprintf("(Some (Some %d))", len(payload))
	} else if t.r.Chance(20) {
		encName = "identity"
		req.Header.Set("Content-Encoding", "identity")
	}
	switch framing {
	case 2:
		n := len(payload) + 1 + t.r.Intn(3)
		req.Header.Set("X-Digest-SizeBytes", fmt.Sprint(n))
		xs = fmt.Sprintf("(Some (Some %d))", n)
	case 3:
		req.ContentLength = -1
		if z {
			req.Header.Del("X-Digest-SizeBytes")
			xs = "None"
		}
	case 4:
		encName = "gzip"
		req.Header.Set("Content-Encoding", "gzip")
	case 6:
		req.Header.Set("X-Digest-SizeBytes", "12x")
		xs = "(Some None)"
	}
	// oracles: decompression and decoding as the harness sees them
	unz := "None"
	data := body
	dataOK := true
	if z {
		d, derr := zdec.DecodeAll(body, nil)
		if derr != nil {
			dataOK = false
		} else {
			data = d
			unz = "(Some " + cBytes(d) + ")"
		}
	}
	var seen *pb.ActionResult
	if dataOK {
		tmp := &pb.ActionResult{}
		var uerr error
		if enc == 1 {
			uerr = protojson.Unmarshal(data, tmp)
		} else {
			uerr = proto.Unmarshal(data, tmp)
		}
		if uerr == nil {
			seen = tmp
		}
	}
	before := t.storedAC(key)
	var beforeRaw []byte
	if !t.validate {
		beforeRaw = t.rawEntry(key)
	}
	rec := httptest.NewRecorder()
	func() {
		defer func() {
			if p := recover(); p != nil {
				t.fail(fmt.Sprintf("HTTP PUT panicked: %v", p))
				rec.Code = 599
			}
		}()
		t.hc.CacheHandler(rec, req)
	}()
	t.evals++
	code := rec.Result().StatusCode
	obs := "(Ok tt)"
	if code != 200 {
		obs = httpErr(code)
	}
	t.events = append(t.events, fmt.Sprintf("CHttpPut (mkHP %s %s %s %s %s %s %s %s %s) %s", HS(key), CZ(req.ContentLength), xs, CS(encName),
		CB(enc == 1), CS(remote), cBytes(body), unz, cOAR(seen), obs))
	ch := []string{"http-proto", "http-json"}[enc]
	if z {
		ch += "-zstd"
	}
	t.text = append(t.text, fmt.Sprintf("%s(framing=%d)->%d", ch, framing, code))
	w := remote
	if w == "" {
		w = "unknown"
	}
	if t.validate {
		t.afterUpload(ch, key, seen, w, code == 200, before, (framing == 0 || framing == 7 && enc == 0) && int64(len(payload)) <= t.maxCas, false)
	} else {
		t.rep.Count("upload." + ch + ".novalidation")
		if code == 200 {
			if got := t.rawEntry(key); !bytes.Equal(got, data) {
				t.fail(ch + ": without validation the stored bytes differ from the uploaded ones")
			}
		} else if got := t.rawEntry(key); !bytes.Equal(got, beforeRaw) {
			t.fail(ch + ": a rejected raw upload changed the entry")
		}
		if t.storedAC(key) != nil && before == nil {
			t.fail(ch + ": an upload without validation reached the AC key space")
		}
	}
}

func (t *tcase) rawEntry(key string) []byte {
	rc, _, err := t.dc.Get(context.Background(), cache.RAW, key, -1, 0)
	if err != nil || rc == nil {
		return nil
	}
	defer rc.Close()
	b, _ := io.ReadAll(rc)
	return b
}

func (t *tcase) grpcGet(key *pb.Digest, rq inlineReq, reqKind int) {
	var req *pb.GetActionResultRequest
	reqTerm := "None"
	if reqKind != 1 {
		req = &pb.GetActionResultRequest{ActionDigest: key, InlineStdout: rq.stdout, InlineStderr: rq.stderr, InlineOutputFiles: rq.files}
		if reqKind == 2 {
			req.ActionDigest = nil
		}
		var fs []string
		for _, f := range rq.files {
			fs = append(fs, CS(f))
		}
		reqTerm = fmt.Sprintf("(Some (mkGet %s %s %s %s))", cODigest(req.ActionDigest), CB(rq.stdout), CB(rq.stderr), CList(fs))
	}
	var stored *pb.ActionResult
	if reqKind == 0 && len(key.Hash) == 64 {
		stored = t.storedAC(key.Hash)
	}
	var res *pb.ActionResult
	var err error
	func() {
		defer func() {
			if p := recover(); p != nil {
				t.fail(fmt.Sprintf("GetActionResult panicked: %v", p))
				err = status.Error(codes.Code(99), "panic")
			}
		}()
		res, err = t.ac.GetActionResult(context.Background(), req)
	}()
	t.evals++
	t.events = append(t.events, fmt.Sprintf("CGet %s %s", reqTerm, grpcResult(res, err)))
	t.text = append(t.text, fmt.Sprintf("grpc-get(out=%v,err=%v,files=%v)->%v", rq.stdout, rq.stderr, rq.files, status.Code(err)))
	if err != nil {
		t.rep.Count("get.miss-or-error")
		if stored == nil && status.Code(err) != codes.NotFound && reqKind == 0 && validKey(key) {
			t.fail("GetActionResult for an absent key did not answer NotFound")
		}
		return
	}
	t.rep.Count("get.hit")
	if stored == nil {
		t.fail("GetActionResult returned a message for a key without entry")
		return
	}
	if err := validate.ActionResult(res); err != nil || !wellFormed(res) {
		t.fail("GetActionResult returned a message that does not validate")
	}
	if !t.validate {
		if !proto.Equal(norm(res), norm(stored)) {
			t.fail("GetActionResult (no dependency check) returned a message other than the stored one")
		}
		return
	}
	if emptyDigestAnomaly(stored) {
		// only an HTTP PUT can have stored this (it never looks at inlined blobs; the gRPC path is
		// covered by the oracle in afterUpload).  A non-inlining read still drops such bytes:
		// maybeInline's Contains check short-cuts the empty digest.  Counted; an oracle failure
		// only when the driver is run with the extra argument strict-empty-digest.
		t.rep.Count("get.hit.empty-digest-inline-via-http")
		if strictEmptyDigest && !proto.Equal(norm(res), norm(stored)) {
			t.fail("inline contents declared with the empty-blob digest, stored through HTTP PUT, were dropped by a later hit (bytes neither returned nor in the CAS)")
		}
		return
	}
	if !consistent(stored) {
		t.rep.Count("get.hit.inconsistent-stored")
		return
	}
	want, deinl := expectedGet(stored, rq, t.casBlob)
	if !proto.Equal(norm(want), norm(res)) {
		t.fail("a hit returned a message that differs from the stored one beyond the documented inlining")
	}
	if !proto.Equal(norm(want), norm(stored)) {
		t.nontriv = true
		t.rep.Count("get.hit.transformed")
	}
	for _, b := range deinl {
		t.rep.Count("get.deinlined")
		ok, _ := t.dc.Contains(context.Background(), cache.CAS, sha(b), int64(len(b)))
		if !ok {
			t.fail("de-inlined bytes are not in the CAS under their true digest")
		} else {
			rc, _, gerr := t.dc.Get(context.Background(), cache.CAS, sha(b), int64(len(b)), 0)
			if gerr != nil || rc == nil {
				t.fail("de-inlined blob cannot be read back")
			} else {
				got, _ := io.ReadAll(rc)
				rc.Close()
				if !bytes.Equal(got, b) {
					t.fail("de-inlined blob reads back with other bytes")
				}
			}
			t.inCas[sha(b)] = b
		}
	}
}

func (t *tcase) httpGet(key string) {
	if !t.validate {
		req := httptest.NewRequest(http.MethodGet, "/ac/"+key, nil)
		rec := httptest.NewRecorder()
		t.hc.CacheHandler(rec, req)
		t.evals++
		obs := "None"
		if rec.Code == 200 {
			obs = "(Some " + cBytes(rec.Body.Bytes()) + ")"
		}
		t.events = append(t.events, fmt.Sprintf("CHttpGetRaw %s %s", HS(key), obs))
		return
	}
	get := func(json bool) (*pb.ActionResult, int) {
		req := httptest.NewRequest(http.MethodGet, "/ac/"+key, nil)
		if json {
			req.Header.Set("Accept", "application/json")
		}
		rec := httptest.NewRecorder()
		t.hc.CacheHandler(rec, req)
		t.evals++
		if rec.Code != 200 {
			return nil, rec.Code
		}
		ar := &pb.ActionResult{}
		var err error
		if json {
			err = protojson.Unmarshal(rec.Body.Bytes(), ar)
		} else {
			err = proto.Unmarshal(rec.Body.Bytes(), ar)
		}
		if err != nil {
			t.fail(fmt.Sprintf("HTTP GET body (json=%v) does not parse: %v", json, err))
			return nil, 598
		}
		return ar, 200
	}
	p, pc := get(false)
	j, jc := get(true)
	obs := httpErr(pc)
	if pc == 200 {
		obs = "(Ok " + cAR(p) + ")"
	}
	t.events = append(t.events, fmt.Sprintf("CHttpGet %s %s", HS(key), obs))
	t.text = append(t.text, fmt.Sprintf("http-get->%d/%d", pc, jc))
	if pc != jc {
		t.fail(fmt.Sprintf("HTTP GET status differs between protobuf (%d) and JSON (%d)", pc, jc))
	}
	if p != nil && j != nil {
		t.rep.Count("httpget.hit")
		if !proto.Equal(norm(p), norm(j)) {
			t.fail("the JSON and protobuf views of the stored ActionResult disagree")
		}
		if stored := t.storedAC(key); stored == nil || !proto.Equal(norm(stored), norm(p)) {
			t.fail("HTTP GET returned a message other than the stored one")
		}
		if validate.ActionResult(p) != nil {
			t.fail("HTTP GET returned a message that does not validate")
		}
	}
}

func (t *tcase) has(d *pb.Digest) {
	ok, _ := t.dc.Contains(context.Background(), cache.CAS, d.Hash, d.SizeBytes)
	t.evals++
	t.events = append(t.events, fmt.Sprintf("CHas %s %s", cDigest(d), CB(ok)))
}

func (t *tcase) validateDirect(ar *pb.ActionResult) {
	var err error
	func() {
		defer func() {
			if p := recover(); p != nil {
				t.fail(fmt.Sprintf("validate.ActionResult panicked: %v", p))
				err = fmt.Errorf("panic")
			}
		}()
		err = validate.ActionResult(ar)
	}()
	t.evals++
	msg := ""
	if err != nil {
		msg = err.Error()
		if i := strings.IndexAny(msg, "\"\n"); i >= 0 {
			msg = msg[:i]
		}
	}
	if (err == nil) != wellFormed(ar) {
		t.fail(fmt.Sprintf("validate.ActionResult (%v) disagrees with the well-formedness specification (%v)", err, wellFormed(ar)))
	}
	t.events = append(t.events, fmt.Sprintf("CValidate %s %s", cOAR(ar), CS(msg)))
}

// C06: referenced digests — independent walk, and what the implementation asks a backend for
func (t *tcase) refs(ar *pb.ActionResult) {
	if !wellFormed(ar) {
		return
	}
	var trees []*pb.Tree
	var tterms []string
	for _, d := range ar.OutputDirectories {
		tr, ok := t.trees[d.TreeDigest.Hash]
		if !ok {
			break
		}
		trees = append(trees, tr)
		tterms = append(tterms, cTree(tr))
	}
	if len(trees) != len(ar.OutputDirectories) {
		return
	}
	walk := referencedWalk(ar, trees)
	var ws []string
	for _, d := range walk {
		ws = append(ws, cDigest(d))
	}
	t.events = append(t.events, fmt.Sprintf("CRefs %s %s %s", cAR(ar), CList(tterms), CList(ws)))
	t.rep.Count("refs.cases")
	t.evals++

	// the implementation: empty local cache, everything served by a recording backend
	dir, err := os.MkdirTemp(tmpBase(), "verif-acresult-refs-")
	if err != nil {
		panic(err)
	}
	defer os.RemoveAll(dir)
	p := &recProxy{blobs: map[string][]byte{}, asked: map[string]bool{}}
	for _, b := range t.pool {
		p.blobs["cas/"+b.hash] = b.data
	}
	for _, b := range t.treeList {
		p.blobs["cas/"+b.hash] = b.data
	}
	c, err := disk.New(dir, 64*1024*1024, disk.WithStorageMode("uncompressed"), disk.WithProxyBackend(p), disk.WithAccessLogger(testutils.NewSilentLogger()))
	if err != nil {
		panic(err)
	}
	data, _ := proto.Marshal(ar)
	if len(data) == 0 {
		return
	}
	key := sha(data)
	if err := c.Put(context.Background(), cache.AC, key, int64(len(data)), bytes.NewReader(data)); err != nil {
		panic(err)
	}
	res, _, gerr := c.GetValidatedActionResult(context.Background(), key)
	if gerr != nil || res == nil {
		t.fail(fmt.Sprintf("C06: with every referenced blob available from the backend the lookup was not a hit (err=%v)", gerr))
		return
	}
	want := map[string]bool{}
	for _, d := range walk {
		if d.SizeBytes == 0 && d.Hash == emptySha {
			continue
		}
		want[fmt.Sprintf("%s/%d", d.Hash, d.SizeBytes)] = true
	}
	var a, b []string
	for k := range want {
		a = append(a, k)
	}
	for k := range p.asked {
		b = append(b, k)
	}
	sort.Strings(a)
	sort.Strings(b)
	if strings.Join(a, ",") != strings.Join(b, ",") {
		t.fail(fmt.Sprintf("C06: digests checked by GetValidatedActionResult %v differ from the referenced set %v", b, a))
	}
}

// a memory-backed directory when there is one (every Put fsyncs); "" = the default temp dir
func tmpBase() string {
	if os.Getenv("TMPDIR") == "" {
		if st, err := os.Stat("/dev/shm"); err == nil && st.IsDir() {
			return "/dev/shm"
		}
	}
	return ""
}

var strictEmptyDigest bool

func driver(seed uint64, n int, outV, outJSON string, args []string) {
	for _, a := range args {
		if a == "strict-empty-digest" {
			strictEmptyDigest = true
		}
	}
	r := &Rng{S: seed}
	rep := NewReport("acresult", seed)
	rep.Rule = "scenarios on a fresh disk cache: CAS pre-populated with a random subset of a blob pool and of generated Tree blobs; 1-3 uploads of generated ActionResults (valid; one-field-invalid mutants: nil/negative/malformed digests, empty/absolute paths, nil elements; inline contents contradicting their digest; request-level and HTTP framing faults) through gRPC (direct call with several peer shapes, bufconn) and HTTP PUT (proto/JSON x plain/zstd), then gRPC GetActionResult with inline-request combinations, HTTP GET (proto+JSON), CAS Contains probes, direct validator calls and the C06 reference walk; validation on in 85% of the cases; a case is non-trivial if an upload was rejected or a hit was transformed"
	var cases []string
	tmpRoot, err := os.MkdirTemp(tmpBase(), "verif-acresult-")
	if err != nil {
		panic(err)
	}
	defer os.RemoveAll(tmpRoot)
	for c := 0; c < n; c++ {
		t := &tcase{r: r, rep: rep, idx: c, inCas: map[string][]byte{}, trees: map[string]*pb.Tree{}}
		t.validate = !r.Chance(15)
		t.maxCas = math.MaxInt64
		if r.Chance(8) {
			t.maxCas = 200
		}
		dir := fmt.Sprintf("%s/c%d", tmpRoot, c)
		dc, err := disk.New(dir, 256*1024*1024, disk.WithAccessLogger(testutils.NewSilentLogger()))
		if err != nil {
			panic(err)
		}
		t.dc = dc
		t.ac = server.VerifNewACServer(dc, testutils.NewSilentLogger(), testutils.NewSilentLogger(), t.validate, false, t.maxCas)
		t.hc = server.NewHTTPCache(dc, testutils.NewSilentLogger(), testutils.NewSilentLogger(), t.validate, false, false, false, "", "", t.maxCas)

		// blob pool
		big := r.Chance(12)
		sizes := []int{1, 5, 100, 4096, 7, 33}
		if big {
			sizes = []int{1200000, 1500000, 1700000, 100, 900000, 2000000}
			rep.Count("case.big-blobs")
		}
		for _, sz := range sizes {
			d := r.Bytes(sz)
			t.pool = append(t.pool, blob{d, sha(d)})
		}
		for _, b := range t.pool {
			if r.Chance(88) {
				t.initCas = append(t.initCas, b)
			}
		}
		for i := r.Intn(3); i > 0; i-- {
			tr := t.genTree()
			data, _ := proto.Marshal(tr)
			tb := blob{data, sha(data)}
			t.treeList = append(t.treeList, tb)
			t.trees[tb.hash] = tr
			if len(data) > 0 && r.Chance(90) {
				t.initCas = append(t.initCas, tb)
			}
		}
		if r.Chance(10) && len(t.pool) > 0 {
			// a tree digest pointing at a blob that is not a Tree
			t.treeList = append(t.treeList, t.pool[0])
		}
		var casTerms, tdecTerms []string
		seenCas := map[string]bool{}
		for _, b := range t.initCas {
			if seenCas[b.hash] || len(b.data) == 0 {
				continue
			}
			seenCas[b.hash] = true
			if err := dc.Put(context.Background(), cache.CAS, b.hash, int64(len(b.data)), bytes.NewReader(b.data)); err != nil {
				panic(err)
			}
			t.inCas[b.hash] = b.data
			casTerms = append(casTerms, fmt.Sprintf("(%s, %s)", HS(b.hash), cBytes(b.data)))
		}
		for _, tb := range t.treeList {
			tr := &pb.Tree{}
			if proto.Unmarshal(tb.data, tr) == nil {
				tdecTerms = append(tdecTerms, fmt.Sprintf("(%s, %s)", HS(tb.hash), cTree(tr)))
				t.trees[tb.hash] = tr
			}
		}
		t.text = append(t.text, fmt.Sprintf("validate=%v maxcas=%d big=%v", t.validate, t.maxCas, big))

		kd := r.Bytes(16)
		key := &pb.Digest{Hash: sha(kd), SizeBytes: int64(10 + r.Intn(100))}
		nUploads := 1 + r.Intn(3)/2 + r.Intn(5)/4
		var uploaded []*pb.ActionResult
		for u := 0; u < nUploads; u++ {
			ar := t.genAR()
			kind := "valid"
			switch p := r.Intn(100); {
			case p < 40:
				kind = t.mutate(ar)
			case p < 52:
				kind = t.makeInconsistent(ar)
			}
			rep.Count("message." + kind)
			t.text = append(t.text, "message:"+kind)
			t.validateDirect(ar)
			if u == 0 {
				t.refs(ar)
			}
			uploaded = append(uploaded, ar)
			channel := r.Intn(9)
			if big && channel == 2 {
				channel = 0 // keep wire messages below the 4 MiB gRPC limit
			}
			if !t.validate && channel < 3 && r.Chance(50) {
				channel = 3 + r.Intn(4)
			}
			k := key
			reqKind := 0
			if r.Chance(8) {
				switch r.Intn(4) {
				case 0:
					k = &pb.Digest{Hash: key.Hash, SizeBytes: 0} // zero size with a non-empty hash
				case 1:
					k = &pb.Digest{Hash: badHashes[r.Intn(len(badHashes))], SizeBytes: 5}
				case 2:
					reqKind = 1 + r.Intn(3)
				case 3:
					k = &pb.Digest{Hash: emptySha, SizeBytes: 0} // a legal key
				}
			}
			switch {
			case channel <= 1:
				t.grpcUpload(k, ar, r.Intn(5), reqKind)
			case channel == 2:
				if validKey(k) || len(k.Hash) == 64 {
					t.bufconnUpload(k, ar)
				} else {
					t.grpcUpload(k, ar, 0, reqKind)
				}
			default:
				framing := 0
				if r.Chance(22) {
					framing = 1 + r.Intn(7)
				}
				remote := []string{"192.0.2.1:1234", "10.0.0.7:80", "", "client"}[r.Intn(4)]
				enc := (channel - 3) % 2
				z := channel >= 5 && channel <= 6 || channel == 8
				if framing == 5 && !z {
					z = true
				}
				t.httpUpload(key.Hash, ar, enc, z, framing, remote)
			}
		}

		// reads
		if r.Chance(6) {
			t.grpcGet(key, inlineReq{}, 1+r.Intn(2))
		}
		t.grpcGet(key, inlineReq{}, 0)
		t.httpGet(key.Hash)
		last := uploaded[len(uploaded)-1]
		for g := 1 + r.Intn(3); g > 0; g-- {
			rq := inlineReq{stdout: r.Chance(50), stderr: r.Chance(50)}
			for _, f := range last.OutputFiles {
				if f != nil && r.Chance(50) {
					rq.files = append(rq.files, f.Path)
				}
			}
			if r.Chance(10) {
				rq.files = append(rq.files, "no/such/file")
			}
			t.grpcGet(key, rq, 0)
		}
		t.grpcGet(key, inlineReq{}, 0)
		t.httpGet(key.Hash)
		// CAS probes: the true digests of everything that travelled inline, and the declared ones
		probe := map[string]*pb.Digest{}
		for _, ar := range uploaded {
			add := func(c []byte, d *pb.Digest) {
				if len(c) > 0 {
					probe[sha(c)] = &pb.Digest{Hash: sha(c), SizeBytes: int64(len(c))}
				}
				if d != nil && len(d.Hash) <= 70 {
					probe[d.Hash+fmt.Sprint(d.SizeBytes)] = d
				}
			}
			for _, f := range ar.OutputFiles {
				if f != nil {
					add(f.Contents, f.Digest)
				}
			}
			add(ar.StdoutRaw, ar.StdoutDigest)
			add(ar.StderrRaw, ar.StderrDigest)
		}
		var pk []string
		for k := range probe {
			pk = append(pk, k)
		}
		sort.Strings(pk)
		for i, k := range pk {
			if i < 6 {
				t.has(probe[k])
			}
		}
		t.checkStoredValid(key.Hash)

		cs := fmt.Sprintf("mkCase %s %s %s %s [\n   %s]", CB(t.validate), CZ(t.maxCas), CList(casTerms), CList(tdecTerms), strings.Join(t.events, ";\n   "))
		cases = append(cases, cs)
		txt := strings.Join(t.text, " | ")
		rep.CaseTexts = append(rep.CaseTexts, txt)
		if t.nontriv {
			rep.DistinctCase(txt)
		}
		if len(rep.Samples) < 4 {
			rep.Samples = append(rep.Samples, txt)
		}
		rep.Evaluations += t.evals
		_ = os.RemoveAll(dir)
	}
	rep.Cases = len(cases)
	writeCases(outV, "Gen.Consts Model.ActionResult", "ccase", "case_ok", cases)
	rep.Write(outJSON)
}
