// Command crash: crash images of a real disk.Cache taken at file-system-step granularity (from
// inside the upload's reader, at the commit yield point, between the background remover's
// unlinks, at quiescence), restart on the image (same or other storage mode, same or smaller
// max_size), then every key is read with known and unknown size.  Emits cases for
// Model/DiskCrash.v (ccase_ok) and applies the direct oracles of C08.
package main

import (
	"bytes"
	"context"
	"crypto/sha256"
	"encoding/hex"
	"fmt"
	"io"
	"log"
	"os"
	"path/filepath"
	"regexp"
	"sort"
	"strings"
	"time"

	"github.com/buchgr/bazel-remote/v2/cache"
	"github.com/buchgr/bazel-remote/v2/cache/disk"
	"github.com/buchgr/bazel-remote/v2/cache/disk/casblob"
	"github.com/buchgr/bazel-remote/v2/cache/disk/zstdimpl"
	"github.com/buchgr/bazel-remote/v2/utils/verifhook"

	. "verifharness/hlib"
)

func main() { Main("crash", driver) }

type blob struct {
	data []byte
	hash string
}

func mkBlob(r *Rng, size int64, compressible bool) *blob {
	var d []byte
	if compressible {
		d = bytes.Repeat([]byte{byte('a' + r.Intn(20))}, int(size))
		if size > 8 {
			copy(d, r.Bytes(8))
		}
	} else {
		d = r.Bytes(int(size))
	}
	h := sha256.Sum256(d)
	return &blob{data: d, hash: hex.EncodeToString(h[:])}
}

var nameRe = regexp.MustCompile(`^([a-f0-9]{64})(?:-([1-9][0-9]*))?-([0-9a-zA-Z]+)(\.v1)?$`)

type imgFile struct {
	rel     string
	key     string
	psize   int64
	random  string
	legacy  bool
	data    []byte
	atimeIx int
}

// files found by the last snapshotDir whose names are not of a shape the loader recognises
var unrecognised []string

func snapshotDir(dir string) []imgFile {
	var out []imgFile
	unrecognised = nil
	for _, ks := range [][2]string{{"cas.v2", "cas/"}, {"ac.v2", "ac/"}, {"raw.v2", "raw/"}} {
		_ = filepath.Walk(filepath.Join(dir, ks[0]), func(p string, info os.FileInfo, err error) error {
			if err != nil || info.IsDir() {
				return nil
			}
			m := nameRe.FindStringSubmatch(info.Name())
			if m == nil {
				rel, _ := filepath.Rel(dir, p)
				unrecognised = append(unrecognised, rel)
				return nil
			}
			var sz int64
			if m[2] != "" {
				fmt.Sscan(m[2], &sz)
			}
			b, _ := os.ReadFile(p)
			rel, _ := filepath.Rel(dir, p)
			out = append(out, imgFile{rel: rel, key: ks[1] + m[1], psize: sz, random: m[3], legacy: m[4] == ".v1", data: b})
			return nil
		})
	}
	sort.Slice(out, func(i, j int) bool { return out[i].rel < out[j].rel })
	return out
}

// gate: parks the background remover; optionally parks a request at put.commit
type gates struct {
	evPark, reqPark chan string
	evGo, reqGo     chan struct{}
	enabled         bool
	parkCommit      bool
}

var g *gates

func install() {
	h := func(point string) {
		s := g
		if s == nil || !s.enabled {
			return
		}
		if strings.HasPrefix(point, "evict.") {
			s.evPark <- point
			<-s.evGo
			return
		}
		if point == "put.commit" && s.parkCommit {
			s.reqPark <- point
			<-s.reqGo
		}
	}
	verifhook.Handler.Store(&h)
}

// a backend for the "kill during a backend fetch" crash point: Get is scripted per case, uploads are swallowed
type crashProxy struct {
	get func() (io.ReadCloser, int64, error)
}

func (p *crashProxy) Put(ctx context.Context, kind cache.EntryKind, hash string, logicalSize int64, sizeOnDisk int64, rc io.ReadCloser) {
	_, _ = io.Copy(io.Discard, rc)
	_ = rc.Close()
}
func (p *crashProxy) Get(ctx context.Context, kind cache.EntryKind, hash string, size int64) (io.ReadCloser, int64, error) {
	if p.get != nil {
		g := p.get
		p.get = nil
		return g()
	}
	return nil, -1, nil
}
func (p *crashProxy) Contains(ctx context.Context, kind cache.EntryKind, hash string, size int64) (bool, int64) {
	return false, -1
}

type crashReader struct {
	data []byte
	pos  int
	at   int
	fire func()
	done bool
}

func (c *crashReader) Close() error { return nil }

func (c *crashReader) Read(p []byte) (int, error) {
	if !c.done && c.pos >= c.at {
		c.done = true
		c.fire()
	}
	if c.pos >= len(c.data) {
		return 0, io.EOF
	}
	n := len(p)
	if n > 512 {
		n = 512
	}
	if !c.done && c.pos+n > c.at {
		n = c.at - c.pos
		if n == 0 {
			n = 1
		}
	}
	n = copy(p[:n], c.data[c.pos:])
	c.pos += n
	return n, nil
}

func errClass(err error) string {
	if ce, ok := err.(*cache.Error); ok {
		switch ce.Code {
		case 400:
			return "EBadRequest"
		case 507:
			return "EInsufficient"
		}
	}
	return "EInternal"
}

func r4k(n int64) int64 { return (n + 4095) / 4096 * 4096 }

func driver(seed uint64, n int, outV, outJSON string, _ []string) {
	r := &Rng{S: seed}
	rep := NewReport("crash", seed)
	rep.Rule = "a sequential prefix of uploads (AC/CAS/RAW, overwrites, evictions with the remover gated), then a crash image taken at one of: k bytes into an upload (from inside its reader), the end of an upload whose bytes do not match the digest (all bytes written, end of stream not yet seen), k bytes into a backend fetch (object in stored form written in place), the commit yield point (file complete, not indexed), between two unlinks of the remover, quiescence; access times of the image set to a random distinct order; restart with the same or the other storage mode and the same or a smaller max_size; every key read with known and unknown size; non-trivial = the image contains a file that is not an indexed entry (torn, uncommitted or evicted-not-unlinked) or the restart evicted something; distinct canonical case texts counted"
	log.SetOutput(io.Discard)
	install()
	ctx := context.Background()
	quiet := disk.WithAccessLogger(log.New(io.Discard, "", 0))
	var cases []string
	for c := 0; c < n; c++ {
		blocks := []int64{5, 6, 8, 12}[r.Intn(4)]
		max := blocks * 4096
		zstdMode := r.Chance(50)
		createdOnly := c == 1 // corpus case: uncompressed mode, killed after file creation, before the first byte
		if createdOnly {
			zstdMode = false
		}
		corruptCorpus := c == 2 // corpus case: zstd mode, a corrupt CAS upload killed while the server waits for the end of the stream
		if corruptCorpus || c == 3 {
			zstdMode = true
		}
		mode := map[bool]string{true: "zstd", false: "uncompressed"}[zstdMode]
		g = &gates{evPark: make(chan string, 1), reqPark: make(chan string), evGo: make(chan struct{}), reqGo: make(chan struct{}), enabled: true}
		my := g
		dir, _ := os.MkdirTemp("", "verif-crash-")
		px := &crashProxy{}
		dc, err := disk.New(dir, max, quiet, disk.WithStorageMode(mode), disk.WithProxyBackend(px))
		if err != nil {
			panic(err)
		}
		evAt := <-my.evPark
		realDir := disk.VerifDir(dc)
		sizes := []int64{1, 100, 4096, 4097, 9000, 12000}
		var blobs []*blob
		for i := 0; i < 6; i++ {
			b := mkBlob(r, r.Pick(sizes), r.Chance(50))
			for dup := true; dup; { // distinct contents: the content identity is the blob index
				dup = false
				for _, o := range blobs {
					if o.hash == b.hash {
						dup = true
						b = mkBlob(r, int64(len(b.data))+1, false)
					}
				}
			}
			blobs = append(blobs, b)
		}
		acKeys := []string{blobs[0].hash, blobs[1].hash}
		text := []string{fmt.Sprintf("mode=%s max=%d", mode, max)}
		failed := func(what string) { rep.Fail(c, what, strings.Join(text, " ; ")) }
		// what each key may legitimately hold: contents of completed uploads
		completed := map[string][]*blob{}
		inflightKey := ""
		type up struct {
			kind cache.EntryKind
			hash string
			b    *blob
		}
		pick := func() up {
			switch r.Intn(3) {
			case 0:
				return up{cache.AC, acKeys[r.Intn(2)], blobs[r.Intn(len(blobs))]}
			case 1:
				b := blobs[r.Intn(len(blobs))]
				return up{cache.RAW, acKeys[r.Intn(2)], b}
			}
			b := blobs[r.Intn(len(blobs))]
			return up{cache.CAS, b.hash, b}
		}
		for i := 0; i < 2+r.Intn(5); i++ {
			u := pick()
			if err := dc.Put(ctx, u.kind, u.hash, int64(len(u.b.data)), bytes.NewReader(u.b.data)); err == nil {
				completed[u.kind.String()+"/"+u.hash] = append(completed[u.kind.String()+"/"+u.hash], u.b)
			}
			text = append(text, fmt.Sprintf("Put(%s,%s..,%d)", u.kind.String(), u.hash[:6], len(u.b.data)))
		}
		// the crash point
		var image []imgFile
		var indexedAtCrash disk.VerifSnapshot
		var strange []string
		take := func() {
			image = snapshotDir(realDir)
			strange = append([]string{}, unrecognised...)
			indexedAtCrash = disk.VerifCacheSnapshot(dc)
		}
		incomplete := map[string]bool{} // rel path of the file being written at the crash
		kindOfCrash := r.Intn(5)
		fetchCorpus := c == 3 // corpus case: zstd mode, killed in the middle of a backend fetch
		if fetchCorpus {
			kindOfCrash = 4
		}
		reupload := c == 0 // corpus case: an interrupted re-upload of an acknowledged CAS blob
		if createdOnly || corruptCorpus {
			kindOfCrash = 0
		}
		if reupload {
			kindOfCrash = 0
			_ = dc.Put(ctx, cache.CAS, blobs[2].hash, int64(len(blobs[2].data)), bytes.NewReader(blobs[2].data))
			completed["cas/"+blobs[2].hash] = append(completed["cas/"+blobs[2].hash], blobs[2])
			text = append(text, fmt.Sprintf("Put(cas,%s..,%d)", blobs[2].hash[:6], len(blobs[2].data)))
		}
		switch kindOfCrash {
		case 0: // k bytes into an upload
			u := pick()
			if reupload {
				u = up{cache.CAS, blobs[2].hash, blobs[2]}
			}
			if createdOnly {
				u = up{cache.CAS, blobs[3].hash, blobs[3]}
			}
			if corruptCorpus {
				for _, b := range blobs {
					if len(completed["cas/"+b.hash]) == 0 {
						u = up{cache.CAS, b.hash, b}
					}
				}
			}
			k := 0
			if len(u.b.data) > 1 && !createdOnly {
				k = r.Intn(len(u.b.data))
			}
			// a CAS upload whose bytes do NOT match the digest, killed at the last crash point: every
			// declared byte has been delivered and written, the server is waiting for the end of the stream
			// (the hash verdict and, in zstd mode, the final chunk table come only after that)
			sent := u.b.data
			corruptEnd := !reupload && !createdOnly && u.kind == cache.CAS && len(completed["cas/"+u.hash]) == 0 && (r.Chance(25) || corruptCorpus)
			if corruptEnd {
				sent = append([]byte{}, u.b.data...)
				sent[r.Intn(len(sent))] ^= 0x5a
				k = len(sent)
			}
			before := map[string]bool{}
			for _, f := range snapshotDir(realDir) {
				before[f.rel] = true
			}
			rd := &crashReader{data: sent, at: k, fire: func() {
				take()
				for _, f := range image {
					if !before[f.rel] {
						incomplete[f.rel] = true
					}
				}
			}}
			_ = dc.Put(ctx, u.kind, u.hash, int64(len(u.b.data)), rd)
			inflightKey = u.kind.String() + "/" + u.hash
			if corruptEnd {
				text = append(text, fmt.Sprintf("CRASH at the end of a corrupt Put(%s,%s..,%d)", u.kind.String(), u.hash[:6], len(u.b.data)))
				rep.Count("crash.end-of-corrupt-upload")
			} else {
				text = append(text, fmt.Sprintf("CRASH %d bytes into Put(%s,%s..,%d)", k, u.kind.String(), u.hash[:6], len(u.b.data)))
				rep.Count("crash.mid-upload")
			}
		case 1: // file complete, commit not yet done
			u := pick()
			my.parkCommit = true
			done := make(chan error, 1)
			go func() { done <- dc.Put(ctx, u.kind, u.hash, int64(len(u.b.data)), bytes.NewReader(u.b.data)) }()
			select {
			case <-my.reqPark:
				take()
				my.parkCommit = false
				my.reqGo <- struct{}{}
				<-done
				// a complete but uncommitted file: after restart it may legitimately be served
				completed[u.kind.String()+"/"+u.hash] = append(completed[u.kind.String()+"/"+u.hash], u.b)
			case <-done: // rejected before writing (e.g. reservation refused)
				my.parkCommit = false
				take()
			}
			text = append(text, fmt.Sprintf("CRASH before commit of Put(%s,%s..,%d)", u.kind.String(), u.hash[:6], len(u.b.data)))
			rep.Count("crash.before-commit")
		case 4: // k bytes into a backend fetch (the object arrives in stored form and is written in place)
			var u *blob
			for _, b := range blobs {
				if len(completed["cas/"+b.hash]) == 0 {
					u = b
				}
			}
			if u == nil {
				take()
				text = append(text, "CRASH at rest")
				rep.Count("crash.at-rest")
				break
			}
			object := u.data
			if zstdMode {
				tf, _ := os.CreateTemp("", "verif-obj-")
				zi, _ := zstdimpl.Get("go")
				if _, werr := casblob.WriteAndClose(zi, bytes.NewReader(u.data), tf, casblob.Zstandard, u.hash, int64(len(u.data))); werr != nil {
					panic(werr)
				}
				object, _ = os.ReadFile(tf.Name())
				_ = os.Remove(tf.Name())
			}
			k := r.Intn(len(object))
			if r.Chance(30) {
				k = len(object) - 1 - r.Intn(2)%len(object)
				if k < 0 {
					k = 0
				}
			}
			before := map[string]bool{}
			for _, f := range snapshotDir(realDir) {
				before[f.rel] = true
			}
			rd := &crashReader{data: object, at: k, fire: func() {
				take()
				for _, f := range image {
					if !before[f.rel] {
						incomplete[f.rel] = true
					}
				}
			}}
			px.get = func() (io.ReadCloser, int64, error) { return rd, int64(len(u.data)), nil }
			sz := int64(len(u.data))
			if r.Chance(50) {
				sz = -1
			}
			if rc, _, gerr := dc.Get(ctx, cache.CAS, u.hash, sz, 0); gerr == nil && rc != nil {
				_, _ = io.Copy(io.Discard, rc)
				_ = rc.Close()
			}
			if !rd.done {
				take()
			}
			inflightKey = "cas/" + u.hash
			text = append(text, fmt.Sprintf("CRASH %d bytes into Fetch(cas,%s..,%d) of a %d-byte object", k, u.hash[:6], len(u.data), len(object)))
			rep.Count("crash.mid-fetch")
		case 2: // between unlinks
			snap := disk.VerifCacheSnapshot(dc)
			if len(snap.Queue) > 0 {
				if evAt == "evict.take" {
					my.evGo <- struct{}{}
					evAt = <-my.evPark
				}
				if len(snap.Queue) > 1 {
					my.evGo <- struct{}{}
					evAt = <-my.evPark
				}
			}
			take()
			text = append(text, "CRASH between unlinks")
			rep.Count("crash.between-unlinks")
		default:
			take()
			text = append(text, "CRASH at rest")
			rep.Count("crash.at-rest")
		}
		my.enabled = false
		// let the original instance's remover go (it is abandoned)
		select {
		case my.evGo <- struct{}{}:
		default:
		}

		// ---- build the image directory with a random distinct access-time order
		imgDir, _ := os.MkdirTemp("", "verif-image-")
		perm := make([]int, len(image))
		for i := range perm {
			perm[i] = i
		}
		for i := len(perm) - 1; i > 0; i-- {
			j := r.Intn(i + 1)
			perm[i], perm[j] = perm[j], perm[i]
		}
		if reupload {
			// put the incomplete file last (most recent access time)
			for i, ix := range perm {
				if incomplete[image[ix].rel] {
					perm[i], perm[len(perm)-1] = perm[len(perm)-1], perm[i]
				}
			}
		}
		base := time.Now().Add(-24 * time.Hour)
		for rank, ix := range perm {
			f := &image[ix]
			f.atimeIx = rank
			p := filepath.Join(imgDir, f.rel)
			_ = os.MkdirAll(filepath.Dir(p), 0755)
			_ = os.WriteFile(p, f.data, 0644)
			at := base.Add(time.Duration(rank) * time.Minute)
			_ = os.Chtimes(p, at, at)
		}
		max2 := max
		if r.Chance(30) {
			max2 = max - 4096*int64(1+r.Intn(2))
		}
		mode2 := mode
		if r.Chance(30) {
			mode2 = map[bool]string{true: "uncompressed", false: "zstd"}[zstdMode]
		}
		text = append(text, fmt.Sprintf("RESTART mode=%s max=%d", mode2, max2))
		if len(strange) > 0 {
			// C08 "it starts successfully": the loader refuses a directory that holds such a file
			failed(fmt.Sprintf("C08: at the kill the cache directory holds a file whose name the loader does not recognise (the next start fails): %v", strange))
		}
		dc2, err := disk.New(imgDir, max2, quiet, disk.WithStorageMode(mode2))
		if err != nil {
			failed("C08: restart on the crash image failed: " + err.Error())
			_ = os.RemoveAll(dir)
			_ = os.RemoveAll(imgDir)
			continue
		}
		// the loader queues duplicate and surplus files for the background remover: let it finish before the
		// directory is compared with the index (up to 60 s on a loaded machine)
		for i := 0; i < 60000 && disk.VerifQueuedBytes(dc2) != 0; i++ {
			time.Sleep(time.Millisecond)
		}
		snap2 := disk.VerifCacheSnapshot(dc2)
		// accounting after restart
		var sum int64
		for _, e := range snap2.Order {
			sum += r4k(e.Item.SizeOnDisk)
		}
		if snap2.Cur != sum || snap2.Res != 0 || snap2.Cur > max2 {
			failed(fmt.Sprintf("C08: accounting after restart: total=%d entries=%d reserved=%d max=%d", snap2.Cur, sum, snap2.Res, max2))
		}
		left := snapshotDir(imgDir)
		if len(left) != len(snap2.Order) {
			failed(fmt.Sprintf("C08: %d files left after restart, %d indexed entries", len(left), len(snap2.Order)))
		}
		// the model's image: files in access-time order
		ordered := make([]imgFile, len(image))
		for _, f := range image {
			ordered[f.atimeIx] = f
		}
		nontrivial := len(left) != len(image)
		var imgT []string
		var total int64
		for _, f := range ordered {
			total += r4k(int64(len(f.data)))
			cid, logical := -1, int64(len(f.data))
			complete := !incomplete[f.rel]
			if strings.HasPrefix(f.key, "cas/") {
				for j, b := range blobs {
					if f.key == "cas/"+b.hash {
						cid = j
					}
				}
				if !f.legacy {
					logical = f.psize
				}
			} else {
				for j, b := range blobs {
					if bytes.HasPrefix(b.data, f.data) && (cid == -1 || len(b.data) == len(f.data)) {
						cid = j
					}
				}
			}
			if !complete {
				nontrivial = true
			}
			imgT = append(imgT, fmt.Sprintf("(mkFile (mkPath %s %s %s %s) %d %s %s %s)", CS(f.key), CZ(f.psize), CS(f.random), CB(f.legacy), cid, CZ(int64(len(f.data))), CB(complete), CZ(logical)))
		}
		// acknowledged uploads must survive when everything fits
		if total <= max2 {
			for _, e := range indexedAtCrash.Order {
				found := false
				for _, e2 := range snap2.Order {
					if e2.Key == e.Key {
						found = true
					}
				}
				if !found {
					failed("C08: entry " + e.Key + " indexed at the crash is gone after a restart although the whole image fits in max_size")
				}
			}
		}
		// reads
		var reads, observed []string
		keys := map[string]bool{}
		for k := range completed {
			keys[k] = true
		}
		if inflightKey != "" {
			keys[inflightKey] = true
		}
		var ks []string
		for k := range keys {
			ks = append(ks, k)
		}
		sort.Strings(ks)
		for _, key := range ks {
			kname := strings.ToUpper(strings.SplitN(key, "/", 2)[0])
			hash := strings.SplitN(key, "/", 2)[1]
			kind := map[string]cache.EntryKind{"CAS": cache.CAS, "AC": cache.AC, "RAW": cache.RAW}[kname]
			var szs []int64
			if kind == cache.CAS {
				for _, b := range blobs {
					if b.hash == hash {
						szs = []int64{int64(len(b.data)), -1}
					}
				}
			} else {
				szs = []int64{-1}
			}
			for _, sz := range szs {
				rc, fsz, err := dc2.Get(ctx, kind, hash, sz, 0)
				reads = append(reads, fmt.Sprintf("RGet %s %s %s 0 false BMiss \"\"", kname, CS(hash), CZ(sz)))
				switch {
				case err != nil:
					observed = append(observed, "Some (GetErr "+errClass(err)+")")
				case rc == nil:
					observed = append(observed, "Some GetMiss")
					rep.Count("read.miss")
					if total <= max2 && key != inflightKey || (total <= max2 && key == inflightKey && len(completed[key]) > 0) {
						for _, e := range indexedAtCrash.Order {
							if e.Key == key && (sz == -1 || sz == e.Item.Size) {
								failed(fmt.Sprintf("C08: %s was acknowledged and indexed before the kill and the whole image fits in max_size, but after the restart a read (size %d) misses", key[:12], sz))
							}
						}
					}
				default:
					body, _ := io.ReadAll(rc)
					_ = rc.Close()
					cid := -1
					for j, b := range blobs {
						if bytes.HasPrefix(b.data, body) && (cid == -1 || len(b.data) == len(body)) {
							cid = j
						}
					}
					if kind == cache.CAS {
						for j, b := range blobs {
							if b.hash == hash {
								cid = j
							}
						}
					}
					flen := int64(len(body))
					s3 := disk.VerifCacheSnapshot(dc2)
					for _, e := range append(append([]disk.VerifEntry{}, s3.Order...), s3.Queue...) {
						if e.Key == key {
							flen = e.Item.SizeOnDisk
						}
					}
					observed = append(observed, fmt.Sprintf("Some (GetHit %s %d %s)", CZ(fsz), cid, CZ(flen)))
					rep.Count("read.hit")
					// C08 oracle
					if kind == cache.CAS {
						h := sha256.Sum256(body)
						if hex.EncodeToString(h[:]) != hash {
							failed(fmt.Sprintf("C08: after restart (written in %s mode, size %s) a read of CAS %s.. returned %d bytes that do not match the digest", mode, map[bool]string{true: "unknown", false: "known"}[sz == -1], hash[:8], len(body)))
						}
					} else {
						ok := false
						for _, b := range completed[key] {
							if bytes.Equal(b.data, body) {
								ok = true
							}
						}
						if !ok {
							failed(fmt.Sprintf("C08: after restart a read of %s.. returned %d bytes that are not byte-identical to any completed upload of that key", key[:10], len(body)))
						}
					}
				}
			}
		}
		caseText := strings.Join(text, " ; ")
		rep.CaseTexts = append(rep.CaseTexts, caseText)
		if nontrivial {
			rep.DistinctCase(caseText)
		}
		if c < 2 {
			rep.Samples = append(rep.Samples, caseText)
		}
		rep.Evaluations += 1 + len(reads)
		var orderT []string
		for _, e := range snap2.Order {
			orderT = append(orderT, fmt.Sprintf("(mkEntry %s (mkItem %s %s %s %s))", CS(e.Key), CZ(e.Item.Size), CZ(e.Item.SizeOnDisk), CS(e.Item.Random), CB(e.Item.Legacy)))
		}
		snapT := fmt.Sprintf("(mkSnap %s %s %s %s %s 0 [])", CList(orderT), CZ(snap2.Cur), CZ(snap2.Unc), CZ(snap2.Res), CZ(snap2.Queued))
		for i := range reads {
			reads[i] = "(" + reads[i] + ")"
		}
		cases = append(cases, fmt.Sprintf("((mkCfg %s %s %s false), %s, 0, %s,\n %s,\n %s, %s)", CB(mode2 == "zstd"), CZ(1<<40), CZ(1<<40), CZ(max2), CList(imgT), snapT, CList(reads), CList(observed)))
		_ = os.RemoveAll(dir)
		_ = os.RemoveAll(imgDir)
	}
	rep.Cases = n
	WriteCases(outV, "Model.LRU Model.Disk Model.DiskCrash", "ccase", "ccase_ok", cases)
	rep.Write(outJSON)
}
