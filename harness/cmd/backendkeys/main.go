// Command backendkeys is the correspondence driver for the naming part of C20: generated
// (key space, hash, size, prefix / base URL, storage mode) tuples go through the REAL name
// functions of bazel-remote and are compared with Model/Names.v (key_case_ok, name_case_ok):
//
//   - s3proxy / azblobproxy: the proxies are built with their New functions and asked Contains
//     with an already cancelled context (no network); the object key is what they hand to their
//     access logger (for azblob that is the key with the prefix applied the second time);
//   - httpproxy (also what gcsproxy uses): Get through an http.Client whose RoundTripper records
//     the request URL;
//   - grpcproxy: Get / Contains / UploadFile against recording ByteStream and ActionCache clients
//     (built through the verif accessor grpcproxy.VerifClients);
//   - disk: FileLocation, FileLocationBase, cache.LookupKey through the verif accessors.
//
// Direct oracle (independent of the model): within one (backend, prefix, mode) two different
// (key space, hash) pairs never get the same name, except RAW/AC in the gRPC backend.
package main

import (
	"bytes"
	"context"
	"encoding/hex"
	"errors"
	"fmt"
	"io"
	"log"
	"net/http"
	"net/url"
	"os"
	"regexp"
	"strings"

	. "verifharness/hlib"

	"github.com/buchgr/bazel-remote/v2/cache"
	"github.com/buchgr/bazel-remote/v2/cache/azblobproxy"
	"github.com/buchgr/bazel-remote/v2/cache/disk"
	"github.com/buchgr/bazel-remote/v2/cache/grpcproxy"
	"github.com/buchgr/bazel-remote/v2/cache/httpproxy"
	"github.com/buchgr/bazel-remote/v2/cache/s3proxy"
	pb "github.com/buchgr/bazel-remote/v2/genproto/build/bazel/remote/execution/v2"
	"github.com/buchgr/bazel-remote/v2/utils/backendproxy"

	"github.com/minio/minio-go/v7"
	"github.com/minio/minio-go/v7/pkg/credentials"
	bs "google.golang.org/genproto/googleapis/bytestream"
	"google.golang.org/grpc"
)

func main() { Main("backendkeys", keysDriver) }

// ---- recorders

type recLogger struct{ last []interface{} }

func (l *recLogger) Printf(format string, v ...interface{}) { l.last = v }

type recTransport struct{ url string }

func (t *recTransport) RoundTrip(req *http.Request) (*http.Response, error) {
	t.url = req.URL.String()
	return nil, errors.New("recorded")
}

type recBS struct {
	read  string
	write string
}

func (b *recBS) Read(ctx context.Context, in *bs.ReadRequest, opts ...grpc.CallOption) (bs.ByteStream_ReadClient, error) {
	b.read = in.ResourceName
	return nil, errors.New("recorded")
}

type recWrite struct {
	grpc.ClientStream
	b *recBS
}

func (w *recWrite) Send(r *bs.WriteRequest) error {
	if w.b.write == "" {
		w.b.write = r.ResourceName
	}
	return errors.New("recorded")
}
func (w *recWrite) CloseAndRecv() (*bs.WriteResponse, error) { return nil, errors.New("recorded") }
func (w *recWrite) CloseSend() error                         { return nil }

func (b *recBS) Write(ctx context.Context, opts ...grpc.CallOption) (bs.ByteStream_WriteClient, error) {
	return &recWrite{b: b}, nil
}
func (b *recBS) QueryWriteStatus(ctx context.Context, in *bs.QueryWriteStatusRequest, opts ...grpc.CallOption) (*bs.QueryWriteStatusResponse, error) {
	return nil, errors.New("unused")
}

type recAC struct{ hash string }

func (a *recAC) GetActionResult(ctx context.Context, in *pb.GetActionResultRequest, opts ...grpc.CallOption) (*pb.ActionResult, error) {
	a.hash = in.ActionDigest.Hash
	return nil, errors.New("recorded")
}
func (a *recAC) UpdateActionResult(ctx context.Context, in *pb.UpdateActionResultRequest, opts ...grpc.CallOption) (*pb.ActionResult, error) {
	return nil, errors.New("unused")
}

// ---- Coq terms

func ckind(k cache.EntryKind) string {
	switch k {
	case cache.AC:
		return "AC"
	case cache.CAS:
		return "CAS"
	}
	return "RAW"
}
func cmode(m string) string {
	if m == "zstd" {
		return "Zstd"
	}
	return "Uncompressed"
}

var kinds = []cache.EntryKind{cache.AC, cache.CAS, cache.RAW}
var modes = []string{"zstd", "uncompressed"}

func genPrefix(r *Rng) string {
	clean := []string{"", "p", "team/cache", "a.b/c-d_e", "x/y/z", "v2"}
	odd := []string{"/", "/abs/path", "a//b", "a/./b", "a/../b", "../up", "a/b/", ".", "..", "a/../../b", "//x", "/..", "./a", "a/..", "/a/../.."}
	if r.Chance(65) {
		return clean[r.Intn(len(clean))]
	}
	return odd[r.Intn(len(odd))]
}

// lexClean: lexical normalisation of a slash path (empty and "." segments dropped, ".." resolved),
// written here independently of the repository and of package path
func lexClean(p string) string {
	rooted := strings.HasPrefix(p, "/")
	var out []string
	for _, seg := range strings.Split(p, "/") {
		switch {
		case seg == "" || seg == ".":
		case seg == "..":
			if len(out) > 0 && out[len(out)-1] != ".." {
				out = out[:len(out)-1]
			} else if !rooted {
				out = append(out, "..")
			}
		default:
			out = append(out, seg)
		}
	}
	s := strings.Join(out, "/")
	if rooted {
		s = "/" + s
	}
	if s == "" {
		s = "."
	}
	return s
}

var uuidRe = regexp.MustCompile(`^uploads/([0-9a-f]{8}-[0-9a-f]{4}-[0-9a-f]{4}-[0-9a-f]{4}-[0-9a-f]{12})/`)

func keysDriver(seed uint64, n int, outV, outJSON string, _ []string) {
	log.SetOutput(io.Discard)
	// s3proxy.New prints a banner on stdout
	devnull, _ := os.OpenFile(os.DevNull, os.O_WRONLY, 0)
	r := &Rng{S: seed}
	rep := NewReport("backendkeys", seed)
	rep.Rule = "generated (backend in {s3, azblob, http/gcs, grpc read, grpc upload, disk FileLocation}, storage mode, prefix / base URL incl. unclean prefixes, key space, hash, size) through the real name functions; a case is non-trivial if it has a non-empty prefix or a CAS key; distinct = distinct canonical case texts among those"
	var cases []string
	seen := map[string]string{} // backend|prefix|mode|name -> kind/hash   (direct oracle: injectivity)
	ctx, cancel := context.WithCancel(context.Background())
	cancel()

	dir, _ := os.MkdirTemp("", "verif-keys-")
	defer os.RemoveAll(dir)
	dc, err := disk.New(dir, 1<<20)
	if err != nil {
		panic(err)
	}
	caseType := "key_case + name_case"

	for c := 0; c < n; c++ {
		kind := kinds[r.Intn(3)]
		mode := modes[r.Intn(2)]
		hash := hex.EncodeToString(r.Bytes(32))
		if r.Chance(10) {
			hash = strings.Repeat([]string{"0", "f", "a"}[r.Intn(3)], 64)
		}
		var size int64
		switch r.Intn(4) {
		case 0:
			size = int64(r.Intn(10))
		case 1:
			size = int64(r.Intn(100000))
		case 2:
			size = 1 << uint(10+r.Intn(40))
		default:
			size = 4096*int64(r.Intn(1000)) + 1
		}
		var term, text, name, scope, ident string
		ident = ckind(kind) + "/" + hash
		backend := r.Intn(6)
		switch backend {
		case 0: // s3
			pre := genPrefix(r)
			al := &recLogger{}
			old := os.Stdout
			os.Stdout = devnull
			p := s3proxy.New("127.0.0.1:9", "bucket", minio.BucketLookupAuto, pre, credentials.NewStaticV4("k", "s", ""), true, false, "us-east-1", 1, mode, al, &recLogger{}, 0, 0)
			os.Stdout = old
			p.Contains(ctx, kind, hash, -1)
			if len(al.last) < 3 {
				panic("s3proxy did not log the object key")
			}
			name = al.last[2].(string)
			term = fmt.Sprintf("inl (KS3 %s %s %s %s %s)", cmode(mode), CS(pre), ckind(kind), CS(hash), CS(name))
			text = fmt.Sprintf("s3 mode=%s prefix=%q %s/%s -> %s", mode, pre, kind, hash, name)
			scope = "s3|" + pre + "|" + mode
			rep.Count("backend.s3")
			// direct oracle: the published bucket layout, written down independently of the proxy's code
			// (every 2.x release stored <prefix>/<key space dir>/<hh>/<hash> as ONE lexically cleaned
			// slash path, "cas.v2" for compressed CAS objects)
			ksdir := map[cache.EntryKind]string{cache.CAS: "cas", cache.AC: "ac", cache.RAW: "raw"}[kind]
			if kind == cache.CAS && mode == "zstd" {
				ksdir = "cas.v2"
			}
			want := ksdir + "/" + hash[:2] + "/" + hash
			if pre != "" {
				want = lexClean(pre + "/" + want)
			}
			if name != want {
				rep.Fail(c, fmt.Sprintf("S3 object key %q differs from the published v2 layout %q: a bucket written by an earlier release is no longer found", name, want), text)
			}
		case 1: // azblob
			pre := genPrefix(r)
			al := &recLogger{}
			p := azblobproxy.New("acct", "cont", pre, nil, "", false, mode, al, &recLogger{}, 0, 0)
			p.Contains(ctx, kind, hash, -1)
			if len(al.last) < 4 {
				panic("azblobproxy did not log the object key")
			}
			name = al.last[3].(string)
			term = fmt.Sprintf("inl (KAz %s %s %s %s %s)", cmode(mode), CS(pre), ckind(kind), CS(hash), CS(name))
			text = fmt.Sprintf("azblob mode=%s prefix=%q %s/%s -> %s", mode, pre, kind, hash, name)
			scope = "az|" + pre + "|" + mode
			rep.Count("backend.azblob")
		case 2: // http / gcs
			bases := []string{"http://backend:8080", "http://backend:8080/", "https://h.example/cache/v1", "https://h.example/cache///", "http://127.0.0.1:1/x-y_z"}
			var u *url.URL
			if r.Chance(25) { // as gcsproxy.New builds it
				u = &url.URL{Scheme: "https", Host: "storage.googleapis.com", Path: []string{"bucket", "my-bucket.1"}[r.Intn(2)]}
				rep.Count("backend.gcs")
			} else {
				u, _ = url.Parse(bases[r.Intn(len(bases))])
				rep.Count("backend.http")
			}
			base := strings.TrimRight(u.String(), "/")
			rt := &recTransport{}
			p, err := httpproxy.New(u, mode, &http.Client{Transport: rt}, &recLogger{}, &recLogger{}, 0, 0)
			if err != nil {
				panic(err)
			}
			_, _, _ = p.Get(context.Background(), kind, hash, -1)
			name = rt.url
			term = fmt.Sprintf("inl (KHttp %s %s %s %s %s)", cmode(mode), CS(base), ckind(kind), CS(hash), CS(name))
			text = fmt.Sprintf("http mode=%s base=%q %s/%s -> %s", mode, base, kind, hash, name)
			scope = "http|" + base + "|" + mode
		case 3: // grpc read
			b, a := &recBS{}, &recAC{}
			p := grpcproxy.New(grpcproxy.VerifClients(nil, b, a, nil, nil), mode, &recLogger{}, &recLogger{}, 0, 0)
			if r.Chance(50) {
				_, _, _ = p.Get(context.Background(), kind, hash, size)
			} else if kind != cache.CAS {
				p.Contains(context.Background(), kind, hash, size)
			} else {
				_, _, _ = p.Get(context.Background(), kind, hash, size)
			}
			var o string
			if kind == cache.CAS {
				name = b.read
				o = "GBlob " + CS(name)
				if a.hash != "" {
					rep.Fail(c, "a CAS request reached the ActionCache service", hash)
				}
			} else {
				name = "action:" + a.hash
				o = "GAction " + CS(a.hash)
				if b.read != "" {
					rep.Fail(c, "an AC/RAW request reached ByteStream", hash)
				}
				ident = "ACRAW/" + hash // RAW and AC are one object in this backend, by design
			}
			if kind == cache.CAS {
				ident += fmt.Sprintf("/%d", size)
			}
			term = fmt.Sprintf("inl (KGrpcRead %s %s %s %s (%s))", cmode(mode), ckind(kind), CS(hash), CZ(size), o)
			text = fmt.Sprintf("grpc read mode=%s %s/%s size=%d -> %s", mode, kind, hash, size, name)
			scope = "grpc|" + mode
			rep.Count("backend.grpc-read")
		case 4: // grpc upload (CAS only: AC/RAW go through UpdateActionResult)
			b := &recBS{}
			p := grpcproxy.New(grpcproxy.VerifClients(nil, b, &recAC{}, nil, nil), mode, &recLogger{}, &recLogger{}, 0, 0)
			up := p.(backendproxy.Uploader)
			up.UploadFile(backendproxy.UploadReq{Hash: hash, LogicalSize: size, SizeOnDisk: 3, Kind: cache.CAS, Rc: io.NopCloser(bytes.NewReader([]byte("abc")))})
			name = b.write
			m := uuidRe.FindStringSubmatch(name)
			if m == nil {
				rep.Fail(c, "upload resource name does not start with uploads/<uuid>/", name)
				m = []string{"", ""}
			}
			kind = cache.CAS
			ident = "CAS/" + hash + fmt.Sprintf("/%d", size)
			term = fmt.Sprintf("inl (KGrpcWrite %s %s %s %s %s)", cmode(mode), CS(m[1]), CS(hash), CZ(size), CS(name))
			text = fmt.Sprintf("grpc upload mode=%s cas/%s size=%d -> %s", mode, hash, size, name)
			scope = "" // the uuid differs per upload
			name = strings.Replace(name, m[1], "UUID", 1)
			rep.Count("backend.grpc-upload")
		case 5: // disk
			legacy := r.Chance(40)
			random := fmt.Sprintf("%d", r.Intn(1000000))
			if r.Chance(40) {
				random = hex.EncodeToString(r.Bytes(4)) + "Zq"
			}
			if size == 0 {
				size = 1
			}
			loc := disk.VerifLoadFileLocation(dc, kind, legacy, hash, size, random)
			base := disk.VerifLoadFileLocationBase(dc, kind, legacy, hash, size)
			key := cache.LookupKey(kind, hash)
			term = fmt.Sprintf("inr (NCLoc %s %s %s %s %s %s %s %s)", ckind(kind), CB(legacy), CS(hash), CZ(size), CS(random), CS(loc), CS(base), CS(key))
			text = fmt.Sprintf("disk %s legacy=%v %s size=%d random=%s -> %s", kind, legacy, hash, size, random, loc)
			name = key
			scope = "lookupkey"
			rep.Count("backend.disk")
		}
		rep.Evaluations++
		if scope != "" {
			k := scope + "|" + name
			if prev, ok := seen[k]; ok && prev != ident {
				rep.Fail(c, fmt.Sprintf("two different entries map to the same backend name %q: %s and %s", name, prev, ident), text)
			}
			seen[k] = ident
		}
		if kind == cache.CAS || strings.Contains(text, "prefix=\"") && !strings.Contains(text, "prefix=\"\"") {
			rep.DistinctCase(text)
		}
		rep.Count("kind." + kind.String())
		rep.CaseTexts = append(rep.CaseTexts, text)
		if c < 4 {
			rep.Samples = append(rep.Samples, text)
		}
		cases = append(cases, term)
	}
	rep.Cases = n
	WriteCases(outV, "Model.Names", caseType, "(fun c => match c with inl k => key_case_ok k | inr x => name_case_ok x end)", cases)
	rep.Write(outJSON)
}
