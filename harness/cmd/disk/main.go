// Command disk: sequential histories against a real disk.Cache (built from /repo with -tags verif)
// with a scripted fault-injecting proxy backend and a gated background remover; emits the cases
// for Model/Disk.v (dcase_ok) and applies direct oracles for C01/C03/C04/C10/C12/C17/C18.
package main

import (
	"bytes"
	"context"
	"crypto/sha256"
	"encoding/hex"
	"errors"
	"fmt"
	"io"
	"log"
	"os"
	"path/filepath"
	"regexp"
	"sort"
	"strings"
	"sync"
	"sync/atomic"
	"time"

	"github.com/buchgr/bazel-remote/v2/cache"
	"github.com/buchgr/bazel-remote/v2/cache/disk"
	"github.com/buchgr/bazel-remote/v2/cache/disk/casblob"
	"github.com/buchgr/bazel-remote/v2/cache/disk/zstdimpl"
	pb "github.com/buchgr/bazel-remote/v2/genproto/build/bazel/remote/execution/v2"
	"github.com/buchgr/bazel-remote/v2/utils/verifhook"

	. "verifharness/hlib"
)

func main() { Main("disk", driver) }

// ---------------------------------------------------------------- evictor gate

type gate struct {
	tokens chan struct{}
	atGate chan struct{}
}

// Each cache gets its own gate: removers of earlier caches stay parked at theirs for ever.
var curGate atomic.Pointer[gate]

func newGate() *gate {
	g := &gate{tokens: make(chan struct{}), atGate: make(chan struct{}, 16)}
	curGate.Store(g)
	return g
}

func installGate() {
	h := func(point string) {
		if point == "evict.take" {
			g := curGate.Load()
			g.atGate <- struct{}{}
			<-g.tokens
		}
	}
	verifhook.Handler.Store(&h)
}

// ---------------------------------------------------------------- scripted backend

type bget struct {
	kind      string // "err" "miss" "found"
	claimed   int64
	full      int64
	delivered int64
	berr      bool
	cid       int
	logical   int64
	object    []byte
}

type fakeProxy struct {
	mu     sync.Mutex
	get    *bget
	has    map[string]int64 // hash -> size reported (absent = no); -2 = no
	puts   []string
	gets   int
	putErr []string
}

type faultReader struct {
	data []byte
	err  bool
	pos  int
}

func (f *faultReader) Read(p []byte) (int, error) {
	if f.pos >= len(f.data) {
		if f.err {
			return 0, errors.New("injected stream error")
		}
		return 0, io.EOF
	}
	n := copy(p, f.data[f.pos:])
	if n > 4096 {
		n = 4096
	}
	f.pos += n
	return n, nil
}
func (f *faultReader) Close() error { return nil }

func (p *fakeProxy) Put(ctx context.Context, kind cache.EntryKind, hash string, logicalSize int64, sizeOnDisk int64, rc io.ReadCloser) {
	b, err := io.ReadAll(rc)
	_ = rc.Close()
	p.mu.Lock()
	defer p.mu.Unlock()
	p.puts = append(p.puts, fmt.Sprintf("%s/%s %d %d", kind.String(), hash, logicalSize, sizeOnDisk))
	if err != nil || int64(len(b)) != sizeOnDisk {
		p.putErr = append(p.putErr, fmt.Sprintf("handed-off reader for %s delivered %d bytes (err %v), sizeOnDisk %d", hash, len(b), err, sizeOnDisk))
	}
}

func (p *fakeProxy) Get(ctx context.Context, kind cache.EntryKind, hash string, size int64) (io.ReadCloser, int64, error) {
	p.mu.Lock()
	defer p.mu.Unlock()
	p.gets++
	g := p.get
	if g == nil || g.kind == "miss" {
		return nil, -1, nil
	}
	if g.kind == "err" {
		return nil, -1, errors.New("injected backend error")
	}
	return &faultReader{data: g.object[:g.delivered], err: g.berr}, g.claimed, nil
}

func (p *fakeProxy) Contains(ctx context.Context, kind cache.EntryKind, hash string, size int64) (bool, int64) {
	p.mu.Lock()
	defer p.mu.Unlock()
	if sz, ok := p.has[hash]; ok {
		return true, sz
	}
	return false, -1
}

// ---------------------------------------------------------------- blobs

type blob struct {
	data   []byte
	hash   string
	ondisk int64 // size of the compressed CAS file for this blob (zstd mode)
}

func mkBlob(r *Rng, size int64, compressible bool) blob {
	var d []byte
	if compressible {
		d = bytes.Repeat([]byte{byte('a' + r.Intn(20))}, int(size))
		if size > 8 {
			copy(d, r.Bytes(8)) // distinct contents
		}
	} else {
		d = r.Bytes(int(size))
	}
	h := sha256.Sum256(d)
	return blob{data: d, hash: hex.EncodeToString(h[:])}
}

func errClass(err error) string {
	var ce *cache.Error
	if errors.As(err, &ce) {
		switch ce.Code {
		case 400:
			return "EBadRequest"
		case 507:
			return "EInsufficient"
		default:
			return "EInternal"
		}
	}
	return "EInternal"
}

func citem(i disk.VerifItem) string {
	return fmt.Sprintf("(mkItem %s %s %s %s)", CZ(i.Size), CZ(i.SizeOnDisk), CS(i.Random), CB(i.Legacy))
}
func centries(es []disk.VerifEntry) string {
	var xs []string
	for _, e := range es {
		xs = append(xs, fmt.Sprintf("(mkEntry %s %s)", CS(e.Key), citem(e.Item)))
	}
	return CList(xs)
}
func csnap(s disk.VerifSnapshot) string {
	return fmt.Sprintf("(mkSnap %s %s %s %s %s %s %s)", centries(s.Order), CZ(s.Cur), CZ(s.Unc), CZ(s.Res), CZ(s.Queued), CU(s.Peak), centries(s.Queue))
}

func r4k(n int64) int64 { return (n + 4095) / 4096 * 4096 }

var nameRe = regexp.MustCompile(`^([a-f0-9]{64})(?:-([1-9][0-9]*))?-([0-9a-zA-Z]+)(\.v1)?$`)

type row struct {
	key     string
	size    int64
	random  string
	legacy  bool
	flen    int64
}

func listDir(dir string) ([]row, []string) {
	var rows []row
	var odd []string
	for _, ks := range [][2]string{{"cas.v2", "cas/"}, {"ac.v2", "ac/"}, {"raw.v2", "raw/"}} {
		_ = filepath.Walk(filepath.Join(dir, ks[0]), func(p string, info os.FileInfo, err error) error {
			if err != nil || info.IsDir() {
				return nil
			}
			m := nameRe.FindStringSubmatch(info.Name())
			if m == nil {
				odd = append(odd, p)
				return nil
			}
			var sz int64
			if m[2] != "" {
				fmt.Sscan(m[2], &sz)
			}
			rows = append(rows, row{ks[1] + m[1], sz, m[3], m[4] == ".v1", info.Size()})
			return nil
		})
	}
	sort.Slice(rows, func(i, j int) bool { return rows[i].key+rows[i].random < rows[j].key+rows[j].random })
	return rows, odd
}

func findEntry(s disk.VerifSnapshot, key string, seen map[string]bool) (disk.VerifItem, bool) {
	for _, e := range s.Order {
		if e.Key == key && !seen[e.Item.Random] {
			return e.Item, true
		}
	}
	for i := len(s.Queue) - 1; i >= 0; i-- {
		if s.Queue[i].Key == key && !seen[s.Queue[i].Item.Random] {
			return s.Queue[i].Item, true
		}
	}
	return disk.VerifItem{}, false
}

func lookup(s disk.VerifSnapshot, key string) (disk.VerifItem, bool) {
	for _, e := range s.Order {
		if e.Key == key {
			return e.Item, true
		}
	}
	return disk.VerifItem{}, false
}

func lruOracle(s disk.VerifSnapshot, max int64) string {
	var sum, usum, q int64
	for _, e := range s.Order {
		sum += r4k(e.Item.SizeOnDisk)
		usum += r4k(e.Item.Size)
	}
	for _, e := range s.Queue {
		q += e.Item.SizeOnDisk
	}
	switch {
	case s.Cur != s.Res+sum:
		return fmt.Sprintf("accounted size %d != reserved %d + sum of rounded entry sizes %d", s.Cur, s.Res, sum)
	case s.Cur > max:
		return fmt.Sprintf("accounted size %d > max_size %d", s.Cur, max)
	case s.Unc != usum:
		return fmt.Sprintf("logical total %d != sum of rounded logical sizes %d", s.Unc, usum)
	case s.NumItems != len(s.Order):
		return fmt.Sprintf("index has %d keys, recency list %d elements", s.NumItems, len(s.Order))
	case s.Res != 0:
		return fmt.Sprintf("reserved bytes %d with no request in flight", s.Res)
	case s.Queued != q:
		return fmt.Sprintf("queued-eviction bytes %d != sum of queued entries %d", s.Queued, q)
	}
	return ""
}

func kindOf(i int) (cache.EntryKind, string) {
	switch i {
	case 0:
		return cache.CAS, "CAS"
	case 1:
		return cache.AC, "AC"
	}
	return cache.RAW, "RAW"
}

func driver(seed uint64, n int, outV, outJSON string, _ []string) {
	r := &Rng{S: seed}
	rep := NewReport("disk", seed)
	rep.Rule = "sequential histories of Put (valid and corrupted in size/hash/stream), Get (sizes known/unknown/wrong, offsets, zstd), Contains, FindMissingCasBlobs and remover drains against a real disk.Cache over 8 blobs x 3 key spaces, both storage modes, with and without a scripted fault-injecting backend, blob/proxy size limits and hard limit; non-trivial = at least one eviction, refusal, rejected upload or backend fault; distinct canonical case texts are counted"
	installGate()
	log.SetOutput(io.Discard)
	zi, _ := zstdimpl.Get("go")
	var cases []string
	for c := 0; c < n; c++ {
		blocks := []int64{5, 6, 8, 10, 16}[r.Intn(5)]
		// C05: a directed history (fill the cache, hit an OLD entry through one lookup kind, upload
		// until something is evicted) in a good part of the cases; the rest stay fully random
		directed := r.Chance(45)
		if directed && blocks > 10 {
			blocks = 8
		}
		max := blocks * 4096
		var hard int64
		switch r.Intn(4) {
		case 1:
			hard = max
		case 2:
			hard = max + 8192
		}
		zstdMode := r.Chance(50)
		withProxy := r.Chance(50)
		maxBlob := int64(1 << 40)
		if r.Chance(30) {
			maxBlob = []int64{4096, 8192, 12000}[r.Intn(3)]
		}
		maxProxy := int64(1 << 40)
		if r.Chance(30) {
			maxProxy = []int64{100, 4096, 8192}[r.Intn(3)]
		}
		if directed {
			hard, maxBlob = 0, int64(1<<40)
		}
		dir, _ := os.MkdirTemp("", "verif-disk-")
		mode := "uncompressed"
		if zstdMode {
			mode = "zstd"
		}
		opts := []disk.Option{disk.WithAccessLogger(log.New(io.Discard, "", 0)), disk.WithStorageMode(mode), disk.WithMaxBlobSize(maxBlob), disk.WithProxyMaxBlobSize(maxProxy), disk.WithMaxSizeHardLimit(hard)}
		fp := &fakeProxy{has: map[string]int64{}}
		if withProxy {
			opts = append(opts, disk.WithProxyBackend(fp))
		}
		theGate := newGate()
		dc, err := disk.New(dir, max, opts...)
		if err != nil {
			panic(err)
		}
		<-theGate.atGate // the remover is parked at its gate
		realDir := disk.VerifDir(dc)

		sizes := []int64{1, 100, 4095, 4096, 4097, 8192, 12000, max - 8192, max - 4096, max, max + 1}
		if directed {
			sizes = []int64{1, 100, 2000, 4095, 4096, 4096, 4097, 8192}
		}
		var blobs []blob
		for i := 0; i < 8; i++ {
			sz := r.Pick(sizes)
			if sz < 1 {
				sz = 1
			}
			b := mkBlob(r, sz, r.Chance(50))
			for dup := true; dup; { // distinct contents: the content identity is the blob index
				dup = false
				for _, o := range blobs {
					if o.hash == b.hash {
						dup = true
						b = mkBlob(r, sz+1, false)
						sz++
					}
				}
			}
			blobs = append(blobs, b)
		}
		if zstdMode {
			for i := range blobs {
				tf, _ := os.CreateTemp("", "verif-obj-")
				od, werr := casblob.WriteAndClose(zi, bytes.NewReader(blobs[i].data), tf, casblob.Zstandard, blobs[i].hash, int64(len(blobs[i].data)))
				if werr != nil {
					panic(werr)
				}
				blobs[i].ondisk = od
				_ = os.Remove(tf.Name())
			}
		}
		empty := mkBlob(r, 0, false)
		byHash := map[string]int{}
		for i, b := range blobs {
			byHash[b.hash] = i
		}
		content := map[string][]byte{} // what each (key) should hold after its last accepted upload / fetch
		contentCid := map[string]int64{} // ... and the content identity the model knows it by

		cfg := fmt.Sprintf("(mkCfg %s %s %s %s)", CB(zstdMode), CZ(maxBlob), CZ(maxProxy), CB(withProxy))
		text := []string{fmt.Sprintf("mode=%s max=%d hard=%d maxblob=%d maxproxy=%d proxy=%v", mode, max, hard, maxBlob, maxProxy, withProxy)}
		var ops, obs []string
		seenRandom := map[string]bool{}
		nontrivial := false
		nops := 5 + r.Intn(16)
		if directed {
			nops = int(blocks) + 12 + r.Intn(6)
		}
		ctx := context.Background()
		failed := func(what string) { rep.Fail(c, what, strings.Join(text, " ; ")) }

		// ---- C05: independent last-use tracker.  lo[k] = time of the last definite use of k (an
		// accepted write or a lookup that HIT); hi[k] = time of the last lookup that found k in the
		// index at all (a lookup that asks for another size is a miss, whether it refreshes the
		// entry is not specified, so it only widens the interval).  Keys are dropped when evicted.
		var tick int64
		lo, hi := map[string]int64{}, map[string]int64{}
		use := func(k string) { tick++; lo[k], hi[k] = tick, tick }
		maybe := func(k string) {
			if _, ok := lo[k]; ok {
				tick++
				hi[k] = tick
			}
		}
		// lookupUse records a lookup of key with the requested size against the index as it was
		// before the operation: a hit is a use
		lookupUse := func(before disk.VerifSnapshot, key string, size int64, hit bool) {
			it, was := lookup(before, key)
			if !was {
				return
			}
			if hit && (size < 0 || it.Size == size) {
				use(key)
			} else {
				maybe(key)
			}
		}
		// ---- C05: directed part of the history
		type forcedOp struct {
			op     string // "put" "get" "contains" "fm"
			ki, bi int
			size   int64 // requested size for lookups (-1 = unknown)
			zs     bool
			what   string
		}
		phase, fillLeft, evictPuts, rounds := 0, int(blocks), 0, 0
		if !directed {
			phase = 9
		}
		lookupKind := r.Intn(6)
		evictionsSeen := 0
		freshKey := func(before disk.VerifSnapshot) (int, int, bool) {
			for try := 0; try < 60; try++ {
				ki, bi := r.Intn(3), r.Intn(len(blobs))
				if r.Chance(50) {
					ki = 0
				}
				kind, _ := kindOf(ki)
				if _, ok := lookup(before, kind.String()+"/"+blobs[bi].hash); !ok && int64(len(blobs[bi].data)) <= 8192 {
					return ki, bi, true
				}
			}
			return 0, 0, false
		}
		nextForced := func(before disk.VerifSnapshot) *forcedOp {
			switch phase {
			case 0: // fill
				if fillLeft > 0 && before.Cur+4096 <= max {
					fillLeft--
					if ki, bi, ok := freshKey(before); ok {
						return &forcedOp{op: "put", ki: ki, bi: bi, what: "fill"}
					}
				}
				phase = 1
				fallthrough
			case 1: // hit one of the two oldest entries through the lookup kind whose turn it is
				var olds []disk.VerifEntry
				for _, e := range before.Order {
					if _, ok := lo[e.Key]; ok {
						olds = append(olds, e)
					}
				}
				sort.SliceStable(olds, func(i, j int) bool { return lo[olds[i].Key] < lo[olds[j].Key] })
				if len(olds) < 3 {
					phase = 9
					return nil
				}
				lk := lookupKind % 6
				lookupKind++
				pickOld := olds[0]
				if lk == 1 || lk == 4 { // CAS only
					if !strings.HasPrefix(pickOld.Key, "cas/") && strings.HasPrefix(olds[1].Key, "cas/") {
						pickOld = olds[1]
					}
					if !strings.HasPrefix(pickOld.Key, "cas/") {
						lk = 3
					}
				} else if r.Chance(25) {
					pickOld = olds[1]
				}
				sl := strings.IndexByte(pickOld.Key, '/')
				ki := map[string]int{"cas": 0, "ac": 1, "raw": 2}[pickOld.Key[:sl]]
				bi, known := byHash[pickOld.Key[sl+1:]]
				if !known {
					phase = 9
					return nil
				}
				phase, evictPuts, evictionsSeen = 2, 0, 0
				f := &forcedOp{ki: ki, bi: bi, size: pickOld.Item.Size}
				switch lk {
				case 0:
					f.op, f.what = "get", "old-get"
					if ki != 0 && r.Chance(50) {
						f.size = -1
					}
				case 1:
					f.op, f.zs, f.what = "get", true, "old-getzstd"
				case 2:
					f.op, f.what = "contains", "old-contains-size"
				case 3:
					f.op, f.size, f.what = "contains", -1, "old-contains-unknown"
				case 4:
					f.op, f.what = "fm", "old-findmissing"
				case 5:
					f.op, f.size, f.what = "get", -1, "old-get-unknown"
				}
				return f
			case 2: // upload new keys until one or two entries have been evicted
				if evictionsSeen >= 1+rounds%2 || evictPuts >= 4 {
					rounds++
					if rounds >= 3 {
						phase = 9
						return nil
					}
					phase = 1
					return nil // one random operation in between
				}
				evictPuts++
				if ki, bi, ok := freshKey(before); ok {
					return &forcedOp{op: "put", ki: ki, bi: bi, what: "press"}
				}
				phase = 9
			}
			return nil
		}

		// blob index for a lookup: mostly one that is currently indexed in that key space
		pickPresent := func(before disk.VerifSnapshot, prefix string) int {
			if r.Chance(70) {
				var cand []int
				for _, e := range before.Order {
					if strings.HasPrefix(e.Key, prefix) {
						if j, ok := byHash[e.Key[len(prefix):]]; ok {
							cand = append(cand, j)
						}
					}
				}
				if len(cand) > 0 {
					return cand[r.Intn(len(cand))]
				}
			}
			return r.Intn(len(blobs))
		}
		for i := 0; i <= nops; i++ {
			before := disk.VerifCacheSnapshot(dc)
			var op, out, t string
			p := r.Intn(100)
			var fo *forcedOp
			if i < nops {
				fo = nextForced(before)
			}
			if fo != nil {
				p = map[string]int{"put": 0, "get": 50, "contains": 80, "fm": 90}[fo.op]
				rep.Count("c05.directed." + fo.what)
			}
			if i == nops {
				p = 99 // final drain
			}
			// C05: the key an upload or backend fetch writes, the size it reserves, whether it was stored
			wkey, need, wrote := "", int64(0), false
			switch {
			case p < 45: // ---------------- Put
				ki := r.Intn(3)
				if r.Chance(50) {
					ki = 0
				}
				bi := r.Intn(len(blobs))
				f := r.Intn(20)
				if fo != nil {
					ki, bi, f = fo.ki, fo.bi, 99
				}
				kind, kname := kindOf(ki)
				b := blobs[bi]
				hash, size := b.hash, int64(len(b.data))
				data := b.data
				stErr := false
				fault := "ok"
				switch {
				case f == 0:
					size++
					fault = "size+1"
				case f == 1:
					if size > 1 {
						size--
					}
					fault = "size-1"
				case f == 2:
					size *= 2
					fault = "size*2"
				case f == 3:
					size = 0
					fault = "size0"
				case f == 4:
					hash = blobs[(bi+1)%len(blobs)].hash
					fault = "otherhash"
				case f == 5:
					data = append([]byte{}, data...)
					data[r.Intn(len(data))] ^= 0x40
					fault = "flip"
				case f == 6:
					data = data[:r.Intn(len(data))]
					fault = "truncated"
				case f == 7:
					data = append(append([]byte{}, data...), 7)
					fault = "extended"
				case f == 8:
					data = data[:r.Intn(len(data))]
					stErr = true
					fault = "aborted"
				case f == 9:
					stErr = true
					fault = "error-at-end"
				case f == 10:
					size = -1
					fault = "negsize"
				case f == 11:
					hash = hash[:63]
					fault = "shorthash"
				case f == 12:
					hash, size, data = empty.hash, 0, nil
					fault = "emptyblob"
				case f == 13 && r.Chance(35):
					// a correct payload followed by a lot of trailing data (more than one chunk buffer)
					data = append(append([]byte{}, data...), make([]byte, 1<<20+r.Intn(3))...)
					fault = "extended-1MiB"
				}
				hs := sha256.Sum256(data)
				hashOK := hex.EncodeToString(hs[:]) == hash
				key := kind.String() + "/" + hash
				_, presentBefore := lookup(before, key)
				err := dc.Put(ctx, kind, hash, size, &faultReader{data: data, err: stErr})
				after := disk.VerifCacheSnapshot(dc)
				wkey, need, wrote = key, size, err == nil
				var ondisk int64
				if kind == cache.CAS && zstdMode && fault == "ok" {
					ondisk = b.ondisk // needed by the model even when the commit is refused
				}
				rnd := ""
				if err == nil {
					out = "Some PutOk"
					if it, ok := findEntry(after, key, seenRandom); ok {
						ondisk, rnd = it.SizeOnDisk, it.Random
						seenRandom[rnd] = true
					}
					content[key] = data
					contentCid[key] = int64(bi)
					rep.Count("put.ok")
					// C01 oracle
					if int64(len(data)) != size || stErr || (kind == cache.CAS && !hashOK) {
						failed(fmt.Sprintf("C01: upload acknowledged although declared size %d / delivered %d / hash matches %v / stream error %v", size, len(data), hashOK, stErr))
					}
					if size > maxBlob {
						failed(fmt.Sprintf("C18: upload of %d bytes accepted above max_blob_size %d", size, maxBlob))
					}
				} else {
					out = "Some (PutErr " + errClass(err) + ")"
					rep.Count("put." + errClass(err))
					nontrivial = true
					if _, presentAfter := lookup(after, key); presentAfter && !presentBefore {
						failed("C01: rejected upload made the claimed key present: " + key)
					}
					if fault == "ok" && size <= maxBlob && errClass(err) == "EInternal" && size+8192 <= max {
						failed("C01: well-formed upload within limits failed with an internal error: " + err.Error())
					}
					if hard > 0 && errClass(err) == "EInsufficient" {
						rep.Count("put.refused-hardlimit-or-reserved")
					}
				}
				op = fmt.Sprintf("SReq (RPut %s %s %s (mkStream %d %s %s %s %s) %s)", kname, CS(hash), CZ(size), bi, CZ(int64(len(data))), CB(stErr), CB(hashOK), CZ(ondisk), CS(rnd))
				t = fmt.Sprintf("Put(%s,blob%d,size=%d,fault=%s)=%v", kname, bi, size, fault, err == nil)
				rep.Count("putfault." + fault)
			case p < 75: // ---------------- Get
				ki := r.Intn(3)
				if r.Chance(50) {
					ki = 0
				}
				kind, kname := kindOf(ki)
				bi := pickPresent(before, kind.String()+"/")
				if fo != nil {
					kind, kname = kindOf(fo.ki)
					bi = fo.bi
				}
				b := blobs[bi]
				hash := b.hash
				size := int64(len(b.data))
				switch r.Intn(9) {
				case 0:
					size = -1
				case 1:
					size++
				case 2:
					size = 0
				case 3:
					if kind != cache.CAS {
						size = -1
					}
				case 4:
					size = -5 // invalid: must be refused, and must not disturb the entry
				}
				if kind != cache.CAS && r.Chance(60) {
					size = -1
				}
				off := int64(0)
				switch r.Intn(8) {
				case 0:
					off = 1
				case 1:
					off = size - 1
				case 2:
					off = size
				case 3:
					off = -1
				}
				zs := kind == cache.CAS && r.Chance(30) || r.Chance(5)
				if r.Chance(4) {
					hash, size, off = empty.hash, []int64{0, -1}[r.Intn(2)], 0
				}
				if fo != nil {
					hash, size, off, zs = b.hash, fo.size, 0, fo.zs
				}
				key := kind.String() + "/" + hash
				// backend script
				g := &bget{kind: "miss"}
				bdesc := "BMiss"
				if withProxy && fo == nil {
					switch f := r.Intn(13); {
					case f == 0:
						g.kind, bdesc = "err", "BErr"
					case f <= 2:
					default:
						var object []byte
						logical := int64(len(b.data))
						if kind == cache.CAS && zstdMode {
							tf, _ := os.CreateTemp("", "verif-obj-")
							_, werr := casblob.WriteAndClose(zi, bytes.NewReader(b.data), tf, casblob.Zstandard, b.hash, int64(len(b.data)))
							if werr != nil {
								panic(werr)
							}
							object, _ = os.ReadFile(tf.Name())
							_ = os.Remove(tf.Name())
						} else {
							object = b.data
						}
						full := int64(len(object))
						g = &bget{kind: "found", claimed: logical, full: full, delivered: full, cid: bi, logical: logical, object: object}
						switch f {
						case 3:
							g.delivered = int64(r.Intn(int(full)))
						case 4:
							g.delivered = int64(r.Intn(int(full)))
							g.berr = true
						case 5:
							g.berr = true
						case 6:
							g.claimed++
						case 7:
							g.claimed = -1
						case 8:
							if full > 20 {
								g.delivered = full - 1
							}
						case 9:
							if logical > 1 {
								g.claimed = logical - 1
							}
						}
						if g.claimed != logical && g.claimed >= 0 && r.Chance(60) {
							// a complete, valid object under wrong size metadata, asked for with unknown size:
							// nothing but the header check against the announced size can catch it
							size, off = -1, 0
						}
						bdesc = fmt.Sprintf("BFound %s %s %s %s %d %s", CZ(g.claimed), CZ(g.full), CZ(g.delivered), CB(g.berr), g.cid, CZ(g.logical))
					}
				}
				fp.mu.Lock()
				fp.get = g
				getsBefore := fp.gets
				fp.mu.Unlock()
				var rc io.ReadCloser
				var fsz int64
				var err error
				if zs {
					if kind == cache.CAS {
						rc, fsz, err = dc.GetZstd(ctx, hash, size, off)
					} else {
						// zstd for a non-CAS kind cannot be requested through the public API
						zs = false
						rc, fsz, err = dc.Get(ctx, kind, hash, size, off)
					}
				} else {
					rc, fsz, err = dc.Get(ctx, kind, hash, size, off)
				}
				var body []byte
				var rerr error
				if rc != nil {
					body, rerr = io.ReadAll(rc)
					_ = rc.Close()
				}
				after := disk.VerifCacheSnapshot(dc)
				fp.mu.Lock()
				fetched := fp.gets > getsBefore
				fp.mu.Unlock()
				rnd := ""
				// C05: a local hit is a use; a fetch writes the key (recorded after the eviction check)
				if fetched {
					maybe(key)
				} else {
					lookupUse(before, key, size, err == nil && rc != nil)
				}
				wkey, need, wrote = key, size, fetched && err == nil && rc != nil
				switch {
				case err != nil:
					out = "Some (GetErr " + errClass(err) + ")"
					rep.Count("get." + errClass(err))
					nontrivial = true
				case rc == nil:
					out = "Some GetMiss"
					rep.Count("get.miss")
				default:
					// identify the content
					plain := body
					if zs && rerr == nil {
						plain, rerr = zi.DecodeAll(stripSkippable(body))
					}
					cid := int64(-1)
					var want []byte
					if hash == empty.hash && kind == cache.CAS && size <= 0 {
						cid, want = 0, nil
					} else if kind == cache.CAS {
						cid, want = int64(byHash[hash]), blobs[byHash[hash]].data
					} else if cdata, ok := content[key]; ok {
						want = cdata
						cid = contentCid[key]
					}
					flen := int64(0)
					if it, ok := lookup(after, key); ok {
						flen = it.SizeOnDisk
					} else if it, ok := findEntry(after, key, map[string]bool{}); ok {
						flen = it.SizeOnDisk
					}
					if fetched {
						if it, ok := findEntry(after, key, seenRandom); ok {
							rnd = it.Random
							seenRandom[rnd] = true
						}
						content[key] = blobs[bi].data
						contentCid[key] = int64(bi)
						want = blobs[bi].data
						cid = int64(bi)
						rep.Count("get.hit-from-backend")
					} else {
						rep.Count("get.hit-local")
					}
					out = fmt.Sprintf("Some (GetHit %s %s %s)", CZ(fsz), CZ(cid), CZ(flen))
					// C02/C12 oracle: exactly the bytes [off, n) and the right size
					o := off
					if o < 0 {
						o = 0
					}
					if rerr != nil {
						failed(fmt.Sprintf("C02: reading a hit failed: %v", rerr))
					} else if int64(len(want)) < o || !bytes.Equal(plain, want[o:]) {
						failed(fmt.Sprintf("C02/C12: hit for %s delivered %d bytes that are not bytes [%d,%d) of the stored blob", key, len(plain), o, len(want)))
					} else if fsz != int64(len(want)) {
						failed(fmt.Sprintf("C02/C12: hit for %s reports size %d, blob has %d", key, fsz, len(want)))
					}
					if fetched && g.claimed > maxProxy {
						failed("C18: object larger than max_proxy_blob_size served from the backend")
					}
				}
				if _, was := lookup(before, key); was && !fetched {
					if _, still := lookup(after, key); !still {
						failed(fmt.Sprintf("C07: a read (size=%d, off=%d) removed the intact entry %s from the cache", size, off, key))
					}
				}
				if g.kind != "miss" && fetched && (g.kind == "err" || g.delivered != g.full || g.berr || g.claimed != g.logical) {
					nontrivial = true
					rep.Count("get.backend-fault")
					if err == nil && rc != nil {
						failed("C12: faulty backend fetch produced a hit: " + bdesc)
					}
					if _, ok := lookup(after, key); ok {
						if _, was := lookup(before, key); !was {
							failed("C12: faulty backend fetch left an index entry: " + bdesc)
						}
					}
				}
				op = fmt.Sprintf("SReq (RGet %s %s %s %s %s (%s) %s)", kname, CS(hash), CZ(size), CZ(off), CB(zs), bdesc, CS(rnd))
				t = fmt.Sprintf("Get(%s,blob%d,size=%d,off=%d,zstd=%v,backend=%s)=%s", kname, bi, size, off, zs, bdesc, strings.TrimPrefix(out, "Some "))
			case p < 83: // ---------------- Contains
				kind, kname := kindOf(r.Intn(3))
				bi := pickPresent(before, kind.String()+"/")
				if fo != nil {
					kind, kname = kindOf(fo.ki)
					bi = fo.bi
				}
				hash, size := blobs[bi].hash, int64(len(blobs[bi].data))
				switch r.Intn(5) {
				case 0:
					size = -1
				case 1:
					size++
				}
				if r.Chance(5) {
					hash, size = empty.hash, 0
				}
				if fo != nil {
					hash, size = blobs[bi].hash, fo.size
				}
				bdesc := "BHasNo"
				fp.mu.Lock()
				fp.has = map[string]int64{}
				if withProxy && r.Chance(50) {
					bs := []int64{int64(len(blobs[bi].data)), -1, int64(len(blobs[bi].data)) + 1}[r.Intn(3)]
					fp.has[hash] = bs
					bdesc = "BHasYes " + CZ(bs)
				}
				fp.mu.Unlock()
				ok, fsz := dc.Contains(ctx, kind, hash, size)
				lookupUse(before, kind.String()+"/"+hash, size, ok)
				if size < 0 {
					rep.Count("contains.unknown-size")
				}
				out = fmt.Sprintf("Some (Has %s %s)", CB(ok), CZ(fsz))
				op = fmt.Sprintf("SReq (RContains %s %s %s (%s))", kname, CS(hash), CZ(size), bdesc)
				t = fmt.Sprintf("Contains(%s,blob%d,size=%d,backend=%s)=%v,%d", kname, bi, size, bdesc, ok, fsz)
				rep.Count(fmt.Sprintf("contains.%v", ok))
			case p < 93: // ---------------- FindMissing
				nd := []int{0, 1, 3, 19, 20, 21, 41, 45}[r.Intn(8)]
				if fo != nil {
					nd = 1 + r.Intn(3)
				}
				var ds []*pb.Digest
				var dsT, bsT []string
				fp.mu.Lock()
				fp.has = map[string]int64{}
				for _, b := range blobs {
					if withProxy && r.Chance(35) {
						fp.has[b.hash] = int64(len(b.data))
					}
				}
				hasCopy := map[string]int64{}
				for k, v := range fp.has {
					hasCopy[k] = v
				}
				fp.mu.Unlock()
				var wantMissing []string
				for j := 0; j < nd; j++ {
					bi := pickPresent(before, "cas/")
					hash, size := blobs[bi].hash, int64(len(blobs[bi].data))
					if r.Chance(10) {
						size++
					}
					if r.Chance(6) {
						hash, size = empty.hash, 0
					}
					if fo != nil && j == 0 {
						hash, size = blobs[fo.bi].hash, fo.size
					}
					ds = append(ds, &pb.Digest{Hash: hash, SizeBytes: size})
					dsT = append(dsT, fmt.Sprintf("(%s, %s)", CS(hash), CZ(size)))
					if _, yes := hasCopy[hash]; yes {
						bsT = append(bsT, "BHasYes "+CZ(hasCopy[hash]))
					} else {
						bsT = append(bsT, "BHasNo")
					}
					// C10 oracle
					it, local := lookup(before, "cas/"+hash)
					present := (hash == empty.hash && size == 0) || (local && it.Size == size)
					if !present && withProxy && size <= maxProxy {
						_, present = hasCopy[hash]
					}
					if !present {
						wantMissing = append(wantMissing, fmt.Sprintf("%s/%d", hash, size))
					}
				}
				asked := make([]*pb.Digest, len(ds)) // the call rearranges its argument
				copy(asked, ds)
				missing, err := dc.FindMissingCasBlobs(ctx, ds)
				var got, gotT []string
				stillMissing := map[string]bool{}
				for _, m := range missing {
					stillMissing[fmt.Sprintf("%s/%d", m.Hash, m.SizeBytes)] = true
				}
				for _, d := range asked { // C05: every digest found locally was used, in request order
					if !(d.Hash == empty.hash && d.SizeBytes == 0) {
						lookupUse(before, "cas/"+d.Hash, d.SizeBytes, !stillMissing[fmt.Sprintf("%s/%d", d.Hash, d.SizeBytes)])
					}
				}
				for _, m := range missing {
					got = append(got, fmt.Sprintf("%s/%d", m.Hash, m.SizeBytes))
					gotT = append(gotT, fmt.Sprintf("(%s, %s)", CS(m.Hash), CZ(m.SizeBytes)))
				}
				if err != nil {
					failed("C10: FindMissingCasBlobs returned an error: " + err.Error())
				}
				if strings.Join(got, ",") != strings.Join(wantMissing, ",") {
					failed(fmt.Sprintf("C10: FindMissingBlobs returned %d digests, the absent ones are %d (order and duplicates count)", len(got), len(wantMissing)))
				}
				out = "Some (Missing " + CList(gotT) + ")"
				op = fmt.Sprintf("SReq (RFindMissing %s %s false)", CList(dsT), CList(bsT))
				t = fmt.Sprintf("FindMissing(%d digests)=%d missing", nd, len(missing))
				rep.Count("findmissing")
				if len(missing) > 0 && len(missing) < nd {
					rep.Count("findmissing.partial")
				}
			default: // ---------------- let the remover drain its queue
				if len(before.Queue) > 0 {
					theGate.tokens <- struct{}{}
					<-theGate.atGate
					deadline := time.Now().Add(120 * time.Second)
					for disk.VerifQueuedBytes(dc) != 0 && time.Now().Before(deadline) {
						time.Sleep(time.Millisecond)
					}
				}
				op, out, t = "SDrain", "None", "Drain"
				rep.Count("drain")
			}
			after := disk.VerifCacheSnapshot(dc)
			text = append(text, t)
			if len(after.Queue) > len(before.Queue) {
				nontrivial = true
				rep.Count("evictions-or-overwrites")
			}
			// ---- C05 direct oracle: what left the index during this operation
			{
				present := map[string]disk.VerifItem{}
				for _, e := range after.Order {
					present[e.Key] = e.Item
				}
				var victims []disk.VerifEntry
				for _, e := range before.Order {
					if _, ok := present[e.Key]; !ok {
						victims = append(victims, e)
					}
				}
				if len(victims) > 0 {
					evictionsSeen += len(victims)
					rep.Count("c05.evicting-operations")
					if directed && phase == 2 {
						rep.Count("c05.directed.evicted-after-old-hit")
					}
					// (a) no victim was used more recently than a survivor (the written key aside)
				recency:
					for _, v := range victims {
						lv, okv := lo[v.Key]
						if !okv {
							rep.Count("c05.untracked-key")
							continue
						}
						for _, sv := range after.Order {
							hs, oks := hi[sv.Key]
							if sv.Key == wkey || !oks {
								continue
							}
							if lv > hs {
								failed(fmt.Sprintf("C05: %s was evicted although its last use (a write or a lookup that hit, at step %d of the uses) is more recent than the last time %s was even looked up (%d), and %s survives", v.Key, lv, sv.Key, hs, sv.Key))
								break recency
							}
						}
					}
					// (b) only under pressure, and no more than needed
					var newOnDisk, freed, largest int64
					if it, ok := present[wkey]; ok && wrote {
						newOnDisk = r4k(it.SizeOnDisk)
					}
					needB := need
					if newOnDisk > needB {
						needB = newOnDisk
					}
					for _, v := range victims {
						sz := r4k(v.Item.SizeOnDisk)
						freed += sz
						if sz > largest {
							largest = sz
						}
					}
					switch {
					case wkey == "":
						failed(fmt.Sprintf("C05: %d entries left the index during an operation that stores nothing", len(victims)))
					case need > max:
						failed(fmt.Sprintf("C05: an item of %d bytes (max_size %d) evicted %d entries", need, max, len(victims)))
					case before.Cur+needB <= max:
						failed(fmt.Sprintf("C05: %d entries evicted although the incoming item (%d bytes, %d on disk) fitted next to the %d bytes accounted (max_size %d)", len(victims), need, newOnDisk, before.Cur, max))
					case before.Cur-(freed-largest)+needB <= max:
						failed(fmt.Sprintf("C05: %d entries (%d bytes) evicted, more than needed to fit the incoming item (%d bytes, %d on disk) into max_size %d with %d accounted", len(victims), freed, need, newOnDisk, max, before.Cur))
					}
					for _, v := range victims {
						delete(lo, v.Key)
						delete(hi, v.Key)
					}
				}
				if wrote {
					if _, ok := present[wkey]; ok {
						use(wkey)
					} else if need > 0 {
						failed("C05: accepted upload or fetch of " + wkey + " is not present immediately afterwards")
					}
				}
			}
			if msg := lruOracle(after, max); msg != "" {
				failed("C03: " + msg)
			}
			fp.mu.Lock()
			for _, e := range fp.putErr {
				failed("C12: " + e)
			}
			fp.putErr = nil
			fp.mu.Unlock()
			ops = append(ops, "("+op+")")
			obs = append(obs, fmt.Sprintf("(%s, %s)", out, csnap(after)))
			rep.Evaluations++
		}
		// directory at quiescence (C04)
		final := disk.VerifCacheSnapshot(dc)
		rows, odd := listDir(realDir)
		var rowsT []string
		idx := map[string]disk.VerifItem{}
		for _, e := range final.Order {
			idx[e.Key+"-"+e.Item.Random] = e.Item
		}
		for _, rw := range rows {
			rowsT = append(rowsT, fmt.Sprintf("(%s, %s, %s, %s, %s)", CS(rw.key), CZ(rw.size), CS(rw.random), CB(rw.legacy), CZ(rw.flen)))
			it, ok := idx[rw.key+"-"+rw.random]
			if !ok {
				failed(fmt.Sprintf("C04: file %s-%s on disk at quiescence is not an indexed entry", rw.key, rw.random))
			} else if it.SizeOnDisk != rw.flen || it.Legacy != rw.legacy {
				failed(fmt.Sprintf("C04: file of %s has %d bytes, index records %d", rw.key, rw.flen, it.SizeOnDisk))
			}
			delete(idx, rw.key+"-"+rw.random)
		}
		for k := range idx {
			failed("C04: indexed entry without a file at quiescence: " + k)
		}
		for _, o := range odd {
			failed("C04: unrecognised file in the cache directory: " + o)
		}
		caseText := strings.Join(text, " ; ")
		rep.CaseTexts = append(rep.CaseTexts, caseText)
		if nontrivial {
			rep.DistinctCase(caseText)
		}
		if c < 2 {
			rep.Samples = append(rep.Samples, caseText)
		}
		cases = append(cases, fmt.Sprintf("(%s, %s, %s, %s,\n %s,\n %s)", cfg, CZ(max), CZ(hard), CList(ops), CList(obs), CList(rowsT)))
		_ = os.RemoveAll(dir)
	}
	rep.Cases = n
	WriteCases(outV, "Model.LRU Model.Disk", "dcase", "dcase_ok", cases)
	rep.Write(outJSON)
}

// stripSkippable removes a leading zstd skippable frame (the casblob header) so that DecodeAll
// implementations that do not skip it themselves still decode the stream.
func stripSkippable(b []byte) []byte {
	if len(b) >= 8 && b[0] == 0x50 && b[1] == 0x2a && b[2] == 0x4d && b[3] == 0x18 {
		n := int(b[4]) | int(b[5])<<8 | int(b[6])<<16 | int(b[7])<<24
		if 8+n <= len(b) {
			return b[8+n:]
		}
	}
	return b
}
