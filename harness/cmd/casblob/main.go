// Command casblob: correspondence + oracle driver for the chunked-zstd CAS blob file format
// (/repo/cache/disk/casblob): readHeader, GetUncompressedReadCloser, GetZstdReadCloser,
// WriteAndClose, ExtractLogicalSize against Model/Casblob.v (properties C02, C20; feeds C08, C14).
package main

import (
	"bytes"
	"crypto/sha256"
	"encoding/binary"
	"encoding/hex"
	"errors"
	"fmt"
	"io"
	"os"
	"path/filepath"
	"strings"

	. "verifharness/hlib"

	"github.com/buchgr/bazel-remote/v2/cache/disk/casblob"
	"github.com/buchgr/bazel-remote/v2/cache/disk/zstdimpl"
)

func main() { Main("casblob", driver) }

var impls []zstdimpl.ZstdImpl
var implNames = []string{"go", "cgo"}

func czs(b []byte) string {
	var sb strings.Builder
	sb.WriteByte('[')
	for i, x := range b {
		if i > 0 {
			sb.WriteString("; ")
		}
		fmt.Fprintf(&sb, "%d", x)
	}
	sb.WriteByte(']')
	return sb.String()
}
func cz64s(xs []int64) string {
	var ys []string
	for _, x := range xs {
		ys = append(ys, CZ(x))
	}
	return CList(ys)
}

// classify canonicalises an error of the casblob package to the model's error class.
func classify(err error, stage string) int64 {
	m := err.Error()
	has := func(s string) bool { return strings.Contains(m, s) }
	switch {
	case has("file too small"):
		return 1
	case has("expected magic number not found"):
		return 2
	case has("need at least one chunk"):
		return 3
	case has("does not fit in a file"):
		return 4
	case has("invalid chunk size: 0"):
		return 5
	case has("chunks, but a blob of size"):
		return 6
	case has("metadata frame size"):
		return 7
	case has("offset table values should increase"):
		return 8
	case has("final offset in chunk table"):
		return 9
	case has("expected a blob of size"):
		return 11
	case has("unsupported compression type"):
		return 12
	case has("cannot start reading at"):
		return 13
	case has("expected blob to have positive size"):
		return 17
	case has("invalid file size"):
		return 21
	case has("only managed to read"):
		return 22
	case has("bytes but got at least"):
		return 23
	case has("failed to read chunk of size"):
		return 24
	case has("checksums don't match"):
		return 25
	case has("injected stream error"):
		return 26
	case has("expected to copy"):
		return 27
	}
	switch stage {
	case "stream":
		return 15
	case "header", "logical":
		if errors.Is(err, io.EOF) || errors.Is(err, io.ErrUnexpectedEOF) {
			return 10
		}
		return 99
	}
	return 14 // open stage: reading or decoding the first chunk failed
}

type tmp struct {
	dir string
	n   int
}

func (t *tmp) file(b []byte) string {
	t.n++
	p := filepath.Join(t.dir, fmt.Sprintf("f%d", t.n))
	if err := os.WriteFile(p, b, 0644); err != nil {
		panic(err)
	}
	return p
}

// ---------------------------------------------------------------- header

type hdr struct {
	magic   uint32
	frame   uint32
	usize   int64
	comp    uint8
	chunk   uint32
	num     int64
	offsets []int64
}

func (h *hdr) bytes() []byte {
	var b bytes.Buffer
	w := func(v any) { _ = binary.Write(&b, binary.LittleEndian, v) }
	w(h.magic)
	w(h.frame)
	w(h.usize)
	w(h.comp)
	w(h.chunk)
	w(h.num)
	w(h.offsets)
	return b.Bytes()
}

func readHeaderObserved(path string) (obs string, class string, h *casblob.VerifHeader) {
	f, err := os.Open(path)
	if err != nil {
		panic(err)
	}
	defer f.Close()
	defer func() {
		if r := recover(); r != nil {
			obs, class, h = "HPanic", fmt.Sprintf("panic: %v", r), nil
		}
	}()
	vh, err := casblob.VerifReadHeader(f)
	if err != nil {
		c := classify(err, "header")
		return fmt.Sprintf("(HErr %d)", c), fmt.Sprintf("err%d", c), nil
	}
	return fmt.Sprintf("(HOk %s %d %d %s)", CZ(vh.UncompressedSize), vh.Compression, vh.ChunkSize, cz64s(vh.ChunkOffsets)), "ok", vh
}

// headerInvariant is the independent statement of what a header accepted by readHeader guarantees.
func headerInvariant(vh *casblob.VerifHeader, fsz int64) string {
	n := int64(len(vh.ChunkOffsets))
	if n < 2 {
		return "accepted header has fewer than 2 offsets"
	}
	prev := int64(-1)
	for _, o := range vh.ChunkOffsets {
		if o <= prev {
			return "accepted header has a non-increasing table"
		}
		prev = o
	}
	if prev != fsz {
		return "accepted header: last offset is not the file size"
	}
	if vh.Compression == 1 {
		if vh.ChunkSize == 0 || vh.UncompressedSize <= 0 {
			return "accepted zstd header with chunk size 0 or size <= 0"
		}
		want := (vh.UncompressedSize + int64(vh.ChunkSize) - 1) / int64(vh.ChunkSize)
		if n-1 != want {
			return "accepted zstd header with a wrong number of chunks"
		}
	}
	return ""
}

func headerCase(r *Rng, rep *Report, t *tmp, c int) (string, string) {
	nch := int64(1 + r.Intn(4))
	cs := []int64{1, 2, 7, 8, 64, 4096, 1 << 20, 1<<32 - 1}[r.Intn(8)]
	usize := (nch-1)*cs + 1 + int64(r.Next()%uint64(cs))
	h := &hdr{magic: casblob.VerifSkippableFrameMagicNumber, usize: usize, comp: 1, chunk: uint32(cs), num: nch + 1}
	hs := int64(29 + 8*(nch+1))
	h.frame = uint32(hs - 8)
	off := hs
	for i := int64(0); i <= nch; i++ {
		h.offsets = append(h.offsets, off)
		off += 1 + int64(r.Intn(6))
	}
	fsz := h.offsets[nch]
	if r.Chance(12) {
		h.comp = 0
		if r.Chance(50) {
			h.chunk = uint32(r.Pick([]int64{0, 1, 1 << 20}))
		}
	}
	var muts []string
	trunc := int64(-1)
	extend := 0
	nm := 0
	if r.Chance(75) {
		nm = 1 + r.Intn(2)
	}
	for i := 0; i < nm; i++ {
		switch r.Intn(9) {
		case 0:
			v := r.Pick([]int64{0, 1, 2, h.num - 1, h.num + 1, 1<<61 + 2, 1<<63 - 1, -1, 1 << 60, (fsz - 29) / 8, (fsz-29)/8 + 1, -1 << 63, 1<<61 + h.num})
			if r.Chance(30) {
				// numOffsets*8 wraps around to the original table size: the frame-size check passes
				v = r.Pick([]int64{1<<61 + h.num, 1<<62 + h.num, 3<<61 + h.num})
			}
			h.num = v
			muts = append(muts, fmt.Sprintf("numOffsets=%d", v))
			if r.Chance(60) && v >= 0 && v < 1<<28 {
				h.frame = uint32(v*8 + 21)
			}
		case 1:
			v := r.Pick([]int64{0, 1, 1<<32 - 1, cs - 1, cs + 1, 2 * cs})
			h.chunk = uint32(v)
			muts = append(muts, fmt.Sprintf("chunkSize=%d", uint32(v)))
		case 2:
			v := r.Pick([]int64{0, -1, -1 << 63, usize - 1, usize + 1, usize + cs, usize - cs, 1<<63 - 1, -usize, nch * cs, nch*cs + 1, (nch-1)*cs})
			h.usize = v
			muts = append(muts, fmt.Sprintf("uncompressedSize=%d", v))
		case 3:
			v := r.Pick([]int64{0, int64(h.frame) - 1, int64(h.frame) + 1, 1<<32 - 1, int64(h.frame) + 8, int64(h.frame) - 8, hs})
			h.frame = uint32(v)
			muts = append(muts, fmt.Sprintf("frameSize=%d", uint32(v)))
		case 4:
			k := len(h.offsets)
			i, j := r.Intn(k), r.Intn(k)
			switch r.Intn(8) {
			case 0:
				h.offsets[i], h.offsets[j] = h.offsets[j], h.offsets[i]
			case 1:
				h.offsets[i] = h.offsets[j]
			case 2:
				h.offsets[i] = 0
			case 3:
				h.offsets[k-1] += r.Pick([]int64{-1, 1})
			case 4:
				h.offsets[0] = r.Pick([]int64{-1, 0, -1 << 63, 29, hs - 1, hs + 1})
			case 5:
				for x := range h.offsets {
					h.offsets[x] = 0
				}
				if r.Chance(50) {
					h.offsets[0] = 29 // the table of a write in progress
				}
			case 6:
				h.offsets[i] = r.Pick([]int64{1<<63 - 1, -1, fsz})
			case 7:
				h.offsets[i] = -h.offsets[i]
			}
			muts = append(muts, "table="+fmt.Sprint(h.offsets))
		case 5:
			trunc = r.Pick([]int64{0, 3, 16, 28, 29, 30, 44, 45, 46, hs - 1, hs, hs + 1, fsz - 1})
			muts = append(muts, fmt.Sprintf("truncate=%d", trunc))
		case 6:
			v := r.Pick([]int64{0x184D2A51, 0xFD2FB528, 0x184D2A5F, 0x184D2A50 ^ 1<<uint(r.Intn(32)), 0x502A4D18, 0})
			h.magic = uint32(v)
			muts = append(muts, fmt.Sprintf("magic=%#x", uint32(v)))
		case 7:
			h.comp = uint8(r.Pick([]int64{0, 2, 255, 1}))
			muts = append(muts, fmt.Sprintf("compression=%d", h.comp))
		case 8:
			extend = 1 + r.Intn(3)
			muts = append(muts, fmt.Sprintf("extend=%d", extend))
		}
	}
	b := h.bytes()
	for int64(len(b)) < fsz {
		b = append(b, byte(r.Next()))
	}
	if int64(len(b)) > fsz && fsz > hs { // numOffsets mutation does not change the table that is written
		b = b[:fsz]
	}
	b = append(b, r.Bytes(extend)...)
	if trunc >= 0 && trunc < int64(len(b)) {
		b = b[:trunc]
	}
	if r.Chance(6) && len(b) > 0 { // one random byte of the header flipped
		i := r.Intn(min(len(b), int(hs)))
		b[i] ^= 1 << uint(r.Intn(8))
		muts = append(muts, fmt.Sprintf("flip@%d", i))
	}
	path := t.file(b)
	obs, class, vh := readHeaderObserved(path)
	_ = os.Remove(path)
	rep.Evaluations++
	rep.Count("header." + class)
	if len(muts) == 0 {
		rep.Count("header.gen.valid")
	} else {
		rep.Count("header.gen.mutated")
	}
	text := fmt.Sprintf("header file=%s muts=%v -> %s", hex.EncodeToString(b), muts, class)
	if strings.HasPrefix(class, "panic") {
		rep.Fail(c, "readHeader panicked: "+class, text)
	}
	if vh != nil {
		if msg := headerInvariant(vh, int64(len(b))); msg != "" {
			rep.Fail(c, msg, text)
		}
	} else if len(muts) == 0 {
		rep.Fail(c, "readHeader rejected a well-formed file: "+class, text)
	}
	if len(muts) > 0 {
		rep.DistinctCase(fmt.Sprintf("h %v %s", muts, class))
	}
	return fmt.Sprintf("CHeader %s %s", czs(b), obs), text
}

func logicalCase(r *Rng, rep *Report, c int) (string, string) {
	var b []byte
	var want int64
	switch r.Intn(4) {
	case 0:
		b = r.Bytes(r.Intn(16))
	case 1:
		b = r.Bytes(16 + r.Intn(8))
	default:
		b = make([]byte, 16+r.Intn(20))
		copy(b, r.Bytes(8))
		v := r.Pick([]int64{1, 0, -1, 4096, 1<<63 - 1, -1 << 63, 1 << 40})
		binary.LittleEndian.PutUint64(b[8:], uint64(v))
	}
	rc, size, err := casblob.ExtractLogicalSize(io.NopCloser(bytes.NewReader(b)))
	rep.Evaluations++
	text := fmt.Sprintf("logical stream=%s", hex.EncodeToString(b))
	if err != nil {
		want = -classify(err, "logical")
		rep.Count(fmt.Sprintf("logical.err%d", -want))
	} else {
		want = size
		rep.Count("logical.ok")
		again, _ := io.ReadAll(rc)
		if !bytes.Equal(again, b) {
			rep.Fail(c, "ExtractLogicalSize: the returned reader does not replay the stream", text)
		}
		if size <= 0 || size != int64(binary.LittleEndian.Uint64(b[8:16])) {
			rep.Fail(c, "ExtractLogicalSize: wrong size", text)
		}
	}
	return fmt.Sprintf("CLogical %s %s", czs(b), CZ(want)), text
}

// ---------------------------------------------------------------- readers

type robs struct {
	coq   string
	class string
	data  []byte
	ok    bool
}

func readThrough(zstdOut bool, impl zstdimpl.ZstdImpl, path string, expected, offset int64) (o robs) {
	f, err := os.Open(path)
	if err != nil {
		panic(err)
	}
	defer f.Close() // a second Close is harmless
	defer func() {
		if r := recover(); r != nil {
			o = robs{coq: "RPanic", class: fmt.Sprintf("panic: %v", r)}
		}
	}()
	var rc io.ReadCloser
	if zstdOut {
		rc, err = casblob.GetZstdReadCloser(impl, f, expected, offset)
	} else {
		rc, err = casblob.GetUncompressedReadCloser(impl, f, expected, offset)
	}
	if err != nil {
		c := classify(err, "open")
		return robs{coq: fmt.Sprintf("(RErr %d)", c), class: fmt.Sprintf("err%d", c)}
	}
	b, err := io.ReadAll(rc)
	_ = rc.Close()
	if err != nil {
		return robs{coq: "(RErr 15)", class: "err15", data: b}
	}
	return robs{coq: "(ROk " + czs(b) + ")", class: "ok", data: b, ok: true}
}

func decodeStream(impl zstdimpl.ZstdImpl, b []byte) ([]byte, error) {
	d, err := impl.GetDecoder(io.NopCloser(bytes.NewReader(b)))
	if err != nil {
		return nil, err
	}
	defer d.Close()
	return io.ReadAll(d)
}

func genData(r *Rng, n int) []byte {
	switch r.Intn(3) {
	case 0:
		return make([]byte, n)
	case 1:
		s := []byte("the quick brown fox jumps over the lazy dog ")
		b := make([]byte, n)
		for i := range b {
			b[i] = s[i%len(s)]
		}
		return b
	}
	return r.Bytes(n)
}

func readerCase(r *Rng, rep *Report, t *tmp, c int) (string, string) {
	cs := []int64{1, 2, 3, 5, 8, 16, 64}[r.Intn(7)]
	maxChunks := int64(5)
	if cs == 1 {
		maxChunks = 4
	}
	nch := 1 + int64(r.Intn(int(maxChunks)))
	if cs >= 16 {
		nch = 1 + int64(r.Intn(2))
	}
	n := (nch-1)*cs + 1 + int64(r.Intn(int(cs)))
	if r.Chance(30) {
		n = nch * cs // exact multiple
	}
	data := genData(r, int(n))
	variant := "conformant"
	if r.Chance(25) {
		variant = []string{"identity", "comp2", "short-chunk", "long-chunk", "gap", "off0-before"}[r.Intn(6)]
		if variant == "off0-before" && nch != 1 {
			// with more chunks the first-chunk read would cover a frame plus part of the next one,
			// on which the two zstd libraries disagree (gozstd tolerates trailing bytes): not modelled
			variant = "conformant"
		}
	}
	// chunks and their frames (each chunk by a randomly chosen implementation)
	var frames, plains [][]byte
	var tbl []string
	body := []byte{}
	if variant == "identity" {
		nch = 1
		plains = [][]byte{data}
		frames = [][]byte{data}
	} else {
		for i := int64(0); i < nch; i++ {
			p := data[i*cs : min(n, (i+1)*cs)]
			if variant == "short-chunk" && i == 0 && len(p) > 1 {
				p = p[:len(p)-1]
			}
			if variant == "long-chunk" && i == 0 {
				p = append(append([]byte{}, p...), 7)
			}
			fr := impls[r.Intn(2)].EncodeAll(p, nil)
			plains = append(plains, p)
			frames = append(frames, fr)
			tbl = append(tbl, fmt.Sprintf("(%s, %s)", czs(fr), czs(p)))
		}
	}
	h := &hdr{magic: casblob.VerifSkippableFrameMagicNumber, usize: n, comp: 1, chunk: uint32(cs), num: nch + 1}
	hs := int64(29 + 8*(nch+1))
	h.frame = uint32(hs - 8)
	switch variant {
	case "identity":
		h.comp = 0
	case "comp2":
		h.comp = 2
	}
	off := hs
	if variant == "gap" {
		body = append(body, 0xFF, 0xFF, 0xFF, 0xFF, 0xFF)
		off += 5
	}
	for i := range frames {
		h.offsets = append(h.offsets, off)
		off += int64(len(frames[i]))
		body = append(body, frames[i]...)
	}
	h.offsets = append(h.offsets, off)
	if variant == "off0-before" {
		h.offsets[0] = r.Pick([]int64{0, 29, hs - 1})
	}
	file := append(h.bytes(), body...)
	path := t.file(file)
	defer os.Remove(path)
	hobs, hclass, _ := readHeaderObserved(path)
	rep.Count("reader.file." + variant)
	if hclass != "ok" {
		rep.Fail(c, "readHeader rejected a harness-crafted file: "+hclass, hex.EncodeToString(file))
	}

	offs := []int64{0, 1, cs - 1, cs, cs + 1, n - 1, int64(r.Intn(int(n))), int64(r.Intn(int(n)))}
	if r.Chance(30) {
		offs = append(offs, r.Pick([]int64{n, n + 1, n + cs, -1, -cs, 2*n + 3, nch * cs, nch*cs + 1}))
	}
	seen := map[int64]bool{}
	var probes, texts []string
	for _, o := range offs {
		if seen[o] {
			continue
		}
		seen[o] = true
		expected := n
		switch p := r.Intn(10); {
		case p < 2:
			expected = -1
		case p < 3:
			expected = n + 1
		}
		wi := r.Intn(2)
		impl := impls[wi]
		ou := readThrough(false, impl, path, expected, o)
		oz := readThrough(true, impl, path, expected, o)
		rep.Evaluations += 2
		rep.Count("reader.unc." + strings.SplitN(ou.class, ":", 2)[0])
		rep.Count("reader.zstd." + strings.SplitN(oz.class, ":", 2)[0])
		// oracle columns for the model's codec table
		var extra []string
		if variant == "identity" {
			if oz.ok {
				pos := hs
				if o > 0 {
					pos += o
				}
				var rest []byte
				if pos < int64(len(file)) {
					rest = file[pos:]
				}
				extra = append(extra, fmt.Sprintf("(%s, %s)", czs(oz.data), czs(rest)))
			}
		} else if o > 0 && o%cs != 0 && o/cs < nch {
			p := plains[o/cs]
			if o%cs <= int64(len(p)) {
				tl := p[o%cs:]
				extra = append(extra, fmt.Sprintf("(%s, %s)", czs(impl.EncodeAll(tl, nil)), czs(tl)))
			}
		}
		ptxt := fmt.Sprintf("off=%d exp=%d impl=%s unc=%s zstd=%s", o, expected, implNames[wi], ou.class, oz.class)
		texts = append(texts, ptxt)
		probes = append(probes, fmt.Sprintf("(%s, %s, %s, %s, %s)", CZ(expected), CZ(o), CList(extra), ou.coq, oz.coq))

		// direct oracle (C02 / C20): inside the contract the reads deliver exactly data[off:]
		ctx := fmt.Sprintf("variant=%s cs=%d n=%d file=%s %s", variant, cs, n, hex.EncodeToString(file), ptxt)
		inContract := (variant == "conformant" || variant == "identity") && o >= 0 && o < n
		if o >= 0 && o <= n && (strings.HasPrefix(ou.class, "panic") || strings.HasPrefix(oz.class, "panic")) {
			rep.Fail(c, "a reader panicked for an offset within the blob", ctx)
		}
		if inContract && expected == n+1 && (ou.ok || oz.ok) {
			rep.Fail(c, "a read with a wrong expected size succeeded", ctx)
		}
		if inContract && expected != n+1 {
			if !ou.ok || !bytes.Equal(ou.data, data[o:]) {
				rep.Fail(c, "uncompressed read differs from data[off:]", ctx)
			}
			if !oz.ok {
				rep.Fail(c, "zstd read failed on a conformant file", ctx)
			} else {
				for di, dimpl := range impls {
					got, err := decodeStream(dimpl, oz.data)
					if err != nil || !bytes.Equal(got, data[o:]) {
						rep.Fail(c, fmt.Sprintf("zstd read decoded by %s differs from data[off:] (%v)", implNames[di], err), ctx)
					}
				}
			}
			rep.Count("reader.oracle.checked")
		}
		if variant == "conformant" && o > 0 && o < n {
			k := "rem0"
			if o%cs != 0 {
				k = "rem"
			}
			pos := "middle"
			if o/cs == 0 {
				pos = "first"
			} else if o/cs == nch-1 {
				pos = "last"
			}
			rep.Count("reader.offset." + pos + "." + k)
		}
	}
	text := fmt.Sprintf("reader variant=%s cs=%d n=%d chunks=%d file=%s probes: %s", variant, cs, n, nch, hex.EncodeToString(file), strings.Join(texts, " | "))
	rep.DistinctCase(fmt.Sprintf("r %s %d %d %x", variant, cs, n, sha256.Sum256(data)))
	return fmt.Sprintf("CReader %s\n  %s %s\n  %s", czs(file), CList(tbl), hobs, CList(probes)), text
}

// ---------------------------------------------------------------- writer

type scriptReader struct {
	data   []byte
	pos    int
	endErr error
	r      *Rng
}

var errInjected = errors.New("injected stream error")

func (s *scriptReader) Read(p []byte) (int, error) {
	if s.pos == len(s.data) {
		if s.endErr != nil {
			return 0, s.endErr
		}
		return 0, io.EOF
	}
	n := min(len(p), len(s.data)-s.pos, 1+s.r.Intn(400000))
	copy(p, s.data[s.pos:s.pos+n])
	s.pos += n
	return n, nil
}

func bigData(r *Rng, n int64) []byte {
	b := make([]byte, n)
	blk := r.Bytes(4096)
	for i := int64(0); i < n; i += 4096 {
		copy(b[i:], blk)
		if i+8 <= n {
			binary.LittleEndian.PutUint64(b[i:], r.Next())
		}
	}
	return b
}

func writerCase(r *Rng, rep *Report, t *tmp, c int) (string, string) {
	const M = casblob.VerifDefaultChunkSize
	var size int64
	if r.Chance(35) {
		size = r.Pick([]int64{M - 1, M, M + 1, 2 * M, 2*M + 5, 3*M - 1, 3 * M})
	} else {
		size = r.Pick([]int64{1, 2, 100, 4095, 4096, 4097, 65536, 300000})
	}
	ct := casblob.Zstandard
	if r.Chance(15) {
		ct = casblob.Identity
		if size > M {
			size = r.Pick([]int64{1, 4096, 4097})
		}
	}
	avail := size
	endsErr := false
	kind := "exact"
	switch p := r.Intn(100); {
	case p < 50:
	case p < 62:
		kind = "short"
		avail = r.Pick([]int64{0, size - 1, size / 2, max(size-M, 0), max(size-M-1, 0)})
	case p < 74:
		kind = "long"
		avail = size + r.Pick([]int64{1, 2, 4096, M - 1, M, M + 1})
	case p < 88:
		kind = "error"
		endsErr = true
		avail = r.Pick([]int64{0, size - 1, size, size + 1, size / 2, size + M})
	default:
		kind = "badsize"
		size = r.Pick([]int64{0, -1, -1 << 63})
		avail = int64(r.Intn(10))
	}
	if avail < 0 {
		avail = 0
	}
	data := bigData(r, avail)
	sum := sha256.Sum256(data)
	hash := hex.EncodeToString(sum[:])
	hashOK := true
	if r.Chance(12) {
		hashOK = false
		hash = strings.Repeat("0", 64)
		kind += "+wronghash"
	}
	wi := r.Intn(2)
	path := filepath.Join(t.dir, fmt.Sprintf("w%d", c))
	f, err := os.Create(path)
	if err != nil {
		panic(err)
	}
	defer os.Remove(path)
	sr := &scriptReader{data: data, r: r}
	if endsErr {
		sr.endErr = errInjected
	}
	ret, werr := casblob.WriteAndClose(impls[wi], sr, f, ct, hash, size)
	_ = f.Close()
	rep.Evaluations++
	text := fmt.Sprintf("writer t=%d impl=%s size=%d avail=%d endsErr=%v hashOK=%v kind=%s", ct, implNames[wi], size, avail, endsErr, hashOK, kind)
	rep.DistinctCase(text)
	head := fmt.Sprintf("CWriter %d %s %s %s %s ", ct, CZ(size), CZ(avail), CB(endsErr), CB(hashOK))
	wantOK := size > 0 && avail == size && !endsErr && hashOK
	if werr != nil {
		cl := classify(werr, "writer")
		rep.Count(fmt.Sprintf("writer.%s.err%d", kind, cl))
		if wantOK {
			rep.Fail(c, "WriteAndClose rejected a matching stream: "+werr.Error(), text)
		}
		if ret != -1 {
			rep.Fail(c, "WriteAndClose returned an error and a size", text)
		}
		// C08 at the file level: whatever a failed write left behind must not pass readHeader
		if st, err := os.Stat(path); err == nil && st.Size() > 0 {
			_, tclass, _ := readHeaderObserved(path)
			rep.Count("writer.torn." + strings.SplitN(tclass, ":", 2)[0])
			if tclass == "ok" || strings.HasPrefix(tclass, "panic") {
				rep.Fail(c, "the file left by a failed write is accepted by readHeader (or makes it panic): "+tclass, text)
			}
		}
		return head + fmt.Sprintf("(WErr %d)", cl), text + fmt.Sprintf(" -> err%d", cl)
	}
	rep.Count("writer." + kind + ".ok")
	if !wantOK {
		rep.Fail(c, "WriteAndClose acknowledged a stream that does not match size/hash", text)
	}
	// independent decode of the file as the published v2 layout
	file, err := os.ReadFile(path)
	if err != nil {
		panic(err)
	}
	fsz := int64(len(file))
	fail := func(what string) { rep.Fail(c, "written file: "+what, text) }
	if fsz < 45 || binary.LittleEndian.Uint32(file[0:]) != 0x184D2A50 {
		fail("no skippable-frame magic")
		return head + "(WErr 0)", text
	}
	cnt := int64(binary.LittleEndian.Uint64(file[21:]))
	hs := 29 + 8*cnt
	if cnt < 2 || hs > fsz || int64(binary.LittleEndian.Uint32(file[4:])) != hs-8 {
		fail("bad frame size / count")
		return head + "(WErr 0)", text
	}
	if int64(binary.LittleEndian.Uint64(file[8:])) != size || file[16] != byte(ct) || binary.LittleEndian.Uint32(file[17:]) != M {
		fail("size / compression / chunk size fields")
	}
	var offs []int64
	for i := int64(0); i < cnt; i++ {
		offs = append(offs, int64(binary.LittleEndian.Uint64(file[29+8*i:])))
	}
	var plens, clens []int64
	if ct == casblob.Identity {
		// observation: the table of an Identity file is never completed ([29, 0]); data follows the header
		if !bytes.Equal(file[hs:], data) {
			fail("identity payload differs from data")
		}
		plens, clens = []int64{avail}, []int64{fsz - hs}
		rep.Count("writer.identity.table_unfinished")
	} else {
		if offs[0] != hs || offs[cnt-1] != fsz {
			fail("first chunk not directly after the header or last offset is not the file size")
		}
		var back []byte
		for i := int64(0); i+1 < cnt; i++ {
			if offs[i] >= offs[i+1] || offs[i+1] > fsz {
				fail("table not increasing")
				return head + "(WErr 0)", text
			}
			p, err := impls[1-wi].DecodeAll(file[offs[i]:offs[i+1]])
			if err != nil {
				fail("chunk does not decode with the other zstd implementation")
			}
			if i+2 < cnt && int64(len(p)) != M {
				fail("a non-final chunk is not chunk-size long")
			}
			back = append(back, p...)
			plens = append(plens, int64(len(p)))
			clens = append(clens, offs[i+1]-offs[i])
		}
		if !bytes.Equal(back, data) {
			fail("decoded chunks differ from data")
		}
		if cnt-1 != (size+M-1)/M {
			fail("wrong number of chunks")
		}
		// C02 on the real writer + real readers at the chunk-boundary offsets
		for _, o := range []int64{0, 1, M - 1, M, M + 1, 2 * M, size - 1, int64(r.Next() % uint64(size))} {
			if o < 0 || o >= size {
				continue
			}
			ri := r.Intn(2)
			ou := readThrough(false, impls[ri], path, size, o)
			oz := readThrough(true, impls[ri], path, []int64{size, -1}[r.Intn(2)], o)
			rep.Evaluations += 2
			rep.Count("writer.readback")
			if !ou.ok || !bytes.Equal(ou.data, data[o:]) {
				rep.Fail(c, fmt.Sprintf("read back (uncompressed, offset %d) differs from the stored bytes: %s", o, ou.class), text)
			}
			got, err := decodeStream(impls[1-ri], oz.data)
			if !oz.ok || err != nil || !bytes.Equal(got, data[o:]) {
				rep.Fail(c, fmt.Sprintf("read back (zstd, offset %d) differs from the stored bytes: %s %v", o, oz.class, err), text)
			}
		}
	}
	if ret != fsz {
		fail(fmt.Sprintf("returned size %d, file size %d", ret, fsz))
	}
	if sha256.Sum256(data) != sum || int64(len(data)) != size {
		fail("acknowledged although sha256/len differ")
	}
	return head + fmt.Sprintf("(WOk %d %d %s %s %s)", ret, fsz, czs(file[:hs]), cz64s(plens), cz64s(clens)), text + " -> ok"
}

// ---------------------------------------------------------------- driver

// bigChunkSweep: C20 quantifies over format-conformant files "of whatever chunk size the header states"
// (4 KiB to several MiB).  Files of that size cannot be evaluated inside Coq byte by byte (the theorem
// C20_reader_total_on_spec covers every chunk size in the model), so this sweep is a direct oracle only:
// harness-crafted conformant files with chunk sizes 4 KiB, 64 KiB+1, 1 MiB+1, 2 MiB and 3 MiB+5 (four of them per shard), three chunks,
// frames from both zstd libraries, read through both real readers and both libraries at aligned and
// unaligned offsets; every read must deliver data[off:].
func bigChunkSweep(r *Rng, rep *Report, t *tmp) {
	for _, cs := range []int64{4096, 65537, 1<<20 + 1, 2 << 20, 3<<20 + 5}[r.Intn(2):][:4] {
		nch := int64(3)
		n := (nch-1)*cs + 1 + int64(r.Intn(int(cs)))
		data := bigData(r, n)
		h := &hdr{magic: casblob.VerifSkippableFrameMagicNumber, usize: n, comp: 1, chunk: uint32(cs), num: nch + 1}
		hs := int64(29 + 8*(nch+1))
		h.frame = uint32(hs - 8)
		var body []byte
		off := hs
		for i := int64(0); i < nch; i++ {
			fr := impls[r.Intn(2)].EncodeAll(data[i*cs:min(n, (i+1)*cs)], nil)
			h.offsets = append(h.offsets, off)
			off += int64(len(fr))
			body = append(body, fr...)
		}
		h.offsets = append(h.offsets, off)
		path := t.file(append(h.bytes(), body...))
		for _, o := range []int64{0, 1, cs, cs + 1, 2*cs + 7, n - 1} {
			for wi, impl := range impls {
				ctx := fmt.Sprintf("conformant file: chunk size %d, 3 chunks, logical size %d; read at offset %d with zstd library %s", cs, n, o, implNames[wi])
				ou := readThrough(false, impl, path, n, o)
				oz := readThrough(true, impl, path, n, o)
				rep.Evaluations += 2
				rep.Count("reader.bigchunk")
				if !ou.ok || !bytes.Equal(ou.data, data[o:]) {
					rep.Fail(0, "uncompressed read of a conformant file with a large chunk size differs from data[off:]: "+ou.class, ctx)
				}
				if !oz.ok {
					rep.Fail(0, "zstd read of a conformant file with a large chunk size failed: "+oz.class, ctx)
				} else if dec, err := decodeStream(impls[1-wi], oz.data); err != nil || !bytes.Equal(dec, data[o:]) {
					rep.Fail(0, fmt.Sprintf("zstd read of a conformant file with a large chunk size does not decode to data[off:] (%v)", err), ctx)
				}
			}
		}
		_ = os.Remove(path)
	}
}

func driver(seed uint64, n int, outV, outJSON string, args []string) {
	for _, nm := range implNames {
		im, err := zstdimpl.Get(nm)
		if err != nil {
			panic(err)
		}
		impls = append(impls, im)
	}
	// weights (percent) of header / logical / reader / writer cases
	wH, wL, wR := 40, 4, 36
	if len(args) > 0 {
		switch args[0] {
		case "c02":
			wH, wL, wR = 15, 2, 58
		case "c20":
			wH, wL, wR = 45, 5, 25
		}
	}
	r := &Rng{S: seed}
	rep := NewReport("casblob", seed)
	rep.Rule = "one PRNG; header cases: a well-formed v2 header (1-4 chunks, chunk sizes 1..2^32-1) with 0-2 field mutations at boundary values (numOffsets incl. 2^61+2, chunk size 0, sizes <= 0, frame size, table order, truncation, magic, compression) through the real readHeader; reader cases: harness-crafted files (chunk sizes 1..64, 1-5 chunks, frames from both zstd libraries, 25% non-conformant variants) through GetUncompressedReadCloser and GetZstdReadCloser at offsets {0,1,c-1,c,c+1,n-1,random,out of range} and expected sizes {n,-1,n+1}; writer cases: the real WriteAndClose on sizes around 4 KiB and k x 1 MiB with exact/short/long/erroring streams and wrong hashes, decoded independently and read back. non-trivial = mutated header, any reader file, any writer case; distinct = distinct canonical texts"
	dir, err := os.MkdirTemp("", "casblob")
	if err != nil {
		panic(err)
	}
	defer os.RemoveAll(dir)
	t := &tmp{dir: dir}
	bigChunkSweep(r, rep, t)
	var cases []string
	for c := 0; c < n; c++ {
		var term, text string
		switch p := r.Intn(100); {
		case p < wH:
			term, text = headerCase(r, rep, t, c)
		case p < wH+wL:
			term, text = logicalCase(r, rep, c)
		case p < wH+wL+wR:
			term, text = readerCase(r, rep, t, c)
		default:
			term, text = writerCase(r, rep, t, c)
		}
		cases = append(cases, "("+term+")")
		rep.CaseTexts = append(rep.CaseTexts, text)
		if len(rep.Samples) < 4 && c%7 == 0 {
			rep.Samples = append(rep.Samples, text)
		}
	}
	rep.Cases = n
	WriteCases(outV, "Model.Casblob", "ccase", "case_ok", cases)
	rep.Write(outJSON)
}
