package main

import (
	"fmt"
	"strings"

	. "verifharness/hlib"

	"github.com/buchgr/bazel-remote/v2/cache/disk"
)

func main() { Main("lru", lruDriver) }

func citem(i disk.VerifItem) string {
	return fmt.Sprintf("(mkItem %s %s %s %s)", CZ(i.Size), CZ(i.SizeOnDisk), CS(i.Random), CB(i.Legacy))
}
func centry(e disk.VerifEntry) string {
	return fmt.Sprintf("(mkEntry %s %s)", CS(e.Key), citem(e.Item))
}
func centries(es []disk.VerifEntry) string {
	var xs []string
	for _, e := range es {
		xs = append(xs, centry(e))
	}
	return CList(xs)
}
func csnap(s disk.VerifSnapshot) string {
	return fmt.Sprintf("(mkSnap %s %s %s %s %s %s %s)", centries(s.Order), CZ(s.Cur), CZ(s.Unc), CZ(s.Res), CZ(s.Queued), CU(s.Peak), centries(s.Queue))
}
func cerr(code int) string {
	switch code {
	case 400:
		return "(RErr EBadRequest)"
	case 507:
		return "(RErr EInsufficient)"
	case 500, -1:
		return "(RErr EInternal)"
	}
	return fmt.Sprintf("(RErr (EOther %d))", code)
}

func r4k(n int64) int64 { return (n + 4095) / 4096 * 4096 }

// direct oracle for C03 (accounting exact and bounded) on a snapshot
func lruOracle(s disk.VerifSnapshot, max int64) string {
	var sum, usum, q int64
	seen := map[string]bool{}
	for _, e := range s.Order {
		sum += r4k(e.Item.SizeOnDisk)
		usum += r4k(e.Item.Size)
		if seen[e.Key] {
			return "duplicate key in recency list: " + e.Key
		}
		seen[e.Key] = true
	}
	for _, e := range s.Queue {
		q += e.Item.SizeOnDisk
	}
	switch {
	case s.Cur != s.Res+sum:
		return fmt.Sprintf("currentSize %d != reserved %d + sum of rounded entry sizes %d", s.Cur, s.Res, sum)
	case s.Cur > max:
		return fmt.Sprintf("currentSize %d > max_size %d", s.Cur, max)
	case s.Unc != usum:
		return fmt.Sprintf("uncompressedSize %d != sum of rounded logical sizes %d", s.Unc, usum)
	case s.NumItems != len(s.Order):
		return fmt.Sprintf("index has %d keys, recency list %d elements", s.NumItems, len(s.Order))
	case s.Res < 0:
		return fmt.Sprintf("reservedSize %d negative", s.Res)
	case s.Queued != q:
		return fmt.Sprintf("queuedEvictionsSize %d != sum of queued entries %d", s.Queued, q)
	}
	return ""
}

func lruDriver(seed uint64, n int, outV, outJSON string, args []string) {
	r := &Rng{S: seed}
	rep := NewReport("lru", seed)
	rep.Rule = "random SizedLRU histories (Add/overwrite, Get, RemoveKey, RemoveElement via fresh handle, Reserve, Unreserve, Drain) over 6 keys; sizes drawn from block-edge classes relative to max_size; a case is non-trivial if at least one eviction or one refusal occurred; distinct = distinct canonical case texts among those"
	var cases []string
	for c := 0; c < n; c++ {
		blocks := []int64{2, 3, 4, 5, 8, 16}[r.Intn(6)]
		max := blocks * 4096
		if r.Chance(15) {
			max += []int64{-1, 1, 100, 4095}[r.Intn(4)] // max_size need not be block aligned
		}
		var hard int64
		switch r.Intn(4) {
		case 1:
			hard = max
		case 2:
			hard = max + 4096*int64(1+r.Intn(3))
		case 3:
			hard = max + 8192 + int64(r.Intn(5000))
		}
		sizes := []int64{0, 1, 100, 4095, 4096, 4097, 8192, 8193, 12288, max - 4096, max - 1, max, max + 1, 2 * max}
		v := disk.NewVerifLRU(max, hard)
		nops := 4 + r.Intn(28)
		var ops, obs, text []string
		nontrivial := false
		reserved := []int64{}
		evictedBefore := 0
		// independent recency oracle (C05): keys by last use, least recent first
		var recency []string
		touch := func(k string) {
			for i, x := range recency {
				if x == k {
					recency = append(recency[:i], recency[i+1:]...)
					break
				}
			}
			recency = append(recency, k)
		}
		drop := func(k string) {
			for i, x := range recency {
				if x == k {
					recency = append(recency[:i], recency[i+1:]...)
					return
				}
			}
		}
		text = append(text, fmt.Sprintf("max=%d hard=%d", max, hard))
		for i := 0; i < nops; i++ {
			before := v.Snapshot()
			var op, out, t string
			k := fmt.Sprintf("cas/k%d", r.Intn(6))
			switch p := r.Intn(100); {
			case p < 40:
				sz := r.Pick(sizes)
				if sz < 0 {
					sz = 0
				}
				od := sz
				switch r.Intn(4) {
				case 0:
					od = sz/3 + 29 + 16 // compressible
				case 1:
					od = sz + 45 // header overhead
				}
				it := disk.VerifItem{Size: sz, SizeOnDisk: od, Random: fmt.Sprintf("%d", r.Intn(1000000)), Legacy: r.Chance(20)}
				ok := v.Add(k, it)
				op, out = fmt.Sprintf("OAdd %s %s", CS(k), citem(it)), "RBool "+CB(ok)
				t = fmt.Sprintf("Add(%s,size=%d,ondisk=%d)=%v", k, sz, od, ok)
				rep.Count("op.add")
				if ok {
					touch(k)
				} else {
					rep.Count("add.refused")
					nontrivial = true
				}
			case p < 55:
				it, hit := v.Get(k)
				op = "OGet " + CS(k)
				if hit {
					out = "RHit " + citem(it)
					touch(k)
					rep.Count("get.hit")
				} else {
					out = "RMiss"
					rep.Count("get.miss")
				}
				t = fmt.Sprintf("Get(%s)=%v", k, hit)
			case p < 60:
				v.RemoveKey(k)
				drop(k)
				op, out, t = "ORemoveKey "+CS(k), "RUnit", "RemoveKey("+k+")"
				rep.Count("op.removekey")
			case p < 65:
				hit := v.RemoveViaHandle(k)
				op = "ORemoveElem " + CS(k)
				if hit {
					out = "RUnit"
				} else {
					out = "RMiss"
				}
				drop(k)
				t = fmt.Sprintf("RemoveElement(Get(%s))=%v", k, hit)
				rep.Count("op.removeelem")
			case p < 82:
				sz := r.Pick(sizes)
				if r.Chance(5) {
					sz = -1
				}
				code := v.Reserve(sz)
				op = "OReserve " + CZ(sz)
				if code == 0 {
					out = "RUnit"
					if sz > 0 {
						reserved = append(reserved, sz)
					}
					rep.Count("reserve.ok")
				} else {
					out = cerr(code)
					rep.Count(fmt.Sprintf("reserve.err%d", code))
					nontrivial = true
					// C17 oracle: the refusal must be pure
					after := v.Snapshot()
					if len(after.Order) != len(before.Order) || after.Cur != before.Cur || after.Res != before.Res || after.Queued != before.Queued {
						rep.Fail(c, "refused Reserve changed the index or the accounting", strings.Join(text, " ; "))
					}
				}
				t = fmt.Sprintf("Reserve(%d)=%d", sz, code)
				// C17 admission oracle
				if sz > 0 && sz <= max && sz+before.Res <= max {
					wantRefuse := hard > 0 && before.Cur+before.Queued+sz > hard
					if wantRefuse != (code == 507) {
						rep.Fail(c, fmt.Sprintf("hard-limit admission: cur=%d queued=%d size=%d hard=%d but Reserve returned %d", before.Cur, before.Queued, sz, hard, code), strings.Join(append(text, t), " ; "))
					}
				}
			case p < 92:
				var sz int64
				if len(reserved) > 0 && r.Chance(85) {
					j := r.Intn(len(reserved))
					sz = reserved[j]
					reserved = append(reserved[:j], reserved[j+1:]...)
				} else {
					sz = r.Pick(sizes)
				}
				code := v.Unreserve(sz)
				op = "OUnreserve " + CZ(sz)
				if code == 0 {
					out = "RUnit"
					// keep the harness's own list consistent when an unpaired unreserve succeeded
				} else {
					out = cerr(code)
					rep.Count("unreserve.err")
				}
				t = fmt.Sprintf("Unreserve(%d)=%d", sz, code)
			default:
				ev := v.Drain()
				op, out = "ODrain", "RDrained "+centries(ev)
				t = fmt.Sprintf("Drain()=%d", len(ev))
				rep.Count("op.drain")
			}
			after := v.Snapshot()
			text = append(text, t)
			// C05 oracle: nothing is evicted unless the incoming item would not otherwise fit
			if len(after.Queue) > len(before.Queue) {
				if strings.HasPrefix(t, "Reserve(") && strings.HasSuffix(t, ")=0") {
					var n int64
					fmt.Sscanf(t, "Reserve(%d)", &n)
					if before.Cur+n <= max {
						rep.Fail(c, fmt.Sprintf("C05: Reserve(%d) evicted although it fit without eviction (accounted %d, max %d)", n, before.Cur, max), strings.Join(text, " ; "))
					}
				}
			}
			// C05 oracle: whatever left the recency list without being asked to is a least-recently-used prefix
			present := map[string]bool{}
			for _, e := range after.Order {
				present[e.Key] = true
			}
			gone := 0
			for _, kk := range recency {
				if !present[kk] {
					gone++
				}
			}
			if gone > 0 {
				nontrivial = true
				rep.Count("evictions")
				for j, kk := range recency {
					if (j < gone) == present[kk] {
						rep.Fail(c, "eviction not in least-recently-used order: "+kk, strings.Join(text, " ; "))
						break
					}
				}
				recency = recency[gone:]
			}
			// the recency order itself
			if len(after.Order) == len(recency) {
				for j := range recency {
					if after.Order[j].Key != recency[j] {
						rep.Fail(c, "recency list differs from last-use order", strings.Join(text, " ; "))
						break
					}
				}
			} else {
				rep.Fail(c, "recency list length differs from the set of live keys", strings.Join(text, " ; "))
			}
			if msg := lruOracle(after, max); msg != "" {
				rep.Fail(c, msg, strings.Join(text, " ; "))
			}
			_ = evictedBefore
			ops = append(ops, "("+op+")")
			obs = append(obs, fmt.Sprintf("(%s, %s)", out, csnap(after)))
			rep.Evaluations++
		}
		caseText := strings.Join(text, " ; ")
		rep.CaseTexts = append(rep.CaseTexts, caseText)
		if nontrivial {
			rep.DistinctCase(caseText)
		}
		if c < 3 {
			rep.Samples = append(rep.Samples, caseText)
		}
		cases = append(cases, fmt.Sprintf("(%s, %s, %s,\n  %s)", CZ(max), CZ(hard), CList(ops), CList(obs)))
	}
	rep.Cases = n
	// "gen": the same histories, evaluated by the TRANSLATED lru.go (Gen/LRUSrc.v through
	// Model/GoLRURun.v) instead of the hand-written model: validates the translator against the code.
	gen := false
	for _, a := range args {
		if a == "gen" {
			gen = true
		}
	}
	if gen {
		WriteCases(outV, "Model.LRU Model.GoLRU Model.GoLRURun Bridge.Bridge_LRUSrc", "Z * Z * list op * list (out * snap)", "gcase_bounded_ok", cases)
	} else {
		WriteCases(outV, "Model.LRU", "Z * Z * list op * list (out * snap)", "case_ok", cases)
	}
	rep.Write(outJSON)
}
