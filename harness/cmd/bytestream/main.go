// Driver "bytestream" (C16): ByteStream resource-name parsers, the Write upload protocol and
// QueryWriteStatus against the model in coq/Model/ByteStream.v, plus the property's own statement
// as a direct oracle on real Write calls over an in-process (bufconn) gRPC server.
package main

import (
	"bytes"
	"context"
	"crypto/sha256"
	"encoding/binary"
	"encoding/hex"
	"fmt"
	"io"
	"log"
	"math"
	"net"
	"os"
	"strings"
	"time"

	. "verifharness/hlib"

	"github.com/buchgr/bazel-remote/v2/cache"
	"github.com/buchgr/bazel-remote/v2/cache/disk"
	pb "github.com/buchgr/bazel-remote/v2/genproto/build/bazel/remote/execution/v2"
	"github.com/buchgr/bazel-remote/v2/server"

	"github.com/klauspost/compress/zstd"
	"google.golang.org/genproto/googleapis/bytestream"
	"google.golang.org/grpc"
	"google.golang.org/grpc/codes"
	"google.golang.org/grpc/credentials/insecure"
	"google.golang.org/grpc/status"
	"google.golang.org/grpc/test/bufconn"
)

func main() { Main("bytestream", bsDriver) }

const maxBlob = 100000 // max_cas_blob_size of the gRPC server under test
const emptySha = "e3b0c44298fc1c149afbf4c8996fb92427ae41e4649b934ca495991b7852b855"

func cstr(s string) string {
	plain := true
	for i := 0; i < len(s); i++ {
		if s[i] < 32 || s[i] > 126 {
			plain = false
			break
		}
	}
	if plain {
		return CS(s)
	}
	var xs []string
	for i := 0; i < len(s); i++ {
		xs = append(xs, fmt.Sprintf("%d", s[i]))
	}
	return "(sb " + CList(xs) + ")"
}
func sha(b []byte) string { h := sha256.Sum256(b); return hex.EncodeToString(h[:]) }

var zenc, _ = zstd.NewWriter(nil)
var zdec, _ = zstd.NewReader(nil)

// ---- fixture

type fixture struct {
	dir  string
	c    disk.Cache
	bs   bytestream.ByteStreamClient
	cas  pb.ContentAddressableStorageClient
	conn *grpc.ClientConn
	srv  *grpc.Server
}

func newFixture(mode string) *fixture {
	dir, err := os.MkdirTemp("", "verif-bs")
	if err != nil {
		panic(err)
	}
	sl := log.New(io.Discard, "", 0)
	c, err := disk.New(dir, 1<<28, disk.WithAccessLogger(sl), disk.WithStorageMode(mode))
	if err != nil {
		panic(err)
	}
	f := &fixture{dir: dir, c: c}
	l := bufconn.Listen(1 << 20)
	f.srv = grpc.NewServer()
	go func() { _ = server.ServeGRPC(l, f.srv, true, false, false, maxBlob, c, sl, sl) }()
	f.conn, err = grpc.NewClient("passthrough://bufnet", grpc.WithTransportCredentials(insecure.NewCredentials()),
		grpc.WithContextDialer(func(context.Context, string) (net.Conn, error) { return l.Dial() }))
	if err != nil {
		panic(err)
	}
	f.bs = bytestream.NewByteStreamClient(f.conn)
	f.cas = pb.NewContentAddressableStorageClient(f.conn)
	return f
}
func (f *fixture) close() {
	_ = f.conn.Close()
	f.srv.Stop()
	_ = os.RemoveAll(f.dir)
}
func (f *fixture) present(hash string, size int64) bool {
	resp, err := f.cas.FindMissingBlobs(context.Background(), &pb.FindMissingBlobsRequest{BlobDigests: []*pb.Digest{{Hash: hash, SizeBytes: size}}})
	if err != nil {
		return false
	}
	return len(resp.MissingBlobDigests) == 0
}

type msg struct {
	name string
	off  int64
	data []byte
	fin  bool
}

func errClass(err error) string {
	switch status.Code(err) {
	case codes.OK:
		return "ok"
	case codes.InvalidArgument:
		return "(Err EBadRequest)"
	case codes.OutOfRange:
		return "(Err EOutOfRange)"
	case codes.Internal, codes.Unknown:
		return "(Err EInternal)"
	case codes.ResourceExhausted:
		return "(Err EInsufficient)"
	case codes.NotFound:
		return "(Err ENotFound)"
	case codes.DeadlineExceeded:
		return "(Hang \"client deadline\")"
	}
	return fmt.Sprintf("(Err (EOther %d))", status.Code(err))
}

// A call that has not returned by the deadline counts as hanging.  The deadline is generous because
// disk.Put fsyncs and the machine may be heavily loaded; after a first hang it is shortened.
var writeTimeout = 45 * time.Second

// one real Write call: returns the Coq status term, ok, committed size
func (f *fixture) write(msgs []msg) (st string, ok bool, committed int64) {
	ctx, cancel := context.WithTimeout(context.Background(), writeTimeout)
	defer cancel()
	defer func() {
		if strings.HasPrefix(st, "(Hang") {
			writeTimeout = 3 * time.Second
		}
	}()
	w, err := f.bs.Write(ctx)
	if err != nil {
		return errClass(err), false, 0
	}
	for _, m := range msgs {
		err := w.Send(&bytestream.WriteRequest{ResourceName: m.name, WriteOffset: m.off, Data: m.data, FinishWrite: m.fin})
		if err != nil { // io.EOF: the server has already answered
			break
		}
	}
	resp, err := w.CloseAndRecv()
	if err != nil {
		return errClass(err), false, 0
	}
	return fmt.Sprintf("(Ok %s)", CZ(resp.CommittedSize)), true, resp.CommittedSize
}

// ---- generators

const hexd = "0123456789abcdef"

func genHash(r *Rng) string {
	b := make([]byte, 64)
	for i := range b {
		b[i] = hexd[r.Intn(16)]
	}
	return string(b)
}

var instVocab = []string{"", "foo", "main", "a b", "ünï", "日本", "ac", "cas", "x.y", "operations-x", "Blobs", "upload", "%2F"}

// instance-name segments that merely END, START with or CONTAIN a reserved word: REAPI-conformant
// (only a segment EQUAL to the word is reserved), so every parser has to look through them
var affixSegs = []string{"ci-uploads", "my_uploads", "eu", "nightly.uploads", "uploads2", "xblobs", "compressed-blobs-old", "blobs.d",
	"uploads-", "-blobs", "compressed-blobs2", "Uploads", "blobs_", "pre.compressed-blobs"}

// an instance name of 1-3 such segments, e.g. "my_uploads/eu"
func affixInst(r *Rng) string {
	var segs []string
	for i, n := 0, 1+r.Intn(3); i < n; i++ {
		segs = append(segs, affixSegs[r.Intn(len(affixSegs))])
	}
	return strings.Join(segs, "/")
}

var reserved = []string{"blobs", "uploads", "compressed-blobs", "actions", "actionResults", "operations", "capabilities"}
var sizeTexts = []string{"0", "1", "5", "42", "+5", "-1", "-0", "007", "9223372036854775807", "9223372036854775808", "-9223372036854775808",
	"", "1_0", "0x10", " 5", "5 ", "1e3", "٣", "5\n", "--5", "+", "-", "18446744073709551616", "99999"}

// a resource name from its parts; returns the name and whether it is conformant for (write?) with
// the embedded (hash, size, zstd)
func genName(r *Rng, write bool) (name string, conformant bool, hash string, size int64, z bool, class string) {
	conformant = true
	class = "conformant"
	var segs []string
	affix := false
	for i, n := 0, r.Intn(4); i < n; i++ {
		if r.Chance(30) {
			segs = append(segs, affixSegs[r.Intn(len(affixSegs))])
			affix = true
		} else if r.Chance(12) {
			w := reserved[r.Intn(len(reserved))]
			segs = append(segs, w)
			// only "uploads" (write) / "blobs", "compressed-blobs" (read) actually confuse the parser
			conformant = false
			class = "reserved-in-instance"
		} else {
			s := instVocab[r.Intn(len(instVocab))]
			segs = append(segs, s)
		}
	}
	hash = genHash(r)
	size = []int64{1, 5, 42, 99999, 1 << 40, math.MaxInt64}[r.Intn(6)]
	if r.Chance(15) {
		hash, size = emptySha, 0
	}
	sizeText := fmt.Sprintf("%d", size)
	z = r.Chance(45)
	kw, comp := "blobs", "zstd"
	up := "uploads"
	uuid := []string{"8e5d1c6e-7a1f-4b0e-9c55-5f0a3a9f7b11", "u", "", "uploads", "blobs", "x y"}[r.Intn(6)]
	if z {
		kw = "compressed-blobs"
	}
	switch p := r.Intn(100); {
	case p < 50:
	case p < 60:
		sizeText = sizeTexts[r.Intn(len(sizeTexts))]
		conformant, class = false, "size-text"
	case p < 68:
		switch r.Intn(5) {
		case 0:
			hash = strings.ToUpper(hash)
		case 1:
			hash = hash[:63]
		case 2:
			hash += "0"
		case 3:
			hash = ""
		case 4:
			size, sizeText = 0, "0" // zero size needs the empty-blob hash
		}
		conformant, class = false, "bad-hash"
	case p < 74:
		comp = []string{"ZSTD", "identity", "deflate", "", "zstd "}[r.Intn(5)]
		if z {
			conformant, class = false, "bad-compressor"
		}
	case p < 80:
		kw = []string{"Blobs", "blob", "compressed_blobs", "", "blobs "}[r.Intn(5)]
		conformant, class = false, "bad-keyword"
	case p < 84:
		up = []string{"upload", "Uploads", ""}[r.Intn(3)]
		if write {
			conformant, class = false, "bad-uploads"
		}
	}
	if write {
		segs = append(segs, up, uuid)
	}
	segs = append(segs, kw)
	if kw == "compressed-blobs" {
		segs = append(segs, comp)
	}
	segs = append(segs, hash, sizeText)
	if r.Chance(30) { // trailing metadata: allowed for writes only
		for i, n := 0, 1+r.Intn(2); i < n; i++ {
			segs = append(segs, []string{"meta", "", "blobs", "a=b", "日本"}[r.Intn(5)])
		}
		if !write {
			conformant, class = false, "trailing-after-read-name"
		}
	}
	if r.Chance(5) {
		segs = segs[:r.Intn(len(segs))]
		conformant, class = false, "truncated"
	}
	name = strings.Join(segs, "/")
	if conformant && affix {
		class = "conformant-affix-instance"
	}
	if !write && !z && r.Chance(20) && conformant {
		name = "/" + name // "{instance}/blobs/..." with an empty instance
	}
	return
}

func parsedObs(h string, s int64, c int, code uint32) string {
	if code != 0 {
		return "None"
	}
	return fmt.Sprintf("(Some (%s, %s, %d))", cstr(h), CZ(s), c)
}

func wname(inst string, z bool, hash string, size int64, meta string) string {
	n := "uploads/123e4567-e89b-12d3-a456-426614174000/"
	if inst != "" {
		n = inst + "/" + n
	}
	if z {
		n += "compressed-blobs/zstd/"
	} else {
		n += "blobs/"
	}
	return n + hash + "/" + fmt.Sprintf("%d", size) + meta
}

// all ways to cut data into k consecutive (possibly empty) pieces
func compositions(total, k int) [][]int {
	if k == 1 {
		return [][]int{{total}}
	}
	var out [][]int
	for first := 0; first <= total; first++ {
		for _, rest := range compositions(total-first, k-1) {
			out = append(out, append([]int{first}, rest...))
		}
	}
	return out
}

func cut(data []byte, parts []int) [][]byte {
	var out [][]byte
	o := 0
	for _, p := range parts {
		out = append(out, data[o:o+p])
		o += p
	}
	return out
}

type wcase struct {
	f        *fixture
	z        bool
	blob     []byte // the blob the client means to upload
	declHash string // what the resource name declares
	declSize int64
	nameOK   bool // the first message's resource name is well formed
	prestore bool
	msgs     []msg
	what     string
}

var ctr [8]uint64

// a blob of the given length not used before in this process (for lengths >= 1)
func freshBlob(r *Rng, l int) []byte {
	if l == 0 {
		return []byte{}
	}
	ctr[0]++
	b := make([]byte, 8)
	binary.LittleEndian.PutUint64(b, ctr[0])
	if l <= 3 {
		ctr[l]++
		binary.LittleEndian.PutUint64(b, ctr[l]) // 256^l distinct values: enough for the exhaustive part
		return b[:l]
	}
	if l < 8 {
		return b[:l]
	}
	return append(b, r.Bytes(l-8)...)
}

// what disk.Put's one-byte probe of a zstd stream sees (Put for the empty digest)
func probeByte(b []byte) (int, error) {
	d, err := zstd.NewReader(bytes.NewReader(b))
	if err != nil {
		return 0, err
	}
	defer d.Close()
	var x [1]byte
	return io.ReadFull(d, x[:])
}

// runs the case; returns Coq term, text, and applies the direct oracle
func runWrite(rep *Report, idx int, w wcase) (string, string) {
	f := w.f
	if w.prestore {
		if err := f.c.Put(context.Background(), cache.CAS, sha(w.blob), int64(len(w.blob)), bytes.NewReader(w.blob)); err != nil {
			panic(err)
		}
	}
	checkHash, checkSize := sha(w.blob), int64(len(w.blob))
	if w.nameOK {
		checkHash, checkSize = w.declHash, w.declSize
	}
	before := f.present(checkHash, checkSize)
	st, ok, committed := f.write(w.msgs)
	after := f.present(checkHash, checkSize)
	rep.Evaluations++

	// oracle columns: is the data of the first j messages exactly the declared blob?
	var pok []string
	var acc []byte
	valid := func(b []byte) bool {
		if !w.nameOK {
			return false
		}
		if w.z {
			d, err := zdec.DecodeAll(b, nil)
			if err != nil {
				return false
			}
			b = d
		}
		return int64(len(b)) == w.declSize && sha(b) == w.declHash
	}
	// the empty digest: Put only probes one byte of its reader: a byte -> BadRequest, a read error -> Internal
	emptyDigest := w.nameOK && w.declSize == 0 && w.declHash == emptySha
	putErr, nilEarly := "EInternal", false
	accepts := func(b []byte) bool {
		if !emptyDigest {
			return valid(b)
		}
		if !w.z {
			if len(b) > 0 {
				putErr = "EBadRequest"
			}
			return len(b) == 0
		}
		n, err := probeByte(b)
		if n > 0 {
			putErr = "EBadRequest"
		} else {
			putErr = "EInternal"
		}
		return n == 0 && err == io.EOF
	}
	validAt := []bool{valid(nil)}
	pok = append(pok, CB(accepts(nil)))
	for _, m := range w.msgs {
		acc = append(acc, m.data...)
		validAt = append(validAt, valid(acc))
		pok = append(pok, CB(accepts(acc)))
	}

	{ // Put's error class for what it is actually handed: the data of the consumed messages
		var cacc []byte
		for _, m := range w.msgs {
			cacc = append(cacc, m.data...)
			if m.fin {
				break
			}
		}
		accepts(cacc)
	}

	// ---- direct oracle: the property's statement
	var mt []string
	for _, m := range w.msgs {
		mt = append(mt, fmt.Sprintf("{name=%q off=%d len=%d fin=%v}", m.name, m.off, len(m.data), m.fin))
	}
	text := fmt.Sprintf("write[%s] zstd=%v blob=%dB declared=(%s,%d) nameOK=%v present-before=%v msgs=%s -> %s present-after=%v", w.what, w.z, len(w.blob), w.declHash, w.declSize, w.nameOK, before, strings.Join(mt, ","), st, after)
	consumed := len(w.msgs)
	for i, m := range w.msgs {
		if m.fin {
			consumed = i + 1
			break
		}
	}
	var sent int64
	for _, m := range w.msgs[:consumed] {
		sent += int64(len(m.data))
	}
	fail := func(what string) { rep.Fail(idx, what, text) }
	if strings.HasPrefix(st, "(Hang") {
		fail("Write call did not return (handler hangs)")
	}
	if ok && w.prestore && w.nameOK && w.declHash == sha(w.blob) && w.declSize != int64(len(w.blob)) {
		fail(fmt.Sprintf("a Write declaring the hash of a stored blob with another size (%d instead of %d) was acknowledged", w.declSize, len(w.blob)))
	}
	switch {
	case len(w.msgs) == 0:
		if ok {
			fail("Write without any message succeeded")
		}
	case !w.nameOK || w.declSize > maxBlob:
		if ok || after != before {
			fail("Write with an unusable resource name (or oversized blob) succeeded or changed the cache")
		}
	case before && !emptyDigest: // the blob exists: early return, size or -1, still present
		want := w.declSize
		if w.z {
			want = -1
		}
		if !ok || committed != want || !after {
			fail(fmt.Sprintf("existing blob: expected early OK with committed_size %d and the blob still present", want))
		}
		rep.Count("write.existing")
	default:
		reject := w.msgs[0].off != 0
		for _, m := range w.msgs[1:consumed] {
			if m.name != "" && m.name != w.msgs[0].name {
				reject = true
			}
		}
		if !w.z && sent != w.declSize {
			reject = true
		}
		if !validAt[consumed] {
			reject = true
		}
		if reject {
			if ok && emptyDigest {
				fail("data sent for the empty-blob digest was acknowledged")
			} else if ok || (after && !emptyDigest) {
				fail("a Write that must be rejected succeeded or stored the blob")
			}
			rep.Count("write.rejected")
		} else {
			if !ok || committed != sent || (!w.z && committed != w.declSize) || !after {
				fail(fmt.Sprintf("a correct Write: expected OK, committed_size %d and the blob present afterwards", sent))
			}
			rep.Count("write.accepted")
		}
	}
	var ms []string
	for _, m := range w.msgs {
		ms = append(ms, fmt.Sprintf("mkMsg %s %s %d %s", cstr(m.name), CZ(m.off), len(m.data), CB(m.fin)))
	}
	coq := fmt.Sprintf("BWrite %d %s %s %s %s %s %s %s", maxBlob, CB(before), CList(ms), CList(pok), putErr, CB(nilEarly), st, CB(after))
	return coq, text
}

func bsDriver(seed uint64, n int, outV, outJSON string, _ []string) {
	log.SetOutput(io.Discard)
	r := &Rng{S: seed}
	rep := NewReport("bytestream", seed)
	rep.Rule = "resource names assembled from parts (instance segments incl. reserved words and unicode, uuid, keyword, compressor, hash, size text incl. signs/overflow/garbage, trailing metadata, truncation) through parseWriteResource/parseReadResource; real ByteStream.Write calls over bufconn: every cut of 1-3 byte payloads into up to 4 (possibly empty) messages x finish_write placement x present/absent (oracle only, a sample goes to Coq), generated chunkings incl. one-byte chunks of larger and zstd payloads, with mutations (non-zero first offset, changed/empty resource name, extra/missing bytes, wrong declared size or hash, finish_write early, messages after finish_write, oversized, empty stream, garbage zstd); QueryWriteStatus for present and absent blobs with instance prefixes and metadata; instance names whose segments merely start, end with or contain a reserved word (ci-uploads, my_uploads/eu, nightly.uploads, uploads2, xblobs, compressed-blobs-old, blobs.d, ...) in parser, Write, QueryWriteStatus and real ByteStream.Read cases, with the direct oracle that such a conformant name is accepted and the blob stored / served byte for byte. Non-trivial = accepted parse or a Write that reached the protocol loop; distinct = distinct canonical texts among those"
	var cases []string
	add := func(coq, text string, nontrivial bool) {
		cases = append(cases, coq)
		rep.CaseTexts = append(rep.CaseTexts, text)
		if nontrivial {
			rep.DistinctCase(text)
		}
		if len(rep.Samples) < 4 && nontrivial {
			rep.Samples = append(rep.Samples, text)
		}
	}
	fz := newFixture("zstd")
	fu := newFixture("uncompressed")
	defer fz.close()
	defer fu.close()
	pickFx := func() *fixture {
		if r.Chance(50) {
			return fz
		}
		return fu
	}

	// ---- regression probe, first in every run: a stream without any message must fail, not hang
	{
		coq, text := runWrite(rep, 0, wcase{f: fz, blob: []byte("x"), nameOK: false, what: "empty-stream"})
		add(coq, text, true)
		rep.Count("write.empty-stream")
	}

	// ---- regression probes (fixed in /repo c41b897 + bbc62ee): data sent for the empty-blob digest must
	// not be acknowledged — over blobs/, and over compressed-blobs/ with decodable and undecodable data
	for i, pr := range []struct {
		z    bool
		data []byte
		what string
	}{
		{false, []byte("x"), "empty-digest: one byte over blobs/"},
		{true, zenc.EncodeAll([]byte("hello"), nil), "empty-digest: zstd of non-empty data"},
		{true, zenc.EncodeAll([]byte("hello world hello world"), nil)[:7], "empty-digest: truncated zstd frame"},
		{true, []byte("this is not zstd at all"), "empty-digest: garbage instead of zstd"},
		{false, nil, "empty-digest: no data over blobs/ (must be accepted)"},
		{true, zenc.EncodeAll(nil, nil), "empty-digest: zstd of nothing (must be accepted)"},
	} {
		f := fz
		if i%2 == 1 {
			f = fu
		}
		coq, text := runWrite(rep, len(cases), wcase{f: f, z: pr.z, blob: []byte{}, declHash: emptySha, declSize: 0, nameOK: true,
			msgs: []msg{{name: wname("", pr.z, emptySha, 0, ""), data: pr.data, fin: true}}, what: pr.what})
		add(coq, text, true)
		rep.Count("write.empty-digest-probe")
	}

	// ---- a blob present as (H, n): Writes declaring H with another size must not be acknowledged
	// (neither by the "already exists" shortcut nor otherwise), with data of the declared or of the
	// real length, over blobs/ and compressed-blobs/zstd/; QueryWriteStatus with a wrong size: incomplete
	for i := 0; i < 16; i++ {
		f := fz
		if i%2 == 1 {
			f = fu
		}
		blob := freshBlob(r, 6)
		n := int64(len(blob))
		h := sha(blob)
		decl := []int64{n + 1, n - 1, 2 * n, 1}[i%4]
		z := (i/4)%2 == 1
		data := blob // the real blob
		if i/8 == 1 { // data of the declared length
			data = append(append([]byte{}, blob...), blob...)[:decl]
		}
		payload := data
		if z {
			payload = zenc.EncodeAll(data, nil)
		}
		w := wcase{f: f, z: z, blob: blob, declHash: h, declSize: decl, nameOK: true, prestore: true,
			msgs: []msg{{name: wname("", z, h, decl, ""), data: payload, fin: true}}, what: "existing-hash-other-size"}
		coq, text := runWrite(rep, len(cases), w)
		rep.Count("write.existing-hash-other-size")
		add(coq, text, true)
		if i%4 == 0 {
			name := wname("", z, h, decl, "")
			resp, err := f.bs.QueryWriteStatus(context.Background(), &bytestream.QueryWriteStatusRequest{ResourceName: name})
			rep.Evaluations++
			obs := ""
			if err != nil {
				obs = errClass(err)
			} else {
				obs = fmt.Sprintf("(Ok (%s, %s))", CZ(resp.CommittedSize), CB(resp.Complete))
			}
			text := fmt.Sprintf("QueryWriteStatus(%q) for a blob present with size %d -> %s", name, n, obs)
			if err != nil || resp.Complete || resp.CommittedSize != 0 {
				rep.Fail(len(cases), "QueryWriteStatus reports a blob complete under a size it does not have", text)
			}
			add(fmt.Sprintf("BQws %s %s %s", CB(f.present(h, decl)), cstr(name), obs), text, true)
		}
	}

	// ---- exhaustive part: every cut of a 1..3 byte payload into 1..4 messages, finish_write
	// nowhere / on the last / on the first message, blob absent / present; identity
	sampleEvery := 1 + 390*4/(n+1) // about n/4 of the exhaustive cases go to Coq
	k := 0
	for l := 1; l <= 3; l++ {
		for nm := 1; nm <= 4; nm++ {
			for _, parts := range compositions(l, nm) {
				for fin := 0; fin < 3; fin++ {
					for _, pre := range []bool{false, true} {
						blob := freshBlob(r, l)
						h := sha(blob)
						name := wname("", false, h, int64(l), "")
						var msgs []msg
						for i, d := range cut(blob, parts) {
							m := msg{data: d}
							if i == 0 {
								m.name = name
							}
							if (fin == 1 && i == nm-1) || (fin == 2 && i == 0) {
								m.fin = true
							}
							msgs = append(msgs, m)
						}
						f := fz
						if k%2 == 1 {
							f = fu
						}
						coq, text := runWrite(rep, len(cases), wcase{f: f, blob: blob, declHash: h, declSize: int64(l), nameOK: true, prestore: pre, msgs: msgs, what: "exhaustive"})
						rep.Count("write.exhaustive")
						if (uint64(k)+seed)%uint64(sampleEvery) == 0 && len(cases) < n/4 {
							add(coq, text, true)
						}
						k++
					}
				}
			}
		}
	}

	for len(cases) < n {
		c := len(cases)
		switch p := r.Intn(100); {
		case p < 28: // ---- parseWriteResource
			name, conf, h, s, z, class := genName(r, true)
			oh, os_, oc, code := server.VerifParseWriteResource(name)
			rep.Count("pw." + class)
			rep.Evaluations++
			if conf {
				zi := 0
				if z {
					zi = 1
				}
				if code != 0 || oh != h || os_ != s || oc != zi {
					rep.Fail(c, "parseWriteResource does not yield the embedded hash/size/compressor of a conformant name", fmt.Sprintf("%q", name))
				}
			}
			if code == 0 {
				rep.Count("pw.accepted")
			}
			add(fmt.Sprintf("BParseW %s %s", cstr(name), parsedObs(oh, os_, oc, code)), fmt.Sprintf("parseWriteResource(%q) code=%d", name, code), code == 0)

		case p < 42: // ---- parseReadResource
			name, conf, h, s, z, class := genName(r, false)
			oh, os_, oc, code := server.VerifParseReadResource(name)
			rep.Count("pr." + class)
			rep.Evaluations++
			if conf {
				zi := 0
				if z {
					zi = 1
				}
				if code != 0 || oh != h || os_ != s || oc != zi {
					rep.Fail(c, "parseReadResource does not yield the embedded hash/size/compressor of a conformant name", fmt.Sprintf("%q", name))
				}
			}
			if code == 0 {
				rep.Count("pr.accepted")
			}
			add(fmt.Sprintf("BParseR %s %s", cstr(name), parsedObs(oh, os_, oc, code)), fmt.Sprintf("parseReadResource(%q) code=%d", name, code), code == 0)

		case p < 85: // ---- Write
			f := pickFx()
			l := []int{0, 1, 2, 3, 4, 5, 7, 8, 13, 31, 64, 200, 4097, 70000}[r.Intn(14)]
			blob := freshBlob(r, l)
			z := r.Chance(45)
			h, size := sha(blob), int64(l)
			payload := blob
			if z {
				payload = zenc.EncodeAll(blob, nil)
			}
			inst := ""
			if r.Chance(30) {
				inst = []string{"main", "a/b", "ünï", "blobs", "x/compressed-blobs/y"}[r.Intn(5)]
			} else if r.Chance(35) {
				inst = affixInst(r)
				rep.Count("write.affix-instance")
			}
			meta := ""
			if r.Chance(20) {
				meta = []string{"/meta", "/a/b", "/"}[r.Intn(3)]
			}
			w := wcase{f: f, z: z, blob: blob, declHash: h, declSize: size, nameOK: true, prestore: r.Chance(22), what: "plain"}
			// chunking
			var parts []int
			switch q := r.Intn(100); {
			case q < 20 && len(payload) <= 64 && len(payload) > 0: // one-byte chunks (an empty payload would give no message at all)
				for range payload {
					parts = append(parts, 1)
				}
			case q < 35:
				parts = []int{len(payload)}
			default:
				rem := len(payload)
				for nmsg := 1 + r.Intn(5); nmsg > 1; nmsg-- {
					p := 0
					if !r.Chance(25) && rem > 0 {
						p = r.Intn(rem + 1)
					}
					parts = append(parts, p)
					rem -= p
				}
				parts = append(parts, rem)
			}
			mut := "none"
			if r.Chance(55) {
				mut = []string{"offset", "name-change", "name-repeat", "extra-bytes", "missing-bytes", "bad-name", "empty-name", "wrong-size", "wrong-hash",
					"finish-early", "after-finish", "oversized", "garbage-zstd", "no-finish", "extra-in-last"}[r.Intn(15)]
			}
			// apply mutations to the payload/declaration before cutting
			switch mut {
			case "extra-bytes":
				parts = append(parts, 1+r.Intn(3))
				payload = append(append([]byte{}, payload...), r.Bytes(parts[len(parts)-1])...)
			case "extra-in-last":
				e := 1 + r.Intn(3)
				parts[len(parts)-1] += e
				payload = append(append([]byte{}, payload...), r.Bytes(e)...)
			case "missing-bytes":
				if len(payload) > 0 {
					d := 1 + r.Intn(len(payload))
					payload = payload[:len(payload)-d]
					parts = []int{len(payload)}
				} else {
					mut = "none"
				}
			case "wrong-size":
				w.declSize = size + []int64{1, -1, 10}[r.Intn(3)]
				if w.declSize < 0 || (w.declSize == 0 && h != emptySha) {
					w.declSize = size + 1
				}
			case "wrong-hash":
				w.declHash = genHash(r)
				if w.declSize == 0 {
					w.nameOK = false // a zero size needs the empty-blob hash
				}
			case "oversized":
				w.declSize = maxBlob + 1 + int64(r.Intn(5))
			case "garbage-zstd":
				if z {
					payload = r.Bytes(8 + r.Intn(20))
					parts = []int{len(payload) / 2, len(payload) - len(payload)/2}
				} else {
					mut = "none"
				}
			}
			name := wname(inst, z, w.declHash, w.declSize, meta)
			switch mut {
			case "bad-name":
				name = []string{"uploads/u/blobs/" + strings.ToUpper(h) + "/5", "blobs/" + h + "/5", "uploads/u/compressed-blobs/gzip/" + h + "/5", "uploads/u/blobs/" + h + "/-5", "garbage", "uploads/u/blobs/" + h}[r.Intn(6)]
				w.nameOK = false
			case "empty-name":
				name = ""
				w.nameOK = false
			}
			if w.declSize == 0 && w.declHash == emptySha && w.nameOK {
				w.prestore = false // the empty blob is always there
			}
			for i, d := range cut(payload, parts) {
				m := msg{data: d}
				if i == 0 {
					m.name = name
				} else if mut == "name-repeat" || r.Chance(15) {
					m.name = name
				}
				msgs := len(parts)
				if i == msgs-1 && mut != "no-finish" && !r.Chance(25) {
					m.fin = true
				}
				w.msgs = append(w.msgs, m)
			}
			nm := len(w.msgs)
			switch mut {
			case "offset":
				w.msgs[0].off = []int64{1, -1, int64(len(payload)), 1 << 40}[r.Intn(4)]
			case "name-change":
				if nm > 1 {
					i := 1 + r.Intn(nm-1)
					w.msgs[i].name = []string{wname("other", z, w.declHash, w.declSize, ""), wname(inst, z, genHash(r), w.declSize, meta), "x", name + "/"}[r.Intn(4)]
				} else {
					w.msgs = append(w.msgs, msg{name: "changed", fin: true})
					w.msgs[0].fin = false
				}
			case "finish-early":
				if nm > 1 {
					w.msgs[r.Intn(nm-1)].fin = true
				}
			case "after-finish":
				w.msgs[nm-1].fin = true
				w.msgs = append(w.msgs, msg{data: r.Bytes(1 + r.Intn(3))}, msg{name: "whatever", fin: true})
			}
			w.what = mut
			coq, text := runWrite(rep, c, w)
			rep.Count("write.mut." + mut)
			if z {
				rep.Count("write.zstd")
			} else {
				rep.Count("write.identity")
			}
			add(coq, text, w.nameOK)

		case p < 90: // ---- ByteStream.Read under a REAPI-conformant instance name whose segments contain reserved words
			f := pickFx()
			blob := freshBlob(r, []int{1, 2, 5, 33, 200, 4097}[r.Intn(6)])
			h, size := sha(blob), int64(len(blob))
			if err := f.c.Put(context.Background(), cache.CAS, h, size, bytes.NewReader(blob)); err != nil {
				panic(err)
			}
			z := r.Chance(40)
			inst := affixInst(r)
			if r.Chance(25) {
				inst += "/" + []string{"main", "uploads", "ünï", "a b"}[r.Intn(4)] // "uploads" is not reserved in a Read name
			}
			name := inst + "/blobs/" + h + fmt.Sprintf("/%d", size)
			if z {
				name = inst + "/compressed-blobs/zstd/" + h + fmt.Sprintf("/%d", size)
			}
			ctx, cancel := context.WithTimeout(context.Background(), writeTimeout)
			var got []byte
			st, rerr := f.bs.Read(ctx, &bytestream.ReadRequest{ResourceName: name})
			for rerr == nil {
				var m *bytestream.ReadResponse
				m, rerr = st.Recv()
				if rerr == nil {
					got = append(got, m.Data...)
				}
			}
			cancel()
			rep.Evaluations++
			rep.Count("read.affix-instance")
			if z {
				rep.Count("read.zstd")
			}
			text := fmt.Sprintf("Read(%q) of a stored %d byte blob -> %d bytes, err=%v", name, size, len(got), rerr)
			// direct oracle: the name is conformant, the blob is there: it must be served, byte for byte
			if rerr != io.EOF {
				rep.Fail(c, "Read under a conformant instance name (segments merely containing a reserved word) failed", text)
			} else {
				data := got
				if z {
					d, derr := zdec.DecodeAll(got, nil)
					if derr != nil {
						rep.Fail(c, "Read of compressed-blobs/zstd returned undecodable data", text)
					}
					data = d
				}
				if !bytes.Equal(data, blob) {
					rep.Fail(c, "Read under a conformant instance name returned other bytes than the stored blob", text)
				}
			}
			oh, os_, oc, code := server.VerifParseReadResource(name)
			zi := 0
			if z {
				zi = 1
			}
			if code != 0 || oh != h || os_ != size || oc != zi {
				rep.Fail(c, "parseReadResource does not yield the embedded hash/size/compressor of a conformant name", fmt.Sprintf("%q", name))
			}
			add(fmt.Sprintf("BParseR %s %s", cstr(name), parsedObs(oh, os_, oc, code)), text, code == 0)

		default: // ---- QueryWriteStatus
			f := pickFx()
			blob := freshBlob(r, []int{0, 1, 5, 33}[r.Intn(4)])
			h, size := sha(blob), int64(len(blob))
			pre := r.Chance(50)
			if pre && size > 0 {
				if err := f.c.Put(context.Background(), cache.CAS, h, size, bytes.NewReader(blob)); err != nil {
					panic(err)
				}
			}
			z := r.Chance(40)
			inst := []string{"", "main", "a/b/c", "blobs", "日本"}[r.Intn(5)]
			if r.Chance(40) {
				inst = affixInst(r)
				rep.Count("qws.affix-instance")
			}
			meta := []string{"", "/meta", "/x/y"}[r.Intn(3)]
			name := wname(inst, z, h, size, meta)
			class := "good"
			switch r.Intn(8) {
			case 0:
				name, class = wname(inst, z, h, size+1, meta), "other-size"
			case 1:
				name, class = strings.Replace(name, "uploads/123e4567", "upload/123e4567", 1), "bad-name" // the keyword segment, not an instance segment containing it
			case 2:
				name, class = wname(inst, z, strings.ToUpper(h), size, meta), "bad-hash"
			}
			isPresent := f.present(h, size)
			if class == "other-size" {
				isPresent = f.present(h, size+1)
			}
			resp, err := f.bs.QueryWriteStatus(context.Background(), &bytestream.QueryWriteStatusRequest{ResourceName: name})
			rep.Evaluations++
			rep.Count("qws." + class)
			var obs string
			if err != nil {
				obs = errClass(err)
			} else {
				obs = fmt.Sprintf("(Ok (%s, %s))", CZ(resp.CommittedSize), CB(resp.Complete))
			}
			text := fmt.Sprintf("QueryWriteStatus(%q) present=%v -> %s", name, isPresent, obs)
			// direct oracle
			if class == "good" || class == "other-size" {
				wantSize := size
				if class == "other-size" {
					wantSize = size + 1
				}
				if err != nil || resp.Complete != isPresent || (isPresent && resp.CommittedSize != wantSize) || (!isPresent && resp.CommittedSize != 0) {
					rep.Fail(c, "QueryWriteStatus must report complete with the full size exactly when the blob is present", text)
				}
			} else if err == nil {
				rep.Fail(c, "QueryWriteStatus accepted an unparsable resource name", text)
			}
			add(fmt.Sprintf("BQws %s %s %s", CB(isPresent), cstr(name), obs), text, err == nil)
		}
	}
	rep.Cases = len(cases)
	WriteCases(outV, "Model.Keys Model.ByteStream", "bcase", "ByteStream.case_ok", cases)
	rep.Write(outJSON)
}
