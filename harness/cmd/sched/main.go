// Command sched: deterministic interleavings of concurrent requests against a real disk.Cache,
// driven through the yield points compiled in with -tags verif (utils/verifhook): each request
// runs in its own goroutine and is released from one yield point to the next by the schedule;
// the background remover is released one unlink at a time.  Emits cases for Model/DiskSched.v
// (scase_ok) and applies the direct oracles of C07 (whole values, accounting, directory).
package main

import (
	"bytes"
	"context"
	"crypto/sha256"
	"encoding/hex"
	"fmt"
	"io"
	"log"
	"os"
	"path/filepath"
	"regexp"
	"sort"
	"strings"
	"sync"
	"time"

	"github.com/buchgr/bazel-remote/v2/cache"
	"github.com/buchgr/bazel-remote/v2/cache/disk"
	"github.com/buchgr/bazel-remote/v2/cache/disk/casblob"
	"github.com/buchgr/bazel-remote/v2/cache/disk/zstdimpl"
	"github.com/buchgr/bazel-remote/v2/utils/verifhook"

	. "verifharness/hlib"
)

func main() { Main("sched", driver) }

// ---------------------------------------------------------------- scheduler

type scheduler struct {
	mu      sync.Mutex
	parked  chan string        // a request goroutine arrived at a yield point
	resume  chan struct{}      // release the (single) running request goroutine
	evPark  chan string        // the remover arrived at one of its gates
	evGo    chan struct{}      // release the remover
	enabled bool
	current *req               // the only request goroutine that is running
}

var sch *scheduler

func install() {
	h := func(point string) {
		s := sch
		if s == nil || !s.enabled {
			return
		}
		if strings.HasPrefix(point, "evict.") {
			s.evPark <- point
			<-s.evGo
			return
		}
		q := s.current
		s.parked <- point
		<-q.resume
	}
	verifhook.Handler.Store(&h)
}

type blob struct {
	data   []byte
	hash   string
	ondisk int64 // size of the stored file once known
}

func mkBlob(r *Rng, size int64, compressible bool) *blob {
	var d []byte
	if compressible {
		d = bytes.Repeat([]byte{byte('a' + r.Intn(20))}, int(size))
		if size > 8 {
			copy(d, r.Bytes(8))
		}
	} else {
		d = r.Bytes(int(size))
	}
	h := sha256.Sum256(d)
	return &blob{data: d, hash: hex.EncodeToString(h[:])}
}

func errClass(err error) string {
	if ce, ok := err.(*cache.Error); ok {
		switch ce.Code {
		case 400:
			return "EBadRequest"
		case 507:
			return "EInsufficient"
		}
	}
	return "EInternal"
}

func citem(i disk.VerifItem) string {
	return fmt.Sprintf("(mkItem %s %s %s %s)", CZ(i.Size), CZ(i.SizeOnDisk), CS(i.Random), CB(i.Legacy))
}
func centries(es []disk.VerifEntry) string {
	var xs []string
	for _, e := range es {
		xs = append(xs, fmt.Sprintf("(mkEntry %s %s)", CS(e.Key), citem(e.Item)))
	}
	return CList(xs)
}
func csnap(s disk.VerifSnapshot) string {
	return fmt.Sprintf("(mkSnap %s %s %s %s %s %s [])", centries(s.Order), CZ(s.Cur), CZ(s.Unc), CZ(s.Res), CZ(s.Queued), CU(s.Peak))
}
func describeReq(q *req) string {
	if q.isPut {
		return fmt.Sprintf("Put(%s,%s..,%d bytes)", q.kname, q.hash[:6], q.size)
	}
	return fmt.Sprintf("Get(%s,%s..,size=%d)", q.kname, q.hash[:6], q.size)
}

func r4k(n int64) int64 { return (n + 4095) / 4096 * 4096 }

var nameRe = regexp.MustCompile(`^([a-f0-9]{64})(?:-([1-9][0-9]*))?-([0-9a-zA-Z]+)(\.v1)?$`)

func listDir(dir string) []string {
	var rows []string
	for _, ks := range [][2]string{{"cas.v2", "cas/"}, {"ac.v2", "ac/"}, {"raw.v2", "raw/"}} {
		_ = filepath.Walk(filepath.Join(dir, ks[0]), func(p string, info os.FileInfo, err error) error {
			if err != nil || info.IsDir() {
				return nil
			}
			m := nameRe.FindStringSubmatch(info.Name())
			if m == nil {
				rows = append(rows, fmt.Sprintf("(%s, 0, \"?\", false, 0)", CS("unrecognised:"+info.Name())))
				return nil
			}
			var sz int64
			if m[2] != "" {
				fmt.Sscan(m[2], &sz)
			}
			rows = append(rows, fmt.Sprintf("(%s, %s, %s, %s, %s)", CS(ks[1]+m[1]), CZ(sz), CS(m[3]), CB(m[4] == ".v1"), CZ(info.Size())))
			return nil
		})
	}
	sort.Strings(rows)
	return rows
}

// one request in flight
type req struct {
	kind    cache.EntryKind
	kname   string
	isPut   bool
	b       *blob // content for Put; expected key blob for CAS Get
	hash    string
	size    int64
	done    bool
	err     error
	hit     bool
	body    []byte
	fsz     int64
	rnd     string // random suffix of the file this Put created (filled in when observed)
	resp    string // Coq term of the response once done
	resume  chan struct{}
	bi      int
}

func driver(seed uint64, n int, outV, outJSON string, _ []string) {
	r := &Rng{S: seed}
	rep := NewReport("sched", seed)
	rep.Rule = "2-4 concurrent Put/Get requests over one shared action-cache key, one shared CAS key and others, released yield point by yield point (index lookup -> open -> validate -> drop; write -> commit) in a random schedule interleaved with single unlinks of the background remover, optionally with a damaged CAS file on disk; both storage modes; non-trivial = at least one scheduling decision taken while two requests were in flight; distinct canonical case texts counted"
	log.SetOutput(io.Discard)
	install()
	ctx := context.Background()
	var cases []string
	for c := 0; c < n; c++ {
		blocks := []int64{4, 5, 6, 8}[r.Intn(4)]
		max := blocks * 4096
		zstdMode := r.Chance(60)
		mode := "uncompressed"
		if zstdMode {
			mode = "zstd"
		}
		sch = &scheduler{parked: make(chan string), resume: make(chan struct{}), evPark: make(chan string, 1), evGo: make(chan struct{}), enabled: true}
		mySch := sch
		dir, _ := os.MkdirTemp("", "verif-sched-")
		dc, err := disk.New(dir, max, disk.WithAccessLogger(log.New(io.Discard, "", 0)), disk.WithStorageMode(mode))
		if err != nil {
			panic(err)
		}
		evAt := <-mySch.evPark // remover parked at evict.take
		realDir := disk.VerifDir(dc)

		sizes := []int64{1, 100, 4096, 4097, 8000, 8192}
		var blobs []*blob
		for i := 0; i < 5; i++ {
			b := mkBlob(r, r.Pick(sizes), r.Chance(50))
			for dup := true; dup; { // distinct contents: the content identity is the blob index
				dup = false
				for _, o := range blobs {
					if o.hash == b.hash {
						dup = true
						b = mkBlob(r, int64(len(b.data))+1, false)
					}
				}
			}
			blobs = append(blobs, b)
		}
		for _, b := range blobs {
			b.ondisk = int64(len(b.data))
			if zstdMode {
				zi, _ := zstdimpl.Get("go")
				tf, _ := os.CreateTemp("", "verif-obj-")
				od, werr := casblob.WriteAndClose(zi, bytes.NewReader(b.data), tf, casblob.Zstandard, b.hash, int64(len(b.data)))
				if werr != nil {
					panic(werr)
				}
				b.ondisk = od
				_ = os.Remove(tf.Name())
			}
		}
		acKey := blobs[0].hash // the shared action-cache key (any 64 hex chars)
		cfg := fmt.Sprintf("(mkCfg %s %s %s false)", CB(zstdMode), CZ(1<<40), CZ(1<<40))
		text := []string{fmt.Sprintf("mode=%s max=%d", mode, max)}
		var labels []func() string
		var obs []string
		var reqs []*req
		seenRandom := map[string]bool{}
		uploaded := map[string][]*blob{} // key -> contents whose upload has been spawned
		tmpN := 0
		nontrivial := false
		failed := func(what string) { rep.Fail(c, what, strings.Join(text, " ; ")) }
		// C07 oracle "an acknowledged upload is found unless space pressure evicted it": a step of a
		// READ request may take an entry out of the index only if that entry is the damaged file
		// the reader failed on (never an entry committed since, never an intact one)
		damaged := map[string]bool{}     // random suffixes of the files this case damaged
		var stepReq *req                 // the request released in the step being observed (nil otherwise)
		prevOrder := map[string]string{} // key -> random suffix at the previous observation

		finish := func(q *req) {
			q.done = true
			if q.isPut {
				if q.err == nil {
					q.resp = "Some PutOk"
				} else {
					q.resp = "Some (PutErr " + errClass(q.err) + ")"
				}
				return
			}
			switch {
			case q.err != nil:
				q.resp = "Some (GetErr " + errClass(q.err) + ")"
			case !q.hit:
				q.resp = "Some GetMiss"
			default:
				key := q.kind.String() + "/" + q.hash
				var match *blob
				for _, b := range uploaded[key] {
					if bytes.Equal(b.data, q.body) {
						match = b
					}
				}
				if match == nil {
					failed(fmt.Sprintf("C07: read of %s returned %d bytes that are not the complete content of any upload to that key", key, len(q.body)))
					q.resp = fmt.Sprintf("Some (GetHit %s (-1) 0)", CZ(q.fsz))
					return
				}
				if q.fsz != int64(len(match.data)) {
					failed(fmt.Sprintf("C07: read of %s reports size %d for a value of %d bytes", key, q.fsz, len(match.data)))
				}
				cid := -1
				for j, b := range blobs {
					if b == match {
						cid = j
					}
				}
				flen := int64(len(match.data))
				if q.kind == cache.CAS {
					flen = match.ondisk
				}
				q.resp = fmt.Sprintf("Some (GetHit %s %d %s)", CZ(q.fsz), cid, CZ(flen))
			}
		}

		run := func(q *req) { // body of a request goroutine
			if q.isPut {
				q.err = dc.Put(ctx, q.kind, q.hash, q.size, bytes.NewReader(q.b.data))
			} else {
				rc, fsz, err := dc.Get(ctx, q.kind, q.hash, q.size, 0)
				q.err, q.fsz = err, fsz
				if rc != nil {
					q.hit = true
					q.body, _ = io.ReadAll(rc)
					_ = rc.Close()
				}
			}
		}

		doneCh := make(chan *req, 8)
		// wait until the released request parks again or finishes
		wait := func() {
			select {
			case <-mySch.parked:
			case q := <-doneCh:
				finish(q)
			case <-time.After(120 * time.Second):
				failed("C07: a request neither reached its next yield point nor finished within 120 s (blocked?)")
			}
		}
		observe := func(label func() string, t string) {
			snap := disk.VerifCacheSnapshot(dc)
			// learn random suffixes / on-disk sizes of committed uploads
			for _, e := range append(append([]disk.VerifEntry{}, snap.Order...), snap.Queue...) {
				if seenRandom[e.Item.Random] {
					continue
				}
				for _, q := range reqs {
					if q.isPut && q.rnd == "" && q.kind.String()+"/"+q.hash == e.Key && q.done && q.err == nil {
						q.rnd = e.Item.Random
						seenRandom[e.Item.Random] = true
						break
					}
				}
			}
			curOrder := map[string]string{}
			for _, e := range snap.Order {
				curOrder[e.Key] = e.Item.Random
			}
			if stepReq != nil && !stepReq.isPut {
				for k, rnd := range prevOrder {
					if now, ok := curOrder[k]; (!ok || now != rnd) && !damaged[rnd] {
						failed(fmt.Sprintf("C07: a step of the read %s took the intact entry %s (file suffix %s) out of the index: an acknowledged upload is lost without space pressure", describeReq(stepReq), k, rnd))
					}
				}
			}
			prevOrder, stepReq = curOrder, nil
			var sum int64
			for _, e := range snap.Order {
				sum += r4k(e.Item.SizeOnDisk)
			}
			if snap.Cur != snap.Res+sum || snap.Cur > max || snap.Res < 0 || snap.NumItems != len(snap.Order) {
				failed(fmt.Sprintf("C03/C07: accounting diverged: total=%d reserved=%d entries=%d max=%d items=%d/%d", snap.Cur, snap.Res, sum, max, snap.NumItems, len(snap.Order)))
			}
			// C17 oracle: files that were evicted or replaced but are still on disk must be counted as
			// queued for deletion (checked when no request is in flight, so no temp file is around)
			allDone := true
			for _, q := range reqs {
				if !q.done {
					allDone = false
				}
			}
			if allDone {
				var onDisk, indexed int64
				_ = filepath.Walk(realDir, func(p string, info os.FileInfo, err error) error {
					if err == nil && !info.IsDir() {
						onDisk += info.Size()
					}
					return nil
				})
				for _, e := range snap.Order {
					indexed += e.Item.SizeOnDisk
				}
				if onDisk-indexed > snap.Queued {
					failed(fmt.Sprintf("C17: %d bytes of evicted/replaced files are still on disk but only %d bytes are accounted as queued for deletion", onDisk-indexed, snap.Queued))
				}
			}
			var rs []string
			for _, q := range reqs {
				if q.done {
					rs = append(rs, q.resp)
				} else {
					rs = append(rs, "None")
				}
			}
			labels = append(labels, label)
			obs = append(obs, fmt.Sprintf("(%s, %s)", CList(rs), csnap(snap)))
			text = append(text, t)
			rep.Evaluations++
		}
		inflight := func() []int {
			var xs []int
			for i, q := range reqs {
				if !q.done {
					xs = append(xs, i)
				}
			}
			return xs
		}
		term := func(q *req) string {
			if q.isPut {
				rnd := q.rnd
				if rnd == "" {
					rnd = fmt.Sprintf("tmp%d", q.bi*100+len(q.hash)) // never visible; unique below
				}
				od := int64(len(q.b.data))
				if q.kind == cache.CAS {
					od = q.b.ondisk
				}
				return fmt.Sprintf("RPut %s %s %s (mkStream %d %s false true %s) %s", q.kname, CS(q.hash), CZ(q.size), q.bi, CZ(int64(len(q.b.data))), CZ(od), CS(rnd))
			}
			return fmt.Sprintf("RGet %s %s %s 0 false BMiss \"\"", q.kname, CS(q.hash), CZ(q.size))
		}
		spawn := func(q *req) {
			q.resume = make(chan struct{})
			mySch.current = q
			reqs = append(reqs, q)
			if q.isPut {
				key := q.kind.String() + "/" + q.hash
				uploaded[key] = append(uploaded[key], q.b)
			}
			go func() { run(q); doneCh <- q }()
			wait()
			stepReq = q
		}
		unlinkOne := func() bool {
			snap := disk.VerifCacheSnapshot(dc)
			if evAt == "evict.take" {
				if len(snap.Queue) == 0 {
					return false
				}
				mySch.evGo <- struct{}{}
				evAt = <-mySch.evPark // now at evict.unlink
			}
			mySch.evGo <- struct{}{}
			evAt = <-mySch.evPark
			return true
		}
		newReq := func() *req {
			p := r.Intn(100)
			q := &req{}
			switch {
			case p < 30: // Put to the shared AC key, varying content
				q.bi = 1 + r.Intn(3)
				q.isPut, q.kind, q.kname, q.b, q.hash = true, cache.AC, "AC", blobs[q.bi], acKey
			case p < 50: // Put a CAS blob
				q.bi = r.Intn(len(blobs))
				b := blobs[q.bi]
				q.isPut, q.kind, q.kname, q.b, q.hash = true, cache.CAS, "CAS", b, b.hash
			case p < 75: // Get the shared AC key
				q.kind, q.kname, q.hash, q.size = cache.AC, "AC", acKey, -1
			default:
				b := blobs[r.Intn(len(blobs))]
				q.kind, q.kname, q.b, q.hash, q.size = cache.CAS, "CAS", b, b.hash, int64(len(b.data))
				if r.Chance(30) {
					q.size = -1
				}
			}
			if q.isPut {
				q.size = int64(len(q.b.data))
			}
			return q
		}
		describe := func(q *req) string {
			if q.isPut {
				return fmt.Sprintf("Put(%s,%s..,%d bytes)", q.kname, q.hash[:6], q.size)
			}
			return fmt.Sprintf("Get(%s,%s..,size=%d)", q.kname, q.hash[:6], q.size)
		}

		// phase 1: a few sequential uploads
		for i := 0; i < 2+r.Intn(3); i++ {
			q := newReq()
			for !q.isPut {
				q = newReq()
			}
			spawn(q)
			qq := q
			observe(func() string { return "SSpawn (" + term(qq) + ")" }, "spawn "+describe(q))
			for !q.done {
				idx := len(reqs) - 1
				mySch.current = q
				q.resume <- struct{}{}
				wait()
				stepReq = q
				observe(func() string { return fmt.Sprintf("SRun %d", idx) }, fmt.Sprintf("run %d", idx))
			}
		}
		// optionally damage the file of an indexed compressed CAS entry
		if zstdMode && r.Chance(50) {
			snap := disk.VerifCacheSnapshot(dc)
			for _, e := range snap.Order {
				if strings.HasPrefix(e.Key, "cas/") && !e.Item.Legacy {
					p := filepath.Join(realDir, fmt.Sprintf("cas.v2/%s/%s-%d-%s", e.Key[4:6], e.Key[4:], e.Item.Size, e.Item.Random))
					if f, err := os.OpenFile(p, os.O_WRONLY, 0); err == nil {
						_, _ = f.WriteAt(make([]byte, 16), 29) // zero the chunk table
						_ = f.Close()
						damaged[e.Item.Random] = true
						kk := e.Key
						observe(func() string { return "SCorrupt " + CS(kk) }, "corrupt "+e.Key[:10])
						rep.Count("corrupt")
					}
					break
				}
			}
		}
		// phase 2: concurrent requests under a random schedule
		nconc := 3 + r.Intn(3)
		for spawned := 0; spawned < nconc || len(inflight()) > 0; {
			fl := inflight()
			p := r.Intn(100)
			switch {
			case spawned < nconc && (len(fl) == 0 || p < 60):
				q := newReq()
				spawn(q)
				spawned++
				qq := q
				observe(func() string { return "SSpawn (" + term(qq) + ")" }, "spawn "+describe(q))
			case p < 72:
				if unlinkOne() {
					observe(func() string { return "SUnlink" }, "unlink")
					rep.Count("unlink")
				}
			default:
				if len(fl) == 0 {
					continue
				}
				i := fl[r.Intn(len(fl))]
				if len(fl) > 1 {
					nontrivial = true
					rep.Count("decision-with-several-in-flight")
				}
				mySch.current = reqs[i]
				reqs[i].resume <- struct{}{}
				wait()
				ii := i
				stepReq = reqs[i]
				observe(func() string { return fmt.Sprintf("SRun %d", ii) }, fmt.Sprintf("run %d", i))
			}
		}
		for unlinkOne() {
			observe(func() string { return "SUnlink" }, "unlink")
		}
		final := disk.VerifCacheSnapshot(dc)
		if final.Res != 0 {
			failed(fmt.Sprintf("C03/C07: %d bytes reserved at quiescence", final.Res))
		}
		rows := listDir(realDir)
		if len(rows) != len(final.Order) {
			failed(fmt.Sprintf("C04/C07: %d files on disk at quiescence, %d indexed entries", len(rows), len(final.Order)))
		}
		// unique placeholders for the names of temp files that never became visible
		for _, q := range reqs {
			if q.isPut && q.rnd == "" {
				tmpN++
				q.rnd = fmt.Sprintf("tmp%d", tmpN)
			}
		}
		var ls []string
		for _, f := range labels {
			ls = append(ls, "("+f()+")")
		}
		cases = append(cases, fmt.Sprintf("(%s, %s, 0, %s,\n %s,\n %s)", cfg, CZ(max), CList(ls), CList(obs), CList(rows)))
		mySch.enabled = false
		caseText := strings.Join(text, " ; ")
		rep.CaseTexts = append(rep.CaseTexts, caseText)
		if nontrivial {
			rep.DistinctCase(caseText)
		}
		if c < 2 {
			rep.Samples = append(rep.Samples, caseText)
		}
		_ = os.RemoveAll(dir)
	}
	rep.Cases = n
	WriteCases(outV, "Model.LRU Model.Disk Model.DiskSched", "scase", "scase_ok", cases)
	rep.Write(outJSON)
}
