package main

import (
	"fmt"
	"net/url"
	"reflect"
	"strings"
	"time"

	. "verifharness/hlib"

	"github.com/buchgr/bazel-remote/v2/config"
)

// url.Parse on every URL-valued setting of the case (the model's oracle column)
func urlOracle(s setting) string {
	seen := map[string]bool{}
	var xs []string
	add := func(u string) {
		if seen[u] {
			return
		}
		seen[u] = true
		p, err := url.Parse(u)
		if err != nil {
			xs = append(xs, fmt.Sprintf("(%s, None)", CS(u)))
		} else {
			if p.String() != u {
				panic("generated URL does not print as itself: " + u)
			}
			xs = append(xs, fmt.Sprintf("(%s, Some %s)", CS(u), CS(p.Scheme)))
		}
	}
	add("")
	for _, e := range s {
		if strings.HasSuffix(e.key, "_proxy.url") && e.v.k == 's' {
			add(e.v.s)
		}
	}
	return CList(xs)
}

type outcome struct {
	c   *config.Config
	err error
}

func (o outcome) ok() bool { return o.err == nil }

// runs one setting through argv, environment and YAML; returns the Coq case and the outcomes
func runAll(s setting) (string, outcome, outcome, outcome, bool) {
	ca, ea := runArgv(s)
	ce, ee, envOK := runEnv(s)
	cy, ey := runYaml(s)
	text := fmt.Sprintf("CRun %s\n  %s\n  (%s)\n  (%s)", urlOracle(s), s.coq(), observed(ca, ea), observed(cy, ey))
	return text, outcome{ca, ea}, outcome{ce, ee}, outcome{cy, ey}, envOK
}

func sameOutcome(a, b outcome) string {
	if a.ok() != b.ok() {
		return fmt.Sprintf("one is accepted, the other refused (%v / %v)", a.err, b.err)
	}
	if !a.ok() {
		return ""
	}
	return diffEff(effective(a.c), effective(b.c))
}

// Config struct -> Coq record term (constructor arguments in declaration order)
func coqStruct(x reflect.Value) string {
	t := x.Type()
	args := []string{"GC.mk" + t.Name()}
	for i := 0; i < t.NumField(); i++ {
		f := t.Field(i)
		if f.Tag.Get("yaml") == "" {
			continue
		}
		fv := x.Field(i)
		switch v := fv.Interface().(type) {
		case string:
			args = append(args, CS(v))
		case int:
			args = append(args, CZ(int64(v)))
		case int64:
			args = append(args, CZ(v))
		case bool:
			args = append(args, CB(v))
		case time.Duration:
			args = append(args, CZ(int64(v)))
		case []float64:
			if v == nil {
				args = append(args, "None")
			} else {
				args = append(args, "(Some ("+vl(milliList(v)).coq()[3:]+"))")
			}
		case *int:
			if v == nil {
				args = append(args, "None")
			} else {
				args = append(args, "(Some "+CZ(int64(*v))+")")
			}
		case *url.URL:
			if v == nil {
				args = append(args, "None")
			} else {
				args = append(args, fmt.Sprintf("(Some (GC.mkURL %s %s))", CS(v.Scheme), CS(v.String())))
			}
		default:
			if fv.Kind() == reflect.Ptr && fv.Type().Elem().Kind() == reflect.Struct {
				if fv.IsNil() {
					args = append(args, "None")
				} else {
					args = append(args, "(Some "+coqStruct(fv.Elem())+")")
				}
				continue
			}
			panic("config field of unexpected type: " + f.Name)
		}
	}
	return "(" + strings.Join(args, " ") + ")"
}

func milliList(v []float64) []int64 {
	var l []int64
	for _, b := range v {
		l = append(l, int64(b*1000+0.5))
	}
	return l
}

// a Config struct for validateConfig: mostly plausible, each field now and then from its edge values
func (g *gen) configStruct() *config.Config {
	addr := func() string {
		return g.pick("localhost:8080", ":8080", "[::1]:9092", "127.0.0.1:9092", "unix:///s", "unix://", "none", "", "nocolon", "a:b:c", ":")
	}
	str := func(xs ...string) string { return g.pick(xs...) }
	c := &config.Config{
		HTTPAddress: addr(), GRPCAddress: addr(), ProfileAddress: str("", "", "none", "unix://", "unix:///p", "127.0.0.1:7070"),
		Dir: str("/d", "/d", "/d", ""), MaxSize: int(g.picki(1, 5, 5, 0, -1)), MaxSizeHardLimit: int(g.picki(-1, 0, 7)),
		StorageMode: str("zstd", "zstd", "uncompressed", "gzip", ""), ZstdImplementation: str("go", "go", "cgo", "c"),
		HtpasswdFile: str("", "", "/h"), MinTLSVersion: str("1.0", "1.3", "9"),
		TLSCaFile: str("", "", "/ca"), TLSCertFile: str("", "/crt", "/crt"), TLSKeyFile: str("", "/key", "/key"),
		AllowUnauthenticatedReads: g.r.Chance(30), NumUploaders: int(g.picki(0, 100)), MaxQueuedUploads: int(g.picki(0, 1000000)),
		IdleTimeout: time.Duration(g.picki(0, 45*sec)), ExperimentalRemoteAssetAPI: g.r.Chance(20), EnableEndpointMetrics: g.r.Chance(20),
		AccessLogLevel: str("all", "all", "none", "x"), LogTimezone: str("UTC", "UTC", "local", "none", "x"),
		MaxBlobSize: g.picki(1, 1, 1<<40, 0, -1), MaxProxyBlobSize: g.picki(1, 1, 1<<40, 0, -5),
	}
	if g.r.Chance(70) {
		c.MetricsDurationBuckets = [][]float64{{0.5, 1, 2.5}, {}, {1, 1}, {5, 0.25, 5}, {3}}[g.r.Intn(5)]
	}
	mkURL := func(proto string) *config.URLBackendConfig {
		b := &config.URLBackendConfig{KeyFile: str("", "", "/k"), CertFile: str("", "", "/c"), CaFile: str("", "", "/ca")}
		if g.r.Chance(90) {
			u, err := url.Parse(str(proto+"://x:1/p", proto+"s://x:1", "ftp://x", "x", ""))
			if err != nil {
				panic(err)
			}
			b.BaseURL = u
		}
		return b
	}
	n := []int{0, 0, 1, 1, 1, 2, 3}[g.r.Intn(7)]
	for i := 0; i < n; i++ {
		switch g.r.Intn(5) {
		case 0:
			c.HTTPBackend = mkURL("http")
		case 1:
			c.GRPCBackend = mkURL("grpc")
		case 2:
			c.GoogleCloudStorage = &config.GoogleCloudStorageConfig{Bucket: str("b", "b", ""), UseDefaultCredentials: g.r.Chance(50)}
		case 3:
			s3 := &config.S3CloudStorageConfig{Bucket: str("b", ""), Endpoint: "e:1", AuthMethod: str("iam_role", "access_key", "aws_credentials_file", "", "x"),
				BucketLookupType: str("", "auto", "dns", "path", "x"), SignatureType: str("", "", "v2", "v4", "v4streaming", "anonymous", "v5"), MaxIdleConns: int(g.picki(0, 9))}
			if g.r.Chance(40) {
				kv := int(g.picki(2, 2, 1, 0))
				s3.KeyVersion = &kv
			}
			c.S3CloudStorage = s3
		default:
			c.AzBlobConfig = &config.AzBlobStorageConfig{StorageAccount: str("a", "a", ""), ContainerName: str("c", "c", ""), TenantID: str("", "t"),
				AuthMethod: str("shared_key", "client_secret", "client_certificate", "environment_credential", "default", "", "x")}
		}
	}
	if g.r.Chance(25) {
		c.LDAP = &config.LDAPConfig{URL: str("ldap://l", "ldap://l", ""), BaseDN: str("dc=x", "dc=x", ""), UsernameAttribute: str("", "uid", "cn"),
			CacheTime: time.Duration(g.picki(0, -1, 100, 3600))}
	}
	return c
}

func driver(seed uint64, n int, outV, outJSON string, _ []string) {
	initEnv()
	r := &Rng{S: seed}
	g := &gen{r}
	rep := NewReport("config", seed)
	rep.Rule = "settings = explicitly given keys (flag names) with typed values; valid ones built from listener / auth / TLS / backend / limits building blocks in shuffled key order, every invalid class applied on top of a fresh random valid setting, plus settings outside the commonly expressible class (omitted listeners) and random Config structs fed to validateConfig; a case is non-trivial when it has at least 4 keys or is an invalid-class / struct case; distinct = distinct case texts among those"
	var cases []string
	add := func(coq, text string, nontrivial bool) int {
		cases = append(cases, coq)
		rep.CaseTexts = append(rep.CaseTexts, text)
		if nontrivial {
			rep.DistinctCase(text)
		}
		if len(rep.Samples) < 4 && len(cases) > 4 {
			rep.Samples = append(rep.Samples, text)
		}
		return len(cases) - 1
	}

	// ---- the flag table as the running code has it
	var rows []string
	for _, f := range flagTable() {
		var es []string
		for _, e := range f.envs {
			es = append(es, CS(e))
		}
		rows = append(rows, fmt.Sprintf("(%s, GC.%s, GC.%s, %s)", CS(f.name), f.kind, f.dflt, CList(es)))
	}
	add("CTable "+CList(rows), "flag table", false)
	rep.Count("flag_table.rows:" + fmt.Sprint(len(rows)))

	// every front end on one setting; class: "valid" (oracle: all equal and accepted),
	// "invalid:<name>" (oracle: all refuse), "outside" (oracle: argv == env only)
	run := func(s setting, class string) {
		coq, a, e, y, envOK := runAll(s)
		text := class + " | " + s.String()
		idx := add(coq, text, len(s) >= 4 || strings.HasPrefix(class, "invalid"))
		rep.Evaluations += 3
		rep.Count("class." + strings.SplitN(class, ":", 2)[0])
		if !envOK {
			rep.Fail(idx, "a generated key has no environment variable", text)
		} else if d := sameOutcome(a, e); d != "" {
			rep.Fail(idx, "front ends disagree: argv vs environment: "+d, text)
		}
		switch {
		case class == "valid":
			if !a.ok() || !y.ok() {
				rep.Fail(idx, fmt.Sprintf("a valid setting is refused: flags: %v; yaml: %v", a.err, y.err), text)
			} else if d := sameOutcome(a, y); d != "" {
				rep.Fail(idx, "front ends disagree: flags vs YAML: "+d, text)
			}
			rep.Count("valid.accepted")
		case strings.HasPrefix(class, "invalid:"):
			if a.ok() || e.ok() || y.ok() {
				rep.Fail(idx, fmt.Sprintf("invalid class not refused (%s): argv accepted=%v env accepted=%v yaml accepted=%v", class[8:], a.ok(), e.ok(), y.ok()), text)
			}
			rep.Count("invalid." + class[8:])
		}
	}

	// ---- corpus: the cases that must be looked at on every run
	base := setting{{"dir", vs("/tmp/vc/cache")}, {"max_size", vi(5)}, {"port", vi(8080)}, {"grpc_port", vi(9092)}}
	{
		// known finding F19: --ldap.cache_time is read with ctx.Duration from an integer flag (ignored), YAML wants a duration
		s := append(append(setting{}, base...), kv{"ldap.url", vs("ldaps://ldap.example.com:636")}, kv{"ldap.base_dn", vs("OU=My Users,DC=example,DC=com")}, kv{"ldap.cache_time", vi(100)})
		coq, a, _, y, _ := runAll(s)
		text := "corpus ldap.cache_time | " + s.String()
		idx := add(coq, text, true)
		rep.Evaluations += 3
		ct := func(o outcome) string {
			if !o.ok() {
				return "refused (" + clean(o.err.Error()) + ")"
			}
			return fmt.Sprintf("accepted with CacheTime=%d", int64(o.c.LDAP.CacheTime))
		}
		if !(a.ok() && y.ok() && a.c.LDAP.CacheTime == 100 && y.c.LDAP.CacheTime == 100) {
			rep.Fail(idx, "front ends disagree: ldap.cache_time=100 is "+ct(a)+" by the flag and "+ct(y)+" in YAML", text)
		}
	}
	// profile_address "none" means "no profiling" in both syntaxes (fix 0656fd4)
	run(append(append(setting{}, base...), kv{"profile_address", vs("none")}), "valid")
	run(append(append(setting{}, base...), kv{"profile_address", vs("none")}, kv{"profile_port", vi(7070)}, kv{"profile_host", vs("localhost")}), "valid")
	// every scalar top-level key with a value of its own (two cases with complementary booleans): a flag
	// wired to the wrong field of the same type shows up here on every run
	for _, flip := range []bool{true, false} {
		run(append(append(setting{}, base...), kv{"storage_mode", vs("uncompressed")}, kv{"zstd_implementation", vs("cgo")},
			kv{"htpasswd_file", vs("/tmp/vc/htpasswd")}, kv{"min_tls_version", vs("1.2")}, kv{"tls_ca_file", vs("/tmp/vc/ca.pem")},
			kv{"tls_cert_file", vs("/tmp/vc/server.crt")}, kv{"tls_key_file", vs("/tmp/vc/server.key")},
			kv{"allow_unauthenticated_reads", vb(flip)}, kv{"idle_timeout", vd(45 * sec)}, kv{"http_read_timeout", vd(10 * sec)},
			kv{"http_write_timeout", vd(20 * sec)}, kv{"max_queued_uploads", vi(7)}, kv{"num_uploaders", vi(9)},
			kv{"max_size_hard_limit", vi(600)}, kv{"max_blob_size", vi(1001)}, kv{"max_proxy_blob_size", vi(1002)},
			kv{"access_log_level", vs("none")}, kv{"log_timezone", vs("local")}, kv{"profile_address", vs("127.0.0.1:7070")},
			kv{"disable_http_ac_validation", vb(flip)}, kv{"disable_grpc_ac_deps_check", vb(!flip)},
			kv{"enable_ac_key_instance_mangling", vb(flip)}, kv{"enable_endpoint_metrics", vb(!flip)},
			kv{"http_metrics_prefix", vb(flip)}, kv{"experimental_remote_asset_api", vb(!flip)}), "valid")
	}
	// the client certificate / CA of a proxy backend must arrive from YAML as from the flags (fix 46136e2)
	run(append(append(setting{}, base...), kv{"http_proxy.url", vs("https://cache.example.com:8080/cache")}, kv{"http_proxy.cert_file", vs("/tmp/vc/client.crt")},
		kv{"http_proxy.key_file", vs("/tmp/vc/client.key")}, kv{"http_proxy.ca_file", vs("/tmp/vc/ca.crt")}), "valid")
	run(append(append(setting{}, base...), kv{"grpc_proxy.url", vs("grpcs://remote:9092")}, kv{"grpc_proxy.key_file", vs("/tmp/vc/client.key")}), "invalid:proxy mTLS half-specified or without a TLS scheme")
	{
		// a section given without the flag that makes get() build it
		s := append(append(setting{}, base...), kv{"azblob.storage_account", vs("account")}, kv{"azblob.container_name", vs("container")},
			kv{"azblob.auth_method", vs("shared_key")}, kv{"azblob.shared_key", vs("a2V5")})
		coq, a, _, y, _ := runAll(s)
		text := "corpus azblob without tenant_id | " + s.String()
		idx := add(coq, text, true)
		rep.Evaluations += 3
		if a.ok() && y.ok() && (a.c.AzBlobConfig == nil) != (y.c.AzBlobConfig == nil) {
			rep.Fail(idx, fmt.Sprintf("front ends disagree: section without its trigger flag: azblob.* given without azblob.tenant_id (auth_method shared_key needs none): flags configure a backend=%v, YAML configures a backend=%v", a.c.AzBlobConfig != nil, y.c.AzBlobConfig != nil), text)
		}
	}
	// omitted keys whose defaults differ: only looked at, and compared with the model
	run(append(append(setting{}, base...), kv{"s3.bucket", vs("b")}, kv{"s3.endpoint", vs("e:9000")}, kv{"s3.auth_method", vs("iam_role")}), "outside")
	run(setting{{"dir", vs("/d")}, {"max_size", vi(1)}}, "outside")

	// ---- generated
	for len(cases) < n {
		switch p := r.Intn(100); {
		case p < 40:
			run(g.valid(), "valid")
		case p < 75:
			ic := invalidClasses[r.Intn(len(invalidClasses))]
			if r.Chance(70) {
				ic = invalidClasses[r.Intn(namedClasses)]
			}
			run(ic.mut(g, g.valid()), "invalid:"+ic.name)
		case p < 82:
			// outside the commonly expressible class: listener keys dropped, or a section key without its trigger
			s := g.valid()
			switch r.Intn(3) {
			case 0:
				s = s.without("http_address", "port")
			case 1:
				s = s.without("grpc_address", "grpc_port")
			default:
				s = s.without("profile_host", "profile_address").with("profile_port", vi(7071))
			}
			run(s, "outside")
		default:
			c := g.configStruct()
			term := coqStruct(reflect.ValueOf(*c))
			err := config.VerifValidate(c)
			text := "validateConfig | " + term
			add(fmt.Sprintf("CValidate %s\n  (%s)", term, observed(c, err)), text, true)
			rep.Evaluations++
			if err != nil {
				rep.Count("struct.refused")
			} else {
				rep.Count("struct.accepted")
			}
		}
	}

	serverCases(rep, g)

	rep.Cases = len(cases)
	WriteCases(outV, "Gen.Config Model.Config", "ccase", "case_ok", cases)
	rep.Write(outJSON)
}
