package main

import (
	"bufio"
	"fmt"
	"io"
	"os"
	"os/exec"
	"path/filepath"
	"strings"
	"sync"
	"time"

	. "verifharness/hlib"
)

// start the real binary with a setting; returns whether it came up (logged its HTTP listener and
// stayed alive) and the tail of its output
func startBinary(bin string, args []string, env []string) (bool, string) {
	cmd := exec.Command(bin, args...)
	cmd.Env = append([]string{"PATH=" + os.Getenv("PATH"), "HOME=" + os.Getenv("HOME")}, env...)
	pr, pw := io.Pipe()
	cmd.Stdout, cmd.Stderr = pw, pw
	if err := cmd.Start(); err != nil {
		return false, "cannot start: " + err.Error()
	}
	var mu sync.Mutex
	var lines []string
	up := make(chan bool, 1)
	go func() {
		sc := bufio.NewScanner(pr)
		sc.Buffer(make([]byte, 1<<20), 1<<20)
		for sc.Scan() {
			mu.Lock()
			lines = append(lines, sc.Text())
			mu.Unlock()
			if strings.Contains(sc.Text(), "Starting HTTP server on address") || strings.Contains(sc.Text(), "Starting HTTPS server on address") {
				select {
				case up <- true:
				default:
				}
			}
		}
	}()
	exited := make(chan struct{})
	go func() { _ = cmd.Wait(); _ = pw.Close(); close(exited) }()
	started := false
	select {
	case <-up:
		// it must also survive its other listeners (profiling, gRPC) coming up
		select {
		case <-exited:
		case <-time.After(2 * time.Second):
			started = true
		}
	case <-exited:
	case <-time.After(120 * time.Second):
	}
	select {
	case <-exited:
	default:
		_ = cmd.Process.Kill() // by PID
		<-exited
	}
	mu.Lock()
	defer mu.Unlock()
	tail := lines
	if len(tail) > 0 && !started {
		// the error is printed first, the usage text after it
		tail = tail[:1]
	} else if len(tail) > 3 {
		tail = tail[len(tail)-3:]
	}
	return started, clean(strings.Join(tail, " / "))
}

func serverCases(rep *Report, g *gen) {
	bin := filepath.Join(os.Getenv("VERIF_BUILD"), "bazel-remote")
	if rep.Seed%1000 != 0 {
		return // one shard starts servers
	}
	if _, err := os.Stat(bin); err != nil {
		rep.Count("server.binary_missing")
		return
	}
	tmp, err := os.MkdirTemp("", "verif-config-")
	if err != nil {
		panic(err)
	}
	defer os.RemoveAll(tmp)
	n := 0
	dir := func() string {
		n++
		d := filepath.Join(tmp, fmt.Sprintf("cache%d", n))
		_ = os.MkdirAll(d, 0755)
		return d
	}
	good := func() setting {
		return setting{{"dir", vs(dir())}, {"max_size", vi(1)}, {"http_address", vs("127.0.0.1:0")}, {"grpc_address", vs("none")}}
	}
	type sc struct {
		name    string
		s       setting
		how     string // argv, env, yaml
		want    int    // 1 starts, 0 refuses, -1 only observed
		inproc  func(setting) bool
		comment string
	}
	sock := func(name string) string { return "unix://" + filepath.Join(tmp, name) }
	list := []sc{
		{name: "valid", s: good().with("access_log_level", vs("none")), how: "argv", want: 1},
		{name: "valid", s: good().with("storage_mode", vs("uncompressed")), how: "env", want: 1},
		{name: "valid, profile_address none", s: good().with("profile_address", vs("none")), how: "yaml", want: 1},
		{name: "valid, profile_address none", s: good().with("profile_address", vs("none")), how: "argv", want: 1},
		{name: "valid, unix sockets", s: good().with("http_address", vs(sock("h.sock"))).with("grpc_address", vs(sock("g.sock"))), how: "yaml", want: 1},
		{name: "missing max_size", s: good().without("max_size"), how: "argv", want: 0},
		{name: "HTTP and gRPC on one TCP port", s: good().without("http_address", "grpc_address").with("port", vi(18080)).with("grpc_port", vi(18080)), how: "yaml", want: 0},
		{name: "half-specified TLS", s: good().with("tls_cert_file", vs("/nonexistent.crt")), how: "env", want: 0},
		{name: "unauthenticated reads without authentication", s: good().with("allow_unauthenticated_reads", vb(true)), how: "yaml", want: 0},
		{name: "s3 section without bucket_lookup_type", s: good().with("s3.bucket", vs("b")).with("s3.endpoint", vs("127.0.0.1:9")).with("s3.auth_method", vs("iam_role")), how: "yaml", want: -1},
	}
	for i, c := range list {
		var started bool
		var out string
		var in outcome
		switch c.how {
		case "argv":
			started, out = startBinary(bin, c.s.argv(), nil)
			cc, e := runArgv(c.s)
			in = outcome{cc, e}
		case "env":
			var env []string
			for _, e := range c.s {
				env = append(env, envOf[e.key]+"="+e.v.text())
			}
			started, out = startBinary(bin, nil, env)
			cc, e, _ := runEnv(c.s)
			in = outcome{cc, e}
		default:
			f := filepath.Join(tmp, fmt.Sprintf("config%d.yaml", i))
			_ = os.WriteFile(f, []byte(c.s.yamlText()), 0644)
			started, out = startBinary(bin, []string{"--config_file", f}, nil)
			cc, e := runYaml(c.s)
			in = outcome{cc, e}
		}
		rep.Evaluations++
		text := fmt.Sprintf("server %s via %s | %s | output: %s", c.name, c.how, c.s.String(), out)
		rep.Count(fmt.Sprintf("server.%s.started=%v", c.how, started))
		switch c.want {
		case 1:
			if !started {
				rep.Fail(-1, "the binary does not start with a valid setting ("+c.name+" via "+c.how+")", text)
			}
		case 0:
			if started {
				rep.Fail(-1, "the binary starts with an invalid setting ("+c.name+" via "+c.how+")", text)
			}
		default:
			rep.Count(fmt.Sprintf("server.observed.%s.started=%v", strings.ReplaceAll(c.name, " ", "_"), started))
			rep.Samples = append(rep.Samples, text)
		}
		if c.want >= 0 && in.ok() != started {
			rep.Fail(-1, fmt.Sprintf("get()/NewFromYaml in process accepted=%v but the binary started=%v (%s via %s)", in.ok(), started, c.name, c.how), text)
		}
	}
}
