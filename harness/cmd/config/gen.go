package main

import (
	"fmt"
	"math"

	. "verifharness/hlib"
)

// ---------------------------------------------------------------------------------------------
// generators: valid settings that both syntaxes express alike, and the invalid classes

type gen struct{ r *Rng }

func (g *gen) pick(xs ...string) string { return xs[g.r.Intn(len(xs))] }
func (g *gen) picki(xs ...int64) int64  { return xs[g.r.Intn(len(xs))] }

const sec = int64(1000000000)

// listeners: explicit in one of the spellings; returns the HTTP and gRPC TCP ports ("" = none)
func (g *gen) listeners(s setting) setting {
	hosts := []string{"", "localhost", "127.0.0.1", "0.0.0.0", "::1"}
	hport := int64(1024 + g.r.Intn(30000))
	gport := hport + 1 + int64(g.r.Intn(1000))
	host := hosts[g.r.Intn(len(hosts))]
	usesHost := false
	switch g.r.Intn(4) {
	case 0:
		s = append(s, kv{"http_address", vs(joinHP(g.pick(hosts...), hport))})
	case 1:
		s = append(s, kv{"http_address", vs("unix:///tmp/vc/http.sock")})
	default:
		if g.r.Chance(15) {
			hport = 0 // an explicit port 0 is legal in the deprecated form (ephemeral port)
		}
		s = append(s, kv{"port", vi(hport)})
		usesHost = true
	}
	switch g.r.Intn(6) {
	case 0:
		s = append(s, kv{"grpc_address", vs(joinHP(g.pick(hosts...), gport))})
	case 1:
		s = append(s, kv{"grpc_address", vs("none")})
	case 2:
		s = append(s, kv{"grpc_address", vs("unix:///tmp/vc/grpc.sock")})
	case 3:
		s = append(s, kv{"grpc_port", vi(0)})
	default:
		s = append(s, kv{"grpc_port", vi(gport)})
		usesHost = true
	}
	if usesHost && g.r.Chance(60) || g.r.Chance(10) {
		s = append(s, kv{"host", vs(host)})
	}
	switch g.r.Intn(8) {
	case 0:
		s = append(s, kv{"profile_address", vs("127.0.0.1:" + fmt.Sprint(gport+1))})
	case 1:
		s = append(s, kv{"profile_address", vs("none")})
	case 2:
		s = append(s, kv{"profile_port", vi(gport + 2)}, kv{"profile_host", vs(g.pick("127.0.0.1", "localhost", "", "::1"))})
	case 3:
		s = append(s, kv{"profile_address", vs("unix:///tmp/vc/prof.sock")})
	case 4:
		s = append(s, kv{"profile_port", vi(0)})
	}
	return s
}

func joinHP(h string, p int64) string {
	for _, c := range h {
		if c == ':' {
			return fmt.Sprintf("[%s]:%d", h, p)
		}
	}
	return fmt.Sprintf("%s:%d", h, p)
}

func (g *gen) urlBackend(s setting, name, scheme string) setting {
	secure := g.r.Chance(50)
	sch := scheme
	if secure {
		sch += "s"
	}
	s = append(s, kv{name + ".url", vs(sch + "://" + g.pick("cache.example.com", "10.0.0.7:8080", "user:pw@remote:9092") + g.pick("", "/cache", "/a/b"))})
	if secure {
		if g.r.Chance(50) {
			s = append(s, kv{name + ".cert_file", vs("/tmp/vc/client.crt")}, kv{name + ".key_file", vs("/tmp/vc/client.key")})
		}
		if g.r.Chance(50) {
			s = append(s, kv{name + ".ca_file", vs("/tmp/vc/ca.crt")})
		}
	}
	return s
}

func (g *gen) backend(s setting, which int) setting {
	switch which {
	case 1:
		s = g.urlBackend(s, "http_proxy", "http")
	case 2:
		s = g.urlBackend(s, "grpc_proxy", "grpc")
	case 3:
		s = append(s, kv{"gcs_proxy.bucket", vs("gcs-bucket")})
		if g.r.Chance(50) {
			s = append(s, kv{"gcs_proxy.use_default_credentials", vb(g.r.Chance(50))})
		}
		if g.r.Chance(50) {
			s = append(s, kv{"gcs_proxy.json_credentials_file", vs("/tmp/vc/creds.json")})
		}
	case 4:
		s = append(s, kv{"s3.bucket", vs("test-bucket")}, kv{"s3.endpoint", vs("minio.example.com:9000")},
			kv{"s3.bucket_lookup_type", vs(g.pick("auto", "dns", "path"))}, kv{"s3.aws_profile", vs(g.pick("default", "supercool"))})
		switch g.r.Intn(3) {
		case 0:
			s = append(s, kv{"s3.auth_method", vs("iam_role")})
			if g.r.Chance(50) {
				s = append(s, kv{"s3.iam_role_endpoint", vs("http://169.254.169.254")}, kv{"s3.region", vs("us-east-1")})
			}
		case 1:
			s = append(s, kv{"s3.auth_method", vs("access_key")}, kv{"s3.access_key_id", vs("EXAMPLE_ACCESS_KEY")}, kv{"s3.secret_access_key", vs("EXAMPLE_SECRET_KEY")})
			if g.r.Chance(50) {
				s = append(s, kv{"s3.signature_type", vs(g.pick("v2", "v4", "v4streaming", "anonymous"))})
			}
			if g.r.Chance(30) {
				s = append(s, kv{"s3.session_token", vs("TOKEN")})
			}
		default:
			s = append(s, kv{"s3.auth_method", vs("aws_credentials_file")}, kv{"s3.aws_shared_credentials_file", vs("/tmp/vc/aws")})
		}
		if g.r.Chance(40) {
			s = append(s, kv{"s3.prefix", vs("test-prefix")})
		}
		if g.r.Chance(40) {
			s = append(s, kv{"s3.disable_ssl", vb(g.r.Chance(50))})
		}
		if g.r.Chance(30) {
			s = append(s, kv{"s3.update_timestamps", vb(g.r.Chance(50))})
		}
		if g.r.Chance(30) {
			s = append(s, kv{"s3.max_idle_conns", vi(g.picki(0, 16, 1024))})
		}
	case 5:
		s = append(s, kv{"azblob.tenant_id", vs("tenant-1")}, kv{"azblob.storage_account", vs("account")}, kv{"azblob.container_name", vs("container")})
		switch g.r.Intn(4) {
		case 0:
			s = append(s, kv{"azblob.auth_method", vs("shared_key")}, kv{"azblob.shared_key", vs("a2V5")})
		case 1:
			s = append(s, kv{"azblob.auth_method", vs("client_secret")}, kv{"azblob.client_id", vs("client")}, kv{"azblob.client_secret", vs("secret")})
		case 2:
			s = append(s, kv{"azblob.auth_method", vs("client_certificate")}, kv{"azblob.client_id", vs("client")}, kv{"azblob.cert_path", vs("/tmp/vc/az.pem")})
		default:
			s = append(s, kv{"azblob.auth_method", vs(g.pick("default", "environment_credential"))})
		}
		if g.r.Chance(40) {
			s = append(s, kv{"azblob.prefix", vs("pfx")})
		}
		if g.r.Chance(30) {
			s = append(s, kv{"azblob.update_timestamps", vb(g.r.Chance(50))})
		}
	}
	return s
}

// auth: 0 none, 1 htpasswd, 2 mTLS, 3 ldap
func (g *gen) auth(s setting, which int, tls bool) setting {
	switch which {
	case 1:
		s = append(s, kv{"htpasswd_file", vs("/tmp/vc/htpasswd")})
	case 2:
		s = append(s, kv{"tls_ca_file", vs("/tmp/vc/ca.pem")})
		tls = true
	case 3:
		s = append(s, kv{"ldap.url", vs(g.pick("ldap://ldap.example.com", "ldaps://ldap.example.com:636"))}, kv{"ldap.base_dn", vs("OU=My Users,DC=example,DC=com")})
		if g.r.Chance(50) {
			s = append(s, kv{"ldap.username_attribute", vs(g.pick("sAMAccountName", "uid"))})
		}
		if g.r.Chance(50) {
			s = append(s, kv{"ldap.bind_user", vs("ldapuser")}, kv{"ldap.bind_password", vs("ldappassword")})
		}
		if g.r.Chance(30) {
			s = append(s, kv{"ldap.groups_query", vs("(memberOf=CN=bazel-users,OU=Groups)")})
		}
	}
	if tls {
		s = append(s, kv{"tls_cert_file", vs("/tmp/vc/server.crt")}, kv{"tls_key_file", vs("/tmp/vc/server.key")})
		if g.r.Chance(40) {
			s = append(s, kv{"min_tls_version", vs(g.pick("1.0", "1.1", "1.2", "1.3"))})
		}
	}
	if which != 0 && g.r.Chance(50) {
		s = append(s, kv{"allow_unauthenticated_reads", vb(g.r.Chance(70))})
	}
	return s
}

func (g *gen) valid() setting {
	s := setting{{"dir", vs(g.pick("/tmp/vc/cache", "/data", "relative/dir"))}, {"max_size", vi(int64(1 + g.r.Intn(500)))}}
	s = g.listeners(s)
	if g.r.Chance(40) {
		s = append(s, kv{"storage_mode", vs(g.pick("zstd", "uncompressed"))})
	}
	if g.r.Chance(30) {
		s = append(s, kv{"zstd_implementation", vs(g.pick("go", "cgo"))})
	}
	if g.r.Chance(40) {
		s = append(s, kv{"max_size_hard_limit", vi(g.picki(-1, 0, 5, 600))})
	}
	s = g.auth(s, g.r.Intn(4), g.r.Chance(30))
	if g.r.Chance(60) {
		s = g.backend(s, 1+g.r.Intn(5))
	}
	if g.r.Chance(30) {
		s = append(s, kv{"idle_timeout", vd(g.picki(0, 45*sec, 60*sec, 90*60*sec))})
	}
	if g.r.Chance(20) {
		s = append(s, kv{"http_read_timeout", vd(g.picki(10*sec, sec/2))})
	}
	if g.r.Chance(20) {
		s = append(s, kv{"http_write_timeout", vd(g.picki(20*sec, 0))})
	}
	for _, b := range []string{"disable_http_ac_validation", "disable_grpc_ac_deps_check", "enable_ac_key_instance_mangling", "enable_endpoint_metrics", "http_metrics_prefix"} {
		if g.r.Chance(20) {
			s = append(s, kv{b, vb(g.r.Chance(70))})
		}
	}
	if v, ok := s.get("grpc_address"); g.r.Chance(20) && !(ok && v.s == "none") {
		s = append(s, kv{"experimental_remote_asset_api", vb(g.r.Chance(70))})
	}
	if g.r.Chance(30) {
		s = append(s, kv{"access_log_level", vs(g.pick("none", "all"))})
	}
	if g.r.Chance(30) {
		s = append(s, kv{"log_timezone", vs(g.pick("UTC", "local", "none"))})
	}
	if g.r.Chance(30) {
		s = append(s, kv{"max_blob_size", vi(g.picki(1, 10485760, math.MaxInt64))})
	}
	if g.r.Chance(30) {
		s = append(s, kv{"max_proxy_blob_size", vi(g.picki(1, 10485760, math.MaxInt64))})
	}
	if g.r.Chance(25) {
		s = append(s, kv{"num_uploaders", vi(g.picki(0, 1, 100, 250))})
	}
	if g.r.Chance(25) {
		s = append(s, kv{"max_queued_uploads", vi(g.picki(0, 10, 1000000))})
	}
	// the order of keys must not matter
	for i := len(s) - 1; i > 0; i-- {
		j := g.r.Intn(i + 1)
		s[i], s[j] = s[j], s[i]
	}
	return s
}

type invalidClass struct {
	name string
	mut  func(g *gen, s setting) setting
}

var listenerKeys = []string{"http_address", "grpc_address", "host", "port", "grpc_port"}
var backendKeys = func() []string {
	var out []string
	for _, p := range []string{"http_proxy.", "grpc_proxy."} {
		for _, k := range []string{"url", "cert_file", "key_file", "ca_file"} {
			out = append(out, p+k)
		}
	}
	return out
}()

func dropPrefix(s setting, prefixes ...string) setting {
	var out setting
	for _, e := range s {
		drop := false
		for _, p := range prefixes {
			if len(e.key) >= len(p) && e.key[:len(p)] == p {
				drop = true
			}
		}
		if !drop {
			out = append(out, e)
		}
	}
	return out
}

func noAuth(s setting) setting {
	return dropPrefix(s, "htpasswd_file", "tls_ca_file", "ldap.")
}

var malformed = []string{"localhost", "8080", "1.2.3.4:80:90", "[::1", "[::1]", "::1:8080", "unix://", "host:80]", "a[b:1", "[::1]8080:1"}

var invalidClasses = []invalidClass{
	{"missing dir", func(g *gen, s setting) setting { return s.without("dir") }},
	{"empty dir", func(g *gen, s setting) setting { return s.with("dir", vs("")) }},
	{"missing max_size", func(g *gen, s setting) setting { return s.without("max_size") }},
	{"non-positive max_size", func(g *gen, s setting) setting { return s.with("max_size", vi(g.picki(0, -1, -100))) }},
	{"unknown storage_mode", func(g *gen, s setting) setting {
		return s.with("storage_mode", vs(g.pick("gzip", "ZSTD", "", "compressed")))
	}},
	{"unknown zstd_implementation", func(g *gen, s setting) setting {
		return s.with("zstd_implementation", vs(g.pick("c", "Go", "", "rust")))
	}},
	{"HTTP and gRPC on one TCP port", func(g *gen, s setting) setting {
		s = s.without(listenerKeys...)
		p := int64(1024 + g.r.Intn(60000))
		switch g.r.Intn(4) {
		case 0:
			return append(s, kv{"http_address", vs(joinHP("localhost", p))}, kv{"grpc_address", vs(joinHP("0.0.0.0", p))})
		case 1:
			return append(s, kv{"port", vi(p)}, kv{"grpc_port", vi(p)})
		case 2:
			return append(s, kv{"http_address", vs(joinHP("", p))}, kv{"grpc_port", vi(p)}, kv{"host", vs("::1")})
		}
		return append(s, kv{"port", vi(p)}, kv{"grpc_address", vs(joinHP("[::1]"[1:4], p))})
	}},
	{"half-specified TLS", func(g *gen, s setting) setting {
		s = s.without("tls_cert_file", "tls_key_file")
		if g.r.Chance(50) {
			return append(s, kv{"tls_cert_file", vs("/tmp/vc/server.crt")})
		}
		return append(s, kv{"tls_key_file", vs("/tmp/vc/server.key")})
	}},
	{"mTLS without server certificate", func(g *gen, s setting) setting {
		return append(s.without("tls_cert_file", "tls_key_file", "tls_ca_file"), kv{"tls_ca_file", vs("/tmp/vc/ca.pem")})
	}},
	{"unauthenticated reads without authentication", func(g *gen, s setting) setting {
		return noAuth(s).with("allow_unauthenticated_reads", vb(true))
	}},
	{"more than one proxy backend", func(g *gen, s setting) setting {
		s = dropPrefix(s, "http_proxy.", "grpc_proxy.", "gcs_proxy.", "s3.", "azblob.")
		a := 1 + g.r.Intn(5)
		b := 1 + (a+g.r.Intn(4))%5
		s = g.backend(g.backend(s, a), b)
		if g.r.Chance(30) {
			for c := 1; c <= 5; c++ {
				if c != a && c != b {
					return g.backend(s, c)
				}
			}
		}
		return s
	}},
	{"non-positive max_blob_size", func(g *gen, s setting) setting { return s.with("max_blob_size", vi(g.picki(0, -1, math.MinInt64))) }},
	{"non-positive max_proxy_blob_size", func(g *gen, s setting) setting {
		return s.with("max_proxy_blob_size", vi(g.picki(0, -1, math.MinInt64)))
	}},
	{"malformed http_address", func(g *gen, s setting) setting {
		return s.without("http_address", "port").with("http_address", vs(g.pick(malformed...)))
	}},
	{"malformed grpc_address", func(g *gen, s setting) setting {
		return s.without("grpc_address", "grpc_port").with("grpc_address", vs(g.pick(malformed...)))
	}},
	// further checks of validateConfig, not named in the property
	{"profile_address unix:// without path", func(g *gen, s setting) setting {
		return s.without("profile_address", "profile_port", "profile_host").with("profile_address", vs("unix://"))
	}},
	{"remote asset API without gRPC", func(g *gen, s setting) setting {
		return s.without("grpc_address", "grpc_port").with("grpc_address", vs("none")).with("experimental_remote_asset_api", vb(true))
	}},
	{"unknown access_log_level", func(g *gen, s setting) setting { return s.with("access_log_level", vs(g.pick("debug", "", "ALL"))) }},
	{"unknown log_timezone", func(g *gen, s setting) setting { return s.with("log_timezone", vs(g.pick("utc", "", "CET"))) }},
	{"proxy url with a foreign scheme", func(g *gen, s setting) setting {
		s = dropPrefix(s, "http_proxy.", "grpc_proxy.", "gcs_proxy.", "s3.", "azblob.")
		if g.r.Chance(50) {
			return append(s, kv{"http_proxy.url", vs(g.pick("ftp://x/y", "grpc://x", "x.example.com/cache"))})
		}
		return append(s, kv{"grpc_proxy.url", vs(g.pick("http://x:1", "x:9092"))})
	}},
	{"proxy mTLS half-specified or without a TLS scheme", func(g *gen, s setting) setting {
		s = dropPrefix(s, "http_proxy.", "grpc_proxy.", "gcs_proxy.", "s3.", "azblob.")
		switch g.r.Intn(3) {
		case 0:
			return append(s, kv{"http_proxy.url", vs("https://x/c")}, kv{"http_proxy.key_file", vs("/k")})
		case 1:
			return append(s, kv{"grpc_proxy.url", vs("grpc://x:1")}, kv{"grpc_proxy.key_file", vs("/k")}, kv{"grpc_proxy.cert_file", vs("/c")})
		}
		return append(s, kv{"http_proxy.url", vs("http://x/c")}, kv{"http_proxy.ca_file", vs("/ca")})
	}},
	{"invalid s3 / azblob / ldap section", func(g *gen, s setting) setting {
		switch g.r.Intn(6) {
		case 0:
			return g.backend(dropPrefix(s, "http_proxy.", "grpc_proxy.", "gcs_proxy.", "s3.", "azblob."), 4).with("s3.auth_method", vs(g.pick("", "password")))
		case 1:
			return g.backend(dropPrefix(s, "http_proxy.", "grpc_proxy.", "gcs_proxy.", "s3.", "azblob."), 4).with("s3.bucket_lookup_type", vs("virtual"))
		case 2:
			return g.backend(dropPrefix(s, "http_proxy.", "grpc_proxy.", "gcs_proxy.", "s3.", "azblob."), 4).with("s3.signature_type", vs("v3"))
		case 3:
			return g.backend(dropPrefix(s, "http_proxy.", "grpc_proxy.", "gcs_proxy.", "s3.", "azblob."), 5).with("azblob.auth_method", vs(g.pick("", "password")))
		case 4:
			return g.backend(dropPrefix(s, "http_proxy.", "grpc_proxy.", "gcs_proxy.", "s3.", "azblob."), 5).without("azblob.container_name")
		}
		return g.auth(noAuth(s).without("allow_unauthenticated_reads", "tls_cert_file", "tls_key_file", "min_tls_version"), 3, false).without("ldap.base_dn")
	}},
}

// how many of the classes are the ones the property names
const namedClasses = 15
