// Command config is the correspondence driver for C19 (configuration front ends).
//
// One PRNG generates settings (valid combinations; every invalid class on top of otherwise random
// valid settings; a few deliberately outside the class both syntaxes express alike).  Each is rendered
// as argv, as environment variables and as YAML text and run through the real code: the urfave/cli
// app built from flags.GetCliFlags with config.VerifGet (= get) as its action, and
// config.NewFromYaml.  validateConfig is also run directly on generated Config structs, and a
// handful of settings start the real binary.  The observed basic fields / error texts go into a Coq
// file where Model/Config.v's case_ok evaluates the model on the same settings; the direct oracle
// (argv == env == YAML field by field; an invalid class is an error in all three) runs here.
package main

import (
	"fmt"
	"io"
	"math"
	"net/url"
	"os"
	"reflect"
	"sort"
	"strings"
	"time"

	. "verifharness/hlib"

	"github.com/buchgr/bazel-remote/v2/config"
	"github.com/buchgr/bazel-remote/v2/utils/flags"
	"github.com/urfave/cli/v2"
)

func main() { Main("config", driver) }

// ---------------------------------------------------------------------------------------------
// settings

type val struct {
	k byte // 's' string, 'i' int, 'b' bool, 'd' duration (ns), 'l' float list (thousandths)
	s string
	i int64
	b bool
	l []int64
}

type kv struct {
	key string
	v   val
}

type setting []kv

func vs(s string) val  { return val{k: 's', s: s} }
func vi(i int64) val   { return val{k: 'i', i: i} }
func vb(b bool) val    { return val{k: 'b', b: b} }
func vd(ns int64) val  { return val{k: 'd', i: ns} }
func vl(l []int64) val { return val{k: 'l', l: l} }

func (s setting) get(k string) (val, bool) {
	for _, e := range s {
		if e.key == k {
			return e.v, true
		}
	}
	return val{}, false
}
func (s setting) without(keys ...string) setting {
	var out setting
	for _, e := range s {
		drop := false
		for _, k := range keys {
			if e.key == k {
				drop = true
			}
		}
		if !drop {
			out = append(out, e)
		}
	}
	return out
}
func (s setting) with(k string, v val) setting { return append(s.without(k), kv{k, v}) }

func (v val) coq() string {
	switch v.k {
	case 's':
		return "VS " + CS(v.s)
	case 'i':
		return "VI " + CZ(v.i)
	case 'b':
		return "VB " + CB(v.b)
	case 'd':
		return "VD " + CZ(v.i)
	}
	var xs []string
	for _, x := range v.l {
		xs = append(xs, CZ(x))
	}
	return "VL " + CList(xs)
}

// the textual form on the command line and in the environment
func (v val) text() string {
	switch v.k {
	case 's':
		return v.s
	case 'i':
		return fmt.Sprint(v.i)
	case 'b':
		return fmt.Sprint(v.b)
	case 'd':
		return time.Duration(v.i).String()
	}
	return "?"
}

func milli(x int64) string {
	s := fmt.Sprintf("%d.%03d", x/1000, x%1000)
	return strings.TrimSuffix(strings.TrimRight(s, "0"), ".")
}

func (v val) yaml() string {
	switch v.k {
	case 's':
		return fmt.Sprintf("%q", v.s)
	case 'd':
		return fmt.Sprintf("%q", time.Duration(v.i).String())
	case 'l':
		var xs []string
		for _, x := range v.l {
			xs = append(xs, milli(x))
		}
		return "[" + strings.Join(xs, ", ") + "]"
	}
	return v.text()
}

func (s setting) coq() string {
	var xs []string
	for _, e := range s {
		xs = append(xs, fmt.Sprintf("(%s, %s)", CS(e.key), e.v.coq()))
	}
	return CList(xs)
}

func (s setting) String() string {
	var xs []string
	for _, e := range s {
		xs = append(xs, e.key+"="+e.v.yaml())
	}
	return strings.Join(xs, " ")
}

func (s setting) argv() []string {
	var out []string
	for _, e := range s {
		out = append(out, "--"+e.key+"="+e.v.text())
	}
	return out
}

// the documented spelling of a setting in the YAML file: the flag name, with the s3. and azblob.
// groups under s3_proxy: and azblob_proxy:
func yamlPath(key string) []string {
	for _, p := range [][2]string{{"s3.", "s3_proxy"}, {"azblob.", "azblob_proxy"}, {"s3_proxy.", "s3_proxy"}, {"gcs_proxy.", "gcs_proxy"},
		{"http_proxy.", "http_proxy"}, {"grpc_proxy.", "grpc_proxy"}, {"ldap.", "ldap"}} {
		if strings.HasPrefix(key, p[0]) {
			return []string{p[1], key[len(p[0]):]}
		}
	}
	return []string{key}
}

func (s setting) yamlText() string {
	var top []string
	secs := map[string][]string{}
	var order []string
	for _, e := range s {
		p := yamlPath(e.key)
		if len(p) == 1 {
			top = append(top, p[0]+": "+e.v.yaml())
			continue
		}
		if _, ok := secs[p[0]]; !ok {
			order = append(order, p[0])
		}
		secs[p[0]] = append(secs[p[0]], "  "+p[1]+": "+e.v.yaml())
	}
	out := strings.Join(top, "\n") + "\n"
	for _, sec := range order {
		out += sec + ":\n" + strings.Join(secs[sec], "\n") + "\n"
	}
	return out
}

// ---------------------------------------------------------------------------------------------
// the real front ends

type flagRow struct {
	name, kind, dflt string
	envs             []string
}

func flagTable() []flagRow {
	var out []flagRow
	for _, f := range flags.GetCliFlags() {
		switch x := f.(type) {
		case *cli.StringFlag:
			out = append(out, flagRow{x.Name, "KString", "VS " + CS(x.Value), x.EnvVars})
		case *cli.IntFlag:
			out = append(out, flagRow{x.Name, "KInt", "VI " + CZ(int64(x.Value)), x.EnvVars})
		case *cli.Int64Flag:
			out = append(out, flagRow{x.Name, "KInt64", "VI " + CZ(x.Value), x.EnvVars})
		case *cli.BoolFlag:
			out = append(out, flagRow{x.Name, "KBool", "VB " + CB(x.Value), x.EnvVars})
		case *cli.DurationFlag:
			out = append(out, flagRow{x.Name, "KDuration", "VD " + CZ(int64(x.Value)), x.EnvVars})
		default:
			panic(fmt.Sprintf("flag of unexpected type %T", f))
		}
	}
	return out
}

var envOf = map[string]string{}
var allEnv []string

func initEnv() {
	for _, r := range flagTable() {
		if len(r.envs) > 0 {
			envOf[r.name] = r.envs[0]
		}
		allEnv = append(allEnv, r.envs...)
	}
	for _, e := range allEnv {
		_ = os.Unsetenv(e)
	}
}

func runCli(args []string) (*config.Config, error) {
	var cfg *config.Config
	var gerr error
	app := cli.NewApp()
	app.Flags = flags.GetCliFlags()
	app.Writer = io.Discard
	app.ErrWriter = io.Discard
	app.ExitErrHandler = func(*cli.Context, error) {}
	app.Action = func(ctx *cli.Context) error {
		cfg, gerr = config.VerifGet(ctx)
		return nil
	}
	if err := app.Run(append([]string{"bazel-remote"}, args...)); err != nil {
		return nil, fmt.Errorf("cli: %v", err)
	}
	return cfg, gerr
}

func runArgv(s setting) (*config.Config, error) { return runCli(s.argv()) }

func runEnv(s setting) (*config.Config, error, bool) {
	var set []string
	defer func() {
		for _, e := range set {
			_ = os.Unsetenv(e)
		}
	}()
	for _, e := range s {
		name, ok := envOf[e.key]
		if !ok {
			return nil, nil, false
		}
		_ = os.Setenv(name, e.v.text())
		set = append(set, name)
	}
	c, err := runCli(nil)
	return c, err, true
}

func runYaml(s setting) (*config.Config, error) { return config.NewFromYaml([]byte(s.yamlText())) }

// ---------------------------------------------------------------------------------------------
// projection of a Config: the non-zero basic fields in declaration order

type leaf struct {
	path string
	v    val
}

func flatten(pre string, x reflect.Value, out *[]leaf) {
	t := x.Type()
	for i := 0; i < t.NumField(); i++ {
		f := t.Field(i)
		tag := f.Tag.Get("yaml")
		if tag == "" {
			continue // ProxyBackend, TLSConfig, loggers
		}
		fv := x.Field(i)
		if strings.HasSuffix(tag, ",inline") {
			flatten(pre, fv, out)
			continue
		}
		p := pre + f.Name
		switch v := fv.Interface().(type) {
		case string:
			*out = append(*out, leaf{p, vs(v)})
		case int:
			*out = append(*out, leaf{p, vi(int64(v))})
		case int64:
			*out = append(*out, leaf{p, vi(v)})
		case bool:
			*out = append(*out, leaf{p, vb(v)})
		case time.Duration:
			*out = append(*out, leaf{p, vd(int64(v))})
		case []float64:
			if v != nil {
				var l []int64
				for _, b := range v {
					l = append(l, int64(math.Round(b*1000)))
				}
				*out = append(*out, leaf{p, vl(l)})
			}
		case *int:
			if v != nil {
				*out = append(*out, leaf{p, vi(int64(*v))})
			}
		case *url.URL:
			if v != nil {
				*out = append(*out, leaf{p, vs(v.String())})
			}
		default:
			if fv.Kind() == reflect.Ptr && fv.Type().Elem().Kind() == reflect.Struct {
				if !fv.IsNil() {
					*out = append(*out, leaf{p, vb(true)})
					flatten(p+".", fv.Elem(), out)
				}
				continue
			}
			panic("config field of unexpected type: " + p)
		}
	}
}

func isZero(v val) bool {
	switch v.k {
	case 's':
		return v.s == ""
	case 'i', 'd':
		return v.i == 0
	case 'b':
		return !v.b
	}
	return false
}

func flat(c *config.Config) []leaf {
	var all, out []leaf
	flatten("", reflect.ValueOf(*c), &all)
	for _, l := range all {
		if !isZero(l.v) {
			out = append(out, l)
		}
	}
	return out
}

func observed(c *config.Config, err error) string {
	if err != nil {
		return "OErr " + CS(clean(err.Error()))
	}
	var xs []string
	for _, l := range flat(c) {
		xs = append(xs, fmt.Sprintf("(%s, %s)", CS(l.path), l.v.coq()))
	}
	return "OOk " + CList(xs)
}

// error texts go into a Coq string literal: printable ASCII, one line, not too long
func clean(s string) string {
	var sb strings.Builder
	for _, r := range s {
		if r >= 32 && r < 127 {
			sb.WriteRune(r)
		} else {
			sb.WriteByte(' ')
		}
	}
	out := sb.String()
	if len(out) > 160 {
		out = out[:160]
	}
	return out
}

// the effective configuration as comparable text (max_size_hard_limit <= 0 is "no limit")
func effective(c *config.Config) map[string]string {
	m := map[string]string{}
	for _, l := range flat(c) {
		v := l.v
		if l.path == "MaxSizeHardLimit" && v.i < 0 {
			continue
		}
		m[l.path] = v.coq()
	}
	return m
}

func diffEff(a, b map[string]string) string {
	var ks []string
	for k := range a {
		ks = append(ks, k)
	}
	for k := range b {
		if _, ok := a[k]; !ok {
			ks = append(ks, k)
		}
	}
	sort.Strings(ks)
	var out []string
	for _, k := range ks {
		if a[k] != b[k] {
			out = append(out, fmt.Sprintf("%s: %s vs %s", k, orNone(a[k]), orNone(b[k])))
		}
	}
	return strings.Join(out, "; ")
}

func orNone(s string) string {
	if s == "" {
		return "(zero)"
	}
	return s
}
