// Command harness drives the bazel-remote implementation (built from /repo with -tags verif)
// on generated cases and writes (a) a Coq file in which the model is evaluated on the same
// cases and (b) a JSON report with the direct-oracle verdicts and the measured distribution.
package main

import (
	"encoding/json"
	"flag"
	"fmt"
	"os"
	"sort"
	"strings"
)

// ---- PRNG: every random choice derives from one splitmix64 state

type rng struct{ s uint64 }

func (r *rng) next() uint64 {
	r.s += 0x9e3779b97f4a7c15
	z := r.s
	z = (z ^ (z >> 30)) * 0xbf58476d1ce4e5b9
	z = (z ^ (z >> 27)) * 0x94d049bb133111eb
	return z ^ (z >> 31)
}
func (r *rng) intn(n int) int       { return int(r.next() % uint64(n)) }
func (r *rng) pick(xs []int64) int64 { return xs[r.intn(len(xs))] }
func (r *rng) chance(pct int) bool   { return r.intn(100) < pct }
func (r *rng) bytes(n int) []byte {
	b := make([]byte, n)
	for i := 0; i < n; i += 8 {
		v := r.next()
		for j := 0; j < 8 && i+j < n; j++ {
			b[i+j] = byte(v >> (8 * j))
		}
	}
	return b
}

// ---- report

type oracleFailure struct {
	Case int    `json:"case"`
	What string `json:"what"`
	Text string `json:"text"` // the case, human readable (the replay)
}

type report struct {
	Driver         string          `json:"driver"`
	Seed           uint64          `json:"seed"`
	Cases          int             `json:"cases"`
	Evaluations    int             `json:"evaluations"` // operations / requests executed
	Distinct       int             `json:"distinct_nontrivial"`
	Rule           string          `json:"rule"`
	Distribution   map[string]int  `json:"distribution"`
	OracleFailures []oracleFailure `json:"oracle_failures"`
	Samples        []string        `json:"samples"`
	CaseTexts      []string        `json:"case_texts"` // one line per case (for replays)
	distinctSet    map[string]bool
}

func newReport(driver string, seed uint64) *report {
	return &report{Driver: driver, Seed: seed, Distribution: map[string]int{}, distinctSet: map[string]bool{}}
}
func (r *report) count(k string)          { r.Distribution[k]++ }
func (r *report) distinct(canon string)   { r.distinctSet[canon] = true }
func (r *report) fail(c int, what, text string) {
	r.OracleFailures = append(r.OracleFailures, oracleFailure{c, what, text})
}
func (r *report) write(path string) {
	r.Distinct = len(r.distinctSet)
	if r.OracleFailures == nil {
		r.OracleFailures = []oracleFailure{}
	}
	b, _ := json.MarshalIndent(r, "", " ")
	if err := os.WriteFile(path, b, 0644); err != nil {
		panic(err)
	}
}

// ---- Coq term printing

func cz(n int64) string {
	if n < 0 {
		return fmt.Sprintf("(%d)", n)
	}
	return fmt.Sprintf("%d", n)
}
func cu(n uint64) string { return fmt.Sprintf("%d", n) }
func cs(s string) string { return "\"" + strings.ReplaceAll(s, "\"", "\"\"") + "\"" }
func cb(b bool) string {
	if b {
		return "true"
	}
	return "false"
}
func clist(xs []string) string { return "[" + strings.Join(xs, "; ") + "]" }

func sortedKeys(m map[string]int) []string {
	var ks []string
	for k := range m {
		ks = append(ks, k)
	}
	sort.Strings(ks)
	return ks
}

// writeCases writes the Coq file: imports, the list of cases of the given type, and the
// evaluation that prints the indices of mismatching cases.
func writeCases(path, imports, caseType, okFn string, cases []string) {
	var sb strings.Builder
	sb.WriteString("(* written by /verif/harness; evaluated by ./check *)\n")
	sb.WriteString("From BR Require Import Base.Prelude " + imports + ".\n")
	sb.WriteString("Open Scope string_scope.\nOpen Scope Z_scope.\n")
	sb.WriteString("Definition cases : list (" + caseType + ") := [\n")
	for i, c := range cases {
		sb.WriteString(c)
		if i < len(cases)-1 {
			sb.WriteString(";\n")
		}
	}
	sb.WriteString("\n].\n")
	sb.WriteString("Definition M := Eval vm_compute in false_positions 0 (map " + okFn + " cases).\nPrint M.\n")
	if err := os.WriteFile(path, []byte(sb.String()), 0644); err != nil {
		panic(err)
	}
}

type driverFn func(seed uint64, n int, outV, outJSON string, args []string)

var drivers = map[string]driverFn{}

func main() {
	if len(os.Args) < 2 {
		fmt.Fprintln(os.Stderr, "usage: harness <driver> -seed S -n N -out cases.v -json report.json")
		os.Exit(2)
	}
	d, ok := drivers[os.Args[1]]
	if !ok {
		fmt.Fprintln(os.Stderr, "unknown driver", os.Args[1])
		os.Exit(2)
	}
	fs := flag.NewFlagSet(os.Args[1], flag.ExitOnError)
	seed := fs.Uint64("seed", 1, "PRNG seed")
	n := fs.Int("n", 100, "number of cases")
	outV := fs.String("out", "cases.v", "Coq cases file")
	outJ := fs.String("json", "report.json", "JSON report")
	_ = fs.Parse(os.Args[2:])
	d(*seed, *n, *outV, *outJ, fs.Args())
}
