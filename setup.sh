#!/bin/sh
# Build everything the checks need, offline, from files on disk only.
cd "$(dirname "$0")" && exec python3 ./check --setup
