(* Base/Prelude.v — arithmetic with explicit Go wrap-around, results, small list helpers.
   Definitions and their characterising lemmas; no property theorems here. *)
From Coq Require Export List ZArith Lia Bool String Ascii.
From Coq Require Import ZifyBool.
Export ListNotations.
Open Scope Z_scope.

Ltac Zify.zify_post_hook ::= Z.div_mod_to_equations.

(* ------------------------------------------------------------------ *)
(* Go fixed-width integers: the value a Go expression of that type has *)

Definition two63 : Z := 9223372036854775808.
Definition two64 : Z := 18446744073709551616.
Definition two32 : Z := 4294967296.
Definition maxInt64 : Z := 9223372036854775807.

Definition wrap64 (z : Z) : Z := (z + two63) mod two64 - two63.   (* int64  *)
Definition wrapU64 (z : Z) : Z := z mod two64.                     (* uint64 *)
Definition wrapU32 (z : Z) : Z := z mod two32.                     (* uint32 *)

Definition in_i64 (z : Z) : Prop := - two63 <= z < two63.
Definition in_u32 (z : Z) : Prop := 0 <= z < two32.

Lemma wrap64_id z : in_i64 z -> wrap64 z = z.
Proof. unfold in_i64, wrap64, two63, two64. intros H. rewrite Z.mod_small; lia. Qed.

Lemma wrap64_range z : in_i64 (wrap64 z).
Proof. unfold in_i64, wrap64, two63, two64.
  pose proof (Z.mod_pos_bound (z + 9223372036854775808) 18446744073709551616). lia. Qed.

Lemma wrapU64_id z : 0 <= z < two64 -> wrapU64 z = z.
Proof. unfold wrapU64. intros; apply Z.mod_small; assumption. Qed.

Lemma wrapU32_id z : 0 <= z < two32 -> wrapU32 z = z.
Proof. unfold wrapU32. intros; apply Z.mod_small; assumption. Qed.

(* x & -2^k on mathematical integers *)
Lemma land_neg_pow2 x k : 0 <= k -> Z.land x (- 2 ^ k) = (x / 2 ^ k) * 2 ^ k.
Proof.
  intros Hk.
  assert (E : - 2 ^ k = Z.lnot (Z.ones k)).
  { rewrite Z.ones_equiv. unfold Z.lnot. lia. }
  rewrite E, <- Z.ldiff_land.
  rewrite Z.ldiff_ones_r by assumption.
  rewrite Z.shiftl_mul_pow2, Z.shiftr_div_pow2 by assumption. reflexivity.
Qed.

(* ------------------------------------------------------------------ *)
(* Outcomes of modelled Go functions *)

Inductive errc :=
| EBadRequest        (* http 400 / InvalidArgument *)
| ENotFound          (* miss *)
| EInsufficient      (* http 507 / ResourceExhausted *)
| EInternal          (* http 500 / Internal / Unknown *)
| EUnauth            (* 401 / Unauthenticated *)
| EOutOfRange
| EOther (n : Z).

Inductive result (A : Type) :=
| Ok (a : A)
| Err (e : errc)
| Panic (site : string)   (* the Go code would panic here *)
| Hang (site : string).   (* the Go code would spin / block forever here *)
Arguments Ok {A} a. Arguments Err {A} e. Arguments Panic {A} site. Arguments Hang {A} site.

Definition is_ok {A} (r : result A) : bool := match r with Ok _ => true | _ => false end.
Definition is_panic {A} (r : result A) : bool := match r with Panic _ => true | _ => false end.
Definition is_hang {A} (r : result A) : bool := match r with Hang _ => true | _ => false end.

Definition errc_eqb (a b : errc) : bool :=
  match a, b with
  | EBadRequest, EBadRequest | ENotFound, ENotFound | EInsufficient, EInsufficient
  | EInternal, EInternal | EUnauth, EUnauth | EOutOfRange, EOutOfRange => true
  | EOther x, EOther y => x =? y
  | _, _ => false
  end.

(* ------------------------------------------------------------------ *)
(* list helpers *)

Fixpoint sumZ {A} (f : A -> Z) (l : list A) : Z :=
  match l with [] => 0 | x :: t => f x + sumZ f t end.

Lemma sumZ_app {A} (f : A -> Z) l1 l2 : sumZ f (l1 ++ l2) = sumZ f l1 + sumZ f l2.
Proof. induction l1 as [|x t IH]; simpl; lia. Qed.

Lemma sumZ_nonneg {A} (f : A -> Z) l : (forall x, In x l -> 0 <= f x) -> 0 <= sumZ f l.
Proof. induction l as [|x t IH]; simpl; intros H; [lia|].
  assert (0 <= f x) by (apply H; left; reflexivity).
  assert (0 <= sumZ f t) by (apply IH; intros y Hy; apply H; right; exact Hy). lia. Qed.

Fixpoint list_eqb {A} (eqb : A -> A -> bool) (a b : list A) : bool :=
  match a, b with
  | [], [] => true
  | x :: a', y :: b' => eqb x y && list_eqb eqb a' b'
  | _, _ => false
  end.

Lemma list_eqb_spec {A} (eqb : A -> A -> bool) :
  (forall x y, eqb x y = true <-> x = y) ->
  forall a b, list_eqb eqb a b = true <-> a = b.
Proof.
  intros H a; induction a as [|x a IH]; intros [|y b]; simpl; split; intros E;
    try reflexivity; try discriminate.
  - apply andb_true_iff in E as [E1 E2]. apply H in E1. apply IH in E2. congruence.
  - inversion E; subst. apply andb_true_iff; split; [apply H; reflexivity|apply IH; reflexivity].
Qed.

(* positions of the [false] entries of a list of booleans: used to report mismatching cases *)
Fixpoint false_positions (n : nat) (l : list bool) : list nat :=
  match l with [] => [] | b :: t => (if b then [] else [n]) ++ false_positions (S n) t end.
