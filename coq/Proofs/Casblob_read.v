(* Proofs/Casblob_read.v — both readers deliver exactly data[offset:] on every file laid out as
   "header, then independently compressed chunk frames" whatever chunk size the header states and
   whichever encoder produced the frames (anything DecodeAll decodes), for every offset 0..n.
   The codec enters only through the framing laws (Section hypotheses). *)
From BR Require Import Base.Prelude Gen.Consts Gen.Funcs Model.Casblob
  Proofs.Casblob_le Proofs.Casblob_header Proofs.Casblob_lists Proofs.Casblob_nopanic.
Open Scope list_scope.
Open Scope Z_scope.

(* ------------------------------------------------------------------ *)
(* data cut into pieces of size c, the last one possibly shorter *)

Definition pieces_ok (c : Z) (ps : list (list Z)) : Prop :=
  ps <> [] /\
  (forall i, (S i < List.length ps)%nat -> zlen (nth i ps []) = c) /\
  0 < zlen (nth (List.length ps - 1) ps []) <= c.

Lemma concat_firstn_len (c : Z) (ps : list (list Z)) k :
  (forall i, (i < k)%nat -> zlen (nth i ps []) = c) -> (k <= List.length ps)%nat ->
  zlen (List.concat (firstn k ps)) = Z.of_nat k * c.
Proof.
  revert k; induction ps as [|p t IH]; intros k H Hk.
  - destruct k; [reflexivity|simpl in Hk; lia].
  - destruct k as [|k]; [reflexivity|].
    cbn [firstn List.concat]. rewrite zlen_app.
    pose proof (H 0%nat ltac:(lia)) as H0. cbn [nth] in H0. rewrite H0.
    rewrite IH; [lia| |simpl in Hk; lia].
    intros i Hi. apply (H (S i)). lia.
Qed.

Lemma concat_split_at {A} (ps : list (list A)) k :
  (k < List.length ps)%nat ->
  List.concat ps = List.concat (firstn k ps) ++ nth k ps [] ++ List.concat (skipn (S k) ps).
Proof.
  intros Hk. rewrite <- (firstn_skipn k ps) at 1. rewrite concat_app.
  rewrite concat_skipn_cons by exact Hk. reflexivity.
Qed.

Lemma zskipn_app_le {A} (a b : list A) m : 0 <= m <= zlen a -> zskipn m (a ++ b) = zskipn m a ++ b.
Proof.
  intros H. unfold zskipn. rewrite skipn_app.
  replace (Z.to_nat m - List.length a)%nat with 0%nat by (unfold zlen in H; lia). reflexivity.
Qed.

Lemma pieces_total c ps :
  pieces_ok c ps ->
  zlen (List.concat ps) = (Z.of_nat (List.length ps) - 1) * c + zlen (nth (List.length ps - 1) ps []).
Proof.
  intros (Hne & Hfull & Hlast).
  assert (HL : (0 < List.length ps)%nat) by (destruct ps; [congruence|simpl; lia]).
  rewrite (concat_split_at ps (List.length ps - 1)) at 1 by lia.
  replace (S (List.length ps - 1)) with (List.length ps) by lia.
  rewrite skipn_all, app_nil_r. cbn [List.concat]. rewrite zlen_app.
  rewrite (concat_firstn_len c) by (try lia; intros i Hi; apply Hfull; lia).
  replace (Z.of_nat (List.length ps - 1)) with (Z.of_nat (List.length ps) - 1) by lia. lia.
Qed.

(* data[off:] in terms of the piece containing off *)
Lemma skip_into_pieces c ps off :
  pieces_ok c ps -> 0 <= off <= zlen (List.concat ps) ->
  let k := Z.to_nat (off / c) in let m := off mod c in
  (k <= List.length ps)%nat /\
  (m <> 0 -> (k < List.length ps)%nat /\ m <= zlen (nth k ps [])) /\
  zskipn off (List.concat ps) = zskipn m (nth k ps []) ++ List.concat (skipn (S k) ps).
Proof.
  intros P Ho k m. pose proof (pieces_total c ps P) as Htot.
  destruct P as (Hne & Hfull & Hlast).
  assert (HL : (0 < List.length ps)%nat) by (destruct ps; [congruence|simpl; lia]).
  assert (Hc : 0 < c) by lia.
  set (L := List.length ps) in *.
  pose proof (Z.div_mod off c ltac:(lia)) as E1. pose proof (Z.mod_pos_bound off c Hc) as B1.
  assert (Hq0 : 0 <= off / c) by (apply Z.div_pos; lia).
  fold m in E1, B1.
  assert (Hk : Z.of_nat k = off / c) by (unfold k; lia).
  assert (HkL : (k <= L)%nat) by nia.
  split; [exact HkL|].
  assert (Hm : m <> 0 -> (k < L)%nat /\ m <= zlen (nth k ps [])).
  { intros Hm. assert (k < L)%nat by nia. split; [assumption|].
    destruct (Nat.eq_dec k (L - 1)) as [->|Hne'].
    - nia.
    - rewrite Hfull by lia. lia. }
  split; [exact Hm|].
  destruct (Nat.eq_dec k L) as [HkE|HkN].
  - (* off = n: nothing left *)
    assert (m = 0) by nia.
    rewrite zskipn_all by nia.
    rewrite nth_overflow by lia. rewrite skipn_all2 by lia. subst m. rewrite H. reflexivity.
  - assert (Hlt : (k < L)%nat) by lia.
    assert (Hmk : m <= zlen (nth k ps [])).
    { destruct (Z.eq_dec m 0) as [->|Hm0]; [apply zlen_nonneg|apply Hm; exact Hm0]. }
    rewrite (concat_split_at ps k) at 1 by exact Hlt.
    replace off with (Z.of_nat k * c + m) by nia.
    rewrite zskipn_add by nia.
    rewrite zskipn_app_exact
      by (apply concat_firstn_len; [intros i Hi; apply Hfull; lia|lia]).
    apply zskipn_app_le. lia.
Qed.

Lemma Forall2_len {A B} (R : A -> B -> Prop) a b : Forall2 R a b -> List.length a = List.length b.
Proof. induction 1; simpl; congruence. Qed.

Lemma Forall2_skipn {A B} (R : A -> B -> Prop) a b k :
  Forall2 R a b -> Forall2 R (skipn k a) (skipn k b).
Proof.
  intros H; revert k; induction H; intros [|k]; simpl; try constructor; auto.
Qed.

Lemma Forall2_nth {A B} (R : A -> B -> Prop) a b k da db :
  Forall2 R a b -> (k < List.length a)%nat -> R (nth k a da) (nth k b db).
Proof.
  intros H; revert k; induction H; intros [|k] Hk; simpl in *; try lia; auto. apply IHForall2. lia.
Qed.

Lemma zsum_firstn_S (l : list Z) k :
  (k < List.length l)%nat -> zsum (firstn (S k) l) = zsum (firstn k l) + nth k l 0.
Proof.
  revert k; induction l as [|x t IH]; intros k Hk; [simpl in Hk; lia|].
  destruct k as [|k].
  - unfold zsum; simpl. lia.
  - cbn [nth]. change (firstn (S (S k)) (x :: t)) with (x :: firstn (S k) t).
    change (firstn (S k) (x :: t)) with (x :: firstn k t).
    change (zsum (x :: firstn (S k) t)) with (x + zsum (firstn (S k) t)).
    change (zsum (x :: firstn k t)) with (x + zsum (firstn k t)).
    rewrite IH by (simpl in Hk; lia). lia.
Qed.

Lemma zsum_firstn_nonneg (frames : list (list Z)) k : 0 <= zsum (firstn k (map zlen frames)).
Proof.
  apply sumZ_nonneg. intros x Hx. apply in_firstn in Hx.
  apply in_map_iff in Hx as (y & <- & _). apply zlen_nonneg.
Qed.

(* ------------------------------------------------------------------ *)
Section ReadProofs.
Variables enc enc_stream : list Z -> list Z.
Variables dec_all dec_stream : list Z -> option (list Z).

(* framing laws of the zstd codec *)
Hypothesis dec_enc : forall x, dec_all (enc x) = Some x.
Hypothesis stream_frame : forall f p r,
  dec_all f = Some p -> dec_stream (f ++ r) = option_map (app p) (dec_stream r).
Hypothesis stream_nil : dec_stream [] = Some [].
Hypothesis stream_skippable : forall l n,
  skippable_len l = Some n -> dec_stream l = dec_stream (zskipn n l).

Definition frames_decode (frames ps : list (list Z)) : Prop :=
  Forall2 (fun f p => dec_all f = Some p) frames ps.

Lemma dec_stream_concat frames ps :
  frames_decode frames ps -> dec_stream (List.concat frames) = Some (List.concat ps).
Proof using stream_frame stream_nil.
  try clear dec_enc; try clear stream_skippable; try clear enc; try clear enc_stream; try clear dec_stream; idtac.
 
  induction 1 as [|f p fs ps' Hfp _ IH]; [exact stream_nil|].
  cbn [List.concat]. rewrite (stream_frame f p _ Hfp), IH. reflexivity.
Qed.




(* an encoder never produces an empty frame for a non-empty chunk (consequence of the laws) *)
Lemma frame_nonempty f p : dec_all f = Some p -> p <> [] -> f <> [].
Proof using stream_frame stream_nil.
  try clear dec_enc; try clear stream_skippable; try clear enc; try clear enc_stream; try clear dec_stream; idtac.
 
  intros Hd Hp ->. pose proof (stream_frame [] p [] Hd) as H.
  cbn [app] in H. rewrite stream_nil in H. cbn in H. inversion H as [E].
  rewrite app_nil_r in E. symmetry in E. contradiction.
Qed.

(* the layout every reader theorem is about *)
Record layout (file : list Z) (h : header) (frames ps : list (list Z)) : Prop := mkLayout {
  lay_parse : parse_header file = Ok h;
  lay_comp : h_comp h = Zstandard;
  lay_file : exists hd, file = hd ++ List.concat frames /\ zlen hd = after_header h;
  lay_offs : h_offs h = offsets_from (after_header h) (map zlen frames);
  lay_dec : frames_decode frames ps;
  lay_pieces : pieces_ok (h_chunk h) ps;
  lay_size : h_usize h = zlen (List.concat ps);
  lay_alloc : zlen file <= maxAlloc }.



Section WithLayout.
Variables (file : list Z) (h : header) (frames ps : list (list Z)).
Hypothesis LAY : layout file h frames ps.

Local Notation c := (h_chunk h).
Local Notation L := (List.length ps).

Lemma lay_len_frames : List.length frames = L.
Proof using LAY.
  try clear dec_enc; try clear stream_frame; try clear stream_nil; try clear stream_skippable; try clear enc; try clear enc_stream; try clear dec_stream; idtac.
  apply (Forall2_len _ _ _ (lay_dec _ _ _ _ LAY)). Qed.

Lemma lay_len_offs : zlen (h_offs h) = Z.of_nat L + 1.
Proof using LAY.
  try clear dec_enc; try clear stream_frame; try clear stream_nil; try clear stream_skippable; try clear enc; try clear enc_stream; try clear dec_stream; idtac.
 
  rewrite (lay_offs _ _ _ _ LAY). unfold zlen. rewrite offsets_from_length, map_length, lay_len_frames. lia.
Qed.

Lemma lay_c_pos : 0 < c.
Proof using LAY.
  try clear dec_enc; try clear stream_frame; try clear stream_nil; try clear stream_skippable; try clear enc; try clear enc_stream; try clear dec_stream; idtac.
  destruct (lay_pieces _ _ _ _ LAY) as (_ & _ & H). lia. Qed.

Lemma lay_nth_off k :
  (k <= L)%nat ->
  nth k (h_offs h) 0 = after_header h + zsum (firstn k (map zlen frames)).
Proof using LAY.
  try clear dec_enc; try clear stream_frame; try clear stream_nil; try clear stream_skippable; try clear enc; try clear enc_stream; try clear dec_stream; idtac.
 
  intros Hk. rewrite (lay_offs _ _ _ _ LAY) at 1.
  apply offsets_from_nth. rewrite map_length, lay_len_frames. exact Hk.
Qed.

Lemma lay_skip k :
  (k <= L)%nat ->
  zskipn (after_header h + zsum (firstn k (map zlen frames))) file = List.concat (skipn k frames).
Proof using LAY.
  try clear dec_enc; try clear stream_frame; try clear stream_nil; try clear stream_skippable; try clear enc; try clear enc_stream; try clear dec_stream; idtac.
 
  intros Hk. destruct (lay_file _ _ _ _ LAY) as (hd & Hfile & Hhd). rewrite Hfile.
  rewrite zskipn_add; [|rewrite <- Hhd; apply zlen_nonneg|apply zsum_firstn_nonneg].
  rewrite zskipn_app_exact by exact Hhd.
  apply skipn_concat_frames. rewrite lay_len_frames. exact Hk.
Qed.

Lemma lay_seek off :
  0 <= off -> (Z.to_nat (off / c) <= L)%nat ->
  seek_chunk file h off = Ok (off / c, off mod c, List.concat (skipn (Z.to_nat (off / c)) frames)).
Proof using LAY.
  try clear dec_enc; try clear stream_frame; try clear stream_nil; try clear stream_skippable; try clear enc; try clear enc_stream; try clear dec_stream; idtac.
 
  intros Ho Hk. pose proof lay_c_pos as Hc.
  assert (Hq0 : 0 <= off / c) by (apply Z.div_pos; lia).
  unfold seek_chunk, go_quot, go_rem. replace (c =? 0) with false by lia. cbn [bind].
  destruct (quot_rem_nonneg off c) as [Eq Er]; try lia. rewrite Eq, Er.
  assert (Hpos : (if off / c >? 0 then idx (h_offs h) (off / c) else Ok (after_header h)) =
                 Ok (after_header h + zsum (firstn (Z.to_nat (off / c)) (map zlen frames)))).
  { destruct (off / c >? 0) eqn:Eg.
    - rewrite idx_ok by (rewrite lay_len_offs; lia). rewrite lay_nth_off by exact Hk. reflexivity.
    - assert (E0 : off / c = 0) by lia. rewrite E0. simpl. unfold zsum; simpl. f_equal. lia. }
  rewrite Hpos. cbn [bind].
  assert (0 <= after_header h) by (unfold after_header, chunkTableOffset; pose proof (zlen_nonneg (h_offs h)); lia).
  pose proof (zsum_firstn_nonneg frames (Z.to_nat (off / c))).
  replace (_ <? 0) with false by lia.
  rewrite lay_skip by exact Hk. reflexivity.
Qed.

Lemma lay_first_chunk k m :
  (k < L)%nat -> 0 < m <= zlen (nth k ps []) ->
  read_first_chunk dec_all h (Z.of_nat k) m (List.concat (skipn k frames)) =
  Ok (zskipn m (nth k ps []), List.concat (skipn (S k) frames)).
Proof using LAY.
  try clear dec_enc; try clear stream_frame; try clear stream_nil; try clear stream_skippable; try clear enc; try clear enc_stream; try clear dec_stream; idtac.
 
  intros Hk Hm. unfold read_first_chunk.
  rewrite !idx_ok by (rewrite lay_len_offs; lia). cbn [bind].
  replace (Z.to_nat (Z.of_nat k + 1)) with (S k) by lia. rewrite Nat2Z.id.
  rewrite !lay_nth_off by lia.
  rewrite zsum_firstn_S by (rewrite map_length, lay_len_frames; exact Hk).
  change (nth k (map zlen frames) 0) with (nth k (map zlen frames) (zlen (@nil Z))).
  rewrite map_nth.
  match goal with |- context [go_make ?x 1] => replace x with (zlen (nth k frames [])) by lia end.
  rewrite concat_skipn_cons by (rewrite lay_len_frames; exact Hk).
  (* the chunk is part of the file *)
  assert (Hle : zlen (nth k frames []) <= zlen file).
  { destruct (lay_file _ _ _ _ LAY) as (hd & Hfile & _). rewrite Hfile.
    rewrite (concat_split_at frames k) by (rewrite lay_len_frames; exact Hk).
    rewrite !zlen_app.
    pose proof (zlen_nonneg hd). pose proof (zlen_nonneg (List.concat (firstn k frames))).
    pose proof (zlen_nonneg (List.concat (skipn (S k) frames))). lia. }
  unfold go_make. pose proof (zlen_nonneg (nth k frames [])) as Hnn.
  pose proof (lay_alloc _ _ _ _ LAY).
  replace ((zlen (nth k frames []) <? 0) || (zlen (nth k frames []) * 1 >? maxAlloc)) with false by lia.
  cbn [bind]. rewrite zlen_app.
  pose proof (zlen_nonneg (List.concat (skipn (S k) frames))).
  replace (_ <? zlen (nth k frames [])) with false by lia.
  rewrite zfirstn_app_exact by reflexivity.
  rewrite zskipn_app_exact by reflexivity.
  assert (Hd : dec_all (nth k frames []) = Some (nth k ps [])).
  { apply (Forall2_nth _ _ _ k [] [] (lay_dec _ _ _ _ LAY)). rewrite lay_len_frames; exact Hk. }
  rewrite Hd.
  replace (m >? zlen (nth k ps [])) with false by lia.
  replace (m <? 0) with false by lia. reflexivity.
Qed.

Lemma lay_first_chunk_z q m :
  0 <= q -> (Z.to_nat q < L)%nat -> 0 < m <= zlen (nth (Z.to_nat q) ps []) ->
  read_first_chunk dec_all h q m (List.concat (skipn (Z.to_nat q) frames)) =
  Ok (zskipn m (nth (Z.to_nat q) ps []), List.concat (skipn (S (Z.to_nat q)) frames)).
Proof using LAY.
  try clear dec_enc; try clear stream_frame; try clear stream_nil; try clear stream_skippable; try clear enc; try clear enc_stream; try clear dec_stream; idtac.
 
  intros Hq Hk Hm. rewrite <- (lay_first_chunk (Z.to_nat q) m Hk Hm).
  rewrite Z2Nat.id by exact Hq. reflexivity.
Qed.

Lemma lay_stream_rest k :
  dec_stream (List.concat (skipn k frames)) = Some (List.concat (skipn k ps)).
Proof using LAY stream_frame stream_nil.
  try clear dec_enc; try clear stream_skippable; try clear enc; try clear enc_stream; try clear dec_stream; idtac.
  apply dec_stream_concat. apply Forall2_skipn. apply (lay_dec _ _ _ _ LAY). Qed.

Lemma lay_open e : e = -1 \/ e = h_usize h -> open_blob file e = Ok h.
Proof using LAY.
  try clear dec_enc; try clear stream_frame; try clear stream_nil; try clear stream_skippable; try clear enc; try clear enc_stream; try clear dec_stream; idtac.
 
  intros He. unfold open_blob. rewrite (lay_parse _ _ _ _ LAY). cbn [bind].
  destruct He as [->| ->]; [reflexivity|]. rewrite Z.eqb_refl. cbn [negb andb].
  rewrite andb_false_r. reflexivity.
Qed.

Lemma lay_not_identity : (h_comp h =? Identity) = false /\ (h_comp h =? Zstandard) = true.
Proof using LAY.
  try clear dec_enc; try clear stream_frame; try clear stream_nil; try clear stream_skippable; try clear enc; try clear enc_stream; try clear dec_stream; idtac.
  rewrite (lay_comp _ _ _ _ LAY). split; reflexivity. Qed.

Theorem uncompressed_reader_layout e off :
  e = -1 \/ e = h_usize h -> 0 <= off <= h_usize h ->
  uncompressed_reader dec_all dec_stream file e off = Ok (zskipn off (List.concat ps)).
Proof using LAY stream_frame stream_nil.
  try clear dec_enc; try clear stream_skippable; try clear enc; try clear enc_stream; try clear dec_stream; idtac.
 
  intros He Ho. rewrite (lay_size _ _ _ _ LAY) in Ho.
  destruct (skip_into_pieces c ps off (lay_pieces _ _ _ _ LAY) Ho) as (HkL & Hm & Hskip).
  unfold uncompressed_reader. rewrite (lay_open e He). cbn [bind].
  destruct lay_not_identity as [-> ->]. cbn [negb].
  rewrite lay_seek by (try lia; exact HkL). cbn [bind].
  pose proof lay_c_pos as Hc.
  assert (Hq0 : 0 <= off / c) by (apply Z.div_pos; lia).
  destruct (off mod c =? 0) eqn:Em.
  - rewrite lay_stream_rest. rewrite Hskip. f_equal.
    replace (off mod c) with 0 by lia. rewrite zskipn_0.
    destruct (Nat.eq_dec (Z.to_nat (off / c)) L) as [E|N].
    + rewrite E. rewrite nth_overflow by lia.
      rewrite !skipn_all2 by lia. reflexivity.
    + apply concat_skipn_cons. lia.
  - destruct (Hm ltac:(lia)) as [Hlt Hmk].
    pose proof (Z.mod_pos_bound off c Hc).
    rewrite lay_first_chunk_z by (try exact Hlt; lia). cbn [bind].
    rewrite lay_len_offs. rewrite Hskip.
    destruct (off / c =? Z.of_nat L + 1 - 2) eqn:El.
    + replace (S (Z.to_nat (off / c))) with L by lia.
      rewrite skipn_all2 by lia. cbn [List.concat]. rewrite app_nil_r. reflexivity.
    + rewrite lay_stream_rest. reflexivity.
Qed.

Lemma lay_skippable : skippable_len file = Some (after_header h).
Proof using LAY.
  try clear dec_enc; try clear stream_frame; try clear stream_nil; try clear stream_skippable; try clear enc; try clear enc_stream; try clear dec_stream; idtac.
 
  pose proof (parse_header_facts _ _ (lay_parse _ _ _ _ LAY)) as F.
  unfold skippable_len. rewrite (hf_magic _ _ F), (hf_frame _ _ F).
  pose proof (hf_small _ _ F). pose proof (hf_fit _ _ F).
  unfold chunkTableOffset, skippableFrameMagicNumber in *.
  replace (zlen file >=? 8) with true by lia. cbn [andb Z.leb Z.compare Pos.compare Pos.compare_cont].
  replace (8 + (after_header h - 8)) with (after_header h) by lia.
  replace (after_header h <=? zlen file) with true by lia. reflexivity.
Qed.

Theorem zstd_reader_layout e off :
  e = -1 \/ e = h_usize h -> 0 <= off <= h_usize h ->
  exists out, zstd_reader enc enc_stream dec_all file e off = Ok out /\
              dec_stream out = Some (zskipn off (List.concat ps)).
Proof using LAY dec_enc stream_frame stream_nil stream_skippable.
   try clear enc; try clear enc_stream; try clear dec_stream; idtac.
 
  intros He Ho. rewrite (lay_size _ _ _ _ LAY) in Ho.
  destruct (skip_into_pieces c ps off (lay_pieces _ _ _ _ LAY) Ho) as (HkL & Hm & Hskip).
  unfold zstd_reader. rewrite (lay_open e He). cbn [bind].
  destruct lay_not_identity as [-> ->]. cbn [negb].
  destruct (off =? 0) eqn:E0.
  - (* the whole file, header included: the header is a skippable frame *)
    exists file. split; [reflexivity|].
    rewrite (stream_skippable _ _ lay_skippable).
    replace (after_header h) with (after_header h + zsum (firstn 0 (map zlen frames)))
      by (unfold zsum; simpl; lia).
    rewrite lay_skip by lia. rewrite (lay_stream_rest 0). f_equal.
    replace off with 0 by lia. reflexivity.
  - rewrite lay_seek by (try lia; exact HkL). cbn [bind].
    pose proof lay_c_pos as Hc.
    assert (Hq0 : 0 <= off / c) by (apply Z.div_pos; lia).
    destruct (off mod c =? 0) eqn:Em.
    + eexists; split; [reflexivity|]. rewrite lay_stream_rest, Hskip. f_equal.
      replace (off mod c) with 0 by lia. rewrite zskipn_0.
      destruct (Nat.eq_dec (Z.to_nat (off / c)) L) as [E|N].
      * rewrite E. rewrite nth_overflow by lia.
        rewrite !skipn_all2 by lia. reflexivity.
      * apply concat_skipn_cons. lia.
    + destruct (Hm ltac:(lia)) as [Hlt Hmk].
      pose proof (Z.mod_pos_bound off c Hc).
      rewrite lay_first_chunk_z by (try exact Hlt; lia). cbn [bind].
      rewrite lay_len_offs. rewrite Hskip.
      destruct (off / c =? Z.of_nat L + 1 - 2) eqn:El.
      * eexists; split; [reflexivity|].
        replace (S (Z.to_nat (off / c))) with L by lia.
        rewrite skipn_all2 by lia. cbn [List.concat]. rewrite app_nil_r.
        rewrite <- (app_nil_r (enc _)).
        rewrite (stream_frame _ _ [] (dec_enc _)), stream_nil. cbn. rewrite app_nil_r. reflexivity.
      * eexists; split; [reflexivity|].
        rewrite (stream_frame _ _ _ (dec_enc _)), lay_stream_rest. reflexivity.
Qed.

End WithLayout.
End ReadProofs.
