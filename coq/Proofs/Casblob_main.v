(* Proofs/Casblob_main.v — the statements Properties/C02.v and C20.v export, assembled from the
   writer, reader and conformance lemmas; the toy codec as a witness that the codec laws are
   satisfiable. *)
From BR Require Import Base.Prelude Gen.Consts Gen.Funcs Model.Casblob Model.FormatSpec
  Proofs.Casblob_le Proofs.Casblob_header Proofs.Casblob_lists Proofs.Casblob_nopanic
  Proofs.Casblob_read Proofs.Casblob_write Proofs.Casblob_spec Proofs.Casblob_conform
  Proofs.Casblob_toy.
Open Scope list_scope.
Open Scope Z_scope.

Lemma toy_codec_laws : codec_laws toy_enc toy_dec_all toy_dec_stream.
Proof.
  constructor.
  - exact toy_dec_enc.
  - exact toy_stream_frame.
  - exact toy_stream_nil.
  - exact toy_stream_skippable.
Qed.

(* any conformant file, any chunk size, any encoder: both readers deliver data[off:] *)
Theorem reader_total_on_spec :
  forall (enc enc_stream : list Z -> list Z) (dec_all dec_stream : list Z -> option (list Z)),
    codec_laws enc dec_all dec_stream ->
  forall (file data : list Z) (e off : Z),
    conformant dec_all file data -> zlen file <= maxAlloc ->
    e = -1 \/ e = zlen data -> 0 <= off <= zlen data ->
    uncompressed_reader dec_all dec_stream file e off = Ok (zskipn off data) /\
    exists out, zstd_reader enc enc_stream dec_all file e off = Ok out /\
                dec_stream out = Some (zskipn off data).
Proof.
  intros enc enc_stream dec_all dec_stream [L1 L2 L3 L4] file data e off Hc Ha He Ho.
  destruct (conformant_layout dec_all file data Hc Ha) as (h & frames & ps & LAY & Hcat & Hsz).
  rewrite <- Hsz in He, Ho. rewrite <- Hcat. split.
  - apply (uncompressed_reader_layout dec_all dec_stream L2 L3 file h frames ps LAY e off He Ho).
  - apply (zstd_reader_layout enc enc_stream dec_all dec_stream L1 L2 L3 L4 file h frames ps LAY e off He Ho).
Qed.

(* write, then read at any offset through either reader *)
Theorem roundtrip :
  forall (enc enc_stream : list Z -> list Z) (dec_all dec_stream : list Z -> option (list Z))
         (hashok : list Z -> bool),
    codec_laws enc dec_all dec_stream ->
  forall (c : Z) (data : list Z) (ends : bool) (size ret : Z) (file : list Z) (e off : Z),
    0 < c < two32 -> in_i64 size ->
    write_and_close enc hashok c Zstandard data ends size = Ok (ret, file) ->
    zlen file <= maxAlloc -> 8 * (cdiv size c + 1) + 29 < two32 ->
    e = -1 \/ e = zlen data -> 0 <= off <= zlen data ->
    uncompressed_reader dec_all dec_stream file e off = Ok (zskipn off data) /\
    exists out, zstd_reader enc enc_stream dec_all file e off = Ok out /\
                dec_stream out = Some (zskipn off data).
Proof.
  intros enc enc_stream dec_all dec_stream hashok [L1 L2 L3 L4] c data ends size ret file e off
         Hc Hi Hw Ha Hn He Ho.
  destruct (writer_layout enc dec_all dec_stream hashok L1 L2 L3 c data ends size ret file Hc Hi Hw Ha Hn)
    as (h & frames & ps & LAY & Hcat & Hsz & Hus & _).
  assert (Hu : h_usize h = zlen data) by lia.
  rewrite <- Hu in He, Ho. rewrite <- Hcat. split.
  - apply (uncompressed_reader_layout dec_all dec_stream L2 L3 file h frames ps LAY e off He Ho).
  - apply (zstd_reader_layout enc enc_stream dec_all dec_stream L1 L2 L3 L4 file h frames ps LAY e off He Ho).
Qed.

(* every size reported for a written file is the length of the data *)
Lemma extract_logical_size_encoded h body :
  fields_ok h -> 0 < h_usize h -> extract_logical_size (encode_header h ++ body) = Ok (h_usize h).
Proof.
  intros Hf Hu. unfold extract_logical_size.
  pose proof (decode_raw_encode h body Hf) as E. apply (f_equal r_usize) in E.
  unfold decode_raw in E. cbn [r_usize] in E. rewrite E.
  rewrite zlen_app, encode_header_length.
  pose proof (zlen_nonneg (h_offs h)). pose proof (zlen_nonneg body).
  replace (_ <? 16) with false by lia. replace (h_usize h <=? 0) with false by lia. reflexivity.
Qed.

Theorem size_reported :
  forall (enc : list Z -> list Z) (dec_all dec_stream : list Z -> option (list Z))
         (hashok : list Z -> bool),
    codec_laws enc dec_all dec_stream ->
  forall (c : Z) (data : list Z) (ends : bool) (size ret : Z) (file : list Z),
    0 < c < two32 -> in_i64 size ->
    write_and_close enc hashok c Zstandard data ends size = Ok (ret, file) ->
    zlen file <= maxAlloc -> 8 * (cdiv size c + 1) + 29 < two32 ->
    size = zlen data /\
    (exists h, parse_header file = Ok h /\ h_usize h = zlen data /\ h_chunk h = c) /\
    extract_logical_size file = Ok (zlen data) /\ ret = zlen file.
Proof.
  intros enc dec_all dec_stream hashok [L1 L2 L3 L4] c data ends size ret file Hc Hi Hw Ha Hn.
  destruct (writer_layout enc dec_all dec_stream hashok L1 L2 L3 c data ends size ret file Hc Hi Hw Ha Hn)
    as (h & frames & ps & LAY & Hcat & Hsz & Hus & Hck & Hret & _ & _ & _ & Hfile).
  split; [exact Hsz|]. split; [exists h; split; [apply (lay_parse _ _ _ _ _ LAY)|split; [lia|exact Hck]]|].
  split; [|exact Hret].
  pose proof (lay_parse _ _ _ _ _ LAY) as Hp. rewrite Hfile in Hp |- *.
  assert (Hu : h_usize h = zlen data) by lia. rewrite <- Hu.
  apply extract_logical_size_encoded.
  - (* the written header has in-range fields: it parsed back to itself *)
    pose proof (parse_header_facts _ _ Hp) as F.
    destruct (hf_zstd _ _ F (lay_comp _ _ _ _ _ LAY)) as (Hk & Hu0 & Hcnt).
    rewrite Hus, Hck in Hcnt.
    pose proof (hf_chunk _ _ F). pose proof (hf_table _ _ F) as Ht.
    unfold fields_ok. rewrite (lay_comp _ _ _ _ _ LAY).
    split; [unfold in_i64 in *; lia|]. split; [unfold Zstandard; lia|]. split; [lia|].
    split; [unfold two32 in *; lia|].
    unfold table_ok in Ht. destruct (increasing_from_bounds _ _ _ Ht) as [_ Hb].
    apply Forall_forall. intros x Hx. apply (In_nth _ _ 0) in Hx as (i & Hlt & <-).
    specialize (Hb i Hlt). rewrite <- Hfile in Hb. unfold in_i64, two63, maxAlloc in *. lia.
  - destruct (hf_zstd _ _ (parse_header_facts _ _ Hp) (lay_comp _ _ _ _ _ LAY)) as (_ & Hu0 & _). exact Hu0.
Qed.

(* observation: WriteAndClose with Identity compression (not used by the disk cache, which stores
   uncompressed CAS blobs as raw .v1 files) leaves the chunk table as [29; 0]; readHeader rejects it *)
Theorem identity_written_file_rejected :
  forall (enc : list Z -> list Z) (hashok : list Z -> bool) (c : Z) (data : list Z) (ends : bool)
         (size ret : Z) (file : list Z),
    0 <= c < two32 -> in_i64 size ->
    write_and_close enc hashok c Identity data ends size = Ok (ret, file) ->
    is_ok (parse_header file) = false.
Proof.
  intros enc hashok c data ends size ret file Hc Hi Hw. unfold write_and_close in Hw.
  destruct (write_ctl _ _ _ _ _ _) as [lens| | |]; cbn [bind] in Hw; try discriminate.
  change (Identity =? Identity) with true in Hw. cbv iota zeta in Hw.
  assert (Hf : file = encode_header (header0 c Identity size 1) ++ data) by congruence.
  rewrite Hf. apply in_progress_file_rejected; try assumption; unfold Identity, two32; lia.
Qed.
