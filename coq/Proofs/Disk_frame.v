(* Proofs/Disk_frame.v — C15 over the disk transition system: the key spaces are independent.  A step
   of a request on key K leaves the index entry of every other key K' alone — never adds, never
   replaces it, never rewrites its file — unless it evicts K' under space pressure; without
   evictions, what a Get / Contains of K' returns is not changed by any traffic on other keys. *)
From Coq Require Import Permutation.
From BR Require Import Base.Prelude Model.LRU Proofs.LRU_inv Proofs.LRU_spec Proofs.LRU_order Model.Disk
  Proofs.Disk_inv1 Proofs.Disk_inv2 Proofs.Disk_inv Proofs.Disk_conc Proofs.Disk_conc2 Proofs.Disk_conc3.
From BR Require Proofs.Disk_fun_fm Proofs.Disk_fun_get.
Open Scope Z_scope.

(* ------------------------------------------------------------------ *)
(* 1. the lookup keys of different kinds never coincide; within a kind the hash decides *)

Lemma lookup_key_kind_injective k h k' h' : lookup_key k h = lookup_key k' h' -> k = k' /\ h = h'.
Proof. destruct k, k'; unfold lookup_key; simpl; intros H; inversion H; auto. Qed.

(* the key a request works on (find-missing only touches entries, it works on none) *)
Definition works_on (r : request) (K : string) : Prop :=
  match r with
  | RPut k h _ _ _ | RGet k h _ _ _ _ _ | RContains k h _ _ => K = lookup_key k h
  | RFindMissing _ _ _ => False
  end.

Definition req_kind (r : request) : option kind :=
  match r with
  | RPut k _ _ _ _ | RGet k _ _ _ _ _ _ | RContains k _ _ _ => Some k
  | RFindMissing _ _ _ => None
  end.

Lemma other_kind_not_worked_on r k' h' : req_kind r <> Some k' -> ~ works_on r (lookup_key k' h').
Proof.
  destruct r; simpl; intros Hk Hw; try exact Hw;
    apply lookup_key_kind_injective in Hw as [-> _]; apply Hk; reflexivity.
Qed.

Lemma commit_of_key t t' key cid lsz len : commit_of t t' = Some (key, cid, lsz, len) -> works_on (t_req t) key.
Proof.
  unfold commit_of. destruct (t_pc t); try discriminate; destruct (t_req t); try discriminate;
    destruct (t_pc t'); try discriminate; destruct r; try discriminate; intros H; inversion H; reflexivity.
Qed.

(* ------------------------------------------------------------------ *)
(* per-key comparison of two index states *)

Lemma peek_None K l : peek K l = None <-> find_key K (order l) = None.
Proof. unfold peek. destruct (find_key K (order l)); split; intros H; try reflexivity; discriminate. Qed.

(* the elements with key K' of [l'] are among those of [l]: the entry of K' is as before or gone *)
Lemma peek_sub K' l l' : Inv l -> Inv l' ->
  (forall e, key_of e = K' -> In e (order l') -> In e (order l)) ->
  peek K' l' = peek K' l \/ (peek K' l <> None /\ peek K' l' = None).
Proof.
  intros ([Hk _ _ _ _ _ _ _ _] & _) ([Hk' _ _ _ _ _ _ _ _] & _) Hsub.
  destruct (peek K' l') as [v'|] eqn:E'.
  - left. apply peek_Some in E' as (e & Hf & Hv). apply find_key_In in Hf as [Hin Hkey].
    symmetry. apply peek_Some. exists e. split; [|exact Hv]. apply find_key_Some_iff; auto.
  - destruct (peek K' l) as [v|] eqn:E; [|left; reflexivity]. right. split; [discriminate|reflexivity].
Qed.

(* ... and conversely: the entry of K' is as before *)
Lemma peek_frame K' l l' : Inv l -> Inv l' ->
  (forall e, key_of e = K' -> In e (order l') -> In e (order l)) ->
  (forall e, key_of e = K' -> In e (order l) -> In e (order l')) ->
  peek K' l' = peek K' l.
Proof.
  intros HI HI' H1 H2. destruct (peek_sub K' l l' HI HI' H1) as [H|[Hb Ha]]; [exact H|].
  exfalso. destruct (peek K' l) as [v|] eqn:E; [|congruence].
  apply peek_Some in E as (e & Hf & Hv). apply find_key_In in Hf as [Hin Hkey].
  destruct HI' as ([Hk' _ _ _ _ _ _ _ _] & _). apply peek_None in Ha.
  rewrite (find_key_Some_iff K' _ Hk' e (H2 e Hkey Hin) Hkey) in Ha. discriminate.
Qed.

(* ------------------------------------------------------------------ *)
(* 2. one step of a request on another key *)

Definition evicted_under_pressure (d : dstate) (t : thread) (d' : dstate) (K' : string) : Prop :=
  peek K' (lru d) <> None /\ peek K' (lru d') = None /\ (pressure_reserve d t d' \/ pressure_commit d t d').

Local Transparent LRU.remove_element.
Lemma ord_frame d t d' t' K' :
  OrdEffect d t d' t' -> Inv (lru d) -> Inv (lru d') -> ~ works_on (t_req t) K' ->
  peek K' (lru d') = peek K' (lru d) \/ evicted_under_pressure d t d' K'.
Proof.
  intros HE HI HI' Hw.
  assert (Hlost : peek K' (lru d) <> None -> peek K' (lru d') = None ->
                  ~ failed_validation_drop t -> evicted_under_pressure d t d' K').
  { intros Hb Ha Hnd. split; [exact Hb|]. split; [exact Ha|].
    destruct (ord_loss d t d' t' K' HE HI HI' Hb Ha) as [H|[H|H]]; [left; exact H|right; exact H|contradiction]. }
  destruct HE.
  - left. apply peek_frame; auto; intros e _ He; eapply Permutation_in; try eassumption.
    apply Permutation_sym. exact os_perm.
  - destruct (reserve_evicts_lru_prefix n _ _ HI or_res) as (ev & Ho & _).
    destruct (peek_sub K' (lru d) (lru d') HI HI') as [H|[Hb Ha]]; [|left; exact H|].
    + intros e _ He. rewrite Ho. apply in_or_app. right. exact He.
    + right. apply Hlost; auto. intros (v & id & k & hash & sz & off & zs & b & rnd & Hpc & _).
      destruct or_pc as [E|[bb E]]; rewrite E in Hpc; discriminate.
  - assert (Hne : key <> K').
    { intros <-. apply Hw. eapply commit_of_key. exact oc_cm. }
    destruct (add_true_shape _ _ _ _ oc_add) as (ev & Ht & _).
    destruct (peek_sub K' (lru d) (lru d') HI HI') as [H|[Hb Ha]]; [|left; exact H|].
    + intros e Hk He. assert (Hin : In e (touched key v l1)) by (rewrite Ht; apply in_or_app; right; exact He).
      destruct (touched_back _ _ _ _ oc_inv Hin) as [Hent|[Hin1 _]].
      * exfalso. apply Hne. unfold key_of in Hk. rewrite Hent in Hk. exact Hk.
      * rewrite <- oc_ord. exact Hin1.
    + right. apply Hlost; auto. intros (v0 & id & k & hash & sz & off & zs & b & rnd & Hpc & _).
      unfold commit_of in oc_cm. rewrite Hpc in oc_cm. discriminate.
  - left. destruct od_elem as (e & Hfk & Hid). apply find_key_In in Hfk as [Hine Hke].
    assert (Hne : lookup_key k hash <> K') by (intros <-; apply Hw; rewrite od_req; reflexivity).
    unfold LRU.remove_element in od_rm. destruct (find_id id (order (lru d))) as [e0|] eqn:Efi; [|discriminate].
    apply find_id_In in Efi as [Hin0 Hid0]. injection od_rm as Heq.
    pose proof HI as ([_ Hi _ _ _ _ _ _ _] & _).
    assert (e0 = e) by (eapply NoDup_map_eq; [exact Hi|exact Hin0|exact Hine|congruence]). subst e0.
    assert (Hord : order (lru d') = remove_id (eid e) (order (lru d))) by (rewrite <- Heq; reflexivity).
    apply peek_frame; auto; rewrite Hord.
    + intros x _ Hx. eapply remove_id_incl; exact Hx.
    + intros x Hkx Hx. apply remove_id_keeps; [exact Hx|]. intros Heid.
      assert (x = e) by (eapply NoDup_map_eq; [exact Hi|exact Hx|exact Hine|exact Heid]). subst x. congruence.
Qed.

Local Opaque LRU.remove_element.

(* a thread step never touches the file of an indexed or queued entry *)
Lemma effect_entry_files c d t d' t' l1 l2 en :
  SysInv c (mkSys d (l1 ++ t :: l2)) -> Effect d t d' t' -> In en (all_entries (lru d)) ->
  find_file (entry_path en) (files d') = find_file (entry_path en) (files d).
Proof.
  intros [_ _ _ _ HD HN _] HE Hen. simpl in *. rewrite tmp_paths_mid in HD.
  assert (HND : NoDup (map entry_path (all_entries (lru d)) ++ tmp_paths l1 ++ otmp t ++ tmp_paths l2))
    by (eapply Permutation_NoDup; eassumption).
  assert (HinE : In (entry_path en) (map entry_path (all_entries (lru d)))) by (apply in_map; exact Hen).
  assert (Hnt : forall p, otmp t = [p] -> entry_path en <> p).
  { intros p Hp Heq. apply (NoDup_app_disj _ _ _ HND HinE). rewrite Hp, <- Heq.
    apply in_or_app. right. left. reflexivity. }
  destruct HE.
  - rewrite ef_files. reflexivity.
  - rewrite ef_files. reflexivity.
  - rewrite ef_files. apply find_file_cons_other. intros Heq.
    apply (find_file_None _ _ ef_fresh). rewrite <- Heq.
    eapply Permutation_in; [apply Permutation_sym; exact HD|]. apply in_or_app. left. exact HinE.
  - rewrite ef_files. apply find_file_put_other. apply Hnt. unfold otmp. rewrite ef_tmp. reflexivity.
  - rewrite ef_files. apply find_file_remove_other. apply Hnt. unfold otmp. rewrite ef_tmp. reflexivity.
Qed.

(* C15, one step.  In a reachable state of a run with fresh names, a step of a thread whose request
   does not work on K' leaves the index entry of K' as it is, or evicts it under space pressure
   (successful Reserve / Add that does not fit); it never adds or replaces it.  And no thread step
   touches the file of any indexed entry. *)
Theorem frame_step c mx hd ls i t d' t' K' :
  0 < mx -> Forall label_ok ls -> fresh_names c (sinit mx hd) ls ->
  let s := srun c (sinit mx hd) ls in
  nth_error (thr s) i = Some t -> tstep c (sd s) t = Some (d', t') ->
  ~ works_on (t_req t) K' ->
  (peek K' (lru d') = peek K' (lru (sd s)) \/ evicted_under_pressure (sd s) t d' K') /\
  (forall e, In e (order (lru (sd s))) ->
     find_file (entry_path (ent e)) (files d') = find_file (entry_path (ent e)) (files (sd s))).
Proof.
  intros Hm Hok Hf s En Et Hw. destruct (reach3 c mx hd ls Hm Hok Hf) as (X & M & HS & HC & _ & _). fold s in HS, HC.
  destruct (step_facts c s i t d' t' X M HS HC En Et) as [HE HI']. split.
  - eapply ord_frame; [exact HE|apply HS|exact HI'|exact Hw].
  - intros e He. destruct s as [d ts]. simpl in *.
    assert (Hin : In t ts) by (eapply nth_error_In; exact En).
    pose proof (held_le_res c _ t HS Hin) as Hh. simpl in Hh.
    assert (Hok' : thread_ok c (files d) t).
    { destruct HS as [_ _ _ HT _ _ _]. simpl in HT. rewrite Forall_forall in HT. apply HT. exact Hin. }
    destruct (tstep_effect c d t d' t' Et (si_inv _ _ HS) Hh Hok') as [HEf _].
    destruct (upd_nth_split ts i t t' En) as (l1 & l2 & E1 & _). rewrite E1 in HS.
    eapply effect_entry_files; [exact HS|exact HEf|].
    unfold all_entries. apply in_or_app. left. apply in_map. exact He.
Qed.

(* in key-space terms: a request of one kind and any key of another kind *)
Corollary frame_step_other_kind c mx hd ls i t d' t' k' h' :
  0 < mx -> Forall label_ok ls -> fresh_names c (sinit mx hd) ls ->
  let s := srun c (sinit mx hd) ls in
  nth_error (thr s) i = Some t -> tstep c (sd s) t = Some (d', t') ->
  req_kind (t_req t) <> Some k' ->
  peek (lookup_key k' h') (lru d') = peek (lookup_key k' h') (lru (sd s))
  \/ evicted_under_pressure (sd s) t d' (lookup_key k' h').
Proof.
  intros Hm Hok Hf s En Et Hk.
  apply (frame_step c mx hd ls i t d' t' (lookup_key k' h') Hm Hok Hf En Et).
  apply other_kind_not_worked_on. exact Hk.
Qed.

(* ------------------------------------------------------------------ *)
(* 3. a run segment without eviction of K' and without requests on K' *)

Definition step_foreign (c : cfg) (s : sys) (l : label) (K' : string) : Prop :=
  match l with
  | LStep i => match nth_error (thr s) i with Some t => ~ works_on (t_req t) K' | None => True end
  | _ => True
  end.

Fixpoint seg_ok (c : cfg) (s : sys) (K' : string) (ls : list label) : Prop :=
  match ls with
  | [] => True
  | l :: r => step_foreign c s l K' /\ ~ loses c s l K' /\ seg_ok c (sstep c s l) K' r
  end.

(* the entry of K' and its file *)
Definition same_entry (K' : string) (d d' : dstate) : Prop :=
  peek K' (lru d') = peek K' (lru d) /\
  (forall v, peek K' (lru d) = Some v -> find_file (path_of K' v) (files d') = find_file (path_of K' v) (files d)).

Lemma same_entry_refl K' d : same_entry K' d d.
Proof. split; auto. Qed.

Lemma same_entry_trans K' d1 d2 d3 : same_entry K' d1 d2 -> same_entry K' d2 d3 -> same_entry K' d1 d3.
Proof.
  intros [A1 A2] [B1 B2]. split; [congruence|]. intros v Hv. rewrite B2; [apply A2; exact Hv|congruence].
Qed.

Lemma indexed_path K' l v : peek K' l = Some v ->
  exists e, In e (order l) /\ entry_path (ent e) = path_of K' v.
Proof.
  intros H. apply peek_Some in H as (e & Hf & Hv). apply find_key_In in Hf as [Hin Hk].
  exists e. split; [exact Hin|]. unfold entry_path. unfold key_of in Hk. rewrite Hk, Hv. reflexivity.
Qed.

Lemma NoDup_app_left {A} (l1 l2 : list A) : NoDup (l1 ++ l2) -> NoDup l1.
Proof. induction l1 as [|x t IH]; simpl; intros H; [constructor|]. inversion H; subst.
  constructor; [intros Hx; apply H2; apply in_or_app; left; exact Hx|apply IH; assumption]. Qed.

Lemma label_frame c s l X M K' :
  SysInv c s -> ConcInv c s X M -> step_foreign c s l K' -> ~ loses c s l K' ->
  same_entry K' (sd s) (sd (sstep c s l)).
Proof.
  intros HS HC Hfo Hnl. destruct l as [r|i|]; simpl in *.
  - apply same_entry_refl.
  - destruct (nth_error (thr s) i) as [t|] eqn:En; [|apply same_entry_refl].
    destruct (tstep c (sd s) t) as [[d' t']|] eqn:Et; [|apply same_entry_refl]. simpl.
    destruct (step_facts c s i t d' t' X M HS HC En Et) as [HE HI'].
    assert (Hpk : peek K' (lru d') = peek K' (lru (sd s))).
    { destruct (ord_frame _ _ _ _ K' HE (si_inv _ _ HS) HI' Hfo) as [H|(Hb & Ha & _)]; [exact H|].
      exfalso. apply Hnl. split; [exact Hb|]. simpl. rewrite En, Et. exact Ha. }
    split; [exact Hpk|]. intros v Hv. destruct (indexed_path _ _ _ Hv) as (e & Hin & Hp). rewrite <- Hp.
    destruct s as [d ts]. simpl in *.
    assert (Hint : In t ts) by (eapply nth_error_In; exact En).
    pose proof (held_le_res c _ t HS Hint) as Hh. simpl in Hh.
    assert (Hok' : thread_ok c (files d) t).
    { destruct HS as [_ _ _ HT _ _ _]. simpl in HT. rewrite Forall_forall in HT. apply HT. exact Hint. }
    destruct (tstep_effect c d t d' t' Et (si_inv _ _ HS) Hh Hok') as [HEf _].
    destruct (upd_nth_split ts i t t' En) as (l1 & l2 & E1 & _). rewrite E1 in HS.
    eapply effect_entry_files; [exact HS|exact HEf|].
    unfold all_entries. apply in_or_app. left. apply in_map. exact Hin.
  - unfold evictor_step. pose proof (evictor_step_spec (lru (sd s)) (si_inv _ _ HS)) as HE.
    destruct (LRU.evictor_step (lru (sd s))) as [l' [en|]] eqn:EE; [|apply same_entry_refl]. simpl.
    destruct HE as (_ & _ & _ & _ & Ho & _ & Hq). split; [apply peek_order; exact Ho|].
    intros v Hv. destruct (indexed_path _ _ _ Hv) as (e & Hin & Hp). rewrite <- Hp.
    apply find_file_remove_other. fold (entry_path en). intros Heq.
    destruct HS as [_ _ _ _ HD HN _]. simpl in HD.
    assert (HND : NoDup (map entry_path (all_entries (lru (sd s))))).
    { pose proof (Permutation_NoDup HD HN) as H. apply NoDup_app_left in H. exact H. }
    unfold all_entries in HND. rewrite Hq, map_app in HND. simpl in HND.
    apply (NoDup_app_disj _ _ (entry_path (ent e)) HND).
    + rewrite map_map. apply (in_map (fun x => entry_path (ent x))). exact Hin.
    + left. symmetry. exact Heq.
Qed.

Lemma segment_frame c K' ls2 : forall s X M,
  Forall label_ok ls2 -> SysInv c s -> ConcInv c s X M -> fresh_from c s M ls2 -> seg_ok c s K' ls2 ->
  same_entry K' (sd s) (sd (srun c s ls2)).
Proof.
  induction ls2 as [|l r IH]; intros s X M Hok HS HC Hf Hseg; simpl; [apply same_entry_refl|].
  inversion Hok as [|? ? Hl Hr]; subst. destruct Hf as [Hf1 Hf2]. destruct Hseg as (Hfo & Hnl & Hseg).
  eapply same_entry_trans; [eapply label_frame; eassumption|].
  eapply IH; [exact Hr|apply sstep_inv; assumption|apply conc_step; eassumption|exact Hf2|exact Hseg].
Qed.

(* the invariants at the end of a prefix, with the freshness of the rest *)
Lemma conc_run_app c a : forall b s X M,
  Forall label_ok (a ++ b) -> SysInv c s -> ConcInv c s X M -> fresh_from c s M (a ++ b) ->
  exists X' M', SysInv c (srun c s a) /\ ConcInv c (srun c s a) X' M' /\ fresh_from c (srun c s a) M' b
                /\ Forall label_ok b.
Proof.
  induction a as [|l r IH]; intros b s X M Hok HS HC Hf; simpl in *.
  - exists X, M. auto.
  - inversion Hok as [|? ? Hl Hr]; subst. destruct Hf as [Hf1 Hf2].
    eapply IH; [exact Hr|apply sstep_inv; assumption|apply conc_step; eassumption|exact Hf2].
Qed.

Theorem segment_same_entry c mx hd ls1 ls2 K' :
  0 < mx -> Forall label_ok (ls1 ++ ls2) -> fresh_names c (sinit mx hd) (ls1 ++ ls2) ->
  seg_ok c (srun c (sinit mx hd) ls1) K' ls2 ->
  same_entry K' (sd (srun c (sinit mx hd) ls1)) (sd (srun c (sinit mx hd) (ls1 ++ ls2)))
  /\ Inv (lru (sd (srun c (sinit mx hd) ls1))) /\ Inv (lru (sd (srun c (sinit mx hd) (ls1 ++ ls2)))).
Proof.
  intros Hm Hok Hf Hseg.
  destruct (conc_run_app c ls1 ls2 (sinit mx hd) [] [] Hok (sinit_inv c mx hd Hm) (conc_init c mx hd) Hf)
    as (X & M & HS & HC & Hf2 & Hok2).
  split; [|split].
  - rewrite srun_app. eapply segment_frame; eassumption.
  - apply HS.
  - apply srun_inv; [exact Hm|exact Hok].
Qed.

(* Contains of K' answers the same before and after the segment (any configuration, any backend word) *)
Theorem frame_contains c mx hd ls1 ls2 k' h' sz b :
  0 < mx -> Forall label_ok (ls1 ++ ls2) -> fresh_names c (sinit mx hd) (ls1 ++ ls2) ->
  seg_ok c (srun c (sinit mx hd) ls1) (lookup_key k' h') ls2 ->
  snd (exec c (sd (srun c (sinit mx hd) (ls1 ++ ls2))) (RContains k' h' sz b))
  = snd (exec c (sd (srun c (sinit mx hd) ls1)) (RContains k' h' sz b)).
Proof.
  intros Hm Hok Hf Hseg.
  destruct (segment_same_entry c mx hd ls1 ls2 _ Hm Hok Hf Hseg) as ([Hpk _] & HI1 & HI2).
  destruct (Disk_fun_fm.exec_contains c _ k' h' sz b HI1) as (d1 & E1 & _).
  destruct (Disk_fun_fm.exec_contains c _ k' h' sz b HI2) as (d2 & E2 & _).
  rewrite E1, E2. simpl. unfold Disk_fun_fm.contains_fun. rewrite Hpk. reflexivity.
Qed.

(* Get of K' answers the same (same response, same content identity) when no backend is configured:
   the response is then a function of the index entry of K' and its file *)
Theorem frame_get c mx hd ls1 ls2 k' h' sz off zstd b rnd :
  0 < mx -> Forall label_ok (ls1 ++ ls2) -> fresh_names c (sinit mx hd) (ls1 ++ ls2) ->
  c_proxy c = false ->
  seg_ok c (srun c (sinit mx hd) ls1) (lookup_key k' h') ls2 ->
  snd (exec c (sd (srun c (sinit mx hd) (ls1 ++ ls2))) (RGet k' h' sz off zstd b rnd))
  = snd (exec c (sd (srun c (sinit mx hd) ls1)) (RGet k' h' sz off zstd b rnd)).
Proof.
  intros Hm Hok Hf Hnp Hseg.
  destruct (segment_same_entry c mx hd ls1 ls2 _ Hm Hok Hf Hseg) as ([Hpk Hfile] & HI1 & HI2).
  set (d1 := sd (srun c (sinit mx hd) ls1)) in *. set (d2 := sd (srun c (sinit mx hd) (ls1 ++ ls2))) in *.
  destruct (Disk_fun_get.get_guard k' h' sz off zstd) as [g|] eqn:EG.
  - rewrite !(Disk_fun_get.get_guarded _ _ _ _ _ _ _ _ _ g EG). reflexivity.
  - assert (Hlh : Disk_fun_get.local_hit (lru d2) (files d2) k' h' sz
                  = Disk_fun_get.local_hit (lru d1) (files d1) k' h' sz).
    { unfold Disk_fun_get.local_hit. rewrite Hpk. destruct (peek (lookup_key k' h') (lru d1)) as [v|] eqn:Ev; [|reflexivity].
      rewrite (Hfile v eq_refl). reflexivity. }
    assert (Hnb : c_proxy c && (sz <=? c_maxproxy c) = false) by (rewrite Hnp; reflexivity).
    destruct (exec c d1 (RGet k' h' sz off zstd b rnd)) as [e1 r1] eqn:E1.
    destruct (exec c d2 (RGet k' h' sz off zstd b rnd)) as [e2 r2] eqn:E2.
    destruct (Disk_fun_get.get_local_complete c d1 _ _ _ _ _ _ _ _ _ HI1 (or_intror Hnp) E1 EG) as (C1 & _).
    destruct (Disk_fun_get.get_local_complete c d2 _ _ _ _ _ _ _ _ _ HI2 (or_intror Hnp) E2 EG) as (C2 & _).
    simpl. rewrite Hlh in C2.
    destruct C1 as [(v1 & f1 & L1 & R1)|(L1 & _ & R1)], C2 as [(v2 & f2 & L2 & R2)|(L2 & _ & R2)].
    + rewrite L1 in L2. inversion L2; subst. congruence.
    + rewrite L1 in L2. discriminate.
    + rewrite L1 in L2. discriminate.
    + destruct (R1 Hnb) as [-> _]. destruct (R2 Hnb) as [-> _]. reflexivity.
Qed.

(* ------------------------------------------------------------------ *)
(* 4. a compressed read is only ever served from the CAS *)

Theorem zstd_only_cas c d k h sz off b rnd :
  k <> CAS ->
  tstep c d (spawn (RGet k h sz off true b rnd))
  = Some (d, mkThread (RGet k h sz off true b rnd) (Done (GetErr EBadRequest)) 0 None).
Proof.
  intros Hk. unfold tstep. simpl.
  destruct (negb (Z.of_nat (String.length h) =? hashLen)); [reflexivity|].
  destruct (sz <? -1); [reflexivity|].
  destruct k; [reflexivity|congruence|reflexivity].
Qed.

(* ------------------------------------------------------------------ *)
(* a checker for [seg_ok] on concrete runs *)

Definition works_onb (r : request) (K : string) : bool :=
  match r with
  | RPut k h _ _ _ | RGet k h _ _ _ _ _ | RContains k h _ _ => String.eqb K (lookup_key k h)
  | RFindMissing _ _ _ => false
  end.

Definition is_some {A} (o : option A) : bool := match o with Some _ => true | None => false end.

Fixpoint seg_okb (c : cfg) (s : sys) (K' : string) (ls : list label) : bool :=
  match ls with
  | [] => true
  | l :: r =>
      match l with
      | LStep i => match nth_error (thr s) i with Some t => negb (works_onb (t_req t) K') | None => true end
      | _ => true
      end
      && negb (is_some (peek K' (lru (sd s))) && negb (is_some (peek K' (lru (sd (sstep c s l))))))
      && seg_okb c (sstep c s l) K' r
  end.

Lemma seg_okb_ok c K' ls : forall s, seg_okb c s K' ls = true -> seg_ok c s K' ls.
Proof.
  induction ls as [|l r IH]; intros s H; simpl in *; [exact I|].
  apply andb_true_iff in H as [H H3]. apply andb_true_iff in H as [H1 H2].
  split; [|split; [|apply IH; exact H3]].
  - destruct l as [q|i|]; simpl; try exact I. destruct (nth_error (thr s) i) as [t|]; [|exact I].
    apply negb_true_iff in H1. intros Hw. destruct (t_req t); simpl in *; try exact Hw;
      subst K'; rewrite String.eqb_refl in H1; discriminate.
  - intros [Hb Ha]. apply negb_true_iff in H2. rewrite Ha in H2.
    destruct (peek K' (lru (sd s))); [discriminate|congruence].
Qed.
