(* Proofs/Protocols_base.v — generic facts about the protocol systems of Model/Protocols.v:
   if a finite set S of abstract states (control state x "budget exhausted") passes [check], then
   from every concrete state whose abstraction lies in S — for EVERY budget n — all runs are
   finite, stay inside S, and can only stop in a final control state.  S is found by the
   (untrusted) search [explore]; [check] is what is verified here. *)
From BR Require Import Base.Prelude Model.Protocols.
From Coq Require Import Relations Arith.
Open Scope nat_scope.

Section Generic.
  Context {C : Type}.
  Variable cstep : C -> bool -> list (C * bool).
  Variable eqb : C -> C -> bool.
  Hypothesis eqb_sound : forall a b, eqb a b = true -> a = b.
  Variable rank : C -> nat.
  Variable K : nat.
  Variable final : C -> bool.

  Notation step := (step cstep).
  Notation reach := (reach cstep).
  Notation stuck := (stuck cstep).

  Lemma aeqb_sound a b : aeqb eqb a b = true -> a = b.
  Proof.
    destruct a as [c z], b as [c' z']. unfold aeqb. cbn [fst snd]. intros H.
    apply andb_true_iff in H as [H1 H2]. apply eqb_sound in H1. apply Bool.eqb_prop in H2. congruence.
  Qed.

  Lemma memb_In a l : memb eqb a l = true -> In a l.
  Proof.
    unfold memb. intros H. apply existsb_exists in H as (b & Hb & E).
    apply aeqb_sound in E. subst b. exact Hb.
  Qed.

  Lemma reach_trans s1 s2 s3 : reach s1 s2 -> reach s2 s3 -> reach s1 s3.
  Proof.
    unfold Protocols.reach. intros H1 H2. induction H1 as [|x y z Hxy Hyz IH]; [exact H2|].
    eapply Relation_Operators.rt1n_trans; [exact Hxy|apply IH; exact H2].
  Qed.

  (* a state without moves *)
  Lemma stuck_of_nil s : cstep (fst s) (Nat.eqb (snd s) 0) = [] -> stuck s.
  Proof.
    destruct s as [c n]. cbn [fst snd]. intros E s' H. inversion H; subst.
    - rewrite E in H3. exact H3.
    - cbn [Nat.eqb] in E. rewrite E in H3. exact H3.
  Qed.

  (* explicit runs *)
  Lemma move_ok_sound s s' : move_ok cstep eqb s s' = true -> step s s'.
  Proof.
    destruct s as [c n], s' as [c' n']. unfold move_ok. cbn [fst snd]. intros H.
    apply orb_true_iff in H as [H|H]; apply andb_true_iff in H as [Hn He];
      apply Nat.eqb_eq in Hn; apply existsb_exists in He as ([c'' d] & Hin & Hc); cbn [fst snd] in Hc;
      apply andb_true_iff in Hc as [Hd Hc]; apply eqb_sound in Hc; subst c''.
    - destruct d; [discriminate|]. subst n'. apply step_keep. exact Hin.
    - destruct d; [|discriminate]. subst n. apply step_dec. exact Hin.
  Qed.

  Lemma path_ok_sound l : forall s, path_ok cstep eqb s l = true -> reach s (last l s).
  Proof.
    induction l as [|s' t IH]; intros s H; cbn [path_ok last] in *.
    - apply rt1n_refl.
    - apply andb_true_iff in H as [Hm Ht]. apply move_ok_sound in Hm.
      eapply Relation_Operators.rt1n_trans; [exact Hm|].
      replace (match t with [] => s' | _ :: _ => last t s end) with (last t s').
      + apply IH. exact Ht.
      + destruct t as [|x t']; [reflexivity|]. clear. revert x. induction t' as [|y u IHu]; intros x; [reflexivity|].
        cbn [last]. cbn [last] in IHu. apply IHu.
  Qed.

  Variable S : list (C * bool).
  Hypothesis Hcheck : check cstep eqb rank K final S = true.

  Definition mu (s : C * nat) : nat := snd s * K + rank (fst s).

  Lemma check_at a : In a S -> check_state cstep eqb rank K final S a = true.
  Proof. intros H. unfold check in Hcheck. rewrite forallb_forall in Hcheck. apply Hcheck. exact H. Qed.

  Lemma step_in_S s s' : In (abs s) S -> step s s' -> In (abs s') S /\ mu s' < mu s.
  Proof.
    intros Hin Hs. pose proof (check_at _ Hin) as Hc. unfold check_state in Hc.
    apply andb_true_iff in Hc as [Hall _]. rewrite forallb_forall in Hall.
    inversion Hs as [c n c' Hm|c n c' Hm]; subst; unfold abs in *; cbn [fst snd] in *.
    - specialize (Hall _ Hm). cbn [fst snd] in Hall. apply andb_true_iff in Hall as [Hr Hmem].
      apply Nat.ltb_lt in Hr. apply memb_In in Hmem. split; [exact Hmem|]. unfold mu. cbn [fst snd]. lia.
    - specialize (Hall _ Hm). cbn [fst snd] in Hall.
      apply andb_true_iff in Hall as [Hall Ht]. apply andb_true_iff in Hall as [Hall Hf].
      apply andb_true_iff in Hall as [_ Hr]. apply Nat.ltb_lt in Hr.
      apply memb_In in Ht. apply memb_In in Hf. split.
      + destruct (Nat.eqb n 0); assumption.
      + unfold mu. cbn [fst snd]. rewrite Nat.mul_succ_l. lia.
  Qed.

  Lemma reach_in_S s s' : In (abs s) S -> reach s s' -> In (abs s') S.
  Proof.
    intros Hin Hr. induction Hr as [|x y z Hxy Hyz IH]; [exact Hin|].
    apply IH. exact (proj1 (step_in_S _ _ Hin Hxy)).
  Qed.

  Lemma acc_in_S : forall m s, mu s < m -> In (abs s) S -> Acc (fun a b => step b a) s.
  Proof.
    induction m as [|m IH]; intros s Hm Hin; [lia|].
    constructor. intros s' Hs. destruct (step_in_S _ _ Hin Hs) as [Hin' Hlt].
    apply IH; [lia|exact Hin'].
  Qed.

  Lemma stuck_final s : In (abs s) S -> stuck s -> final (fst s) = true.
  Proof.
    intros Hin Hst. pose proof (check_at _ Hin) as Hc. unfold check_state in Hc.
    apply andb_true_iff in Hc as [Hall Hfin]. destruct s as [c n]. unfold abs in *. cbn [fst snd] in *.
    destruct (cstep c (Nat.eqb n 0)) as [|[c' d] ms] eqn:E; [exact Hfin|]. exfalso.
    cbn [forallb fst snd] in Hall. apply andb_true_iff in Hall as [H1 _].
    destruct d.
    - apply andb_true_iff in H1 as [H1 _]. apply andb_true_iff in H1 as [H1 _]. apply andb_true_iff in H1 as [Hz _].
      destruct n as [|k]; [discriminate|]. cbn [Nat.eqb] in E.
      apply (Hst (c', k)). apply step_dec. rewrite E. left. reflexivity.
    - apply (Hst (c', n)). apply step_keep. rewrite E. left. reflexivity.
  Qed.

  (* the generic theorem *)
  Theorem checked_total s0 s :
    In (abs s0) S -> reach s0 s ->
    In (abs s) S /\ all_runs_end_in cstep (fun s' => final (fst s') = true) s.
  Proof.
    intros Hin Hr. pose proof (reach_in_S _ _ Hin Hr) as HinS. split; [exact HinS|]. split.
    - apply (acc_in_S (Datatypes.S (mu s))); [lia|exact HinS].
    - intros s' Hr' Hst. apply stuck_final; [|exact Hst]. exact (reach_in_S _ _ HinS Hr').
  Qed.
End Generic.
