(* Proofs/Disk_conc.v — C07: what concurrent readers can observe.  The run of the transition system
   of Model/Disk.v is instrumented with two ghost lists: the commits performed so far (with the name
   of the committed file) and the file names created so far.  This file: the ghost instrumentation,
   the invariant tying index entries, files and reader snapshots to the commit log, and its
   preservation by every kind of effect (Disk_inv1.Effect), by the remover and by spawning. *)
From Coq Require Import Permutation.
From BR Require Import Base.Prelude Model.LRU Proofs.LRU_inv Proofs.LRU_spec Model.Disk
  Proofs.Disk_inv1 Proofs.Disk_inv2 Proofs.Disk_inv.
Open Scope Z_scope.

(* ------------------------------------------------------------------ *)
(* ghost instrumentation of a run *)

(* the two threads (before, after) of the step a label takes, if it is an enabled thread step *)
Definition step_pair (c : cfg) (s : sys) (l : label) : option (thread * thread) :=
  match l with
  | LStep i =>
      match nth_error (thr s) i with
      | Some t => match tstep c (sd s) t with Some (_, t') => Some (t, t') | None => None end
      | None => None
      end
  | _ => None
  end.

Definition step_commits (c : cfg) (s : sys) (l : label) : list commit :=
  match step_pair c s l with
  | Some (t, t') => match commit_of t t' with Some cm => [cm] | None => [] end
  | None => []
  end.

Definition step_created (c : cfg) (s : sys) (l : label) : list path :=
  match step_pair c s l with Some (t, t') => created_of t t' | None => [] end.

(* the commit log of a run: (key, content identity, logical size, bytes in the file) of every
   successful commit (upload or backend fetch), in the order they happened *)
Fixpoint commits (c : cfg) (s : sys) (ls : list label) : list commit :=
  match ls with
  | [] => []
  | l :: r => step_commits c s l ++ commits c (sstep c s l) r
  end.

(* File names are never reused: at every PutCreate / GetCreate step taken in the run the created
   name differs from every name created EARLIER in the run (not merely from the files existing now).

   Why it is needed.  A reader looks up an entry (one critical section), then opens the file by name
   (a later step).  In between, the entry can be replaced and its file unlinked by the remover.  If
   a later upload then creates its temp file under the very same name, the parked reader opens that
   temp file — possibly half written — and, for an uncompressed entry, serves it without any further
   check.  O_EXCL only protects against names that exist NOW.  The Go code relies on the 9-digit
   pseudo-random suffix of tempfile.Create to make this practically impossible; the model makes the
   assumption explicit.  [whole_value_needs_fresh_names] in Properties/C07.v is such a run. *)
Fixpoint fresh_from (c : cfg) (s : sys) (made : list path) (ls : list label) : Prop :=
  match ls with
  | [] => True
  | l :: r => (forall p, In p (step_created c s l) -> ~ In p made)
              /\ fresh_from c (sstep c s l) (made ++ step_created c s l) r
  end.
Definition fresh_names (c : cfg) (s : sys) (ls : list label) : Prop := fresh_from c s [] ls.

(* the log extended with the name of the committed file (ghost of the proof only) *)
Definition xcommit : Type := (path * commit)%type.
Definition no_path : path := mkPath "" 0 "" false.
Definition xcommit_of (t t' : thread) : list xcommit :=
  match commit_of t t' with
  | Some cm => [(match t_tmp t with Some p => p | None => no_path end, cm)]
  | None => []
  end.

Lemma xcommit_of_snd t t' :
  map snd (xcommit_of t t') = match commit_of t t' with Some cm => [cm] | None => [] end.
Proof. unfold xcommit_of. destruct (commit_of t t'); reflexivity. Qed.

(* ------------------------------------------------------------------ *)
(* the invariant *)

Definition pc_matches (p : pc) (r : request) : bool :=
  match p, r with
  | (PutStart | PutCreate | PutWrite | PutFinish | PutCommit _), RPut _ _ _ _ _ => true
  | (GetStart | GetOpen _ _ | GetSlow | GetValidate _ _ _ | GetDrop _ _ | GetProxyDecide _ | GetFetch
     | GetCreate _ | GetCopy _ | GetCheck _ | GetCommit _ _ _), RGet _ _ _ _ _ _ _ => true
  | (HasStart | HasProxy), RContains _ _ _ _ => true
  | (FMBatch _ _ | FMProxy _ _ _), RFindMissing _ _ _ => true
  | (Cleanup _ | Done _), _ => true
  | _, _ => false
  end.

(* a hit is the empty-blob shortcut or exactly one logged commit of that key *)
Definition hit_ok (log : list commit) (k : kind) (hash : string) (sz s cid flen : Z) : Prop :=
  (k = CAS /\ hash = emptySha256 /\ sz <= 0 /\ s = 0 /\ cid = 0 /\ flen = 0)
  \/ In (lookup_key k hash, cid, s, flen) log.

(* an acknowledged upload is the empty-blob shortcut or a logged commit of its key and content *)
Definition ack_logged (log : list commit) (k : kind) (hash : string) (sz : Z) (st : stream) : Prop :=
  (k = CAS /\ sz = 0 /\ hash = emptySha256) \/ exists od, In (lookup_key k hash, st_cid st, sz, od) log.

Definition resp_ok (log : list commit) (req : request) (r : response) : Prop :=
  match req with
  | RGet k hash sz _ _ _ _ => match r with GetHit s cid flen => hit_ok log k hash sz s cid flen | _ => True end
  | RPut k hash sz st _ => match r with PutOk => ack_logged log k hash sz st | _ => True end
  | _ => True
  end.

(* the verification of an upload: exact length, clean end of stream, and for CAS the hash *)
Definition put_good (c : cfg) (k : kind) (sz : Z) (st : stream) : bool :=
  (st_len st =? sz) && negb (st_err st) && (negb (kind_eqb k CAS) || st_hash_ok st)
  && (negb (kind_eqb k CAS && c_zstd c) || (sz >? 0)).

(* what the program counters of uploads and readers guarantee about the value they carry *)
Definition val_ok (c : cfg) (fs : list file) (X : list xcommit) (t : thread) : Prop :=
  match t_pc t with
  | PutCommit od =>
      match t_req t with
      | RPut k hash sz st rnd =>
          (exists p f, t_tmp t = Some p /\ find_file p fs = Some f /\ f_cid f = st_cid st /\ f_logical f = sz)
          /\ (kind_eqb k CAS = false -> od = sz) /\ put_good c k sz st = true
      | _ => True end
  | GetOpen v id =>
      match t_req t with
      | RGet k hash sz off zstd b rnd =>
          exists cid, In (path_of (lookup_key k hash) v, (lookup_key k hash, cid, size v, sizeOnDisk v)) X
      | _ => True end
  | GetValidate v id f =>
      match t_req t with
      | RGet k hash sz off zstd b rnd =>
          In (lookup_key k hash, f_cid f, size v, f_len f) (map snd X)
          /\ (kind_eqb k CAS = false -> size v = f_len f)
          /\ f_complete f = true
          /\ (kind_eqb k CAS = true -> legacy v = false -> f_logical f = size v)
      | _ => True end
  | GetDrop v id =>
      (* the guarded drop is reached only when a compressed CAS entry's logical size is neither
         unknown to the reader nor the size it asked for *)
      match t_req t with
      | RGet k hash sz off zstd b rnd =>
          kind_eqb k CAS = true /\ legacy v = false /\ sz <> -1 /\ sz <> size v
      | _ => True end
  | GetCommit cl od f =>
      match t_req t with
      | RGet k hash sz off zstd b rnd =>
          (exists p, t_tmp t = Some p /\ find_file p fs = Some f) /\ f_len f = od
          /\ (kind_eqb k CAS = false -> od = cl)
          /\ (kind_eqb k CAS && c_zstd c = true -> f_logical f = cl)
      | _ => True end
  | Cleanup r => resp_ok (map snd X) (t_req t) r
  | Done r => resp_ok (map snd X) (t_req t) r
  | _ => True
  end.

Record ConcInv (c : cfg) (s : sys) (X : list xcommit) (M : list path) : Prop := mkConcInv {
  ci_files_made : forall p, In p (map f_path (files (sd s))) -> In p M;
  ci_log_made : forall p cm, In (p, cm) X -> In p M;
  ci_log_tmp : forall p cm, In (p, cm) X -> ~ In p (tmp_paths (thr s));
  (* a committed name, as long as a file exists under it, holds the committed content *)
  ci_log_file : forall p key cid lsz len f, In (p, (key, cid, lsz, len)) X ->
                  find_file p (files (sd s)) = Some f ->
                  f_complete f = true /\ f_cid f = cid /\ f_len f = len
                  /\ (p_legacy p = false -> is_cas_key key = true -> f_logical f = lsz);
  ci_log_raw : forall p key cid lsz len, In (p, (key, cid, lsz, len)) X -> is_cas_key key = false -> lsz = len;
  (* every entry the index is responsible for was committed under its name with its sizes *)
  ci_entries : forall en, In en (all_entries (lru (sd s))) ->
                 exists cid, In (entry_path en, (ekey en, cid, size (evalue en), sizeOnDisk (evalue en))) X;
  ci_thr : Forall (val_ok c (files (sd s)) X) (thr s) }.

(* ------------------------------------------------------------------ *)
(* framing and monotonicity *)

Lemma resp_ok_mono log log' req r : incl log log' -> resp_ok log req r -> resp_ok log' req r.
Proof.
  intros Hi. unfold resp_ok, hit_ok, ack_logged. destruct req; auto; destruct r; auto.
  - intros [H|[od H]]; [left; exact H|right; exists od; apply Hi; exact H].
  - intros [H|H]; [left; exact H|right; apply Hi; exact H].
Qed.

Lemma val_ok_frame c fs fs' X X' t :
  (forall q, t_tmp t = Some q -> find_file q fs' = find_file q fs) -> incl X X' ->
  val_ok c fs X t -> val_ok c fs' X' t.
Proof.
  destruct t as [req pc h tmp]. unfold val_ok. simpl. intros Hq Hi Hv.
  assert (Hi' : incl (map snd X) (map snd X')) by (apply incl_map; exact Hi).
  destruct pc; try exact Hv; try (eapply resp_ok_mono; eassumption); destruct req; try exact Hv.
  - destruct Hv as [(p & f & H1 & H2 & H3) H4]. split; [|exact H4].
    exists p, f. rewrite (Hq _ H1). auto.
  - destruct Hv as [cid H]. exists cid. apply Hi. exact H.
  - destruct Hv as [H1 H2]. split; [apply Hi'; exact H1|exact H2].
  - destruct Hv as [(p & H1 & H2) H3]. split; [|exact H3]. exists p. rewrite (Hq _ H1). auto.
Qed.

Lemma others_val c fs fs' X X' l :
  (forall q, In q (tmp_paths l) -> find_file q fs' = find_file q fs) -> incl X X' ->
  Forall (val_ok c fs X) l -> Forall (val_ok c fs' X') l.
Proof.
  intros Hq Hi HF. rewrite Forall_forall in *. intros t Ht.
  apply (val_ok_frame c fs fs' X X'); [|exact Hi|apply HF; exact Ht].
  intros q Hq'. apply Hq. apply tmp_paths_In. exists t. auto.
Qed.

Lemma remove_file_incl p fs x : In x (map f_path (remove_file p fs)) -> In x (map f_path fs).
Proof.
  induction fs as [|f t IH]; simpl; [tauto|]. destruct (path_eqb (f_path f) p); simpl; [tauto|].
  intros [H|H]; [left; exact H|right; apply IH; exact H].
Qed.

Lemma find_file_remove_same p fs : NoDup (map f_path fs) -> find_file p (remove_file p fs) = None.
Proof.
  induction fs as [|f t IH]; simpl; intros ND; [reflexivity|]. inversion ND as [|? ? Hn ND']; subst.
  destruct (path_eqb (f_path f) p) eqn:E.
  - apply path_eqb_eq in E. subst p. apply find_file_notin. exact Hn.
  - simpl. rewrite E. apply IH. exact ND'.
Qed.

(* what the invariant of a committing thread says about the logged commit *)
Lemma commit_facts c fs X t t' key cid lsz len p f :
  thread_ok c fs t -> val_ok c fs X t -> commit_of t t' = Some (key, cid, lsz, len) ->
  t_tmp t = Some p -> find_file p fs = Some f ->
  f_cid f = cid /\ (is_cas_key key = false -> lsz = len)
  /\ (p_legacy p = false -> is_cas_key key = true -> f_logical f = lsz).
Proof.
  destruct t as [req pc h tmp]. unfold thread_ok, pc_ok, val_ok, commit_of. simpl. intros [_ Hok] Hv Hc Ht Hf. subst tmp.
  destruct pc; try discriminate; destruct req; try discriminate; destruct (t_pc t'); try discriminate;
    destruct r; try discriminate; inversion Hc; subst; clear Hc; rewrite is_cas_lookup_key.
  - destruct Hv as [(p' & f' & H1 & H2 & H3 & H5) [H4 _]]. inversion H1; subst p'. rewrite Hf in H2. inversion H2; subst f'.
    split; [exact H3|]. split; [intros Hk; symmetry; apply H4; exact Hk|]. intros _ _. exact H5.
  - destruct Hv as [(p' & H1 & H2) (H3 & H4 & H5)]. inversion H1; subst p'. rewrite Hf in H2. inversion H2; subst.
    split; [reflexivity|]. split; [intros Hk; symmetry; apply H4; exact Hk|].
    destruct Hok as [Hp _]. inversion Hp; subst p. simpl. intros Hl Hk. apply H5. rewrite Hk in *. simpl in *.
    destruct (c_zstd c); [reflexivity|discriminate].
Qed.

(* ------------------------------------------------------------------ *)
(* every kind of effect preserves the invariant *)

Lemma conc_preserves c d t d' t' l1 l2 X M :
  SysInv c (mkSys d (l1 ++ t :: l2)) -> ConcInv c (mkSys d (l1 ++ t :: l2)) X M ->
  Effect d t d' t' -> val_ok c (files d') (X ++ xcommit_of t t') t' ->
  (forall p, In p (created_of t t') -> ~ In p M) ->
  ConcInv c (mkSys d' (l1 ++ t' :: l2)) (X ++ xcommit_of t t') (M ++ created_of t t').
Proof.
  intros [HI HR HH HT HD HN HF] [CF CM CT CL CR CE CV] HE HV' Hfresh. simpl in *.
  rewrite tmp_paths_mid in HD, CT.
  apply Forall_app in CV as [CV1 CV2]. inversion CV2 as [|? ? CVt CV2']; subst.
  apply Forall_app in HT as [HT1 HT2]. inversion HT2 as [|? ? HTt HT2']; subst.
  assert (HND : NoDup (map entry_path (all_entries (lru d)) ++ tmp_paths l1 ++ otmp t ++ tmp_paths l2))
    by (eapply Permutation_NoDup; eassumption).
  assert (Htmp_files : forall q, In q (tmp_paths l1 ++ otmp t ++ tmp_paths l2) -> In q (map f_path (files d))).
  { intros q Hq. eapply Permutation_in; [apply Permutation_sym; exact HD|]. apply in_or_app. right. exact Hq. }
  destruct HE.
  - (* EIndex *)
    destruct ef_quiet as [Hnc Hnn]. unfold xcommit_of in *. rewrite Hnc in *. rewrite Hnn. rewrite !app_nil_r in *.
    constructor; simpl; rewrite ?tmp_paths_mid, ?ef_files in *.
    + exact CF.
    + exact CM.
    + unfold otmp at 1. rewrite ef_tmp. exact CT.
    + exact CL.
    + exact CR.
    + intros en Hen. apply CE. eapply Permutation_in; eassumption.
    + apply Forall_app; split; [exact CV1|]. constructor; assumption.
  - (* ECommit *)
    destruct ef_commit as [cid Hc]. unfold xcommit_of in *. rewrite Hc in *. rewrite ef_tmp in *. rewrite ef_nocreate.
    rewrite app_nil_r. unfold otmp in HD, HND, CT, Htmp_files. rewrite ef_tmp in HD, HND, CT, Htmp_files.
    set (cm := (ekey en, cid, size (evalue en), sizeOnDisk (evalue en))) in *.
    assert (Hn : ~ In p (tmp_paths l1 ++ tmp_paths l2)).
    { rewrite app_assoc in HND. apply NoDup_remove_2 in HND. rewrite <- app_assoc in HND.
      intros Hx. apply HND. apply in_or_app. right. exact Hx. }
    destruct ef_ready as (f0 & Hf0 & Hcomp & Hlen).
    destruct (commit_facts c (files d) X t t' _ _ _ _ p f0 HTt CVt Hc ef_tmp Hf0) as (Hcid & Hraw & Hlog).
    constructor; simpl; rewrite ?tmp_paths_mid, ?ef_files in *.
    + exact CF.
    + intros q cm' Hin. apply in_app_iff in Hin as [Hin|[Hin|[]]]; [eapply CM; exact Hin|].
      inversion Hin; subst q cm'. apply CF. apply Htmp_files. rewrite !in_app_iff. right. left. left. reflexivity.
    + intros q cm' Hin Hq. unfold otmp in Hq. rewrite ef_tmp' in Hq. simpl in Hq.
      apply in_app_iff in Hin as [Hin|[Hin|[]]].
      * apply (CT q cm' Hin). rewrite !in_app_iff in *. simpl. tauto.
      * inversion Hin; subst q cm'. exact (Hn Hq).
    + intros q key cid' lsz len f Hin Hf. apply in_app_iff in Hin as [Hin|[Hin|[]]]; [eapply CL; eassumption|].
      inversion Hin; subst. rewrite Hf0 in Hf. inversion Hf; subst f. auto.
    + intros q key cid' lsz len Hin. apply in_app_iff in Hin as [Hin|[Hin|[]]]; [eapply CR; eassumption|].
      inversion Hin; subst. exact Hraw.
    + intros en' Hen. apply (Permutation_in _ ef_ent) in Hen. destruct Hen as [<-|Hen].
      * exists cid. apply in_or_app. right. left. rewrite ef_path. reflexivity.
      * destruct (CE en' Hen) as [cid' H]. exists cid'. apply in_or_app. left. exact H.
    + apply Forall_app; split; [|constructor; [exact HV'|]].
      * apply (others_val c (files d) (files d) X); auto. apply incl_appl, incl_refl.
      * apply (others_val c (files d) (files d) X); auto. apply incl_appl, incl_refl.
  - (* ECreate *)
    unfold xcommit_of in *. rewrite ef_nocommit in *. rewrite ef_created in *. rewrite app_nil_r in *.
    unfold otmp in HD, HND, CT, Htmp_files. rewrite ef_tmp in HD, HND, CT, Htmp_files. simpl in HD, HND, CT, Htmp_files.
    assert (Hq : ~ In (f_path f) M) by (apply Hfresh; left; reflexivity).
    assert (Hframe : forall q, In q M -> find_file q (files d') = find_file q (files d)).
    { intros q Hin. rewrite ef_files. apply find_file_cons_other. intros ->. exact (Hq Hin). }
    constructor; simpl; rewrite ?tmp_paths_mid, ?ef_lru in *.
    + rewrite ef_files. simpl. intros q [<-|Hin]; apply in_or_app; [right; left; reflexivity|left; apply CF; exact Hin].
    + intros q cm Hin. apply in_or_app. left. eapply CM; exact Hin.
    + intros q cm Hin Hx. unfold otmp in Hx. rewrite ef_tmp' in Hx. simpl in Hx.
      apply in_app_iff in Hx as [Hx|[Hx|Hx]].
      * apply (CT q cm Hin). apply in_or_app. left. exact Hx.
      * subst q. apply Hq. eapply CM; exact Hin.
      * apply (CT q cm Hin). apply in_or_app. right. exact Hx.
    + intros q key cid lsz len f' Hin Hf. rewrite Hframe in Hf by (eapply CM; exact Hin). eapply CL; eassumption.
    + exact CR.
    + exact CE.
    + apply Forall_app; split; [|constructor; [exact HV'|]].
      * apply (others_val c (files d) (files d') X); auto using incl_refl.
        intros q Hin. apply Hframe, CF, Htmp_files. apply in_or_app. left. exact Hin.
      * apply (others_val c (files d) (files d') X); auto using incl_refl.
        intros q Hin. apply Hframe, CF, Htmp_files. apply in_or_app. right. exact Hin.
  - (* ERewrite *)
    destruct ef_quiet as [Hnc Hnn]. unfold xcommit_of in *. rewrite Hnc in *. rewrite Hnn. rewrite !app_nil_r in *.
    unfold otmp in HD, HND, CT, Htmp_files. rewrite ef_tmp in HD, HND, CT, Htmp_files. simpl in HD, HND, CT, Htmp_files.
    assert (Hn : ~ In (f_path f) (tmp_paths l1 ++ tmp_paths l2)).
    { rewrite app_assoc in HND. apply NoDup_remove_2 in HND. rewrite <- app_assoc in HND.
      intros Hx. apply HND. apply in_or_app. right. exact Hx. }
    assert (Hin : In (f_path f) (map f_path (files d))).
    { apply Htmp_files. apply in_or_app. right. left. reflexivity. }
    assert (Hframe : forall q, q <> f_path f -> find_file q (files d') = find_file q (files d)).
    { intros q Hq. rewrite ef_files. apply find_file_put_other. exact Hq. }
    constructor; simpl; rewrite ?tmp_paths_mid, ?ef_lru in *.
    + rewrite ef_files. unfold put_file. simpl. intros q [<-|Hq]; apply CF; [exact Hin|eapply remove_file_incl; exact Hq].
    + exact CM.
    + unfold otmp at 1. rewrite ef_tmp'. exact CT.
    + intros q key cid lsz len f' Hx Hf. rewrite Hframe in Hf; [eapply CL; eassumption|].
      intros ->. apply (CT _ _ Hx). apply in_or_app. right. left. reflexivity.
    + exact CR.
    + exact CE.
    + apply Forall_app; split; [|constructor; [exact HV'|]].
      * apply (others_val c (files d) (files d') X); auto using incl_refl.
        intros q Hx. apply Hframe. intros ->. apply Hn. apply in_or_app. left. exact Hx.
      * apply (others_val c (files d) (files d') X); auto using incl_refl.
        intros q Hx. apply Hframe. intros ->. apply Hn. apply in_or_app. right. exact Hx.
  - (* ERemove *)
    destruct ef_quiet as [Hnc Hnn]. unfold xcommit_of in *. rewrite Hnc in *. rewrite Hnn. rewrite !app_nil_r in *.
    unfold otmp in HD, HND, CT, Htmp_files. rewrite ef_tmp in HD, HND, CT, Htmp_files. simpl in HD, HND, CT, Htmp_files.
    assert (Hn : ~ In p (tmp_paths l1 ++ tmp_paths l2)).
    { rewrite app_assoc in HND. apply NoDup_remove_2 in HND. rewrite <- app_assoc in HND.
      intros Hx. apply HND. apply in_or_app. right. exact Hx. }
    assert (Hframe : forall q, q <> p -> find_file q (files d') = find_file q (files d)).
    { intros q Hq. rewrite ef_files. apply find_file_remove_other. exact Hq. }
    constructor; simpl; rewrite ?tmp_paths_mid, ?ef_lru in *.
    + rewrite ef_files. intros q Hq. apply CF. eapply remove_file_incl; exact Hq.
    + exact CM.
    + intros q cm Hx Hq. unfold otmp in Hq. rewrite ef_tmp' in Hq. simpl in Hq.
      apply (CT q cm Hx). rewrite !in_app_iff in *. simpl. tauto.
    + intros q key cid lsz len f' Hx Hf. rewrite Hframe in Hf; [eapply CL; eassumption|].
      intros ->. apply (CT _ _ Hx). apply in_or_app. right. left. reflexivity.
    + exact CR.
    + exact CE.
    + apply Forall_app; split; [|constructor; [exact HV'|]].
      * apply (others_val c (files d) (files d') X); auto using incl_refl.
        intros q Hx. apply Hframe. intros ->. apply Hn. apply in_or_app. left. exact Hx.
      * apply (others_val c (files d) (files d') X); auto using incl_refl.
        intros q Hx. apply Hframe. intros ->. apply Hn. apply in_or_app. right. exact Hx.
Qed.
