(* Proofs/Front_base.v — facts about the calls the front-end adapters make into the disk model:
   what an accepted Put implies (from Proofs/Disk_ack), that an oversize or negative Put is refused
   with BadRequest without touching the state, and the empty-blob shortcuts of Get / Contains. *)
From BR Require Import Base.Prelude Model.LRU Model.Disk Proofs.Disk_ack Model.Front.
Open Scope Z_scope.

Lemma run_thread_S c f d t :
  run_thread c (S f) d t = match tstep c d t with Some (d', t') => run_thread c f d' t' | None => (d, t) end.
Proof. reflexivity. Qed.

Lemma tstep_done c d req resp held tmp : tstep c d (mkThread req (Done resp) held tmp) = None.
Proof. unfold tstep. cbn [t_pc t_req]. destruct req; reflexivity. Qed.

Lemma fuel_ge2 r : exists f, fuel_for r = S (S f).
Proof. destruct r; cbn; try (eexists; reflexivity). exists (2 * List.length ds + 6)%nat. lia. Qed.

(* a request answered by its very first step *)
Lemma exec_first_step c d r resp :
  tstep c d (spawn r) = Some (d, goto (spawn r) (Done resp)) -> exec c d r = (d, Some resp).
Proof.
  intros H. unfold exec. destruct (fuel_ge2 r) as [f ->].
  rewrite run_thread_S, H, run_thread_S. unfold goto. rewrite tstep_done. reflexivity.
Qed.

(* ---------------- Put ---------------- *)

(* the empty-blob shortcut of Put: nothing is stored, and it is taken only if no data came along *)
Definition declared_empty (hash : string) (sz : Z) (st : stream) : Prop :=
  sz = 0 /\ hash = emptySha256 /\ st_len st <= 0.

(* an accepted Put of a CAS blob: size within the disk layer's limit, exactly [sz] bytes, clean end,
   matching hash — or the empty-blob shortcut, which stores nothing *)
Lemma disk_put_ok c d hash sz st rnd d' :
  disk_put c d CAS hash sz st rnd = (d', None) ->
  (0 <= sz <= c_maxblob (fc_disk c) /\ st_len st = sz /\ st_err st = false /\ st_hash_ok st = true)
  \/ declared_empty hash sz st.
Proof.
  unfold disk_put. destruct (exec (fc_disk c) d (RPut CAS hash sz st rnd)) as [d1 [r|]] eqn:E.
  - destruct r; try (intros H; inversion H; fail).
    intros H; inversion H; subst.
    destruct (exec_put_ok_sound _ _ _ _ _ _ _ _ E) as [[G [U1 [U2 U3]]]|[[_ [S1 S2]] [S3 S4]]]; [destruct G as [G1 G2]|].
    + left. repeat split; try assumption; try lia. apply U3. reflexivity.
    + right. repeat split; assumption.
  - intros H; inversion H.
Qed.

Lemma disk_put_ok_any c d k hash sz st rnd d' :
  disk_put c d k hash sz st rnd = (d', None) -> 0 <= sz <= c_maxblob (fc_disk c) \/ declared_empty hash sz st.
Proof.
  unfold disk_put. destruct (exec (fc_disk c) d (RPut k hash sz st rnd)) as [d1 [r|]] eqn:E.
  - destruct r; try (intros H; inversion H; fail).
    intros _. destruct (exec_put_ok_sound _ _ _ _ _ _ _ _ E) as [[G _]|[[_ [S1 S2]] [S3 S4]]]; [destruct G as [G1 G2]|].
    + left. lia.
    + right. repeat split; assumption.
  - intros H; inversion H.
Qed.

(* the disk layer's own guard (disk.go: size < 0, size > c.maxBlobSize): BadRequest, state untouched *)
Lemma disk_put_refused c d k hash sz st rnd :
  sz < 0 \/ sz > c_maxblob (fc_disk c) -> disk_put c d k hash sz st rnd = (d, Some EBadRequest).
Proof.
  intros H. unfold disk_put.
  rewrite (exec_first_step _ _ _ (PutErr EBadRequest)); [reflexivity|].
  unfold tstep, spawn. cbn [t_pc t_req].
  destruct (sz <? 0) eqn:E1; [reflexivity|].
  destruct (sz >? c_maxblob (fc_disk c)) eqn:E2; [reflexivity|]. lia.
Qed.

(* ---------------- the empty blob ---------------- *)

Lemma emptySha_len : Z.of_nat (String.length emptySha256) =? hashLen = true.
Proof. vm_compute. reflexivity. Qed.

Lemma disk_get_empty c d sz off z :
  -1 <= sz <= 0 -> disk_get c d CAS emptySha256 sz off z = (d, GHit 0 0).
Proof.
  intros H. unfold disk_get.
  rewrite (exec_first_step _ _ _ (GetHit 0 0 0)); [reflexivity|].
  unfold tstep, spawn. cbn [t_pc t_req]. rewrite emptySha_len. cbn [negb].
  try replace (sz <? -1) with false by lia.
  replace (sz <=? 0) with true by lia. rewrite String.eqb_refl. reflexivity.
Qed.

Lemma disk_contains_empty c d sz :
  sz <= 0 -> disk_contains c d CAS emptySha256 sz = (d, true, 0).
Proof.
  intros H. unfold disk_contains.
  rewrite (exec_first_step _ _ _ (Has true 0)); [reflexivity|].
  unfold tstep, spawn. cbn [t_pc t_req]. rewrite emptySha_len. cbn [negb].
  replace (sz <=? 0) with true by lia. rewrite String.eqb_refl. reflexivity.
Qed.

Lemma validate_hash_empty : validate_hash emptySha256 0 = true.
Proof. vm_compute. reflexivity. Qed.

(* ---------------- small facts ---------------- *)

Lemma grpc_code_bad dflt : grpc_code EBadRequest dflt = EBadRequest.
Proof. reflexivity. Qed.

Lemma put_status_ok dflt r : put_status dflt r = SOk -> r = None.
Proof. destruct r; cbn; [discriminate|reflexivity]. Qed.

Lemma stream_of_good b sz :
  st_len (stream_of b) = sz /\ st_err (stream_of b) = false /\ st_hash_ok (stream_of b) = true -> body_good b sz.
Proof.
  unfold stream_of, body_good. cbn. intros (H1 & H2 & H3). repeat split; try assumption.
  destruct (b_clean b); [reflexivity|discriminate].
Qed.
