(* Proofs/LRU_refine_prims.v — what LRU_inv.Inv and the side condition give (no wrap-around), and
   the remaining run-time primitives (MoveToFront, PushFront + map store, the value update of an
   overwriting Add, calcTotalDiskSizeAndUpdatePeak) against the model. *)
From Coq Require Import Permutation.
From BR Require Import Base.Prelude Gen.Funcs Model.LRU Model.GoLRU Gen.LRUSrc Model.GoLRURun
  Proofs.LRU_inv Bridge.Bridge_LRU Proofs.LRU_refine_base Proofs.LRU_refine_loop.
Open Scope list_scope.
Open Scope Z_scope.

Local Opaque wrap64 wrapU64 Gen.roundUp4k Gen.sumLargerThan.

(* ------------------------------------------------------------------ *)
(* bounds from the invariant *)

Lemma acct_sums d du s : AcctD d du s ->
  0 <= sumZ r4k_disk (order s) /\ 0 <= sumZ r4k_size (order s) /\ 0 <= sumZ sod (order s) /\
  sumZ sod (order s) <= sumZ r4k_disk (order s) /\ 0 <= qbytes s.
Proof.
  intros [_ _ _ _ _ _ Aq Ait Aqi]. rewrite Forall_forall in Ait, Aqi.
  splits.
  - apply sumZ_nonneg. intros x Hx. apply roundUp4k_nonneg, (Ait x Hx).
  - apply sumZ_nonneg. intros x Hx. apply roundUp4k_nonneg, (Ait x Hx).
  - apply sumZ_nonneg. intros x Hx. apply (Ait x Hx).
  - apply sumZ_le. intros x Hx. apply roundUp4k_bounds.
  - rewrite Aq. apply sumZ_nonneg. intros x Hx. apply (Aqi x Hx).
Qed.

Lemma Bnd_P_nonneg d du s : Bnd d du s -> 0 <= cur s + d /\ 0 <= unc s + du /\ res s <= cur s + d.
Proof.
  intros HB. destruct (acct_sums d du s (b_acct _ _ _ HB)) as (S1 & S2 & _).
  destruct (b_acct _ _ _ HB) as [_ _ _ Ac Au Ar _ _ _]. lia.
Qed.

Lemma acct_item d du s e : AcctD d du s -> In e (order s) ->
  0 <= sod e <= r4k_disk e /\ r4k_disk e <= sumZ r4k_disk (order s) /\
  0 <= size (evalue (ent e)) <= r4k_size e /\ r4k_size e <= sumZ r4k_size (order s) /\
  sod e <= sumZ sod (order s).
Proof.
  intros HA Hin. destruct HA as [_ _ _ _ _ _ _ Ait _]. rewrite Forall_forall in Ait.
  pose proof (Ait e Hin) as [I1 I2].
  pose proof (roundUp4k_bounds (sizeOnDisk (evalue (ent e)))).
  pose proof (roundUp4k_bounds (size (evalue (ent e)))).
  assert (r4k_disk e <= sumZ r4k_disk (order s)).
  { apply sumZ_ge_item; [|exact Hin]. intros y Hy. apply roundUp4k_nonneg, (Ait y Hy). }
  assert (r4k_size e <= sumZ r4k_size (order s)).
  { apply sumZ_ge_item; [|exact Hin]. intros y Hy. apply roundUp4k_nonneg, (Ait y Hy). }
  assert (sod e <= sumZ sod (order s)).
  { apply sumZ_ge_item; [|exact Hin]. intros y Hy. apply (Ait y Hy). }
  unfold sod, r4k_disk, r4k_size in *. lia.
Qed.

Lemma sizes_ok_spec s : sizes_ok s = true -> maxs s <= two61 /\ unc s < two62 /\ qbytes s < two62.
Proof. unfold sizes_ok. lia. Qed.

Lemma Inv_Bnd0 s : Inv s -> sizes_ok s = true -> Bnd 0 0 s.
Proof.
  intros (HA & Hm & Hp) Hs. apply sizes_ok_spec in Hs as (M1 & M2 & M3).
  destruct (acct_sums 0 0 s HA) as (S1 & S2 & S3 & S4 & S5).
  pose proof HA as [_ _ _ Ac Au Ar _ _ _].
  constructor; try exact HA; unfold two61, two62, maxInt64 in *; try lia.
  apply Forall_forall. intros e He.
  destruct (acct_item 0 0 s e HA He) as (I1 & I2 & I3 & I4 & I5). lia.
Qed.

(* every listed element can be removed without wrap-around *)
Lemma Inv_elem s e : Inv s -> sizes_ok s = true -> In e (order s) ->
  0 <= sod e <= two62 /\ 0 <= size (evalue (ent e)) <= two62 /\
  in_i64 (cur s - r4k_disk e) /\ in_i64 (unc s - r4k_size e) /\ in_i64 (qbytes s + sod e).
Proof.
  intros (HA & Hm & Hp) Hs He. apply sizes_ok_spec in Hs as (M1 & M2 & M3).
  destruct (acct_sums 0 0 s HA) as (S1 & S2 & S3 & S4 & S5).
  destruct (acct_item 0 0 s e HA He) as (I1 & I2 & I3 & I4 & I5).
  destruct HA as [_ _ _ Ac Au Ar _ _ _].
  unfold in_i64, two61, two62, two63, maxInt64 in *. lia.
Qed.

Lemma In_abs_order c e : In e (g_ll c) -> In (abs_elem c e) (order (abs c)).
Proof. intros H. simpl. rewrite <- in_rev. apply in_map. exact H. Qed.

Lemma removeElement_listed c e : WF c -> Inv (abs c) -> sizes_ok (abs c) = true -> In e (g_ll c) ->
  abs (LRUSrc_removeElement c e) = remove_elem (abs_elem c e) (abs c) /\
  WFm (LRUSrc_removeElement c e).
Proof.
  intros HW HI Hs Hin. split; [|apply removeElement_WFm; assumption].
  destruct (Inv_elem (abs c) (abs_elem c e) HI Hs (In_abs_order c e Hin)) as (B1 & B2 & B3 & B4 & B5).
  apply removeElement_abs; try assumption. apply HW.
Qed.

(* ------------------------------------------------------------------ *)
(* field updates that the abstraction and WF do not see *)

Lemma WF_set_peak c p : WF c -> WF (set_totalDiskSizePeak c p).
Proof. intros [H1 H2 H3 [H4 H5]]. constructor; [exact H1|exact H2|exact H3|]. constructor; [exact H4|exact H5]. Qed.

Lemma WFm_ext c c' : g_ll c' = g_ll c -> g_heap c' = g_heap c -> g_cache c' = g_cache c -> WFm c -> WFm c'.
Proof.
  intros E1 E2 E3 [H1 H2]. constructor.
  - rewrite E1, E2. exact H1.
  - intros k id. unfold map_get, key, elem_value. rewrite E1, E2, E3. apply H2.
Qed.

(* calcTotalDiskSizeAndUpdatePeak *)
Lemma calc_eq c n :
  0 <= g_currentSize c -> 0 <= g_queuedEvictionsSize c -> 0 <= n ->
  g_currentSize c + g_queuedEvictionsSize c + n < two64 ->
  LRUSrc_calcTotalDiskSizeAndUpdatePeak c n =
  (set_totalDiskSizePeak c (Z.max (g_totalDiskSizePeak c) (g_currentSize c + g_queuedEvictionsSize c + n)),
   g_currentSize c + g_queuedEvictionsSize c + n).
Proof.
  intros H1 H2 H3 H4. unfold LRUSrc_calcTotalDiskSizeAndUpdatePeak. cbv zeta.
  rewrite (wrapU64_id (g_currentSize c)), (wrapU64_id (g_queuedEvictionsSize c)), (wrapU64_id n)
    by (unfold two64 in *; lia).
  rewrite (wrapU64_id (g_currentSize c + g_queuedEvictionsSize c)) by (unfold two64 in *; lia).
  rewrite wrapU64_id by (unfold two64 in *; lia).
  destruct (g_currentSize c + g_queuedEvictionsSize c + n >? g_totalDiskSizePeak c) eqn:E.
  - rewrite Z.max_r by lia. reflexivity.
  - rewrite Z.max_l by lia. destruct c; reflexivity.
Qed.

Lemma abs_set_peak c n :
  abs (set_totalDiskSizePeak c (Z.max (g_totalDiskSizePeak c) (g_currentSize c + g_queuedEvictionsSize c + n)))
  = upd_peak n (abs c).
Proof. reflexivity. Qed.

(* ------------------------------------------------------------------ *)
(* MoveToFront *)

Lemma moveToFront_eq c e : In e (g_ll c) -> ll_MoveToFront c e = set_ll (e :: remove_nat e (g_ll c)) c.
Proof. intros H. unfold ll_MoveToFront. apply mem_nat_In in H. rewrite H. reflexivity. Qed.

Lemma moveToFront_abs c e : NoDup (g_ll c) -> In e (g_ll c) ->
  abs (ll_MoveToFront c e) = set_order (remove_id e (order (abs c)) ++ [abs_elem c e]) (abs c).
Proof.
  intros ND Hin. rewrite (moveToFront_eq c e Hin). unfold abs, set_order. simpl.
  rewrite (remove_rev_map _ (abs_elem_eid c) e (g_ll c) ND). reflexivity.
Qed.

Lemma moveToFront_WFm c e : WF c -> In e (g_ll c) -> WFm (ll_MoveToFront c e).
Proof.
  intros [ND _ _ [Hh Hm]] Hin. rewrite (moveToFront_eq c e Hin).
  assert (Hiff : forall id, In id (e :: remove_nat e (g_ll c)) <-> In id (g_ll c)).
  { intros id. simpl. rewrite (In_remove_nat e id _ ND). split.
    - intros [->|[H _]]; assumption.
    - intros H. destruct (Nat.eq_dec e id) as [->|Hne]; [left; reflexivity|right; split; [exact H|congruence]]. }
  constructor.
  - intros id H. apply Hh. apply Hiff. exact H.
  - intros k id. change (map_get c k = Some id <-> In id (e :: remove_nat e (g_ll c)) /\ key c id = k).
    rewrite Hiff. apply Hm.
Qed.

(* ------------------------------------------------------------------ *)
(* the list / heap / queue update of an overwriting Add *)

Definition overwrite (c : gst) (ee : nat) (v : item) : gst :=
  let c2 := ll_MoveToFront c ee in
  let kv := elem_value c2 ee in
  elem_set_value (appendEvictionToQueue c2 (mkEntry (ekey kv) (evalue kv))) ee v.

Lemma overwrite_abs c ee v : NoDup (g_ll c) -> In ee (g_ll c) ->
  in_i64 (g_queuedEvictionsSize c + sizeOnDisk (evalue (elem_value c ee))) ->
  abs (overwrite c ee v) =
  enqueue (mkEntry (ekey (ent (abs_elem c ee))) (evalue (ent (abs_elem c ee))))
    (set_order (remove_id (eid (abs_elem c ee)) (order (abs c)) ++
                [mkElem (eid (abs_elem c ee)) (mkEntry (key c ee) v)]) (abs c)).
Proof.
  intros ND Hin Hq. unfold overwrite. cbv zeta. rewrite (moveToFront_eq c ee Hin).
  unfold abs, enqueue, set_order, elem_set_value, appendEvictionToQueue, elem_value, key, elem_value. simpl.
  rewrite wrap64_id by exact Hq.
  f_equal.
  rewrite (remove_rev_map _ (abs_elem_eid c) ee (g_ll c) ND). f_equal.
  - f_equal. apply map_ext_in. intros id Hid. unfold abs_elem, elem_value. simpl.
    rewrite heap_get_set_other; [reflexivity|].
    apply (In_remove_nat ee id _ ND) in Hid. tauto.
  - unfold abs_elem, elem_value. simpl. rewrite heap_get_set_same. reflexivity.
Qed.

Lemma overwrite_frame c ee v : In ee (g_ll c) ->
  g_ll (overwrite c ee v) = ee :: remove_nat ee (g_ll c) /\
  g_cache (overwrite c ee v) = g_cache c /\
  g_heap (overwrite c ee v) = heap_set ee (mkEntry (key c ee) v) (g_heap c) /\
  g_maxSize (overwrite c ee v) = g_maxSize c.
Proof. intros Hin. unfold overwrite. cbv zeta. rewrite (moveToFront_eq c ee Hin). repeat split. Qed.

Lemma overwrite_WFm c ee v : WF c -> In ee (g_ll c) -> WFm (overwrite c ee v).
Proof.
  intros HW Hin. pose proof (moveToFront_WFm c ee HW Hin) as [Hh Hm].
  destruct (overwrite_frame c ee v Hin) as (El & Ec & Eh & _).
  rewrite (moveToFront_eq c ee Hin) in Hh, Hm.
  assert (Hkey : forall id, key (overwrite c ee v) id = key c id).
  { intros id. unfold key, elem_value. rewrite Eh. destruct (Nat.eq_dec id ee) as [->|Hne].
    - rewrite heap_get_set_same. reflexivity.
    - rewrite heap_get_set_other by exact Hne. reflexivity. }
  constructor.
  - intros id H. rewrite Eh. apply heap_set_dom. apply Hh. rewrite El in H. exact H.
  - intros k id. rewrite Hkey, El. unfold map_get. rewrite Ec. apply Hm.
Qed.

(* ------------------------------------------------------------------ *)
(* PushFront + map store of an Add of a new key *)

Definition pushnew (c : gst) (k : string) (v : item) : gst :=
  let '(c1, id) := ll_PushFront c (mkEntry k v) in map_set c1 k id.

Lemma pushnew_abs c k v : Forall (fun id => (id < g_next c)%nat) (g_ll c) ->
  abs (pushnew c k v) =
  mkState (order (abs c) ++ [mkElem (next (abs c)) (mkEntry k v)]) (S (next (abs c))) (cur (abs c))
          (unc (abs c)) (res (abs c)) (maxs (abs c)) (hard (abs c)) (evq (abs c)) (qbytes (abs c))
          (peak (abs c)).
Proof.
  intros HF. unfold pushnew, ll_PushFront, map_set, abs. simpl. f_equal. f_equal.
  - f_equal. apply map_ext_in. intros id Hid. unfold abs_elem, elem_value. simpl.
    rewrite Forall_forall in HF. specialize (HF id Hid).
    destruct (Nat.eqb (g_next c) id) eqn:E; [apply Nat.eqb_eq in E; lia|reflexivity].
  - unfold abs_elem, elem_value. simpl. rewrite Nat.eqb_refl. reflexivity.
Qed.

Lemma pushnew_WFm c k v : WF c -> map_get c k = None -> WFm (pushnew c k v).
Proof.
  intros [ND HF HK [Hh Hm]] Hnone.
  assert (Hkey : forall id, In id (g_ll c) -> key (pushnew c k v) id = key c id).
  { intros id Hid. unfold key, elem_value, pushnew. simpl. rewrite Forall_forall in HF. specialize (HF id Hid).
    destruct (Nat.eqb (g_next c) id) eqn:E; [apply Nat.eqb_eq in E; lia|reflexivity]. }
  assert (Hkn : key (pushnew c k v) (g_next c) = k).
  { unfold key, elem_value, pushnew. simpl. rewrite Nat.eqb_refl. reflexivity. }
  assert (Hfresh : ~ In (g_next c) (g_ll c)).
  { intros H. rewrite Forall_forall in HF. specialize (HF _ H). lia. }
  constructor.
  - intros id. unfold pushnew. simpl. intros [H|H]; [left; exact H|right; apply Hh; exact H].
  - intros k' id.
    change (assoc_get k' ((k, g_next c) :: assoc_del k (g_cache c)) = Some id <->
            (g_next c = id \/ In id (g_ll c)) /\ key (pushnew c k v) id = k').
    simpl. destruct (String.eqb k k') eqn:E.
    + apply String.eqb_eq in E. subst k'. split.
      * intros H. inversion H; subst. split; [left; reflexivity|exact Hkn].
      * intros [[H|H] Hk]; [subst; reflexivity|]. exfalso. rewrite (Hkey id H) in Hk.
        assert (X : map_get c k = Some id) by (apply Hm; split; assumption). congruence.
    + apply String.eqb_neq in E. rewrite assoc_get_del_other by congruence.
      unfold map_get in Hm. rewrite (Hm k' id). split.
      * intros [H1 H2]. split; [right; exact H1|]. rewrite (Hkey id H1). exact H2.
      * intros [[H|H] Hk]; [subst id; congruence|]. split; [exact H|]. rewrite <- (Hkey id H). exact Hk.
Qed.
