(* Proofs/Load_global.v — the GLOBAL outcome of the loader's oldest-first Add pass, as a function of
   the access-time-sorted scan result alone (pure list part; Load_global2.v ties it to load_loop).

     trim mx l          drop entries from the old end while the 4 KiB-rounded total exceeds mx:
                        the longest suffix of l whose total is <= mx
     lstep mx S x       one Add: a file that alone exceeds mx is refused; otherwise the entry of the
                        same key leaves the list, x goes to the new end, the old end is trimmed
     survivors mx l     fold of lstep over l from the empty index

   survivors is always a fitting suffix of the candidates [cands mx l].  It is the LONGEST fitting
   suffix of the candidates whenever, for each key, a more recently accessed indexable file is not
   smaller (rounded) than an older one of that key ([key_mono]) — in particular with distinct keys
   or with equal rounded sizes.  Without that it need not be ([Load_global2.longest_suffix_refuted]);
   what holds in general is [evicted_reason]: every evicted candidate e was, at some moment of the
   pass, the old end of the live candidates with total(e and everything newer then live) > mx. *)
From Coq Require Import Permutation Sorting.Sorted.
From BR Require Import Base.Prelude Model.LRU Model.Names Model.Load Proofs.LRU_inv Proofs.Load_add
  Proofs.Load_loop.
Open Scope Z_scope.
Open Scope list_scope.

Fixpoint trim (mx : Z) (l : list sfile) : list sfile :=
  match l with
  | [] => []
  | _ :: t => if sumZ r_of l <=? mx then l else trim mx t
  end.

Definition lstep (mx : Z) (S : list sfile) (x : sfile) : list sfile :=
  if fitsb mx x then trim mx (filter (keep_other (sf_key x)) S ++ [x]) else S.

Definition survivors_from (mx : Z) (S : list sfile) (l : list sfile) : list sfile := fold_left (lstep mx) l S.
Definition survivors (mx : Z) (l : list sfile) : list sfile := survivors_from mx [] l.

Definition nonneg (l : list sfile) : Prop := Forall (fun x => 0 <= r_of x) l.

Definition fitting_suffix (mx : Z) (l K : list sfile) : Prop :=
  (exists A, l = A ++ K) /\ sumZ r_of K <= mx.
Definition longest_fitting_suffix (mx : Z) (l K : list sfile) : Prop :=
  fitting_suffix mx l K /\
  forall K', fitting_suffix mx l K' -> exists B, K = B ++ K'.

(* for each key, the indexable files in access order have non-decreasing rounded sizes *)
Definition key_mono (mx : Z) (l : list sfile) : Prop :=
  forall a x b, l = a ++ x :: b -> fitsb mx x = true ->
  forall d, In d a -> fitsb mx d = true -> sf_key d = sf_key x -> r_of d <= r_of x.

(* ------------------------------------------------------------------ *)
(* trim *)

Lemma trim_split mx : forall l, exists A, l = A ++ trim mx l.
Proof.
  induction l as [|x t [A IH]]; [exists []; reflexivity|]. simpl.
  destruct (r_of x + sumZ r_of t <=? mx); [exists []; reflexivity|].
  exists (x :: A). simpl. rewrite <- IH. reflexivity.
Qed.

Lemma trim_length mx l : (List.length (trim mx l) <= List.length l)%nat.
Proof. destruct (trim_split mx l) as [A HA]. rewrite HA at 2. rewrite app_length. lia. Qed.

Lemma trim_fits mx : 0 <= mx -> forall l, sumZ r_of (trim mx l) <= mx.
Proof.
  intros Hmx. induction l as [|x t IH]; simpl; [exact Hmx|].
  destruct (r_of x + sumZ r_of t <=? mx) eqn:E; [simpl; lia|exact IH].
Qed.

Lemma trim_needed mx : forall l A, l = A ++ trim mx l ->
  forall A1 a A2, A = A1 ++ a :: A2 -> sumZ r_of (a :: A2 ++ trim mx l) > mx.
Proof.
  induction l as [|x t IH]; intros A HA A1 a A2 HA1.
  - destruct A; [destruct A1; discriminate|discriminate].
  - simpl in HA. simpl trim. destruct (r_of x + sumZ r_of t <=? mx) eqn:E.
    + assert (A = []).
      { destruct A as [|y A]; [reflexivity|]. apply (f_equal (@List.length _)) in HA.
        simpl in HA. rewrite app_length in HA. simpl in HA. lia. }
      subst A. destruct A1; discriminate.
    + destruct A as [|y A].
      { simpl in HA. pose proof (trim_length mx t) as HB. rewrite <- HA in HB. simpl in HB. lia. }
      simpl in HA. injection HA as Hy Ht. subst y.
      destruct A1 as [|z A1]; simpl in HA1; injection HA1 as Hz HA'.
      * rewrite <- Hz, <- HA'. simpl. rewrite <- Ht. lia.
      * eapply IH; [exact Ht|exact HA'].
Qed.

Lemma trim_unique mx : forall A B,
  sumZ r_of B <= mx ->
  (forall A1 a A2, A = A1 ++ a :: A2 -> sumZ r_of (a :: A2 ++ B) > mx) ->
  trim mx (A ++ B) = B.
Proof.
  induction A as [|a A IH]; intros B HB Hneed.
  - simpl. destruct B as [|x t]; [reflexivity|]. simpl in *.
    destruct (r_of x + sumZ r_of t <=? mx) eqn:E; [reflexivity|lia].
  - pose proof (Hneed [] a A eq_refl) as H0. simpl in H0. simpl.
    destruct (r_of a + sumZ r_of (A ++ B) <=? mx) eqn:E; [lia|].
    apply IH; [exact HB|]. intros A1 b A2 ->. apply (Hneed (a :: A1) b A2). reflexivity.
Qed.

Lemma trim_longest mx l : 0 <= mx -> longest_fitting_suffix mx l (trim mx l).
Proof.
  intros Hmx. split; [split; [apply trim_split|apply trim_fits; exact Hmx]|].
  induction l as [|x t IH]; intros K' [[A HA] HK'].
  - destruct A; [|discriminate]. simpl in HA. subst K'. exists []. reflexivity.
  - simpl trim. destruct (r_of x + sumZ r_of t <=? mx) eqn:E.
    + exists A. exact HA.
    + destruct A as [|y A]; simpl in HA.
      * subst K'. simpl in HK'. lia.
      * inversion HA; subst. apply IH. split; [exists A; reflexivity|exact HK'].
Qed.

Lemma longest_fitting_suffix_unique mx l K1 K2 :
  longest_fitting_suffix mx l K1 -> longest_fitting_suffix mx l K2 -> K1 = K2.
Proof.
  intros [F1 L1] [F2 L2]. destruct (L1 K2 F2) as [B1 H1]. destruct (L2 K1 F1) as [B2 H2].
  assert (B1 = []).
  { destruct B1; [reflexivity|]. apply (f_equal (@List.length _)) in H1, H2.
    rewrite app_length in H1, H2. simpl in H1. lia. }
  subst B1. exact H1.
Qed.

Lemma longest_is_longest mx l K : longest_fitting_suffix mx l K ->
  forall K', fitting_suffix mx l K' -> (List.length K' <= List.length K)%nat.
Proof. intros [_ H] K' HK'. destruct (H K' HK') as [B ->]. rewrite app_length. lia. Qed.

(* trimming twice: what was trimmed before a later insertion would be trimmed anyway *)
Lemma trim_trim_app mx M : 0 <= sumZ r_of M -> forall L, trim mx (trim mx L ++ M) = trim mx (L ++ M).
Proof.
  intros HM. induction L as [|a L IH]; [reflexivity|]. simpl trim at 2.
  destruct (r_of a + sumZ r_of L <=? mx) eqn:E; [reflexivity|].
  rewrite IH. simpl. rewrite sumZ_app.
  destruct (r_of a + (sumZ r_of L + sumZ r_of M) <=? mx) eqn:E2; [lia|reflexivity].
Qed.

(* ------------------------------------------------------------------ *)
(* survivors: snoc, sizes *)

Lemma survivors_snoc mx P x : survivors mx (P ++ [x]) = lstep mx (survivors mx P) x.
Proof. unfold survivors, survivors_from. rewrite fold_left_app. reflexivity. Qed.

Lemma survivors_from_app mx S a b : survivors_from mx S (a ++ b) = survivors_from mx (survivors_from mx S a) b.
Proof. apply fold_left_app. Qed.

Lemma nonneg_app a b : nonneg (a ++ b) <-> nonneg a /\ nonneg b.
Proof. apply Forall_app. Qed.

Lemma nonneg_of_fits l : Forall file_fits l -> nonneg l.
Proof. apply Forall_impl. intros x. apply r_of_nonneg. Qed.

Lemma nonneg_sum l : nonneg l -> 0 <= sumZ r_of l.
Proof. intros H. apply sumZ_nonneg. unfold nonneg in H. rewrite Forall_forall in H. exact H. Qed.

Lemma survivors_fits mx : 0 <= mx -> forall l, sumZ r_of (survivors mx l) <= mx.
Proof.
  intros Hmx l. induction l as [|x P IH] using rev_ind; [exact Hmx|].
  rewrite survivors_snoc. unfold lstep. destruct (fitsb mx x); [apply trim_fits; exact Hmx|exact IH].
Qed.

(* survivors are a suffix of the candidates *)
Lemma survivors_suffix mx : forall l, exists pre, cands mx l = pre ++ survivors mx l.
Proof.
  induction l as [|x P [pre IH]] using rev_ind; [exists []; reflexivity|].
  rewrite survivors_snoc, cands_snoc. unfold lstep. destruct (fitsb mx x); [|exists pre; exact IH].
  rewrite IH, filter_app.
  destruct (trim_split mx (filter (keep_other (sf_key x)) (survivors mx P) ++ [x])) as [A HA].
  set (T := trim mx (filter (keep_other (sf_key x)) (survivors mx P) ++ [x])) in *.
  exists (filter (keep_other (sf_key x)) pre ++ A). rewrite <- !app_assoc. rewrite HA. reflexivity.
Qed.

Lemma survivors_incl mx l : incl (survivors mx l) l.
Proof.
  destruct (survivors_suffix mx l) as [pre H]. intros y Hy. apply (cands_incl mx l). rewrite H.
  apply in_or_app. right. exact Hy.
Qed.

(* ------------------------------------------------------------------ *)
(* why a candidate was evicted *)

Theorem evicted_reason mx : forall l pre, cands mx l = pre ++ survivors mx l ->
  forall e, In e pre ->
  exists P rest pre' K, l = P ++ rest /\ cands mx P = pre' ++ e :: K /\ sumZ r_of (e :: K) > mx.
Proof.
  induction l as [|x P IH] using rev_ind; intros pre Hc e He.
  - destruct pre; [destruct He|discriminate].
  - destruct (survivors_suffix mx P) as [pre0 H0].
    rewrite survivors_snoc, cands_snoc in Hc. unfold lstep in Hc. destruct (fitsb mx x) eqn:Fx.
    + rewrite H0, filter_app in Hc.
      destruct (trim_split mx (filter (keep_other (sf_key x)) (survivors mx P) ++ [x])) as [A HA].
      set (T := trim mx (filter (keep_other (sf_key x)) (survivors mx P) ++ [x])) in *.
      rewrite <- app_assoc, HA, app_assoc in Hc. apply app_inv_tail in Hc.
      assert (Hin : In e (filter (keep_other (sf_key x)) pre0 ++ A)) by (rewrite Hc; exact He).
      apply in_app_or in Hin as [Hin|Hin].
      * apply filter_In in Hin as [Hin _].
        destruct (IH pre0 H0 e Hin) as (P' & rest & pre' & K & Hl & Hc' & Hs).
        exists P', (rest ++ [x]), pre', K. split; [rewrite Hl, app_assoc; reflexivity|]. split; assumption.
      * apply in_split in Hin as (A1 & A2 & HA12).
        exists (P ++ [x]), [], (filter (keep_other (sf_key x)) pre0 ++ A1), (A2 ++ T).
        split; [rewrite app_nil_r; reflexivity|]. split.
        { rewrite cands_snoc, Fx, H0, filter_app. rewrite <- !app_assoc. fold T. rewrite HA, HA12, <- app_assoc. reflexivity. }
        { apply (trim_needed mx _ A HA A1 e A2 HA12). }
    + assert (pre = pre0) by (rewrite H0 in Hc; apply app_inv_tail in Hc; congruence). subst pre0.
      destruct (IH pre H0 e He) as (P' & rest & pre' & K & Hl & Hc' & Hs).
      exists P', (rest ++ [x]), pre', K. split; [rewrite Hl, app_assoc; reflexivity|]. split; assumption.
Qed.

(* conversely: whenever a suffix of the live candidates starting at e exceeds mx, e is not indexed
   at that moment (the index holds a strictly shorter suffix) *)
Theorem too_much_is_evicted mx P pre' e K :
  0 <= mx -> nonneg P -> cands mx P = pre' ++ e :: K -> sumZ r_of (e :: K) > mx ->
  exists K1, K = K1 ++ survivors mx P.
Proof.
  intros Hmx HP Hc Hs. destruct (survivors_suffix mx P) as [pre H0].
  pose proof (survivors_fits mx Hmx P) as Hf. rewrite H0 in Hc.
  assert (Hnn : nonneg (pre' ++ e :: K)).
  { rewrite <- Hc, <- H0. unfold nonneg in *. rewrite Forall_forall in *. intros y Hy. apply HP, (cands_incl mx P), Hy. }
  clear H0. revert pre Hc. induction pre' as [|a pre' IH]; intros pre Hc.
  - destruct pre as [|b pre]; simpl in Hc.
    + rewrite Hc in Hf. lia.
    + injection Hc as _ Hc. exists pre. symmetry. exact Hc.
  - destruct pre as [|b pre]; simpl in Hc.
    + exfalso. rewrite Hc in Hf. simpl in Hf. rewrite sumZ_app in Hf.
      apply nonneg_app in Hnn as [Hn1 _]. pose proof (nonneg_sum _ Hn1) as H1. simpl in H1. lia.
    + injection Hc as _ Hc. apply IH with (pre := pre); [inversion Hnn; assumption|exact Hc].
Qed.

(* ------------------------------------------------------------------ *)
(* when the survivors are the longest fitting suffix of the candidates *)

Lemma cands_nodup_keys mx : forall l, NoDup (map sf_key (cands mx l)).
Proof.
  induction l as [|x t IH]; simpl; [constructor|].
  destruct (fitsb mx x) eqn:F; simpl; [|exact IH].
  destruct (existsb (fun y => String.eqb (sf_key y) (sf_key x) && fitsb mx y) t) eqn:Ex; simpl; [exact IH|].
  constructor; [|exact IH]. intros Hin. apply in_map_iff in Hin as (y & Hk & Hy).
  assert (Ht : existsb (fun y => String.eqb (sf_key y) (sf_key x) && fitsb mx y) t = true).
  { apply existsb_exists. exists y. split; [apply (cands_incl mx t); exact Hy|].
    rewrite Hk, String.eqb_refl. simpl. pose proof (cands_fit mx t) as Hf. rewrite Forall_forall in Hf. apply Hf, Hy. }
  congruence.
Qed.

Lemma filter_keep_all k : forall C, ~ In k (map sf_key C) -> filter (keep_other k) C = C.
Proof.
  induction C as [|a C IH]; simpl; intros Hn; [reflexivity|].
  unfold keep_other at 1. destruct (String.eqb (sf_key a) k) eqn:Ek.
  - apply String.eqb_eq in Ek. exfalso. apply Hn. left. exact Ek.
  - simpl. rewrite IH; [reflexivity|]. intros H. apply Hn. right. exact H.
Qed.

Lemma sum_filter_key k rx : forall C, NoDup (map sf_key C) ->
  (forall d, In d C -> sf_key d = k -> r_of d <= rx) -> 0 <= rx ->
  sumZ r_of C <= sumZ r_of (filter (keep_other k) C) + rx.
Proof.
  induction C as [|a C IH]; simpl; intros Hnd Hk Hrx; [lia|].
  inversion Hnd as [|? ? Hna Hnd']; subst.
  unfold keep_other at 1. destruct (String.eqb (sf_key a) k) eqn:Ek; simpl.
  - apply String.eqb_eq in Ek. rewrite filter_keep_all; [|rewrite <- Ek; exact Hna].
    pose proof (Hk a (or_introl eq_refl) Ek). lia.
  - specialize (IH Hnd' (fun d Hd => Hk d (or_intror Hd)) Hrx). lia.
Qed.

Lemma trim_filter_trim mx k x : 0 <= r_of x -> forall C, NoDup (map sf_key C) ->
  (forall d, In d C -> sf_key d = k -> r_of d <= r_of x) ->
  trim mx (filter (keep_other k) (trim mx C) ++ [x]) = trim mx (filter (keep_other k) C ++ [x]).
Proof.
  intros Hx. induction C as [|a C IH]; intros Hnd Hk; [reflexivity|].
  assert (Ht : trim mx (a :: C) = if r_of a + sumZ r_of C <=? mx then a :: C else trim mx C) by reflexivity.
  rewrite Ht. destruct (r_of a + sumZ r_of C <=? mx) eqn:E0; [reflexivity|].
  inversion Hnd as [|? ? Hna Hnd']; subst.
  rewrite IH; [|exact Hnd'|intros d Hd; apply Hk; right; exact Hd].
  simpl filter. unfold keep_other at 2. destruct (String.eqb (sf_key a) k) eqn:Ek; simpl; [reflexivity|].
  rewrite sumZ_app. simpl.
  pose proof (sum_filter_key k (r_of x) C Hnd' (fun d Hd => Hk d (or_intror Hd)) Hx) as Hs.
  destruct (r_of a + (sumZ r_of (filter (keep_other k) C) + (r_of x + 0)) <=? mx) eqn:E2; [lia|reflexivity].
Qed.

Lemma key_mono_prefix mx P x : key_mono mx (P ++ [x]) -> key_mono mx P.
Proof. intros H a y b Hl. apply (H a y (b ++ [x])). rewrite Hl, <- app_assoc. reflexivity. Qed.

Theorem survivors_trim_cands mx : forall l, nonneg l -> key_mono mx l ->
  survivors mx l = trim mx (cands mx l).
Proof.
  induction l as [|x P IH] using rev_ind; intros Hnn Hkm; [reflexivity|].
  apply nonneg_app in Hnn as [HnP Hnx]. inversion Hnx as [|? ? Hx _]; subst.
  rewrite survivors_snoc, cands_snoc. unfold lstep. destruct (fitsb mx x) eqn:Fx.
  - rewrite IH; [|exact HnP|apply key_mono_prefix with x; exact Hkm].
    apply trim_filter_trim; [exact Hx|apply cands_nodup_keys|].
    intros d Hd Hk. apply (Hkm P x [] eq_refl Fx d); [apply (cands_incl mx P), Hd| |exact Hk].
    pose proof (cands_fit mx P) as Hf. rewrite Forall_forall in Hf. apply Hf, Hd.
  - apply IH; [exact HnP|apply key_mono_prefix with x; exact Hkm].
Qed.

Theorem survivors_longest mx l : 0 <= mx -> nonneg l -> key_mono mx l ->
  longest_fitting_suffix mx (cands mx l) (survivors mx l).
Proof. intros Hmx Hnn Hkm. rewrite survivors_trim_cands by assumption. apply trim_longest. exact Hmx. Qed.

(* sufficient conditions *)
Lemma key_mono_distinct mx l : NoDup (map sf_key (filter (fitsb mx) l)) -> key_mono mx l.
Proof.
  intros Hnd a x b Hl Fx d Hd Fd Hk. exfalso. subst l. rewrite filter_app in Hnd. simpl in Hnd. rewrite Fx in Hnd.
  rewrite map_app in Hnd. simpl in Hnd. apply NoDup_remove_2 in Hnd. apply Hnd. apply in_or_app. left.
  rewrite <- Hk. apply in_map. apply filter_In. split; assumption.
Qed.

Lemma cands_distinct mx : forall l, NoDup (map sf_key (filter (fitsb mx) l)) -> cands mx l = filter (fitsb mx) l.
Proof.
  induction l as [|x t IH]; simpl; intros Hnd; [reflexivity|].
  destruct (fitsb mx x) eqn:F; simpl in *; [|apply IH; exact Hnd].
  inversion Hnd as [|? ? Hn Hnd']; subst.
  destruct (existsb (fun y => String.eqb (sf_key y) (sf_key x) && fitsb mx y) t) eqn:Ex; simpl.
  - exfalso. apply existsb_exists in Ex as (y & Hy & Hc). apply andb_true_iff in Hc as [Hk Hf]. apply String.eqb_eq in Hk.
    apply Hn. rewrite <- Hk. apply in_map. apply filter_In. split; assumption.
  - rewrite IH; [reflexivity|exact Hnd'].
Qed.

Definition same_key_same_size (mx : Z) (l : list sfile) : Prop :=
  forall x y, In x l -> In y l -> fitsb mx x = true -> fitsb mx y = true -> sf_key x = sf_key y -> r_of x = r_of y.

Lemma key_mono_same_size mx l : same_key_same_size mx l -> key_mono mx l.
Proof.
  intros H a x b Hl Fx d Hd Fd Hk. rewrite (H d x); [lia| | |assumption..]; subst l; apply in_or_app;
    [left; exact Hd|right; left; reflexivity].
Qed.

(* boolean form of key_mono, for concrete directories *)
Fixpoint key_monob (mx : Z) (l : list sfile) : bool :=
  match l with
  | [] => true
  | d :: t => forallb (fun x => negb (fitsb mx d && fitsb mx x && String.eqb (sf_key d) (sf_key x)) || (r_of d <=? r_of x)) t
              && key_monob mx t
  end.

Lemma key_monob_sound mx : forall l, key_monob mx l = true -> key_mono mx l.
Proof.
  intros l Hb a. revert l Hb. induction a as [|d0 a IH]; intros l Hb x b Hl Fx d Hd Fd Hk; [destruct Hd|].
  subst l. simpl in Hb. apply andb_true_iff in Hb as [H1 H2]. destruct Hd as [->|Hd].
  - rewrite forallb_forall in H1. assert (Hx : In x (a ++ x :: b)) by (apply in_or_app; right; left; reflexivity).
    specialize (H1 x Hx).
    rewrite Fd, Fx, Hk, String.eqb_refl in H1. simpl in H1. lia.
  - apply (IH _ H2 x b eq_refl Fx d Hd Fd Hk).
Qed.
