(* Proofs/ReadHeader_props.v — what the refinement transports to the TRANSLATED readHeader: the
   theorems proved about the model parse_header (Proofs/Casblob_header.v, Casblob_conform.v) are
   theorems about Gen/ReadHeaderSrc.v as regenerated on this run. *)
From BR Require Import Base.Prelude Gen.Consts Gen.Funcs Model.Casblob Model.FormatSpec Model.GoCasblob
  Gen.ReadHeaderSrc Proofs.Casblob_le Proofs.Casblob_header Proofs.Casblob_read Proofs.Casblob_conform
  Proofs.Casblob_toy Proofs.ReadHeader_base Proofs.ReadHeader_refine.
Open Scope list_scope.
Open Scope Z_scope.

Lemma maxAlloc_lt_two63 z : z <= maxAlloc -> z < two63.
Proof. unfold maxAlloc, two63. lia. Qed.

Theorem readHeader_src_never_panics :
  forall file, zlen file < two63 -> is_panic (ReadHeaderSrc_readHeader (open_file file)) = false.
Proof. intros file H. rewrite readHeader_refines by exact H. apply parse_header_never_panics. Qed.

(* nor does it spin: the loop bound handed to for_loop is enough *)
Theorem readHeader_src_terminates :
  forall file s, zlen file < two63 -> ReadHeaderSrc_readHeader (open_file file) <> Hang s.
Proof.
  intros file s H. rewrite readHeader_refines by exact H. intros E.
  unfold parse_header in E. destruct (_ <=? _); [discriminate|].
  unfold validate in E.
  repeat match type of E with
  | (if ?c then _ else _) = _ => destruct c; try discriminate
  | bind ?x _ = _ => let e := fresh in destruct x eqn:e; cbn [bind] in E; try discriminate
  | (match ?x with _ => _ end) = _ => destruct x; try discriminate
  end;
  repeat match goal with
  | H : (if ?c then _ else _) = Hang _ |- _ => destruct c; try discriminate
  | H : go_quot _ _ = Hang _ |- _ => unfold go_quot in H
  | H : go_rem _ _ = Hang _ |- _ => unfold go_rem in H
  | H : go_make _ _ = Hang _ |- _ => unfold go_make in H
  | H : bind ?x _ = Hang _ |- _ => let e := fresh in destruct x eqn:e; cbn [bind] in H; try discriminate
  end.
Qed.

Theorem readHeader_src_torn_rejected :
  forall (c t size : Z) (nchunks : nat) (frames : list (list Z)) (st : list Z),
    in_i64 size -> 0 <= t < 256 -> 0 <= c < two32 ->
    (1 <= nchunks)%nat -> 8 * (Z.of_nat nchunks + 1) + 29 < two32 ->
    In st (torn_states c t size nchunks frames) -> zlen st < two63 ->
    is_ok (ReadHeaderSrc_readHeader (open_file st)) = false.
Proof.
  intros c t size n frames st Hs Ht Hc H1 Hn Hin Hlen.
  rewrite readHeader_refines by exact Hlen. eapply torn_file_rejected; eassumption.
Qed.

Theorem readHeader_src_accepts_conformant :
  forall (dec_all : list Z -> option (list Z)) (file data : list Z),
    conformant dec_all file data -> zlen file <= maxAlloc ->
    exists h frames ps,
      ReadHeaderSrc_readHeader (open_file file) = Ok h /\
      layout dec_all file h frames ps /\ List.concat ps = data /\ h_usize h = zlen data.
Proof.
  intros dec_all file data Hc Ha.
  destruct (conformant_layout dec_all file data Hc Ha) as (h & frames & ps & L & E & S).
  exists h, frames, ps. split; [|split; [exact L|split; assumption]].
  rewrite readHeader_refines by (apply maxAlloc_lt_two63; exact Ha). apply L.
Qed.

(* the harness' header cases evaluated on the translated source agree with the model's verdict *)
Theorem src_case_ok_header :
  forall file obs, zlen file < two63 ->
    src_case_ok ReadHeaderSrc_readHeader (CHeader file obs) = case_ok (CHeader file obs).
Proof. intros file obs H. cbn [src_case_ok case_ok]. rewrite readHeader_refines by exact H. reflexivity. Qed.

(* the file of the examples in Properties/ReadHeader_src.v: header + three toy-codec frames for
   the blob [1..7] cut at chunk size 3 *)
Definition ex_file : list Z :=
  encode_header (mkHeader 7 1 3 [61; 67; 73; 75]) ++ toy_enc [1; 2; 3] ++ toy_enc [4; 5; 6] ++ toy_enc [7].
