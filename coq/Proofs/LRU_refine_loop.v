(* Proofs/LRU_refine_loop.v — the translated removeElement against LRU.remove_elem, and the
   translated eviction loops (`for cond { ele := c.ll.Back(); ... c.removeElement(ele) }` as
   [while fuel cond body]) against LRU.evict_loop, by induction on the LRU-first order. *)
From Coq Require Import Permutation.
From BR Require Import Base.Prelude Gen.Funcs Model.LRU Model.GoLRU Gen.LRUSrc Model.GoLRURun
  Proofs.LRU_inv Bridge.Bridge_LRU Proofs.LRU_refine_base.
Open Scope list_scope.
Open Scope Z_scope.

Local Opaque wrap64 wrapU64 Gen.roundUp4k Gen.sumLargerThan.

(* ------------------------------------------------------------------ *)
(* removeElement of a listed element *)

Lemma removeElement_abs c e :
  NoDup (g_ll c) -> In e (g_ll c) ->
  0 <= sizeOnDisk (evalue (elem_value c e)) <= two62 ->
  0 <= size (evalue (elem_value c e)) <= two62 ->
  in_i64 (g_currentSize c - roundUp4k (sizeOnDisk (evalue (elem_value c e)))) ->
  in_i64 (g_uncompressedSize c - roundUp4k (size (evalue (elem_value c e)))) ->
  in_i64 (g_queuedEvictionsSize c + sizeOnDisk (evalue (elem_value c e))) ->
  abs (LRUSrc_removeElement c e) = remove_elem (abs_elem c e) (abs c).
Proof.
  intros ND Hin Hsd Hsz Hc Hu Hq.
  unfold LRUSrc_removeElement. cbv zeta.
  unfold abs, remove_elem, enqueue, appendEvictionToQueue, r4k_disk, r4k_size, abs_elem, elem_value in *.
  simpl.
  rewrite !r4k_bridge by assumption. rewrite !wrap64_id by assumption.
  change (fun id : nat => {| eid := id; ent := heap_get id (g_heap c) |}) with (abs_elem c).
  rewrite (remove_rev_map _ (abs_elem_eid c) e (g_ll c) ND). reflexivity.
Qed.

Lemma removeElement_frame c e :
  g_maxSize (LRUSrc_removeElement c e) = g_maxSize c /\
  g_heap (LRUSrc_removeElement c e) = g_heap c /\
  g_ll (LRUSrc_removeElement c e) = remove_nat e (g_ll c) /\
  g_cache (LRUSrc_removeElement c e) = assoc_del (key c e) (g_cache c).
Proof. repeat split. Qed.

Lemma removeElement_WFm c e : WF c -> In e (g_ll c) -> WFm (LRUSrc_removeElement c e).
Proof.
  intros [ND _ HK [Hh Hm]] Hin.
  destruct (removeElement_frame c e) as (_ & Eh & El & Ec).
  constructor.
  - intros id H. rewrite Eh. apply Hh. rewrite El in H. apply (In_remove_nat e id _ ND) in H. tauto.
  - intros k id. unfold map_get, key, elem_value. rewrite Eh, El, Ec.
    rewrite (In_remove_nat e id _ ND).
    destruct (String.eqb (key c e) k) eqn:E.
    + apply String.eqb_eq in E. subst k. rewrite assoc_get_del_same. split; [discriminate|].
      intros [[Hi Hne] Hk]. exfalso. apply Hne. apply (key_inj c (g_ll c)); assumption.
    + apply String.eqb_neq in E. rewrite assoc_get_del_other by congruence.
      unfold map_get in Hm. rewrite (Hm k id). unfold key, elem_value in *. split.
      * intros [H1 H2]. repeat split; try assumption. intros ->. congruence.
      * tauto.
Qed.

(* ------------------------------------------------------------------ *)
(* the loop bounds: what they give for the least recently used element, and their preservation *)

Lemma Bnd_head d du s e t : order s = e :: t -> Bnd d du s ->
  0 <= sod e <= two62 /\ 0 <= size (evalue (ent e)) <= two62 /\
  in_i64 (cur s - r4k_disk e) /\ in_i64 (unc s - r4k_size e) /\ in_i64 (qbytes s + sod e) /\
  Bnd d du (remove_elem e s).
Proof.
  intros Ho [HA Hc Hu Hd Hdu HP HU Hit Hq].
  pose proof (remove_elem_head d du e t s Ho HA) as (HA' & _).
  destruct HA as [_ _ _ Ac Au Ar Aq Ait Aqi].
  rewrite Ho in *. simpl in Ac, Au, Hq.
  inversion Ait as [|? ? [I1 I2] Ait']; subst. inversion Hit as [|? ? [J1 J2] Hit']; subst.
  assert (S1 : 0 <= sumZ r4k_disk t).
  { apply sumZ_nonneg. intros x Hx. rewrite Forall_forall in Ait'. apply roundUp4k_nonneg, (Ait' x Hx). }
  assert (S2 : 0 <= sumZ r4k_size t).
  { apply sumZ_nonneg. intros x Hx. rewrite Forall_forall in Ait'. apply roundUp4k_nonneg, (Ait' x Hx). }
  assert (S3 : 0 <= sumZ sod t).
  { apply sumZ_nonneg. intros x Hx. rewrite Forall_forall in Ait'. apply (Ait' x Hx). }
  assert (S4 : 0 <= qbytes s).
  { rewrite Aq. apply sumZ_nonneg. intros x Hx. rewrite Forall_forall in Aqi. apply (Aqi x Hx). }
  pose proof (roundUp4k_bounds (sizeOnDisk (evalue (ent e)))) as R1.
  pose proof (roundUp4k_bounds (size (evalue (ent e)))) as R2.
  unfold r4k_disk, r4k_size, sod, in_i64, two62, two63, maxInt64 in *.
  refine (conj _ (conj _ (conj _ (conj _ (conj _ _))))); try lia.
  constructor; [exact HA'|..]; unfold remove_elem, enqueue; simpl; rewrite ?Ho, ?remove_id_head;
    unfold r4k_disk, r4k_size, sod, two62, maxInt64 in *; try lia.
  exact Hit'.
Qed.

(* ------------------------------------------------------------------ *)
(* [while] *)

Lemma while_S {S R} f (cond : S -> bool) (body : S -> ctl S R) s :
  while (Datatypes.S f) cond body s =
  if cond s then match body s with Next s' => while f cond body s' | Return r => Some (Return r) end
  else Some (Next s).
Proof. reflexivity. Qed.

Lemma while_spin {S R} (cond : S -> bool) (body : S -> ctl S R) s :
  cond s = true -> body s = Next s -> forall f, while f cond body s = None.
Proof. intros Hc Hb f. induction f as [|f IH]; [reflexivity|]. rewrite while_S, Hc, Hb. exact IH. Qed.

Lemma while_stop {S R} (cond : S -> bool) (body : S -> ctl S R) s f :
  cond s = false -> while (Datatypes.S f) cond body s = Some (Next s).
Proof. intros Hc. rewrite while_S, Hc. reflexivity. Qed.

Lemma while_return {S R} (cond : S -> bool) (body : S -> ctl S R) s r f :
  cond s = true -> body s = Return r -> while (Datatypes.S f) cond body s = Some (Return r).
Proof. intros Hc Hb. rewrite while_S, Hc, Hb. reflexivity. Qed.

Lemma evict_loop_nil cond s :
  evict_loop cond [] s = if cond (cur s) then (s, true) else (s, false).
Proof. reflexivity. Qed.

Lemma evict_loop_cons cond e t s :
  evict_loop cond (e :: t) s = if cond (cur s) then evict_loop cond t (remove_elem e s) else (s, false).
Proof. reflexivity. Qed.

Ltac splits := repeat match goal with |- _ /\ _ => split end.

Section Loop.
  Variables (d du M : Z) (R : Type).
  Variable condG : gst -> bool.
  Variable condM : Z -> bool.
  Variable onEmpty : gst -> ctl gst R.
  Variable body : gst -> ctl gst R.
  Hypothesis Hbody : forall c,
    body c = match ll_Back c with Some e => Next (LRUSrc_removeElement c e) | None => onEmpty c end.
  Hypothesis Hcond : forall c, Bnd d du (abs c) -> g_maxSize c = M -> condG c = condM (cur (abs c)).

  (* [n] iterations of the translated loop take [c] to a [c'] that stands for the model's
     result; then the condition is false, or the list is empty with the condition true *)
  Lemma while_evict : forall l c,
    order (abs c) = l -> Bnd d du (abs c) -> WFm c -> g_maxSize c = M ->
    exists c' n, (n <= List.length l)%nat /\
      (forall f, while (n + f) condG body c = while f condG body c') /\
      abs c' = fst (evict_loop condM l (abs c)) /\ WFm c' /\ Bnd d du (abs c') /\ g_maxSize c' = M /\
      (if snd (evict_loop condM l (abs c)) then g_ll c' = [] /\ condG c' = true else condG c' = false).
  Proof.
    induction l as [|e t IH]; intros c Ho HB Hm HM.
    - rewrite evict_loop_nil. pose proof (Hcond c HB HM) as Hc.
      destruct (condM (cur (abs c))) eqn:Ec; exists c, O; simpl;
        (split; [lia|]); (split; [intros f; reflexivity|]); splits; auto.
      apply abs_order_nil. exact Ho.
    - rewrite evict_loop_cons. pose proof (Hcond c HB HM) as Hc.
      destruct (condM (cur (abs c))) eqn:Ec.
      + destruct (rev_map_cons (abs_elem c) (g_ll c) e t Ho) as (l' & x & Hl & He & Ht).
        destruct (Bnd_head d du (abs c) e t Ho HB) as (B1 & B2 & B3 & B4 & B5 & HB').
        destruct (acct_lists d du c (b_acct _ _ _ HB)) as (ND & FR & HK).
        assert (Hin : In x (g_ll c)) by (rewrite Hl; apply in_or_app; right; left; reflexivity).
        assert (Habs : abs (LRUSrc_removeElement c x) = remove_elem e (abs c)).
        { rewrite He. subst e. apply removeElement_abs; assumption. }
        assert (Hm1 : WFm (LRUSrc_removeElement c x)).
        { apply removeElement_WFm; [|exact Hin]. exact (WF_of_acct d du c (b_acct _ _ _ HB) Hm). }
        assert (Ho1 : order (abs (LRUSrc_removeElement c x)) = t).
        { rewrite Habs. apply (remove_elem_head d du e t (abs c) Ho (b_acct _ _ _ HB)). }
        rewrite <- Habs in HB'.
        destruct (IH (LRUSrc_removeElement c x) Ho1 HB' Hm1 HM)
          as (c' & n & Hn & Hw & Ha & Hm' & HB'' & HM' & Hs).
        exists c', (S n). split; [simpl; lia|]. split.
        { intros f. change (S n + f)%nat with (S (n + f)).
          rewrite while_S, Hc, Hbody, (ll_Back_snoc c l' x Hl). apply Hw. }
        rewrite <- Habs. splits; assumption.
      + exists c, O; simpl. split; [lia|]. split; [intros f; reflexivity|]. splits; auto.
  Qed.
End Loop.
