(* Proofs/Disk_ack.v — what a response of the disk cache implies about the request that got it.
   Thread-local invariants of [tstep]: they hold whatever the other threads, the background
   remover and the backend do in between (they never mention the shared state). *)
From BR Require Import Base.Prelude Model.LRU Model.Disk.
Open Scope Z_scope.

Global Opaque LRU.add LRU.reserve LRU.unreserve LRU.get LRU.remove_element LRU.evictor_step roundUp4k.

(* the upload's bytes are exactly what was declared *)
Definition upload_good (c : cfg) (k : kind) (sz : Z) (st : stream) : Prop :=
  st_len st = sz /\ st_err st = false /\ (k = CAS -> st_hash_ok st = true).

Definition empty_shortcut (k : kind) (hash : string) (sz : Z) : Prop :=
  k = CAS /\ sz = 0 /\ hash = emptySha256.
(* the empty blob is acknowledged without storing anything, provided no data came with it and the
   stream ended cleanly *)
Definition empty_ok (k : kind) (hash : string) (sz : Z) (st : stream) : Prop :=
  empty_shortcut k hash sz /\ st_len st <= 0 /\ st_err st = false.

(* a backend object was validated before it is committed or served *)
Definition fetch_good (c : cfg) (k : kind) (sz claimed : Z) (b : bget) : Prop :=
  match b with
  | BFound cl full delivered berr cid logical =>
      cl = claimed /\ berr = false /\ 0 <= claimed <= c_maxproxy c /\ mismatch sz claimed = false /\
      (if negb (kind_eqb k CAS) || negb (c_zstd c) then delivered = claimed
       else delivered = full /\ logical = claimed)
  | _ => False
  end.

Definition put_guards (c : cfg) (hash : string) (sz : Z) : Prop :=
  0 <= sz <= c_maxblob c /\ Z.of_nat (String.length hash) = hashLen.

Definition ack_ok (c : cfg) (t : thread) : Prop :=
  match t_req t with
  | RPut k hash sz st rnd =>
      match t_pc t with
      | PutStart | Cleanup (PutErr _) | Done (PutErr _) => True
      | PutCreate | PutWrite | PutFinish => put_guards c hash sz
      | PutCommit _ | Cleanup PutOk => put_guards c hash sz /\ upload_good c k sz st
      | Done PutOk => (put_guards c hash sz /\ upload_good c k sz st) \/ empty_ok k hash sz st
      | _ => False
      end
  | RGet k hash sz off zstd b rnd =>
      match t_pc t with
      | GetCreate cl | GetCopy cl =>
          match b with BFound cl' _ _ _ _ _ => cl' = cl /\ 0 <= cl <= c_maxproxy c /\ mismatch sz cl = false | _ => False end
      | GetCheck cl =>
          match b with BFound cl' _ _ berr _ _ => cl' = cl /\ berr = false /\ 0 <= cl <= c_maxproxy c /\ mismatch sz cl = false | _ => False end
      | GetCommit cl od f => fetch_good c k sz cl b /\
          match b with BFound _ _ delivered _ cid _ => od = delivered /\ f_cid f = cid /\ f_len f = delivered | _ => False end
      | PutStart | PutCreate | PutWrite | PutFinish | PutCommit _ | HasStart | HasProxy | FMBatch _ _ | FMProxy _ _ _ => False
      | Cleanup PutOk | Done PutOk | Cleanup (PutErr _) | Done (PutErr _) => False
      | _ => True
      end
  | _ => True
  end.

Ltac break_step :=
  repeat match goal with
  | |- context [if ?b then _ else _] => let E := fresh "E" in destruct b eqn:E
  | |- context [match ?x with _ => _ end] =>
      match type of x with
      | option _ => let E := fresh "E" in destruct x eqn:E
      | result _ => let E := fresh "E" in destruct x eqn:E
      | (_ * _)%type => let E := fresh "E" in destruct x eqn:E
      | bget => let E := fresh "E" in destruct x eqn:E
      | bhas => let E := fresh "E" in destruct x eqn:E
      | list _ => let E := fresh "E" in destruct x eqn:E
      | bool => let E := fresh "E" in destruct x eqn:E
      | response => let E := fresh "E" in destruct x eqn:E
      end
  end.

Lemma upload_good_of_flag c k sz st :
  ((st_len st =? sz) && negb (st_err st) && (negb (kind_eqb k CAS) || st_hash_ok st)
   && (negb (kind_eqb k CAS && c_zstd c) || (sz >? 0))) = true -> upload_good c k sz st.
Proof.
  intros H. repeat (apply andb_true_iff in H as [H ?]).
  unfold upload_good. repeat split.
  - lia.
  - destruct (st_err st); [discriminate|reflexivity].
  - intros ->. simpl in *. assumption.
Qed.

Ltac fin := intros H; inversion H; subst; cbn; try tauto.

(* PutOk is only ever produced for an upload whose bytes were exactly as declared (or for the
   empty-blob shortcut); a backend object is only committed after validation *)
Lemma tstep_req c d t d' t' : tstep c d t = Some (d', t') -> t_req t' = t_req t.
Proof.
  unfold tstep. destruct t as [req p held tmp]. cbn [t_req t_pc t_held t_tmp].
  destruct p, req; try (intros H; discriminate H); break_step; intros H; inversion H; reflexivity.
Qed.

Lemma tstep_ack c d t d' t' : tstep c d t = Some (d', t') -> ack_ok c t -> ack_ok c t'.
Proof.
  unfold tstep, ack_ok. destruct t as [req p held tmp]. cbn [t_req t_pc t_held t_tmp].
  destruct req as [k hash sz st rnd|k hash sz off zstd b rnd|k hash sz b|ds bs ff].
  - (* Put *)
    destruct p; try (intros H; discriminate H).
    + (* PutStart *)
      destruct (sz <? 0) eqn:G1; [fin|].
      destruct (sz >? c_maxblob c) eqn:G2; [fin|].
      destruct (negb (Z.of_nat (String.length hash) =? hashLen)) eqn:G3; [fin|].
      assert (HG : put_guards c hash sz).
      { unfold put_guards. apply negb_false_iff in G3. lia. }
      destruct (kind_eqb k CAS && (sz =? 0) && String.eqb hash emptySha256) eqn:G4.
      { apply andb_true_iff in G4 as [G4 G6]. apply andb_true_iff in G4 as [G4 G5].
        destruct (st_len st >? 0) eqn:G7; [fin|].
        destruct (st_err st) eqn:G8; [fin|].
        fin. intros _. right. unfold empty_ok, empty_shortcut.
        repeat split; [destruct k; try discriminate; reflexivity|lia|apply String.eqb_eq; exact G6|lia|exact G8]. }
      break_step; fin.
    + break_step; fin.
    + break_step; fin.
    + (* PutFinish *)
      destruct tmp as [p0|]; [|fin].
      destruct ((st_len st =? sz) && negb (st_err st) && (negb (kind_eqb k CAS) || st_hash_ok st)
                && (negb (kind_eqb k CAS && c_zstd c) || (sz >? 0))) eqn:G; [|fin].
      pose proof (upload_good_of_flag c k sz st G) as HU. break_step; fin.
    + (* PutCommit *) break_step; fin.
    + (* Cleanup *) break_step; fin; destruct r; cbn in *; try tauto.
  - (* Get *)
    destruct p; try (intros H; discriminate H).
    all: try (break_step; fin; fail).
    + (* GetFetch *)
      destruct b as [| |cl full delivered berr cid logical]; [fin|fin|].
      destruct (cl >? c_maxproxy c) eqn:G1; [fin|].
      destruct (mismatch sz cl || (cl <? 0)) eqn:G2; [fin|].
      apply orb_false_iff in G2 as [G2 G3]. fin. intros _. repeat split; try lia. exact G2.
    + (* GetCheck *)
      destruct b as [| |cl full delivered berr cid logical]; [fin|fin|].
      destruct tmp as [p0|]; [|fin].
      destruct (negb (kind_eqb k CAS) || negb (c_zstd c)) eqn:Raw.
      * destruct (negb (delivered =? claimed)) eqn:G1; [fin|]. apply negb_false_iff in G1.
        fin. intros (-> & -> & Hr & Hm). unfold fetch_good. rewrite Raw. repeat split; try lia; try assumption.
      * destruct ((delivered =? full) && (logical =? claimed)) eqn:G1; [|fin].
        apply andb_true_iff in G1 as [G1 G1']. fin.
        intros (-> & -> & Hr & Hm). unfold fetch_good. rewrite Raw. repeat split; try lia; try assumption.
  - intros H _. rewrite (tstep_req _ _ _ _ _ H). exact I.
  - intros H _. rewrite (tstep_req _ _ _ _ _ H). exact I.
Qed.

(* ---------------- lifted to runs ---------------- *)

Lemma spawn_ack c r : ack_ok c (spawn r).
Proof. destruct r; cbn; exact I. Qed.

Lemma run_thread_ack c n : forall d t, ack_ok c t -> ack_ok c (snd (run_thread c n d t)).
Proof.
  induction n as [|n IH]; intros d t H; cbn; [exact H|].
  destruct (tstep c d t) as [[d' t']|] eqn:E; [|exact H].
  apply IH. eapply tstep_ack; eassumption.
Qed.

Lemma Forall_upd_nth {A} (P : A -> Prop) i x l : Forall P l -> P x -> Forall P (upd_nth i x l).
Proof.
  revert i; induction l as [|y t IH]; intros [|i] HF Hx; cbn; try assumption; inversion HF; subst;
    constructor; auto.
Qed.

Lemma sstep_ack c s l : Forall (ack_ok c) (thr s) -> Forall (ack_ok c) (thr (sstep c s l)).
Proof.
  intros HF. destruct l as [r|i|]; cbn.
  - apply Forall_app; split; [exact HF|]. constructor; [apply spawn_ack|constructor].
  - destruct (nth_error (thr s) i) as [t|] eqn:E; [|exact HF].
    destruct (tstep c (sd s) t) as [[d' t']|] eqn:E2; [|exact HF]. cbn.
    apply Forall_upd_nth; [exact HF|]. eapply tstep_ack; [exact E2|].
    rewrite Forall_forall in HF. apply HF. eapply nth_error_In; exact E.
  - destruct (evictor_step (sd s)); exact HF.
Qed.

Lemma srun_ack c ls : forall s, Forall (ack_ok c) (thr s) -> Forall (ack_ok c) (thr (srun c s ls)).
Proof.
  induction ls as [|l t IH]; intros s H; cbn; [exact H|]. apply IH, sstep_ack, H.
Qed.

(* C01 (soundness of the acknowledgement), for every interleaving: a request answered PutOk
   delivered exactly the declared number of bytes, cleanly, with the declared hash (CAS) *)
Lemma put_ok_sound c mx hd ls t k hash sz st rnd :
  In t (thr (srun c (sinit mx hd) ls)) -> t_req t = RPut k hash sz st rnd -> t_pc t = Done PutOk ->
  (put_guards c hash sz /\ upload_good c k sz st) \/ empty_ok k hash sz st.
Proof.
  intros Hin Hreq Hpc.
  assert (HF : Forall (ack_ok c) (thr (srun c (sinit mx hd) ls))) by (apply srun_ack; constructor).
  rewrite Forall_forall in HF. specialize (HF t Hin). unfold ack_ok in HF. rewrite Hreq, Hpc in HF. exact HF.
Qed.

(* the same for the sequential semantics *)
Lemma exec_put_ok_sound c d k hash sz st rnd d' :
  exec c d (RPut k hash sz st rnd) = (d', Some PutOk) ->
  (put_guards c hash sz /\ upload_good c k sz st) \/ empty_ok k hash sz st.
Proof.
  unfold exec. destruct (run_thread c (fuel_for (RPut k hash sz st rnd)) d (spawn (RPut k hash sz st rnd))) as [d1 t1] eqn:E.
  intros H. inversion H; subst.
  pose proof (run_thread_ack c (fuel_for (RPut k hash sz st rnd)) d _ (spawn_ack c (RPut k hash sz st rnd))) as HA.
  rewrite E in HA. cbn in HA.
  assert (Hreq : t_req t1 = RPut k hash sz st rnd).
  { clear - E. revert E. generalize (fuel_for (RPut k hash sz st rnd)).
    assert (G : t_req (spawn (RPut k hash sz st rnd)) = RPut k hash sz st rnd) by reflexivity.
    revert G. generalize (spawn (RPut k hash sz st rnd)). intros t0 G n. revert d t0 G.
    induction n as [|n IH]; intros d t0 G; cbn.
    - intros H; inversion H; subst; exact G.
    - destruct (tstep c d t0) as [[d2 t2]|] eqn:E2; [|intros H; inversion H; subst; exact G].
      apply IH. rewrite (tstep_req _ _ _ _ _ E2). exact G. }
  unfold response_of in H2. destruct (t_pc t1) eqn:Epc; try discriminate. inversion H2; subst.
  unfold ack_ok in HA. rewrite Hreq, Epc in HA. exact HA.
Qed.

(* C12/C18: a backend object is committed (and served) only after validation: announced size within
   max_proxy_blob_size and equal to the requested one, stream ended cleanly, and the stored bytes are
   exactly the announced ones (raw) / a complete blob whose header states the announced size *)
Lemma fetch_commit_sound c mx hd ls t k hash sz off zstd b rnd cl od f :
  In t (thr (srun c (sinit mx hd) ls)) -> t_req t = RGet k hash sz off zstd b rnd ->
  t_pc t = GetCommit cl od f -> fetch_good c k sz cl b.
Proof.
  intros Hin Hreq Hpc.
  assert (HF : Forall (ack_ok c) (thr (srun c (sinit mx hd) ls))) by (apply srun_ack; constructor).
  rewrite Forall_forall in HF. specialize (HF t Hin). unfold ack_ok in HF. rewrite Hreq, Hpc in HF. tauto.
Qed.
