(* Proofs/Protocols_splice.v — SpliceBlob: the writer goroutine, cache.Put and the handler's
   select.  With disk.Put's deferred drain (the code as it is) every run of the system is finite
   for every budget of data and ends with the handler returned, the goroutine exited, the pipe
   closed and no chunk file open; the writer's result is always in the channel when the handler
   polls it.  Without the drain there is a run that leaves the goroutine blocked in pw.Write with
   a chunk file open after the handler has returned. *)
From BR Require Import Base.Prelude Model.Protocols Proofs.Protocols_base.
From Coq Require Import Relations.
Open Scope nat_scope.

Lemma hpc_eqb_sound a b : hpc_eqb a b = true -> a = b.
Proof. destruct a, b; cbn; intros H; try reflexivity; discriminate. Qed.
Lemma wpc_eqb_sound a b : wpc_eqb a b = true -> a = b.
Proof. destruct a, b; cbn; intros H; try reflexivity; discriminate. Qed.
Lemma chan_eqb_sound a b : chan_eqb a b = true -> a = b.
Proof. destruct a, b; cbn; intros H; try reflexivity; discriminate. Qed.

Lemma sctl_eqb_sound a b : sctl_eqb a b = true -> a = b.
Proof.
  destruct a as [h w c x r], b as [h' w' c' x' r']. unfold sctl_eqb. cbn [s_h s_w s_ch s_wclosed s_rcopen].
  intros H. apply andb_true_iff in H as [H Hr]. apply andb_true_iff in H as [H Hx].
  apply andb_true_iff in H as [H Hc]. apply andb_true_iff in H as [Hh Hw].
  apply hpc_eqb_sound in Hh. apply wpc_eqb_sound in Hw. apply chan_eqb_sound in Hc.
  apply Bool.eqb_prop in Hx. apply Bool.eqb_prop in Hr. congruence.
Qed.

(* the reachable abstract states: 2 x the number of reachable control states at most *)
Lemma splice_states_count : List.length (splice_states true) = 84.
Proof. vm_compute. reflexivity. Qed.

Lemma splice_checked :
  check (splice_cstep true) sctl_eqb splice_rank rankK splice_final (splice_states true) = true.
Proof. vm_compute. reflexivity. Qed.

Lemma splice_init_in n : In (abs (splice_init, n)) (splice_states true).
Proof.
  apply (memb_In sctl_eqb sctl_eqb_sound). unfold abs. cbn [fst snd].
  destruct (Nat.eqb n 0); vm_compute; reflexivity.
Qed.

(* every run from the call of cache.Put is finite and ends with everything finished *)
Theorem splice_total :
  forall n s, reach (splice_cstep true) (splice_init, n) s ->
    all_runs_end_in (splice_cstep true) (fun s' => splice_final (fst s') = true) s.
Proof.
  intros n s Hr.
  exact (proj2 (checked_total (splice_cstep true) sctl_eqb sctl_eqb_sound splice_rank rankK splice_final
                              (splice_states true) splice_checked _ _ (splice_init_in n) Hr)).
Qed.

Lemma splice_final_inv c : splice_final c = true ->
  s_h c = HRet /\ s_w c = WExit /\ s_wclosed c = true /\ s_rcopen c = false.
Proof.
  unfold splice_final. intros H. apply andb_true_iff in H as [H Hr]. apply andb_true_iff in H as [H Hx].
  apply andb_true_iff in H as [Hh Hw]. apply hpc_eqb_sound in Hh. apply wpc_eqb_sound in Hw.
  destruct (s_rcopen c); [discriminate|]. auto.
Qed.

(* once the handler has returned only the writer goroutine moves *)
Lemma splice_returned_stays drain s s' :
  s_h (fst s) = HRet -> step (splice_cstep drain) s s' -> s_h (fst s') = HRet.
Proof.
  intros Hh Hs.
  assert (G : forall z c' d, In (c', d) (splice_cstep drain (fst s) z) -> s_h c' = HRet).
  { intros z c' d Hin. unfold splice_cstep, splice_h in Hin. rewrite Hh in Hin. cbn [app] in Hin.
    unfold splice_w in Hin.
    destruct (s_w (fst s)), z, (chan_eqb (s_ch (fst s)) ChEmpty); cbn in Hin;
      repeat (destruct Hin as [Hin|Hin]; [inversion Hin; subst; cbn; exact Hh|]); contradiction. }
  inversion Hs; subst; cbn [fst] in *; eapply G; eassumption.
Qed.

(* no_hang: from every reachable state in which the handler has returned, every run (of the
   writer goroutine, the only process left) is finite and ends with the goroutine exited, the
   pipe closed and no chunk file open *)
Theorem splice_no_hang :
  forall n s, reach (splice_cstep true) (splice_init, n) s -> s_h (fst s) = HRet ->
    all_runs_end_in (splice_cstep true)
      (fun s' => s_h (fst s') = HRet /\ s_w (fst s') = WExit /\ s_wclosed (fst s') = true /\ s_rcopen (fst s') = false) s.
Proof.
  intros n s Hr _. destruct (splice_total n s Hr) as [Hacc Hend]. split; [exact Hacc|].
  intros s' Hr' Hst. apply splice_final_inv. apply Hend; assumption.
Qed.

(* when Put has failed and the handler polls writerResultChan, the writer's result is there:
   the default branch of the select is never the one taken *)
Theorem splice_result_ready :
  forall n s, reach (splice_cstep true) (splice_init, n) s -> s_h (fst s) = HPutErr ->
    s_ch (fst s) <> ChEmpty /\ s_wclosed (fst s) = true.
Proof.
  intros n s Hr Hh.
  pose proof (proj1 (checked_total (splice_cstep true) sctl_eqb sctl_eqb_sound splice_rank rankK splice_final
                                   (splice_states true) splice_checked _ _ (splice_init_in n) Hr)) as Hin.
  assert (Hall : forallb (fun a : sctl * bool =>
             negb (hpc_eqb (s_h (fst a)) HPutErr) || (negb (chan_eqb (s_ch (fst a)) ChEmpty) && s_wclosed (fst a)))
             (splice_states true) = true) by (vm_compute; reflexivity).
  rewrite forallb_forall in Hall. specialize (Hall _ Hin). unfold abs in Hall. cbn [fst] in Hall.
  rewrite Hh in Hall. cbn [hpc_eqb negb orb] in Hall. apply andb_true_iff in Hall as [Hc Hw].
  split; [|exact Hw]. intros E. rewrite E in Hc. discriminate.
Qed.

(* the drain is what makes this true: if a failing Put returned without reading pr to the end,
   the handler would return and leave the goroutine blocked in pw.Write for ever, its chunk file
   open (2 units of data suffice: one chunk, one piece of it) *)
Theorem splice_without_drain_refuted :
  exists n s, reach (splice_cstep false) (splice_init, n) s /\
    s_h (fst s) = HRet /\ stuck (splice_cstep false) s /\ s_w (fst s) = WOffer /\ s_rcopen (fst s) = true.
Proof.
  exists 2.
  pose (path := [ (mkS HPutErr WLoop ChEmpty false false, 2)
                ; (mkS HRet WLoop ChEmpty false false, 2)
                ; (mkS HRet WCopy ChEmpty false true, 1)
                ; (mkS HRet WOffer ChEmpty false true, 0) ]).
  exists (last path (splice_init, 2)). split.
  - apply (path_ok_sound (splice_cstep false) sctl_eqb sctl_eqb_sound). vm_compute. reflexivity.
  - cbn. repeat split. apply stuck_of_nil. reflexivity.
Qed.
