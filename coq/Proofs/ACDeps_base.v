(* Proofs/ACDeps_base.v — building blocks for C06 (dependency check of GetValidatedActionResult,
   Model/ACDeps.v) in the configuration without a backend: what exactly a read and a fail-fast
   find-missing do to the index (a sequence of "touches"), and what they answer. *)
From Coq Require Import Permutation.
From BR Require Import Base.Prelude Model.LRU Proofs.LRU_inv Proofs.LRU_spec.
Open Scope Z_scope.

(* ------------------------------------------------------------------ *)
(* touching: a lookup moves the entry to the most-recently-used end *)

Definition touch (k : string) (l : list elem) : list elem :=
  match find_key k l with Some e => remove_id (eid e) l ++ [e] | None => l end.

Lemma get_order k s : order (fst (LRU.get k s)) = touch k (order s).
Proof. unfold LRU.get, touch. destruct (find_key k (order s)); reflexivity. Qed.

Lemma get_snd k s : snd (LRU.get k s) = match find_key k (order s) with Some e => Some (evalue (ent e), eid e) | None => None end.
Proof. unfold LRU.get. destruct (find_key k (order s)); reflexivity. Qed.

Definition touch_all (ks : list string) (l : LRU.state) : LRU.state :=
  fold_left (fun l k => fst (LRU.get k l)) ks l.

Lemma touch_all_order ks : forall l, order (touch_all ks l) = fold_left (fun o k => touch k o) ks (order l).
Proof. induction ks as [|k t IH]; intros l; cbn; [reflexivity|]. rewrite IH, get_order. reflexivity. Qed.

Lemma touch_all_app a b l : touch_all (a ++ b) l = touch_all b (touch_all a l).
Proof. unfold touch_all. apply fold_left_app. Qed.

From BR Require Import Model.Disk Proofs.Disk_ack Proofs.Disk_fun_fm Proofs.Disk_fun_put Proofs.Disk_fun_get.

Ltac conj := repeat match goal with |- _ /\ _ => split end.

Lemma touch_all_same ks : forall l, Inv l -> Inv (touch_all ks l) /\ LruSame l (touch_all ks l).
Proof.
  induction ks as [|k t IH]; intros l HI; cbn; [split; [exact HI|apply same_refl]|].
  pose proof (get_same k l HI) as HG. destruct (LRU.get k l) as [l' g]. destruct HG as (HI' & HS & _).
  cbn [fst]. destruct (IH l' HI') as [H1 H2]. split; [exact H1|eapply same_trans; eassumption].
Qed.

(* ------------------------------------------------------------------ *)
(* a read without a backend, exactly *)

Lemma local_hit_same l l' fs k hash sz : LruSame l l' -> local_hit l' fs k hash sz = local_hit l fs k hash sz.
Proof. intros H. unfold local_hit. rewrite (same_peek _ _ _ H). reflexivity. Qed.

(* the entry for this request, if any and of compatible size, has its file in place and valid
   (so the read has no reason to drop it) *)
Definition entry_sound (d : dstate) (k : kind) (hash : string) (sz : Z) : Prop :=
  forall v, peek (lookup_key k hash) (lru d) = Some v -> mismatch sz (size v) = false ->
  exists f, find_file (path_of (lookup_key k hash) v) (files d) = Some f /\ valid_file k sz v f = true.

Lemma get_proxy_off c d k hash sz b rnd : c_proxy c = false -> get_proxy_fun c d k hash sz b rnd = (d, Some GetMiss).
Proof. intros H. unfold get_proxy_fun. rewrite H. reflexivity. Qed.

Lemma get_noproxy_exact c d k hash sz off zstd b rnd d' r :
  c_proxy c = false -> Inv (lru d) -> get_guard k hash sz off zstd = None ->
  exec c d (RGet k hash sz off zstd b rnd) = (d', r) ->
  files d' = files d /\ handed d' = handed d /\ Inv (lru d') /\
  match local_hit (lru d) (files d) k hash sz with
  | Some (v, f) => r = Some (hit_of k v f) /\ d' = set_lru (fst (LRU.get (lookup_key k hash) (lru d))) d
  | None => r = Some GetMiss /\ same_but (lookup_key k hash) (lru d) (lru d') /\
            (entry_sound d k hash sz -> LruSame (lru d) (lru d'))
  end.
Proof.
  intros Hp HI EG H.
  pose proof (get_local_spec c d k hash sz off zstd b rnd d' r HI (or_intror Hp) H) as HL. rewrite EG in HL.
  destruct HL as (Hf & Hh & HI' & HL). split; [exact Hf|]. split; [exact Hh|]. split; [exact HI'|].
  assert (EP : c_proxy c && (sz <=? c_maxproxy c) = false) by (rewrite Hp; reflexivity).
  revert H HL. rewrite exec_get_eq. unfold get_fun. rewrite EG. cbv zeta.
  pose proof (get_same (lookup_key k hash) (lru d) HI) as HG.
  destruct (LRU.get (lookup_key k hash) (lru d)) as [l' g]. destruct HG as (HI1 & HS & Hg). cbn [fst].
  unfold entry_sound, local_hit, peek.
  destruct (find_key (lookup_key k hash) (order (lru d))) as [e|]; subst g.
  2:{ rewrite (get_proxy_off _ _ _ _ _ _ _ Hp). intros H HL. inversion H; subst.
      destruct HL as [_ HL]. destruct (HL EP) as [H1 H2]. conj; auto. }
  destruct (mismatch sz (size (evalue (ent e)))) eqn:EM.
  { rewrite (get_proxy_off _ _ _ _ _ _ _ Hp). intros H HL. inversion H; subst.
    destruct HL as [_ HL]. destruct (HL EP) as [H1 H2]. conj; auto. }
  destruct (find_file (path_of (lookup_key k hash) (evalue (ent e))) (files d)) as [f|] eqn:EF.
  - unfold get_validate_fun. destruct (valid_file k sz (evalue (ent e)) f) eqn:EV.
    + intros H HL. inversion H; subst. split; reflexivity.
    + intros _ HL. destruct HL as [_ HL]. destruct (HL EP) as [H1 H2]. conj; auto.
      intros Hs. destruct (Hs _ eq_refl EM) as (f' & Hf' & Hv'). rewrite EF in Hf'. inversion Hf'; subst. congruence.
  - intros _ HL. destruct HL as [_ HL]. destruct (HL EP) as [H1 H2]. conj; auto.
    intros Hs. destruct (Hs _ eq_refl EM) as (f' & Hf' & _). rewrite EF in Hf'. discriminate.
Qed.

(* ------------------------------------------------------------------ *)
(* fail-fast find-missing without a backend when every digest is present: the index is touched,
   digest by digest; otherwise the answer is "missing" *)

Definition is_empty_digest (x : string * Z) : bool := (snd x =? 0) && String.eqb (fst x) emptySha256.
Definition touch_keys (xs : list (string * Z)) : list string :=
  map (fun x => lookup_key CAS (fst x)) (filter (fun x => negb (is_empty_digest x)) xs).

Lemma fm_local_app : forall a b l,
  fm_local l (a ++ b) =
  let '(l1, r1) := fm_local l a in let '(l2, r2) := fm_local l1 b in (l2, r1 ++ r2).
Proof.
  induction a as [|[[h sz] bh] t IH]; intros b l; cbn [app fm_local].
  - destruct (fm_local l b); reflexivity.
  - destruct ((sz =? 0) && String.eqb h emptySha256).
    + rewrite IH. destruct (fm_local l t) as [l1 r1]. destruct (fm_local l1 b) as [l2 r2]. reflexivity.
    + destruct (LRU.get (lookup_key CAS h) l) as [l0 g]. rewrite IH.
      destruct (fm_local l0 t) as [l1 r1]. destruct (fm_local l1 b) as [l2 r2]. reflexivity.
Qed.

Lemma fm_local_touch : forall b l, fst (fm_local l b) = touch_all (touch_keys (map fst b)) l.
Proof.
  induction b as [|[[h sz] bh] t IH]; intros l; cbn [fm_local map]; [reflexivity|].
  unfold touch_keys. cbn [filter]. unfold is_empty_digest at 1. cbn [fst snd].
  destruct ((sz =? 0) && String.eqb h emptySha256); cbn [negb].
  - specialize (IH l). destruct (fm_local l t) as [l' r]. exact IH.
  - cbn [map touch_all fold_left fst]. destruct (LRU.get (lookup_key CAS h) l) as [l1 g]. cbn [fst].
    specialize (IH l1). destruct (fm_local l1 t) as [l' r]. exact IH.
Qed.

Lemma fm_loop_all_present c ds bs ff h tm : forall m todo acc d n,
  (List.length todo <= m)%nat -> (2 * List.length todo + 1 <= n)%nat -> Inv (lru d) ->
  existsb (fun x => negb (present_local (lru d) (fst x))) todo = false ->
  lru (fst (run_thread c n d (mkThread (RFindMissing ds bs ff) (FMBatch todo acc) h tm)))
  = fst (fm_local (lru d) todo).
Proof.
  induction m as [|m IH]; intros todo acc d n Hm Hn HI Hall.
  - destruct todo as [|x todo]; [|cbn in Hm; lia].
    destruct n as [|n]; [cbn in Hn; lia|]. rewrite run_thread_S, tstep_fm_nil.
    erewrite run_done by reflexivity. reflexivity.
  - destruct todo as [|x todo].
    { destruct n as [|n]; [cbn in Hn; lia|]. rewrite run_thread_S, tstep_fm_nil.
      erewrite run_done by reflexivity. reflexivity. }
    destruct n as [|n]; [cbn in Hn; lia|]. rewrite run_thread_S, tstep_fm_batch.
    pose proof (firstn_batch_spec batchSize (x :: todo)) as HB.
    destruct (firstn_batch batchSize (x :: todo)) as [batch rest]. destruct HB as [HB1 HB2].
    assert (Hne : batch <> []) by (apply HB2; [discriminate|unfold batchSize; discriminate]).
    assert (Hlen : (List.length rest < List.length (x :: todo))%nat).
    { rewrite HB1, app_length. destruct batch; [congruence|cbn; lia]. }
    rewrite HB1 in Hall |- *. clear HB2. cbn [List.length] in Hm, Hn, Hlen.
    rewrite existsb_app in Hall. apply orb_false_iff in Hall as [Hall1 Hall2].
    rewrite fm_local_app.
    pose proof (fm_local_spec batch (lru d) HI) as HL.
    destruct (fm_local (lru d) batch) as [l' res]. destruct HL as (HI' & HS & ->).
    cbv zeta. rewrite count_some_local, Hall1. cbn [negb].
    specialize (IH rest (acc ++ map (fun _ => None) (map (local_out (lru d)) batch)) (set_lru l' d) n).
    cbn [lru set_lru] in IH. rewrite IH; [|lia|lia|exact HI'|].
    + destruct (fm_local l' rest); reflexivity.
    + rewrite <- Hall2. apply existsb_ext'. intros y. rewrite (present_local_same _ _ _ HS). reflexivity.
Qed.

Lemma combine_fst {A B} : forall (a : list A) (b : list B), (List.length a <= List.length b)%nat -> map fst (combine a b) = a.
Proof.
  induction a as [|x a IH]; intros [|y b] H; cbn in *; try reflexivity; try lia. rewrite IH by lia. reflexivity.
Qed.

Lemma fm_todo_fst ds bs : map fst (fm_todo ds bs) = ds.
Proof. unfold fm_todo. apply combine_fst. rewrite app_length, repeat_length. lia. Qed.

Lemma existsb_map {A B} (f : A -> B) (p : B -> bool) l : existsb p (map f l) = existsb (fun x => p (f x)) l.
Proof. induction l as [|x t IH]; cbn; [reflexivity|]. rewrite IH. reflexivity. Qed.

(* the dependency check proper: one fail-fast find-missing over [xs] *)
Theorem fm_failfast_noproxy c d xs bs d' r :
  c_proxy c = false -> Inv (lru d) ->
  exec c d (RFindMissing xs bs true) = (d', r) ->
  files d' = files d /\ handed d' = handed d /\ Inv (lru d') /\ LruSame (lru d) (lru d') /\
  if forallb (present_local (lru d)) xs
  then r = Some (Missing []) /\ lru d' = touch_all (touch_keys xs) (lru d)
  else r = Some MissingFailFast.
Proof.
  intros Hp HI H. destruct (exec_fm c d xs bs true HI) as (d2 & H1 & H2 & H3 & H4 & H5).
  rewrite H in H1. inversion H1; subst d2 r. clear H1.
  split; [exact H4|]. split; [exact H5|]. split; [exact H2|]. split; [exact H3|].
  assert (EQ : existsb (fun x => negb (present c (lru d) x)) (fm_todo xs bs)
               = negb (forallb (present_local (lru d)) xs)).
  { assert (G : forall l, existsb (fun x => negb (present c (lru d) x)) l
                        = negb (forallb (present_local (lru d)) (map fst l))).
    { induction l as [|y t IH]; cbn; [reflexivity|]. rewrite IH. unfold present at 1. rewrite Hp. cbn [andb].
      rewrite orb_false_r, negb_andb. reflexivity. }
    rewrite G, fm_todo_fst. reflexivity. }
  unfold fm_result. cbn [andb]. rewrite EQ.
  destruct (forallb (present_local (lru d)) xs) eqn:EA; cbn [negb]; [|reflexivity].
  split.
  - rewrite app_nil_l, flat_slot_out, (existsb_filter_nil _ _ ) ; [reflexivity|]. rewrite EQ. reflexivity.
  - unfold exec in H. cbn [spawn fuel_for] in H. fold (fm_todo xs bs) in H.
    pose proof (fm_loop_all_present c xs bs true 0 None (List.length (fm_todo xs bs)) (fm_todo xs bs) [] d
                  (2 * List.length xs + 8)%nat (le_n _)) as HA.
    destruct (run_thread c (2 * List.length xs + 8) d _) as [d3 t3]. inversion H; subst d3. cbn [fst] in HA.
    rewrite HA; [|rewrite fm_todo_length; lia|exact HI|].
    + rewrite fm_local_touch, fm_todo_fst. reflexivity.
    + cbn [negb] in EQ. rewrite <- EQ.
      apply existsb_ext'. intros y. unfold present. rewrite Hp. cbn [andb]. rewrite orb_false_r. reflexivity.
Qed.
