(* Proofs/ByteStream_write.v — the ByteStream.Write protocol: what a successful call reports and
   stores, what makes it fail without storing, and independence of the handler's select. *)
From BR Require Import Base.Prelude Model.Keys Model.ByteStream Proofs.Keys_strings Proofs.ByteStream_names.
Open Scope string_scope.
Open Scope Z_scope.

Definition sumlen (l : list wmsg) : Z := sumZ m_len l.
Definition name_ok (name : string) (m : wmsg) : bool :=
  String.eqb (m_name m) "" || String.eqb (m_name m) name.
Definition names_ok (name : string) (l : list wmsg) : bool := forallb (name_ok name) l.

Lemma consumed_cons m rest : exists t, consumed (m :: rest) = m :: t.
Proof. cbn [consumed]. destruct (m_fin m); eauto. Qed.

(* ---- the receive loop *)
Lemma recv_loop_shape name size cmp msgs : forall first j0 cs0,
  (exists j cs, recv_loop name size cmp first j0 cs0 msgs = RDone j cs) \/
  (exists j e, recv_loop name size cmp first j0 cs0 msgs = RFail j e).
Proof.
  induction msgs as [|m rest IH]; intros first j0 cs0; cbn [recv_loop].
  - destruct ((cmp =? cmp_identity) && negb (cs0 =? size)); eauto.
  - destruct (negb first && negb (String.eqb (m_name m) "") && negb (String.eqb (m_name m) name)); [eauto|].
    destruct ((cmp =? cmp_identity) && (cs0 + m_len m >? size)); [eauto|].
    destruct (m_fin m); [|apply IH].
    destruct ((cmp =? cmp_identity) && negb (cs0 + m_len m =? size)); eauto.
Qed.

Lemma recv_loop_done name size cmp msgs : forall first j0 cs0 j cs,
  recv_loop name size cmp first j0 cs0 msgs = RDone j cs ->
  j = (j0 + List.length (consumed msgs))%nat /\ cs = cs0 + sumlen (consumed msgs) /\
  ((cmp =? cmp_identity) = true -> cs = size) /\
  names_ok name (if first then tl (consumed msgs) else consumed msgs) = true.
Proof.
  induction msgs as [|m rest IH]; intros first j0 cs0 j cs; cbn [recv_loop consumed].
  - destruct ((cmp =? cmp_identity) && negb (cs0 =? size)) eqn:C; [discriminate|].
    intros H. injection H as <- <-. cbn.
    split; [lia|]. split; [lia|]. split.
    + intros Hc. rewrite Hc in C. cbn in C. apply negb_false_iff in C. lia.
    + destruct first; reflexivity.
  - destruct (negb first && negb (String.eqb (m_name m) "") && negb (String.eqb (m_name m) name)) eqn:N; [discriminate|].
    assert (NM : first = false -> name_ok name m = true).
    { intros ->. cbn [negb andb] in N. unfold name_ok.
      destruct (String.eqb (m_name m) ""), (String.eqb (m_name m) name); cbn in *; congruence. }
    destruct ((cmp =? cmp_identity) && (cs0 + m_len m >? size)) eqn:O; [discriminate|].
    destruct (m_fin m) eqn:F.
    + destruct ((cmp =? cmp_identity) && negb (cs0 + m_len m =? size)) eqn:C; [discriminate|].
      intros H. injection H as <- <-. unfold sumlen. cbn [List.length sumZ tl].
      split; [lia|]. split; [lia|]. split.
      * intros Hc. rewrite Hc in C. cbn in C. apply negb_false_iff in C. lia.
      * destruct first; [reflexivity|]. cbn [names_ok forallb]. rewrite NM by reflexivity. reflexivity.
    + intros H. apply IH in H as (Hj & Hcs & Hid & Hn). unfold sumlen in *. cbn [List.length sumZ tl].
      split; [lia|]. split; [lia|]. split; [exact Hid|].
      destruct first; [exact Hn|]. cbn [names_ok forallb]. rewrite NM by reflexivity. exact Hn.
Qed.

(* ---- the handler: case analysis helper *)
Ltac handler_cases :=
  unfold write_handler, recv_run;
  repeat match goal with
         | |- context [match ?x with _ => _ end] =>
             match x with
             | recv_loop _ _ _ _ _ _ _ => fail 1
             | _ => destruct x eqn:?
             end
         end.

Lemma handler_total sel beh perr maxsz present put_ok msgs :
  let o := write_handler sel beh perr maxsz present put_ok msgs in
  (exists cs, w_status o = Ok cs) \/ (exists e, w_status o = Err e).
Proof.
  cbv zeta. unfold write_handler.
  destruct (recv_run maxsz present msgs) as [e0|x|j cs0|j e0].
  - right; eexists; reflexivity.
  - left; eexists; reflexivity.
  - destruct beh as [|k e|k]; [|destruct (k <? j)%nat|destruct (k <? j)%nat; [destruct sel|]];
      try destruct (put_ok j); cbn;
      first [left; eexists; reflexivity|right; eexists; reflexivity].
  - destruct beh as [|k e'|k]; [|destruct (k <? j)%nat|destruct (k <? j)%nat]; cbn; right; eexists; reflexivity.
Qed.

Lemma handler_stored_only_ok sel beh perr maxsz present put_ok msgs :
  let o := write_handler sel beh perr maxsz present put_ok msgs in
  w_stored o = true -> exists cs j, w_status o = Ok cs /\ w_put_clean o = Some j /\ put_ok j = true.
Proof.
  cbv zeta. unfold write_handler.
  destruct (recv_run maxsz present msgs) as [e0|x|j cs0|j e0]; try (cbn; discriminate).
  - destruct beh as [|k e|k]; [|destruct (k <? j)%nat|destruct (k <? j)%nat; [destruct sel|]];
      try destruct (put_ok j) eqn:P; cbn; try discriminate;
      intros _; exists cs0, j; repeat split; exact P.
  - destruct beh as [|k e'|k]; [|destruct (k <? j)%nat|destruct (k <? j)%nat]; cbn; discriminate.
Qed.

(* whichever ready channel the select takes, and whether or not Put fails before the end of the
   stream: the outcome class, the committed size and what is stored are the same *)
Definition outcome (o : wout) : option Z * bool :=
  (match w_status o with Ok cs => Some cs | _ => None end, w_stored o).

Lemma select_independent sel sel' beh perr maxsz present put_ok msgs :
  nil_early_free beh = true ->
  outcome (write_handler sel beh perr maxsz present put_ok msgs) =
  outcome (write_handler sel' beh perr maxsz present put_ok msgs).
Proof.
  intros NF. unfold write_handler. destruct (recv_run maxsz present msgs) as [e0|x|j cs0|j e0]; try reflexivity;
  (destruct beh as [|k e'|k]; [reflexivity| |discriminate]); destruct (k <? j)%nat; reflexivity.
Qed.

(* ... but NOT when Put returns nil before the end of the stream (the empty digest with undecodable
   zstd data): the same call ends OK or with an internal error depending on the select *)
Lemma select_dependent_nil_early :
  exists perr maxsz present put_ok msgs k cs,
    w_status (write_handler false (PutNilEarly k) perr maxsz present put_ok msgs) = Ok cs /\
    w_status (write_handler true (PutNilEarly k) perr maxsz present put_ok msgs) = Err EInternal /\
    put_ok (List.length (consumed msgs)) = false.
Proof.
  exists EBadRequest, 100, true, (fun _ => false),
         [mkMsg ("uploads/u/compressed-blobs/zstd/" ++ emptySha256 ++ "/0") 0 7 true], 0%nat, 7.
  repeat split; vm_compute; reflexivity.
Qed.

(* a Put whose reader fails can never accept: then an early failure changes nothing either *)
Lemma early_put_failure_same_class sel sel' k e perr maxsz present put_ok msgs :
  (forall j, put_ok j = false) ->
  outcome (write_handler sel (PutFailsEarly k e) perr maxsz present put_ok msgs) =
  outcome (write_handler sel' PutToEnd perr maxsz present put_ok msgs).
Proof.
  intros NP. unfold write_handler. destruct (recv_run maxsz present msgs) as [e0|x|j cs0|j e0]; try reflexivity.
  - rewrite NP. destruct (k <? j)%nat; reflexivity.
  - destruct (k <? j)%nat; reflexivity.
Qed.

(* ---- the first message *)
Lemma recv_run_first maxsz present m rest :
  recv_run maxsz present (m :: rest) =
  if String.eqb (m_name m) "" then REarly EBadRequest else
  match parse_write_resource (m_name m) with
  | Ok (hash, size, cmp) =>
      if size >? maxsz then REarly EBadRequest else
      if early_return present hash size then RExists (if cmp =? cmp_identity then size else -1) else
      if negb (m_off m =? 0) then REarly EInternal else
      recv_loop (m_name m) size cmp true 0 0 (m :: rest)
  | Err e => REarly e
  | Panic s => REarly (EOther (-1))
  | Hang s => REarly (EOther (-2))
  end.
Proof. reflexivity. Qed.

Lemma parse_empty_name : parse_write_resource "" = Err EBadRequest.
Proof. reflexivity. Qed.

(* ---- success *)
Lemma handler_ok_inv sel beh perr maxsz present put_ok msgs cs :
  let o := write_handler sel beh perr maxsz present put_ok msgs in
  w_status o = Ok cs ->
  exists m rest h sz c,
    msgs = m :: rest /\ parse_write_resource (m_name m) = Ok (h, sz, c) /\ sz <= maxsz /\
    ((early_return present h sz = true /\ cs = (if c =? cmp_identity then sz else -1) /\
      w_put_started o = false /\ w_stored o = false)
     \/
     (early_return present h sz = false /\ m_off m = 0 /\ names_ok (m_name m) (consumed msgs) = true /\
      cs = sumlen (consumed msgs) /\ ((c =? cmp_identity) = true -> cs = sz) /\
      (nil_early_free beh = true ->
       w_put_clean o = Some (List.length (consumed msgs)) /\
       put_ok (List.length (consumed msgs)) = true /\ w_stored o = true))).
Proof.
  cbv zeta. destruct msgs as [|m rest]; [cbn; discriminate|].
  unfold write_handler. rewrite recv_run_first.
  destruct (String.eqb (m_name m) "") eqn:E0; [cbn; discriminate|].
  destruct (parse_write_resource (m_name m)) as [[[h sz] c]|e|s|s] eqn:P; try (cbn; discriminate).
  destruct (sz >? maxsz) eqn:Em; [cbn; discriminate|].
  destruct (early_return present h sz) eqn:C.
  - cbn. intros H. injection H as <-. exists m, rest, h, sz, c.
    split; [reflexivity|]. split; [exact P|]. split; [lia|]. left. repeat split. exact C.
  - destruct (negb (m_off m =? 0)) eqn:Off; [cbn; discriminate|].
    apply negb_false_iff in Off. apply Z.eqb_eq in Off.
    destruct (recv_loop (m_name m) sz c true 0 0 (m :: rest)) as [e|x|j cs'|j e] eqn:R.
    + cbn; discriminate.
    + destruct (recv_loop_shape (m_name m) sz c (m :: rest) true 0%nat 0) as [(a & b & Q)|(a & b & Q)]; congruence.
    + apply recv_loop_done in R as (Hj & Hcs & Hid & Hn). cbn [Nat.add] in Hj. subst j.
      assert (NA : names_ok (m_name m) (consumed (m :: rest)) = true).
      { destruct (consumed_cons m rest) as (t & Et). rewrite Et in *. cbn [tl] in Hn.
        cbn [names_ok forallb]. unfold name_ok at 1. rewrite String.eqb_refl, orb_true_r. exact Hn. }
      intros H. exists m, rest, h, sz, c. split; [reflexivity|]. split; [exact P|]. split; [lia|]. right.
      destruct beh as [|k e|k].
      * destruct (put_ok (List.length (consumed (m :: rest)))) eqn:PO; cbn in H; [|discriminate].
        injection H as <-. cbn. repeat split; try assumption; lia.
      * destruct (k <? List.length (consumed (m :: rest)))%nat; [cbn in H; discriminate|].
        destruct (put_ok (List.length (consumed (m :: rest)))) eqn:PO; cbn in H; [|discriminate].
        injection H as <-. cbn. repeat split; try assumption; lia.
      * assert (CS : cs = cs').
        { destruct (k <? List.length (consumed (m :: rest)))%nat; [destruct sel|
            destruct (put_ok (List.length (consumed (m :: rest))))]; cbn in H; congruence. }
        subst cs'. cbn [nil_early_free]. repeat split; try assumption; try lia; discriminate.
    + destruct beh as [|k e'|k]; [|destruct (k <? j)%nat|destruct (k <? j)%nat]; cbn; discriminate.
Qed.

(* ---- the blob already exists: early return, whatever follows in the stream *)
Lemma existing_blob_early_return sel beh perr maxsz present put_ok m rest h sz c :
  parse_write_resource (m_name m) = Ok (h, sz, c) -> sz <= maxsz -> early_return present h sz = true ->
  write_handler sel beh perr maxsz present put_ok (m :: rest) =
  mkOut (Ok (if c =? cmp_identity then sz else -1)) false None false.
Proof.
  intros P Hm C. unfold write_handler. rewrite recv_run_first.
  destruct (String.eqb (m_name m) "") eqn:E0.
  - apply String.eqb_eq in E0. rewrite E0, parse_empty_name in P. discriminate.
  - rewrite P. destruct (sz >? maxsz) eqn:Em; [lia|]. rewrite C. reflexivity.
Qed.

(* ---- rejection: for a blob not yet present, each of the listed faults fails the call and nothing
   is stored *)
Lemma handler_rejects sel beh perr maxsz present put_ok msgs :
  let o := write_handler sel beh perr maxsz present put_ok msgs in
  (msgs = [] \/
   exists m rest, msgs = m :: rest /\
     (* an unparsable (or empty) resource name, or a blob beyond the size limit *)
     ((forall x, parse_write_resource (m_name m) <> Ok x) \/
      exists h sz c, parse_write_resource (m_name m) = Ok (h, sz, c) /\
        (sz > maxsz \/
         (early_return present h sz = false /\
          (m_off m <> 0 \/                                          (* non-zero first write_offset *)
           names_ok (m_name m) (consumed msgs) = false \/            (* resource name changes mid-stream *)
           ((c =? cmp_identity) = true /\ sumlen (consumed msgs) <> sz)))))) ->  (* more or fewer bytes *)
  (exists e, w_status o = Err e) /\ w_stored o = false.
Proof.
  cbv zeta. intros Bad.
  assert (NotOk : forall cs, w_status (write_handler sel beh perr maxsz present put_ok msgs) <> Ok cs).
  { intros cs HOk. apply handler_ok_inv in HOk as (m & rest & h & sz & c & Em & P & Hsz & Cases).
    destruct Bad as [->|(m' & rest' & Em' & Bad)]; [discriminate|].
    rewrite Em in Em'. injection Em' as <- <-.
    destruct Bad as [NP|(h' & sz' & c' & P' & Bad)]; [apply (NP _ P)|].
    rewrite P in P'. injection P' as <- <- <-.
    destruct Bad as [Big|(NC & Bad)]; [lia|].
    destruct Cases as [(C & _)|(_ & Off & Nm & Hcs & Hid & _)]; [congruence|].
    destruct Bad as [B|[B|(Bc & B)]]; [contradiction|congruence|]. apply Hid in Bc. lia. }
  split.
  - destruct (handler_total sel beh perr maxsz present put_ok msgs) as [(cs & H)|H]; [|exact H].
    exfalso. exact (NotOk cs H).
  - destruct (w_stored (write_handler sel beh perr maxsz present put_ok msgs)) eqn:S; [|reflexivity].
    apply handler_stored_only_ok in S as (cs & j & H & _). exfalso. exact (NotOk cs H).
Qed.

(* ---- Put refuses what it was handed: the call fails and nothing is stored (unless Put returns nil
   before the end of the stream, see select_dependent_nil_early) *)
Lemma handler_put_refuses sel beh perr maxsz present put_ok msgs :
  let o := write_handler sel beh perr maxsz present put_ok msgs in
  nil_early_free beh = true ->
  (forall m rest h sz c, msgs = m :: rest -> parse_write_resource (m_name m) = Ok (h, sz, c) ->
     early_return present h sz = false /\ put_ok (List.length (consumed msgs)) = false) ->
  (exists e, w_status o = Err e) /\ w_stored o = false.
Proof.
  cbv zeta. intros NF Bad.
  assert (NotOk : forall cs, w_status (write_handler sel beh perr maxsz present put_ok msgs) <> Ok cs).
  { intros cs HOk. apply handler_ok_inv in HOk as (m & rest & h & sz & c & Em & P & Hsz & Cases).
    destruct (Bad m rest h sz c Em P) as [NE NP].
    destruct Cases as [(C & _)|(_ & _ & _ & _ & _ & Put)]; [congruence|].
    destruct (Put NF) as (_ & PO & _). congruence. }
  split.
  - destruct (handler_total sel beh perr maxsz present put_ok msgs) as [(cs & H)|H]; [|exact H].
    exfalso. exact (NotOk cs H).
  - destruct (w_stored (write_handler sel beh perr maxsz present put_ok msgs)) eqn:S; [|reflexivity].
    apply handler_stored_only_ok in S as (cs & j & H & _). exfalso. exact (NotOk cs H).
Qed.

Lemma empty_digest_no_early_return present : early_return present emptySha256 0 = false.
Proof.
  unfold early_return. assert (E : is_empty_digest emptySha256 0 = true) by reflexivity.
  rewrite E. apply andb_false_r.
Qed.
