(* Proofs/Front_hardlimit.v — C17 on the front-end adapters: an upload the index refuses because of
   max_size_hard_limit (LRU.reserve answers EInsufficient = 507) is answered, on every write path, with
   the status the adapter derives from that error class, and the resulting state is exactly the one
   the refused reservation left (Proofs/LRU_limit: same entries, same accounting, same backlog).
   (SpliceBlob and FetchBlob used to drop the class — Unknown resp. NOT_FOUND; repaired, and kept as
   regression cases in the driver and in Front_examples.) *)
From BR Require Import Base.Prelude Model.LRU Proofs.LRU_inv Proofs.LRU_limit Model.Disk Proofs.Disk_ack
  Model.Front Proofs.Front_base Proofs.Front_ack Proofs.Front_limit.
Open Scope Z_scope.

Lemma exec_first_step' c d r d' resp :
  tstep c d (spawn r) = Some (d', goto (spawn r) (Done resp)) -> exec c d r = (d', Some resp).
Proof.
  intros H. unfold exec. destruct (fuel_ge2 r) as [f ->].
  rewrite run_thread_S, H, run_thread_S. unfold goto. rewrite tstep_done. reflexivity.
Qed.

(* the state a refused reservation leaves *)
Definition after_refusal (d : dstate) (sz : Z) : dstate := set_lru (fst (LRU.reserve sz (lru d))) d.

(* Put: a reservation the index refuses ends the request at once with that error *)
Lemma disk_put_reserve_refused c d k hash sz st rnd e :
  0 < sz <= c_maxblob (fc_disk c) -> Z.of_nat (String.length hash) = hashLen ->
  snd (LRU.reserve sz (lru d)) = Err e ->
  disk_put c d k hash sz st rnd = (after_refusal d sz, Some e).
Proof.
  intros HS HL HR. unfold disk_put, after_refusal.
  rewrite (exec_first_step' _ _ _ (set_lru (fst (LRU.reserve sz (lru d))) d) (PutErr e)); [reflexivity|].
  unfold tstep, spawn. cbn [t_pc t_req].
  replace (sz <? 0) with false by lia. replace (sz >? c_maxblob (fc_disk c)) with false by lia.
  rewrite HL. rewrite Z.eqb_refl. cbn [negb].
  replace (sz =? 0) with false by lia. rewrite andb_false_r. cbn [andb].
  replace (sz >? 0) with true by lia.
  destruct (LRU.reserve sz (lru d)) as [l' r]. cbn in HR. subst r. reflexivity.
Qed.

(* when that happens (Proofs/LRU_limit.limit_admission), and that it is pure (limit_refusal_pure) *)
Lemma hard_limit_refusal c d k hash sz st rnd :
  Inv (lru d) -> 0 < sz <= c_maxblob (fc_disk c) -> Z.of_nat (String.length hash) = hashLen ->
  sz <= maxs (lru d) -> sz + res (lru d) <= maxs (lru d) ->
  ~ (hard (lru d) <= 0 \/ cur (lru d) + qbytes (lru d) + sz <= hard (lru d)) ->
  let d' := after_refusal d sz in
  disk_put c d k hash sz st rnd = (d', Some EInsufficient) /\
  files d' = files d /\ handed d' = handed d /\
  order (lru d') = order (lru d) /\ evq (lru d') = evq (lru d) /\ cur (lru d') = cur (lru d) /\
  res (lru d') = res (lru d) /\ unc (lru d') = unc (lru d) /\ qbytes (lru d') = qbytes (lru d).
Proof.
  intros HI HS HL HM HR HN.
  destruct (limit_admission sz (lru d) HI ltac:(lia) HM HR) as [_ HE]. specialize (HE HN).
  pose proof (limit_refusal_pure sz (lru d) EInsufficient HI HE) as (P1 & P2 & P3 & P4 & P5 & P6 & _).
  cbv zeta. split; [apply disk_put_reserve_refused; assumption|].
  unfold after_refusal, set_lru. cbn. repeat split; assumption.
Qed.

(* ---------------- per write path: what a disk-layer refusal [e] becomes ---------------- *)

Section paths.
  Variable c : fcfg.

  (* HTTP PUT /cas: the error's own HTTP code (507 for EInsufficient) *)
  Lemma http_put_disk_refusal d hash cl xd ce b rnd len d' e :
    http_declared cl xd = Some len -> 0 < len <= fc_http_max c -> ce <> CeOther ->
    disk_put c d CAS hash len (stream_of b) rnd = (d', Some e) ->
    http_put c d true hash cl xd ce b rnd = (d', SErr e).
  Proof. intros HD HL HC HP. rewrite (http_put_within_limit _ _ _ _ _ _ _ _ _ HD HL HC), HP. reflexivity. Qed.

  (* HTTP PUT /ac *)
  Lemma http_put_ac_disk_refusal d hash cl arlen rnd d' e :
    0 <= cl <= fc_http_max c ->
    disk_put c d AC hash arlen (mkStream 0 arlen false true arlen) rnd = (d', Some e) ->
    http_put_ac c d hash cl true arlen rnd = (d', SErr e).
  Proof.
    intros HL HP. unfold http_put_ac. replace (cl =? -1) with false by lia.
    replace (cl >? fc_http_max c) with false by lia. cbn [negb]. rewrite HP. reflexivity.
  Qed.

  (* BatchUpdateBlobs: per-blob status gRPCErrCode(err, Internal) *)
  Lemma bu_one_disk_refusal d en d' e :
    (forall n, bu_comp en <> COther n) -> b_clean (bu_body en) = true -> b_len (bu_body en) = bu_size en ->
    disk_put c d CAS (bu_hash en) (bu_size en) (stream_of (bu_body en)) (bu_rnd en) = (d', Some e) ->
    bu_one c d en = (d', SErr (grpc_code e EInternal)).
  Proof. intros H1 H2 H3 HP. rewrite (bu_one_wellformed _ _ _ H1 H2 H3), HP. reflexivity. Qed.

  (* ByteStream.Write whose messages were all received: gRPCErrCode(err, Internal), whichever of the
     two places of the handler reads Put's result *)
  Lemma bs_write_disk_refusal d z hash size m0 rest b rnd piped d' e :
    0 <= size <= fc_grpc_max c -> validate_hash hash size = true ->
    bs_shortcut (snd (fst (disk_contains c d CAS hash size))) hash size = false -> wm_off m0 = 0 ->
    recv_loop z size 0 true (m0 :: rest) false = (piped, None) ->
    disk_put c (fst (fst (disk_contains c d CAS hash size))) CAS hash size (bs_stream z b piped false) rnd = (d', Some e) ->
    bs_write c d (WN z hash size) (m0 :: rest) false b rnd = (d', SErr (grpc_code e EInternal)).
  Proof.
    intros H1 H2 H3 H4 HR HP. rewrite (bs_write_within_limit _ _ _ _ _ _ _ _ _ _ H1 H2 H3 H4).
    cbv zeta. rewrite HR, HP. reflexivity.
  Qed.

  (* UpdateActionResult without inlined blobs: the ActionResult's own Put *)
  Lemma update_ar_disk_refusal d ahash asize arlen rnd none1 none2 d' e :
    validate_hash ahash asize = true -> arlen <> 0 -> in_present none1 = false -> in_present none2 = false ->
    disk_put c d AC ahash arlen (mkStream 0 arlen false true arlen) rnd = (d', Some e) ->
    update_ar c d ahash asize true [] none1 none2 arlen rnd = (d', SErr (grpc_code e EInternal)).
  Proof.
    intros HV HN P1 P2 HP. unfold update_ar. rewrite HV. cbn [negb]. replace (arlen =? 0) with false by lia.
    cbn [app put_inlined]. rewrite P1, P2. cbn [negb]. rewrite HP. reflexivity.
  Qed.

  (* UpdateActionResult with an inlined blob that is refused: the same class, and the ActionResult is not stored *)
  Lemma update_ar_inlined_disk_refusal d ahash asize files so se arlen rnd i t d' e :
    validate_hash ahash asize = true -> arlen <> 0 -> files ++ [so; se] = i :: t -> in_present i = true ->
    disk_put c d CAS (fst (inl_digest i)) (snd (inl_digest i)) (inl_stream i) (in_rnd i) = (d', Some e) ->
    update_ar c d ahash asize true files so se arlen rnd = (d', SErr (grpc_code e EInternal)).
  Proof.
    intros HV HN HL HPr HP. apply update_ar_refused_no_ac; [exact HV|exact HN|].
    rewrite HL. cbn [put_inlined]. rewrite HPr. cbn [negb]. destruct (inl_digest i) as [h s]. cbn [fst snd] in HP.
    rewrite HP. reflexivity.
  Qed.

  (* SpliceBlob whose chunks were all read: gRPCErrCode(err, Unknown) *)
  Lemma splice_disk_refusal d dfn cs h s computed concat_ok cid rnd total d2 d3 d' e :
    (dfn = 0 \/ dfn = 1) -> cs <> [] -> check_chunks cs 0 = Some total -> total = s -> 0 < s ->
    (fc_grpc_max c > 0 -> s <= fc_grpc_max c) -> h <> emptySha256 -> hash_re h = true ->
    disk_contains c d CAS h s = (d2, false, -1) ->
    feed_chunks c d2 cs 0 = (d3, s, None) ->
    disk_put c d3 CAS h s (mkStream cid s false concat_ok s) rnd = (d', Some e) ->
    splice c d dfn cs (Some (h, s)) computed concat_ok cid rnd = (d', SErr (grpc_code e EInternal)).
  Proof.
    intros HD HC HK HT HS HM HE HRE HCo HF HP. unfold splice.
    replace ((dfn =? 0) || (dfn =? 1)) with true by (destruct HD; subst; reflexivity). cbn [negb].
    destruct cs as [|k0 ks]; [congruence|]. rewrite HK.
    replace ((fc_grpc_max c >? 0) && (s >? fc_grpc_max c)) with false
      by (destruct (fc_grpc_max c >? 0) eqn:E; cbn; [|reflexivity]; symmetry; specialize (HM ltac:(lia)); lia).
    replace (s =? 0) with false by lia.
    destruct (String.eqb h emptySha256) eqn:E; [apply String.eqb_eq in E; congruence|]. cbn [orb].
    replace (s <? 0) with false by lia. rewrite HRE. cbn [negb andb].
    replace (total =? s) with true by lia. cbn [negb]. rewrite HCo, HF, HP. reflexivity.
  Qed.

  (* FetchBlob: a store refused for lack of space ends the call with RESOURCE_EXHAUSTED (no further URI
     is tried); a store refused for another reason moves on to the next URI *)
  Lemma fetch_item_disk_refusal d u h d' e :
    up_ok u = true -> 0 <= up_cl u ->
    disk_put c d CAS h (up_cl u) (stream_of (up_body u)) (up_rnd u) = (d', Some e) ->
    fetch_item c d u (Some h) = (d', Err e).
  Proof.
    intros HO HL HP. unfold fetch_item. rewrite HO. cbn [negb]. replace (up_cl u <? 0) with false by lia.
    rewrite HP. reflexivity.
  Qed.

  Lemma fetch_uris_disk_refusal d u t h d' :
    up_ok u = true -> 0 <= up_cl u ->
    disk_put c d CAS h (up_cl u) (stream_of (up_body u)) (up_rnd u) = (d', Some EInsufficient) ->
    fetch_uris c d (u :: t) (Some h) = (d', SErr EInsufficient, None).
  Proof. intros HO HL HP. cbn [fetch_uris]. rewrite (fetch_item_disk_refusal _ _ _ _ _ HO HL HP). reflexivity. Qed.
End paths.

(* the class each protocol hands on for EInsufficient *)
Lemma retryable_class : grpc_code EInsufficient EInternal = EInsufficient.
Proof. reflexivity. Qed.
