(* Proofs/LRU_refine.v — REFINEMENT: the statement-level translation of /repo/cache/disk/lru.go
   (Gen/LRUSrc.v, regenerated from the source on every run, executed on the run-time of
   Model/GoLRU.v) computes exactly what the hand-written model Model/LRU.v computes, as long as no
   64-bit arithmetic wraps ([boundedb], a boolean on the MODEL state and the operation).

     gstep_refines   one operation:  WF c -> Inv (abs c) -> boundedb (abs c) o = true ->
                     gstep c o = Some (c', r) -> WF c' /\ step (abs c) o = (abs c', r)
     gstep_none / gstep_hang   the translated loop does not end  <->  the model says RHang
     gtrace_refines  a whole history from the initial state: same outputs and snapshots
     grun_refines    the reached Go state is well formed, stands for the model's state, and
                     satisfies LRU_inv.Inv: every theorem about Model/LRU.v is a theorem about
                     the translated lru.go.

   Helper files: LRU_refine_base (WF, boundedb, lists/heap/map), LRU_refine_loop (removeElement, the
   eviction loops), LRU_refine_prims (bounds from Inv, MoveToFront, PushFront, ...),
   LRU_refine_add (Add), LRU_refine_ops (the other methods). *)
From Coq Require Import Permutation.
From BR Require Import Base.Prelude Gen.Funcs Model.LRU Model.GoLRU Gen.LRUSrc Model.GoLRURun
  Proofs.LRU_inv Bridge.Bridge_LRU Proofs.LRU_refine_base Proofs.LRU_refine_loop Proofs.LRU_refine_prims
  Proofs.LRU_refine_add Proofs.LRU_refine_ops.
Open Scope list_scope.
Open Scope Z_scope.

Local Opaque wrap64 wrapU64 Gen.roundUp4k Gen.sumLargerThan.

(* ------------------------------------------------------------------ *)
(* the initial state *)

Lemma WF_init mx hd : WF (ginit mx hd).
Proof.
  constructor; simpl; try constructor; simpl.
  - intros id [].
  - intros k id. split; [discriminate|intros [[] _]].
Qed.

Lemma abs_init mx hd : abs (ginit mx hd) = init mx hd.
Proof. reflexivity. Qed.

(* ------------------------------------------------------------------ *)
(* one operation *)

Lemma gstep_m c o : WF c -> Inv (abs c) -> boundedb (abs c) o = true ->
  match gstep c o with
  | Some (c', r) => WFm c' /\ step (abs c) o = (abs c', r)
  | None => snd (step (abs c) o) = RHang
  end.
Proof.
  intros HW HI Hb. destruct o as [k v|k|k|k|n|n| |]; unfold gstep, step.
  - pose proof (Add_refines c k v HW HI Hb) as H.
    destruct (LRUSrc_Add (fuel_of c) c k v) as [[c' b]|].
    + destruct H as (H1 & H2). rewrite H2. split; [exact H1|reflexivity].
    + destruct H as (s' & H2). rewrite H2. reflexivity.
  - pose proof (Get_refines c k HW) as H.
    destruct (LRUSrc_Get c k) as [c' [v e]]. destruct H as (H1 & H2 & H3). rewrite H2.
    split; [exact H1|]. destruct e; reflexivity.
  - destruct (RemoveKey_refines c k HW HI Hb) as (H1 & H2). split; [exact H1|]. rewrite H2. reflexivity.
  - pose proof (Get_refines c k HW) as H. pose proof (get_inv k (abs c) HI) as HI1.
    destruct (LRUSrc_Get c k) as [c1 [v e]]. destruct H as (H1 & H2 & H3). rewrite H2 in *. simpl in HI1.
    destruct e as [id|].
    + destruct H3 as (Hin & _ & Hin0 & Ec1).
      assert (HW1 : WF c1) by (exact (WF_of_acct 0 0 c1 (proj1 HI1) H1)).
      assert (Hs1 : sizes_ok (abs c1) = true).
      { rewrite Ec1, (moveToFront_eq c id Hin0). exact Hb. }
      destruct (removeElement_listed c1 id HW1 HI1 Hs1 Hin) as (A1 & A2).
      unfold remove_element. change (order (abs c1)) with (rev (map (abs_elem c1) (g_ll c1))).
      rewrite (find_id_rev_map (abs_elem c1) (abs_elem_eid c1) id (g_ll c1) Hin).
      unfold LRUSrc_RemoveElement. rewrite A1. split; [exact A2|reflexivity].
    + split; [exact H1|reflexivity].
  - pose proof (Reserve_refines c n HW HI Hb) as H.
    destruct (LRUSrc_Reserve (fuel_of c) c n) as [[c' e]|]; [|contradiction].
    destruct H as (H1 & H2). rewrite H2. split; [exact H1|]. destruct e; reflexivity.
  - pose proof (Unreserve_refines c n HW HI Hb) as H.
    destruct (LRUSrc_Unreserve c n) as [c' e]. destruct H as (H1 & H2). rewrite H2.
    split; [exact H1|]. destruct e; reflexivity.
  - destruct (evictor_refines c (wf_m _ HW)) as (H1 & H2). rewrite H2.
    destruct (g_evictor_step c) as [c' r]. simpl in *. split; [exact H1|]. destruct r; reflexivity.
  - unfold drain. destruct (drain_refines (List.length (g_queue c)) c (wf_m _ HW)) as (H1 & H2).
    change (evq (abs c)) with (g_queue c). rewrite H2. split; [exact H1|reflexivity].
Qed.

(* both arms at once *)
Theorem gstep_total c o : WF c -> Inv (abs c) -> boundedb (abs c) o = true ->
  match gstep c o with
  | Some (c', r) => WF c' /\ step (abs c) o = (abs c', r)
  | None => snd (step (abs c) o) = RHang
  end.
Proof.
  intros HW HI Hb. pose proof (gstep_m c o HW HI Hb) as H.
  destruct (gstep c o) as [[c' r]|]; [|exact H]. destruct H as (H1 & H2). split; [|exact H2].
  pose proof (step_inv (abs c) o HI (boundedb_op_ok _ _ Hb)) as (HI' & _).
  rewrite H2 in HI'. simpl in HI'. exact (WF_of_acct 0 0 c' (proj1 HI') H1).
Qed.

Theorem gstep_refines c o c' r : WF c -> Inv (abs c) -> boundedb (abs c) o = true ->
  gstep c o = Some (c', r) -> WF c' /\ step (abs c) o = (abs c', r).
Proof. intros HW HI Hb E. pose proof (gstep_total c o HW HI Hb) as H. rewrite E in H. exact H. Qed.

(* the non-termination arm: a translated loop that does not end within the fuel (Add spinning on an
   empty list) is the model's RHang ... *)
Theorem gstep_none c o : WF c -> Inv (abs c) -> boundedb (abs c) o = true ->
  gstep c o = None -> snd (step (abs c) o) = RHang.
Proof. intros HW HI Hb E. pose proof (gstep_total c o HW HI Hb) as H. rewrite E in H. exact H. Qed.

Lemma gstep_out c o c' r : gstep c o = Some (c', r) -> r <> RHang.
Proof.
  destruct o as [k v|k|k|k|n|n| |]; unfold gstep; intros H.
  - destruct (LRUSrc_Add (fuel_of c) c k v) as [[c1 b]|]; inversion H; discriminate.
  - destruct (LRUSrc_Get c k) as [c1 [v e]]; inversion H; destruct e; discriminate.
  - inversion H; discriminate.
  - destruct (LRUSrc_Get c k) as [c1 [v e]]; destruct e; inversion H; discriminate.
  - destruct (LRUSrc_Reserve (fuel_of c) c n) as [[c1 e]|]; inversion H; destruct e; discriminate.
  - destruct (LRUSrc_Unreserve c n) as [c1 e]; inversion H; destruct e; discriminate.
  - destruct (g_evictor_step c) as [c1 e]; inversion H; destruct e; discriminate.
  - inversion H; discriminate.
Qed.

(* ... and conversely *)
Theorem gstep_hang c o : WF c -> Inv (abs c) -> boundedb (abs c) o = true ->
  snd (step (abs c) o) = RHang -> gstep c o = None.
Proof.
  intros HW HI Hb E. pose proof (gstep_total c o HW HI Hb) as H.
  destruct (gstep c o) as [[c' r]|] eqn:G; [|reflexivity].
  destruct H as (_ & H2). rewrite H2 in E. simpl in E. subst r.
  exfalso. exact (gstep_out c o c' RHang G eq_refl).
Qed.

(* under the invariant neither happens: the translated loops always end *)
Corollary gstep_terminates c o : WF c -> Inv (abs c) -> boundedb (abs c) o = true -> gstep c o <> None.
Proof.
  intros HW HI Hb E. pose proof (gstep_none c o HW HI Hb E) as H.
  exact (proj2 (step_inv (abs c) o HI (boundedb_op_ok _ _ Hb)) H).
Qed.

(* ------------------------------------------------------------------ *)
(* histories *)

Lemma gtrace_refines_from ops : forall c, WF c -> Inv (abs c) -> bounded_run (abs c) ops = true ->
  gtrace c ops = trace (abs c) ops.
Proof.
  induction ops as [|o t IH]; intros c HW HI Hb; simpl; [reflexivity|].
  simpl in Hb. apply andb_true_iff in Hb as [Hb Hr].
  pose proof (gstep_total c o HW HI Hb) as T.
  pose proof (step_inv (abs c) o HI (boundedb_op_ok _ _ Hb)) as (HI' & Hnh).
  destruct (gstep c o) as [[c' r]|].
  - destruct T as (HW' & E). rewrite E in *. simpl in *. f_equal. apply IH; assumption.
  - contradiction.
Qed.

Lemma grun_refines_from ops : forall c, WF c -> Inv (abs c) -> bounded_run (abs c) ops = true ->
  exists c', grun c ops = Some c' /\ WF c' /\ abs c' = run (abs c) ops /\ Inv (abs c').
Proof.
  induction ops as [|o t IH]; intros c HW HI Hb; simpl.
  - exists c. split; [reflexivity|split; [exact HW|split; [reflexivity|exact HI]]].
  - simpl in Hb. apply andb_true_iff in Hb as [Hb Hr].
    pose proof (gstep_total c o HW HI Hb) as T.
    pose proof (step_inv (abs c) o HI (boundedb_op_ok _ _ Hb)) as (HI' & Hnh).
    destruct (gstep c o) as [[c' r]|]; [|contradiction].
    destruct T as (HW' & E). rewrite E in *. simpl in *. apply IH; assumption.
Qed.

Lemma bounded_run_ops_ok ops : forall s, bounded_run s ops = true -> Forall op_ok ops.
Proof.
  induction ops as [|o t IH]; intros s Hb; [constructor|].
  simpl in Hb. apply andb_true_iff in Hb as [Hb Hr].
  constructor; [exact (boundedb_op_ok _ _ Hb)|exact (IH _ Hr)].
Qed.

(* the translated lru.go and the model produce the same trace (outputs and snapshots) *)
Theorem gtrace_refines mx hd ops :
  0 < mx -> bounded_run (init mx hd) ops = true ->
  gtrace (ginit mx hd) ops = trace (init mx hd) ops
  /\ Forall (fun ob => fst ob <> RHang) (trace (init mx hd) ops).
Proof.
  intros Hm Hb. split.
  - rewrite <- (abs_init mx hd). apply gtrace_refines_from.
    + apply WF_init.
    + rewrite abs_init. apply init_inv. exact Hm.
    + rewrite abs_init. exact Hb.
  - apply trace_no_hang; [apply init_inv; exact Hm|exact (bounded_run_ops_ok _ _ Hb)].
Qed.

(* the Go state reached by the translated code stands for the model's state and satisfies the
   accounting invariant of LRU_inv *)
Theorem grun_refines mx hd ops :
  0 < mx -> bounded_run (init mx hd) ops = true ->
  exists c', grun (ginit mx hd) ops = Some c' /\ WF c' /\ abs c' = run (init mx hd) ops /\ Inv (abs c').
Proof.
  intros Hm Hb. rewrite <- (abs_init mx hd). apply grun_refines_from.
  - apply WF_init.
  - rewrite abs_init. apply init_inv. exact Hm.
  - rewrite abs_init. exact Hb.
Qed.

(* the correspondence check of the translated code and of the model accept the same cases *)
Corollary gcase_ok_case_ok mx hd ops obs :
  0 < mx -> bounded_run (init mx hd) ops = true ->
  gcase_ok (mx, hd, ops, obs) = case_ok (mx, hd, ops, obs).
Proof.
  intros Hm Hb. unfold gcase_ok, case_ok. rewrite (proj1 (gtrace_refines mx hd ops Hm Hb)). reflexivity.
Qed.

(* e.g. LRU_inv.lru_accounting, read on the Go state *)
Corollary grun_accounting mx hd ops c' :
  0 < mx -> bounded_run (init mx hd) ops = true -> grun (ginit mx hd) ops = Some c' ->
  g_currentSize c' = g_reservedSize c' + sumZ r4k_disk (order (abs c')) /\
  g_currentSize c' <= g_maxSize c' /\ 0 <= g_reservedSize c' /\
  g_uncompressedSize c' = sumZ r4k_size (order (abs c')) /\
  g_queuedEvictionsSize c' = sumZ qsz (g_queue c').
Proof.
  intros Hm Hb E. destruct (grun_refines mx hd ops Hm Hb) as (c2 & E2 & _ & _ & HI).
  rewrite E in E2. inversion E2; subst c2.
  destruct HI as ([_ _ _ Hc Hu Hr Hq _ _] & Hle & _). simpl in *. repeat split; try assumption; lia.
Qed.

Print Assumptions gstep_refines.
Print Assumptions gstep_none.
Print Assumptions gstep_hang.
Print Assumptions gtrace_refines.
Print Assumptions grun_refines.
Print Assumptions gcase_ok_case_ok.

(* ------------------------------------------------------------------ *)
(* the hypotheses are met by a concrete history: adds with overwrite, eviction, get, reserve and
   unreserve (also with negative and huge arguments), remove by key and by handle, the evictor *)

Definition ex_ops : list op :=
  [ OAdd "a" (mkItem 5000 5000 "ra" false);
    OAdd "b" (mkItem 100 4096 "rb" false);
    OAdd "a" (mkItem 3000 3000 "ra2" true);
    OGet "b";
    OAdd "c" (mkItem 9000 9000 "rc" false);
    OReserve 4096;
    OReserve (-5);
    OReserve 1180591620717411303424;
    OAdd "e" (mkItem 1 8192 "re" false);
    OUnreserve 4096;
    OUnreserve (-1);
    OUnreserve 9000000000000000000;
    OEvictorStep;
    OAdd "d" (mkItem 10 10 "rd" false);
    ORemoveElem "d";
    ORemoveKey "e";
    OGet "zz";
    OAdd "big" (mkItem 1 20000 "rbig" false);
    ODrain;
    OEvictorStep ]%string.

Example ex_bounded : bounded_run (init 16384 40000) ex_ops = true.
Proof. vm_compute. reflexivity. Qed.

Example ex_outputs :
  map fst (trace (init 16384 40000) ex_ops) =
  map fst (gtrace (ginit 16384 40000) ex_ops).
Proof. vm_compute. reflexivity. Qed.

(* what happens in it (keys LRU first, currentSize, reservedSize, queue length after each step) *)
Example ex_shape :
  map (fun ob => (map ekey (sn_order (snd ob)), sn_cur (snd ob), sn_res (snd ob),
                  List.length (sn_evq (snd ob)))) (gtrace (ginit 16384 40000) ex_ops) =
  [(["a"], 8192, 0, 0%nat); (["a"; "b"], 12288, 0, 0%nat);
   (["b"; "a"], 8192, 0, 1%nat); (["a"; "b"], 8192, 0, 1%nat);
   (["b"; "c"], 16384, 0, 2%nat); (["c"], 16384, 4096, 3%nat);
   (["c"], 16384, 4096, 3%nat); (["c"], 16384, 4096, 3%nat);
   (["e"], 12288, 4096, 4%nat); (["e"], 8192, 0, 4%nat);
   (["e"], 8192, 0, 4%nat); (["e"], 8192, 0, 4%nat);
   (["e"], 8192, 0, 3%nat); (["e"; "d"], 12288, 0, 3%nat);
   (["e"], 8192, 0, 4%nat); ([], 0, 0, 5%nat); ([], 0, 0, 5%nat); ([], 0, 0, 5%nat);
   ([], 0, 0, 0%nat); ([], 0, 0, 0%nat)]%string.
Proof. vm_compute. reflexivity. Qed.

Example ex_gtrace : gtrace (ginit 16384 40000) ex_ops = trace (init 16384 40000) ex_ops.
Proof. vm_compute. reflexivity. Qed.

Example ex_gtrace_by_theorem : gtrace (ginit 16384 40000) ex_ops = trace (init 16384 40000) ex_ops.
Proof. apply gtrace_refines; [lia|exact ex_bounded]. Qed.

Example ex_grun : exists c', grun (ginit 16384 40000) ex_ops = Some c' /\ Inv (abs c').
Proof.
  destruct (grun_refines 16384 40000 ex_ops ltac:(lia) ex_bounded) as (c' & H1 & _ & _ & H2).
  exists c'. split; assumption.
Qed.
