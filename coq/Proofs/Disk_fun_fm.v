(* Proofs/Disk_fun_fm.v — functional correctness of FindMissingBlobs in the sequential semantics
   [exec] of Model/Disk.v (C10): the answer is the order-preserving filter of the request by
   "absent locally and not reported by the backend", for every request length (any number of
   batches), and the index is only re-ordered.  Also shared helpers for Disk_fun_put/get:
   [LruSame] (equal up to recency order), [run_done], file-list lemmas. *)
From Coq Require Import Permutation.
From BR Require Import Base.Prelude Model.LRU Proofs.LRU_inv Proofs.LRU_spec.
Open Scope Z_scope.

(* ------------------------------------------------------------------ *)
(* LRU: a lookup only re-orders *)

Lemma find_key_app k a b :
  find_key k (a ++ b) = match find_key k a with Some e => Some e | None => find_key k b end.
Proof. induction a as [|x t IH]; simpl; [reflexivity|]. destruct (String.eqb (ekey (ent x)) k); auto. Qed.

Lemma find_key_notin k l : ~ In k (map key_of l) -> find_key k l = None.
Proof.
  induction l as [|x t IH]; simpl; intros H; [reflexivity|].
  destruct (String.eqb (ekey (ent x)) k) eqn:E.
  - apply String.eqb_eq in E. exfalso. apply H. left. exact E.
  - apply IH. tauto.
Qed.

Lemma find_key_touch k' l e : NoDup (map key_of l) -> NoDup (map eid l) -> In e l ->
  find_key k' (remove_id (eid e) l ++ [e]) = find_key k' l.
Proof.
  intros Hk Hi Hin. destruct (remove_id_split l e Hi Hin) as (l1 & l2 & H1 & H2).
  rewrite H2. rewrite H1 in Hk |- *. clear H1 H2 Hi Hin.
  rewrite !find_key_app. simpl.
  destruct (find_key k' l1) as [e1|]; [reflexivity|].
  destruct (String.eqb (ekey (ent e)) k') eqn:E.
  - apply String.eqb_eq in E. rewrite map_app in Hk. simpl in Hk. apply NoDup_remove_2 in Hk.
    rewrite find_key_notin; [reflexivity|]. intros Hc. apply Hk. apply in_or_app. right.
    unfold key_of at 1. rewrite E. exact Hc.
  - destruct (find_key k' l2); reflexivity.
Qed.

(* the two index states hold the same entries under the same keys and handles and agree on every
   counter: they differ at most in the recency order *)
Record LruSame (l l' : state) : Prop := mkSame {
  sm_find : forall k, find_key k (order l') = find_key k (order l);
  sm_perm : Permutation (order l') (order l);
  sm_cur : cur l' = cur l;
  sm_unc : unc l' = unc l;
  sm_res : res l' = res l;
  sm_maxs : maxs l' = maxs l;
  sm_hard : hard l' = hard l;
  sm_evq : evq l' = evq l;
  sm_qbytes : qbytes l' = qbytes l;
  sm_peak : peak l' = peak l;
  sm_next : next l' = next l }.

Lemma same_refl l : LruSame l l.
Proof. constructor; reflexivity. Qed.

Lemma same_trans a b c : LruSame a b -> LruSame b c -> LruSame a c.
Proof.
  intros [F1 P1 A1 B1 C1 D1 E1 G1 I1 J1 K1] [F2 P2 A2 B2 C2 D2 E2 G2 I2 J2 K2].
  constructor; [|etransitivity; eassumption|congruence..].
  intros k. rewrite F2. apply F1.
Qed.

Lemma same_peek l l' k : LruSame l l' -> peek k l' = peek k l.
Proof. intros H. unfold peek. rewrite (sm_find _ _ H). reflexivity. Qed.

Lemma get_same k s : Inv s ->
  let '(s', r) := get k s in
  Inv s' /\ LruSame s s' /\
  r = match find_key k (order s) with Some e => Some (evalue (ent e), eid e) | None => None end.
Proof.
  intros HI. pose proof (get_inv k s HI) as HI'. revert HI'. unfold get.
  destruct (find_key k (order s)) as [e|] eqn:E; simpl; intros HI'.
  - split; [exact HI'|]. split; [|reflexivity].
    apply find_key_In in E as [Hin _]. destruct HI as ([Hk Hi _ _ _ _ _ _ _] & _ & _).
    constructor; simpl; try reflexivity.
    + intros k'. apply find_key_touch; assumption.
    + apply Permutation_sym. etransitivity; [apply (remove_id_perm (order s) e Hi Hin)|].
      apply Permutation_cons_append.
  - split; [exact HI'|]. split; [apply same_refl|reflexivity].
Qed.

(* ------------------------------------------------------------------ *)
From BR Require Import Model.Disk Proofs.Disk_ack.

(* files *)
Lemma path_eqb_true a b : path_eqb a b = true <-> a = b.
Proof.
  unfold path_eqb. destruct a as [k1 s1 r1 g1], b as [k2 s2 r2 g2]. simpl. split.
  - intros H. repeat (apply andb_true_iff in H as [H ?]).
    apply String.eqb_eq in H. apply String.eqb_eq in H1. apply Z.eqb_eq in H2. apply Bool.eqb_prop in H0.
    congruence.
  - intros H. inversion H; subst. rewrite !String.eqb_refl, Z.eqb_refl, Bool.eqb_reflx. reflexivity.
Qed.

Lemma path_eqb_rfl a : path_eqb a a = true.
Proof. apply path_eqb_true. reflexivity. Qed.

Lemma remove_file_fresh p fs : find_file p fs = None -> remove_file p fs = fs.
Proof.
  induction fs as [|f t IH]; simpl; [reflexivity|].
  destruct (path_eqb (f_path f) p); [discriminate|]. intros H. rewrite IH; auto.
Qed.

Lemma put_file_fresh' f fs : find_file (f_path f) fs = None -> put_file f fs = f :: fs.
Proof. intros H. unfold put_file. rewrite remove_file_fresh; auto. Qed.

Lemma put_file_over f g fs : f_path g = f_path f -> put_file g (f :: fs) = g :: fs.
Proof. intros H. unfold put_file. simpl. rewrite H, path_eqb_rfl. reflexivity. Qed.

Lemma remove_file_head f fs : remove_file (f_path f) (f :: fs) = fs.
Proof. simpl. rewrite path_eqb_rfl. reflexivity. Qed.

Lemma find_file_head f fs : find_file (f_path f) (f :: fs) = Some f.
Proof. simpl. rewrite path_eqb_rfl. reflexivity. Qed.

(* threads *)
Lemma run_thread_S c f d t :
  run_thread c (S f) d t =
  match tstep c d t with Some (d', t') => run_thread c f d' t' | None => (d, t) end.
Proof. reflexivity. Qed.

Lemma tstep_done c d t r : t_pc t = Done r -> tstep c d t = None.
Proof. unfold tstep. intros ->. destruct (t_req t); reflexivity. Qed.

Lemma run_done c n d t r : t_pc t = Done r -> run_thread c n d t = (d, t).
Proof. intros H. destruct n; [reflexivity|]. rewrite run_thread_S, (tstep_done _ _ _ _ H). reflexivity. Qed.

(* ------------------------------------------------------------------ *)
(* C10: the specification *)

Notation slot := ((string * Z) * bhas)%type.

(* the digest is in the local cache with the stated size (the empty blob always is) *)
Definition present_local (l : LRU.state) (x : string * Z) : bool :=
  ((snd x =? 0) && String.eqb (fst x) emptySha256) ||
  match peek (lookup_key CAS (fst x)) l with
  | Some v => negb (mismatch (snd x) (size v))
  | None => false
  end.

(* … or the backend is asked (size within max_proxy_blob_size) and says yes *)
Definition present (c : cfg) (l : LRU.state) (x : slot) : bool :=
  present_local l (fst x) ||
  (c_proxy c && (snd (fst x) <=? c_maxproxy c) && match snd x with BHasYes _ => true | BHasNo => false end).

Definition fm_todo (ds : list (string * Z)) (bs : list bhas) : list slot :=
  combine ds (bs ++ repeat BHasNo (List.length ds)).

(* the exact answer: the absent digests in request order, duplicates kept *)
Definition fm_answer (c : cfg) (l : LRU.state) (ds : list (string * Z)) (bs : list bhas) : list (string * Z) :=
  map fst (filter (fun x => negb (present c l x)) (fm_todo ds bs)).

Definition slot_out (c : cfg) (l : LRU.state) (x : slot) : option (string * Z) :=
  if present c l x then None else Some (fst x).

Definition flat {A} (l : list (option A)) : list A :=
  flat_map (fun o => match o with Some x => [x] | None => [] end) l.

Lemma flat_app {A} (a b : list (option A)) : flat (a ++ b) = flat a ++ flat b.
Proof. unfold flat. apply flat_map_app. Qed.

Lemma flat_slot_out c l todo :
  flat (map (slot_out c l) todo) = map fst (filter (fun x => negb (present c l x)) todo).
Proof.
  induction todo as [|x t IH]; [reflexivity|]. cbn [map filter]. unfold slot_out at 1.
  destruct (present c l x); cbn; rewrite <- IH; reflexivity.
Qed.

Lemma existsb_filter_nil {A} (p : A -> bool) l : existsb p l = false -> filter p l = [].
Proof. induction l as [|x t IH]; simpl; [reflexivity|]. destruct (p x); simpl; [discriminate|exact IH]. Qed.

Lemma existsb_filter_cons {A} (p : A -> bool) l : existsb p l = true -> filter p l <> [].
Proof. induction l as [|x t IH]; simpl; [discriminate|]. destruct (p x); simpl; [discriminate|exact IH]. Qed.

Lemma existsb_ext' {A} (p q : A -> bool) l : (forall x, p x = q x) -> existsb p l = existsb q l.
Proof. intros H. induction l as [|x t IH]; simpl; [reflexivity|]. rewrite H, IH. reflexivity. Qed.

Lemma present_local_same l l' x : LruSame l l' -> present_local l' x = present_local l x.
Proof. intros H. unfold present_local. rewrite (same_peek _ _ _ H). reflexivity. Qed.

Lemma present_same c l l' x : LruSame l l' -> present c l' x = present c l x.
Proof. intros H. unfold present. rewrite (present_local_same _ _ _ H). reflexivity. Qed.

(* ------------------------------------------------------------------ *)
(* findMissingLocalCAS *)

Definition local_out (l : LRU.state) (x : slot) : option slot :=
  if present_local l (fst x) then None else Some x.

Lemma fm_local_spec : forall b l, Inv l ->
  let '(l', r) := fm_local l b in
  Inv l' /\ LruSame l l' /\ r = map (local_out l) b.
Proof.
  induction b as [|[[h sz] bh] t IH]; intros l HI; cbn [fm_local].
  - split; [exact HI|]. split; [apply same_refl|reflexivity].
  - destruct ((sz =? 0) && String.eqb h emptySha256) eqn:E0.
    + specialize (IH l HI). destruct (fm_local l t) as [l' r]. destruct IH as (H1 & H2 & H3).
      split; [exact H1|]. split; [exact H2|]. cbn [map]. unfold local_out at 1, present_local.
      cbn [fst snd]. rewrite E0. cbn. rewrite H3. reflexivity.
    + pose proof (get_same (lookup_key CAS h) l HI) as HG.
      destruct (LRU.get (lookup_key CAS h) l) as [l1 g]. destruct HG as (HI1 & HS1 & Hg).
      specialize (IH l1 HI1). destruct (fm_local l1 t) as [l' r]. destruct IH as (H1 & H2 & H3).
      split; [exact H1|]. split; [eapply same_trans; eassumption|]. cbn [map]. apply f_equal2.
      * unfold local_out, present_local, peek. cbn [fst snd]. rewrite E0, Hg. cbn [orb].
        destruct (find_key (lookup_key CAS h) (order l)) as [e|]; [|reflexivity].
        destruct (mismatch sz (size (evalue (ent e)))); reflexivity.
      * rewrite H3. apply map_ext. intros x. unfold local_out.
        rewrite (present_local_same _ _ _ HS1). reflexivity.
Qed.

Lemma firstn_batch_spec {A} : forall n (l : list A),
  let '(a, b) := firstn_batch n l in
  l = a ++ b /\ (l <> [] -> n <> O -> a <> []).
Proof.
  induction n as [|n IH]; intros l.
  - destruct l; cbn; (split; [reflexivity|intros _ H; congruence]).
  - destruct l as [|x t]; cbn; [split; [reflexivity|intros H; congruence]|].
    specialize (IH t). destruct (firstn_batch n t) as [a b]. destruct IH as [H1 _].
    split; [rewrite H1 at 1; reflexivity|discriminate].
Qed.

Lemma count_some_local l batch :
  Nat.eqb (count_some (map (local_out l) batch)) 0 =
  negb (existsb (fun x => negb (present_local l (fst x))) batch).
Proof.
  unfold count_some. induction batch as [|x t IH]; [reflexivity|]. cbn [map filter existsb].
  unfold local_out at 1. destruct (present_local l (fst x)); cbn; [exact IH|reflexivity].
Qed.

(* the three ways a batch's slots are folded into the accumulator *)
Lemma acc_all_present c l batch :
  existsb (fun x => negb (present_local l (fst x))) batch = false ->
  map (fun _ => None) (map (local_out l) batch) = map (slot_out c l) batch /\
  existsb (fun x => negb (present c l x)) batch = false.
Proof.
  induction batch as [|x t IH]; cbn [map existsb]; [split; reflexivity|].
  intros H. apply orb_false_iff in H as [H1 H2]. destruct (IH H2) as [IH1 IH2].
  apply negb_false_iff in H1. unfold slot_out at 1, present at 1 2. rewrite H1. cbn.
  split; [f_equal; exact IH1|exact IH2].
Qed.

Lemma acc_no_proxy c l batch : c_proxy c = false ->
  map (fun o : option slot => match o with Some (x, _) => Some x | None => None end) (map (local_out l) batch)
  = map (slot_out c l) batch /\
  existsb (fun x => negb (present c l x)) batch = existsb (fun x => negb (present_local l (fst x))) batch.
Proof.
  intros Hp. induction batch as [|[x bh] t [IH1 IH2]]; cbn [map existsb]; [split; reflexivity|].
  unfold slot_out at 1, local_out at 1, present at 1 2. rewrite Hp. cbn [fst snd andb]. rewrite orb_false_r.
  split; [|rewrite IH2; reflexivity]. rewrite IH1. destruct (present_local l x); reflexivity.
Qed.

Lemma acc_proxy c l batch : c_proxy c = true ->
  map (fun o : option slot => match o with
        | Some ((h, sz), bh) => if sz >? c_maxproxy c then Some (h, sz)
                                else match bh with BHasYes _ => None | BHasNo => Some (h, sz) end
        | None => None end) (map (local_out l) batch)
  = map (slot_out c l) batch /\
  existsb (fun s : slot => match s with ((h, sz), bh) =>
             (sz >? c_maxproxy c) || match bh with BHasNo => true | _ => false end end)
          (flat (map (local_out l) batch))
  = existsb (fun x => negb (present c l x)) batch.
Proof.
  intros Hp. induction batch as [|[[h sz] bh] t [IH1 IH2]]; cbn [map existsb]; [split; reflexivity|].
  unfold slot_out at 1, local_out at 1 3, present at 1 2. rewrite Hp. cbn [fst snd andb].
  destruct (present_local l (h, sz)); cbn [orb negb flat flat_map app existsb].
  - split; [rewrite IH1; reflexivity|exact IH2].
  - fold (flat (map (local_out l) t)). rewrite IH1, IH2.
    destruct (sz >? c_maxproxy c) eqn:E1.
    + assert (E2 : (sz <=? c_maxproxy c) = false) by lia. rewrite E2. split; reflexivity.
    + assert (E2 : (sz <=? c_maxproxy c) = true) by lia. rewrite E2. destruct bh; split; reflexivity.
Qed.

(* ------------------------------------------------------------------ *)
(* the batch loop *)

Lemma tstep_fm_nil c d ds bs ff h tm acc :
  tstep c d (mkThread (RFindMissing ds bs ff) (FMBatch [] acc) h tm) =
  Some (d, mkThread (RFindMissing ds bs ff) (Done (Missing (flat acc))) h tm).
Proof. reflexivity. Qed.

Lemma tstep_fm_batch c d ds bs ff h tm x todo acc :
  tstep c d (mkThread (RFindMissing ds bs ff) (FMBatch (x :: todo) acc) h tm) =
  let '(batch, rest) := firstn_batch batchSize (x :: todo) in
  let '(l', res) := fm_local (lru d) batch in
  let req := RFindMissing ds bs ff in
  if Nat.eqb (count_some res) 0 then
    Some (set_lru l' d, mkThread req (FMBatch rest (acc ++ map (fun _ => None) res)) h tm)
  else if negb (c_proxy c) then
    if ff then Some (set_lru l' d, mkThread req (Done MissingFailFast) h tm)
    else Some (set_lru l' d, mkThread req (FMBatch rest (acc ++ map (fun o : option slot => match o with Some (x, _) => Some x | None => None end) res)) h tm)
  else
    Some (set_lru l' d, mkThread req (FMProxy (flat res) rest
            (acc ++ map (fun o : option slot => match o with
                           | Some ((h, sz), bh) => if sz >? c_maxproxy c then Some (h, sz)
                                                   else match bh with BHasYes _ => None | BHasNo => Some (h, sz) end
                           | None => None end) res)) h tm).
Proof. reflexivity. Qed.

Lemma tstep_fm_proxy c d ds bs ff h tm slots todo acc :
  tstep c d (mkThread (RFindMissing ds bs ff) (FMProxy slots todo acc) h tm) =
  if ff && existsb (fun s : slot => match s with ((h, sz), bh) =>
             (sz >? c_maxproxy c) || match bh with BHasNo => true | _ => false end end) slots
  then Some (d, mkThread (RFindMissing ds bs ff) (Done MissingFailFast) h tm)
  else Some (d, mkThread (RFindMissing ds bs ff) (FMBatch todo acc) h tm).
Proof. reflexivity. Qed.

Definition fm_result (c : cfg) (l : LRU.state) (ff : bool) (acc : list (option (string * Z))) (todo : list slot) : response :=
  if ff && existsb (fun x => negb (present c l x)) todo then MissingFailFast
  else Missing (flat (acc ++ map (slot_out c l) todo)).

Lemma fm_result_step c l l' ff acc accb batch rest :
  LruSame l l' ->
  accb = map (slot_out c l) batch ->
  ff && existsb (fun x => negb (present c l x)) batch = false ->
  fm_result c l' ff (acc ++ accb) rest = fm_result c l ff acc (batch ++ rest).
Proof.
  intros HS -> Hb. unfold fm_result. rewrite existsb_app, map_app, app_assoc.
  assert (E1 : existsb (fun x => negb (present c l' x)) rest = existsb (fun x => negb (present c l x)) rest).
  { apply existsb_ext'. intros x. rewrite (present_same _ _ _ _ HS). reflexivity. }
  assert (E2 : map (slot_out c l') rest = map (slot_out c l) rest).
  { apply map_ext. intros x. unfold slot_out. rewrite (present_same _ _ _ _ HS). reflexivity. }
  rewrite E1, E2. destruct ff; cbn in *; [rewrite Hb|]; reflexivity.
Qed.

Lemma fm_result_ff c l acc todo :
  existsb (fun x => negb (present c l x)) todo = true -> fm_result c l true acc todo = MissingFailFast.
Proof. intros H. unfold fm_result. rewrite H. reflexivity. Qed.

Lemma fm_loop c ds bs ff h tm : forall m todo acc d n,
  (List.length todo <= m)%nat -> (2 * List.length todo + 1 <= n)%nat -> Inv (lru d) ->
  let '(d', t') := run_thread c n d (mkThread (RFindMissing ds bs ff) (FMBatch todo acc) h tm) in
  Inv (lru d') /\ LruSame (lru d) (lru d') /\ files d' = files d /\ handed d' = handed d /\
  t_pc t' = Done (fm_result c (lru d) ff acc todo).
Proof.
  induction m as [|m IH]; intros todo acc d n Hm Hn HI.
  - destruct todo as [|x todo]; [|cbn in Hm; lia].
    destruct n as [|n]; [cbn in Hn; lia|]. rewrite run_thread_S, tstep_fm_nil.
    erewrite run_done by reflexivity.
    split; [exact HI|]. split; [apply same_refl|]. split; [reflexivity|]. split; [reflexivity|].
    cbn [t_pc]. unfold fm_result. cbn [existsb map]. rewrite andb_false_r, app_nil_r. reflexivity.
  - destruct todo as [|x todo].
    { destruct n as [|n]; [cbn in Hn; lia|]. rewrite run_thread_S, tstep_fm_nil.
      erewrite run_done by reflexivity.
      split; [exact HI|]. split; [apply same_refl|]. split; [reflexivity|]. split; [reflexivity|].
      cbn [t_pc]. unfold fm_result. cbn [existsb map]. rewrite andb_false_r, app_nil_r. reflexivity. }
    destruct n as [|n]; [cbn in Hn; lia|]. rewrite run_thread_S, tstep_fm_batch.
    pose proof (firstn_batch_spec batchSize (x :: todo)) as HB.
    destruct (firstn_batch batchSize (x :: todo)) as [batch rest]. destruct HB as [HB1 HB2].
    assert (Hne : batch <> []) by (apply HB2; [discriminate|unfold batchSize; discriminate]).
    assert (Hlen : (List.length rest < List.length (x :: todo))%nat).
    { rewrite HB1, app_length. destruct batch; [congruence|cbn; lia]. }
    rewrite HB1. clear HB2. cbn [List.length] in Hm, Hn, Hlen.
    pose proof (fm_local_spec batch (lru d) HI) as HL.
    destruct (fm_local (lru d) batch) as [l' res]. destruct HL as (HI' & HS & ->).
    cbv zeta. rewrite count_some_local.
    destruct (existsb (fun x0 => negb (present_local (lru d) (fst x0))) batch) eqn:EL; cbn [negb].
    + (* some digest of the batch is not in the local cache *)
      destruct (c_proxy c) eqn:EP; cbn [negb].
      * (* ask the backend *)
        destruct (acc_proxy c (lru d) batch EP) as [HA1 HA2]. rewrite HA1.
        destruct n as [|n]; [lia|]. rewrite run_thread_S, tstep_fm_proxy, HA2.
        destruct (ff && existsb (fun x0 => negb (present c (lru d) x0)) batch) eqn:EF.
        -- erewrite run_done by reflexivity. cbn [lru files handed set_lru t_pc].
           split; [exact HI'|]. split; [exact HS|]. split; [reflexivity|]. split; [reflexivity|].
           apply andb_true_iff in EF as [-> EF]. rewrite fm_result_ff; [reflexivity|].
           rewrite existsb_app, EF. reflexivity.
        -- specialize (IH rest (acc ++ map (slot_out c (lru d)) batch) (set_lru l' d) n).
           destruct (run_thread c n (set_lru l' d) _) as [d' t'].
           destruct IH as (H1 & H2 & H3 & H4 & H5); [lia|lia|exact HI'|].
           cbn [lru files handed set_lru] in *.
           split; [exact H1|]. split; [eapply same_trans; eassumption|]. split; [exact H3|]. split; [exact H4|].
           rewrite H5. f_equal. apply fm_result_step; [exact HS|reflexivity|exact EF].
      * destruct (acc_no_proxy c (lru d) batch EP) as [HA1 HA2].
        destruct ff.
        -- erewrite run_done by reflexivity. cbn [lru files handed set_lru t_pc].
           split; [exact HI'|]. split; [exact HS|]. split; [reflexivity|]. split; [reflexivity|].
           rewrite fm_result_ff; [reflexivity|]. rewrite existsb_app, HA2, EL. reflexivity.
        -- rewrite HA1.
           specialize (IH rest (acc ++ map (slot_out c (lru d)) batch) (set_lru l' d) n).
           destruct (run_thread c n (set_lru l' d) _) as [d' t'].
           destruct IH as (H1 & H2 & H3 & H4 & H5); [lia|lia|exact HI'|].
           cbn [lru files handed set_lru] in *.
           split; [exact H1|]. split; [eapply same_trans; eassumption|]. split; [exact H3|]. split; [exact H4|].
           rewrite H5. f_equal. apply fm_result_step; [exact HS|reflexivity|reflexivity].
    + (* the whole batch is in the local cache *)
      destruct (acc_all_present c (lru d) batch EL) as [HA1 HA2]. rewrite HA1.
      specialize (IH rest (acc ++ map (slot_out c (lru d)) batch) (set_lru l' d) n).
      destruct (run_thread c n (set_lru l' d) _) as [d' t'].
      destruct IH as (H1 & H2 & H3 & H4 & H5); [lia|lia|exact HI'|].
      cbn [lru files handed set_lru] in *.
      split; [exact H1|]. split; [eapply same_trans; eassumption|]. split; [exact H3|]. split; [exact H4|].
      rewrite H5. f_equal. apply fm_result_step; [exact HS|reflexivity|]. rewrite HA2. apply andb_false_r.
Qed.

Lemma fm_todo_length ds bs : List.length (fm_todo ds bs) = List.length ds.
Proof. unfold fm_todo. rewrite combine_length, app_length, repeat_length. lia. Qed.

(* what [exec] does with a FindMissing request, for either mode *)
Lemma exec_fm c d ds bs ff : Inv (lru d) ->
  exists d', exec c d (RFindMissing ds bs ff) = (d', Some (fm_result c (lru d) ff [] (fm_todo ds bs))) /\
    Inv (lru d') /\ LruSame (lru d) (lru d') /\ files d' = files d /\ handed d' = handed d.
Proof.
  intros HI. unfold exec. cbn [spawn fuel_for]. fold (fm_todo ds bs).
  pose proof (fm_loop c ds bs ff 0 None (List.length (fm_todo ds bs)) (fm_todo ds bs) [] d
                (2 * List.length ds + 8)%nat (le_n _)) as H.
  destruct (run_thread c (2 * List.length ds + 8) d _) as [d' t'].
  destruct H as (H1 & H2 & H3 & H4 & H5); [rewrite fm_todo_length; lia|exact HI|].
  exists d'. unfold response_of. rewrite H5. split; [reflexivity|]. split; [exact H1|]. split; [exact H2|]. split; assumption.
Qed.

(* ------------------------------------------------------------------ *)
(* C10 *)

Definition fm_frame (d d' : dstate) : Prop :=
  Inv (lru d') /\ (forall k, peek k (lru d') = peek k (lru d)) /\ files d' = files d /\ handed d' = handed d /\
  cur (lru d') = cur (lru d) /\ res (lru d') = res (lru d) /\ unc (lru d') = unc (lru d) /\
  evq (lru d') = evq (lru d) /\ maxs (lru d') = maxs (lru d) /\ hard (lru d') = hard (lru d) /\
  Permutation (order (lru d')) (order (lru d)).

Lemma fm_frame_of d d' : Inv (lru d') -> LruSame (lru d) (lru d') -> files d' = files d -> handed d' = handed d ->
  fm_frame d d'.
Proof.
  intros H1 H2 H3 H4. unfold fm_frame. split; [exact H1|].
  split; [intros k; apply same_peek; exact H2|]. destruct H2. repeat split; assumption.
Qed.

Theorem fm_exact c d ds bs : Inv (lru d) ->
  exists d', exec c d (RFindMissing ds bs false) = (d', Some (Missing (fm_answer c (lru d) ds bs))) /\
             fm_frame d d'.
Proof.
  intros HI. destruct (exec_fm c d ds bs false HI) as (d' & H1 & H2 & H3 & H4 & H5).
  exists d'. split; [|apply fm_frame_of; assumption].
  rewrite H1. unfold fm_result, fm_answer. cbn [andb app]. rewrite flat_slot_out. reflexivity.
Qed.

Theorem fm_failfast c d ds bs : Inv (lru d) ->
  exists d', exec c d (RFindMissing ds bs true) =
               (d', Some (match fm_answer c (lru d) ds bs with [] => Missing [] | _ :: _ => MissingFailFast end)) /\
             fm_frame d d'.
Proof.
  intros HI. destruct (exec_fm c d ds bs true HI) as (d' & H1 & H2 & H3 & H4 & H5).
  exists d'. split; [|apply fm_frame_of; assumption].
  rewrite H1. unfold fm_result, fm_answer. cbn [andb app]. rewrite flat_slot_out.
  destruct (existsb (fun x => negb (present c (lru d) x)) (fm_todo ds bs)) eqn:E.
  - apply existsb_filter_cons in E. destruct (filter _ (fm_todo ds bs)); [congruence|reflexivity].
  - rewrite (existsb_filter_nil _ _ E). reflexivity.
Qed.

(* fail-fast answers "missing" exactly when the exact answer is non-empty *)
Corollary fm_failfast_iff c d ds bs d' r : Inv (lru d) ->
  exec c d (RFindMissing ds bs true) = (d', r) ->
  (r = Some MissingFailFast <-> fm_answer c (lru d) ds bs <> []) /\
  (r = Some (Missing []) <-> fm_answer c (lru d) ds bs = []).
Proof.
  intros HI H. destruct (fm_failfast c d ds bs HI) as (d2 & H1 & _). rewrite H in H1. inversion H1; subst.
  destruct (fm_answer c (lru d) ds bs); split; split; intros; congruence.
Qed.

Lemma fm_answer_in c l ds bs x :
  In x (fm_answer c l ds bs) <-> exists bh, In (x, bh) (fm_todo ds bs) /\ present c l (x, bh) = false.
Proof.
  unfold fm_answer. rewrite in_map_iff. split.
  - intros ([y bh] & H1 & H2). apply filter_In in H2 as [H2 H3]. cbn in H1. subst y.
    exists bh. split; [exact H2|]. apply negb_true_iff. exact H3.
  - intros (bh & H1 & H2). exists (x, bh). split; [reflexivity|]. apply filter_In. split; [exact H1|].
    rewrite H2. reflexivity.
Qed.

Theorem fm_empty_never_missing c l ds bs : ~ In (emptySha256, 0) (fm_answer c l ds bs).
Proof.
  intros H. apply fm_answer_in in H as (bh & _ & H). unfold present, present_local in H. cbn in H. discriminate.
Qed.

(* a digest above max_proxy_blob_size that is not in the local cache is reported missing at every
   position where it was requested, whatever the backend would have said *)
Theorem fm_oversize_never_present_from_backend c l ds bs h sz bh :
  sz > c_maxproxy c -> present_local l (h, sz) = false ->
  In ((h, sz), bh) (fm_todo ds bs) -> In (h, sz) (fm_answer c l ds bs).
Proof.
  intros Hsz Hl Hin. apply fm_answer_in. exists bh. split; [exact Hin|].
  unfold present. cbn [fst snd]. rewrite Hl. cbn [orb]. assert (E : (sz <=? c_maxproxy c) = false) by lia.
  rewrite E, andb_false_r. reflexivity.
Qed.

(* the backend's word counts only for digests within the limit *)
Theorem fm_present_cases c l x bh :
  present c l (x, bh) = true <->
  present_local l x = true \/
  (c_proxy c = true /\ snd x <= c_maxproxy c /\ exists fsz, bh = BHasYes fsz).
Proof.
  unfold present. cbn [fst snd]. split.
  - intros H. apply orb_true_iff in H as [H|H]; [left; exact H|right].
    apply andb_true_iff in H as [H H3]. apply andb_true_iff in H as [H1 H2].
    split; [exact H1|]. split; [lia|]. destruct bh as [|fsz]; [discriminate|]. exists fsz. reflexivity.
  - intros [H|(H1 & H2 & fsz & ->)]; [rewrite H; reflexivity|].
    rewrite H1. assert (E : (snd x <=? c_maxproxy c) = true) by lia. rewrite E. apply orb_true_r.
Qed.

Theorem fm_present_local_cases l h sz :
  present_local l (h, sz) = true <->
  (sz = 0 /\ h = emptySha256) \/
  (exists v, peek (lookup_key CAS h) l = Some v /\ mismatch sz (size v) = false).
Proof.
  unfold present_local. cbn [fst snd]. split.
  - intros H. apply orb_true_iff in H as [H|H].
    + left. apply andb_true_iff in H as [H1 H2]. apply String.eqb_eq in H2. split; [lia|exact H2].
    + right. destruct (peek (lookup_key CAS h) l) as [v|]; [|discriminate]. exists v.
      split; [reflexivity|]. apply negb_true_iff. exact H.
  - intros [[-> ->]|(v & -> & H)]; [reflexivity|]. rewrite H. apply orb_true_r.
Qed.

(* ------------------------------------------------------------------ *)
(* Contains (C18): the answer as a function of the index and the backend's word *)

Definition contains_proxy (c : cfg) (sz : Z) (b : bhas) : response :=
  if c_proxy c && (sz <=? c_maxproxy c) then
    match b with
    | BHasYes fsz => if (fsz <=? c_maxproxy c) && negb (mismatch sz fsz) then Has true fsz else Has false (-1)
    | BHasNo => Has false (-1)
    end
  else Has false (-1).

Definition contains_fun (c : cfg) (l : LRU.state) (k : kind) (hash : string) (sz : Z) (b : bhas) : response :=
  if negb (Z.of_nat (String.length hash) =? hashLen) then Has false (-1) else
  if kind_eqb k CAS && (sz <=? 0) && String.eqb hash emptySha256 then Has true 0 else
  match peek (lookup_key k hash) l with
  | Some v => if negb (mismatch sz (size v)) then Has true (size v) else contains_proxy c sz b
  | None => contains_proxy c sz b
  end.

Lemma tstep_has_start c d k hash sz b h tm :
  tstep c d (mkThread (RContains k hash sz b) HasStart h tm) =
  let req := RContains k hash sz b in
  if negb (Z.of_nat (String.length hash) =? hashLen) then Some (d, mkThread req (Done (Has false (-1))) h tm) else
  if kind_eqb k CAS && (sz <=? 0) && String.eqb hash emptySha256 then Some (d, mkThread req (Done (Has true 0)) h tm) else
  let '(l', g) := LRU.get (lookup_key k hash) (lru d) in
  match g with
  | Some (v, _) =>
      if negb (mismatch sz (size v)) then Some (set_lru l' d, mkThread req (Done (Has true (size v))) h tm)
      else Some (set_lru l' d, mkThread req HasProxy h tm)
  | None => Some (set_lru l' d, mkThread req HasProxy h tm)
  end.
Proof. reflexivity. Qed.

Lemma tstep_has_proxy c d k hash sz b h tm :
  tstep c d (mkThread (RContains k hash sz b) HasProxy h tm) =
  Some (d, mkThread (RContains k hash sz b) (Done (contains_proxy c sz b)) h tm).
Proof.
  unfold contains_proxy. cbn. destruct (c_proxy c && (sz <=? c_maxproxy c)); [|reflexivity].
  destruct b as [|fsz]; [reflexivity|]. destruct ((fsz <=? c_maxproxy c) && negb (mismatch sz fsz)); reflexivity.
Qed.

Theorem exec_contains c d k hash sz b : Inv (lru d) ->
  exists d', exec c d (RContains k hash sz b) = (d', Some (contains_fun c (lru d) k hash sz b)) /\ fm_frame d d'.
Proof.
  intros HI. unfold exec.
  change (spawn (RContains k hash sz b)) with (mkThread (RContains k hash sz b) HasStart 0 None).
  change (fuel_for (RContains k hash sz b)) with (S (S 22)).
  rewrite run_thread_S, tstep_has_start. unfold contains_fun. cbv zeta.
  assert (Hsame : fm_frame d d) by (apply fm_frame_of; [exact HI|apply same_refl|reflexivity|reflexivity]).
  destruct (negb (Z.of_nat (String.length hash) =? hashLen)).
  { erewrite run_done by reflexivity. exists d. split; [reflexivity|exact Hsame]. }
  destruct (kind_eqb k CAS && (sz <=? 0) && String.eqb hash emptySha256).
  { erewrite run_done by reflexivity. exists d. split; [reflexivity|exact Hsame]. }
  pose proof (get_same (lookup_key k hash) (lru d) HI) as HG.
  destruct (LRU.get (lookup_key k hash) (lru d)) as [l' g]. destruct HG as (HI' & HS & Hg).
  assert (Hfr : fm_frame d (set_lru l' d)) by (apply fm_frame_of; [exact HI'|exact HS|reflexivity|reflexivity]).
  unfold peek. subst g. destruct (find_key (lookup_key k hash) (order (lru d))) as [e|].
  - destruct (negb (mismatch sz (size (evalue (ent e))))).
    + erewrite run_done by reflexivity. exists (set_lru l' d). split; [reflexivity|exact Hfr].
    + rewrite run_thread_S, tstep_has_proxy. erewrite run_done by reflexivity.
      exists (set_lru l' d). split; [reflexivity|exact Hfr].
  - rewrite run_thread_S, tstep_has_proxy. erewrite run_done by reflexivity.
    exists (set_lru l' d). split; [reflexivity|exact Hfr].
Qed.

Lemma contains_proxy_true c sz b x :
  contains_proxy c sz b = Has true x <->
  c_proxy c = true /\ sz <= c_maxproxy c /\ b = BHasYes x /\ x <= c_maxproxy c /\ mismatch sz x = false.
Proof.
  unfold contains_proxy. split.
  - destruct (c_proxy c && (sz <=? c_maxproxy c)) eqn:E; [|discriminate].
    apply andb_true_iff in E as [E1 E2]. destruct b as [|fsz]; [discriminate|].
    destruct ((fsz <=? c_maxproxy c) && negb (mismatch sz fsz)) eqn:E3; [|discriminate].
    apply andb_true_iff in E3 as [E3 E4]. apply negb_true_iff in E4.
    intros H; inversion H; subst. repeat split; try assumption; lia.
  - intros (-> & H1 & -> & H2 & ->). assert (E1 : (sz <=? c_maxproxy c) = true) by lia.
    assert (E2 : (x <=? c_maxproxy c) = true) by lia. rewrite E1, E2. reflexivity.
Qed.

(* the key is in the local index with a compatible size *)
Definition local_entry (l : LRU.state) (k : kind) (hash : string) (sz : Z) (x : Z) : Prop :=
  exists v, peek (lookup_key k hash) l = Some v /\ mismatch sz (size v) = false /\ x = size v.

(* C18: "present" is answered exactly for the empty blob, a local entry of compatible size, or —
   only when nothing local answers — a backend object within max_proxy_blob_size, asked only for
   requests within it, whose size is compatible *)
Theorem contains_true_iff c l k hash sz b x :
  contains_fun c l k hash sz b = Has true x <->
  Z.of_nat (String.length hash) = hashLen /\
  ((k = CAS /\ sz <= 0 /\ hash = emptySha256 /\ x = 0) \/
   (~ (k = CAS /\ sz <= 0 /\ hash = emptySha256) /\
    (local_entry l k hash sz x \/
     ((forall y, ~ local_entry l k hash sz y) /\
      c_proxy c = true /\ sz <= c_maxproxy c /\ b = BHasYes x /\ x <= c_maxproxy c /\ mismatch sz x = false)))).
Proof.
  unfold contains_fun, local_entry.
  destruct (negb (Z.of_nat (String.length hash) =? hashLen)) eqn:E0.
  { apply negb_true_iff in E0. split; [discriminate|]. intros [H _]. lia. }
  apply negb_false_iff in E0.
  destruct (kind_eqb k CAS && (sz <=? 0) && String.eqb hash emptySha256) eqn:E1.
  { apply andb_true_iff in E1 as [E1 E3]. apply andb_true_iff in E1 as [E1 E2]. apply String.eqb_eq in E3.
    assert (Hk : k = CAS) by (destruct k; try discriminate; reflexivity).
    split.
    - intros H; inversion H; subst. split; [lia|]. left. repeat split; try reflexivity; lia.
    - intros [_ [(_ & _ & _ & ->)|[Hn _]]]; [reflexivity|]. exfalso. apply Hn. repeat split; try assumption; lia. }
  assert (HS : ~ (k = CAS /\ sz <= 0 /\ hash = emptySha256)).
  { intros (-> & H2 & ->). cbn in E1. assert (E : (sz <=? 0) = true) by lia. rewrite E in E1. discriminate. }
  destruct (peek (lookup_key k hash) l) as [v|].
  - destruct (mismatch sz (size v)) eqn:E2; cbn [negb].
    + rewrite contains_proxy_true. split.
      * intros H. split; [lia|]. right. split; [exact HS|]. right. split; [|exact H].
        intros y (v' & Hv & Hm & _). inversion Hv; subst. congruence.
      * intros [_ [(H1 & H2 & H3 & _)|[_ [(v' & Hv & Hm & _)|[_ H]]]]]; [exfalso; apply HS; tauto| |exact H].
        inversion Hv; subst. congruence.
    + split.
      * intros H; inversion H; subst. split; [lia|]. right. split; [exact HS|]. left. exists v. repeat split. exact E2.
      * intros [_ [(H1 & H2 & H3 & _)|[_ [(v' & Hv & Hm & ->)|[Hn _]]]]]; [exfalso; apply HS; tauto| |].
        -- inversion Hv; subst. reflexivity.
        -- exfalso. apply (Hn (size v)). exists v. repeat split. exact E2.
  - rewrite contains_proxy_true. split.
    + intros H. split; [lia|]. right. split; [exact HS|]. right. split; [|exact H].
      intros y (v' & Hv & _). discriminate.
    + intros [_ [(H1 & H2 & H3 & _)|[_ [(v' & Hv & _)|[_ H]]]]]; [exfalso; apply HS; tauto|discriminate|exact H].
Qed.

(* in particular an object above max_proxy_blob_size, or any object for a request above it, is never
   reported present on the backend's word *)
Corollary contains_oversize_never_from_backend c l k hash sz b x :
  contains_fun c l k hash sz b = Has true x -> (x > c_maxproxy c \/ sz > c_maxproxy c) ->
  (k = CAS /\ sz <= 0 /\ hash = emptySha256 /\ x = 0) \/ local_entry l k hash sz x.
Proof.
  intros H Hx. apply contains_true_iff in H as [_ [H|[_ [H|(_ & _ & H1 & _ & H2 & _)]]]]; [left; exact H|right; exact H|lia].
Qed.
