(* Proofs/ProxyBackends_queue.v — the bounded upload queue (backendproxy.StartUploaders and the
   non-blocking send in Put of httpproxy / grpcproxy; Model/ProxyBackends.v, [qstep]): for every
   sequence of Puts, worker receives and UploadFile completions, every item is in exactly one place
   (queue, worker, finished, refused), is handed to UploadFile at most once and never when it was
   refused, its reader is closed exactly when it was refused or its UploadFile returned, and the
   queue never holds more than its capacity.  Put is one step of a total function: it never waits. *)
From BR Require Import Base.Prelude Model.LRU Model.Disk Model.ProxyBackends.
Open Scope list_scope.
Open Scope Z_scope.

Definition cnt (l : list nat) (x : nat) : nat := count_occ Nat.eq_dec l x.
Definition hit (x y : nat) : nat := if Nat.eqb x y then 1%nat else 0%nat.
Definition lt1 (x n : nat) : nat := if Nat.ltb x n then 1%nat else 0%nat.

Lemma cnt_app l1 l2 x : cnt (l1 ++ l2) x = (cnt l1 x + cnt l2 x)%nat.
Proof. apply count_occ_app. Qed.

Lemma cnt_cons a l x : cnt (a :: l) x = (hit a x + cnt l x)%nat.
Proof.
  unfold cnt, hit. cbn [count_occ]. destruct (Nat.eq_dec a x) as [->|N].
  - rewrite Nat.eqb_refl. reflexivity.
  - destruct (Nat.eqb a x) eqn:E; [apply Nat.eqb_eq in E; contradiction|reflexivity].
Qed.

Lemma cnt_snoc l a x : cnt (l ++ [a]) x = (cnt l x + hit a x)%nat.
Proof. rewrite cnt_app, cnt_cons. change (cnt [] x) with 0%nat. lia. Qed.

Lemma mem_nat_In x l : mem_nat x l = true -> In x l.
Proof.
  unfold mem_nat. intros H. apply existsb_exists in H. destruct H as (y & Hy & E).
  apply Nat.eqb_eq in E. subst. exact Hy.
Qed.

Lemma cnt_remove a l x : In a l -> cnt l x = (cnt (remove_nat a l) x + hit a x)%nat.
Proof.
  induction l as [|y t IH]; intros Hin; [contradiction|].
  cbn [remove_nat]. destruct (Nat.eqb a y) eqn:E.
  - apply Nat.eqb_eq in E. subst y. rewrite cnt_cons. lia.
  - destruct Hin as [->|Hin]; [rewrite Nat.eqb_refl in E; discriminate|].
    rewrite !cnt_cons, (IH Hin). lia.
Qed.

Lemma remove_length a l : In a l -> List.length l = S (List.length (remove_nat a l)).
Proof.
  induction l as [|y t IH]; intros Hin; [contradiction|].
  cbn [remove_nat]. destruct (Nat.eqb a y) eqn:E; [reflexivity|].
  destruct Hin as [->|Hin]; [rewrite Nat.eqb_refl in E; discriminate|].
  cbn [List.length]. rewrite (IH Hin). reflexivity.
Qed.

(* where an item is *)
Definition places (s : qstate) (x : nat) : nat :=
  (cnt (q_queue s) x + cnt (q_running s) x + cnt (q_done s) x + cnt (q_dropped s) x)%nat.

Record qinv (c : qcfg) (s : qstate) : Prop := mkQInv {
  qi_place : forall x, places s x = lt1 x (q_next s);
  qi_started : forall x, cnt (q_started s) x = (cnt (q_running s) x + cnt (q_done s) x)%nat;
  qi_closed : forall x, cnt (q_closed s) x = (cnt (q_dropped s) x + cnt (q_done s) x)%nat;
  qi_cap : Z.of_nat (List.length (q_queue s)) <= Z.max 0 (q_cap c);
  qi_workers : Z.of_nat (List.length (q_running s)) <= Z.max 0 (q_workers c);
  qi_disabled : q_enabled c = false -> q_queue s = [] /\ q_running s = [] /\ q_started s = [] }.

Lemma qinv_init c : qinv c q_init.
Proof. constructor; cbn; intros; try reflexivity; try lia. repeat split. Qed.

Lemma hit_next x n : hit n x = (lt1 x (S n) - lt1 x n)%nat.
Proof.
  unfold hit, lt1. destruct (Nat.eqb n x) eqn:E; destruct (Nat.ltb x (S n)) eqn:E1; destruct (Nat.ltb x n) eqn:E2; lia.
Qed.

Lemma ltb_mono x n : (lt1 x n <= lt1 x (S n))%nat.
Proof.
  unfold lt1.
  destruct (Nat.ltb x n) eqn:E2; destruct (Nat.ltb x (S n)) eqn:E1; lia.
Qed.

Lemma qstep_inv c s e : qinv c s -> qinv c (qstep c s e).
Proof.
  intros [Hp Hs Hc Hcap Hw Hd]. destruct e as [| |id]; cbn [qstep].
  - (* Put *)
    destruct (q_enabled c) eqn:En; cbn [negb].
    + destruct (Z.of_nat (List.length (q_queue s)) <? q_cap c) eqn:Efull.
      * constructor; cbn [q_next q_queue q_running q_started q_done q_dropped q_closed]; intros; try apply Hs; try apply Hc; try assumption.
        -- unfold places in *. cbn [q_queue q_running q_done q_dropped q_next]. rewrite cnt_snoc.
           pose proof (Hp x). pose proof (hit_next x (q_next s)). pose proof (ltb_mono x (q_next s)). lia.
        -- rewrite app_length. cbn [List.length]. lia.
        -- congruence.
      * constructor; cbn [q_next q_queue q_running q_started q_done q_dropped q_closed]; intros; try apply Hs; try assumption.
        -- unfold places in *. cbn [q_queue q_running q_done q_dropped q_next]. rewrite cnt_snoc.
           pose proof (Hp x). pose proof (hit_next x (q_next s)). pose proof (ltb_mono x (q_next s)). lia.
        -- rewrite !cnt_snoc, Hc. lia.
        -- congruence.
    + constructor; cbn [q_next q_queue q_running q_started q_done q_dropped q_closed]; intros; try apply Hs; try assumption.
      * unfold places in *. cbn [q_queue q_running q_done q_dropped q_next]. rewrite cnt_snoc.
        pose proof (Hp x). pose proof (hit_next x (q_next s)). pose proof (ltb_mono x (q_next s)). lia.
      * rewrite !cnt_snoc, Hc. lia.
      * apply Hd. reflexivity.
  - (* Take *)
    destruct (q_queue s) as [|x0 rest] eqn:Eq; [constructor; try rewrite Eq; assumption|].
    destruct (Z.of_nat (List.length (q_running s)) <? q_workers c) eqn:Ew; [|constructor; try rewrite Eq; assumption].
    constructor; cbn [q_next q_queue q_running q_started q_done q_dropped q_closed]; intros; try apply Hc; try assumption.
    + unfold places in *. cbn [q_queue q_running q_done q_dropped q_next]. pose proof (Hp x) as H.
      rewrite Eq, cnt_cons in H. rewrite cnt_snoc. lia.
    + rewrite !cnt_snoc, Hs. lia.
    + cbn [List.length] in Hcap. lia.
    + rewrite app_length. cbn [List.length]. lia.
    + exfalso. destruct (Hd H) as (Hq & _). congruence.
  - (* Finish *)
    destruct (mem_nat id (q_running s)) eqn:Em; [|constructor; assumption].
    apply mem_nat_In in Em.
    constructor; cbn [q_next q_queue q_running q_started q_done q_dropped q_closed]; intros; try assumption.
    + unfold places in *. cbn [q_queue q_running q_done q_dropped q_next]. pose proof (Hp x) as H.
      rewrite (cnt_remove id _ x Em) in H. rewrite cnt_snoc. lia.
    + rewrite Hs, (cnt_remove id _ x Em), cnt_snoc. lia.
    + rewrite !cnt_snoc, Hc. lia.
    + pose proof (remove_length id _ Em). lia.
    + exfalso. destruct (Hd H) as (_ & Hr & _). rewrite Hr in Em. contradiction.
Qed.

Lemma qrun_inv_from c evs : forall s, qinv c s -> qinv c (fold_left (qstep c) evs s).
Proof. induction evs as [|e t IH]; intros s H; [exact H|]. cbn [fold_left]. apply IH, qstep_inv, H. Qed.

Lemma qrun_inv c evs : qinv c (qrun c evs).
Proof. apply qrun_inv_from, qinv_init. Qed.

(* ---- the statements *)

(* every item that was Put is in exactly one place; nothing else is anywhere *)
Lemma queue_conservation c evs x :
  places (qrun c evs) x = lt1 x (q_next (qrun c evs)).
Proof. apply (qi_place _ _ (qrun_inv c evs)). Qed.

(* handed to UploadFile at most once, and never when Put refused it *)
Lemma queue_upload_once c evs x :
  (cnt (q_started (qrun c evs)) x <= 1)%nat /\
  (cnt (q_started (qrun c evs)) x + cnt (q_dropped (qrun c evs)) x <= 1)%nat.
Proof.
  pose proof (qrun_inv c evs) as [Hp Hs _ _ _ _]. specialize (Hp x). specialize (Hs x).
  unfold places, lt1 in Hp. destruct (Nat.ltb x (q_next (qrun c evs))); lia.
Qed.

(* the reader is closed exactly once when the item was refused or its UploadFile returned, and not
   before: never while the item waits in the queue or is being uploaded *)
Lemma queue_closed_once c evs x :
  cnt (q_closed (qrun c evs)) x =
    (cnt (q_dropped (qrun c evs)) x + cnt (q_done (qrun c evs)) x)%nat /\
  (cnt (q_closed (qrun c evs)) x <= 1)%nat.
Proof.
  pose proof (qrun_inv c evs) as [Hp _ Hc _ _ _]. specialize (Hp x). specialize (Hc x).
  unfold places, lt1 in Hp. split; [exact Hc|]. destruct (Nat.ltb x (q_next (qrun c evs))); lia.
Qed.

(* bounded: at most cap items wait, at most numUploaders are in progress *)
Lemma queue_bounded c evs :
  Z.of_nat (List.length (q_queue (qrun c evs))) <= Z.max 0 (q_cap c) /\
  Z.of_nat (List.length (q_running (qrun c evs))) <= Z.max 0 (q_workers c).
Proof. pose proof (qrun_inv c evs) as [_ _ _ H1 H2 _]. split; assumption. Qed.

(* at quiescence every item was either refused by Put or uploaded once, its reader closed once *)
Lemma queue_quiescent c evs x :
  q_queue (qrun c evs) = [] -> q_running (qrun c evs) = [] -> (x < q_next (qrun c evs))%nat ->
  (cnt (q_dropped (qrun c evs)) x + cnt (q_started (qrun c evs)) x = 1)%nat /\
  cnt (q_closed (qrun c evs)) x = 1%nat.
Proof.
  intros Hq Hr Hx. pose proof (qrun_inv c evs) as [Hp Hs Hc _ _ _].
  specialize (Hp x). specialize (Hs x). specialize (Hc x). unfold places, lt1 in Hp. rewrite Hq, Hr in *.
  apply Nat.ltb_lt in Hx. rewrite Hx in Hp. unfold cnt in *. cbn [count_occ] in *. lia.
Qed.

(* with no queue (num_uploaders or max_queued_uploads not positive) nothing is ever uploaded *)
Lemma queue_disabled c evs : q_enabled c = false -> q_started (qrun c evs) = [].
Proof. intros H. pose proof (qrun_inv c evs) as [_ _ _ _ _ Hd]. apply Hd, H. Qed.

(* a Put is refused only when the queue is absent or full *)
Lemma put_refused_iff c s :
  q_dropped (qstep c s QPut) <> q_dropped s <->
  q_enabled c = false \/ q_cap c <= Z.of_nat (List.length (q_queue s)).
Proof.
  cbn [qstep]. destruct (q_enabled c); cbn [negb].
  - destruct (Z.of_nat (List.length (q_queue s)) <? q_cap c) eqn:E; cbn [q_dropped]; split.
    + intros H; contradiction H; reflexivity.
    + intros [H|H]; [discriminate|lia].
    + intros _. right. lia.
    + intros _ H. apply (f_equal (@List.length nat)) in H. rewrite app_length in H. cbn in H. lia.
  - cbn [q_dropped]. split; [intros _; left; reflexivity|].
    intros _ H. apply (f_equal (@List.length nat)) in H. rewrite app_length in H. cbn in H. lia.
Qed.
