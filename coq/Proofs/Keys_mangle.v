(* Proofs/Keys_mangle.v — instance-name mangling of action-cache keys: both front ends compute the
   same key, different (key, instance) pairs collide only through SHA-256, and without mangling the
   instance name plays no role.  H (SHA-256 in hex) is a Section variable. *)
From BR Require Import Base.Prelude Model.Keys Proofs.Keys_strings Proofs.Keys_url.
Open Scope string_scope.
Open Scope Z_scope.

Section Mangle.
Variable H : string -> string.
(* the only thing ever assumed about H, and only where stated: its values have the shape of a hash *)
Definition hash_valued : Prop := forall x, is_hash (H x) = true.

Lemma transform_is_hash k i : hash_valued -> is_hash k = true -> is_hash (transform_ac_key H k i) = true.
Proof. intros HV Hk. unfold transform_ac_key. destruct (String.eqb i ""); [exact Hk|apply HV]. Qed.

Lemma validate_hash_ok k size : is_hash k = true -> size <> 0 -> validate_hash k size = Ok tt.
Proof.
  intros Hk Hs. unfold validate_hash. apply Z.eqb_neq in Hs. rewrite Hs.
  rewrite (is_hash_length k Hk). cbn [Nat.eqb negb]. rewrite Hk. reflexivity.
Qed.

(* ---- agreement of the two front ends *)
Lemma http_key_of_instance (mangle v : bool) I h :
  no_newline I = true -> is_hash h = true ->
  http_request_key H mangle v (http_ac_url I h) =
  Some (kind_of false v, if mangle then transform_ac_key H h I else h).
Proof.
  intros HI Hh. unfold http_request_key. rewrite (parse_http_ac_url I h v HI Hh).
  destruct mangle, v; reflexivity.
Qed.

Lemma validate_hash_ok_inv k size : validate_hash k size = Ok tt -> is_hash k = true.
Proof.
  unfold validate_hash. destruct (size =? 0).
  - destruct (String.eqb k emptySha256) eqn:E; [|discriminate]. apply String.eqb_eq in E. subst k. reflexivity.
  - destruct (negb (String.length k =? 64)%nat); [discriminate|]. destruct (is_hash k); [reflexivity|discriminate].
Qed.

Lemma validate_hash_cases k size : validate_hash k size = Ok tt \/ validate_hash k size = Err EBadRequest.
Proof.
  unfold validate_hash. destruct (size =? 0); [destruct (String.eqb k emptySha256); auto|].
  destruct (negb (String.length k =? 64)%nat); [auto|]. destruct (is_hash k); auto.
Qed.

Lemma grpc_key_of_instance (mangle : bool) I h size :
  is_hash h = true -> size <> 0 ->
  grpc_ac_key H mangle h I size = Ok (if mangle then transform_ac_key H h I else h).
Proof. intros Hh Hs. unfold grpc_ac_key. rewrite validate_hash_ok by assumption. reflexivity. Qed.

(* what gRPC accepts was a well-formed hash BEFORE mangling; anything else is InvalidArgument,
   whatever the instance name and whether or not mangling is enabled *)
Lemma grpc_key_accept_inv (mangle : bool) k I size key :
  grpc_ac_key H mangle k I size = Ok key ->
  is_hash k = true /\ key = (if mangle then transform_ac_key H k I else k).
Proof.
  unfold grpc_ac_key. destruct (validate_hash k size) as [[]| | |] eqn:V; try discriminate.
  intros E. injection E as <-. split; [exact (validate_hash_ok_inv k size V)|reflexivity].
Qed.

Lemma grpc_rejects_malformed (mangle : bool) k I size :
  is_hash k = false -> grpc_ac_key H mangle k I size = Err EBadRequest.
Proof.
  intros N. unfold grpc_ac_key. destruct (validate_hash_cases k size) as [V|V]; rewrite V; [|reflexivity].
  apply validate_hash_ok_inv in V. congruence.
Qed.

Lemma mangle_agree (mangle : bool) I h :
  no_newline I = true -> is_hash h = true ->
  let key := if mangle then transform_ac_key H h I else h in
  front_key H mangle true true h I = Some (AC, key) /\
  front_key H mangle true false h I = Some (AC, key) /\
  front_key H mangle false true h I = Some (RAW, key).
Proof.
  intros HI Hh key. unfold front_key.
  rewrite !(http_key_of_instance mangle _ I h HI Hh).
  rewrite (grpc_key_of_instance mangle I h 1 Hh) by discriminate.
  repeat split; reflexivity.
Qed.

(* ---- separation *)
Lemma transform_separates k I k' I' :
  String.length k = String.length k' ->
  transform_ac_key H k I = transform_ac_key H k' I' ->
  (k = k' /\ I = I') \/
  (I <> "" /\ I' <> "" /\ k ++ I <> k' ++ I' /\ H (k ++ I) = H (k' ++ I')) \/
  (I = "" /\ I' <> "" /\ k = H (k' ++ I')) \/
  (I <> "" /\ I' = "" /\ H (k ++ I) = k').
Proof.
  intros L E. unfold transform_ac_key in E.
  destruct (String.eqb I "") eqn:EI, (String.eqb I' "") eqn:EI'.
  - apply String.eqb_eq in EI, EI'. subst I I'. left. split; [exact E|reflexivity].
  - apply String.eqb_eq in EI. apply String.eqb_neq in EI'. right; right; left. repeat split; assumption.
  - apply String.eqb_neq in EI. apply String.eqb_eq in EI'. right; right; right. repeat split; assumption.
  - apply String.eqb_neq in EI, EI'.
    destruct (string_dec (k ++ I) (k' ++ I')) as [Eq|Ne].
    + left. apply sapp_inv_len; assumption.
    + right; left. repeat split; assumption.
Qed.

(* the same key under two instance names *)
Lemma transform_separates_same_key k I I' :
  transform_ac_key H k I = transform_ac_key H k I' ->
  I = I' \/
  (k ++ I <> k ++ I' /\ H (k ++ I) = H (k ++ I')) \/
  (I = "" /\ k = H (k ++ I')) \/ (I' = "" /\ H (k ++ I) = k).
Proof.
  intros E. destruct (transform_separates k I k I' eq_refl E) as [[_ ?]|[(_ & _ & A & B)|[(A & _ & B)|(_ & A & B)]]]; auto.
Qed.

(* the same at the front ends, where well-formedness of the keys follows from acceptance *)
Lemma grpc_mangle_separates k I size k' I' size' key :
  grpc_ac_key H true k I size = Ok key -> grpc_ac_key H true k' I' size' = Ok key ->
  (k = k' /\ I = I') \/
  (I <> "" /\ I' <> "" /\ k ++ I <> k' ++ I' /\ H (k ++ I) = H (k' ++ I')) \/
  (I = "" /\ I' <> "" /\ k = H (k' ++ I')) \/
  (I <> "" /\ I' = "" /\ H (k ++ I) = k').
Proof.
  intros A B. apply grpc_key_accept_inv in A as [Hk ->]. apply grpc_key_accept_inv in B as [Hk' E].
  apply transform_separates; [|exact E].
  rewrite (is_hash_length k Hk), (is_hash_length k' Hk'). reflexivity.
Qed.

Lemma http_mangle_separates v url url' k h i k' h' i' :
  parse_request_url url v = Some (k, h, i) -> parse_request_url url' v = Some (k', h', i') ->
  k <> CAS -> k' <> CAS ->
  http_request_key H true v url = http_request_key H true v url' ->
  (h = h' /\ i = i') \/
  (i <> "" /\ i' <> "" /\ h ++ i <> h' ++ i' /\ H (h ++ i) = H (h' ++ i')) \/
  (i = "" /\ i' <> "" /\ h = H (h' ++ i')) \/
  (i <> "" /\ i' = "" /\ H (h ++ i) = h').
Proof.
  intros P P' N N' E. unfold http_request_key in E. rewrite P, P' in E.
  destruct (parse_request_url_sound url v k h i P) as (Hh & _).
  destruct (parse_request_url_sound url' v k' h' i' P') as (Hh' & _).
  assert (M : forall x, x <> CAS -> (true && (kind_eqb x AC || kind_eqb x RAW)) = true)
    by (intros []; cbn; congruence).
  rewrite (M k N), (M k' N') in E. injection E as _ E.
  apply transform_separates; [|exact E].
  rewrite (is_hash_length h Hh), (is_hash_length h' Hh'). reflexivity.
Qed.

(* ---- mangling disabled *)
Lemma mangle_off_http v I I' h :
  no_newline I = true -> no_newline I' = true -> is_hash h = true ->
  http_request_key H false v (http_ac_url I h) = http_request_key H false v (http_ac_url I' h).
Proof. intros HI HI' Hh. rewrite !http_key_of_instance by assumption. reflexivity. Qed.

Lemma mangle_off_grpc I I' h size : grpc_ac_key H false h I size = grpc_ac_key H false h I' size.
Proof. reflexivity. Qed.

(* instance names play no role for CAS requests, with or without mangling *)
Lemma cas_ignores_instance mangle v P P' h :
  no_newline P = true -> no_newline P' = true -> is_hash h = true ->
  http_request_key H mangle v (P ++ String "/" (kw true ++ h)) = Some (CAS, h) /\
  http_request_key H mangle v (P' ++ String "/" (kw true ++ h)) = Some (CAS, h).
Proof.
  intros HP HP' Hh. unfold http_request_key. rewrite !parse_prefixed by assumption.
  cbn [kind_of kind_eqb orb andb]. rewrite !andb_false_r. split; reflexivity.
Qed.

End Mangle.

(* ---- what is NOT true *)

(* an instance name containing a newline cannot be addressed over HTTP at all, while gRPC accepts it *)
Lemma newline_instance_refuted :
  exists I h, is_hash h = true /\ parse_request_url (http_ac_url I h) true = None /\
              forall H, exists k, grpc_ac_key H true h I 1 = Ok k.
Proof.
  exists (String nl ""), emptySha256. split; [reflexivity|]. split; [vm_compute; reflexivity|].
  intros H. eexists. apply grpc_key_of_instance; [reflexivity|discriminate].
Qed.
