(* Proofs/Front_fm.v — C10 on the gRPC adapter: FindMissingBlobs validates every digest and then hands
   the request's digest list, as it is, to the disk layer; so its answer is the disk-level exact
   answer (Proofs/Disk_fun_fm.fm_exact): the absent digests in request order, duplicates kept. *)
From Coq Require Import Permutation.
From BR Require Import Base.Prelude Model.LRU Proofs.LRU_inv Model.Disk Proofs.Disk_fun_fm Model.Front.
Open Scope Z_scope.

Definition all_valid (ds : list (string * Z)) : bool := forallb (fun x => validate_hash (fst x) (snd x)) ds.

Lemma find_missing_b_exact c d ds bs :
  Inv (lru d) -> all_valid ds = true ->
  exists d',
    find_missing_b c d ds bs = (d', SOk, fm_answer (fc_disk c) (lru d) ds bs) /\
    Inv (lru d') /\ (forall k, peek k (lru d') = peek k (lru d)) /\ files d' = files d /\
    cur (lru d') = cur (lru d) /\ res (lru d') = res (lru d) /\ evq (lru d') = evq (lru d) /\
    Permutation (order (lru d')) (order (lru d)).
Proof.
  intros HI HV. destruct (fm_exact (fc_disk c) d ds bs HI) as (d' & HE & HI' & HP & HF & _ & HC & HR & _ & HQ & _ & _ & HO).
  exists d'. unfold find_missing_b. fold (all_valid ds). rewrite HV. cbn [negb]. rewrite HE.
  split; [reflexivity|]. repeat (split; [assumption|]). assumption.
Qed.

Lemma find_missing_b_invalid c d ds bs :
  all_valid ds = false -> find_missing_b c d ds bs = (d, bad, []).
Proof. intros HV. unfold find_missing_b. fold (all_valid ds). rewrite HV. reflexivity. Qed.

(* the answer is a sub-list of the request: nothing is invented, order and multiplicity come from the request *)
Lemma fm_answer_sublist c l ds bs :
  exists keep : list bool, List.length keep = List.length ds /\
    fm_answer c l ds bs = map fst (filter snd (combine ds keep)).
Proof.
  unfold fm_answer, fm_todo.
  remember (bs ++ repeat BHasNo (List.length ds)) as col eqn:EC.
  assert (HL : (List.length ds <= List.length col)%nat).
  { subst col. rewrite app_length, repeat_length. lia. }
  clear EC. revert col HL. induction ds as [|x t IH]; intros col HL.
  - exists []. split; reflexivity.
  - destruct col as [|b col']; [cbn in HL; lia|]. cbn in HL.
    destruct (IH col' ltac:(lia)) as [keep [HK HE]].
    exists (negb (present c l (x, b)) :: keep). split; [cbn; lia|].
    cbn. destruct (present c l (x, b)); cbn; [exact HE|f_equal; exact HE].
Qed.
