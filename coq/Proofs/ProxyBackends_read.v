(* Proofs/ProxyBackends_read.v — the read side of the real proxies (Model/ProxyBackends.v):
   httpproxy.Get / Contains, grpcproxy.Get / Contains, the StreamReadCloser adapter. *)
From BR Require Import Base.Prelude Model.LRU Model.Disk Model.ProxyBackends.
Open Scope list_scope.
Open Scope Z_scope.

(* ------------------------------------------------------------------ *)
(* httpproxy.Get *)

(* "found" only for a 200 with a usable size, and the size handed up is exactly that metadata *)
Lemma http_get_found_inv v2cas rp s d e :
  http_get v2cas rp = PFound s d e ->
  exists r, rp = HReply r /\ h_status r = 200 /\ d = h_body r /\ e = h_berr r /\
            (if v2cas then 16 <= h_body r /\ 0 < s /\ s = h_hdrsize r else h_cl r = CLInt s).
Proof.
  unfold http_get, http_StatusNotFound, http_StatusOK.
  destruct rp as [|r]; [discriminate|].
  destruct (h_status r =? 404) eqn:E404; [discriminate|].
  destruct (h_status r =? 200) eqn:E200; cbn [negb]; [|discriminate].
  destruct v2cas.
  - destruct (h_body r <? 16) eqn:Eb; [discriminate|].
    destruct (h_hdrsize r <=? 0) eqn:Eh; [discriminate|].
    intros H; inversion H; subst. exists r. repeat split; lia.
  - destruct (h_cl r) as [|n|] eqn:Ecl; try discriminate.
    intros H; inversion H; subst. exists r. repeat split; try lia. exact Ecl.
Qed.

(* the converse: what a 200 with a usable size gives *)
Lemma http_get_found_v2 r :
  h_status r = 200 -> 16 <= h_body r -> 0 < h_hdrsize r ->
  http_get true (HReply r) = PFound (h_hdrsize r) (h_body r) (h_berr r).
Proof.
  intros Hs Hb Hh. unfold http_get, http_StatusNotFound, http_StatusOK. rewrite Hs. cbn.
  destruct (h_body r <? 16) eqn:Eb; [lia|]. destruct (h_hdrsize r <=? 0) eqn:Eh; [lia|]. reflexivity.
Qed.

Lemma http_get_found_raw r n :
  h_status r = 200 -> h_cl r = CLInt n ->
  http_get false (HReply r) = PFound n (h_body r) (h_berr r).
Proof.
  intros Hs Hc. unfold http_get, http_StatusNotFound, http_StatusOK. rewrite Hs, Hc. reflexivity.
Qed.

(* every status: 404 is a miss; everything else that is not 200 (1xx, 201..299, 3xx, 4xx, 5xx, any
   integer) is an error *)
Lemma http_get_status r v2cas :
  (h_status r = 404 -> http_get v2cas (HReply r) = PMiss) /\
  (h_status r <> 404 -> h_status r <> 200 -> http_get v2cas (HReply r) = PErr).
Proof.
  unfold http_get, http_StatusNotFound, http_StatusOK. split.
  - intros ->. reflexivity.
  - intros H4 H2. destruct (h_status r =? 404) eqn:E4; [lia|]. destruct (h_status r =? 200) eqn:E2; [lia|]. reflexivity.
Qed.

(* total: a Get answers error, miss or found, and every fault (transport error,
   status other than 200, missing / unparsable Content-Length, short or non-positive blob header)
   gives error or miss *)
Lemma http_get_total v2cas rp :
  http_get v2cas rp = PErr \/ http_get v2cas rp = PMiss \/
  exists s d e, http_get v2cas rp = PFound s d e.
Proof.
  unfold http_get. destruct rp as [|r]; [left; reflexivity|].
  destruct (h_status r =? http_StatusNotFound); [right; left; reflexivity|].
  destruct (negb (h_status r =? http_StatusOK)); [left; reflexivity|].
  destruct v2cas.
  - destruct (h_body r <? 16); [left; reflexivity|].
    destruct (h_hdrsize r <=? 0); [left; reflexivity|]. right; right; eauto.
  - destruct (h_cl r); [left; reflexivity| right; right; eauto | left; reflexivity].
Qed.

Definition http_fault (v2cas : bool) (rp : hreply) : Prop :=
  match rp with
  | HTransportErr => True
  | HReply r =>
      h_status r <> 200 \/
      (if v2cas then h_body r < 16 \/ h_hdrsize r <= 0
       else h_cl r = CLAbsent \/ h_cl r = CLBad)
  end.

Lemma http_get_fault_degrades v2cas rp :
  http_fault v2cas rp -> http_get v2cas rp = PErr \/ http_get v2cas rp = PMiss.
Proof.
  intros F. destruct (http_get_total v2cas rp) as [H|[H|(s & d & e & H)]]; [left; exact H|right; exact H|].
  exfalso. apply http_get_found_inv in H. destruct H as (r & -> & Hs & _ & _ & Hv).
  cbn [http_fault] in F. destruct F as [F|F]; [lia|].
  destruct v2cas.
  - destruct F; lia.
  - destruct F as [F|F]; rewrite F in Hv; discriminate.
Qed.

(* httpproxy.Contains *)
Lemma http_contains_yes_inv v2cas rp s :
  http_contains v2cas rp = HasYes s ->
  exists r, rp = HReply r /\ h_status r = 200 /\ s = (if v2cas then -1 else h_clen r).
Proof.
  unfold http_contains, http_StatusOK. destruct rp as [|r]; [discriminate|].
  destruct (h_status r =? 200) eqn:E; [|discriminate].
  destruct v2cas; intros H; inversion H; exists r; repeat split; lia.
Qed.

Lemma http_contains_total v2cas rp :
  http_contains v2cas rp = HasNo \/ exists s, http_contains v2cas rp = HasYes s.
Proof.
  unfold http_contains. destruct rp as [|r]; [left; reflexivity|].
  destruct (h_status r =? http_StatusOK); [|left; reflexivity]. destruct v2cas; right; eauto.
Qed.

(* ------------------------------------------------------------------ *)
(* grpcproxy.Get *)

Lemma fetch_digest_inv hex_ok fb s :
  fetch_digest hex_ok fb = FDDigest s -> hex_ok = true /\ fb = FBResp 0 (Some s).
Proof.
  unfold fetch_digest, code_NotFound, code_OK. destruct hex_ok; cbn [negb]; [|discriminate].
  destruct fb as [c|st d']; [discriminate|].
  destruct (st =? 5) eqn:E5; [discriminate|]. destruct (st =? 0) eqn:E0; cbn [negb]; [|discriminate].
  destruct d' as [s'|]; [|discriminate].
  intros H; inversion H. split; [reflexivity|]. f_equal. lia.
Qed.

(* "found": AC/RAW — GetActionResult succeeded and the size is the length of the marshalled result,
   delivered completely; CAS — the size is the requested one or, if unknown, the one FetchBlob's OK
   answer states, and the content is the concatenation of the ByteStream.Read messages *)
Lemma grpc_get_found_inv k hex_ok size g s d e :
  grpc_get k hex_ok size g = PFound s d e ->
  match k with
  | CAS => rd_open_err (g_rd g) = false /\ d = sum_chunks (rd_chunks (g_rd g)) /\ e = rd_end_err (g_rd g) /\
           (if size <? 0 then hex_ok = true /\ g_fb g = FBResp 0 (Some s) else s = size)
  | _ => g_ac g = ACOk s /\ d = s /\ e = false
  end.
Proof.
  unfold grpc_get. destruct k.
  - destruct (g_ac g) as [c|n]; [destruct (c =? code_NotFound); discriminate|].
    intros H; inversion H; subst. repeat split.
  - destruct (size <? 0) eqn:Es.
    + destruct (fetch_digest hex_ok (g_fb g)) as [|s'] eqn:Ef; try discriminate.
      destruct (rd_open_err (g_rd g)); [discriminate|].
      intros H; inversion H; subst. apply fetch_digest_inv in Ef. destruct Ef as (-> & ->). repeat split.
    + destruct (rd_open_err (g_rd g)); [discriminate|].
      intros H; inversion H; subst. repeat split.
  - destruct (g_ac g) as [c|n]; [destruct (c =? code_NotFound); discriminate|].
    intros H; inversion H; subst. repeat split.
Qed.

(* a miss is reported only for AC/RAW and only on the status NotFound: a CAS blob the backend does
   not have surfaces as an error (of the call or of the first Read of the returned stream) *)
Lemma grpc_get_miss_iff k hex_ok size g :
  grpc_get k hex_ok size g = PMiss <-> k <> CAS /\ g_ac g = ACErr 5.
Proof.
  unfold grpc_get, code_NotFound. split.
  - destruct k.
    + destruct (g_ac g) as [c|n]; [|discriminate]. destruct (c =? 5) eqn:E; [|discriminate].
      intros _. split; [discriminate|]. f_equal. lia.
    + destruct (size <? 0).
      * destruct (fetch_digest hex_ok (g_fb g)) as [|s']; try discriminate;
          destruct (rd_open_err (g_rd g)); discriminate.
      * destruct (rd_open_err (g_rd g)); discriminate.
    + destruct (g_ac g) as [c|n]; [|discriminate]. destruct (c =? 5) eqn:E; [|discriminate].
      intros _. split; [discriminate|]. f_equal. lia.
  - intros (Hk & Ha). destruct k; [| congruence |]; rewrite Ha; reflexivity.
Qed.

(* total: for EVERY backend answer a Get returns error, miss or found *)
Lemma grpc_get_total k hex_ok size g :
  grpc_get k hex_ok size g = PErr \/ grpc_get k hex_ok size g = PMiss \/
  exists s d e, grpc_get k hex_ok size g = PFound s d e.
Proof. destruct (grpc_get k hex_ok size g) as [| |s d e]; eauto. right; right; eauto. Qed.

(* an OK answer of FetchBlob that carries no blob_digest is an error for Get and "no" for Contains
   (it used to be a nil dereference) *)
Lemma grpc_no_digest_is_error hex_ok size g st :
  size < 0 -> g_fb g = FBResp st None ->
  grpc_get CAS hex_ok size g = PErr /\ grpc_contains CAS hex_ok size g = HasNo.
Proof.
  intros Hs Hf. unfold grpc_get, grpc_contains. destruct (size <? 0) eqn:Es; [|lia].
  assert (E : fetch_digest hex_ok (g_fb g) = FDErr).
  { unfold fetch_digest. rewrite Hf. destruct hex_ok; cbn [negb]; [|reflexivity].
    destruct (st =? code_NotFound); [reflexivity|]. destruct (negb (st =? code_OK)); reflexivity. }
  rewrite E. split; reflexivity.
Qed.

Definition grpc_fault (k : kind) (hex_ok : bool) (size : Z) (g : gscript) : Prop :=
  match k with
  | CAS => rd_open_err (g_rd g) = true \/
           (size < 0 /\ (hex_ok = false \/ (exists c, g_fb g = FBErr c) \/
                         (exists st d, g_fb g = FBResp st d /\ st <> 0) \/
                         (exists st, g_fb g = FBResp st None)))
  | _ => exists c, g_ac g = ACErr c
  end.

Lemma grpc_get_fault_degrades k hex_ok size g :
  grpc_fault k hex_ok size g ->
  grpc_get k hex_ok size g = PErr \/ grpc_get k hex_ok size g = PMiss.
Proof.
  intros F. destruct (grpc_get_total k hex_ok size g) as [H|[H|(s & d & e & H)]];
    [left; exact H|right; exact H|].
  exfalso. apply grpc_get_found_inv in H. destruct k.
  - destruct F as (c & F). destruct H as (H & _). congruence.
  - destruct H as (Ho & _ & _ & Hs). destruct F as [F|(Hneg & F)]; [congruence|].
    destruct (size <? 0) eqn:Es; [|lia]. destruct Hs as (Hh & Hf).
    destruct F as [F|[(c & F)|[(st & d' & F & Hst)|(st & F)]]]; try congruence;
      rewrite Hf in F; inversion F; lia.
  - destruct F as (c & F). destruct H as (H & _). congruence.
Qed.

(* grpcproxy.Contains *)
Lemma grpc_contains_yes_inv k hex_ok size g s :
  grpc_contains k hex_ok size g = HasYes s ->
  match k with
  | CAS => if size <? 0 then hex_ok = true /\ g_fb g = FBResp 0 (Some s)
           else s = size /\ exists n, g_fm g = FMResp n /\ n <= 0
  | _ => g_ac g = ACOk s /\ 0 <= s
  end.
Proof.
  unfold grpc_contains. destruct k.
  - destruct (grpc_get AC hex_ok size g) as [| |n d e] eqn:E; try discriminate.
    destruct (n <? 0) eqn:En; [discriminate|]. intros H; inversion H; subst.
    apply grpc_get_found_inv in E. destruct E as (E & _). split; [exact E|lia].
  - destruct (size <? 0) eqn:Es.
    + destruct (fetch_digest hex_ok (g_fb g)) as [|s'] eqn:Ef; try discriminate.
      intros H; inversion H; subst. apply fetch_digest_inv in Ef. exact Ef.
    + destruct (g_fm g) as [|n] eqn:Ef; [discriminate|].
      destruct (n >? 0) eqn:En; [discriminate|]. intros H; inversion H; subst.
      split; [reflexivity|]. exists n. split; [reflexivity|lia].
  - destruct (grpc_get RAW hex_ok size g) as [| |n d e] eqn:E; try discriminate.
    destruct (n <? 0) eqn:En; [discriminate|]. intros H; inversion H; subst.
    apply grpc_get_found_inv in E. destruct E as (E & _). split; [exact E|lia].
Qed.

Lemma grpc_contains_total k hex_ok size g :
  grpc_contains k hex_ok size g = HasNo \/ exists s, grpc_contains k hex_ok size g = HasYes s.
Proof. destruct (grpc_contains k hex_ok size g); eauto. Qed.

(* ------------------------------------------------------------------ *)
(* readcloser.go: with any read buffer size the adapter delivers exactly the concatenation of the
   message payloads, then io.EOF — or, when the stream ends with an error, a prefix of it and an
   error *)

Lemma firstn_short {A} (k : nat) (l : list A) :
  List.length (firstn k l) <> k -> firstn k l = l /\ (List.length l < k)%nat.
Proof.
  intros H. rewrite firstn_length in H.
  assert (L : (List.length l < k)%nat) by lia.
  split; [apply firstn_all2; lia|exact L].
Qed.

Lemma fs_app {A} (k : nat) (l r : list A) : firstn k l ++ skipn k l ++ r = l ++ r.
Proof. rewrite app_assoc, firstn_skipn. reflexivity. Qed.

Ltac fs_norm := cbn [r_buf r_msgs List.concat] in *; repeat rewrite <- app_assoc; rewrite ?fs_app; try reflexivity.

Lemma copy_all_clean k : (0 < k)%nat -> forall fuel s acc,
  (stream_measure s < fuel)%nat ->
  copy_all false k fuel s acc = Some (acc ++ r_buf s ++ List.concat (r_msgs s), false).
Proof.
  intros Hk. induction fuel as [|f IH]; intros [buf msgs] acc Hm; [lia|].
  cbn [copy_all]. unfold read1. cbn [r_buf r_msgs].
  destruct (Nat.eqb (List.length (firstn k buf)) k) eqn:E.
  - apply Nat.eqb_eq in E. rewrite IH.
    + fs_norm.
    + unfold stream_measure in *. cbn [r_buf r_msgs] in *. rewrite skipn_length.
      rewrite firstn_length in E. lia.
  - apply Nat.eqb_neq in E. apply firstn_short in E. destruct E as (E & L). rewrite E.
    destruct msgs as [|m ms].
    + cbn [List.concat]. rewrite app_nil_r. reflexivity.
    + rewrite IH.
      * fs_norm.
      * unfold stream_measure in *. cbn [r_buf r_msgs fold_right] in *. rewrite skipn_length. lia.
Qed.

Lemma copy_all_fail k : (0 < k)%nat -> forall fuel s acc,
  (stream_measure s < fuel)%nat ->
  exists p q, copy_all true k fuel s acc = Some (acc ++ p, true) /\
              r_buf s ++ List.concat (r_msgs s) = p ++ q.
Proof.
  intros Hk. induction fuel as [|f IH]; intros [buf msgs] acc Hm; [lia|].
  cbn [copy_all]. unfold read1. cbn [r_buf r_msgs].
  destruct (Nat.eqb (List.length (firstn k buf)) k) eqn:E.
  - apply Nat.eqb_eq in E.
    destruct (IH (mkR (skipn k buf) msgs) (acc ++ firstn k buf)) as (p & q & Hc & Hp).
    + unfold stream_measure in *. cbn [r_buf r_msgs] in *. rewrite skipn_length.
      rewrite firstn_length in E. lia.
    + exists (firstn k buf ++ p), q. split.
      * rewrite Hc. fs_norm.
      * cbn [r_buf r_msgs] in Hp. rewrite <- app_assoc, <- Hp. fs_norm.
  - apply Nat.eqb_neq in E. apply firstn_short in E. destruct E as (E & L). rewrite E.
    destruct msgs as [|m ms].
    + exists [], buf. split; [rewrite app_nil_r; reflexivity|]. cbn [List.concat]. rewrite app_nil_r. reflexivity.
    + destruct (IH (mkR (skipn (k - List.length buf) m) ms) (acc ++ buf ++ firstn (k - List.length buf) m))
        as (p & q & Hc & Hp).
      * unfold stream_measure in *. cbn [r_buf r_msgs fold_right] in *. rewrite skipn_length. lia.
      * exists (buf ++ firstn (k - List.length buf) m ++ p), q. split.
        -- rewrite Hc. fs_norm.
        -- cbn [r_buf r_msgs List.concat] in *. rewrite <- !app_assoc, <- Hp. fs_norm.
Qed.

(* Read never returns more than it was asked for, and a buffered remainder is served first *)
Lemma read1_len fail k s out s' :
  read1 fail k s = ROk out s' -> (List.length out <= k)%nat.
Proof.
  unfold read1. destruct (Nat.eqb (List.length (firstn k (r_buf s))) k) eqn:E.
  - intros H; inversion H; subst. apply Nat.eqb_eq in E. lia.
  - apply Nat.eqb_neq in E. destruct (r_msgs s) as [|m ms]; [destruct fail; discriminate|].
    intros H; inversion H; subst. rewrite app_length, !firstn_length. lia.
Qed.
