(* Proofs/LRU_refine_ops.v — the translated Reserve, Unreserve, Get, RemoveKey, RemoveElement (and the
   hand-written evictor step of GoLRURun.v) compute what Model/LRU.v computes. *)
From Coq Require Import Permutation.
From BR Require Import Base.Prelude Gen.Funcs Model.LRU Model.GoLRU Gen.LRUSrc Model.GoLRURun
  Proofs.LRU_inv Bridge.Bridge_LRU Proofs.LRU_refine_base Proofs.LRU_refine_loop Proofs.LRU_refine_prims
  Proofs.LRU_refine_add.
Open Scope list_scope.
Open Scope Z_scope.

Local Opaque wrap64 wrapU64 Gen.roundUp4k Gen.sumLargerThan.

Definition res_out (e : option errc) : result unit := match e with None => Ok tt | Some x => Err x end.

Lemma reserve_tail c c1 n :
  Bnd 0 0 (abs c1) -> WFm c1 -> (List.length (g_ll c1) <= S (List.length (g_ll c)))%nat ->
  0 < n <= g_maxSize c1 -> g_maxSize c1 <= two61 ->
  match
    match
      while (fuel_of c) (fun c0 : gst => Gen.sumLargerThan n (g_currentSize c0) (g_maxSize c0))
        (fun c0 : gst =>
           match ll_Back c0 with
           | Some v_ele => Next (LRUSrc_removeElement c0 v_ele)
           | None => Return (c0, Some EInternal)
           end) c1
    with
    | Some (Next c2) =>
        Some (set_reservedSize (set_currentSize c2 (wrap64 (g_currentSize c2 + n)))
                (wrap64 (g_reservedSize (set_currentSize c2 (wrap64 (g_currentSize c2 + n))) + n)),
              None)
    | Some (Return r0) => Some r0
    | None => None
    end
  with
  | Some (c', e) =>
      WFm c' /\
      (let '(s2, stuck) := evict_while (fun x : Z => sumLargerThan n x (maxs (abs c1))) (abs c1) in
       if stuck then (s2, Err EInternal)
       else (mkState (order s2) (next s2) (cur s2 + n) (unc s2) (res s2 + n) (maxs s2) (hard s2)
                     (evq s2) (qbytes s2) (peak s2), Ok tt)) = (abs c', res_out e)
  | None => False
  end.
Proof.
  intros HB Hm Hlen Hn HM.
  set (condG := fun c0 : gst => Gen.sumLargerThan n (g_currentSize c0) (g_maxSize c0)).
  set (body := fun c0 : gst => match ll_Back c0 with
                               | Some v_ele => @Next gst (gst * option errc) (LRUSrc_removeElement c0 v_ele)
                               | None => Return (c0, Some EInternal) end).
  set (condM := fun x : Z => sumLargerThan n x (maxs (abs c1))).
  assert (Hbody : forall c0, body c0 = match ll_Back c0 with
                                       | Some e => Next (LRUSrc_removeElement c0 e)
                                       | None => (fun c2 => Return (c2, Some EInternal)) c0 end) by reflexivity.
  assert (Hcond : forall c0, Bnd 0 0 (abs c0) -> g_maxSize c0 = g_maxSize c1 ->
                             condG c0 = condM (cur (abs c0))).
  { intros c0 HB0 HM0. unfold condG, condM. destruct (Bnd_P_nonneg _ _ _ HB0) as (P1 & _).
    pose proof (b_cur _ _ _ HB0) as P2. change (cur (abs c0)) with (g_currentSize c0) in *.
    rewrite HM0. change (maxs (abs c1)) with (g_maxSize c1).
    apply sumLargerThan_bridge; unfold two61, two62, maxInt64 in *; lia. }
  destruct (while_evict 0 0 (g_maxSize c1) (gst * option errc) condG condM
              (fun c2 => Return (c2, Some EInternal)) body
              Hbody Hcond (order (abs c1)) c1 eq_refl HB Hm eq_refl)
    as (c' & k & Hk & Hw & Ha & Hm' & HB' & HM' & Hs).
  assert (Hlen' : List.length (order (abs c1)) = List.length (g_ll c1)).
  { simpl. rewrite rev_length, map_length. reflexivity. }
  replace (fuel_of c) with (k + S (S (List.length (g_ll c)) - k))%nat by (unfold fuel_of; lia).
  rewrite Hw. unfold evict_while.
  destruct (evict_loop condM (order (abs c1)) (abs c1)) as [s3 stuck]. simpl in Ha, Hs. subst s3.
  destruct stuck.
  - destruct Hs as [Hnil Hc]. rewrite (while_return condG body c' (c', Some EInternal) _ Hc).
    + split; [exact Hm'|reflexivity].
    + unfold body. rewrite (ll_Back_nil c' Hnil). reflexivity.
  - rewrite (while_stop condG body c' _ Hs). split.
    + eapply WFm_ext; [| | |exact Hm']; reflexivity.
    + rewrite (Hcond c' HB' HM') in Hs. unfold condM, sumLargerThan in Hs.
      destruct (Bnd_P_nonneg _ _ _ HB') as (P1 & _ & P3).
      pose proof (a_res _ _ _ (b_acct _ _ _ HB')) as P4.
      change (maxs (abs c1)) with (g_maxSize c1) in Hs.
      change (cur (abs c')) with (g_currentSize c') in *.
      change (res (abs c')) with (g_reservedSize c') in *.
      f_equal. unfold abs. simpl.
      rewrite !w64 by (unfold two61, two63 in *; lia). reflexivity.
Qed.

Lemma Reserve_refines c n : WF c -> Inv (abs c) -> boundedb (abs c) (OReserve n) = true ->
  match LRUSrc_Reserve (fuel_of c) c n with
  | Some (c', e) => WFm c' /\ reserve n (abs c) = (abs c', res_out e)
  | None => False
  end.
Proof.
  intros HW HI Hb.
  unfold boundedb in Hb. rewrite !andb_true_iff in Hb. destruct Hb as (Hs & Hh).
  pose proof (sizes_ok_spec _ Hs) as (M1 & M2 & M3).
  destruct (acct_sums 0 0 _ (proj1 HI)) as (S1 & S2 & S3 & S4 & S5).
  pose proof HI as ([_ _ _ Ac Au Ar _ _ _] & Hcm & Hmp).
  unfold LRUSrc_Reserve, reserve.
  change (maxs (abs c)) with (g_maxSize c) in *.
  change (cur (abs c)) with (g_currentSize c) in *.
  change (res (abs c)) with (g_reservedSize c) in *.
  change (qbytes (abs c)) with (g_queuedEvictionsSize c) in *.
  change (hard (abs c)) with (g_maxSizeHardLimit c) in *.
  destruct (n =? 0) eqn:E0. { split; [apply HW|reflexivity]. }
  destruct (n <? 0) eqn:E1. { split; [apply HW|reflexivity]. }
  destruct (n >? g_maxSize c) eqn:E2. { split; [apply HW|reflexivity]. }
  rewrite sumLargerThan_bridge by (unfold two61, maxInt64 in *; lia).
  destruct (sumLargerThan n (g_reservedSize c) (g_maxSize c)) eqn:E3. { split; [apply HW|reflexivity]. }
  rewrite (calc_eq c n) by (unfold two61, two62, two64 in *; lia).
  cbv beta iota zeta.
  set (c1 := set_totalDiskSizePeak c _).
  change (upd_peak n (abs c)) with (abs c1).
  change (hard (abs c1)) with (g_maxSizeHardLimit c).
  change (g_maxSizeHardLimit c1) with (g_maxSizeHardLimit c).
  change (total_disk (abs c) n) with (g_currentSize c + g_queuedEvictionsSize c + n).
  assert (HW1 : WF c1) by (apply WF_set_peak; exact HW).
  assert (HI1 : Inv (abs c1)) by (apply (Inv_upd_peak n (abs c) HI)).
  assert (Hs1 : sizes_ok (abs c1) = true) by exact Hs.
  assert (Eh : ((g_maxSizeHardLimit c >? 0) &&
                (g_currentSize c + g_queuedEvictionsSize c + n >? wrapU64 (g_maxSizeHardLimit c)))
             = ((g_maxSizeHardLimit c >? 0) &&
                (g_currentSize c + g_queuedEvictionsSize c + n >? g_maxSizeHardLimit c))).
  { destruct (g_maxSizeHardLimit c >? 0) eqn:E4; [|reflexivity].
    rewrite wrapU64_id by lia. reflexivity. }
  rewrite Eh.
  destruct ((g_maxSizeHardLimit c >? 0) &&
            (g_currentSize c + g_queuedEvictionsSize c + n >? g_maxSizeHardLimit c)) eqn:E4.
  { split; [apply HW1|reflexivity]. }
  apply reserve_tail.
  - apply Inv_Bnd0; assumption.
  - apply HW1.
  - apply Nat.le_succ_diag_r.
  - change (g_maxSize c1) with (g_maxSize c). lia.
  - exact M1.
Qed.

Lemma Unreserve_refines c n : WF c -> Inv (abs c) -> boundedb (abs c) (OUnreserve n) = true ->
  let '(c', e) := LRUSrc_Unreserve c n in
  WFm c' /\ unreserve n (abs c) = (abs c', res_out e).
Proof.
  intros HW HI Hb.
  unfold boundedb in Hb. rewrite !andb_true_iff in Hb. destruct Hb as (Hm & Hn).
  destruct (acct_sums 0 0 _ (proj1 HI)) as (S1 & S2 & S3 & S4 & S5).
  pose proof HI as ([_ _ _ Ac Au Ar _ _ _] & Hcm & Hmp).
  unfold LRUSrc_Unreserve, unreserve.
  change (maxs (abs c)) with (g_maxSize c) in *.
  change (cur (abs c)) with (g_currentSize c) in *.
  change (res (abs c)) with (g_reservedSize c) in *.
  destruct (n =? 0) eqn:E0. { split; [apply HW|reflexivity]. }
  destruct (n <? 0) eqn:E1. { split; [apply HW|reflexivity]. }
  cbv zeta.
  rewrite !w64 by (unfold two63 in *; lia).
  destruct ((g_currentSize c - n <? 0) || (g_reservedSize c - n <? 0)) eqn:E2.
  { split; [apply HW|reflexivity]. }
  split.
  - eapply WFm_ext; [| | |exact (wf_m _ HW)]; reflexivity.
  - reflexivity.
Qed.

Lemma Get_refines c k : WF c ->
  let '(c', (v, e)) := LRUSrc_Get c k in
  WFm c' /\
  get k (abs c) = (abs c', match e with Some id => Some (v, id) | None => None end) /\
  match e with
  | Some id => In id (g_ll c') /\ map_get c k = Some id /\ In id (g_ll c) /\ c' = ll_MoveToFront c id
  | None => c' = c
  end.
Proof.
  intros HW. unfold LRUSrc_Get, get. rewrite (find_key_abs c k HW).
  destruct (map_get c k) as [ee|] eqn:Eg; cbn [option_map]; cbv beta iota zeta.
  - assert (Hee : In ee (g_ll c) /\ key c ee = k) by (apply (wf_map c (wf_m c HW)); exact Eg).
    destruct Hee as (Hin & Hk).
    split; [apply moveToFront_WFm; assumption|]. split.
    + rewrite (moveToFront_abs c ee (wf_nodup _ HW) Hin).
      rewrite (moveToFront_eq c ee Hin). reflexivity.
    + rewrite (moveToFront_eq c ee Hin). simpl. auto.
  - split; [apply HW|]. split; reflexivity.
Qed.

Lemma RemoveKey_refines c k : WF c -> Inv (abs c) -> sizes_ok (abs c) = true ->
  WFm (LRUSrc_RemoveKey c k) /\ remove_key k (abs c) = abs (LRUSrc_RemoveKey c k).
Proof.
  intros HW HI Hs. unfold LRUSrc_RemoveKey, remove_key. rewrite (find_key_abs c k HW).
  destruct (map_get c k) as [ee|] eqn:Eg; cbn [option_map]; cbv beta iota zeta.
  - assert (Hee : In ee (g_ll c) /\ key c ee = k) by (apply (wf_map c (wf_m c HW)); exact Eg).
    destruct (removeElement_listed c ee HW HI Hs (proj1 Hee)) as (H1 & H2).
    split; [exact H2|symmetry; exact H1].
  - split; [apply HW|reflexivity].
Qed.

(* the evictor (hand-written in GoLRURun.v, no arithmetic wrap) *)
Lemma evictor_refines c : WFm c ->
  WFm (fst (g_evictor_step c)) /\
  evictor_step (abs c) = (abs (fst (g_evictor_step c)), snd (g_evictor_step c)).
Proof.
  intros Hm. unfold g_evictor_step, evictor_step.
  change (evq (abs c)) with (g_queue c).
  destruct (g_queue c) as [|en t]; simpl; (split; [|reflexivity]).
  - exact Hm.
  - eapply WFm_ext; [| | |exact Hm]; reflexivity.
Qed.

Lemma drain_refines n : forall c, WFm c ->
  WFm (g_drain_n n c) /\ drain_n n (abs c) = abs (g_drain_n n c).
Proof.
  induction n as [|n IH]; intros c Hm; simpl; [split; [exact Hm|reflexivity]|].
  destruct (evictor_refines c Hm) as (H1 & H2). rewrite H2. simpl. apply IH. exact H1.
Qed.
