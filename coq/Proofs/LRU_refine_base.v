(* Proofs/LRU_refine_base.v — refinement of Model/LRU.v by the TRANSLATED lru.go (Gen/LRUSrc.v):
   definitions (WF, boundedb, Bnd) and the lemmas about the run-time of Model/GoLRU.v
   (container/list as a list of ids + heap, the Go map as an association list) against the
   model's recency list. *)
From Coq Require Import Permutation.
From BR Require Import Base.Prelude Gen.Funcs Model.LRU Model.GoLRU Gen.LRUSrc Model.GoLRURun
  Proofs.LRU_inv Bridge.Bridge_LRU.
Open Scope list_scope.
Open Scope Z_scope.

Local Opaque wrap64 wrapU64 Gen.roundUp4k Gen.sumLargerThan.

(* ------------------------------------------------------------------ *)
(* Well-formedness of the Go-level state *)

Definition key (c : gst) (id : nat) : string := ekey (elem_value c id).

(* the part that the model state does not see: the heap binds every listed element, and the
   Go map binds exactly the keys of the listed elements, each to its element *)
Record WFm (c : gst) : Prop := mkWFm {
  wf_heap : forall id, In id (g_ll c) -> In id (map fst (g_heap c));
  wf_map : forall k id, map_get c k = Some id <-> (In id (g_ll c) /\ key c id = k) }.

Record WF (c : gst) : Prop := mkWF {
  wf_nodup : NoDup (g_ll c);                                   (* element ids distinct *)
  wf_fresh : Forall (fun id => (id < g_next c)%nat) (g_ll c);  (* allocated before g_next *)
  wf_keys : NoDup (map (key c) (g_ll c));                      (* keys of listed elements distinct *)
  wf_m : WFm c }.

(* ------------------------------------------------------------------ *)
(* The side condition that rules out 64-bit wrap-around; on the MODEL state and the operation.
   What follows from LRU_inv.Inv (0 <= res <= cur <= maxs, 0 < maxs, stored sizes >= 0 and
   bounded by cur resp. unc, qbytes >= 0) is derived, not assumed.  maxs <= 2^61 (not 2^62)
   because an overwriting Add may queue the old AND the new blob: qbytes + 2*maxs must fit.
   Reserve's argument is unconstrained (negative and huge values return before any arithmetic);
   Unreserve's must be an int64.  The peak (uint64) is unconstrained. *)

Definition two62 : Z := 4611686018427387904.
Definition two61 : Z := 2305843009213693952.

Definition sizes_ok (s : state) : bool :=
  (maxs s <=? two61) && (unc s <? two62) && (qbytes s <? two62).

Definition boundedb (s : state) (o : op) : bool :=
  match o with
  | OAdd _ v => sizes_ok s && (0 <=? size v) && (size v <? two62)
                && (0 <=? sizeOnDisk v) && (sizeOnDisk v <? two62)
  | ORemoveKey _ | ORemoveElem _ => sizes_ok s
  | OReserve _ => sizes_ok s && (hard s <? two64)
  | OUnreserve n => (maxs s <? two63) && (n <? two63)
  | OGet _ | OEvictorStep | ODrain => true
  end.

Fixpoint bounded_run (s : state) (ops : list op) : bool :=
  match ops with
  | [] => true
  | o :: t => boundedb s o && bounded_run (fst (step s o)) t
  end.

Lemma boundedb_op_ok s o : boundedb s o = true -> op_ok o.
Proof. destruct o; simpl; try exact (fun _ => I). unfold item_ok. lia. Qed.

Definition sod (e : elem) : Z := sizeOnDisk (evalue (ent e)).

(* bounds that hold inside the eviction loops (with the pending delta of Add) *)
Record Bnd (d du : Z) (s : state) : Prop := mkBnd {
  b_acct : AcctD d du s;
  b_cur : cur s <= two62;
  b_unc : unc s <= two62;
  b_d : d <= two62;
  b_du : du <= two62;
  b_P : cur s + d <= maxInt64;
  b_U : unc s + du <= maxInt64;
  b_items : Forall (fun e => sod e <= two62 /\ size (evalue (ent e)) <= two62) (order s);
  b_q : qbytes s + sumZ sod (order s) <= maxInt64 }.

(* ------------------------------------------------------------------ *)
(* arithmetic *)

Lemma r4k_bridge n : 0 <= n <= two62 -> Gen.roundUp4k n = roundUp4k n.
Proof. intros H. apply roundUp4k_bridge. unfold maxInt64, two62 in *. lia. Qed.

Lemma r4k_le62 n : n <= two62 -> roundUp4k n <= two62.
Proof. unfold roundUp4k, two62. lia. Qed.

Lemma w64 z : - two63 <= z < two63 -> wrap64 z = z.
Proof. intros H. apply wrap64_id. exact H. Qed.

Lemma sumZ_ge_item {A} (f : A -> Z) l x :
  (forall y, In y l -> 0 <= f y) -> In x l -> f x <= sumZ f l.
Proof.
  induction l as [|a t IH]; simpl; intros Hnn Hin; [tauto|].
  assert (0 <= sumZ f t) by (apply sumZ_nonneg; intros; apply Hnn; right; assumption).
  destruct Hin as [->|Hin]; [lia|].
  assert (0 <= f a) by (apply Hnn; left; reflexivity).
  assert (f x <= sumZ f t) by (apply IH; [intros; apply Hnn; right; assumption|exact Hin]). lia.
Qed.

Lemma sumZ_le {A} (f g : A -> Z) l : (forall y, In y l -> f y <= g y) -> sumZ f l <= sumZ g l.
Proof.
  induction l as [|a t IH]; simpl; intros H; [lia|].
  assert (f a <= g a) by (apply H; left; reflexivity).
  assert (sumZ f t <= sumZ g t) by (apply IH; intros; apply H; right; assumption). lia.
Qed.

(* ------------------------------------------------------------------ *)
(* lists: remove_nat / remove_id / rev / map *)

Lemma mem_nat_In id l : mem_nat id l = true <-> In id l.
Proof.
  induction l as [|x t IH]; simpl; [split; [discriminate|tauto]|].
  rewrite orb_true_iff, IH, Nat.eqb_eq. tauto.
Qed.

Lemma remove_nat_notin id l : ~ In id l -> remove_nat id l = l.
Proof.
  induction l as [|x t IH]; simpl; intros H; [reflexivity|].
  destruct (Nat.eqb x id) eqn:E; [apply Nat.eqb_eq in E; tauto|]. f_equal. apply IH. tauto.
Qed.

Lemma In_remove_nat id x l : NoDup l -> (In x (remove_nat id l) <-> In x l /\ x <> id).
Proof.
  induction l as [|a t IH]; simpl; intros ND; [tauto|].
  inversion ND as [|? ? Ha ND']; subst.
  destruct (Nat.eqb a id) eqn:E.
  - apply Nat.eqb_eq in E; subst a. split.
    + intros H. split; [right; exact H|]. intros ->. exact (Ha H).
    + intros [[H|H] Hne]; [congruence|exact H].
  - apply Nat.eqb_neq in E. simpl. rewrite (IH ND'). split.
    + intros [->|[H1 H2]]; [split; [left; reflexivity|exact E]|split; [right; exact H1|exact H2]].
    + intros [[H|H] Hne]; [left; exact H|right; split; assumption].
Qed.

Lemma remove_nat_len id l : In id l -> S (List.length (remove_nat id l)) = List.length l.
Proof.
  induction l as [|a t IH]; simpl; intros H; [tauto|].
  destruct (Nat.eqb a id) eqn:E; [reflexivity|]. simpl. f_equal. apply IH.
  destruct H as [H|H]; [apply Nat.eqb_neq in E; congruence|exact H].
Qed.

Lemma remove_id_app_notin id l1 l2 :
  ~ In id (map eid l1) -> remove_id id (l1 ++ l2) = l1 ++ remove_id id l2.
Proof.
  induction l1 as [|a t IH]; simpl; intros H; [reflexivity|].
  destruct (Nat.eqb (eid a) id) eqn:E; [apply Nat.eqb_eq in E; tauto|]. f_equal. apply IH. tauto.
Qed.

Lemma remove_id_app_in id l1 l2 :
  In id (map eid l1) -> remove_id id (l1 ++ l2) = remove_id id l1 ++ l2.
Proof.
  induction l1 as [|a t IH]; simpl; intros H; [tauto|].
  destruct (Nat.eqb (eid a) id) eqn:E; [reflexivity|]. simpl. f_equal. apply IH.
  destruct H as [H|H]; [apply Nat.eqb_neq in E; congruence|exact H].
Qed.

Section RevMap.
  Variable f : nat -> elem.
  Hypothesis Hf : forall x, eid (f x) = x.

  Lemma map_eid_f l : map eid (map f l) = l.
  Proof. induction l as [|x t IH]; simpl; [reflexivity|]. rewrite Hf, IH. reflexivity. Qed.

  Lemma In_eid_rev id l : In id (map eid (rev (map f l))) <-> In id l.
  Proof. rewrite map_rev, map_eid_f, <- in_rev. tauto. Qed.

  Lemma remove_rev_map id l : NoDup l ->
    remove_id id (rev (map f l)) = rev (map f (remove_nat id l)).
  Proof.
    induction l as [|x t IH]; simpl; intros ND; [reflexivity|].
    inversion ND as [|? ? Hx ND']; subst.
    destruct (Nat.eqb x id) eqn:E.
    - apply Nat.eqb_eq in E; subst x.
      rewrite remove_id_app_notin by (rewrite In_eid_rev; exact Hx).
      simpl. rewrite Hf, Nat.eqb_refl. apply app_nil_r.
    - simpl. destruct (in_dec Nat.eq_dec id t) as [Hin|Hnin].
      + rewrite remove_id_app_in by (rewrite In_eid_rev; exact Hin). rewrite (IH ND'). reflexivity.
      + rewrite remove_id_app_notin by (rewrite In_eid_rev; exact Hnin).
        simpl. rewrite Hf, E. rewrite (remove_nat_notin _ _ Hnin). reflexivity.
  Qed.

  Lemma find_id_rev_map id l : In id l -> find_id id (rev (map f l)) = Some (f id).
  Proof.
    intros Hin. apply in_rev in Hin. rewrite <- map_rev. revert Hin. generalize (rev l). clear l.
    intros l. induction l as [|x t IH]; simpl; intros Hin; [tauto|].
    rewrite Hf. destruct (Nat.eqb x id) eqn:E; [apply Nat.eqb_eq in E; subst; reflexivity|].
    apply IH. destruct Hin as [H|H]; [apply Nat.eqb_neq in E; congruence|exact H].
  Qed.

  Lemma rev_map_cons l e t : rev (map f l) = e :: t ->
    exists l' x, l = l' ++ [x] /\ e = f x /\ t = rev (map f l').
  Proof.
    destruct l as [|a l0] using rev_ind; simpl; [discriminate|].
    rewrite map_app, rev_app_distr. simpl. intros H. inversion H; subst.
    exists l0, a. repeat split.
  Qed.
End RevMap.

Lemma abs_elem_eid c x : eid (abs_elem c x) = x.
Proof. reflexivity. Qed.

Lemma abs_elem_ext c c' l :
  (forall id, In id l -> heap_get id (g_heap c') = heap_get id (g_heap c)) ->
  map (abs_elem c') l = map (abs_elem c) l.
Proof.
  intros H. apply map_ext_in. intros id Hin. unfold abs_elem, elem_value. rewrite (H id Hin). reflexivity.
Qed.

Lemma map_key_abs c l : map key_of (map (abs_elem c) l) = map (key c) l.
Proof. rewrite map_map. reflexivity. Qed.

(* the list part of WF is what the model's accounting invariant says about [abs c] *)
Lemma acct_lists d du c : AcctD d du (abs c) ->
  NoDup (g_ll c) /\ Forall (fun id => (id < g_next c)%nat) (g_ll c) /\ NoDup (map (key c) (g_ll c)).
Proof.
  intros [Hk Hi Hf _ _ _ _ _ _]. simpl in Hk, Hi, Hf.
  rewrite map_rev, (map_eid_f _ (abs_elem_eid c)) in Hi. rewrite map_rev, map_key_abs in Hk.
  split; [|split].
  - apply NoDup_rev in Hi. rewrite rev_involutive in Hi. exact Hi.
  - apply Forall_forall. intros id Hin. rewrite Forall_forall in Hf.
    apply (Hf (abs_elem c id)). rewrite <- in_rev. apply in_map. exact Hin.
  - apply NoDup_rev in Hk. rewrite rev_involutive in Hk. exact Hk.
Qed.

Lemma WF_of_acct d du c : AcctD d du (abs c) -> WFm c -> WF c.
Proof. intros HA Hm. destruct (acct_lists d du c HA) as (H1 & H2 & H3). constructor; assumption. Qed.

Lemma key_inj c l a b : NoDup (map (key c) l) -> In a l -> In b l -> key c a = key c b -> a = b.
Proof.
  induction l as [|x t IH]; simpl; intros ND Ha Hb E; [tauto|].
  inversion ND as [|? ? Hx ND']; subst.
  destruct Ha as [->|Ha]; destruct Hb as [->|Hb]; try reflexivity.
  - exfalso. apply Hx. rewrite E. apply in_map. exact Hb.
  - exfalso. apply Hx. rewrite <- E. apply in_map. exact Ha.
  - apply IH; assumption.
Qed.

(* ------------------------------------------------------------------ *)
(* the heap and the map *)

Lemma heap_get_set_same id en h : heap_get id (heap_set id en h) = en.
Proof.
  induction h as [|[i e0] t IH]; simpl; [rewrite Nat.eqb_refl; reflexivity|].
  destruct (Nat.eqb i id) eqn:E; simpl; rewrite E; [reflexivity|exact IH].
Qed.

Lemma heap_get_set_other id id' en h : id' <> id -> heap_get id' (heap_set id en h) = heap_get id' h.
Proof.
  intros Hne. induction h as [|[i e0] t IH]; simpl.
  - destruct (Nat.eqb id id') eqn:E; [apply Nat.eqb_eq in E; congruence|reflexivity].
  - destruct (Nat.eqb i id) eqn:E; simpl.
    + apply Nat.eqb_eq in E; subst i.
      destruct (Nat.eqb id id') eqn:E2; [apply Nat.eqb_eq in E2; congruence|reflexivity].
    + destruct (Nat.eqb i id'); [reflexivity|exact IH].
Qed.

Lemma heap_set_dom id en h x : In x (map fst h) -> In x (map fst (heap_set id en h)).
Proof.
  induction h as [|[i e0] t IH]; simpl; [tauto|].
  destruct (Nat.eqb i id); simpl; intros [H|H]; auto.
Qed.

Lemma assoc_get_del_same k m : assoc_get k (assoc_del k m) = None.
Proof.
  induction m as [|[k' v] t IH]; simpl; [reflexivity|].
  destruct (String.eqb k' k) eqn:E; [exact IH|]. simpl. rewrite E. exact IH.
Qed.

Lemma assoc_get_del_other k k' m : k' <> k -> assoc_get k' (assoc_del k m) = assoc_get k' m.
Proof.
  intros Hne. induction m as [|[k0 v] t IH]; simpl; [reflexivity|].
  destruct (String.eqb k0 k) eqn:E.
  - apply String.eqb_eq in E; subst k0.
    destruct (String.eqb k k') eqn:E2; [apply String.eqb_eq in E2; congruence|exact IH].
  - simpl. destruct (String.eqb k0 k'); [reflexivity|exact IH].
Qed.

(* the Go map lookup is the model's [find_key] on the recency list *)
Lemma find_key_abs c k : WF c ->
  find_key k (order (abs c)) = option_map (abs_elem c) (map_get c k).
Proof.
  intros [ND _ HK [_ Hm]].
  destruct (map_get c k) as [id|] eqn:E; simpl.
  - apply Hm in E as [Hin Hk]. apply find_key_Some_iff.
    + rewrite map_rev, map_key_abs. apply NoDup_rev. exact HK.
    + rewrite <- in_rev. apply in_map. exact Hin.
    + exact Hk.
  - destruct (find_key k (rev (map (abs_elem c) (g_ll c)))) as [e|] eqn:F; [|reflexivity].
    exfalso. apply find_key_In in F as [Hin Hk]. rewrite <- in_rev in Hin.
    apply in_map_iff in Hin as (id & He & Hin). subst e.
    assert (H : map_get c k = Some id) by (apply Hm; split; [exact Hin|exact Hk]). congruence.
Qed.

(* ------------------------------------------------------------------ *)
(* [ll_Back] *)

Lemma ll_Back_snoc c l x : g_ll c = l ++ [x] -> ll_Back c = Some x.
Proof. intros H. unfold ll_Back. rewrite H, rev_app_distr. reflexivity. Qed.

Lemma ll_Back_nil c : g_ll c = [] -> ll_Back c = None.
Proof. intros H. unfold ll_Back. rewrite H. reflexivity. Qed.

Lemma abs_order_nil c : order (abs c) = [] -> g_ll c = [].
Proof.
  simpl. intros H. destruct (g_ll c) as [|x t]; [reflexivity|]. simpl in H.
  apply app_eq_nil in H as [_ H]. discriminate.
Qed.
