(* Proofs/ActionResult_roundtrip.v — a hit returns the stored message changed exactly as the
   specification [expected_transform] says (contents inlined or replaced by digests as requested
   and as the 3 MiB budget allows), and every de-inlined byte string is afterwards in the CAS
   under its true digest.

   Byte strings are abstracted to (length, true SHA-256).  The statements are relative to the
   usual reading of a content-addressed store: within one scenario a SHA-256 value names one
   byte string.  This is the Section variable [L] ("the length of THE byte string with this
   SHA-256") and the predicate [Good]; it is a hypothesis on the byte strings of the scenario,
   not an axiom, and an Example in Properties/C11.v instantiates it. *)
From BR Require Import Base.Prelude Gen.Consts Model.ActionResult
  Proofs.ActionResult_validate Proofs.ActionResult_store Proofs.ActionResult_history.
Open Scope string_scope.
Open Scope list_scope.
Open Scope Z_scope.

Definition two62 : Z := 4611686018427387904.

Lemma alookup_app {A} k (l1 l2 : list (string * A)) :
  alookup k (l1 ++ l2) = match alookup k l1 with Some v => Some v | None => alookup k l2 end.
Proof. induction l1 as [|[k' v] t IH]; simpl; [reflexivity|]. destruct (String.eqb k' k); [reflexivity|exact IH]. Qed.

Lemma alookup_in {A} k (l : list (string * A)) v : alookup k l = Some v -> In (k, v) l.
Proof.
  induction l as [|[k' v'] t IH]; simpl; [discriminate|]. destruct (String.eqb k' k) eqn:E.
  - apply String.eqb_eq in E. intros Q; inversion Q; subst. left; reflexivity.
  - intros Q. right. apply IH. exact Q.
Qed.

Section NoCollision.
  Variable L : string -> Z.
  Definition Good (b : bytes) : Prop := blen b = L (bsha b) /\ 0 <= blen b.
  Definition good_entry (hb : string * bytes) : Prop := bsha (snd hb) = fst hb /\ Good (snd hb).
  Definition GoodCas (s : mstore) : Prop := Forall good_entry (st_cas s).
  (* s' is s plus verified good blobs; action cache untouched *)
  Definition gext (s s' : mstore) : Prop :=
    st_ac s' = st_ac s /\ st_raw s' = st_raw s /\
    exists added, st_cas s' = added ++ st_cas s /\ Forall good_entry added.

  Lemma gext_refl s : gext s s.
  Proof. split; [reflexivity|split; [reflexivity|exists []; split; [reflexivity|constructor]]]. Qed.
  Lemma gext_trans a b c : gext a b -> gext b c -> gext a c.
  Proof.
    intros (A1 & B1 & x & E1 & T1) (A2 & B2 & y & E2 & T2). split; [congruence|split; [congruence|]].
    exists (y ++ x). rewrite E2, E1, app_assoc. split; [reflexivity|apply Forall_app; split; assumption].
  Qed.
  Lemma gext_good s s' : GoodCas s -> gext s s' -> GoodCas s'.
  Proof. intros G (_ & _ & x & E & T). unfold GoodCas. rewrite E. apply Forall_app; split; assumption. Qed.

  Lemma good_eq b b' : Good b -> Good b' -> bsha b = bsha b' -> b = b'.
  Proof. intros [A _] [B _] E. destruct b as [l h], b' as [l' h']; simpl in *. subst h'. congruence. Qed.

  (* an entry found under a hash stays THE entry found under that hash *)
  Lemma lookup_stable s s' h b :
    GoodCas s -> gext s s' -> alookup h (st_cas s) = Some b -> alookup h (st_cas s') = Some b.
  Proof.
    intros G (_ & _ & x & E & T) Q. rewrite E, alookup_app.
    destruct (alookup h x) as [b'|] eqn:Q'; [|exact Q].
    apply alookup_in in Q'. apply alookup_in in Q.
    rewrite Forall_forall in T. destruct (T _ Q') as [A1 A2]. unfold GoodCas in G. rewrite Forall_forall in G.
    destruct (G _ Q) as [B1 B2]. simpl in *. f_equal. apply good_eq; congruence.
  Qed.

  Definition cas_of (s : mstore) (g : digest) : option bytes :=
    match ms_cas_get s g with Ok (Some b) => Some b | _ => None end.
  Definition cas_has_sha (s : mstore) (h : string) : Prop := exists b, alookup h (st_cas s) = Some b.

  Lemma cas_has_sha_mono s s' h : gext s s' -> cas_has_sha s h -> cas_has_sha s' h.
  Proof.
    intros (_ & _ & x & E & _) [b Q]. unfold cas_has_sha. rewrite E, alookup_app.
    destruct (alookup h x) as [b'|]; [exists b'; reflexivity|exists b; exact Q].
  Qed.

  Lemma cas_of_stable s s' g b : GoodCas s -> gext s s' -> cas_of s g = Some b -> cas_of s' g = Some b.
  Proof.
    unfold cas_of, ms_cas_get. intros G X.
    destruct (negb (slen (hash g) =? sha256HashStrSize)); [discriminate|].
    destruct ((size_bytes g <=? 0) && String.eqb (hash g) emptySha); [trivial|].
    destruct (alookup (hash g) (st_cas s)) as [b0|] eqn:Q; [|discriminate].
    rewrite (lookup_stable _ _ _ _ G X Q). trivial.
  Qed.

  (* an inlinable field of a stored message: sizes in range, contents (if any) consistent with
     the digest beside them *)
  Definition FieldOK (c : bytes) (d : option digest) : Prop :=
    Good c /\ blen c < two62 /\
    (forall g, d = Some g -> slen (hash g) = 64 /\ 0 <= size_bytes g < two62) /\
    (0 < blen c -> slen (bsha c) = 64 /\ forall g, d = Some g -> size_bytes g = blen c /\ hash g = bsha c).

  Lemma present_cas_of s g :
    GoodCas s -> slen (hash g) = 64 -> 0 < size_bytes g -> ms_present s g = true ->
    exists b, cas_of s g = Some b /\ blen b = size_bytes g.
  Proof.
    unfold ms_present, cas_of, ms_cas_get. intros G H64 POS.
    replace (size_bytes g =? 0) with false by lia. replace (size_bytes g <=? 0) with false by lia. simpl.
    replace (slen (hash g) =? sha256HashStrSize) with true by (unfold sha256HashStrSize; lia). simpl.
    destruct (alookup (hash g) (st_cas s)) as [b|] eqn:Q; [|discriminate].
    intros M. apply negb_true_iff in M. rewrite M. exists b. split; [reflexivity|].
    apply alookup_in in Q. unfold GoodCas in G. rewrite Forall_forall in G. destruct (G _ Q) as [_ [_ NN]]. simpl in NN.
    unfold size_mismatch in M. lia.
  Qed.

  Ltac fin X := split; [reflexivity|split; [lia|split; [exact X|intros ? ? QQQ; discriminate QQQ]]].

  Lemma wrap_small a b : 0 <= a <= maxInline -> 0 <= b < two62 -> wrap64 (a + b) = a + b.
  Proof. intros A B. apply wrap64_id. unfold in_i64, two63, maxInline, maxInlineSize, two62 in *. lia. Qed.

  (* maybeInline computes the specified field transformation.  [s0]: the store when the request
     arrived (what [expected_transform] reads); [s]: the store now. *)
  Lemma maybe_inline_spec s0 s want c d used s' c' d' used' :
    GoodCas s0 -> gext s0 s -> 0 <= used <= maxInline -> FieldOK c d ->
    (blen c = 0 -> forall g, d = Some g -> ms_present s0 g = true) ->
    maybe_inline s want c d used = Ok (s', c', d', used') ->
    exists di, spec_field (cas_of s0) want used c d = (c', d', used', di) /\
      0 <= used' <= maxInline /\ gext s s' /\
      (forall g b, di = Some (g, b) -> g = true_digest b /\ Good b /\ cas_has_sha s' (bsha b)).
  Proof.
    intros G0 X0 U (GC & CS & DS & CO) PR H.
    pose proof (gext_refl s) as X.
    assert (Gs : GoodCas s) by (eapply gext_good; [exact G0|exact X0]).
    destruct GC as [GC1 GC2].
    unfold maybe_inline in H. unfold spec_field.
    rewrite (wrap_small used (blen c)) in H by lia.
    assert (FITS : (if used + blen c >? maxInline then false
                    else match d with
                         | Some g => if wrap64 (used + size_bytes g) >? maxInline then false else want
                         | None => want end)
                   = want && ((used + blen c <=? maxInline) && (used + dsize d <=? maxInline))).
    { destruct d as [g|]; simpl.
      - destruct (DS g eq_refl) as [_ B]. rewrite (wrap_small used (size_bytes g)) by lia.
        destruct (used + blen c >? maxInline) eqn:E1; destruct (used + size_bytes g >? maxInline) eqn:E2;
          destruct want; simpl; lia.
      - destruct (used + blen c >? maxInline) eqn:E1; destruct want; simpl; lia. }
    rewrite FITS in H. clear FITS.
    destruct (want && ((used + blen c <=? maxInline) && (used + dsize d <=? maxInline))) eqn:W; simpl in H.
    - (* inline *)
      apply andb_true_iff in W as [_ W]. apply andb_true_iff in W as [W1 W2].
      destruct (blen c >? 0) eqn:NE.
      + replace (0 <? blen c) with true by lia. inversion H; subst. exists None.
        fin X.
      + replace (0 <? blen c) with false by lia.
        destruct d as [g|]; [|inversion H; subst; exists None; fin X].
        destruct (DS g eq_refl) as [H64 B].
        destruct (size_bytes g =? 0) eqn:Z0.
        { replace (0 <? size_bytes g) with false by lia. inversion H; subst. exists None.
          fin X. }
        replace (size_bytes g >? 0) with true in H by lia. replace (0 <? size_bytes g) with true by lia.
        assert (BC : blen c = 0) by lia.
        destruct (present_cas_of s0 g G0 H64 ltac:(lia) (PR BC g eq_refl)) as [b [Q QL]].
        rewrite Q. pose proof (cas_of_stable _ _ _ _ G0 X0 Q) as Q1.
        unfold get_blob_data in H. replace (size_bytes g <? 0) with false in H by lia. rewrite Z0 in H.
        unfold cas_of in Q1. destruct (ms_cas_get s g) as [[b1|]| | |]; try discriminate. inversion Q1; subst b1.
        replace (blen b =? size_bytes g) with true in H by lia. simpl in H.
        rewrite wrap_small in H by lia. inversion H; subst. exists None.
        simpl in W2. fin X.
    - (* not inlined *)
      destruct (blen c =? 0) eqn:Z0.
      + replace (0 <? blen c) with false by lia. inversion H; subst. exists None.
        fin X.
      + replace (0 <? blen c) with true by lia.
        destruct (CO ltac:(lia)) as [S64 CD].
        set (g := match d with Some g => g | None => true_digest c end) in *.
        assert (GT : g = true_digest c).
        { unfold g. destruct d as [g0|]; [|reflexivity]. destruct (CD g0 eq_refl) as [A B]. destruct g0; simpl in *. subst. reflexivity. }
        exists (Some (g, c)).
        destruct (ms_contains s g) eqn:CT.
        * inversion H; subst.
          split; [reflexivity|split; [lia|split; [exact X|]]].
          intros g0 b QQ. inversion QQ; subst g0 b. split; [exact GT|split; [split; assumption|]].
          unfold ms_contains in CT. rewrite GT in CT. simpl in CT.
          destruct (negb (slen (bsha c) =? sha256HashStrSize)); [discriminate|].
          replace (blen c <=? 0) with false in CT by lia. simpl in CT.
          destruct (alookup (bsha c) (st_cas s')) as [b1|] eqn:Q; [|discriminate]. exists b1; exact Q.
        * assert (OKP : cas_put_ok g c = None).
          { unfold cas_put_ok. rewrite GT. simpl.
            replace (blen c <? 0) with false by lia.
            replace (slen (bsha c) =? sha256HashStrSize) with true by (unfold sha256HashStrSize; lia). simpl.
            rewrite Z0. simpl. rewrite Z.eqb_refl, String.eqb_refl. reflexivity. }
          simpl in H. rewrite OKP in H.
          replace ((size_bytes g =? 0) && String.eqb (hash g) emptySha) with false in H
            by (rewrite GT; simpl; rewrite Z0; reflexivity).
          inversion H; subst.
          assert (X' : gext s (mkStore (st_ac s) ((hash g, c) :: st_cas s) (st_raw s))).
          { split; [reflexivity|split; [reflexivity|]]. exists [(hash g, c)]. split; [reflexivity|].
            constructor; [|constructor]. split; [rewrite GT; reflexivity|split; assumption]. }
          split; [reflexivity|split; [lia|split; [exact X'|]]].
          intros g0 b QQ. inversion QQ; subst g0 b. split; [exact GT|split; [split; assumption|]].
          exists c. simpl. rewrite GT. simpl. rewrite String.eqb_refl. reflexivity.
  Qed.

  (* ---- the files ---- *)
  Definition FileOK (s0 : mstore) (f : option output_file) : Prop :=
    exists fv, f = Some fv /\ FieldOK (of_contents fv) (of_digest fv) /\
      (blen (of_contents fv) = 0 -> forall g, of_digest fv = Some g -> ms_present s0 g = true).

  Definition deinlined_ok (s : mstore) (dl : list (digest * bytes)) : Prop :=
    Forall (fun gb => fst gb = true_digest (snd gb) /\ Good (snd gb) /\ cas_has_sha s (bsha (snd gb))) dl.

  Lemma deinlined_ok_mono s s' dl : gext s s' -> deinlined_ok s dl -> deinlined_ok s' dl.
  Proof.
    intros X. unfold deinlined_ok. apply Forall_impl. intros [g b] (A & B & C).
    split; [exact A|split; [exact B|eapply cas_has_sha_mono; eassumption]].
  Qed.

  Lemma inline_files_spec s0 want fs : forall s used s' fs' used',
    GoodCas s0 -> gext s0 s -> 0 <= used <= maxInline -> Forall (FileOK s0) fs ->
    inline_files s want fs used = Ok (s', fs', used') ->
    exists dl, spec_files (cas_of s0) want used fs = (fs', used', dl) /\ gext s s' /\ deinlined_ok s' dl.
  Proof.
    induction fs as [|f t IH]; intros s used s' fs' used' G0 X U F H; simpl in H.
    - inversion H; subst. exists []. split; [reflexivity|split; [apply gext_refl|constructor]].
    - inversion F as [|? ? (fv & E & FO & PR) FT]; subst. simpl in H.
      destruct (maybe_inline s (mem_str (of_path fv) want) (of_contents fv) (of_digest fv) used) as [[[[s1 c] d] n1]| | |] eqn:M;
        simpl in H; try discriminate.
      destruct (maybe_inline_spec _ _ _ _ _ _ _ _ _ _ G0 X U FO PR M) as (di & SF & U1 & X1 & DI).
      destruct (inline_files s1 want t n1) as [[[s2 t'] n2]| | |] eqn:R; simpl in H; try discriminate.
      destruct (IH _ _ _ _ _ G0 (gext_trans _ _ _ X X1) U1 FT R) as (dl & ST & X2 & DL).
      inversion H; subst. simpl. rewrite SF, ST.
      destruct di as [[g b]|].
      + exists ((g, b) :: dl). split; [reflexivity|split; [eapply gext_trans; eassumption|]]. constructor; [|exact DL].
        destruct (DI g b eq_refl) as (A & B & C). split; [exact A|split; [exact B|]]. simpl.
        eapply cas_has_sha_mono; eassumption.
      + exists dl. split; [reflexivity|split; [eapply gext_trans; eassumption|exact DL]].
  Qed.

  (* ---- the whole read ---- *)
  Definition MsgOK (m : action_result) : Prop :=
    FieldOK (ar_stdout_raw m) (ar_stdout_digest m) /\ FieldOK (ar_stderr_raw m) (ar_stderr_digest m) /\
    Forall (fun f => forall fv, f = Some fv -> FieldOK (of_contents fv) (of_digest fv)) (ar_files m).

  Lemma in_files_without_contents fs fv g :
    In (Some fv) fs -> blen (of_contents fv) = 0 -> of_digest fv = Some g -> In g (files_without_contents fs).
  Proof.
    unfold files_without_contents. induction fs as [|f t IH]; simpl; [tauto|].
    intros [E|I] Z D.
    - subst f. simpl. rewrite Z, D. simpl. left; reflexivity.
    - destruct f as [f0|]; simpl; [|apply IH; assumption].
      destruct (if blen (of_contents f0) =? 0 then of_digest f0 else None); simpl; [right|]; apply IH; assumption.
  Qed.

  (* GetActionResult with dependency check: a hit is the specified transformation of the stored
     message, the store only gained verified blobs, the de-inlined byte strings are among them *)
  Theorem get_hit_is_expected tdec s rq key stored s' m :
    GoodCas s -> g_digest rq = Some key -> alookup (hash key) (st_ac s) = Some stored -> MsgOK stored ->
    get_action_result true tdec s (Some rq) = (s', Ok m) ->
    exists dl, expected_transform (cas_of s) stored rq = (m, dl) /\ gext s s' /\ deinlined_ok s' dl.
  Proof.
    intros G K LK (OK1 & OK2 & OKF) H.
    unfold get_action_result in H. rewrite K in H.
    destruct (negb (validate_key (hash key) (size_bytes key))); [inversion H|]. simpl in H.
    unfold get_validated in H.
    destruct (negb (slen (hash key) =? sha256HashStrSize)); [inversion H|].
    rewrite LK in H.
    destruct (validate_cases (Some stored)) as [V|V]; rewrite V in H; [|inversion H].
    rewrite (pending_files_valid _ V) in H.
    destruct (fetch_trees s tdec (ar_dirs stored)) as [[trees|]| | |]; try (inversion H; fail).
    destruct (forallb (ms_present s) (pending stored trees)) eqn:PRES; [|inversion H].
    rewrite forallb_forall in PRES.
    assert (P1 : forall g, ar_stdout_digest stored = Some g -> ms_present s g = true).
    { intros g E. apply PRES. unfold pending, deps. rewrite E. rewrite !in_app_iff. right; right; left; left; reflexivity. }
    assert (P2 : forall g, ar_stderr_digest stored = Some g -> ms_present s g = true).
    { intros g E. apply PRES. unfold pending, deps. rewrite E. rewrite !in_app_iff. right; right; right; left; reflexivity. }
    assert (PF : Forall (FileOK s) (ar_files stored)).
    { pose proof (wf_files _ (validate_sound _ V)) as WF. rewrite Forall_forall in *. intros f I.
      destruct (WF f I) as [fv [E _]]. subst f. exists fv. split; [reflexivity|split; [apply (OKF _ I); reflexivity|]].
      intros Z g D. apply PRES. unfold pending, deps. rewrite !in_app_iff. left.
      eapply in_files_without_contents; eassumption. }
    assert (U0 : 0 <= 0 <= maxInline) by (unfold maxInline, maxInlineSize; lia).
    destruct (as_unknown (maybe_inline s (g_stdout rq) (ar_stdout_raw stored) (ar_stdout_digest stored) 0)) as [[[[s1 c1] d1] n1]| | |] eqn:M1;
      try (inversion H; fail).
    assert (M1' : maybe_inline s (g_stdout rq) (ar_stdout_raw stored) (ar_stdout_digest stored) 0 = Ok (s1, c1, d1, n1))
      by (destruct (maybe_inline s (g_stdout rq) (ar_stdout_raw stored) (ar_stdout_digest stored) 0); simpl in M1; congruence).
    destruct (maybe_inline_spec _ _ _ _ _ _ _ _ _ _ G (gext_refl s) U0 OK1 (fun _ => P1) M1') as (di1 & S1 & U1 & X1 & D1).
    destruct (as_unknown (maybe_inline s1 (g_stderr rq) (ar_stderr_raw stored) (ar_stderr_digest stored) n1)) as [[[[s2 c2] d2] n2]| | |] eqn:M2;
      try (inversion H; fail).
    assert (M2' : maybe_inline s1 (g_stderr rq) (ar_stderr_raw stored) (ar_stderr_digest stored) n1 = Ok (s2, c2, d2, n2))
      by (destruct (maybe_inline s1 (g_stderr rq) (ar_stderr_raw stored) (ar_stderr_digest stored) n1); simpl in M2; congruence).
    destruct (maybe_inline_spec _ _ _ _ _ _ _ _ _ _ G X1 U1 OK2 (fun _ => P2) M2') as (di2 & S2 & U2 & X2 & D2).
    pose proof (gext_trans _ _ _ X1 X2) as X02.
    destruct (as_unknown (inline_files s2 (g_files rq) (ar_files stored) n2)) as [[[s3 fs] n3]| | |] eqn:M3;
      try (inversion H; fail).
    assert (M3' : inline_files s2 (g_files rq) (ar_files stored) n2 = Ok (s3, fs, n3))
      by (destruct (inline_files s2 (g_files rq) (ar_files stored) n2); simpl in M3; congruence).
    destruct (inline_files_spec _ _ _ _ _ _ _ _ G X02 U2 PF M3') as (dl & S3 & X3 & DL).
    inversion H; subst s' m.
    unfold expected_transform. rewrite S1, S2, S3.
    eexists. split; [reflexivity|]. split; [exact (gext_trans _ _ _ X02 X3)|].
    unfold deinlined_ok. apply Forall_app; split; [|apply Forall_app; split; [|exact DL]].
    - destruct di1 as [[g b]|]; [|constructor]. constructor; [|constructor].
      destruct (D1 g b eq_refl) as (A & B & C). split; [exact A|split; [exact B|]]. simpl.
      eapply cas_has_sha_mono; [exact (gext_trans _ _ _ X2 X3)|exact C].
    - destruct di2 as [[g b]|]; [|constructor]. constructor; [|constructor].
      destruct (D2 g b eq_refl) as (A & B & C). split; [exact A|split; [exact B|]]. simpl.
      eapply cas_has_sha_mono; eassumption.
  Qed.

  (* upload, anything that does not overwrite the key, then a hit *)
  Theorem roundtrip_after_upload tdec s0 e k a h s rq key s' m :
    accepted_upload s0 e = Some (k, a) ->
    no_later_upload tdec k (fst (ev_step tdec s0 e)) h ->
    s = ev_run tdec (fst (ev_step tdec s0 e)) h ->
    GoodCas s -> MsgOK a -> g_digest rq = Some key -> hash key = k ->
    get_action_result true tdec s (Some rq) = (s', Ok m) ->
    exists dl, expected_transform (cas_of s) a rq = (m, dl) /\ gext s s' /\ deinlined_ok s' dl.
  Proof.
    intros A N E G OK K HK H. subst s k.
    eapply get_hit_is_expected; try eassumption.
    rewrite (no_later_upload_lookup _ _ _ _ N).
    destruct (ev_step_ac tdec s0 e) as (Q & _). rewrite Q, A. simpl. rewrite String.eqb_refl. reflexivity.
  Qed.
End NoCollision.
